#!/bin/bash
# usage: mutconfirm.sh <worktree> <k>     confirm a seeded change independently:
#   suite passes with the patch; demo fails with it, passes without it.
# Works in the scratch worktree only. Prints a JSON summary line.
set -u
wt=$1; k=$2
export GOFLAGS=-mod=mod GOPROXY=off
unset GOTOOLCHAIN
cd $wt || exit 2
L=/tmp/mc_$(basename $(dirname $wt))_$(basename $wt)
git checkout -q -- . ; 
M=$wt/MUTANTS
demo=$M/m$k.demo_test.go
dir=$(grep -o -m1 -E '(internal/[a-z]+|actions|services|filter|faults|grpc|ent|controllers|parse|db)/' $demo | head -1 | sed 's|/$||')
cmd=$(python3 -c "import json;print(json.load(open('$M/m$k.meta.json'))['demo_cmd'])")
name=$(grep -o -E 'func (Test[A-Za-z0-9_]+)' $demo | head -1 | cut -d' ' -f2)
echo "demo dir=$dir test=$name"
cp $demo $wt/$dir/zz_mutant_demo${k}_test.go
# without patch
go test -vet=off -count=1 -run "^$name\$" ./$dir/ > $L.clean.log 2>&1; rc_clean=$?
git apply $M/m$k.patch.diff || { echo "patch does not apply"; exit 2; }
go test -vet=off -count=1 -run "^$name\$" ./$dir/ > $L.mut.log 2>&1; rc_mut=$?
rm -f $wt/$dir/zz_mutant_demo${k}_test.go
go build $(go list ./... | grep -v "cmd/mmmbbb\|MUTANTS") > $L.build.log 2>&1; rc_build=$?
for try in 1 2 3; do
  go test -vet=off -count=1 $(go list ./... | grep -v "cmd/mmmbbb\|MUTANTS") > $L.suite.log 2>&1; rc_suite=$?
  [ $rc_suite -eq 0 ] && break
  # the streamer test is flaky on the unmodified code too: re-run when it is the only failure
  [ -n "$(grep -E '^--- FAIL' $L.suite.log | grep -v TestMessageStreamer_Go)" ] && break
done
git checkout -q -- .
echo "RESULT k=$k demo_clean_rc=$rc_clean demo_mut_rc=$rc_mut build_rc=$rc_build suite_rc=$rc_suite tries=$try"
[ $rc_suite -ne 0 ] && grep -E "^(FAIL|---)" $L.suite.log | head
exit 0
