#!/bin/bash
# usage: mutconfirm.sh <worktree> <k>     confirm a seeded change independently:
#   suite passes with the patch; demo fails with it, passes without it.
# Works in the scratch worktree only. Prints a JSON summary line.
set -u
wt=$1; k=$2
export GOFLAGS=-mod=mod GOPROXY=off
unset GOTOOLCHAIN
cd $wt || exit 2
git checkout -q -- . ; 
M=$wt/MUTANTS
demo=$M/m$k.demo_test.go
dir=$(grep -o -m1 -E '(actions|services|filter|faults|internal/[a-z]+|grpc|ent|controllers|parse|db)(/[a-z-]+)*' $demo | head -1)
cmd=$(python3 -c "import json;print(json.load(open('$M/m$k.meta.json'))['demo_cmd'])")
name=$(grep -o -E 'func (Test[A-Za-z0-9_]+)' $demo | head -1 | cut -d' ' -f2)
echo "demo dir=$dir test=$name"
cp $demo $wt/$dir/zz_mutant_demo${k}_test.go
# without patch
go test -vet=off -count=1 -run "^$name\$" ./$dir/ > /tmp/mc_clean.log 2>&1; rc_clean=$?
git apply $M/m$k.patch.diff || { echo "patch does not apply"; exit 2; }
go test -vet=off -count=1 -run "^$name\$" ./$dir/ > /tmp/mc_mut.log 2>&1; rc_mut=$?
rm -f $wt/$dir/zz_mutant_demo${k}_test.go
go build $(go list ./... | grep -v "cmd/mmmbbb\|MUTANTS") > /tmp/mc_build.log 2>&1; rc_build=$?
go test -vet=off -count=1 $(go list ./... | grep -v "cmd/mmmbbb\|MUTANTS") > /tmp/mc_suite.log 2>&1; rc_suite=$?
git checkout -q -- .
echo "RESULT k=$k demo_clean_rc=$rc_clean demo_mut_rc=$rc_mut build_rc=$rc_build suite_rc=$rc_suite"
[ $rc_suite -ne 0 ] && grep -E "^(FAIL|---)" /tmp/mc_suite.log | head
exit 0
