#!/usr/bin/env python3
"""Rebuild a genprops spec from an existing Props/<name>.v (theorem name / lemma pairs, header,
imports), optionally appending more items: spec_from_props.py <name> [Thm=lemma ...]"""
import json, re, sys
name = sys.argv[1]
src = open("/verif/coq/theories/Props/%s.v" % name).read()
header = re.search(r"\(\* Props/\S+ -- (.*?)\n", src).group(1).strip()
imports = "\n".join(l for l in src.split("\n") if l.startswith("From ") or l.startswith("Require "))
items = re.findall(r"Theorem (\w+) :.*?Proof\. exact @(\w+)\. Qed\.", src, re.S)
for a in sys.argv[2:]:
    t, l = a.split("=")
    if (t, l) not in items:
        items.append((t, l))
json.dump([dict(name=name, header=header, imports=imports, items=items)], open("/verif/tools/specs/%s.json" % name, "w"), indent=1)
print(name, len(items), "items")
