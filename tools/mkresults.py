#!/usr/bin/env python3
"""Regenerate seeded/RESULTS.md from the meta.json files.
  mkresults.py record <dir-with-mutrun-outputs> <label>   store the outcome of a run of tools/mutrun2.sh in every meta.json
                                                          (detection[label] = {detected, violation_keys})
  mkresults.py write                                      write seeded/RESULTS.md"""
import glob, json, os, re, sys

def record(d, label):
    n = 0
    for md in sorted(glob.glob("/verif/seeded/C*-m*")):
        name = os.path.basename(md)
        meta = json.load(open(md + "/meta.json"))
        prop = meta["property"]
        out = os.path.join(d, "%s.%s.out" % (name, prop))
        if not os.path.exists(out):
            continue
        viol = [l for l in open(out) if l.startswith("VIOLATION")]
        keys = []
        err = out[:-4] + ".err"
        if os.path.exists(err):
            for l in open(err):
                m = re.match(r"\s*-> (.*?): ", l)
                if m and m.group(1) not in keys:
                    keys.append(m.group(1))
        meta.setdefault("detection", {})[label] = dict(detected=bool(viol), violation_keys=keys[:4])
        json.dump(meta, open(md + "/meta.json", "w"), indent=1)
        n += 1
    print("recorded", n, "as", label)

def write():
    rows = {1: [], 2: [], 3: [], 4: []}
    for md in sorted(glob.glob("/verif/seeded/C*-m*")):
        name = os.path.basename(md)
        meta = json.load(open(md + "/meta.json"))
        det = meta.get("detection", {})
        rnd = meta.get("round", 1)
        final = det.get("final", {})
        first = det.get("first_pass")
        keys = " / ".join(final.get("violation_keys") or []) or det.get("violation_keys", "") or "(none)"
        hist = det.get("history", "")
        if first is not None and not hist:
            hist = "caught as first run" if first.get("detected") else "missed at first"
        note = det.get("note", "")
        rows.setdefault(rnd, []).append("| %s | %s | %s | %s | %s |" % (name, meta["property"], "yes" if final.get("detected", det.get("detected", True)) else "NO",
                                                                     keys[:160], (hist + (" - " + note if note else ""))[:400]))
    out = ["# Seeded changes: which check catches which", "",
           "Breaking changes (`seeded/<id>-m<k>`): written by sub-agents that saw only the property text and a scratch worktree,",
           "confirmed by `tools/mutconfirm.sh`, run by `tools/mutrun2.sh` (snapshot of /verif, scratch worktree of /repo with the patch).",
           "`caught` = the property's own quick check exits 1 with a VIOLATION line in the FINAL regression run of all changes against the",
           "machinery as committed; `history` = what happened when the change was first run.",
           "The final regression of all 228 changes ran on 2026-10-02 from 06:53 UTC (two snapshots of /verif side by side); the checks of",
           "C10, C12, C16 and C18 were corrected afterwards (see DESIGN.md 13.7, round 6) and all 48 changes of those four properties were run again.", ""]
    for rnd in sorted(rows):
        if not rows[rnd]:
            continue
        caught = sum(1 for r in rows[rnd] if "| yes |" in r)
        out += ["## Round %d (%d changes, %d caught in the final regression)" % (rnd, len(rows[rnd]), caught), "",
                "| change | check | caught | violation keys (quick tier) | history |", "|---|---|---|---|---|"] + rows[rnd] + [""]
    neu = []
    alarms = 0
    for md in sorted(glob.glob("/verif/seeded/neutral/C*-n*")):
        meta = json.load(open(md + "/meta.json"))
        ch = meta.get("checks", {})
        bad = {c: v for c, v in ch.items() if v.get("rc") or v.get("violations")}
        alarms += len(bad)
        neu.append("| %s | %s | %s | %s | %s |" % (os.path.basename(md), ", ".join(meta.get("files", []))[:90], " ".join(sorted(ch)),
                                                "quiet" if not bad else "ALARM: " + "; ".join("%s %s" % (c, ",".join(v.get("keys", [])[:2])) for c, v in bad.items()),
                                                meta.get("alarm_note", "")))
    out += ["## Behaviour-preserving changes (%d; the checks must stay quiet; %d alarm(s) in the last run)" % (len(neu), alarms), "",
            "| change | files | checks run | outcome | note |", "|---|---|---|---|---|"] + neu + [""]
    open("/verif/seeded/RESULTS.md", "w").write("\n".join(out))
    print("written", sum(len(v) for v in rows.values()), "breaking,", len(neu), "neutral")

if __name__ == "__main__":
    if sys.argv[1] == "record":
        record(sys.argv[2], sys.argv[3])
    else:
        write()
