#!/usr/bin/env python3
"""import confirmed seeded changes from a sub-agent's scratch worktree into /verif/seeded/<id>-m<k>/"""
import json, os, shutil, sys
wt, pid = sys.argv[1], sys.argv[2]
confirm = sys.argv[3] if len(sys.argv) > 3 else ""
for k in (1, 2, 3):
    M = os.path.join(wt, "MUTANTS")
    if not os.path.exists(os.path.join(M, "m%d.patch.diff" % k)):
        continue
    d = "/verif/seeded/%s-m%d" % (pid, k + int(os.environ.get("MUT_OFFSET", "0")))
    os.makedirs(d, exist_ok=True)
    shutil.copy(os.path.join(M, "m%d.patch.diff" % k), os.path.join(d, "patch.diff"))
    shutil.copy(os.path.join(M, "m%d.demo_test.go" % k), os.path.join(d, "demo_test.go.txt"))
    meta = json.load(open(os.path.join(M, "m%d.meta.json" % k)))
    out = dict(property=pid, summary=meta.get("summary"), needs=meta.get("needs"), demo_cmd=meta.get("demo_cmd"),
               author="independent sub-agent given only the property text and a scratch worktree",
               author_ran=meta.get("ran"),
               confirmed_by_me=["tools/mutconfirm.sh in the scratch worktree: builds; existing suite (all packages except cmd/mmmbbb, which does not build at HEAD) passes with the patch; "
                                "demo passes without the patch and fails with it"],
               detection={})
    json.dump(out, open(os.path.join(d, "meta.json"), "w"), indent=1)
    print("imported", d)
