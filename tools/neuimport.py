#!/usr/bin/env python3
"""import confirmed behaviour-preserving changes from a sub-agent's scratch worktree into
/verif/seeded/neutral/<id>-n<k+offset>/   usage: NEU_OFFSET=3 neuimport.py <worktree> <id> "<confirmation text>" """
import json, os, re, shutil, subprocess, sys
wt, pid, conf = sys.argv[1], sys.argv[2], sys.argv[3]
off = int(os.environ.get("NEU_OFFSET", "0"))
for k in (1, 2, 3):
    N = os.path.join(wt, "NEUTRAL")
    pf = os.path.join(N, "n%d.patch.diff" % k)
    if not os.path.exists(pf):
        continue
    d = "/verif/seeded/neutral/%s-n%d" % (pid, k + off)
    os.makedirs(d, exist_ok=True)
    shutil.copy(pf, os.path.join(d, "patch.diff"))
    meta = json.load(open(os.path.join(N, "n%d.meta.json" % k)))
    files = sorted(set(re.findall(r"^\+\+\+ b/(\S+)", open(pf).read(), re.M)))
    out = dict(property=pid, summary=meta.get("summary"), why_preserved=meta.get("why_preserved"), ran=meta.get("ran"),
               kind="behaviour-preserving change (the property still holds): the checks must stay quiet",
               author="independent sub-agent given only the property text and a scratch worktree", confirmed_by_me=[conf], files=files, round=2)
    json.dump(out, open(os.path.join(d, "meta.json"), "w"), indent=1)
    print("imported", d)
