#!/usr/bin/env python3
"""Record, for the seeded changes of one round, what the checks reported.
usage: mutrecord.py <round> [name=note ...]   (reads /tmp/mutrun/<name>.<prop>.{out,err} written by tools/mutrun2.sh)
Writes seeded/<name>/meta.json 'detection' and prints the RESULTS.md rows."""
import glob, json, os, re, sys
rnd = int(sys.argv[1])
notes = dict(a.split("=", 1) for a in sys.argv[2:])
rows = []
for d in sorted(glob.glob("/verif/seeded/C*-m*")):
    name = os.path.basename(d)
    meta = json.load(open(d + "/meta.json"))
    if meta.get("round", 1) != rnd:
        continue
    prop = meta["property"]
    out = "/tmp/mutrun/%s.%s.out" % (name, prop)
    if not os.path.exists(out):
        continue
    viol = [l for l in open(out) if l.startswith("VIOLATION")]
    keys = []
    for l in open(out.replace(".out", ".err")):
        m = re.match(r"\s*-> (.*?): ", l)
        if m and m.group(1) not in keys:
            keys.append(m.group(1))
    hist = notes.get(name, "caught as first run")
    meta["detection"] = dict(check=prop, tier="quick", detected=bool(viol), violation_keys=" / ".join(keys[:4]), history=hist,
                             ran="tools/mutrun2.sh (snapshot of /verif, scratch worktree of /repo at HEAD with the patch applied): ./check %s --tier quick -> exit 1 with VIOLATION line(s)" % prop)
    json.dump(meta, open(d + "/meta.json", "w"), indent=1)
    rows.append("| %s | %s | %s | %s |" % (name, prop, " / ".join(keys[:3]) or "(none)", hist))
print("\n".join(rows))
