#!/bin/bash
# usage: muttry.sh <seeded-name>:<prop> ...   apply a seeded change to /repo, run the property's quick check, undo it at once
for spec in "$@"; do
  n=${spec%%:*}; p=${spec#*:}
  git -C /repo apply /verif/seeded/$n/patch.diff || { echo "$n: patch failed"; continue; }
  out=$(cd /verif && timeout 1500 ./check $p --tier ${TIER:-quick} 2>&1); rc=$?
  git -C /repo checkout -q -- . ; git -C /repo clean -fdq
  echo "$n $p: $(echo "$out" | grep -c '^VIOLATION') violation(s)"
  echo "$out" | grep -- '->' | head -${SHOW:-2} | cut -c1-330
done
[ -z "$(git -C /repo status --short)" ] || echo "WARNING: /repo not clean"
