#!/bin/bash
# usage: mutrun2.sh <tier> <seeded-name>:<prop>[,<prop>...] ...
# Runs seeded changes against a SNAPSHOT of /verif (rsync to /tmp/verif-snap) and a scratch
# worktree of /repo (/tmp/repo-mut), so that work in /verif and /repo can go on meanwhile.
# (tools/mutrun.sh does the same against /repo itself.)
tier=$1; shift
SNAP=${SNAP:-/tmp/verif-snap}; RM=${RM:-/tmp/repo-mut}
OUTD=${OUTD:-/tmp/mutrun}; mkdir -p $SNAP $OUTD
rsync -a --delete --exclude out/ --exclude work/ --exclude .git/ /verif/ $SNAP/
if [ ! -d $RM ]; then git -C /repo worktree add --detach $RM HEAD >/dev/null 2>&1; fi
git -C $RM checkout -q --detach $(git -C /repo rev-parse HEAD); git -C $RM checkout -q -- . ; git -C $RM clean -fdq
sed -i "s|=> /repo|=> $RM|" $SNAP/harness/go.mod
export VERIF_REPO=$RM
for spec in "$@"; do
  name=${spec%%:*}; props=${spec#*:}
  git -C $RM apply /verif/seeded/$name/patch.diff || { echo "$name patch failed"; continue; }
  for p in ${props//,/ }; do
    (cd $SNAP && timeout 2400 ./check $p --tier $tier > $OUTD/$name.$p.out 2> $OUTD/$name.$p.err); rc=$?
    echo "$name $p rc=$rc $(grep -c '^VIOLATION' $OUTD/$name.$p.out) violation(s) $(grep -c '^KNOWN' $OUTD/$name.$p.out) known"
    grep -- '->' $OUTD/$name.$p.err | head -3 | cut -c1-400
  done
  git -C $RM checkout -q -- . ; git -C $RM clean -fdq
done
