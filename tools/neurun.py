#!/usr/bin/env python3
"""Run the quick checks against the behaviour-preserving changes in seeded/neutral: each is
applied to a scratch worktree of /repo (/tmp/repo-mut) and the checks run from a snapshot of
/verif (/tmp/verif-snap) -- like tools/mutrun2.sh, but here every check must exit 0 with no
VIOLATION line.  Which checks run for a change is decided by the files it touches (plus the
property it was written for).   usage: neurun.py [name ...]    (default: all)"""
import glob, json, os, re, subprocess, sys, time
SNAP, RM = os.environ.get("NEU_SNAP", "/tmp/verif-snap"), os.environ.get("NEU_RM", "/tmp/repo-mut")   # (two instances can run side by side)
RULES = [
    (r"^filter/", ["C07", "C08"]),
    (r"^faults/|^grpc/faults|^controllers/fault", ["C18"]),
    (r"^internal/sqltypes", ["C17", "C04"]),
    (r"http-push", ["C19"]),
    (r"message-streamer|flow-control", ["C11", "C03", "C01", "C19"]),
    (r"^actions/notify", ["C10"]),
    (r"get-subscription-messages", ["C01", "C02", "C04", "C05", "C06", "C09", "C10", "C14"]),
    (r"publish-message|delivery-utils", ["C01", "C02", "C05", "C06", "C07", "C09"]),
    (r"ack-deliveries|nack-deliveries|delay-deliveries", ["C03", "C04", "C06", "C09", "C10"]),
    (r"seek-|create-snapshot", ["C13", "C09"]),
    (r"prune", ["C15", "C09", "C05"]),
    (r"actions/(create|delete)-|services/grpc", ["C12", "C16", "C17", "C09"]),
    (r"^parse/", ["C16", "C03"]),
    (r"^ent/", ["C01", "C06", "C09", "C03"]),
    (r"^actions/action", ["C09", "C01", "C03", "C10"]),
    (r"services/grpc-subscriber", ["C11", "C03", "C04", "C14"]),
    (r"^grpc/", ["C16", "C18"]),
    (r"services/(prune|deadletter|http-push|wrap|module)", ["C15", "C06", "C19", "C09"]),
    (r"^controllers/", ["C18"]),
]
def checks_for(meta):
    out = [meta["property"]]
    for f in meta["files"]:
        for rx, cs in RULES:
            if re.search(rx, f):
                out += [c for c in cs if c not in out]
    return out
def sh(cmd, **kw):
    return subprocess.run(cmd, shell=True, stdout=subprocess.PIPE, stderr=subprocess.STDOUT, text=True, **kw)
names = sys.argv[1:] or sorted(os.path.basename(d) for d in glob.glob("/verif/seeded/neutral/C*"))
os.makedirs("/tmp/neurun", exist_ok=True)
sh("rsync -a --delete --exclude out/ --exclude work/ --exclude .git/ /verif/ %s/" % SNAP)
if not os.path.isdir(RM):
    sh("git -C /repo worktree add --detach %s HEAD" % RM)
sh("git -C %s checkout -q --detach $(git -C /repo rev-parse HEAD); git -C %s checkout -q -- .; git -C %s clean -fdq" % (RM, RM, RM))
sh("sed -i 's|=> /repo|=> %s|' %s/harness/go.mod" % (RM, SNAP))
env = dict(os.environ, VERIF_REPO=RM)
for name in names:
    d = "/verif/seeded/neutral/" + name
    meta = json.load(open(d + "/meta.json"))
    r = sh("git -C %s apply %s/patch.diff" % (RM, d))
    if r.returncode:
        print(name, "patch failed", r.stdout[-200:], flush=True)
        continue
    res = meta.setdefault("checks", {})
    for c in checks_for(meta):
        t0 = time.time()
        r = subprocess.run("cd %s && timeout 2400 ./check %s --tier quick" % (SNAP, c), shell=True, env=env,
                           stdout=open("/tmp/neurun/%s.%s.out" % (name, c), "w"), stderr=open("/tmp/neurun/%s.%s.err" % (name, c), "w"))
        out = open("/tmp/neurun/%s.%s.out" % (name, c)).read()
        nv = len(re.findall(r"^VIOLATION", out, re.M))
        keys = [m.group(1) for m in re.finditer(r"^\s*-> (.*?): ", open("/tmp/neurun/%s.%s.err" % (name, c)).read(), re.M)]
        res[c] = dict(rc=r.returncode, violations=nv, keys=keys[:4], wall_s=round(time.time() - t0))
        print("%s %s rc=%d violations=%d %s" % (name, c, r.returncode, nv, "; ".join(keys[:3])[:300]), flush=True)
    json.dump(meta, open(d + "/meta.json", "w"), indent=1)
    sh("git -C %s checkout -q -- .; git -C %s clean -fdq" % (RM, RM))
