#!/bin/bash
# usage: mutrun.sh <seeded-name> <tier> <prop> [<prop>...]
# applies /verif/seeded/<name>/patch.diff to /repo, runs the checks, always restores /repo.
name=$1; tier=$2; shift 2
cd /verif
git -C /repo diff --quiet || { echo "/repo has local changes; refusing"; exit 2; }
git -C /repo apply /verif/seeded/$name/patch.diff || { echo "patch failed"; exit 2; }
trap 'git -C /repo checkout -- . ; echo restored' EXIT
mkdir -p /tmp/mutrun
for p in "$@"; do
  cp evidence/$p.json /tmp/mutrun/ev_$p.json 2>/dev/null
  timeout 1800 ./check $p --tier $tier > /tmp/mutrun/$name.$p.out 2> /tmp/mutrun/$name.$p.err; rc=$?
  cp /tmp/mutrun/ev_$p.json evidence/$p.json 2>/dev/null   # evidence must come from the unchanged tree
  echo "$name $p rc=$rc $(grep -c '^VIOLATION' /tmp/mutrun/$name.$p.out) violation(s): $(grep '^VIOLATION' /tmp/mutrun/$name.$p.out | head -2 | tr '\n' ' ')"
  grep -- '->' /tmp/mutrun/$name.$p.err | head -3
done
