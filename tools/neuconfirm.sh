#!/bin/bash
# usage: neuconfirm.sh <worktree>     confirm the behaviour-preserving changes of one worktree
# independently: each patch applies at HEAD, builds (with and without -tags verif) and the
# existing suite passes with it (re-run once when only the known flaky streamer test fails).
# Works in the scratch worktree only.
set -u
wt=$1
export GOFLAGS=-mod=mod GOPROXY=off
unset GOTOOLCHAIN
cd $wt || exit 2
id=$(basename $wt)
for k in 1 2 3; do
  p=$wt/NEUTRAL/n$k.patch.diff
  [ -f $p ] || continue
  git checkout -q -- . ; git clean -fdq -e NEUTRAL
  git apply $p || { echo "RESULT $id n$k patch-does-not-apply"; continue; }
  pk=$(go list ./... | grep -v "cmd/mmmbbb\|NEUTRAL\|MUTANTS")
  go build $pk > /tmp/nc_$id.build.log 2>&1; rb=$?
  go build -tags verif $pk >> /tmp/nc_$id.build.log 2>&1; rbv=$?
  rs=1
  for try in 1 2 3; do
    go test -vet=off -count=1 $pk > /tmp/nc_$id.suite.log 2>&1; rs=$?
    [ $rs -eq 0 ] && break
    bad=$(grep -E "^--- FAIL" /tmp/nc_$id.suite.log | grep -v "TestMessageStreamer_Go" | head -3)
    [ -n "$bad" ] && break
  done
  echo "RESULT $id n$k build_rc=$rb build_verif_rc=$rbv suite_rc=$rs tries=$try $(grep -E '^(--- FAIL|FAIL)' /tmp/nc_$id.suite.log | head -3 | tr '\n' ' ')"
  git checkout -q -- . ; git clean -fdq -e NEUTRAL
done
