(* Bus/L03_Step.v -- what one [step] does to the deliveries table (used by T_C03). *)
From MB Require Import Base.
From MB.Bus Require Import State Ops Step Defs L03_Lists L03_Rows.
Local Open Scope string_scope.
Open Scope list_scope.
Open Scope Z_scope.

(* ---------- operations that never write the deliveries table ---------- *)
Definition touches_dels (o : op) : bool :=
  match o with
  | Publish _ _ _ | ModAck _ _ _ _ | Ack _ _ _ | Pull _ _ _ _ _ _ _ | SeekTime _ _ _ | SeekSnap _ _ _
  | StreamAckNack _ _ _ _ _ | Job _ _ _ _ _ _ _ => true
  | _ => false
  end.

Ltac break_match :=
  repeat match goal with |- context [match ?x with _ => _ end] => destruct x end.

Lemma create_sub_dels st q fresh wnow : dels (r_state (create_sub st q fresh wnow)) = dels st.
Proof. unfold create_sub. break_match; reflexivity. Qed.

Lemma update_sub_dels st q paths wnow : dels (r_state (update_sub st q paths wnow)) = dels st.
Proof. unfold update_sub. break_match; reflexivity. Qed.

Lemma dels_unchanged st now o : touches_dels o = false -> dels (post st now o) = dels st.
Proof.
  destruct o; cbn [touches_dels]; try discriminate; intros _; unfold post, step;
    try apply create_sub_dels; try apply update_sub_dels; break_match; reflexivity.
Qed.

(* ---------- the shape of the steps that do ---------- *)
Lemma step_Publish_cases st now tname ms fr :
  (exists c, step st now (Publish tname ms fr) = fail st c) \/
  (exists t st' fr' w n, publish_all st t ms fr = Some (st', fr', w, n) /\
     step st now (Publish tname ms fr) = done st' (RIds (map pm_id ms)) w (n ++ leftover fr')).
Proof.
  unfold step. destruct (negb (valid_topic_name tname)); [left; eauto|].
  destruct (find_live_topic st tname) as [t|]; [|left; eauto].
  destruct (publish_all st t ms fr) as [[[[st' fr'] w] n]|] eqn:E; [|left; eauto].
  right. exists t, st', fr', w, n. auto.
Qed.

Definition pull_cands (st : state) (ret oth : list id) : list del :=
  flat_map (fun i => match get_del st i with Some d => [d] | None => [] end) (ret ++ oth).

Lemma step_Pull_cases st now name max ret oth wnow fz fr :
  (exists c, step st now (Pull name max ret oth wnow fz fr) = fail st c) \/
  (exists s st1 fr1 ps w n,
     find_live_sub st name = Some s /\
     apply_results (set_subs st (upd_where (fun x => N.eqb (s_id x) (s_id s))
                                           (s_set_expires (wnow + s_ttl s)) (subs st)))
                   s (pull_cands st ret oth) true false 0 pull_max_bytes now wnow fz fr
       = (st1, fr1, ps, w, n) /\
     step st now (Pull name max ret oth wnow fz fr) =
       done st1 (RPull ps) w
            ((if selection_legal st s now max ret oth then [] else ["illegal-selection"]) ++
             n ++ leftover fr1)).
Proof.
  unfold step, pull_cands. destruct (negb (valid_sub_name name)); [left; eauto|].
  destruct (max <? 1); [left; eauto|].
  destruct (find_live_sub st name) as [s|]; [|left; eauto].
  right. cbv zeta.
  match goal with |- context [apply_results ?a ?b ?c ?d ?e ?f ?g ?h ?i ?j ?k] =>
    destruct (apply_results a b c d e f g h i j k) as [[[[st1 fr1] ps] w] n] eqn:E end.
  exists s, st1, fr1, ps, w, n. auto.
Qed.

Lemma step_Stream_cases st now acks nacks wnow fz fr :
  exists st2 fr2 w2 n2,
    do_nack (set_dels st (upd_where (ack_pred acks) (d_set_completed wnow) (dels st)))
            nacks now wnow fz fr = (st2, fr2, w2, n2) /\
    step st now (StreamAckNack acks nacks wnow fz fr) =
      done st2 RUnit (distinct_subs (filter (ack_pred acks) (dels st)) ++ w2) (n2 ++ leftover fr2).
Proof.
  unfold step, do_ack. cbv beta iota.
  match goal with |- context [do_nack ?a ?b ?c ?d ?e ?f] =>
    destruct (do_nack a b c d e f) as [[[st2 fr2] w2] n2] eqn:E end.
  exists st2, fr2, w2, n2. auto.
Qed.

Lemma run_job_cases st now j mn mx ch failed wnow fr :
  let r := run_job st now j mn mx ch failed wnow fr in
  dels (r_state r) = dels st \/
  dels (r_state r) = map (d_null_link ch) (del_ids d_id ch (dels st)) \/
  (exists st1 fr1 w n, sweep_each st ch wnow fr = (st1, fr1, w, n) /\ r_state r = st1 /\
     r_notes r = (if choice_legal (job_matches st JDeadLetterSweep now mn) ch mx then []
                  else ["illegal-choice"]) ++ n ++ leftover fr1).
Proof.
  unfold run_job. cbv zeta. destruct failed.
  { left. destruct j; reflexivity. }
  destruct j; try (left; reflexivity); try (right; left; reflexivity).
  - left. destruct (existsb (topic_has_messages st) ch); reflexivity.
  - right; right.
    destruct (sweep_each st ch wnow fr) as [[[st1 fr1] w] n] eqn:E.
    exists st1, fr1, w, n. auto.
Qed.

(* ---------- row-wise rewrites ---------- *)
Lemma origin_upd F (p : del -> bool) f l :
  (forall x, d_id (f x) = d_id x /\ d_sub (f x) = d_sub x) -> origin F l (upd_where p f l).
Proof.
  intros Hf x Hx. left. apply upd_where_row in Hx. destruct Hx as [y [Hy [->|[_ ->]]]].
  - exists y. auto.
  - exists y. destruct (Hf y). auto.
Qed.

Lemma upd_completed (p : del -> bool) f l d d' t :
  (forall x, p x = true -> d_completed x = None) -> (forall x, d_id (f x) = d_id x) ->
  NoDup (map d_id l) -> In d l -> d_completed d = Some t ->
  In d' (upd_where p f l) -> d_id d' = d_id d -> d' = d.
Proof.
  intros Hp Hf ND Hd Hc Hd' E. apply upd_where_row in Hd'.
  destruct Hd' as [y [Hy [->|[Ep ->]]]].
  - apply (nodup_key_inj d_id l); assumption.
  - exfalso. rewrite Hf in E. assert (y = d) by (apply (nodup_key_inj d_id l); assumption).
    subst y. rewrite (Hp d Ep) in Hc. discriminate.
Qed.

Lemma ack_pred_none ids x : ack_pred ids x = true -> d_completed x = None.
Proof.
  unfold ack_pred. intros H. apply andb_prop in H. destruct H as [_ H].
  destruct (d_completed x); [discriminate|reflexivity].
Qed.

Lemma good_completed T fr fr' n l l' d d' :
  good T fr fr' n l l' -> n = [] -> NoDup (map d_id l) -> In d l -> ~ In (d_id d) T ->
  In d' l' -> d_id d' = d_id d -> d' = d.
Proof.
  intros [_ [_ K]] En ND Hd HT Hd' E.
  apply (nodup_key_inj d_id l); [exact ND| |exact Hd|exact E].
  apply (K En (d_id d) HT); [exists d; auto|exact E|exact Hd'].
Qed.

Lemma eligible_facts st s now y :
  eligible st s now y = true ->
  d_sub y = s_id s /\ d_completed y = None /\ now < d_expires y /\ d_attempt_at y <= now.
Proof.
  unfold eligible. intros H.
  apply andb_prop in H. destruct H as [H _].
  apply andb_prop in H. destruct H as [H H4].
  apply andb_prop in H. destruct H as [H H3].
  apply andb_prop in H. destruct H as [H1 H2].
  apply N.eqb_eq in H1. apply Z.ltb_lt in H3. apply Z.leb_le in H4.
  destruct (d_completed y); [discriminate|]. auto.
Qed.

Lemma selection_legal_rows st s now max ret oth :
  selection_legal st s now max ret oth = true ->
  forall i, In i (ret ++ oth) -> exists y, In y (dels st) /\ d_id y = i /\ eligible st s now y = true.
Proof.
  unfold selection_legal. cbv zeta. intros H i Hi.
  apply andb_prop in H. destruct H as [H _].
  apply andb_prop in H. destruct H as [H _].
  apply andb_prop in H. destruct H as [H _].
  apply andb_prop in H. destruct H as [_ H].
  apply Nat.eqb_eq in H.
  pose proof (flat_map_opt_full (fun i => find_id d_id i (filter (eligible st s now) (dels st)))
                                (ret ++ oth)) as F.
  unfold optl in F. destruct (F H i Hi) as [y Hy].
  apply find_id_some in Hy. destruct Hy as [Hy1 Hy2]. apply filter_In in Hy1.
  exists y. tauto.
Qed.

Lemma pull_cands_rows st ret oth x :
  In x (pull_cands st ret oth) -> In (d_id x) (ret ++ oth) /\ In x (dels st).
Proof.
  unfold pull_cands. intros H.
  apply (flat_map_opt_in (fun i => get_del st i)) in H. destruct H as [i [Hi H]].
  apply find_id_some in H. destruct H as [H1 H2]. subst i. auto.
Qed.

(* nack of a set of ids: rows that are already completed are out of reach *)
Lemma do_nack_keeps st ids now wnow fz fr st' fr' w n d t :
  do_nack st ids now wnow fz fr = (st', fr', w, n) -> n = [] ->
  NoDup (map d_id (dels st)) -> In d (dels st) -> d_completed d = Some t ->
  forall x, d_id x = d_id d -> (In x (dels st') <-> In x (dels st)).
Proof.
  unfold do_nack. intros E En ND Hd Hc x Ex.
  apply nack_each_good in E. destruct E as [_ [_ K]].
  apply (K En (d_id d)); [|exists d; auto|exact Ex].
  intros C. apply in_map_iff in C. destruct C as [y [Ey Hy]]. apply filter_In in Hy.
  destruct Hy as [Hy Hp].
  assert (y = d) by (apply (nodup_key_inj d_id (dels st)); assumption). subst y.
  rewrite Hc in Hp. cbn [is_none is_some negb] in Hp.
  rewrite ?andb_false_r, ?andb_false_l in Hp. discriminate.
Qed.

(* ---------- Seek ---------- *)
Definition srel (sid : id) (y x : del) : Prop :=
  d_id y = d_id x /\ d_sub y = d_sub x /\ (N.eqb (d_sub y) sid = false -> x = y).
Definition rowrel (sid : id) (l l' : list del) : Prop :=
  forall x, In x l' -> exists y, In y l /\ srel sid y x.

Lemma rowrel_refl sid l : rowrel sid l l.
Proof. intros x Hx. exists x. split; [exact Hx|]. repeat split; auto. Qed.

Lemma rowrel_trans sid l l1 l2 : rowrel sid l l1 -> rowrel sid l1 l2 -> rowrel sid l l2.
Proof.
  intros R1 R2 x Hx. destruct (R2 x Hx) as [y [Hy [A [B C]]]].
  destruct (R1 y Hy) as [z [Hz [A' [B' C']]]]. exists z. split; [exact Hz|].
  split; [congruence|]. split; [congruence|].
  intros H. assert (y = z) by (apply C'; exact H). subst z. apply C. exact H.
Qed.

Lemma rowrel_upd sid (p : del -> bool) f l :
  (forall y, p y = true -> N.eqb (d_sub y) sid = true) ->
  (forall y, d_id (f y) = d_id y /\ d_sub (f y) = d_sub y) ->
  rowrel sid l (upd_where p f l).
Proof.
  intros Hp Hf x Hx. apply upd_where_row in Hx. destruct Hx as [y [Hy [->|[Ep ->]]]].
  - exists y. split; [exact Hy|]. repeat split; auto.
  - exists y. split; [exact Hy|]. destruct (Hf y) as [A B]. split; [auto|]. split; [auto|].
    intros C. rewrite (Hp y Ep) in C. discriminate.
Qed.

Lemma rowrel_upd' sid (p : del -> bool) f l0 l :
  (forall y, p y = true -> N.eqb (d_sub y) sid = true) ->
  (forall y, d_id (f y) = d_id y /\ d_sub (f y) = d_sub y) ->
  rowrel sid l0 l -> rowrel sid l0 (upd_where p f l).
Proof.
  intros Hp Hf R. eapply rowrel_trans; [exact R|]. apply rowrel_upd; assumption.
Qed.

Ltac first_conj H := repeat (apply andb_prop in H; destruct H as [H _]); exact H.

Lemma seek_time_rowrel st s target now wnow :
  rowrel (s_id s) (dels st) (dels (fst (seek_time st s target now wnow))).
Proof.
  unfold seek_time. cbv zeta. cbn [fst dels set_dels].
  apply rowrel_upd'; [intros y H; first_conj H|apply d_revive_keys|].
  apply rowrel_upd'; [intros y H; first_conj H|apply d_set_completed_keys|].
  apply rowrel_refl.
Qed.

Lemma seek_snap_rowrel st s n now wnow :
  rowrel (s_id s) (dels st) (dels (fst (seek_snap st s n now wnow))).
Proof.
  unfold seek_snap. cbv zeta. cbn [fst dels set_dels].
  apply rowrel_upd'; [intros y H; first_conj H|apply d_revive_keys|].
  destruct (n_acked n).
  - apply rowrel_upd'; [intros y H; first_conj H|apply d_set_completed_keys|].
    apply rowrel_refl.
  - apply rowrel_upd'; [intros y H; first_conj H|apply d_set_completed_keys|].
    apply rowrel_upd'; [intros y H; first_conj H|apply d_set_completed_keys|].
    apply rowrel_refl.
Qed.

Lemma seek_time_fwd st s target now wnow d :
  N.eqb (d_sub d) (s_id s) = false -> In d (dels st) ->
  In d (dels (fst (seek_time st s target now wnow))).
Proof.
  intros H Hd. unfold seek_time. cbv zeta. cbn [fst dels set_dels].
  apply upd_where_keep; [apply upd_where_keep; [exact Hd|]|]; cbv beta; rewrite H; reflexivity.
Qed.

Lemma seek_snap_fwd st s n now wnow d :
  N.eqb (d_sub d) (s_id s) = false -> In d (dels st) ->
  In d (dels (fst (seek_snap st s n now wnow))).
Proof.
  intros H Hd. unfold seek_snap. cbv zeta. cbn [fst dels set_dels].
  apply upd_where_keep; [|cbv beta; rewrite H; reflexivity].
  destruct (n_acked n).
  - apply upd_where_keep; [exact Hd|cbv beta; rewrite H; reflexivity].
  - apply upd_where_keep; [apply upd_where_keep; [exact Hd|]|]; cbv beta; rewrite H; reflexivity.
Qed.

(* the shape of a seek step *)
Lemma step_seek_cases st now o :
  (match o with SeekTime _ _ _ | SeekSnap _ _ _ => True | _ => False end) ->
  post st now o = st \/
  (exists s, (forall sid, is_seek_of st o sid = N.eqb (s_id s) sid) /\
     ((exists target wnow, post st now o = fst (seek_time st s target now wnow)) \/
      (exists n wnow, post st now o = fst (seek_snap st s n now wnow)))).
Proof.
  destruct o; intros Ho; cbn in Ho; try contradiction; clear Ho; unfold post, step.
  - destruct (negb (valid_sub_name name)); [left; reflexivity|].
    destruct (find_live_sub st name) as [s|] eqn:Es; [|left; reflexivity].
    right. exists s. split.
    + intros sid. unfold is_seek_of, sub_of_name. rewrite Es. reflexivity.
    + left. exists target, wnow. destruct (seek_time st s target now wnow); reflexivity.
  - destruct (negb (valid_sub_name name)); [left; reflexivity|].
    destruct (negb (valid_snap_name snapname)); [left; reflexivity|].
    destruct (find_live_sub st name) as [s|] eqn:Es; [|left; reflexivity].
    destruct (find_snap st snapname) as [n|]; [|left; reflexivity].
    right. exists s. split.
    + intros sid. unfold is_seek_of, sub_of_name. rewrite Es. reflexivity.
    + right. exists n, wnow. destruct (seek_snap st s n now wnow); reflexivity.
Qed.

Lemma seek_rows st now o sid x :
  (match o with SeekTime _ _ _ | SeekSnap _ _ _ => True | _ => False end) ->
  is_seek_of st o sid = false -> In x (dels (post st now o)) ->
  exists y, In y (dels st) /\ d_id y = d_id x /\ d_sub y = d_sub x /\ (d_sub y = sid -> x = y).
Proof.
  intros Ho Hs Hx. destruct (step_seek_cases st now o Ho) as [E|[s [Hq E]]].
  - rewrite E in Hx. exists x. auto.
  - rewrite Hq in Hs.
    assert (R : rowrel (s_id s) (dels st) (dels (post st now o))).
    { destruct E as [[target [wnow E]]|[n [wnow E]]]; rewrite E;
        [apply seek_time_rowrel|apply seek_snap_rowrel]. }
    destruct (R x Hx) as [y [Hy [A [B C]]]]. exists y. repeat split; auto.
    intros D. apply C. rewrite D. rewrite N.eqb_sym. exact Hs.
Qed.

(* ---------- where the rows of the post-state come from (every operation) ---------- *)
Lemma step_origin st now o : origin (op_fresh_dels o) (dels st) (dels (post st now o)).
Proof.
  destruct (touches_dels o) eqn:Ht.
  2: { rewrite (dels_unchanged st now o Ht). apply origin_refl. }
  destruct o; cbn [touches_dels] in Ht; try discriminate; clear Ht; cbn [op_fresh_dels].
  - (* Publish *)
    unfold post. destruct (step_Publish_cases st now topic ms fr) as [[c E]|(t & st' & fr' & w & n & EP & E)];
      rewrite E; cbn [r_state fail done]; [apply origin_refl|].
    apply publish_all_good in EP. destruct EP as [_ [O _]]. exact O.
  - (* ModAck *)
    unfold post, step. destruct (negb (valid_sub_name name)); [apply origin_refl|].
    destruct ids as [ids|]; [|apply origin_refl].
    unfold do_delay. destruct (seconds * sec <=? 0); cbn [r_state done dels set_dels];
      apply origin_upd; apply d_set_attempt_at_keys.
  - (* Ack *)
    unfold post, step. destruct (negb (valid_sub_name name)); [apply origin_refl|].
    destruct ids as [ids|]; [|apply origin_refl].
    unfold do_ack. cbn [r_state done dels set_dels]. apply origin_upd. apply d_set_completed_keys.
  - (* Pull *)
    unfold post.
    destruct (step_Pull_cases st now name max returned others wnow fz fr)
      as [[c E]|(s & st1 & fr1 & ps & w & n & Hs & EA & E)];
      rewrite E; cbn [r_state fail done]; [apply origin_refl|].
    apply apply_results_good in EA. destruct EA as [_ [O _]]. exact O.
  - (* SeekTime *)
    intros x Hx. left.
    destruct (step_seek_cases st now (SeekTime name target wnow) I) as [E|[s [_ E]]].
    + rewrite E in Hx. exists x. auto.
    + assert (R : rowrel (s_id s) (dels st) (dels (post st now (SeekTime name target wnow)))).
      { destruct E as [[tg [wn E]]|[n [wn E]]]; rewrite E;
          [apply seek_time_rowrel|apply seek_snap_rowrel]. }
      destruct (R x Hx) as [y [Hy [A [B _]]]]. exists y. auto.
  - (* SeekSnap *)
    intros x Hx. left.
    destruct (step_seek_cases st now (SeekSnap name snapname wnow) I) as [E|[s [_ E]]].
    + rewrite E in Hx. exists x. auto.
    + assert (R : rowrel (s_id s) (dels st) (dels (post st now (SeekSnap name snapname wnow)))).
      { destruct E as [[tg [wn E]]|[n [wn E]]]; rewrite E;
          [apply seek_time_rowrel|apply seek_snap_rowrel]. }
      destruct (R x Hx) as [y [Hy [A [B _]]]]. exists y. auto.
  - (* StreamAckNack *)
    unfold post.
    destruct (step_Stream_cases st now acks nacks wnow fz fr) as (st2 & fr2 & w2 & n2 & EN & E).
    rewrite E. cbn [r_state done]. unfold do_nack in EN. apply nack_each_good in EN.
    destruct EN as [_ [O _]]. cbn [dels set_dels] in O.
    eapply origin_trans; [|exact O]. apply origin_upd. apply d_set_completed_keys.
  - (* Job *)
    unfold post, step.
    destruct (run_job_cases st now j min_age max chosen failed wnow fr) as [E|[E|(st1 & fr1 & w & n & ES & E & _)]].
    + rewrite E. apply origin_refl.
    + rewrite E. intros x Hx. left. apply in_map_iff in Hx. destruct Hx as [y [<- Hy]].
      apply in_del_ids in Hy. exists y. destruct (d_null_link_keys chosen y). auto.
    + rewrite E. apply sweep_each_good in ES. destruct ES as [_ [O _]]. exact O.
Qed.

(* ---------- a completed row is out of reach of everything but a Seek ---------- *)
Lemma step_completed_strong st now o d d' t :
  NoDup (map d_id (dels st)) -> legal st now o ->
  (match o with SeekTime _ _ _ | SeekSnap _ _ _ => False | _ => True end) ->
  In d (dels st) -> d_completed d = Some t ->
  In d' (dels (post st now o)) -> d_id d' = d_id d ->
  d' = d \/ exists ch, d' = d_null_link ch d.
Proof.
  intros ND HL Ho Hd Hc Hd' E.
  assert (Same : In d' (dels st) -> d' = d).
  { intros H. apply (nodup_key_inj d_id (dels st)); assumption. }
  destruct (touches_dels o) eqn:Ht.
  2: { rewrite (dels_unchanged st now o Ht) in Hd'. left. auto. }
  destruct o; cbn [touches_dels] in Ht; try discriminate; clear Ht; try (destruct Ho).
  - (* Publish *)
    left. unfold legal in HL. unfold post in Hd'.
    destruct (step_Publish_cases st now topic ms fr) as [[c Es]|(tp & st' & fr' & w & n & EP & Es)];
      rewrite Es in HL, Hd'; cbn [r_state r_notes fail done] in HL, Hd'; [auto|].
    apply app_eq_nil in HL. destruct HL as [En _].
    apply publish_all_good in EP.
    eapply good_completed; [exact EP|exact En|exact ND|exact Hd| |exact Hd'|exact E].
    intros [].
  - (* ModAck *)
    left. unfold post, step in Hd'. destruct (negb (valid_sub_name name)); [auto|].
    destruct ids as [ids|]; [|auto].
    unfold do_delay in Hd'. destruct (seconds * sec <=? 0); cbn [r_state done dels set_dels] in Hd'.
    + eapply upd_completed; [| |exact ND|exact Hd|exact Hc|exact Hd'|exact E].
      * apply ack_pred_none.
      * reflexivity.
    + eapply upd_completed; [| |exact ND|exact Hd|exact Hc|exact Hd'|exact E].
      * intros x H. apply andb_prop in H. destruct H as [H _]. eapply ack_pred_none; exact H.
      * reflexivity.
  - (* Ack *)
    left. unfold post, step in Hd'. destruct (negb (valid_sub_name name)); [auto|].
    destruct ids as [ids|]; [|auto].
    unfold do_ack in Hd'. cbn [r_state done dels set_dels] in Hd'.
    eapply upd_completed; [| |exact ND|exact Hd|exact Hc|exact Hd'|exact E].
    + apply ack_pred_none.
    + reflexivity.
  - (* Pull *)
    left. unfold legal in HL. unfold post in Hd'.
    destruct (step_Pull_cases st now name max returned others wnow fz fr)
      as [[c Es]|(s & st1 & fr1 & ps & w & n & Hs & EA & Es)];
      rewrite Es in HL, Hd'; cbn [r_state r_notes fail done] in HL, Hd'; [auto|].
    apply app_eq_nil in HL. destruct HL as [En0 HL].
    apply app_eq_nil in HL. destruct HL as [En _].
    destruct (selection_legal st s now max returned others) eqn:SL; [|discriminate].
    apply apply_results_good in EA. cbn [dels set_subs] in EA.
    eapply good_completed; [exact EA|exact En|exact ND|exact Hd| |exact Hd'|exact E].
    intros C. apply in_map_iff in C. destruct C as [x [Ex Hx]].
    apply pull_cands_rows in Hx. destruct Hx as [Hx1 Hx2].
    destruct (selection_legal_rows _ _ _ _ _ _ SL _ Hx1) as [y [Hy [Ey El]]].
    assert (y = d) by (apply (nodup_key_inj d_id (dels st)); try assumption; congruence).
    subst y. apply eligible_facts in El. destruct El as [_ [El _]]. congruence.
  - (* StreamAckNack *)
    left. unfold legal in HL. unfold post in Hd'.
    destruct (step_Stream_cases st now acks nacks wnow fz fr) as (st2 & fr2 & w2 & n2 & EN & Es).
    rewrite Es in HL, Hd'. cbn [r_state r_notes done] in HL, Hd'.
    apply app_eq_nil in HL. destruct HL as [En _].
    assert (Hd1 : In d (upd_where (ack_pred acks) (d_set_completed wnow) (dels st))).
    { apply upd_where_keep; [exact Hd|]. unfold ack_pred. rewrite Hc. apply andb_false_r. }
    assert (ND1 : NoDup (map d_id (upd_where (ack_pred acks) (d_set_completed wnow) (dels st)))).
    { rewrite map_key_upd_where; [exact ND|reflexivity]. }
    pose proof (do_nack_keeps _ _ _ _ _ _ _ _ _ _ d t EN En ND1 Hd1 Hc d' E) as K.
    cbn [dels set_dels] in K. apply K in Hd'.
    eapply upd_completed; [| |exact ND|exact Hd|exact Hc|exact Hd'|exact E].
    + apply ack_pred_none.
    + reflexivity.
  - (* Job *)
    unfold legal in HL. unfold post, step in Hd'. unfold step in HL.
    destruct (run_job_cases st now j min_age max chosen failed wnow fr)
      as [Ej|[Ej|(st1 & fr1 & w & n & ES & Ej & En)]].
    + rewrite Ej in Hd'. left. auto.
    + rewrite Ej in Hd'. right. exists chosen.
      apply in_map_iff in Hd'. destruct Hd' as [y [<- Hy]]. apply in_del_ids in Hy.
      destruct (d_null_link_keys chosen y) as [A _]. rewrite A in E.
      assert (y = d) by (apply (nodup_key_inj d_id (dels st)); assumption). subst y. reflexivity.
    + left. rewrite Ej in Hd'. rewrite En in HL.
      apply app_eq_nil in HL. destruct HL as [En0 HL].
      apply app_eq_nil in HL. destruct HL as [En1 _].
      destruct (choice_legal (job_matches st JDeadLetterSweep now min_age) chosen max) eqn:CL; [|discriminate].
      apply sweep_each_good in ES.
      eapply good_completed; [exact ES|exact En1|exact ND|exact Hd| |exact Hd'|exact E].
      intros C.
      unfold choice_legal in CL. apply andb_prop in CL. destruct CL as [CL _].
      apply andb_prop in CL. destruct CL as [_ CL].
      rewrite forallb_forall in CL. specialize (CL _ C). apply mem_id_in in CL.
      unfold job_matches in CL. apply in_map_iff in CL. destruct CL as [y [Ey Hy]].
      apply filter_In in Hy. destruct Hy as [Hy Hp].
      assert (y = d) by (apply (nodup_key_inj d_id (dels st)); assumption). subst y.
      destruct (get_sub st (d_sub d)); [|discriminate].
      rewrite Hc in Hp. cbn [is_none is_some negb] in Hp.
      rewrite ?andb_false_r, ?andb_false_l in Hp. discriminate.
Qed.

(* ---------- what a Pull hands out ---------- *)
Lemma apply_results_pulled s strict maxb now wnow fz : forall cands st first bytes fr st' fr' ps w n,
  apply_results st s cands first strict bytes maxb now wnow fz fr = (st', fr', ps, w, n) ->
  forall p, In p ps -> In (p_ack p) (map d_id cands).
Proof.
  induction cands as [|d r IH]; intros st first bytes fr st' fr' ps w n E p Hp; cbn [apply_results] in E.
  - injection E as <- <- <- <- <-. destruct Hp.
  - destruct (get_msg st (d_msg d)) as [m|]; [|injection E as <- <- <- <- <-; destruct Hp].
    destruct ((strict || negb first) && (maxb <? bytes + m_size m)).
    { right. eapply IH; eassumption. }
    destruct (full_dl s && (max_attempts_of s <=? d_attempts d)).
    + match type of E with (match ?X with _ => _ end) = _ =>
        destruct X as [[[st1 fr1] w1] n1] eqn:E1 end.
      match type of E with (match ?X with _ => _ end) = _ =>
        destruct X as [[[[st2 fr2] ps2] w2] n2] eqn:E2 end.
      injection E as <- <- <- <- <-. right. eapply IH; eassumption.
    + cbv zeta in E.
      match type of E with (match ?X with _ => _ end) = _ =>
        destruct X as [[[[st2 fr2] ps2] w2] n2] eqn:E2 end.
      injection E as <- <- <- <- <-. destruct Hp as [<-|Hp].
      * left. reflexivity.
      * right. eapply IH; eassumption.
Qed.

(* only a Pull answers with messages *)
Lemma pulled_only_pull st now o p :
  In p (pulled_of (answer st now o)) ->
  exists name max ret oth w fz fr, o = Pull name max ret oth w fz fr.
Proof.
  destruct o; try (intros _; repeat eexists; fail);
    unfold answer, step; try unfold create_sub; try unfold update_sub; try unfold run_job;
    break_match; cbn [pulled_of r_resp fail done]; intros [].
Qed.
