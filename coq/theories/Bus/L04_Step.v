(* Bus/L04_Step.v -- per-operation description of how [step] changes the deliveries. *)
From MB Require Import Base.
From MB.Bus Require Import State Ops Step Defs L04_Lists L04_Evo L04_Pull.
Local Open Scope string_scope.
Open Scope list_scope.
Open Scope Z_scope.

(* ---- the candidates of a legal pull ---- *)
Definition pull_cands (st : state) (returned others : list id) : list del :=
  flat_map (fun i => match get_del st i with Some d => [d] | None => [] end) (returned ++ others).

Lemma sel_legal_cands st s now max returned others :
  selection_legal st s now max returned others = true -> NoDup (map d_id (dels st)) ->
  NoDup (map d_id (pull_cands st returned others)) /\
  forall c, In c (pull_cands st returned others) -> In c (dels st) /\ eligible st s now c = true.
Proof.
  unfold selection_legal. intros H Hd.
  apply andb_true_iff in H. destruct H as [H _].
  apply andb_true_iff in H. destruct H as [H _].
  apply andb_true_iff in H. destruct H as [H _].
  apply andb_true_iff in H. destruct H as [Hnd Hlen].
  apply Nat.eqb_eq in Hlen. apply nodup_ids_NoDup in Hnd.
  set (el := filter (eligible st s now) (dels st)) in *.
  pose proof (flat_map_opt_full (fun i => find_id d_id i el) (returned ++ others) Hlen) as Hfull.
  split.
  - exact (nodup_flat_find d_id (dels st) (returned ++ others) Hnd).
  - intros c Hc.
    apply (flat_map_opt_in (fun i => find_id d_id i (dels st))) in Hc.
    destruct Hc as [i [Hi Hf]]. apply find_id_some in Hf. destruct Hf as [Hin Hk].
    split; [exact Hin|].
    destruct (Hfull i Hi) as [e He]. apply find_id_some in He. destruct He as [He Hke].
    unfold el in He. apply filter_In in He. destruct He as [He1 He2].
    assert (e = c) by (eapply (nodup_key_inj d_id); eauto; congruence).
    subst e. exact He2.
Qed.

Lemma eligible_facts st s now c :
  eligible st s now c = true ->
  d_sub c = s_id s /\ d_completed c = None /\ now < d_expires c /\ d_attempt_at c <= now.
Proof.
  unfold eligible. intros H.
  apply andb_true_iff in H. destruct H as [H _].
  apply andb_true_iff in H. destruct H as [H H4].
  apply andb_true_iff in H. destruct H as [H H3].
  apply andb_true_iff in H. destruct H as [H1 H2].
  apply N.eqb_eq in H1. apply Z.ltb_lt in H3. apply Z.leb_le in H4.
  split; [exact H1|]. split; [|split; assumption].
  unfold is_none, is_some in H2. destruct (d_completed c); [discriminate|reflexivity].
Qed.

(* ---- Pull, unfolded ---- *)
Definition pull_st0 (st : state) (s : sub) (w : time) : state :=
  set_subs st (upd_where (fun x => N.eqb (s_id x) (s_id s)) (s_set_expires (w + s_ttl s)) (subs st)).

Lemma pull_cases st now name max returned others w fz fr :
  let o := Pull name max returned others w fz fr in
  (post st now o = st /\ pulled_of (answer st now o) = []) \/
  (exists s st1 fr1 ps wk n,
     find_live_sub st name = Some s /\
     apply_results (pull_st0 st s w) s (pull_cands st returned others) true false 0 pull_max_bytes
                   now w fz fr = (st1, fr1, ps, wk, n) /\
     post st now o = st1 /\ answer st now o = RPull ps /\
     r_notes (step st now o) =
       (if selection_legal st s now max returned others then [] else ["illegal-selection"%string]) ++
       n ++ leftover fr1).
Proof.
  intros o. unfold o, post, answer. unfold step.
  destruct (negb (valid_sub_name name)); [left; split; reflexivity|].
  destruct (max <? 1); [left; split; reflexivity|].
  destruct (find_live_sub st name) as [s|]; [|left; split; reflexivity].
  right.
  change (flat_map (fun i => match get_del st i with Some d => [d] | None => [] end) (returned ++ others))
    with (pull_cands st returned others).
  change (set_subs st (upd_where (fun x => N.eqb (s_id x) (s_id s)) (s_set_expires (w + s_ttl s)) (subs st)))
    with (pull_st0 st s w).
  destruct (apply_results (pull_st0 st s w) s (pull_cands st returned others) true false 0 pull_max_bytes
                          now w fz fr) as [[[[st1 fr1] ps] wk] n] eqn:E.
  exists s, st1, fr1, ps, wk, n. repeat split; first [reflexivity | exact E | (rewrite E; reflexivity)].
Qed.

(* a legal pull: everything the pull theorems need *)
Lemma pull_legal st now name max returned others w fz fr :
  let o := Pull name max returned others w fz fr in
  ids_unique st -> legal st now o ->
  (post st now o = st /\ pulled_of (answer st now o) = []) \/
  (exists s st1 fr1 ps wk,
     find_live_sub st name = Some s /\
     apply_results (pull_st0 st s w) s (pull_cands st returned others) true false 0 pull_max_bytes
                   now w fz fr = (st1, fr1, ps, wk, []) /\
     post st now o = st1 /\ answer st now o = RPull ps /\
     NoDup (map d_id (pull_cands st returned others)) /\
     (forall c, In c (pull_cands st returned others) -> In c (dels st) /\ eligible st s now c = true)).
Proof.
  intros o U L. destruct (pull_cases st now name max returned others w fz fr) as [C|C]; [left; exact C|].
  right. destruct C as [s [st1 [fr1 [ps [wk [n [Hs [E [Hp [Ha Hn]]]]]]]]]].
  unfold legal in L. fold o in Hn. rewrite L in Hn. symmetry in Hn.
  apply app_eq_nil in Hn. destruct Hn as [Hn0 Hn]. apply app_eq_nil in Hn. destruct Hn as [Hn _].
  subst n. exists s, st1, fr1, ps, wk.
  destruct (selection_legal st s now max returned others) eqn:Esel; [|discriminate].
  destruct U as [_ [_ [_ [Ud _]]]].
  destruct (sel_legal_cands st s now max returned others Esel Ud) as [K1 K2].
  repeat split; auto; apply K2; assumption.
Qed.

(* ---- every other operation ---- *)
(* same body as T_C04.may_advance *)
Definition adv (st : state) (o : op) (d : del) : bool :=
  match o with
  | ModAck _ (Some ids) secs _ => (secs <=? 0) && mem_id (d_id d) ids
  | StreamAckNack _ nacks _ _ _ => mem_id (d_id d) nacks
  | SeekTime name _ _ | SeekSnap name _ _ =>
      match sub_of_name st name with Some i => N.eqb i (d_sub d) | None => false end
  | _ => false
  end.

Definition StepR (st : state) (o : op) (x x' : del) : Prop :=
  d_attempts x' = d_attempts x /\ (adv st o x = false -> d_attempt_at x <= d_attempt_at x').

Lemma StepR_refl st o x : StepR st o x x.
Proof. split; [reflexivity|intros _; lia]. Qed.

Lemma StepR_same st o x x' : same_lease x x' -> StepR st o x x'.
Proof. intros [A B]. split; [exact A|intros _; lia]. Qed.

Definition step_desc (st : state) (now : time) (o : op) : Prop :=
  evo (StepR st o) (op_fresh_dels o) (dels st) (dels (post st now o)) \/
  (forall x', In x' (dels (post st now o)) ->
     exists x, In x (dels st) /\ d_id x = d_id x' /\ StepR st o x x').

Ltac same := left; apply evo_refl; intros; apply StepR_refl.
Ltac crush_same :=
  unfold step_desc, post, step;
  repeat (match goal with |- context [match ?x with _ => _ end] => destruct x end);
  same.

Lemma desc_publish st now t ms fr : step_desc st now (Publish t ms fr).
Proof.
  unfold step_desc, post, step.
  destruct (negb (valid_topic_name t)); [same|].
  destruct (find_live_topic st t) as [tp|]; [|same].
  destruct (publish_all st tp ms fr) as [[[[st' fr'] w] n]|] eqn:E; [|same].
  left. cbn [done r_state]. apply publish_all_evo in E. destruct E as [_ [_ V]].
  eapply evo_mono; [exact V| |apply incl_refl].
  intros x x' _ ->. apply StepR_refl.
Qed.

Lemma sec_pos : 0 < sec. Proof. unfold sec. lia. Qed.

Lemma desc_modack st now name ids secs w : step_desc st now (ModAck name ids secs w).
Proof.
  unfold step_desc, post, step.
  destruct (negb (valid_sub_name name)); [same|].
  destruct ids as [ids|]; [|same].
  unfold do_delay. left.
  destruct (secs * sec <=? 0) eqn:E; cbn [done r_state set_dels dels].
  - eapply evo_mono; [apply evo_upd; reflexivity| |apply incl_refl].
    intros x x' _ ->. split.
    + destruct (ack_pred ids x); reflexivity.
    + cbn [adv]. intros Ha. apply Z.leb_le in E.
      assert (Hs : secs <=? 0 = true) by (apply Z.leb_le; pose proof sec_pos; nia).
      rewrite Hs in Ha. cbn [andb] in Ha. unfold ack_pred. rewrite Ha. cbn [andb]. lia.
  - eapply evo_mono; [apply evo_upd; reflexivity| |apply incl_refl].
    intros x x' _ ->. split.
    + destruct (ack_pred ids x && (d_attempt_at x <? w + secs * sec)); reflexivity.
    + intros _. destruct (ack_pred ids x && (d_attempt_at x <? w + secs * sec)) eqn:Ep; [|lia].
      apply andb_true_iff in Ep. destruct Ep as [_ Ep]. apply Z.ltb_lt in Ep.
      cbn [d_set_attempt_at d_attempt_at]. lia.
Qed.

Lemma desc_ack st now name ids w : step_desc st now (Ack name ids w).
Proof.
  unfold step_desc, post, step.
  destruct (negb (valid_sub_name name)); [same|].
  destruct ids as [ids|]; [|same].
  unfold do_ack. left. cbn [done r_state set_dels dels].
  eapply evo_mono; [apply evo_upd; reflexivity| |apply incl_refl].
  intros x x' _ ->. apply StepR_same. destruct (ack_pred ids x); split; reflexivity.
Qed.

(* updates restricted to one subscription *)
Definition SubR (i : id) (x x' : del) : Prop :=
  d_attempts x' = d_attempts x /\ d_sub x' = d_sub x /\ (N.eqb (d_sub x) i = false -> x' = x).

Lemma SubR_trans i x x1 x2 : SubR i x x1 -> SubR i x1 x2 -> SubR i x x2.
Proof.
  intros [A1 [A2 A3]] [B1 [B2 B3]]. split; [congruence|]. split; [congruence|].
  intros H. rewrite B3; [apply A3; exact H|]. rewrite A2. exact H.
Qed.

Lemma SubR_refl i x : SubR i x x.
Proof. split; [reflexivity|]. split; reflexivity. Qed.

Lemma evo_upd_sub F i (p : del -> bool) f l :
  (forall x, p x = true -> N.eqb (d_sub x) i = true) ->
  (forall x, d_id (f x) = d_id x /\ d_attempts (f x) = d_attempts x /\ d_sub (f x) = d_sub x) ->
  evo (SubR i) F l (upd_where p f l).
Proof.
  intros Hp Hf. eapply evo_mono; [apply evo_upd; intros x; apply Hf| |apply incl_refl].
  intros x x' _ ->. destruct (p x) eqn:E; [|apply SubR_refl].
  destruct (Hf x) as [_ [F2 F3]]. split; [exact F2|]. split; [exact F3|].
  intros H. rewrite (Hp x E) in H. discriminate.
Qed.

Lemma evo_SubR_trans F i l l1 l2 : evo (SubR i) F l l1 -> evo (SubR i) F l1 l2 -> evo (SubR i) F l l2.
Proof.
  intros A B. eapply evo_trans; [exact A|exact B|]. intros x x1 x2 _ _. apply SubR_trans.
Qed.

Lemma and4_true a b c d : a && b && c && d = true -> a = true.
Proof. destruct a; [reflexivity|discriminate]. Qed.

Lemma seek_time_evo F st s target now wnow :
  evo (SubR (s_id s)) F (dels st) (dels (fst (seek_time st s target now wnow))).
Proof.
  unfold seek_time. cbn [fst set_dels dels].
  eapply evo_SubR_trans; apply evo_upd_sub;
    try (intros x H; apply and4_true in H; exact H);
    intros x; repeat split; reflexivity.
Qed.

Lemma seek_snap_evo F st s n now wnow :
  evo (SubR (s_id s)) F (dels st) (dels (fst (seek_snap st s n now wnow))).
Proof.
  unfold seek_snap. cbn [fst set_dels dels].
  eapply evo_SubR_trans;
    [|apply evo_upd_sub; [intros x H; apply and4_true in H; exact H|intros x; repeat split; reflexivity]].
  destruct (n_acked n).
  - apply evo_upd_sub; [intros x H; apply and4_true in H; exact H|intros x; repeat split; reflexivity].
  - eapply evo_SubR_trans;
      [|apply evo_upd_sub; [intros x H; apply and4_true in H; exact H|intros x; repeat split; reflexivity]].
    apply evo_upd_sub; [intros x H; apply and4_true in H; exact H|intros x; repeat split; reflexivity].
Qed.

Lemma SubR_StepR st o s x x' :
  (adv st o x = false -> N.eqb (d_sub x) (s_id s) = false) -> SubR (s_id s) x x' -> StepR st o x x'.
Proof.
  intros Ha [A1 [A2 A3]]. split; [exact A1|]. intros H. rewrite (A3 (Ha H)). lia.
Qed.

Lemma desc_seek_time st now name target w : step_desc st now (SeekTime name target w).
Proof.
  unfold step_desc, post, step.
  destruct (negb (valid_sub_name name)); [same|].
  destruct (find_live_sub st name) as [s|] eqn:Es; [|same].
  left. pose proof (seek_time_evo [] st s target now w) as V.
  destruct (seek_time st s target now w) as [st' wk]. cbn [fst] in V. cbn [done r_state].
  eapply evo_mono; [exact V| |intros y []].
  intros x x' _. apply SubR_StepR. cbn [adv]. unfold sub_of_name. rewrite Es. cbn [option_map].
  rewrite N.eqb_sym. auto.
Qed.

Lemma desc_seek_snap st now name sn w : step_desc st now (SeekSnap name sn w).
Proof.
  unfold step_desc, post, step.
  destruct (negb (valid_sub_name name)); [same|].
  destruct (negb (valid_snap_name sn)); [same|].
  destruct (find_live_sub st name) as [s|] eqn:Es; [|same].
  destruct (find_snap st sn) as [n|]; [|same].
  left. pose proof (seek_snap_evo [] st s n now w) as V.
  destruct (seek_snap st s n now w) as [st' wk]. cbn [fst] in V. cbn [done r_state].
  eapply evo_mono; [exact V| |intros y []].
  intros x x' _. apply SubR_StepR. cbn [adv]. unfold sub_of_name. rewrite Es. cbn [option_map].
  rewrite N.eqb_sym. auto.
Qed.

Lemma desc_stream st now acks nacks w fz fr : step_desc st now (StreamAckNack acks nacks w fz fr).
Proof.
  unfold step_desc, post, step. unfold do_ack.
  set (st1 := set_dels st (upd_where (ack_pred acks) (d_set_completed w) (dels st))).
  destruct (do_nack st1 nacks now w fz fr) as [[[st2 fr2] w2] n2] eqn:E.
  left. cbn [done r_state]. unfold do_nack in E. apply nack_each_evo in E. destruct E as [_ [_ V2]].
  eapply evo_trans; [|exact V2|].
  - unfold st1. cbn [set_dels dels]. apply evo_upd. reflexivity.
  - intros x x1 x2 E1 _ P1 [Q1 Q2]. cbv beta in P1.
    assert (Hs : same_lease x x1) by (subst x1; destruct (ack_pred acks x); split; reflexivity).
    destruct Hs as [Hs1 Hs2]. split; [congruence|]. cbn [adv]. intros Ha.
    rewrite Q2; [lia|]. intros Hi. apply in_map_iff in Hi. destruct Hi as [y [Ey Hy]].
    apply filter_In in Hy. destruct Hy as [_ Hy].
    apply andb_true_iff in Hy. destruct Hy as [Hy _]. apply andb_true_iff in Hy. destruct Hy as [Hy _].
    rewrite Ey, E1, Ha in Hy. discriminate.
Qed.

Lemma d_null_link_fields ids x :
  d_id (d_null_link ids x) = d_id x /\ same_lease x (d_null_link ids x).
Proof.
  unfold d_null_link, same_lease. destruct (d_not_before x) as [p|]; [|repeat split; reflexivity].
  destruct (mem_id p ids); repeat split; reflexivity.
Qed.

Lemma desc_prune_dels st o now chosen :
  dels (post st now o) = map (d_null_link chosen) (del_ids d_id chosen (dels st)) ->
  step_desc st now o.
Proof.
  intros H. right. rewrite H. intros x' Hx'. apply in_map_iff in Hx'. destruct Hx' as [x [<- Hx]].
  apply in_del_ids in Hx. exists x. destruct (d_null_link_fields chosen x) as [A B].
  split; [exact Hx|]. split; [symmetry; exact A|]. apply StepR_same. exact B.
Qed.

Lemma desc_same st now o : dels (post st now o) = dels st -> step_desc st now o.
Proof. intros H. left. rewrite H. apply evo_refl. intros. apply StepR_refl. Qed.

Lemma desc_job st now j mn mx ch f w fr : step_desc st now (Job j mn mx ch f w fr).
Proof.
  destruct f.
  - apply desc_same. unfold post, step, run_job. destruct j; reflexivity.
  - destruct j.
    + eapply desc_prune_dels. reflexivity.
    + eapply desc_prune_dels. reflexivity.
    + apply desc_same. reflexivity.
    + eapply desc_prune_dels. reflexivity.
    + apply desc_same. reflexivity.
    + apply desc_same. unfold post, step, run_job.
      destruct (existsb (topic_has_messages st) ch); reflexivity.
    + apply desc_same. reflexivity.
    + unfold step_desc, post, step, run_job.
      destruct (sweep_each st ch w fr) as [[[st1 fr1] wk] n] eqn:E.
      left. cbn [done r_state]. apply sweep_each_evo in E. destruct E as [_ V].
      eapply evo_mono; [exact V| |apply incl_refl]. intros x x' _. apply StepR_same.
Qed.

Lemma desc_create_sub st now q fresh w : step_desc st now (CreateSub q fresh w).
Proof.
  apply desc_same. unfold post, step, create_sub.
  repeat (match goal with |- context [match ?x with _ => _ end] => destruct x end); reflexivity.
Qed.

Lemma desc_update_sub st now q paths w : step_desc st now (UpdateSub q paths w).
Proof.
  apply desc_same. unfold post, step, update_sub.
  destruct (negb (valid_sub_name (q_name q))); [reflexivity|].
  destruct (find_live_sub st (q_name q)) as [s|]; [|reflexivity].
  match goal with |- context [upd_paths ?a ?b ?c ?d ?e] => destruct (upd_paths a b c d e) as [c0|[[s' dl] t]] end;
    [reflexivity|].
  destruct (negb t); reflexivity.
Qed.

Lemma step_desc_all st now o :
  (forall name max returned others w fz fr, o <> Pull name max returned others w fz fr) ->
  step_desc st now o.
Proof.
  intros Hnp. destruct o.
  - crush_same.
  - crush_same.
  - crush_same.
  - crush_same.
  - crush_same.
  - crush_same.
  - apply desc_publish.
  - apply desc_create_sub.
  - crush_same.
  - apply desc_update_sub.
  - crush_same.
  - crush_same.
  - apply desc_modack.
  - apply desc_ack.
  - exfalso. eapply Hnp. reflexivity.
  - apply desc_seek_time.
  - apply desc_seek_snap.
  - crush_same.
  - crush_same.
  - crush_same.
  - crush_same.
  - crush_same.
  - crush_same.
  - apply desc_stream.
  - crush_same.
  - apply desc_job.
Qed.

(* ---- only a pull answers with messages ---- *)
Lemma pull_or_not o :
  (exists name max returned others w fz fr, o = Pull name max returned others w fz fr) \/
  (forall name max returned others w fz fr, o <> Pull name max returned others w fz fr).
Proof.
  destruct o; try (right; intros; discriminate).
  left. repeat eexists.
Qed.

Ltac crush_answer :=
  repeat (match goal with |- context [match ?x with _ => _ end] => destruct x end); reflexivity.

Lemma nonpull_answer st now o :
  (forall name max returned others w fz fr, o <> Pull name max returned others w fz fr) ->
  pulled_of (answer st now o) = [].
Proof.
  intros Hnp. destruct o; unfold answer, step.
  - crush_answer.
  - crush_answer.
  - crush_answer.
  - crush_answer.
  - crush_answer.
  - crush_answer.
  - crush_answer.
  - unfold create_sub. crush_answer.
  - crush_answer.
  - unfold update_sub.
    destruct (negb (valid_sub_name (q_name q))); [reflexivity|].
    destruct (find_live_sub st (q_name q)) as [s|]; [|reflexivity].
    match goal with |- context [upd_paths ?a ?b ?c ?d ?e] => destruct (upd_paths a b c d e) as [c0|[[s' dl] t]] end;
      [reflexivity|].
    destruct (negb t); reflexivity.
  - crush_answer.
  - crush_answer.
  - crush_answer.
  - crush_answer.
  - exfalso. eapply Hnp. reflexivity.
  - crush_answer.
  - crush_answer.
  - crush_answer.
  - crush_answer.
  - crush_answer.
  - crush_answer.
  - crush_answer.
  - crush_answer.
  - crush_answer.
  - crush_answer.
  - unfold run_job. destruct failed; destruct j; crush_answer.
Qed.
