(* Bus/L04_Evo.v -- how the helper functions of Ops.v / Step.v change the deliveries
   table, row by row.  [evo P F l l']: every row of l has a descendant (same id) in l'
   related by P, and every row of l' has the id of a row of l or an id proposed in F. *)
From MB Require Import Base.
From MB.Bus Require Import State Ops Step Defs L04_Lists.
Local Open Scope string_scope.
Open Scope list_scope.
Open Scope Z_scope.

Definition fids (fr : fresh_dels) : list id := map (fun x => snd x) fr.

Definition evo (P : del -> del -> Prop) (F : list id) (l l' : list del) : Prop :=
  (forall x, In x l -> exists x', In x' l' /\ d_id x' = d_id x /\ P x x') /\
  (forall x', In x' l' -> In (d_id x') (map d_id l) \/ In (d_id x') F).

Lemma evo_refl (P : del -> del -> Prop) F l : (forall x, P x x) -> evo P F l l.
Proof.
  intros HP. split.
  - intros x Hx. exists x. auto.
  - intros x Hx. left. apply in_map. exact Hx.
Qed.

Lemma evo_trans (P Q R : del -> del -> Prop) F l l1 l2 :
  evo P F l l1 -> evo Q F l1 l2 ->
  (forall x x1 x2, d_id x1 = d_id x -> d_id x2 = d_id x -> P x x1 -> Q x1 x2 -> R x x2) ->
  evo R F l l2.
Proof.
  intros [A1 A2] [B1 B2] HR. split.
  - intros x Hx. destruct (A1 x Hx) as [x1 [H1 [E1 P1]]].
    destruct (B1 x1 H1) as [x2 [H2 [E2 P2]]].
    exists x2. split; [exact H2|]. split; [congruence|].
    apply (HR x x1 x2); auto. congruence.
  - intros x2 H2. destruct (B2 x2 H2) as [Hi|Hf]; [|right; exact Hf].
    apply in_map_iff in Hi. destruct Hi as [x1 [E1 H1]].
    rewrite <- E1. apply A2. exact H1.
Qed.

Lemma evo_mono (P Q : del -> del -> Prop) F F' l l' :
  evo P F l l' -> (forall x x', d_id x' = d_id x -> P x x' -> Q x x') -> incl F F' ->
  evo Q F' l l'.
Proof.
  intros [A1 A2] HQ HF. split.
  - intros x Hx. destruct (A1 x Hx) as [x' [H1 [E1 P1]]]. exists x'. auto.
  - intros x' H'. destruct (A2 x' H'); [left|right]; auto.
Qed.

Lemma evo_ins F d l : In (d_id d) F -> evo eq F l (ins d_id d l).
Proof.
  intros HF. split.
  - intros x Hx. exists x. split; [apply in_ins; right; exact Hx|auto].
  - intros x' Hx'. apply in_ins in Hx'. destruct Hx' as [->|Hx']; [right; exact HF|].
    left. apply in_map. exact Hx'.
Qed.

Lemma evo_upd F (p : del -> bool) f l :
  (forall x, d_id (f x) = d_id x) ->
  evo (fun x x' => x' = if p x then f x else x) F l (upd_where p f l).
Proof.
  intros Hid. split.
  - intros x Hx. exists (if p x then f x else x).
    split; [apply in_upd_where_intro; exact Hx|]. split; [|reflexivity].
    destruct (p x); [apply Hid|reflexivity].
  - intros x' Hx'. apply in_upd_where_elim in Hx'. destruct Hx' as [x [Hx ->]].
    left. replace (d_id (if p x then f x else x)) with (d_id x).
    + apply in_map. exact Hx.
    + destruct (p x); [symmetry; apply Hid|reflexivity].
Qed.

(* with unique ids in the result, [evo] relates any two rows with the same id *)
Lemma evo_rel P F l l' :
  evo P F l l' -> NoDup (map d_id l') ->
  forall x x', In x l -> In x' l' -> d_id x' = d_id x -> P x x'.
Proof.
  intros [A1 _] Hd x x' Hx Hx' He.
  destruct (A1 x Hx) as [x'' [H1 [E1 P1]]].
  assert (x'' = x') by (eapply (nodup_key_inj d_id); eauto; congruence).
  subst. exact P1.
Qed.

Lemma evo_origin P F l l' x' :
  evo P F l l' -> In x' l' -> In (d_id x') (map d_id l) \/ In (d_id x') F.
Proof. intros [_ A2]. apply A2. Qed.

(* ---- the fresh-id oracle ---- *)
Lemma take_fresh_spec m s fr o fr' :
  take_fresh m s fr = (o, fr') ->
  incl (fids fr') (fids fr) /\ (forall i, o = Some i -> In i (fids fr)).
Proof.
  revert o fr'. induction fr as [|[[m' s'] i] r IH]; intros o fr' H; cbn [take_fresh] in H.
  - inversion H; subst. split; [apply incl_refl|discriminate].
  - destruct (N.eqb m m' && N.eqb s s').
    + inversion H; subst. split.
      * unfold fids. cbn [map]. apply incl_tl. apply incl_refl.
      * intros j Hj. inversion Hj; subst. left. reflexivity.
    + destruct (take_fresh m s r) as [o1 r1] eqn:E. inversion H; subst.
      destruct (IH o r1 eq_refl) as [I1 I2]. split.
      * unfold fids in *. cbn [map]. intros j [Hj|Hj]; [left; exact Hj|right; apply I1; exact Hj].
      * intros j Hj. right. apply I2. exact Hj.
Qed.

(* ---- delivery creation ---- *)
Lemma deliver_to_sub_evo st s m now fr st' fr' w n :
  deliver_to_sub st s m now fr = (st', fr', w, n) ->
  subs st' = subs st /\ incl (fids fr') (fids fr) /\ evo eq (fids fr) (dels st) (dels st').
Proof.
  unfold deliver_to_sub. intros H.
  destruct (negb (filter_accepts (s_filter s) (m_attrs m))).
  - inversion H; subst. split; [reflexivity|]. split; [apply incl_refl|]. apply evo_refl. reflexivity.
  - destruct (take_fresh (m_id m) (s_id s) fr) as [oi fr1] eqn:E.
    apply take_fresh_spec in E. destruct E as [I1 I2].
    destruct oi as [i|]; inversion H; subst; cbn [subs dels].
    + split; [reflexivity|]. split; [exact I1|]. apply evo_ins. cbn [d_id]. apply I2. reflexivity.
    + split; [reflexivity|]. split; [exact I1|]. apply evo_refl. reflexivity.
Qed.

Lemma evo_eq_trans F l l1 l2 : evo eq F l l1 -> evo eq F l1 l2 -> evo eq F l l2.
Proof.
  intros A B. eapply evo_trans; [exact A|exact B|]. intros; congruence.
Qed.

Lemma evo_F_mono P F F' l l' : evo P F l l' -> incl F F' -> evo P F' l l'.
Proof. intros A I. eapply evo_mono; [exact A| |exact I]. auto. Qed.

Lemma deliver_to_subs_evo m now : forall ss st fr st' fr' w n,
  deliver_to_subs st ss m now fr = (st', fr', w, n) ->
  subs st' = subs st /\ incl (fids fr') (fids fr) /\ evo eq (fids fr) (dels st) (dels st').
Proof.
  induction ss as [|s r IH]; intros st fr st' fr' w n H; cbn [deliver_to_subs] in H.
  - inversion H; subst. split; [reflexivity|]. split; [apply incl_refl|]. apply evo_refl. reflexivity.
  - destruct (deliver_to_sub st s m now fr) as [[[st1 fr1] w1] n1] eqn:E1.
    destruct (deliver_to_subs st1 r m now fr1) as [[[st2 fr2] w2] n2] eqn:E2.
    inversion H; subst.
    apply deliver_to_sub_evo in E1. destruct E1 as [S1 [I1 V1]].
    apply IH in E2. destruct E2 as [S2 [I2 V2]].
    split; [congruence|]. split; [eapply incl_tran; eauto|].
    eapply evo_eq_trans; [exact V1|]. eapply evo_F_mono; eauto.
Qed.

(* what dead-lettering does to a row *)
Definition DL (i : id) (t : time) (x x' : del) : Prop :=
  x' = if N.eqb (d_id x) i then d_set_completed t x else x.

Lemma dead_letter_evo st d dlt now fr st' fr' w n :
  dead_letter st d dlt now fr = (st', fr', w, n) ->
  subs st' = subs st /\ incl (fids fr') (fids fr) /\
  evo (DL (d_id d) now) (fids fr) (dels st) (dels st').
Proof.
  unfold dead_letter. intros H.
  match type of H with context [match ?X with (_, _) => _ end] => destruct X as [[[st1 fr1] w1] n1] eqn:E end.
  assert (A : subs st1 = subs st /\ incl (fids fr1) (fids fr) /\ evo eq (fids fr) (dels st) (dels st1)).
  { assert (Z0 : subs st = subs st /\ incl (fids fr) (fids fr) /\ evo eq (fids fr) (dels st) (dels st)).
    { split; [reflexivity|]. split; [apply incl_refl|]. apply evo_refl. reflexivity. }
    destruct (get_topic st dlt) as [t|]; [|inversion E; subst; exact Z0].
    destruct (topic_live t); [|inversion E; subst; exact Z0].
    destruct (live_subs_of st dlt) as [|s0 ss]; [inversion E; subst; exact Z0|].
    destruct (get_msg st (d_msg d)) as [m|]; [|inversion E; subst; exact Z0].
    apply deliver_to_subs_evo in E. exact E. }
  destruct A as [S1 [I1 V1]].
  inversion H; subst. cbn [set_dels subs dels].
  split; [exact S1|]. split; [exact I1|].
  eapply evo_trans; [exact V1|apply evo_upd; reflexivity|].
  intros x x1 x2 _ _ -> ->. reflexivity.
Qed.

(* ---- publish ---- *)
Lemma publish_one_evo st t p fr st' fr' w n :
  publish_one st t p fr = (st', fr', w, n) ->
  subs st' = subs st /\ incl (fids fr') (fids fr) /\ evo eq (fids fr) (dels st) (dels st').
Proof.
  unfold publish_one. intros H.
  match type of H with context [match ?X with (_, _) => _ end] => destruct X as [[[st2 fr2] w2] n2] eqn:E end.
  apply deliver_to_subs_evo in E. cbn [set_msgs subs dels] in E.
  inversion H; subst. exact E.
Qed.

Lemma publish_all_evo t : forall ps st fr st' fr' w n,
  publish_all st t ps fr = Some (st', fr', w, n) ->
  subs st' = subs st /\ incl (fids fr') (fids fr) /\ evo eq (fids fr) (dels st) (dels st').
Proof.
  induction ps as [|p r IH]; intros st fr st' fr' w n H; cbn [publish_all] in H.
  - inversion H; subst. split; [reflexivity|]. split; [apply incl_refl|]. apply evo_refl. reflexivity.
  - destruct (negb (pm_valid p)); [discriminate|].
    destruct (publish_one st t p fr) as [[[st1 fr1] w1] n1] eqn:E1.
    destruct (publish_all st1 t r fr1) as [[[[st2 fr2] w2] n2]|] eqn:E2; [|discriminate].
    inversion H; subst.
    apply publish_one_evo in E1. destruct E1 as [S1 [I1 V1]].
    apply IH in E2. destruct E2 as [S2 [I2 V2]].
    split; [congruence|]. split; [eapply incl_tran; eauto|].
    eapply evo_eq_trans; [exact V1|]. eapply evo_F_mono; eauto.
Qed.

(* ---- sweep: only dead-lettering ---- *)
Definition same_lease (x x' : del) : Prop :=
  d_attempts x' = d_attempts x /\ d_attempt_at x' = d_attempt_at x.

Lemma DL_same_lease i t x x' : DL i t x x' -> same_lease x x'.
Proof.
  unfold DL, same_lease. intros ->. destruct (N.eqb (d_id x) i); split; reflexivity.
Qed.

Lemma sweep_each_evo wnow : forall ds st fr st' fr' w n,
  sweep_each st ds wnow fr = (st', fr', w, n) ->
  incl (fids fr') (fids fr) /\ evo same_lease (fids fr) (dels st) (dels st').
Proof.
  assert (Z0 : forall st fr, incl (fids fr) (fids fr) /\ evo same_lease (fids fr) (dels st) (dels st)).
  { intros. split; [apply incl_refl|]. apply evo_refl. intros x; split; reflexivity. }
  induction ds as [|i r IH]; intros st fr st' fr' w n H; cbn [sweep_each] in H.
  - inversion H; subst. apply Z0.
  - destruct (get_del st i) as [d|]; [|inversion H; subst; apply Z0].
    destruct (get_sub st (d_sub d)) as [s|]; [|inversion H; subst; apply Z0].
    destruct (s_dl_topic s) as [dlt|]; [|inversion H; subst; apply Z0].
    destruct (dead_letter st d dlt wnow fr) as [[[st1 fr1] w1] n1] eqn:E1.
    destruct (sweep_each st1 r wnow fr1) as [[[st2 fr2] w2] n2] eqn:E2.
    inversion H; subst.
    apply dead_letter_evo in E1. destruct E1 as [S1 [I1 V1]].
    apply IH in E2. destruct E2 as [I2 V2].
    split; [eapply incl_tran; eauto|].
    eapply evo_trans; [exact V1|eapply evo_F_mono; eauto|].
    intros x x1 x2 _ _ P1 [Q1 Q2]. apply DL_same_lease in P1. destruct P1 as [P1 P2].
    split; congruence.
Qed.
