(* Bus/L15_View.v -- the client-visible view of a state and the lemmas that show a prune
   job leaves it unchanged (used by T_C15). *)
From MB Require Import Base.
From MB.Bus Require Import State Ops Step Defs View L_Tables L_Good L_Helpers L_Step L15_Lists L15_Links.
Local Open Scope string_scope.
Open Scope list_scope.
Open Scope Z_scope.

Lemma flat_map_ext_in {A B} (f g : A -> list B) l :
  (forall x, In x l -> f x = g x) -> flat_map f l = flat_map g l.
Proof.
  induction l as [|a l IH]; intros H; cbn [flat_map]; [reflexivity|].
  rewrite (H a (or_introl eq_refl)). rewrite IH; [reflexivity|].
  intros x Hx. apply H. right; exact Hx.
Qed.

(* the view only depends on these projections of the state *)
Lemma view_ext st st' now :
  filter topic_live (topics st') = filter topic_live (topics st) ->
  filter sub_live (subs st') = filter sub_live (subs st) ->
  (forall s t, In s (subs st) -> sub_live s = true -> s_dl_topic s = Some t ->
               get_topic st' t = get_topic st t) ->
  (forall s, In s (subs st) -> sub_live s = true -> get_topic st' (s_topic s) = get_topic st (s_topic s)) ->
  filter (snap_visible st') (snaps st') = filter (snap_visible st) (snaps st) ->
  map (view_del st' now) (filter (outstanding st' now) (dels st')) =
  map (view_del st now) (filter (outstanding st now) (dels st)) ->
  view_of st' now = view_of st now.
Proof.
  intros HT HS HD HN HP HV. unfold view_of. rewrite HT, HS, HP, HV.
  f_equal.
  - unfold dl_names. apply flat_map_ext_in. intros s Hs. apply filter_In in Hs. destruct Hs as [Hs Hl].
    destruct (s_dl_topic s) as [t|] eqn:E; [|reflexivity].
    unfold render_topic_name. rewrite (HD s t Hs Hl E). reflexivity.
  - apply map_ext_in. intros s Hs. apply filter_In in Hs. destruct Hs as [Hs Hl].
    unfold render_topic_name. rewrite (HN s Hs Hl). reflexivity.
Qed.

(* ---- removing delivery rows that are not outstanding ---- *)
Lemma d_null_link_fields ids d :
  d_completed (d_null_link ids d) = d_completed d /\ d_expires (d_null_link ids d) = d_expires d /\
  d_attempts (d_null_link ids d) = d_attempts d /\ d_attempt_at (d_null_link ids d) = d_attempt_at d /\
  d_published (d_null_link ids d) = d_published d /\ d_msg (d_null_link ids d) = d_msg d.
Proof.
  unfold d_null_link. destruct (d_not_before d) as [p|]; [|repeat split].
  destruct (mem_id p ids); repeat split.
Qed.

Lemma view_dels_prune st now chosen :
  NoDup (map d_id (dels st)) -> lk (dels st) ->
  (forall d, In d (dels st) -> In (d_id d) chosen -> outstanding st now d = false) ->
  let st' := set_dels st (map (d_null_link chosen) (del_ids d_id chosen (dels st))) in
  map (view_del st' now) (filter (outstanding st' now) (dels st')) =
  map (view_del st now) (filter (outstanding st now) (dels st)).
Proof.
  intros ND LK Hdead st'.
  assert (Eo : forall r, outstanding st' now (d_null_link chosen r) = outstanding st now r).
  { intros r. unfold outstanding.
    destruct (d_null_link_fields chosen r) as (A & B & _). rewrite A, B, d_null_link_sub. reflexivity. }
  cbn [st' set_dels dels].
  rewrite filter_map_comm15 by (intros r _; apply Eo).
  rewrite (filter_ext_in15 (outstanding st' now) (outstanding st now)).
  2:{ intros x _. reflexivity. }
  rewrite (filter_del_ids d_id chosen (outstanding st now)) by exact Hdead.
  rewrite map_map. apply map_ext_in. intros d Hd. apply filter_In in Hd. destruct Hd as [Hd Ho].
  unfold view_del.
  destruct (d_null_link_fields chosen d) as (A & B & C & D & E & F).
  rewrite d_null_link_id, d_null_link_sub, B, C, D, E, F.
  change (get_msg st' (d_msg d)) with (get_msg st (d_msg d)).
  change (get_sub st' (d_sub d)) with (get_sub st (d_sub d)).
  f_equal.
  destruct (get_sub st (d_sub d)) as [s|] eqn:Es; [|reflexivity]. f_equal.
  (* blockedness *)
  unfold pred_blocks.
  destruct (d_not_before d) as [p|] eqn:Ep.
  2:{ unfold d_null_link. rewrite Ep. rewrite Ep. reflexivity. }
  destruct (mem_id p chosen) eqn:M.
  - (* the predecessor is removed: the link is nulled; it did not block before *)
    assert (Hn : d_not_before (d_null_link chosen d) = None).
    { unfold d_null_link. rewrite Ep, M. reflexivity. }
    rewrite Hn. apply mem_id_In in M.
    destruct (get_del st p) as [pd|] eqn:Epd; [|reflexivity].
    apply get_del_in in Epd. destruct Epd as [Hpd Hid].
    assert (Hop : outstanding st now pd = false) by (apply Hdead; [exact Hpd|rewrite Hid; exact M]).
    unfold outstanding in Hop.
    assert (Hsub : d_sub pd = d_sub d) by (eapply LK; eauto).
    rewrite Hsub, Es in Hop.
    unfold outstanding in Ho. rewrite Es in Ho.
    apply andb_true_iff in Ho. destruct Ho as [_ Hl]. rewrite Hl, andb_true_r in Hop.
    symmetry. exact Hop.
  - assert (Hn : d_null_link chosen d = d).
    { unfold d_null_link. rewrite Ep, M. reflexivity. }
    rewrite Hn, Ep.
    apply mem_id_false in M.
    unfold get_del. cbn [st' set_dels dels].
    rewrite (find_id_map15 d_id) by (intros; apply d_null_link_id).
    rewrite (find_id_del_ids_out d_id) by exact M.
    destruct (find_id d_id p (dels st)) as [pd|]; cbn [option_map]; [|reflexivity].
    destruct (d_null_link_fields chosen pd) as (A' & B' & _). rewrite A', B'. reflexivity.
Qed.

(* ---- removing rows of other tables ---- *)
Lemma view_dels_same_dels st st' now :
  dels st' = dels st ->
  (forall d, In d (dels st) -> outstanding st' now d = outstanding st now d) ->
  (forall d, In d (dels st) -> outstanding st now d = true ->
             get_sub st' (d_sub d) = get_sub st (d_sub d) /\ get_msg st' (d_msg d) = get_msg st (d_msg d)) ->
  map (view_del st' now) (filter (outstanding st' now) (dels st')) =
  map (view_del st now) (filter (outstanding st now) (dels st)).
Proof.
  intros ED HO HG. rewrite ED.
  rewrite (filter_ext_in15 (outstanding st' now) (outstanding st now)) by exact HO.
  apply map_ext_in. intros d Hd. apply filter_In in Hd. destruct Hd as [Hd Ho].
  destruct (HG d Hd Ho) as [G1 G2]. unfold view_del. rewrite G1, G2.
  f_equal. destruct (get_sub st (d_sub d)); [|reflexivity]. f_equal.
  unfold pred_blocks, get_del. rewrite ED. reflexivity.
Qed.

(* ---- the executable comparison is reflexive (so the monitor is quiet on equal views) ---- *)
Lemma list_eqb_refl {A} (e : A -> A -> bool) : (forall x, e x x = true) -> forall l, list_eqb e l l = true.
Proof. intros H l. induction l as [|a l IH]; cbn; [reflexivity|]. rewrite H, IH. reflexivity. Qed.
Lemma opt_eqb_refl {A} (e : A -> A -> bool) : (forall x, e x x = true) -> forall o, opt_eqb e o o = true.
Proof. intros H [x|]; cbn; auto. Qed.
Lemma pair_eqb_refl {A B} (ea : A -> A -> bool) (eb : B -> B -> bool) :
  (forall x, ea x x = true) -> (forall x, eb x x = true) -> forall p, pair_eqb ea eb p p = true.
Proof. intros Ha Hb [a b]. unfold pair_eqb. cbn [fst snd]. rewrite Ha, Hb. reflexivity. Qed.
Lemma smap_eqb_refl m : smap_eqb m m = true.
Proof. apply list_eqb_refl. apply pair_eqb_refl; apply String.eqb_refl. Qed.
Lemma oz_eqb_refl o : oz_eqb o o = true. Proof. apply opt_eqb_refl. apply Z.eqb_refl. Qed.
Lemma on_eqb_refl o : on_eqb o o = true. Proof. apply opt_eqb_refl. apply N.eqb_refl. Qed.
Lemma os_eqb_refl o : os_eqb o o = true. Proof. apply opt_eqb_refl. apply String.eqb_refl. Qed.

Ltac refl_all :=
  repeat first [rewrite N.eqb_refl | rewrite Z.eqb_refl | rewrite String.eqb_refl | rewrite smap_eqb_refl
               | rewrite oz_eqb_refl | rewrite on_eqb_refl | rewrite os_eqb_refl | rewrite Bool.eqb_reflx];
  cbn [andb]; try reflexivity.

Lemma topic_eqb_refl t : topic_eqb t t = true. Proof. unfold topic_eqb. refl_all. Qed.
Lemma sub_eqb_refl s : sub_eqb s s = true. Proof. unfold sub_eqb. refl_all. Qed.
Lemma msg_eqb_refl m : msg_eqb m m = true. Proof. unfold msg_eqb. refl_all. Qed.
Lemma snap_eqb_refl n : snap_eqb n n = true.
Proof. unfold snap_eqb. refl_all. apply list_eqb_refl. apply N.eqb_refl. Qed.
Lemma odel_eqb_refl o : odel_eqb o o = true.
Proof. unfold odel_eqb. rewrite (opt_eqb_refl msg_eqb msg_eqb_refl). refl_all. Qed.

Lemma view_eqb_refl v : view_eqb v v = true.
Proof.
  unfold view_eqb.
  rewrite (list_eqb_refl topic_eqb topic_eqb_refl), (list_eqb_refl sub_eqb sub_eqb_refl),
          (list_eqb_refl snap_eqb snap_eqb_refl), (list_eqb_refl odel_eqb odel_eqb_refl).
  rewrite !(list_eqb_refl (pair_eqb N.eqb String.eqb) (pair_eqb_refl _ _ N.eqb_refl String.eqb_refl)).
  reflexivity.
Qed.
