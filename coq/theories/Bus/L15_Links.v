(* Bus/L15_Links.v -- predecessor links (d_not_before) stay within one subscription:
   an invariant of the delivery table under every legal step (together with unique ids and
   "no dangling link"). *)
From MB Require Import Base.
From MB.Bus Require Import State Ops Step Defs L_Tables L_Good L_Helpers L_Step L15_Lists.
Local Open Scope string_scope.
Open Scope list_scope.
Open Scope Z_scope.

Definition lk (D : list del) : Prop :=
  forall d p pd, In d D -> d_not_before d = Some p -> In pd D -> d_id pd = p -> d_sub pd = d_sub d.
Definition closed (D : list del) : Prop :=
  forall d p, In d D -> d_not_before d = Some p -> In p (map d_id D).
Definition dinv (D : list del) : Prop := NoDup (map d_id D) /\ lk D /\ closed D.

Definition lkeep (d d' : del) : Prop :=
  d_id d' = d_id d /\ d_sub d' = d_sub d /\ d_not_before d' = d_not_before d.

Lemma lkeep_refl d : lkeep d d.
Proof. repeat split. Qed.
Lemma lkeep_completed t d : lkeep d (d_set_completed t d).
Proof. repeat split. Qed.
Lemma lkeep_attempt_at t d : lkeep d (d_set_attempt_at t d).
Proof. repeat split. Qed.
Lemma lkeep_lease a b d : lkeep d (d_lease a b d).
Proof. repeat split. Qed.
Lemma lkeep_revive a b d : lkeep d (d_revive a b d).
Proof. repeat split. Qed.

Lemma dinv_map f D : (forall d, lkeep d (f d)) -> dinv D -> dinv (map f D).
Proof.
  intros HK (ND & LK & CL).
  assert (EM : map d_id (map f D) = map d_id D).
  { apply map_key_map. intros r _. apply HK. }
  split; [rewrite EM; exact ND|]. split.
  - intros d' p pd' Hd' Hp Hpd' Hi.
    apply in_map_iff in Hd'. destruct Hd' as [d [<- Hd]].
    apply in_map_iff in Hpd'. destruct Hpd' as [pd [<- Hpd]].
    destruct (HK d) as (A1 & A2 & A3). destruct (HK pd) as (B1 & B2 & B3).
    rewrite A2, B2. rewrite A3 in Hp. rewrite B1 in Hi. eapply LK; eauto.
  - intros d' p Hd' Hp. rewrite EM.
    apply in_map_iff in Hd'. destruct Hd' as [d [<- Hd]].
    destruct (HK d) as (A1 & A2 & A3). rewrite A3 in Hp. eapply CL; eauto.
Qed.

Lemma dinv_upd p f D : (forall d, lkeep d (f d)) -> dinv D -> dinv (upd_where p f D).
Proof.
  intros HK. unfold upd_where. apply dinv_map. intros d. destruct (p d); [apply HK|apply lkeep_refl].
Qed.

Lemma dinv_ins d D :
  dinv D -> has_id d_id (d_id d) D = false ->
  (forall p, d_not_before d = Some p -> exists pd, In pd D /\ d_id pd = p /\ d_sub pd = d_sub d) ->
  dinv (ins d_id d D).
Proof.
  intros (ND & LK & CL) HF HP. apply has_id_false in HF.
  split; [apply nodup_ins; assumption|]. split.
  - intros x p px Hx Hp Hpx Hi.
    apply in_ins in Hx. apply in_ins in Hpx.
    destruct Hx as [->|Hx], Hpx as [->|Hpx].
    + reflexivity.
    + destruct (HP p Hp) as (pd & Hpd & Hpi & Hps).
      assert (px = pd) by (eapply key_inj_nodup15; eauto; congruence). subst. exact Hps.
    + exfalso. apply HF. rewrite Hi. eapply CL; eauto.
    + eapply LK; eauto.
  - intros x p Hx Hp. apply in_map_ins. right.
    apply in_ins in Hx. destruct Hx as [->|Hx].
    + destruct (HP p Hp) as (pd & Hpd & Hpi & _). rewrite <- Hpi. apply in_map. exact Hpd.
    + eapply CL; eauto.
Qed.

Lemma d_null_link_sub ids d : d_sub (d_null_link ids d) = d_sub d.
Proof. destruct (d_null_link_cases ids d) as [->|(p&_&_&_&E&_)]; auto. Qed.

Lemma d_null_link_some ids d p :
  d_not_before (d_null_link ids d) = Some p -> d_not_before d = Some p /\ ~ In p ids.
Proof.
  unfold d_null_link. destruct (d_not_before d) as [q|] eqn:E; [|rewrite E; discriminate].
  destruct (mem_id q ids) eqn:M; cbn [d_not_before]; [discriminate|].
  rewrite E. intros H; inversion H; subst. split; [reflexivity|]. apply mem_id_false. exact M.
Qed.

Lemma dinv_prune ch D : dinv D -> dinv (map (d_null_link ch) (del_ids d_id ch D)).
Proof.
  intros (ND & LK & CL).
  assert (EM : map d_id (map (d_null_link ch) (del_ids d_id ch D)) = map d_id (del_ids d_id ch D)).
  { apply map_key_map. intros r _. apply d_null_link_id. }
  split; [rewrite EM; apply nodup_map_del_ids; exact ND|]. split.
  - intros d' p pd' Hd' Hp Hpd' Hi.
    apply in_map_iff in Hd'. destruct Hd' as [d [<- Hd]].
    apply in_map_iff in Hpd'. destruct Hpd' as [pd [<- Hpd]].
    apply in_del_ids in Hd. apply in_del_ids in Hpd. destruct Hd as [Hd _], Hpd as [Hpd _].
    apply d_null_link_some in Hp. destruct Hp as [Hp _].
    rewrite d_null_link_id in Hi. rewrite !d_null_link_sub. eapply LK; eauto.
  - intros d' p Hd' Hp. rewrite EM.
    apply in_map_iff in Hd'. destruct Hd' as [d [<- Hd]].
    apply in_del_ids in Hd. destruct Hd as [Hd _].
    apply d_null_link_some in Hp. destruct Hp as [Hp Hn].
    apply in_map_del_ids. split; [eapply CL; eauto|exact Hn].
Qed.

(* ---- the helper transactions ---- *)
Lemma last_delivery_sub st s m now d :
  last_delivery st s m now = Some d -> In d (dels st) /\ d_sub d = s_id s.
Proof.
  unfold last_delivery. intros H.
  apply (fold_best_in (fun b d => (d_published b <? d_published d)%Z)) in H.
  destruct H as [H|H]; [|discriminate].
  apply filter_In in H. destruct H as [Hi P]. split; [exact Hi|].
  apply andb_true_iff in P. destruct P as [P _]. apply andb_true_iff in P. destruct P as [P _].
  apply N.eqb_eq. exact P.
Qed.

Lemma deliver_to_sub_dinv st s m now fr st' fr' w n :
  deliver_to_sub st s m now fr = (st', fr', w, n) -> n = [] -> dinv (dels st) -> dinv (dels st').
Proof.
  unfold deliver_to_sub.
  destruct (negb (filter_accepts (s_filter s) (m_attrs m))).
  { intros H; inversion H; subst. auto. }
  destruct (take_fresh (m_id m) (s_id s) fr) as [[i|] fr1].
  2:{ intros H; inversion H; subst. discriminate. }
  intros H; inversion H; subst; clear H. intros Hn HD.
  destruct (has_id d_id i (dels st)) eqn:HF; [discriminate|].
  cbn [dels]. apply dinv_ins; cbn [d_id d_sub d_not_before]; [exact HD|exact HF|].
  intros p Hp.
  destruct (s_ordered s && match m_key m with Some k => negb (String.eqb k "") | None => false end);
    [|discriminate].
  destruct (last_delivery st s m now) as [ld|] eqn:LD; [|discriminate].
  cbn in Hp. inversion Hp; subst. apply last_delivery_sub in LD. destruct LD as [A B].
  exists ld. auto.
Qed.

Lemma deliver_to_subs_dinv m now : forall ss st fr st' fr' w n,
  deliver_to_subs st ss m now fr = (st', fr', w, n) -> n = [] -> dinv (dels st) -> dinv (dels st').
Proof.
  induction ss as [|s ss IH]; intros st fr st' fr' w n; cbn [deliver_to_subs].
  - intros H; inversion H; subst. auto.
  - destruct (deliver_to_sub st s m now fr) as [[[st1 fr1] w1] n1] eqn:E1.
    destruct (deliver_to_subs st1 ss m now fr1) as [[[st2 fr2] w2] n2] eqn:E2.
    intros H; inversion H; subst; clear H. intros Hn HD.
    apply app_eq_nil in Hn. destruct Hn as [-> ->].
    eapply IH; [exact E2|reflexivity|]. eapply deliver_to_sub_dinv; eauto.
Qed.

Lemma dl_deliver_dinv st d dlt now fr st' fr' w n :
  dl_deliver st d dlt now fr = (st', fr', w, n) -> n = [] -> dinv (dels st) -> dinv (dels st').
Proof.
  unfold dl_deliver.
  assert (Triv : forall w0 n0, (st, fr, w0, n0) = (st', fr', w, n) ->
                 n = [] -> dinv (dels st) -> dinv (dels st')).
  { intros w0 n0 H; inversion H; subst. auto. }
  destruct (get_topic st dlt) as [t|]; [|apply Triv].
  destruct (topic_live t); [|apply Triv].
  destruct (live_subs_of st dlt) as [|s ss] eqn:L; [apply Triv|].
  destruct (get_msg st (d_msg d)) as [m|] eqn:GM; [|apply Triv].
  apply deliver_to_subs_dinv.
Qed.

Lemma dead_letter_dinv st d dlt now fr st' fr' w n :
  dead_letter st d dlt now fr = (st', fr', w, n) -> n = [] -> dinv (dels st) -> dinv (dels st').
Proof.
  rewrite dead_letter_eq.
  destruct (dl_deliver st d dlt now fr) as [[[st1 fr1] w1] n1] eqn:E.
  intros H; inversion H; subst; clear H. intros Hn HD. cbn [set_dels dels].
  apply dinv_upd; [intros; apply lkeep_completed|]. eapply dl_deliver_dinv; eauto.
Qed.

Lemma dl_opt_dinv st d o now fr st' fr' w n :
  dl_opt st d o now fr = (st', fr', w, n) -> n = [] -> dinv (dels st) -> dinv (dels st').
Proof.
  unfold dl_opt. destruct o as [dlt|]; [apply dead_letter_dinv|].
  intros H; inversion H; subst. auto.
Qed.

Lemma nack_one_dinv st s d wnow fz fr st' fr' w n :
  nack_one st s d wnow fz fr = (st', fr', w, n) -> n = [] -> dinv (dels st) -> dinv (dels st').
Proof.
  unfold nack_one. destruct (full_dl s && (max_attempts_of s <=? d_attempts d)%Z).
  - apply dl_opt_dinv.
  - intros H; inversion H; subst; clear H. intros _ HD. cbn [set_dels dels].
    apply dinv_upd; [intros; apply lkeep_attempt_at|exact HD].
Qed.

Lemma nack_each_dinv now wnow fz : forall ds st fr st' fr' w n,
  nack_each st ds now wnow fz fr = (st', fr', w, n) -> n = [] -> dinv (dels st) -> dinv (dels st').
Proof.
  induction ds as [|d ds IH]; intros st fr st' fr' w n.
  - cbn [nack_each]. intros H; inversion H; subst. auto.
  - rewrite nack_each_cons.
    destruct (get_sub st (d_sub d)) as [s|].
    2:{ intros H; inversion H; subst. discriminate. }
    destruct (nack_one st s d wnow fz fr) as [[[st1 fr1] w1] n1] eqn:E1.
    destruct (nack_each st1 ds now wnow fz fr1) as [[[st2 fr2] w2] n2] eqn:E2.
    intros H; inversion H; subst; clear H. intros Hn HD.
    apply app_eq_nil in Hn. destruct Hn as [-> ->].
    eapply IH; [exact E2|reflexivity|]. eapply nack_one_dinv; eauto.
Qed.

Lemma do_nack_dinv st ids now wnow fz fr st' fr' w n :
  do_nack st ids now wnow fz fr = (st', fr', w, n) -> n = [] -> dinv (dels st) -> dinv (dels st').
Proof. unfold do_nack. apply nack_each_dinv. Qed.

Lemma apply_results_dinv s strict maxb now wnow fz : forall cands st first bytes fr st' fr' ps w n,
  apply_results st s cands first strict bytes maxb now wnow fz fr = (st', fr', ps, w, n) ->
  n = [] -> dinv (dels st) -> dinv (dels st').
Proof.
  induction cands as [|d cands IH]; intros st first bytes fr st' fr' ps w n.
  - cbn [apply_results]. intros H; inversion H; subst. auto.
  - rewrite apply_results_cons.
    destruct (get_msg st (d_msg d)) as [m|].
    2:{ intros H; inversion H; subst. discriminate. }
    destruct ((strict || negb first) && (maxb <? bytes + m_size m)%Z).
    { apply IH. }
    destruct (full_dl s && (max_attempts_of s <=? d_attempts d)%Z).
    + destruct (dl_opt st d (s_dl_topic s) wnow fr) as [[[st1 fr1] w1] n1] eqn:E1.
      destruct (apply_results st1 s cands false strict bytes maxb now wnow fz fr1)
        as [[[[st2 fr2] ps2] w2] n2] eqn:E2.
      intros H; inversion H; subst; clear H. intros Hn HD.
      apply app_eq_nil in Hn. destruct Hn as [-> ->].
      eapply IH; [exact E2|reflexivity|]. eapply dl_opt_dinv; eauto.
    + cbv zeta.
      match goal with |- context [apply_results ?a s cands false strict ?b maxb now wnow fz fr] =>
        destruct (apply_results a s cands false strict b maxb now wnow fz fr)
          as [[[[st2 fr2] ps2] w2] n2] eqn:E2 end.
      intros H; inversion H; subst; clear H. intros Hn HD.
      apply app_eq_nil in Hn. destruct Hn as [_ ->].
      eapply IH; [exact E2|reflexivity|]. cbn [set_dels dels].
      apply dinv_upd; [intros; apply lkeep_lease|exact HD].
Qed.

Lemma sweep_each_dinv wnow : forall ds st fr st' fr' w n,
  sweep_each st ds wnow fr = (st', fr', w, n) -> n = [] -> dinv (dels st) -> dinv (dels st').
Proof.
  induction ds as [|i ds IH]; intros st fr st' fr' w n; cbn [sweep_each].
  - intros H; inversion H; subst. auto.
  - destruct (get_del st i) as [d|].
    2:{ intros H; inversion H; subst. discriminate. }
    destruct (get_sub st (d_sub d)) as [s|].
    2:{ intros H; inversion H; subst. discriminate. }
    destruct (s_dl_topic s) as [dlt|].
    2:{ intros H; inversion H; subst. discriminate. }
    destruct (dead_letter st d dlt wnow fr) as [[[st1 fr1] w1] n1] eqn:E1.
    destruct (sweep_each st1 ds wnow fr1) as [[[st2 fr2] w2] n2] eqn:E2.
    intros H; inversion H; subst; clear H. intros Hn HD.
    apply app_eq_nil in Hn. destruct Hn as [-> ->].
    eapply IH; [exact E2|reflexivity|]. eapply dead_letter_dinv; eauto.
Qed.

Lemma publish_one_dinv st t p fr st' fr' w n :
  publish_one st t p fr = (st', fr', w, n) -> n = [] -> dinv (dels st) -> dinv (dels st').
Proof.
  unfold publish_one.
  match goal with |- context [deliver_to_subs ?a ?b ?c ?d ?e] =>
    destruct (deliver_to_subs a b c d e) as [[[st2 fr2] w2] n2] eqn:E end.
  intros H; inversion H; subst; clear H. intros Hn HD.
  apply app_eq_nil in Hn. destruct Hn as [_ ->].
  eapply deliver_to_subs_dinv; [exact E|reflexivity|]. cbn [set_msgs dels]. exact HD.
Qed.

Lemma publish_all_dinv t : forall ps st fr st' fr' w n,
  publish_all st t ps fr = Some (st', fr', w, n) -> n = [] -> dinv (dels st) -> dinv (dels st').
Proof.
  induction ps as [|p ps IH]; intros st fr st' fr' w n; cbn [publish_all].
  - intros H; inversion H; subst. auto.
  - destruct (negb (pm_valid p)); [discriminate|].
    destruct (publish_one st t p fr) as [[[st1 fr1] w1] n1] eqn:E1.
    destruct (publish_all st1 t ps fr1) as [[[[st2 fr2] w2] n2]|] eqn:E2; [|discriminate].
    intros H; inversion H; subst; clear H. intros Hn HD.
    apply app_eq_nil in Hn. destruct Hn as [-> ->].
    eapply IH; [exact E2|reflexivity|]. eapply publish_one_dinv; eauto.
Qed.

Lemma do_ack_dinv st ids wnow st' w :
  do_ack st ids wnow = (st', w) -> dinv (dels st) -> dinv (dels st').
Proof.
  unfold do_ack. intros H; inversion H; subst; clear H. cbn [set_dels dels].
  apply dinv_upd. intros; apply lkeep_completed.
Qed.

Lemma do_delay_dinv st ids delay wnow st' w :
  do_delay st ids delay wnow = (st', w) -> dinv (dels st) -> dinv (dels st').
Proof.
  unfold do_delay. destruct (delay <=? 0)%Z; intros H; inversion H; subst; clear H;
    cbn [set_dels dels]; apply dinv_upd; intros; apply lkeep_attempt_at.
Qed.

Lemma seek_time_dinv st s target now wnow st' w :
  seek_time st s target now wnow = (st', w) -> dinv (dels st) -> dinv (dels st').
Proof.
  unfold seek_time. intros H; inversion H; subst; clear H. cbn [set_dels dels]. intros HD.
  apply dinv_upd; [intros; apply lkeep_revive|].
  apply dinv_upd; [intros; apply lkeep_completed|exact HD].
Qed.

Lemma seek_snap_dinv st s n now wnow st' w :
  seek_snap st s n now wnow = (st', w) -> dinv (dels st) -> dinv (dels st').
Proof.
  unfold seek_snap. intros H; inversion H; subst; clear H. cbn [set_dels dels]. intros HD.
  apply dinv_upd; [intros; apply lkeep_revive|].
  destruct (n_acked n).
  - apply dinv_upd; [intros; apply lkeep_completed|exact HD].
  - apply dinv_upd; [intros; apply lkeep_completed|].
    apply dinv_upd; [intros; apply lkeep_completed|exact HD].
Qed.

Lemma run_job_dinv st now j min_age max chosen failed wnow fr :
  r_notes (run_job st now j min_age max chosen failed wnow fr) = [] ->
  dinv (dels st) -> dinv (dels (r_state (run_job st now j min_age max chosen failed wnow fr))).
Proof.
  unfold run_job. destruct failed.
  { destruct j; leaf; intros; assumption. }
  destruct j; cbv beta match zeta.
  - leaf. intros _. cbn [set_dels dels]. apply dinv_prune.
  - leaf. intros _. cbn [set_dels dels]. apply dinv_prune.
  - leaf. intros _ HD. exact HD.
  - leaf. intros _. cbn [set_dels dels]. apply dinv_prune.
  - leaf. intros _ HD. exact HD.
  - destruct (existsb (topic_has_messages st) chosen) eqn:HM; leaf; [discriminate|].
    intros _ HD. exact HD.
  - leaf. intros _ HD. exact HD.
  - destruct (sweep_each st chosen wnow fr) as [[[st1 fr1] w] n] eqn:E.
    leaf. intros HN. apply app_eq_nil in HN. destruct HN as [_ HN].
    apply app_eq_nil in HN. destruct HN as [-> _].
    eapply sweep_each_dinv; [exact E|reflexivity].
Qed.

Ltac dleaf :=
  cbv beta match zeta;
  cbn [r_notes r_state done fail set_topics set_subs set_snaps set_msgs set_dels dels].

Lemma create_sub_dels st q fresh wnow : dels (r_state (create_sub st q fresh wnow)) = dels st.
Proof. unfold create_sub. repeat step_destr; dleaf; reflexivity. Qed.

Lemma update_sub_dels st q paths wnow : dels (r_state (update_sub st q paths wnow)) = dels st.
Proof. unfold update_sub. repeat step_destr; dleaf; reflexivity. Qed.

Lemma step_dinv st now o : legal st now o -> dinv (dels st) -> dinv (dels (post st now o)).
Proof.
  unfold legal, post. destruct o; unfold step.
  - (* CreateTopic *) repeat step_destr; dleaf; intros HN HD; exact HD.
  - (* GetTopic *) repeat step_destr; dleaf; intros HN HD; exact HD.
  - (* UpdateTopic *) repeat step_destr; dleaf; intros HN HD; exact HD.
  - (* DeleteTopic *) repeat step_destr; dleaf; intros HN HD; exact HD.
  - (* ListTopics *) repeat step_destr; dleaf; intros HN HD; exact HD.
  - (* ListTopicSubs *) repeat step_destr; dleaf; intros HN HD; exact HD.
  - (* Publish *)
    repeat step_destr; dleaf; intros HN HD; try exact HD.
    apply app_eq_nil in HN. destruct HN as [-> _].
    match goal with H : publish_all _ _ _ _ = Some _ |- _ =>
      eapply publish_all_dinv; [exact H|reflexivity|exact HD] end.
  - (* CreateSub *) intros _ HD. rewrite create_sub_dels. exact HD.
  - (* GetSub *) repeat step_destr; dleaf; intros HN HD; exact HD.
  - (* UpdateSub *) intros _ HD. rewrite update_sub_dels. exact HD.
  - (* ListSubs *) repeat step_destr; dleaf; intros HN HD; exact HD.
  - (* DeleteSub *) repeat step_destr; dleaf; intros HN HD; exact HD.
  - (* ModAck *)
    repeat step_destr; dleaf; intros HN HD; try exact HD.
    match goal with H : do_delay _ _ _ _ = _ |- _ => eapply do_delay_dinv; [exact H|exact HD] end.
  - (* Ack *)
    repeat step_destr; dleaf; intros HN HD; try exact HD.
    match goal with H : do_ack _ _ _ = _ |- _ => eapply do_ack_dinv; [exact H|exact HD] end.
  - (* Pull *)
    repeat step_destr; dleaf; intros HN HD; try exact HD.
    apply app_eq_nil in HN. destruct HN as [_ HN].
    apply app_eq_nil in HN. destruct HN as [-> _].
    match goal with H : apply_results _ _ _ _ _ _ _ _ _ _ _ = _ |- _ =>
      eapply apply_results_dinv; [exact H|reflexivity|] end.
    cbn [set_subs dels]. exact HD.
  - (* SeekTime *)
    repeat step_destr; dleaf; intros HN HD; try exact HD.
    match goal with H : seek_time _ _ _ _ _ = _ |- _ => eapply seek_time_dinv; [exact H|exact HD] end.
  - (* SeekSnap *)
    repeat step_destr; dleaf; intros HN HD; try exact HD.
    match goal with H : seek_snap _ _ _ _ _ = _ |- _ => eapply seek_snap_dinv; [exact H|exact HD] end.
  - (* SeekNoTarget *) repeat step_destr; dleaf; intros HN HD; exact HD.
  - (* ModifyPush *) repeat step_destr; dleaf; intros HN HD; exact HD.
  - (* CreateSnap *) repeat step_destr; dleaf; intros HN HD; exact HD.
  - (* GetSnap *) repeat step_destr; dleaf; intros HN HD; exact HD.
  - (* ListSnaps *) repeat step_destr; dleaf; intros HN HD; exact HD.
  - (* DeleteSnap *) repeat step_destr; dleaf; intros HN HD; exact HD.
  - (* StreamAckNack *)
    repeat step_destr; dleaf; intros HN HD.
    apply app_eq_nil in HN. destruct HN as [-> _].
    match goal with H : do_nack _ _ _ _ _ _ = _ |- _ =>
      eapply do_nack_dinv; [exact H|reflexivity|] end.
    match goal with H : do_ack _ _ _ = _ |- _ => eapply do_ack_dinv; [exact H|exact HD] end.
  - (* SetDelay *) repeat step_destr; dleaf; intros HN HD; exact HD.
  - (* Job *) apply run_job_dinv.
Qed.
