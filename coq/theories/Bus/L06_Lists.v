(* Bus/L06_Lists.v -- generic list / id-table lemmas used by T_C06 (self-contained). *)
From Coq Require Import Permutation.
From MB Require Import Base.
From MB.Bus Require Import State.
Open Scope list_scope.

Lemma mem_id_In i l : mem_id i l = true <-> In i l.
Proof.
  unfold mem_id. rewrite existsb_exists. split.
  - intros [x [Hx He]]. apply N.eqb_eq in He. subst; exact Hx.
  - intros H. exists i. split; [exact H|apply N.eqb_refl].
Qed.

Lemma mem_id_false i l : mem_id i l = false <-> ~ In i l.
Proof.
  rewrite <- mem_id_In. destruct (mem_id i l); split; congruence.
Qed.

Lemma in_ins_id x i l : In x (ins_id i l) <-> x = i \/ In x l.
Proof.
  induction l as [|y l IH]; cbn [ins_id].
  - cbn. intuition.
  - destruct (i <? y)%N.
    + cbn. intuition.
    + destruct (N.eqb i y) eqn:E.
      * apply N.eqb_eq in E. subst y. cbn. intuition.
      * cbn [In]. rewrite IH. intuition.
Qed.

Lemma in_sort_ids x l : In x (sort_ids l) <-> In x l.
Proof.
  unfold sort_ids. induction l as [|y l IH]; cbn [fold_right].
  - reflexivity.
  - rewrite in_ins_id, IH. cbn. intuition.
Qed.

Section TableLemmas.
  Context {R : Type} (key : R -> id).

  Lemma in_ins x r l : In x (ins key r l) <-> x = r \/ In x l.
  Proof.
    induction l as [|y l IH]; cbn [ins].
    - cbn. intuition.
    - destruct (key r <? key y)%N.
      + cbn. intuition.
      + cbn [In]. rewrite IH. intuition.
  Qed.

  Lemma perm_ins r l : Permutation (ins key r l) (r :: l).
  Proof.
    induction l as [|y l IH]; cbn [ins].
    - apply Permutation_refl.
    - destruct (key r <? key y)%N.
      + apply Permutation_refl.
      + eapply Permutation_trans; [apply perm_skip; exact IH|apply perm_swap].
  Qed.

  Lemma find_id_some i l r : find_id key i l = Some r -> In r l /\ key r = i.
  Proof.
    induction l as [|y l IH]; cbn [find_id]; [discriminate|].
    destruct (N.eqb (key y) i) eqn:E.
    - intros H; inversion H; subst. apply N.eqb_eq in E. split; [left; reflexivity|exact E].
    - intros H. destruct (IH H) as [Hi Hk]. split; [right; exact Hi|exact Hk].
  Qed.

  Lemma find_id_none i l : find_id key i l = None <-> ~ In i (map key l).
  Proof.
    induction l as [|y l IH]; cbn [find_id map].
    - split; [intros _ []|reflexivity].
    - destruct (N.eqb (key y) i) eqn:E.
      + apply N.eqb_eq in E. split; [discriminate|]. intros H; exfalso; apply H; left; exact E.
      + apply N.eqb_neq in E. rewrite IH. cbn [In]. intuition.
  Qed.

  Lemma has_id_in i l : has_id key i l = true <-> In i (map key l).
  Proof.
    unfold has_id. destruct (find_id key i l) eqn:E.
    - apply find_id_some in E. destruct E as [Hi Hk].
      split; [intros _|reflexivity]. rewrite <- Hk. apply in_map; exact Hi.
    - apply find_id_none in E. split; [discriminate|]. intros H; contradiction.
  Qed.

  Lemma has_id_false i l : has_id key i l = false <-> ~ In i (map key l).
  Proof.
    rewrite <- has_id_in. destruct (has_id key i l); split; congruence.
  Qed.

  Lemma find_id_in_nodup r l :
    NoDup (map key l) -> In r l -> find_id key (key r) l = Some r.
  Proof.
    induction l as [|y l IH]; cbn [find_id map]; intros Hd Hi; [destruct Hi|].
    inversion Hd as [|a b Hy Hd']; subst.
    destruct Hi as [->|Hi].
    - rewrite N.eqb_refl. reflexivity.
    - destruct (N.eqb (key y) (key r)) eqn:E.
      + apply N.eqb_eq in E. exfalso. apply Hy. rewrite E. apply in_map; exact Hi.
      + apply IH; assumption.
  Qed.

  (* with unique keys, two rows with the same key are the same row *)
  Lemma nodup_key_inj l a b :
    NoDup (map key l) -> In a l -> In b l -> key a = key b -> a = b.
  Proof.
    intros Hd Ha Hb He.
    pose proof (find_id_in_nodup a l Hd Ha) as H1.
    pose proof (find_id_in_nodup b l Hd Hb) as H2.
    rewrite He in H1. congruence.
  Qed.

  Lemma in_upd_where (p : R -> bool) (f : R -> R) l x :
    In x (upd_where p f l) <-> exists r, In r l /\ x = (if p r then f r else r).
  Proof.
    unfold upd_where. rewrite in_map_iff. split.
    - intros [r [He Hr]]. exists r. split; [exact Hr|symmetry; exact He].
    - intros [r [Hr He]]. exists r. split; [symmetry; exact He|exact Hr].
  Qed.
End TableLemmas.

Lemma perm_filter {A} (p : A -> bool) (l l' : list A) :
  Permutation l l' -> Permutation (filter p l) (filter p l').
Proof.
  induction 1 as [|x l l' H IH|x y l|l l' l'' H1 IH1 H2 IH2]; cbn [filter].
  - apply Permutation_refl.
  - destruct (p x); [apply perm_skip|]; exact IH.
  - destruct (p x), (p y); try apply Permutation_refl. apply perm_swap.
  - eapply Permutation_trans; eauto.
Qed.

Lemma filter_all_false {A} (p : A -> bool) (l : list A) :
  (forall x, In x l -> p x = false) -> filter p l = [].
Proof.
  induction l as [|y l IH]; cbn [filter]; intros H; [reflexivity|].
  rewrite (H y (or_introl eq_refl)). apply IH. intros x Hx. apply H. right; exact Hx.
Qed.

Lemma filter_all_true {A} (p : A -> bool) (l : list A) :
  (forall x, In x l -> p x = true) -> filter p l = l.
Proof.
  induction l as [|y l IH]; cbn [filter]; intros H; [reflexivity|].
  rewrite (H y (or_introl eq_refl)). f_equal. apply IH. intros x Hx. apply H. right; exact Hx.
Qed.

Lemma filter_nil_all {A} (p : A -> bool) (l : list A) :
  filter p l = [] -> forall x, In x l -> p x = false.
Proof.
  induction l as [|y l IH]; cbn [filter]; intros H x Hx; [destruct Hx|].
  destruct (p y) eqn:E; [discriminate|].
  destruct Hx as [<-|Hx]; [exact E|apply IH; assumption].
Qed.

(* a flat_map of at-most-singletons as long as its input found every element *)
Lemma flat_map_opt_length_le {A B} (f : A -> option B) (l : list A) :
  (length (flat_map (fun i => match f i with Some d => [d] | None => [] end) l) <= length l)%nat.
Proof.
  induction l as [|a l IH]; cbn [flat_map length]; [lia|].
  rewrite app_length. destruct (f a); cbn [length]; lia.
Qed.

Lemma flat_map_opt_length_all {A B} (f : A -> option B) (l : list A) :
  length (flat_map (fun i => match f i with Some d => [d] | None => [] end) l) = length l ->
  forall i, In i l -> f i <> None.
Proof.
  induction l as [|a l IH]; cbn [flat_map length]; intros H i Hi; [destruct Hi|].
  rewrite app_length in H.
  pose proof (flat_map_opt_length_le f l) as Hle.
  destruct (f a) eqn:E; cbn [length] in H.
  - destruct Hi as [<-|Hi]; [congruence|]. apply IH; [lia|exact Hi].
  - exfalso. lia.
Qed.

Lemma in_flat_map_opt {A B} (f : A -> option B) (l : list A) (d : B) :
  In d (flat_map (fun i => match f i with Some d => [d] | None => [] end) l) <->
  exists i, In i l /\ f i = Some d.
Proof.
  rewrite in_flat_map. split.
  - intros [i [Hi Hd]]. exists i. split; [exact Hi|].
    destruct (f i); [|destruct Hd]. destruct Hd as [<-|[]]. reflexivity.
  - intros [i [Hi Hf]]. exists i. split; [exact Hi|]. rewrite Hf. left; reflexivity.
Qed.
