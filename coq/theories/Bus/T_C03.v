(* Bus/T_C03.v -- C03: acknowledgement is final and idempotent. *)
From MB Require Import Base.
From MB.Bus Require Import State Ops Step Defs T_Inv L03_Lists L03_Rows L03_Step.
Local Open Scope string_scope.
Open Scope list_scope.
Open Scope Z_scope.

(* ---- Acknowledge: exact effect ---- *)
(* An Acknowledge with a well-formed subscription name and parseable ids always answers
   OK; it completes exactly the listed deliveries that were not completed yet (whatever
   subscription they belong to, expired or not), changes nothing else about them and
   nothing about any other row of any table. *)
Theorem ack_exact st now name ids w :
  valid_sub_name name = true ->
  let st' := post st now (Ack name (Some ids) w) in
  answer st now (Ack name (Some ids) w) = RUnit /\
  dels st' = map (fun d => if mem_id (d_id d) ids && is_none (d_completed d)
                           then d_set_completed w d else d) (dels st) /\
  topics st' = topics st /\ subs st' = subs st /\ msgs st' = msgs st /\ snaps st' = snaps st.
Proof.
  intros Hv. cbv zeta. unfold post, answer, step. rewrite Hv. cbn [negb]. unfold do_ack.
  cbn [r_state r_resp done dels topics subs msgs snaps set_dels].
  repeat split; reflexivity.
Qed.

(* acking again -- the same ids, at any later time -- changes nothing *)
Theorem ack_idempotent st now now' name ids w w' :
  valid_sub_name name = true ->
  post (post st now (Ack name (Some ids) w)) now' (Ack name (Some ids) w') =
  post st now (Ack name (Some ids) w).
Proof.
  intros Hv. unfold post, step. rewrite Hv. cbn [negb]. unfold do_ack. cbn [r_state done].
  unfold set_dels. cbn [topics subs msgs dels snaps]. f_equal.
  apply upd_where_id. intros x Hx Hp. exfalso.
  apply in_upd_where in Hx. destruct Hx as [y [_ Ey]].
  destruct (ack_pred ids y) eqn:Py; subst x.
  - unfold ack_pred in Hp. cbn [d_set_completed d_completed is_none is_some negb] in Hp.
    rewrite andb_false_r in Hp. discriminate.
  - congruence.
Qed.

(* unknown, foreign-to-the-table, or already acknowledged ids: no effect at all *)
Theorem ack_stale_noop st now name ids w :
  valid_sub_name name = true ->
  (forall d, In d (dels st) -> mem_id (d_id d) ids = true -> d_completed d <> None) ->
  post st now (Ack name (Some ids) w) = st.
Proof.
  intros Hv Hst. unfold post, step. rewrite Hv. cbn [negb]. unfold do_ack. cbn [r_state done].
  rewrite upd_where_id.
  - destruct st; reflexivity.
  - intros x Hx Hp. exfalso. unfold ack_pred in Hp. apply andb_prop in Hp. destruct Hp as [Hm Hn].
    apply (Hst x Hx Hm). destruct (d_completed x); [discriminate|reflexivity].
Qed.

(* mixing valid and stale ids: the stale ones are ignored, the valid ones acknowledged *)
Theorem ack_mixed st now name ids stale w :
  valid_sub_name name = true ->
  (forall d, In d (dels st) -> mem_id (d_id d) stale = true -> d_completed d <> None) ->
  post st now (Ack name (Some (ids ++ stale)) w) = post st now (Ack name (Some ids) w).
Proof.
  intros Hv Hst. unfold post, step. rewrite Hv. cbn [negb]. unfold do_ack. cbn [r_state done].
  f_equal. unfold upd_where. apply map_ext_in. intros a Ha. unfold ack_pred. rewrite mem_id_app.
  destruct (mem_id (d_id a) stale) eqn:Es.
  - pose proof (Hst a Ha Es) as Hc. destruct (d_completed a); [|contradiction].
    cbn [is_none is_some negb]. rewrite !andb_false_r. reflexivity.
  - rewrite orb_false_r. reflexivity.
Qed.

(* the acknowledging half of a stream ack+nack transaction is the same function *)
Theorem stream_ack_is_ack st now name acks w :
  valid_sub_name name = true ->
  post st now (StreamAckNack acks [] w [] []) = post st now (Ack name (Some acks) w).
Proof.
  intros Hv. unfold post, step. rewrite Hv. cbn [negb]. unfold do_ack, do_nack.
  rewrite filter_false; [|intros x _; reflexivity].
  cbn [nack_each r_state done]. reflexivity.
Qed.

(* ---- no resurrection ---- *)
(* No operation other than a Seek clears completed_at: a late nack, a deadline change, a
   pull, a dead-letter sweep, a publish, any configuration change or any prune job leaves
   the completion of a completed delivery exactly as it was (a prune job may remove the
   row altogether). *)
Theorem completed_stays st now o d d' t :
  ids_unique st -> legal st now o ->
  (match o with SeekTime _ _ _ | SeekSnap _ _ _ => False | _ => True end) ->
  In d (dels st) -> d_completed d = Some t ->
  In d' (dels (post st now o)) -> d_id d' = d_id d ->
  d' = d \/ (d_completed d' = Some t /\ d_attempts d' = d_attempts d /\ d_attempt_at d' = d_attempt_at d /\
             d_expires d' = d_expires d).
Proof.
  intros IU HL Ho Hd Hc Hd' E. destruct IU as (_ & _ & _ & ND & _).
  destruct (step_completed_strong st now o d d' t ND HL Ho Hd Hc Hd' E) as [H|[ch H]].
  - left. exact H.
  - right. subst d'. destruct (d_null_link_fields ch d) as (A & B & C & D).
    rewrite A, B, C, D. auto.
Qed.

(* ... and a Seek only touches deliveries of the subscription it names *)
Theorem seek_other_subs_untouched st now o d :
  (match o with SeekTime _ _ _ | SeekSnap _ _ _ => True | _ => False end) ->
  In d (dels st) -> is_seek_of st o (d_sub d) = false -> In d (dels (post st now o)).
Proof.
  intros Ho Hd Hs. destruct (step_seek_cases st now o Ho) as [E|[s [Hq E]]].
  - rewrite E. exact Hd.
  - rewrite Hq in Hs. rewrite N.eqb_sym in Hs.
    destruct E as [[target [wnow E]]|[n [wnow E]]]; rewrite E.
    + apply seek_time_fwd; assumption.
    + apply seek_snap_fwd; assumption.
Qed.

(* ModifyAckDeadline and nack on a completed delivery: nothing happens to it *)
Theorem modack_completed_noop st now name ids secs w d :
  In d (dels st) -> d_completed d <> None -> In d (dels (post st now (ModAck name ids secs w))).
Proof.
  intros Hd Hc.
  assert (Hp : forall l, ack_pred l d = false).
  { intros l. unfold ack_pred. destruct (d_completed d); [|contradiction]. apply andb_false_r. }
  unfold post, step. destruct (negb (valid_sub_name name)); [exact Hd|].
  destruct ids as [ids|]; [|exact Hd].
  unfold do_delay. destruct (secs * sec <=? 0); cbn [r_state done dels set_dels];
    apply upd_where_keep; try exact Hd; cbv beta; rewrite Hp; reflexivity.
Qed.
Theorem nack_completed_noop st now acks nacks w fz fr d :
  legal st now (StreamAckNack acks nacks w fz fr) ->
  ids_unique st ->
  In d (dels st) -> d_completed d <> None -> In d (dels (post st now (StreamAckNack acks nacks w fz fr))).
Proof.
  intros HL IU Hd Hc. destruct IU as (_ & _ & _ & ND & _).
  destruct (d_completed d) as [t|] eqn:Ec; [clear Hc|contradiction].
  unfold legal in HL. unfold post.
  destruct (step_Stream_cases st now acks nacks w fz fr) as (st2 & fr2 & w2 & n2 & EN & Es).
  rewrite Es in HL |- *. cbn [r_state r_notes done] in HL |- *.
  apply app_eq_nil in HL. destruct HL as [En _].
  assert (Hd1 : In d (upd_where (ack_pred acks) (d_set_completed w) (dels st))).
  { apply upd_where_keep; [exact Hd|]. unfold ack_pred. rewrite Ec. apply andb_false_r. }
  assert (ND1 : NoDup (map d_id (upd_where (ack_pred acks) (d_set_completed w) (dels st)))).
  { rewrite map_key_upd_where; [exact ND|reflexivity]. }
  apply (do_nack_keeps _ _ _ _ _ _ _ _ _ _ d t EN En ND1 Hd1 Ec d eq_refl). exact Hd1.
Qed.

(* ---- pulls never hand out a completed delivery ---- *)
Theorem pull_excludes_completed st now name max returned others w fz fr p :
  ids_unique st ->
  legal st now (Pull name max returned others w fz fr) ->
  In p (pulled_of (answer st now (Pull name max returned others w fz fr))) ->
  exists d, In d (dels st) /\ d_id d = p_ack p /\ d_completed d = None /\ now < d_expires d /\
            d_attempt_at d <= now /\ sub_of_name st name = Some (d_sub d).
Proof.
  intros IU HL Hp. unfold legal in HL. unfold answer in Hp.
  destruct (step_Pull_cases st now name max returned others w fz fr)
    as [[c Es]|(s & st1 & fr1 & ps & w1 & n & Hs & EA & Es)];
    rewrite Es in HL, Hp; cbn [r_resp r_notes fail done pulled_of] in HL, Hp; [destruct Hp|].
  apply app_eq_nil in HL. destruct HL as [En0 _].
  destruct (selection_legal st s now max returned others) eqn:SL; [|discriminate].
  pose proof (apply_results_pulled _ _ _ _ _ _ _ _ _ _ _ _ _ _ _ _ EA p Hp) as Hc.
  apply in_map_iff in Hc. destruct Hc as [x [Ex Hx]].
  apply pull_cands_rows in Hx. destruct Hx as [Hx _].
  destruct (selection_legal_rows _ _ _ _ _ _ SL _ Hx) as [y [Hy [Ey El]]].
  apply eligible_facts in El. destruct El as (A & B & C & D).
  exists y. repeat split; try assumption; try congruence.
  unfold sub_of_name. rewrite Hs. cbn [option_map]. congruence.
Qed.

(* the invariant carried along a history: whatever row carries the id is a completed row
   of the same subscription *)
Definition c03_inv (i sid : id) (st : state) : Prop :=
  forall x, In x (dels st) -> d_id x = i -> d_completed x <> None /\ d_sub x = sid.

Lemma c03_inv_step st now o i sid :
  ids_unique st -> legal st now o -> is_seek_of st o sid = false ->
  ~ In i (op_fresh_dels o) -> c03_inv i sid st -> c03_inv i sid (post st now o).
Proof.
  intros IU HL Hs Hf Inv x Hx Ex.
  assert (Ho : (match o with SeekTime _ _ _ | SeekSnap _ _ _ => True | _ => False end) \/
               (match o with SeekTime _ _ _ | SeekSnap _ _ _ => False | _ => True end))
    by (destruct o; auto).
  destruct Ho as [Ho|Ho].
  - destruct (seek_rows st now o sid x Ho Hs Hx) as [y [Hy [A [B C]]]].
    destruct (Inv y Hy (eq_trans A Ex)) as [I1 I2].
    rewrite (C I2). auto.
  - destruct (step_origin st now o x Hx) as [[y [Hy [A B]]]|F].
    + destruct (Inv y Hy (eq_trans A Ex)) as [I1 I2].
      destruct (d_completed y) as [t|] eqn:Ec; [clear I1|contradiction].
      destruct IU as (_ & _ & _ & ND & _).
      destruct (step_completed_strong st now o y x t ND HL Ho Hy Ec Hx (eq_sym A)) as [->|[ch ->]].
      * rewrite Ec. split; [discriminate|exact I2].
      * destruct (d_null_link_fields ch y) as [Q _]. destruct (d_null_link_keys ch y) as [_ K].
        rewrite Q, K, Ec. split; [discriminate|exact I2].
    + exfalso. apply Hf. rewrite <- Ex. exact F.
Qed.

Lemma c03_final_inv h : forall st i sid,
  ids_unique st -> all_legal st h -> c03_inv i sid st ->
  (forall s now o, In (s, now, o) (trace st h) -> is_seek_of s o sid = false) ->
  (forall s now o, In (s, now, o) (trace st h) -> ~ In i (op_fresh_dels o)) ->
  forall s now o p, In (s, now, o) (trace st h) -> In p (pulled_of (answer s now o)) -> p_ack p <> i.
Proof.
  induction h as [|[now0 o0] r IH]; intros st i sid IU AL Inv Hs Hf s now o p Hin Hp.
  - destruct Hin.
  - cbn [trace] in Hin, Hs, Hf, AL.
    assert (L0 : legal st now0 o0) by (apply AL; left; reflexivity).
    destruct Hin as [Hin|Hin].
    + injection Hin as <- <- <-.
      destruct (pulled_only_pull _ _ _ _ Hp) as (name & max & ret & oth & w & fz & fr & ->).
      destruct (pull_excludes_completed _ _ _ _ _ _ _ _ _ _ IU L0 Hp) as [y (Hy & A & B & _)].
      intros C. destruct (Inv y Hy (eq_trans A C)) as [I1 _]. contradiction.
    + refine (IH (post st now0 o0) i sid _ _ _ _ _ s now o p Hin Hp).
      * apply step_ids_unique; assumption.
      * intros s' n' o' H'. apply AL. right. exact H'.
      * apply c03_inv_step; try assumption.
        -- apply (Hs st now0 o0). left. reflexivity.
        -- apply (Hf st now0 o0). left. reflexivity.
      * intros s' n' o' H'. apply (Hs s' n' o'). right. exact H'.
      * intros s' n' o' H'. apply (Hf s' n' o'). right. exact H'.
Qed.

(* ---- finality over histories ---- *)
(* Once a delivery is completed, no pull anywhere later in any legal history returns it,
   as long as no Seek addresses its subscription in between. *)
Theorem C03_final h : forall st d,
  ids_unique st -> all_legal st h ->
  In d (dels st) -> d_completed d <> None ->
  (forall s now o, In (s, now, o) (trace st h) -> is_seek_of s o (d_sub d) = false) ->
  (forall s now o, In (s, now, o) (trace st h) -> ~ In (d_id d) (op_fresh_dels o)) ->
  forall s now o p, In (s, now, o) (trace st h) -> In p (pulled_of (answer s now o)) -> p_ack p <> d_id d.
Proof.
  intros st d IU AL Hd Hc Hs Hf s now o p Hin Hp.
  refine (c03_final_inv h st (d_id d) (d_sub d) IU AL _ Hs Hf s now o p Hin Hp).
  intros x Hx Ex. destruct IU as (_ & _ & _ & ND & _).
  assert (x = d) by (apply (nodup_key_inj d_id (dels st)); assumption). subst x. auto.
Qed.

(* non-vacuity: a concrete state and acknowledgement meeting the hypotheses *)
Example ack_example :
  let d := mkDel 7%N 3%N 2%N 10 10 1 None 1000 None (Some 5) in
  let st := mkState [] [] [] [d] [] in
  dels (post st 20 (Ack "projects/p/subscriptions/s" (Some [7%N]) 21)) =
  [mkDel 7%N 3%N 2%N 10 10 1 (Some 21) 1000 None (Some 5)].
Proof. vm_compute. reflexivity. Qed.
