(* Bus/L_Tables.v -- generic lemmas about id-keyed tables (State.v's Section Table). *)
From MB Require Import Base.
From MB.Bus Require Import State.
Open Scope list_scope.

(* same definition as T_Inv.sorted_ids (convertible) *)
Fixpoint ssorted (l : list id) : Prop :=
  match l with
  | a :: ((b :: _) as r) => (a < b)%N /\ ssorted r
  | _ => True
  end.

Lemma ssorted_cons a l :
  ssorted (a :: l) <-> (forall x, In x l -> (a < x)%N) /\ ssorted l.
Proof.
  revert a; induction l as [|b l IH]; intro a.
  - cbn. split; [intros _; split; [intros x []|exact I]|intros _; exact I].
  - change (ssorted (a :: b :: l)) with ((a < b)%N /\ ssorted (b :: l)).
    split.
    + intros [Hab Hs]. split; [|exact Hs].
      intros x [<-|Hx]; [exact Hab|].
      apply (IH b) in Hs. destruct Hs as [Hb _].
      eapply N.lt_trans; [exact Hab|apply Hb; exact Hx].
    + intros [Hall Hs]. split; [apply Hall; left; reflexivity|exact Hs].
Qed.

Lemma ssorted_nil : ssorted []. Proof. exact I. Qed.

Lemma mem_id_In i l : mem_id i l = true <-> In i l.
Proof.
  unfold mem_id. rewrite existsb_exists. split.
  - intros [x [Hx He]]. apply N.eqb_eq in He. subst; exact Hx.
  - intros H. exists i. split; [exact H|apply N.eqb_refl].
Qed.

Lemma mem_id_false i l : mem_id i l = false <-> ~ In i l.
Proof.
  rewrite <- mem_id_In. destruct (mem_id i l); split; congruence.
Qed.

Section TableLemmas.
  Context {R : Type} (key : R -> id).

  Lemma in_ins x r l : In x (ins key r l) <-> x = r \/ In x l.
  Proof.
    induction l as [|y l IH]; cbn [ins].
    - cbn. intuition.
    - destruct (key r <? key y)%N.
      + cbn. intuition.
      + cbn [In]. rewrite IH. intuition.
  Qed.

  Lemma in_map_ins i r l : In i (map key (ins key r l)) <-> i = key r \/ In i (map key l).
  Proof.
    rewrite !in_map_iff. split.
    - intros [x [Hk Hx]]. apply in_ins in Hx. destruct Hx as [->|Hx].
      + left; auto.
      + right; exists x; auto.
    - intros [->|[x [Hk Hx]]].
      + exists r. split; [reflexivity|apply in_ins; left; reflexivity].
      + exists x. split; [exact Hk|apply in_ins; right; exact Hx].
  Qed.

  Lemma nodup_ins r l :
    ~ In (key r) (map key l) -> NoDup (map key l) -> NoDup (map key (ins key r l)).
  Proof.
    induction l as [|y l IH]; cbn [ins map]; intros Hn Hd.
    - constructor; [intros []|constructor].
    - destruct (key r <? key y)%N.
      + cbn [map]. constructor; [exact Hn|exact Hd].
      + cbn [map]. inversion Hd as [|a b Hy Hd']; subst.
        constructor.
        * rewrite in_map_ins. intros [He|Hi]; [|exact (Hy Hi)].
          apply Hn. left. exact He.
        * apply IH; [|exact Hd']. intros Hi. apply Hn. right. exact Hi.
  Qed.

  Lemma ssorted_ins r l :
    ~ In (key r) (map key l) -> ssorted (map key l) -> ssorted (map key (ins key r l)).
  Proof.
    induction l as [|y l IH]; cbn [ins map]; intros Hn Hs.
    - exact I.
    - destruct (key r <? key y)%N eqn:E.
      + cbn [map]. apply ssorted_cons. split; [|exact Hs].
        apply N.ltb_lt in E.
        apply ssorted_cons in Hs. destruct Hs as [Hy _].
        intros x [<-|Hx]; [exact E|].
        eapply N.lt_trans; [exact E|apply Hy; exact Hx].
      + cbn [map]. apply N.ltb_ge in E.
        apply ssorted_cons in Hs. destruct Hs as [Hy Hs].
        apply ssorted_cons. split.
        * intros x Hx. apply in_map_ins in Hx. destruct Hx as [->|Hx]; [|apply Hy; exact Hx].
          assert (key r <> key y) by (intros He; apply Hn; left; symmetry; exact He).
          lia.
        * apply IH; [|exact Hs]. intros Hi. apply Hn. right. exact Hi.
  Qed.

  Lemma find_id_some i l r : find_id key i l = Some r -> In r l /\ key r = i.
  Proof.
    induction l as [|y l IH]; cbn [find_id]; [discriminate|].
    destruct (N.eqb (key y) i) eqn:E.
    - intros H; inversion H; subst. apply N.eqb_eq in E. split; [left; reflexivity|exact E].
    - intros H. destruct (IH H) as [Hi Hk]. split; [right; exact Hi|exact Hk].
  Qed.

  Lemma find_id_none i l : find_id key i l = None <-> ~ In i (map key l).
  Proof.
    induction l as [|y l IH]; cbn [find_id map].
    - split; [intros _ []|reflexivity].
    - destruct (N.eqb (key y) i) eqn:E.
      + apply N.eqb_eq in E. split; [discriminate|]. intros H; exfalso; apply H; left; exact E.
      + apply N.eqb_neq in E. rewrite IH. cbn [In]. intuition.
  Qed.

  Lemma has_id_in i l : has_id key i l = true <-> In i (map key l).
  Proof.
    unfold has_id. destruct (find_id key i l) eqn:E.
    - apply find_id_some in E. destruct E as [Hi Hk].
      split; [intros _|reflexivity]. rewrite <- Hk. apply in_map; exact Hi.
    - apply find_id_none in E. split; [discriminate|]. intros H; contradiction.
  Qed.

  Lemma has_id_false i l : has_id key i l = false <-> ~ In i (map key l).
  Proof.
    rewrite <- has_id_in. destruct (has_id key i l); split; congruence.
  Qed.

  Lemma find_id_in_nodup r l :
    NoDup (map key l) -> In r l -> find_id key (key r) l = Some r.
  Proof.
    induction l as [|y l IH]; cbn [find_id map]; intros Hd Hi; [destruct Hi|].
    inversion Hd as [|a b Hy Hd']; subst.
    destruct Hi as [->|Hi].
    - rewrite N.eqb_refl. reflexivity.
    - destruct (N.eqb (key y) (key r)) eqn:E.
      + apply N.eqb_eq in E. exfalso. apply Hy. rewrite E. apply in_map; exact Hi.
      + apply IH; assumption.
  Qed.

  Lemma map_key_map (f : R -> R) l :
    (forall r, In r l -> key (f r) = key r) -> map key (map f l) = map key l.
  Proof.
    intros H. rewrite map_map. apply map_ext_in. exact H.
  Qed.

  Lemma map_key_upd (p : R -> bool) (f : R -> R) l :
    (forall r, In r l -> key (f r) = key r) -> map key (upd_where p f l) = map key l.
  Proof.
    intros H. unfold upd_where. apply map_key_map. intros r Hr.
    destruct (p r); [apply H; exact Hr|reflexivity].
  Qed.

  Lemma in_upd_where (p : R -> bool) (f : R -> R) l x :
    In x (upd_where p f l) -> exists r, In r l /\ (x = r \/ x = f r).
  Proof.
    unfold upd_where. rewrite in_map_iff. intros [r [He Hr]]. exists r. split; [exact Hr|].
    destruct (p r); auto.
  Qed.

  Lemma in_del_ids ids l r : In r (del_ids key ids l) <-> In r l /\ ~ In (key r) ids.
  Proof.
    unfold del_ids. rewrite filter_In.
    split; intros [H1 H2]; split; try exact H1.
    - apply Bool.negb_true_iff in H2. intros Hi.
      assert (existsb (N.eqb (key r)) ids = true) by (apply (mem_id_In (key r) ids); exact Hi).
      congruence.
    - apply Bool.negb_true_iff. apply (mem_id_false (key r) ids). exact H2.
  Qed.

  Lemma in_map_del_ids ids l i :
    In i (map key (del_ids key ids l)) <-> In i (map key l) /\ ~ In i ids.
  Proof.
    rewrite !in_map_iff. split.
    - intros [r [He Hr]]. apply in_del_ids in Hr. destruct Hr as [Hr Hn]. subst i.
      split; [exists r; auto|exact Hn].
    - intros [[r [He Hr]] Hn]. exists r. split; [exact He|]. apply in_del_ids. subst i. auto.
  Qed.

  Lemma nodup_map_filter (p : R -> bool) l : NoDup (map key l) -> NoDup (map key (filter p l)).
  Proof.
    induction l as [|y l IH]; cbn [filter map]; intros Hd; [constructor|].
    inversion Hd as [|a b Hy Hd']; subst.
    destruct (p y); [|apply IH; exact Hd'].
    cbn [map]. constructor; [|apply IH; exact Hd'].
    intros Hi. apply Hy. apply in_map_iff in Hi. destruct Hi as [r [He Hr]].
    apply filter_In in Hr. destruct Hr as [Hr _]. rewrite <- He. apply in_map; exact Hr.
  Qed.

  Lemma ssorted_map_filter (p : R -> bool) l : ssorted (map key l) -> ssorted (map key (filter p l)).
  Proof.
    induction l as [|y l IH]; cbn [filter map]; intros Hs; [exact I|].
    apply ssorted_cons in Hs. destruct Hs as [Hy Hs].
    destruct (p y); [|apply IH; exact Hs].
    cbn [map]. apply ssorted_cons. split; [|apply IH; exact Hs].
    intros x Hi. apply Hy. apply in_map_iff in Hi. destruct Hi as [r [He Hr]].
    apply filter_In in Hr. destruct Hr as [Hr _]. rewrite <- He. apply in_map; exact Hr.
  Qed.

  Lemma nodup_map_del_ids ids l : NoDup (map key l) -> NoDup (map key (del_ids key ids l)).
  Proof. apply nodup_map_filter. Qed.

  Lemma ssorted_map_del_ids ids l : ssorted (map key l) -> ssorted (map key (del_ids key ids l)).
  Proof. apply ssorted_map_filter. Qed.
End TableLemmas.

(* fold_left "best so far" selections return an element of the list *)
Lemma fold_best_in {A} (better : A -> A -> bool) (l : list A) (init : option A) (r : A) :
  fold_left (fun best d => match best with
                           | None => Some d
                           | Some b => if better b d then Some d else best
                           end) l init = Some r ->
  In r l \/ init = Some r.
Proof.
  revert init; induction l as [|x l IH]; cbn [fold_left]; intros init H.
  - right; exact H.
  - apply IH in H. destruct H as [H|H]; [left; right; exact H|].
    destruct init as [b|].
    + destruct (better b x).
      * inversion H; subst. left; left; reflexivity.
      * right; exact H.
    + inversion H; subst. left; left; reflexivity.
Qed.

Lemma forallb_mem_incl (chosen matching : list id) :
  forallb (fun i => mem_id i matching) chosen = true -> forall i, In i chosen -> In i matching.
Proof.
  rewrite forallb_forall. intros H i Hi. apply mem_id_In. apply H. exact Hi.
Qed.
