(* Bus/L03_Lists.v -- generic lemmas on id-keyed tables used by the C03 proofs. *)
From MB Require Import Base.
From MB.Bus Require Import State.
Open Scope list_scope.

Section Tbl.
  Context {R : Type} (key : R -> id).

  Lemma in_ins r x l : In x (ins key r l) <-> x = r \/ In x l.
  Proof.
    induction l as [|a l IH]; cbn [ins].
    - cbn [In]. split; intros [H|H]; auto.
    - destruct (key r <? key a)%N; cbn [In].
      + split; intros [H|H]; auto.
      + rewrite IH. tauto.
  Qed.

  Lemma find_id_some i l r : find_id key i l = Some r -> In r l /\ key r = i.
  Proof.
    induction l as [|a l IH]; cbn [find_id]; [discriminate|].
    destruct (N.eqb_spec (key a) i) as [E|E].
    - intros H; injection H as <-. split; [left; reflexivity|exact E].
    - intros H. apply IH in H. destruct H as [H1 H2]. split; [right; exact H1|exact H2].
  Qed.

  Lemma find_id_none i l : find_id key i l = None -> forall r, In r l -> key r <> i.
  Proof.
    induction l as [|a l IH]; cbn [find_id]; intros H r Hr; [destruct Hr|].
    destruct (N.eqb_spec (key a) i) as [E|E]; [discriminate|].
    destruct Hr as [<-|Hr]; [exact E|]. apply IH; assumption.
  Qed.

  Lemma in_has_id r l : In r l -> has_id key (key r) l = true.
  Proof.
    intros H. unfold has_id. destruct (find_id key (key r) l) eqn:E; [reflexivity|].
    exfalso. exact (find_id_none _ _ E r H eq_refl).
  Qed.

  Lemma nodup_key_inj l a b : NoDup (map key l) -> In a l -> In b l -> key a = key b -> a = b.
  Proof.
    induction l as [|c l IH]; intros ND Ha Hb E; [destruct Ha|].
    cbn [map] in ND. inversion ND as [|? ? Hn ND']; subst.
    destruct Ha as [<-|Ha], Hb as [<-|Hb]; auto.
    - exfalso; apply Hn. rewrite E. apply in_map; exact Hb.
    - exfalso; apply Hn. rewrite <- E. apply in_map; exact Ha.
  Qed.

  Lemma find_id_nodup i l r : NoDup (map key l) -> In r l -> key r = i -> find_id key i l = Some r.
  Proof.
    intros ND Hr E. destruct (find_id key i l) as [r'|] eqn:F.
    - apply find_id_some in F. destruct F as [F1 F2]. f_equal.
      apply (nodup_key_inj l); auto. congruence.
    - exfalso. exact (find_id_none _ _ F r Hr E).
  Qed.

  Lemma in_upd_where (p : R -> bool) f l x :
    In x (upd_where p f l) <-> exists y, In y l /\ x = (if p y then f y else y).
  Proof.
    unfold upd_where. rewrite in_map_iff. split; intros [y [A B]]; exists y; split; auto.
  Qed.

  Lemma upd_where_row (p : R -> bool) f l x :
    In x (upd_where p f l) -> exists y, In y l /\ (x = y \/ (p y = true /\ x = f y)).
  Proof.
    intros H. apply in_upd_where in H. destruct H as [y [Hy E]]. exists y. split; [exact Hy|].
    destruct (p y); [right; split; [reflexivity|exact E]|left; exact E].
  Qed.

  Lemma upd_where_keep (p : R -> bool) f l x : In x l -> p x = false -> In x (upd_where p f l).
  Proof.
    intros H E. apply in_upd_where. exists x. split; [exact H|]. rewrite E. reflexivity.
  Qed.

  Lemma upd_where_id (p : R -> bool) f l :
    (forall x, In x l -> p x = true -> f x = x) -> upd_where p f l = l.
  Proof.
    intros H. unfold upd_where. rewrite <- (map_id l) at 2. apply map_ext_in.
    intros a Ha. destruct (p a) eqn:E; [apply H; assumption|reflexivity].
  Qed.

  Lemma map_key_upd_where (p : R -> bool) f l :
    (forall x, key (f x) = key x) -> map key (upd_where p f l) = map key l.
  Proof.
    intros H. unfold upd_where. rewrite map_map. apply map_ext. intros a. destruct (p a); auto.
  Qed.

  Lemma in_del_ids ids l x : In x (del_ids key ids l) -> In x l.
  Proof. unfold del_ids. intros H. apply filter_In in H. tauto. Qed.
End Tbl.

Lemma mem_id_in i l : mem_id i l = true <-> In i l.
Proof.
  unfold mem_id. rewrite existsb_exists. split.
  - intros [x [Hx E]]. apply N.eqb_eq in E. subst. exact Hx.
  - intros H. exists i. split; [exact H|apply N.eqb_refl].
Qed.

Lemma mem_id_nil i : mem_id i [] = false.
Proof. reflexivity. Qed.

Lemma mem_id_app i a b : mem_id i (a ++ b) = mem_id i a || mem_id i b.
Proof. unfold mem_id. apply existsb_app. Qed.

Lemma in_ins_id x i l : In x (ins_id i l) -> x = i \/ In x l.
Proof.
  induction l as [|a l IH]; cbn [ins_id].
  - intros [H|[]]; auto.
  - destruct (i <? a)%N.
    + intros [H|H]; auto.
    + destruct (N.eqb i a).
      * auto.
      * intros [H|H]; [right; left; exact H|]. apply IH in H. destruct H; [left|right; right]; assumption.
Qed.

Lemma in_sort_ids x l : In x (sort_ids l) -> In x l.
Proof.
  induction l as [|a l IH]; cbn [sort_ids fold_right]; [auto|].
  intros H. apply in_ins_id in H. destruct H as [->|H]; [left; reflexivity|right; apply IH; exact H].
Qed.

Lemma filter_false {A} (p : A -> bool) l : (forall x, In x l -> p x = false) -> filter p l = [].
Proof.
  induction l as [|a l IH]; intros H; [reflexivity|].
  cbn [filter]. rewrite (H a (or_introl eq_refl)). apply IH. intros x Hx. apply H. right; exact Hx.
Qed.

Section FlatOpt.
  Context {A B : Type} (f : A -> option B).
  Definition optl (i : A) : list B := match f i with Some d => [d] | None => [] end.

  Lemma flat_map_opt_in l x : In x (flat_map optl l) <-> exists i, In i l /\ f i = Some x.
  Proof.
    rewrite in_flat_map. unfold optl. split; intros [i [Hi H]]; exists i; split; auto.
    - destruct (f i); [destruct H as [<-|[]]; reflexivity|destruct H].
    - rewrite H. left; reflexivity.
  Qed.

  Lemma flat_map_opt_len l : (length (flat_map optl l) <= length l)%nat.
  Proof.
    induction l as [|a l IH]; cbn [flat_map length]; [lia|].
    rewrite app_length. unfold optl at 1. destruct (f a); cbn [length]; lia.
  Qed.

  Lemma flat_map_opt_full l :
    length (flat_map optl l) = length l -> forall i, In i l -> exists d, f i = Some d.
  Proof.
    induction l as [|a l IH]; intros H i Hi; [destruct Hi|].
    cbn [flat_map length] in H. rewrite app_length in H.
    pose proof (flat_map_opt_len l) as L. unfold optl at 1 in H.
    destruct (f a) as [d|] eqn:E; cbn [length] in H.
    - destruct Hi as [<-|Hi]; [exists d; exact E|]. apply IH; [lia|exact Hi].
    - exfalso. lia.
  Qed.
End FlatOpt.
