(* Bus/Ops.v -- one total function per transaction the code runs. Each definition names
   the Go function it transcribes. "wnow" is the time.Now() value the transaction WROTE
   (observed by the harness from the post-state and checked for legality by Bus/Check.v);
   "now" is the virtual time just before the call and is used for every comparison the
   code makes against time.Now() (the harness guarantees that no stored deadline falls
   between the two, see DESIGN section 5.1). *)
From MB Require Import Base.
From MB.Filter Require Import Utf8 Ast Lex Parse Eval Tables.
From MB.Bus Require Import State.
Local Open Scope string_scope.
Open Scope list_scope.
Open Scope Z_scope.

(* ---------- constants of the code ---------- *)
Definition sec : Z := 1000000000.
Definition default_min_delay : Z := 10 * sec.            (* defaultMinDelay *)
Definition default_max_delay : Z := 600 * sec.           (* defaultMaxDelay *)
Definition default_sub_ttl : Z := 30 * 24 * 3600 * sec.  (* defaultSubscriptionTTL *)
Definition default_msg_ttl : Z := 7 * 24 * 3600 * sec.   (* defaultSubscriptionMessageTTL *)
Definition default_snapshot_ttl : Z := 7 * 24 * 3600 * sec.
Definition default_dl_attempts : Z := 5.                 (* defaultDeadLetterMaxAttempts *)
Definition deleted_topic_name : str := "_deleted-topic_".
Definition pull_max_bytes : Z := 10 * 1024 * 1024.

(* NextDelayFor, nominal part, exact arithmetic (= Backoff.nominal) *)
Definition eff (dflt : Z) (o : option Z) : Z :=
  match o with Some v => if 0 <? v then v else dflt | None => dflt end.
Definition nominal_delay (minb maxb : option Z) (n : Z) : Z :=
  Z.min (eff default_max_delay maxb) ((eff default_min_delay minb * 11 ^ n) / 10 ^ n).

(* ---------- gRPC status codes the handlers produce ---------- *)
Inductive code :=
| OK | InvalidArgument | NotFound | AlreadyExists | Unknown | Unimplemented.

Definition code_eqb (a b : code) : bool :=
  match a, b with
  | OK, OK | InvalidArgument, InvalidArgument | NotFound, NotFound
  | AlreadyExists, AlreadyExists | Unknown, Unknown | Unimplemented, Unimplemented => true
  | _, _ => false
  end.

(* ---------- name validation (services/grpc.go) ---------- *)
Fixpoint split_slash (s : string) (cur : string) : list string :=
  match s with
  | EmptyString => [cur]
  | String c r =>
      if Ascii.eqb c "/"%char then cur :: split_slash r EmptyString
      else split_slash r (cur ++ String c EmptyString)%string
  end.
Definition valid_name (kind : string) (name : str) : bool :=
  match split_slash name EmptyString with
  | [a; b; c; d] =>
      String.eqb a "projects" && negb (String.eqb b "") && String.eqb c kind &&
      negb (String.eqb d "")
  | _ => false
  end.
Definition valid_topic_name := valid_name "topics".
Definition valid_sub_name := valid_name "subscriptions".
Definition valid_snap_name := valid_name "snapshots".

(* ---------- queries shared by several actions ---------- *)
Definition topic_live (t : topic) : bool := is_none (t_deleted t).
Definition sub_live (s : sub) : bool := is_none (s_deleted s).

Definition find_live_topic (st : state) (name : str) : option topic :=
  find (fun t => topic_live t && String.eqb (t_name t) name) (topics st).
Definition find_live_sub (st : state) (name : str) : option sub :=
  find (fun s => sub_live s && String.eqb (s_name s) name) (subs st).
Definition find_snap (st : state) (name : str) : option snap :=
  find (fun n => String.eqb (n_name n) name) (snaps st).

Definition get_sub (st : state) (i : id) : option sub := find_id s_id i (subs st).
Definition get_msg (st : state) (i : id) : option msg := find_id m_id i (msgs st).
Definition get_del (st : state) (i : id) : option del := find_id d_id i (dels st).
Definition get_topic (st : state) (i : id) : option topic := find_id t_id i (topics st).

(* ent.Subscription.HasFullDeadLetterConfig *)
Definition full_dl (s : sub) : bool :=
  match s_max_attempts s, s_dl_topic s with
  | Some n, Some _ => 0 <? n
  | _, _ => false
  end.
Definition max_attempts_of (s : sub) : Z := match s_max_attempts s with Some n => n | None => 0 end.

(* deliverToSubscription's filter gate: a stored filter that fails to parse or to
   evaluate drops the message *)
Definition filter_accepts (f : option str) (attrs : smap) : bool :=
  match f with
  | None => true
  | Some fs =>
      if String.eqb fs "" then true
      else match parse_string tbl_letter tbl_digit fs with
           | Some c => match eval c attrs with Some true => true | _ => false end
           | None => false
           end
  end.

(* the oracle for the ids of created delivery rows: (message, subscription, new id),
   consumed in creation order *)
Definition fresh_dels := list (id * id * id).
Fixpoint take_fresh (m s : id) (fr : fresh_dels) : option id * fresh_dels :=
  match fr with
  | [] => (None, [])
  | (m', s', i) :: r =>
      if N.eqb m m' && N.eqb s s' then (Some i, r)
      else let '(o, r') := take_fresh m s r in (o, (m', s', i) :: r')
  end.

(* complaints about oracles / environment that make a step uncheckable or illegal *)
Definition notes := list string.

(* deliverToSubscription: the predecessor for an ordered, keyed message: the most recent
   non-expired delivery of this subscription whose message is on the same topic and, after
   the fix of F1, has the same ordering key *)
Definition last_delivery (st : state) (s : sub) (m : msg) (now : time) : option del :=
  let cands := filter (fun d =>
      N.eqb (d_sub d) (s_id s) && (now <? d_expires d) &&
      match get_msg st (d_msg d) with
      | Some dm => N.eqb (m_topic dm) (m_topic m) && os_eqb (m_key dm) (m_key m)
      | None => false
      end) (dels st) in
  (* ORDER BY published_at DESC LIMIT 1 *)
  fold_left (fun best d =>
      match best with
      | None => Some d
      | Some b => if d_published b <? d_published d then Some d else best
      end) cands None.

(* deliverToSubscription + the row CreateBulk inserts *)
Definition deliver_to_sub (st : state) (s : sub) (m : msg) (now : time) (fr : fresh_dels)
  : state * fresh_dels * list id (* woken *) * notes :=
  if negb (filter_accepts (s_filter s) (m_attrs m)) then (st, fr, [], [])
  else
    let nb :=
      if s_ordered s && match m_key m with Some k => negb (String.eqb k "") | None => false end
      then option_map d_id (last_delivery st s m now) else None in
    let '(oi, fr') := take_fresh (m_id m) (s_id s) fr in
    match oi with
    | None => (st, fr', [s_id s], ["missing-delivery"%string])
    | Some i =>
        let d := mkDel i (m_id m) (s_id s) now (now + s_delay s) 0 None (now + s_msg_ttl s) nb None in
        (mkState (topics st) (subs st) (msgs st) (ins d_id d (dels st)) (snaps st),
         fr', [s_id s], if has_id d_id i (dels st) then ["delivery-id-not-fresh"%string] else [])
    end.

Fixpoint deliver_to_subs (st : state) (ss : list sub) (m : msg) (now : time) (fr : fresh_dels)
  : state * fresh_dels * list id * notes :=
  match ss with
  | [] => (st, fr, [], [])
  | s :: r =>
      let '(st1, fr1, w1, n1) := deliver_to_sub st s m now fr in
      let '(st2, fr2, w2, n2) := deliver_to_subs st1 r m now fr1 in
      (st2, fr2, w1 ++ w2, n1 ++ n2)
  end.

(* NOTE on deliver_to_subs: the code collects all DeliveryCreate builders first and
   saves them with one CreateBulk, so the predecessor query of a later subscription
   cannot see a row created for an earlier one; predecessor candidates are restricted to
   the same subscription, so threading the state is equivalent. *)

Definition live_subs_of (st : state) (tid : id) : list sub :=
  filter (fun s => sub_live s && N.eqb (s_topic s) tid) (subs st).

Definition set_dels (st : state) (ds : list del) : state :=
  mkState (topics st) (subs st) (msgs st) ds (snaps st).
Definition set_subs (st : state) (ss : list sub) : state :=
  mkState (topics st) ss (msgs st) (dels st) (snaps st).
Definition set_topics (st : state) (ts : list topic) : state :=
  mkState ts (subs st) (msgs st) (dels st) (snaps st).
Definition set_snaps (st : state) (ns : list snap) : state :=
  mkState (topics st) (subs st) (msgs st) (dels st) ns.
Definition set_msgs (st : state) (ms : list msg) : state :=
  mkState (topics st) (subs st) ms (dels st) (snaps st).

Definition d_set_completed (t : time) (d : del) : del :=
  mkDel (d_id d) (d_msg d) (d_sub d) (d_published d) (d_attempt_at d) (d_attempts d)
        (Some t) (d_expires d) (d_not_before d) (d_last d).
Definition d_set_attempt_at (t : time) (d : del) : del :=
  mkDel (d_id d) (d_msg d) (d_sub d) (d_published d) t (d_attempts d)
        (d_completed d) (d_expires d) (d_not_before d) (d_last d).
Definition d_lease (now at_ : time) (d : del) : del :=
  mkDel (d_id d) (d_msg d) (d_sub d) (d_published d) at_ (d_attempts d + 1)
        (d_completed d) (d_expires d) (d_not_before d) (Some now).
Definition d_revive (now expires : time) (d : del) : del :=
  mkDel (d_id d) (d_msg d) (d_sub d) (d_published d) now (d_attempts d)
        None expires (d_not_before d) (d_last d).
Definition d_null_link (ids : list id) (d : del) : del :=
  match d_not_before d with
  | Some p => if mem_id p ids
              then mkDel (d_id d) (d_msg d) (d_sub d) (d_published d) (d_attempt_at d)
                         (d_attempts d) (d_completed d) (d_expires d) None (d_last d)
              else d
  | None => d
  end.
Definition s_set_expires (t : time) (s : sub) : sub :=
  mkSub (s_id s) (s_name s) (s_topic s) (s_deleted s) t (s_ttl s) (s_msg_ttl s) (s_ordered s)
        (s_filter s) (s_minb s) (s_maxb s) (s_max_attempts s) (s_dl_topic s) (s_delay s)
        (s_push s) (s_labels s).
Definition s_set_deleted (t : time) (s : sub) : sub :=
  mkSub (s_id s) (s_name s) (s_topic s) (Some t) (s_expires s) (s_ttl s) (s_msg_ttl s)
        (s_ordered s) (s_filter s) (s_minb s) (s_maxb s) (s_max_attempts s) (s_dl_topic s)
        (s_delay s) (s_push s) (s_labels s).

(* deadLetterDelivery (actions/delivery-utils.go) *)
Definition dead_letter (st : state) (d : del) (dlt : id) (now : time) (fr : fresh_dels)
  : state * fresh_dels * list id * notes :=
  let '(st1, fr1, w1, n1) :=
    match get_topic st dlt with
    | Some t =>
        if topic_live t then
          match live_subs_of st dlt, get_msg st (d_msg d) with
          | [], _ => (st, fr, [], [])
          | ss, Some m => deliver_to_subs st ss m now fr
          | _, None => (st, fr, [], ["dead-letter-message-missing"%string])
          end
        else (st, fr, [], [])
    | None => (st, fr, [], [])
    end in
  (set_dels st1 (upd_where (fun x => N.eqb (d_id x) (d_id d)) (d_set_completed now) (dels st1)),
   fr1, w1 ++ [d_sub d], n1).

(* ---------- Publisher.Publish (services/grpc-publisher.go + publish-message.go) ---------- *)
Record pubmsg := mkPubmsg {
  pm_payload : str; pm_valid : bool; pm_attrs : smap; pm_key : str;
  pm_size : Z; pm_id : id; pm_now : time }.   (* last three: observed oracles *)

Definition publish_one (st : state) (t : topic) (p : pubmsg) (fr : fresh_dels)
  : state * fresh_dels * list id * notes :=
  let m := mkMsg (pm_id p) (t_id t) (pm_now p) (pm_attrs p)
                 (if String.eqb (pm_key p) "" then None else Some (pm_key p))
                 (pm_payload p) (pm_size p) in
  let n0 := if has_id m_id (pm_id p) (msgs st) then ["message-id-not-fresh"%string] else [] in
  let st1 := set_msgs st (ins m_id m (msgs st)) in
  let '(st2, fr2, w, n) := deliver_to_subs st1 (live_subs_of st1 (t_id t)) m (pm_now p) fr in
  (st2, fr2, w, n0 ++ n).

Fixpoint publish_all (st : state) (t : topic) (ps : list pubmsg) (fr : fresh_dels)
  : option (state * fresh_dels * list id * notes) :=
  match ps with
  | [] => Some (st, fr, [], [])
  | p :: r =>
      if negb (pm_valid p) then None      (* json.Marshal of the RawMessage fails: whole tx rolls back *)
      else
        let '(st1, fr1, w1, n1) := publish_one st t p fr in
        match publish_all st1 t r fr1 with
        | Some (st2, fr2, w2, n2) => Some (st2, fr2, w1 ++ w2, n1 ++ n2)
        | None => None
        end
  end.

(* ---------- AckDeliveries.Execute ---------- *)
Definition ack_pred (ids : list id) (d : del) : bool := mem_id (d_id d) ids && is_none (d_completed d).
Definition distinct_subs (ds : list del) : list id := sort_ids (map d_sub ds).

Definition do_ack (st : state) (ids : list id) (wnow : time) : state * list id :=
  (set_dels st (upd_where (ack_pred ids) (d_set_completed wnow) (dels st)),
   distinct_subs (filter (ack_pred ids) (dels st))).

(* ---------- DelayDeliveries.Execute ---------- *)
Definition do_delay (st : state) (ids : list id) (delay : Z) (wnow : time) : state * list id :=
  let at_ := wnow + delay in
  if delay <=? 0 then
    (set_dels st (upd_where (ack_pred ids) (d_set_attempt_at at_) (dels st)),
     distinct_subs (filter (ack_pred ids) (dels st)))
  else
    (set_dels st (upd_where (fun d => ack_pred ids d && (d_attempt_at d <? at_))
                            (d_set_attempt_at at_) (dels st)), []).

(* ---------- NackDeliveries.Execute ---------- *)
(* fuzz oracle: observed jitter per delivery id *)
Definition fuzzes := list (id * Z).
Fixpoint fuzz_of (i : id) (fz : fuzzes) : Z :=
  match fz with [] => 0 | (j, v) :: r => if N.eqb i j then v else fuzz_of i r end.
(* The code computes the nominal delay in float64 (math.Pow); the harness subtracts the
   model's exact nominal delay from the observed deadline, so the float rounding error
   shows up in the observed fuzz. [float_tol] nanoseconds of it are tolerated (assumption:
   Go's float evaluation of min * 1.1^n stays within that distance of the exact value for
   the delays in use, at most 10 minutes). *)
Definition float_tol : Z := 2.
Definition fuzz_legal (nominal fuzz : Z) : bool :=
  (- float_tol <=? fuzz) && (fuzz <? sec + float_tol) &&
  ((sec / 2 <? nominal + float_tol) || (Z.abs fuzz <=? float_tol)).

Fixpoint nack_each (st : state) (ds : list del) (now wnow : time) (fz : fuzzes) (fr : fresh_dels)
  : state * fresh_dels * list id * notes :=
  match ds with
  | [] => (st, fr, [], [])
  | d :: r =>
      match get_sub st (d_sub d) with
      | None => (st, fr, [], ["nack-subscription-missing"%string])
      | Some s =>
          let '(st1, fr1, w1, n1) :=
            if full_dl s && (max_attempts_of s <=? d_attempts d) then
              match s_dl_topic s with
              | Some dlt => dead_letter st d dlt wnow fr
              | None => (st, fr, [], [])
              end
            else
              let nom := nominal_delay (s_minb s) (s_maxb s) (d_attempts d) in
              let f := fuzz_of (d_id d) fz in
              (set_dels st (upd_where (fun x => N.eqb (d_id x) (d_id d))
                                      (d_set_attempt_at (wnow + nom + f)) (dels st)),
               fr, [], if fuzz_legal nom f then [] else ["illegal-fuzz"%string]) in
          let '(st2, fr2, w2, n2) := nack_each st1 r now wnow fz fr1 in
          (st2, fr2, w1 ++ w2, n1 ++ n2)
      end
  end.

Definition do_nack (st : state) (ids : list id) (now wnow : time) (fz : fuzzes) (fr : fresh_dels)
  : state * fresh_dels * list id * notes :=
  let ds := filter (fun d => mem_id (d_id d) ids && is_none (d_completed d) && (now <? d_expires d))
                   (dels st) in    (* [dels] is id-sorted = the code's sort by UUID *)
  nack_each st ds now wnow fz fr.

(* ---------- GetSubscriptionMessages ---------- *)
(* buildDeliveryQuery + AttemptAtLTE(now) *)
Definition pred_blocks (st : state) (now : time) (d : del) : bool :=
  match d_not_before d with
  | None => false
  | Some p =>
      match get_del st p with
      | None => false                       (* LEFT JOIN found nothing: dnb columns NULL, and the
                                               link itself is nulled by ON DELETE SET NULL *)
      | Some pd => is_none (d_completed pd) && (now <? d_expires pd)
      end
  end.

Definition eligible (st : state) (s : sub) (now : time) (d : del) : bool :=
  N.eqb (d_sub d) (s_id s) && is_none (d_completed d) && (now <? d_expires d) &&
  (d_attempt_at d <=? now) && negb (s_ordered s && pred_blocks st now d).

(* outstanding, whether or not currently leased or blocked *)
Definition outstanding (st : state) (now : time) (d : del) : bool :=
  is_none (d_completed d) && (now <? d_expires d) &&
  match get_sub st (d_sub d) with Some s => sub_live s | None => false end.

(* legality of the observed candidate order [obs] (DB tie-breaking is unspecified):
   distinct eligible rows, as many as LIMIT allows, in non-decreasing attempt_at order,
   and no unselected eligible row strictly earlier than a selected one *)
Fixpoint sorted_by_attempt (l : list del) : bool :=
  match l with
  | a :: ((b :: _) as r) => (d_attempt_at a <=? d_attempt_at b) && sorted_by_attempt r
  | _ => true
  end.

Definition selection_legal (st : state) (s : sub) (now : time) (max : Z)
           (returned others : list id) : bool :=
  let el := filter (eligible st s now) (dels st) in
  let obs := returned ++ others in
  let rows := flat_map (fun i => match find_id d_id i el with Some d => [d] | None => [] end) obs in
  let ret_rows := flat_map (fun i => match find_id d_id i el with Some d => [d] | None => [] end) returned in
  nodup_ids obs && Nat.eqb (length rows) (length obs) &&
  (Z.of_nat (length obs) =? Z.min max (Z.of_nat (length el))) &&
  sorted_by_attempt ret_rows &&
  forallb (fun e => mem_id (d_id e) obs ||
                    forallb (fun r => d_attempt_at r <=? d_attempt_at e) rows) el.

(* applyResults over the candidate list, in order *)
Record pulled := mkPulled {
  p_ack : id; p_msg : id; p_attempt : Z; p_payload : str; p_attrs : smap; p_key : str;
  p_published : time }.

Fixpoint apply_results (st : state) (s : sub) (cands : list del) (first : bool) (strict : bool)
         (bytes maxb : Z) (now wnow : time) (fz : fuzzes) (fr : fresh_dels)
  : state * fresh_dels * list pulled * list id * notes :=
  match cands with
  | [] => (st, fr, [], [], [])
  | d :: r =>
      match get_msg st (d_msg d) with
      | None => (st, fr, [], [], ["pull-message-missing"%string])
      | Some m =>
          if (strict || negb first) && (maxb <? bytes + m_size m) then
            apply_results st s r false strict bytes maxb now wnow fz fr
          else if full_dl s && (max_attempts_of s <=? d_attempts d) then
            let '(st1, fr1, w1, n1) :=
              match s_dl_topic s with
              | Some dlt => dead_letter st d dlt wnow fr
              | None => (st, fr, [], [])
              end in
            let '(st2, fr2, ps, w2, n2) :=
              apply_results st1 s r false strict bytes maxb now wnow fz fr1 in
            (st2, fr2, ps, w1 ++ w2, n1 ++ n2)
          else
            let nom := nominal_delay (s_minb s) (s_maxb s) (d_attempts d + 1) in
            let f := fuzz_of (d_id d) fz in
            let st1 := set_dels st (upd_where (fun x => N.eqb (d_id x) (d_id d))
                                              (d_lease wnow (wnow + nom + f)) (dels st)) in
            let p := mkPulled (d_id d) (m_id m) (d_attempts d + 1) (m_payload m) (m_attrs m)
                              (match m_key m with Some k => k | None => EmptyString end)
                              (m_published m) in
            let '(st2, fr2, ps, w2, n2) :=
              apply_results st1 s r false strict (bytes + m_size m) maxb now wnow fz fr in
            (st2, fr2, p :: ps, w2,
             (if fuzz_legal nom f then [] else ["illegal-fuzz"%string]) ++ n2)
      end
  end.

(* ---------- Seek ---------- *)
Definition seek_time (st : state) (s : sub) (target : time) (now wnow : time) : state * list id :=
  let p1 := fun d => N.eqb (d_sub d) (s_id s) && (now <=? d_expires d) &&
                     (d_published d <=? target) && is_none (d_completed d) in
  let ds1 := upd_where p1 (d_set_completed wnow) (dels st) in
  let p2 := fun d => N.eqb (d_sub d) (s_id s) && (now <=? d_expires d) &&
                     (target <? d_published d) && is_some (d_completed d) in
  (* the second UPDATE runs on the result of the first: a row completed by the first has
     published_at <= target and cannot match the second *)
  let ds2 := upd_where p2 (d_revive wnow (wnow + s_msg_ttl s)) ds1 in
  (set_dels st ds2,
   if existsb p1 (dels st) || existsb p2 ds1 then [s_id s] else []).

Definition seek_snap (st : state) (s : sub) (n : snap) (now wnow : time) : state * list id :=
  let p1 := fun d => N.eqb (d_sub d) (s_id s) && (now <=? d_expires d) &&
                     (d_published d <? n_before n) && is_none (d_completed d) in
  let ds1 := upd_where p1 (d_set_completed wnow) (dels st) in
  let p2 := fun d => N.eqb (d_sub d) (s_id s) && (now <=? d_expires d) &&
                     mem_id (d_msg d) (n_acked n) && is_none (d_completed d) in
  let ds2 := match n_acked n with [] => ds1 | _ => upd_where p2 (d_set_completed wnow) ds1 end in
  (* third UPDATE: no expiry guard in the code *)
  let p3 := fun d => N.eqb (d_sub d) (s_id s) && (n_before n <=? d_published d) &&
                     negb (mem_id (d_msg d) (n_acked n)) && is_some (d_completed d) in
  let ds3 := upd_where p3 (d_revive wnow (wnow + s_msg_ttl s)) ds2 in
  (set_dels st ds3,
   if existsb p1 (dels st) || (match n_acked n with [] => false | _ => existsb p2 ds1 end)
      || existsb p3 ds2 then [s_id s] else []).

(* ---------- CreateSnapshot.Execute ---------- *)
Definition oldest_unacked (st : state) (s : sub) (now : time) : option del :=
  fold_left (fun best d =>
      match best with
      | None => Some d
      | Some b => if d_published d <? d_published b then Some d else best
      end)
    (filter (fun d => N.eqb (d_sub d) (s_id s) && is_none (d_completed d) && (now <? d_expires d))
            (dels st)) None.

Definition snapshot_acked (st : state) (s : sub) (before : time) : list id :=
  sort_ids (map m_id (filter (fun m =>
      N.eqb (m_topic m) (s_topic s) && (before <=? m_published m) &&
      existsb (fun d => N.eqb (d_msg d) (m_id m) && N.eqb (d_sub d) (s_id s) && is_some (d_completed d))
              (dels st)) (msgs st))).

(* ---------- subscription requests ---------- *)
Inductive wrapper_kind := WNone | WPubsub | WOther.
Record pushreq := mkPushreq {
  pr_endpoint : str; pr_attrs : smap; pr_auth : bool; pr_wrapper : wrapper_kind }.
Record subreq := mkSubreq {
  q_name : str; q_topic : str;
  q_ttl : Z;                         (* expiration_policy.ttl as Duration, 0 when absent *)
  q_msg_ttl : Z;                     (* message_retention_duration, 0 when absent *)
  q_ordered : bool; q_labels : smap; q_filter : str; q_detached : bool;
  q_retry : option (option Z * option Z);   (* retry_policy: (minimum_backoff, maximum_backoff) *)
  q_dl : option (str * Z);           (* dead_letter_policy: (topic, max_delivery_attempts) *)
  q_push : option pushreq }.

Definition oz_get (o : option Z) : Z := match o with Some v => v | None => 0 end.

(* what Get/Create/Update/List render (entSubscriptionToGrpc) *)
Record subview := mkSubview {
  v_name : str; v_topic : str; v_ack_deadline : Z; v_msg_ttl : Z; v_labels : smap;
  v_ordered : bool; v_ttl : Z; v_push : option str; v_filter : str;
  v_dl : option (str * Z); v_retry : option (option Z * option Z) }.

Definition subview_eqb (a b : subview) : bool :=
  String.eqb (v_name a) (v_name b) && String.eqb (v_topic a) (v_topic b) &&
  Z.eqb (v_ack_deadline a) (v_ack_deadline b) && Z.eqb (v_msg_ttl a) (v_msg_ttl b) &&
  smap_eqb (v_labels a) (v_labels b) && Bool.eqb (v_ordered a) (v_ordered b) &&
  Z.eqb (v_ttl a) (v_ttl b) && os_eqb (v_push a) (v_push b) && String.eqb (v_filter a) (v_filter b) &&
  opt_eqb (pair_eqb String.eqb Z.eqb) (v_dl a) (v_dl b) &&
  opt_eqb (pair_eqb oz_eqb oz_eqb) (v_retry a) (v_retry b).

(* topic / dead-letter names as rendered: an edge that is loaded wins over the
   caller-supplied name; [edges] = the query used WithTopic / WithDeadLetterTopic *)
Definition render_topic_name (st : state) (tid : id) : str :=
  match get_topic st tid with
  | Some t => if topic_live t then t_name t else deleted_topic_name
  | None => EmptyString
  end.

Definition view_sub (st : state) (s : sub) (edges : bool) (topic_name dl_name : str) : subview :=
  mkSubview (s_name s)
    (if edges then render_topic_name st (s_topic s) else topic_name)
    (nominal_delay (s_minb s) (s_maxb s) 0 / sec)
    (s_msg_ttl s) (s_labels s) (s_ordered s) (s_ttl s) (s_push s)
    (match s_filter s with Some f => f | None => EmptyString end)
    (match s_dl_topic s with
     | Some dlt => Some (if edges then render_topic_name st dlt else dl_name,
                         oz_get (s_max_attempts s))
     | None => None
     end)
    (match s_minb s, s_maxb s with
     | None, None => None
     | a, b => Some (a, b)
     end).

(* ---------- responses ---------- *)
Inductive page_token := TokNone | TokBad | TokId (i : id).

Inductive resp :=
| RErr (c : code)
| RUnit
| RIds (l : list id)                                   (* Publish *)
| RPull (l : list pulled)
| RSub (v : subview)
| RSubEmpty                                            (* UpdateSubscription that changed nothing *)
| RTopic (name : str) (labels : smap)
| RTopicEmpty
| RNames (l : list str) (next : option id)             (* ListTopicSubscriptions *)
| RTopics (l : list (str * smap)) (next : option id)
| RSubs (l : list subview) (next : option id)
| RSnap (name topic : str) (expires : time) (labels : smap)
| RSnaps (l : list (str * str * time * smap)) (next : option id)
| RCount (n : Z).                                      (* background jobs: rows affected *)

(* ---------- background job kinds ---------- *)
Inductive job :=
| JPruneCompletedDeliveries | JPruneExpiredDeliveries | JPruneCompletedMessages
| JPruneDeletedSubDeliveries | JPruneDeletedSubs | JPruneDeletedTopics
| JExpireSubs | JDeadLetterSweep.

(* ---------- operations ---------- *)
Inductive op :=
| CreateTopic (name : str) (labels : smap) (advanced : bool) (fresh : id)
| GetTopic (name : str)
| UpdateTopic (name : str) (paths : list str) (labels : smap)
| DeleteTopic (name : str) (wnow : time)
| ListTopics (project : str) (size : Z) (tok : page_token)
| ListTopicSubs (topic : str) (size : Z) (tok : page_token)
| Publish (topic : str) (ms : list pubmsg) (fr : fresh_dels)
| CreateSub (q : subreq) (fresh : id) (wnow : time)
| GetSub (name : str)
| UpdateSub (q : subreq) (paths : list str) (wnow : time)
| ListSubs (project : str) (size : Z) (tok : page_token)
| DeleteSub (name : str) (wnow : time)
| ModAck (name : str) (ids : option (list id)) (seconds : Z) (wnow : time)   (* None: an id failed to parse *)
| Ack (name : str) (ids : option (list id)) (wnow : time)
| Pull (name : str) (max : Z) (returned others : list id) (wnow : time) (fz : fuzzes) (fr : fresh_dels)
| SeekTime (name : str) (target : time) (wnow : time)
| SeekSnap (name : str) (snapname : str) (wnow : time)
| SeekNoTarget (name : str)
| ModifyPush (name : str) (p : option pushreq)
| CreateSnap (name : str) (subname : str) (labels : smap) (fresh : id) (wnow : time)
| GetSnap (name : str)
| ListSnaps (project : str) (size : Z) (tok : page_token)
| DeleteSnap (name : str)
(* action level: stream ack+nack in one transaction (MessageStreamer.doAcksNacks) *)
| StreamAckNack (acks nacks : list id) (wnow : time) (fz : fuzzes) (fr : fresh_dels)
(* controllers/delay-injector *)
| SetDelay (name : str) (delay : Z)
(* background jobs with the observed choice of rows *)
| Job (j : job) (min_age : Z) (max : Z) (chosen : list id) (failed : bool) (wnow : time)
      (fr : fresh_dels).   (* failed: the job's transaction returned an error *)
