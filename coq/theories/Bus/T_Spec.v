(* Bus/T_Spec.v -- the Bus model refines the obvious abstract specification of a message
   bus, stated on the set of OUTSTANDING deliveries (what a subscriber can still receive):

     - nothing appears from nowhere: a delivery outstanding after a step was outstanding
       before it, or is a new row (whose provenance [new_delivery_provenance] gives: a
       Publish to the subscription's topic or a dead-letter forward, accepted by the filter),
       or belongs to the subscription a seek was applied to          [outstanding_provenance];
     - nothing disappears without a rightful cause      [T_C01.only_rightful_settlement];

   and the two lifted over histories: the outstanding set after any legal history is
   bounded above by "initial + created + seeked" [outstanding_after_history] and below by
   "initial - caused" [T_C01.C01_never_lost].  Together: the set of outstanding deliveries
   evolves exactly as the abstract bus prescribes. *)
From MB Require Import Base.
From MB.Bus Require Import State Ops Step Defs T_Inv T_C01 T_C03 T_C14.
From MB.Bus Require L04_Lists L14_Dels L20_Keys L20_Live.
Local Open Scope string_scope.
Open Scope list_scope.
Open Scope Z_scope.

Lemma has_id_ex {R} (key : R -> id) i l : has_id key i l = true -> exists r, In r l /\ key r = i.
Proof.
  unfold has_id. induction l as [|x l IH]; cbn [find_id]; [discriminate|].
  destruct (N.eqb (key x) i) eqn:E.
  - intros _. exists x. split; [left; reflexivity|apply N.eqb_eq; exact E].
  - intros H. destruct (IH H) as [r [Hr Er]]. exists r. split; [right; exact Hr|exact Er].
Qed.

(* a row keeps its subscription and its message as long as it exists *)
Lemma keys_kept st now o d d' :
  ids_unique st -> legal st now o -> In d (dels st) -> In d' (dels (post st now o)) ->
  d_id d' = d_id d -> d_sub d' = d_sub d /\ d_msg d' = d_msg d.
Proof.
  intros U L Hd Hd' E.
  pose proof (step_ids_unique st now o U L) as U'.
  apply (L14_Dels.rel_desc_use _ _ _ (L20_Keys.key_desc_all st now o U)); auto; [apply U|apply U'].
Qed.

Definition is_seek (o : op) : bool :=
  match o with SeekTime _ _ _ | SeekSnap _ _ _ => true | _ => false end.

Lemma is_seek_of_is_seek st o sid : is_seek_of st o sid = true -> is_seek o = true.
Proof. destruct o; cbn; try discriminate; reflexivity. Qed.

(* ---- one step: nothing becomes outstanding from nowhere ---- *)
Theorem outstanding_provenance st now o t d' :
  ids_unique st -> refs_ok st -> legal st now o ->
  In d' (dels (post st now o)) -> outstanding (post st now o) t d' = true ->
  (exists d, In d (dels st) /\ d_id d = d_id d' /\ outstanding st t d = true) \/
  has_id d_id (d_id d') (dels st) = false \/
  (exists d, In d (dels st) /\ d_id d = d_id d' /\ is_seek_of st o (d_sub d) = true).
Proof.
  intros U R L Hd' Ho.
  destruct (has_id d_id (d_id d') (dels st)) eqn:Hh; [|right; left; reflexivity].
  destruct (has_id_ex _ _ _ Hh) as [d [Hd E]].
  destruct (is_seek_of st o (d_sub d)) eqn:Sk; [right; right; exists d; auto|].
  left. exists d. split; [exact Hd|]. split; [exact E|].
  pose proof (step_ids_unique st now o U L) as U'.
  destruct (outstanding_facts _ _ _ Ho) as [Hc' [He' [s' [Hs' Hl']]]].
  destruct (keys_kept st now o d d' U L Hd Hd' (eq_sym E)) as [Ks Km].
  (* not completed before *)
  assert (Hc : d_completed d = None).
  { destruct (d_completed d) as [tc|] eqn:C; [exfalso|reflexivity].
    destruct (is_seek o) eqn:Iq.
    - assert (Hin : In d (dels (post st now o))).
      { apply seek_other_subs_untouched; [destruct o; try discriminate Iq; exact I|exact Hd|exact Sk]. }
      assert (d' = d).
      { apply (L04_Lists.nodup_key_inj d_id (dels (post st now o))); [apply U'|exact Hd'|exact Hin|congruence]. }
      subst d'. congruence.
    - destruct (completed_stays st now o d d' tc U L) as [->|[C' _]]; try assumption; try congruence.
      destruct o; try exact I; discriminate Iq. }
  (* not expired before *)
  assert (He : t < d_expires d).
  { destruct (expires_only_by_seek st now o d d' U L Hd Hd' (eq_sym E)) as [Ee|[Sk' _]].
    - rewrite <- Ee. exact He'.
    - congruence. }
  (* its subscription was live before *)
  rewrite Ks in Hs'.
  destruct (L20_Live.live_after_live_before st now o (d_sub d) s' U L Hs' Hl') as [[s [Hs Hl]]|Hn].
  - unfold outstanding. rewrite Hc, Hs, Hl. cbn [is_none is_some negb andb].
    apply Z.ltb_lt in He. rewrite He. reflexivity.
  - (* referential integrity: the row's subscription exists *)
    exfalso. destruct R as (_ & _ & _ & _ & R5 & _).
    specialize (R5 d Hd). unfold has_id in R5. unfold get_sub in Hn. rewrite Hn in R5. discriminate.
Qed.

Lemma in_has_id {R} (key : R -> id) r l : In r l -> has_id key (key r) l = true.
Proof.
  unfold has_id. induction l as [|x l IH]; cbn [find_id In]; [intros []|].
  intros [->|H]; [rewrite N.eqb_refl; reflexivity|].
  destruct (N.eqb (key x) (key r)); [reflexivity|apply IH; exact H].
Qed.

(* ---- over histories: the upper bound on the outstanding set ----
   whatever is outstanding (at time t) after a legal history was outstanding (at t) in the
   initial state, or its row was created by a step of the history, or a step of the history
   was a seek on its subscription *)
Theorem outstanding_after_history h : forall st t d',
  ids_unique st -> refs_ok st -> all_legal st h ->
  In d' (dels (run st h)) -> outstanding (run st h) t d' = true ->
  (exists d, In d (dels st) /\ d_id d = d_id d' /\ outstanding st t d = true) \/
  (exists s now o, In (s, now, o) (trace st h) /\
     has_id d_id (d_id d') (dels s) = false /\ has_id d_id (d_id d') (dels (post s now o)) = true) \/
  (exists s now o d, In (s, now, o) (trace st h) /\ In d (dels s) /\ d_id d = d_id d' /\
     is_seek_of s o (d_sub d) = true).
Proof.
  induction h as [|[now o] r IH]; intros st t d' U R AL Hd' Ho; cbn [run] in *.
  - left. exists d'. auto.
  - assert (L : legal st now o) by (apply AL; left; reflexivity).
    assert (AL' : all_legal (post st now o) r) by (intros s n o' Hi; apply AL; right; exact Hi).
    destruct (IH (post st now o) t d' (step_ids_unique st now o U L) (step_refs_ok st now o U R L) AL' Hd' Ho)
      as [[d1 [Hd1 [E1 O1]]]|[[s [n [o' [Hi [A B]]]]]|[s [n [o' [d [Hi [Hd [E S]]]]]]]]].
    + destruct (outstanding_provenance st now o t d1 U R L Hd1 O1) as [[d [Hd [E O]]]|[Hn|[d [Hd [E S]]]]].
      * left. exists d. split; [exact Hd|]. split; [congruence|exact O].
      * right. left. exists st, now, o. split; [left; reflexivity|].
        rewrite <- E1. split; [exact Hn|]. apply in_has_id. exact Hd1.
      * right. right. exists st, now, o, d. split; [left; reflexivity|]. split; [exact Hd|].
        split; [congruence|exact S].
    + right. left. exists s, n, o'. split; [right; exact Hi|]. split; assumption.
    + right. right. exists s, n, o', d. split; [right; exact Hi|]. auto.
Qed.

Print Assumptions outstanding_provenance.
Print Assumptions outstanding_after_history.
