(* Bus/L06_Legal.v -- what legality of the observed choices (Pull's selection, the sweep's
   LIMIT) says about the chosen rows. *)
From MB Require Import Base.
From MB.Bus Require Import State Ops Step Defs L06_Lists L06_Rel.
Local Open Scope string_scope.
Open Scope list_scope.
Open Scope Z_scope.

Lemma find_live_sub_get st name s :
  ids_unique st -> find_live_sub st name = Some s -> get_sub st (s_id s) = Some s.
Proof.
  intros (_&Hu&_) H. unfold find_live_sub in H. apply find_some in H. destruct H as [Hin _].
  unfold get_sub. apply find_id_in_nodup; assumption.
Qed.

Lemma is_none_true {A} (o : option A) : is_none o = true -> o = None.
Proof. destruct o; [discriminate|reflexivity]. Qed.

(* ---- Pull ---- *)
Lemma pull_legal st now name max returned others w fz fr s :
  legal st now (Pull name max returned others w fz fr) ->
  valid_sub_name name = true -> (max <? 1) = false -> find_live_sub st name = Some s ->
  selection_legal st s now max returned others = true.
Proof.
  unfold legal. cbn [step]. intros H V M FS. rewrite V, M, FS in H. cbn [negb] in H.
  cbv zeta in H.
  match type of H with context [apply_results ?a ?b ?c ?d ?e ?f ?g ?h ?i ?j ?k] =>
    destruct (apply_results a b c d e f g h i j k) as [[[[st1 fr1] ps] wk] n] end.
  cbn [r_notes done] in H. apply app_eq_nil in H. destruct H as [H _].
  destruct (selection_legal st s now max returned others); [reflexivity|discriminate].
Qed.

Lemma selection_eligible st s now max returned others d :
  ids_unique st -> selection_legal st s now max returned others = true ->
  In d (dels st) -> In (d_id d) (returned ++ others) -> eligible st s now d = true.
Proof.
  intros (_&_&_&Hu&_) H Hd Hin. unfold selection_legal in H. cbv zeta in H.
  repeat (apply andb_true_iff in H; destruct H as [H ?]).
  match goal with H : Nat.eqb _ _ = true |- _ => apply Nat.eqb_eq in H; rename H into Hlen end.
  pose proof (flat_map_opt_length_all
                (fun i => find_id d_id i (filter (eligible st s now) (dels st)))
                (returned ++ others) Hlen (d_id d) Hin) as Hf.
  cbv beta in Hf.
  destruct (find_id d_id (d_id d) (filter (eligible st s now) (dels st))) as [e|] eqn:E;
    [|congruence].
  apply find_id_some in E. destruct E as [He Hid]. apply filter_In in He. destruct He as [He Hel].
  assert (e = d) by (apply (nodup_key_inj d_id (dels st)); auto). subst e. exact Hel.
Qed.

(* ---- the dead-letter sweep ---- *)
Lemma sweep_legal st now mn mx chosen w fr :
  legal st now (Job JDeadLetterSweep mn mx chosen false w fr) ->
  choice_legal (job_matches st JDeadLetterSweep now mn) chosen mx = true /\
  snd (sweep_each st chosen w fr) = [].
Proof.
  unfold legal. cbn [step]. unfold run_job. cbv beta iota zeta.
  destruct (sweep_each st chosen w fr) as [[[st1 fr1] w1] n1].
  cbn [r_notes done snd]. intros H. apply app_eq_nil in H. destruct H as [H1 H2].
  apply app_eq_nil in H2. destruct H2 as [H2 _]. split; [|exact H2].
  destruct (choice_legal (job_matches st JDeadLetterSweep now mn) chosen mx);
    [reflexivity|discriminate].
Qed.

Lemma sweep_post st now mn mx chosen w fr :
  post st now (Job JDeadLetterSweep mn mx chosen false w fr) =
  fst (fst (fst (sweep_each st chosen w fr))).
Proof.
  unfold post. cbn [step]. unfold run_job. cbv beta iota zeta.
  destruct (sweep_each st chosen w fr) as [[[st1 fr1] w1] n1]. reflexivity.
Qed.

Lemma sweep_due st now mn mx chosen d :
  ids_unique st ->
  choice_legal (job_matches st JDeadLetterSweep now mn) chosen mx = true ->
  In d (dels st) -> In (d_id d) chosen ->
  (exists s, get_sub st (d_sub d) = Some s /\ due_sub s d = true) /\
  d_completed d = None /\ now < d_expires d /\ d_attempt_at d <= now.
Proof.
  intros (_&_&_&Hu&_) H Hd Hin. unfold choice_legal in H.
  repeat (apply andb_true_iff in H; destruct H as [H ?]).
  match goal with H : forallb _ chosen = true |- _ => rename H into Hall end.
  rewrite forallb_forall in Hall. apply Hall in Hin. apply mem_id_In in Hin.
  unfold job_matches in Hin. apply in_map_iff in Hin. destruct Hin as [x [Hx Hf]].
  apply filter_In in Hf. destruct Hf as [Hxin Hp].
  assert (x = d) by (apply (nodup_key_inj d_id (dels st)); auto). subst x.
  destruct (get_sub st (d_sub d)) as [s|]; [|discriminate].
  repeat (apply andb_true_iff in Hp; destruct Hp as [Hp ?]).
  split; [exists s; split; [reflexivity|]|split; [|split]].
  - unfold due_sub. apply andb_true_iff. split; assumption.
  - apply is_none_true; assumption.
  - apply Z.ltb_lt; assumption.
  - apply Z.leb_le; assumption.
Qed.
