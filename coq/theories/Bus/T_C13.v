(* Bus/T_C13.v -- C13: seek restores exactly the requested backlog. *)
From MB Require Import Base.
From MB.Bus Require Import State Ops Step Defs L13_Lists.
Local Open Scope string_scope.
Open Scope list_scope.
Open Scope Z_scope.

(* ---- seek to a time: exact post-state ---- *)
(* what SeekSubscriptionToTime does to one delivery row *)
Definition seek_time_row (sid : id) (msg_ttl : Z) (target now w : time) (d : del) : del :=
  if N.eqb (d_sub d) sid && (now <=? d_expires d) then
    if d_published d <=? target then
      (if is_none (d_completed d) then d_set_completed w d else d)
    else
      (if is_some (d_completed d) then d_revive w (w + msg_ttl) d else d)
  else d.

(* ---- helper lemmas: the updates of a seek collapse into one map ---- *)
Lemma seek_time_row_ok sid ttl target now w d :
  (fun r => if N.eqb (d_sub r) sid && (now <=? d_expires r) && (target <? d_published r) &&
               is_some (d_completed r) then d_revive w (w + ttl) r else r)
    ((fun r => if N.eqb (d_sub r) sid && (now <=? d_expires r) && (d_published r <=? target) &&
                  is_none (d_completed r) then d_set_completed w r else r) d)
  = seek_time_row sid ttl target now w d.
Proof.
  destruct d as [i m sb pub att atts comp ex nb la].
  unfold seek_time_row, d_set_completed, d_revive, is_none, is_some.
  cbn [d_id d_msg d_sub d_published d_attempt_at d_attempts d_completed d_expires d_not_before d_last].
  destruct (N.eqb sb sid) eqn:E0; destruct (now <=? ex) eqn:E1; destruct (pub <=? target) eqn:E2;
    destruct comp as [c|];
    cbn [andb negb d_id d_msg d_sub d_published d_attempt_at d_attempts d_completed d_expires d_not_before d_last];
    rewrite ?(Z.ltb_antisym pub target), ?E0, ?E1, ?E2; cbn [andb negb]; reflexivity.
Qed.

Lemma seek_time_dels st s target now w :
  fst (seek_time st s target now w) =
  set_dels st (map (seek_time_row (s_id s) (s_msg_ttl s) target now w) (dels st)).
Proof.
  unfold seek_time. cbn [fst]. f_equal. unfold upd_where. rewrite map_map.
  apply map_ext. intros d. apply seek_time_row_ok.
Qed.

Lemma step_seek_time st now name target w s :
  valid_sub_name name = true -> find_live_sub st name = Some s ->
  step st now (SeekTime name target w) =
  done (set_dels st (map (seek_time_row (s_id s) (s_msg_ttl s) target now w) (dels st)))
       RUnit (snd (seek_time st s target now w)) [].
Proof.
  intros Hv Hf. unfold step. rewrite Hv, Hf. cbn [negb].
  rewrite <- seek_time_dels. destruct (seek_time st s target now w). reflexivity.
Qed.

Theorem seek_time_exact st now name target w s :
  valid_sub_name name = true -> find_live_sub st name = Some s ->
  let st' := post st now (SeekTime name target w) in
  answer st now (SeekTime name target w) = RUnit /\
  dels st' = map (seek_time_row (s_id s) (s_msg_ttl s) target now w) (dels st) /\
  topics st' = topics st /\ subs st' = subs st /\ msgs st' = msgs st /\ snaps st' = snaps st.
Proof.
  intros Hv Hf st'. subst st'. unfold post, answer.
  rewrite (step_seek_time _ _ _ _ _ _ Hv Hf).
  unfold done, set_dels. cbn [r_state r_resp dels topics subs msgs snaps].
  repeat split; reflexivity.
Qed.

(* hence: afterwards, among the retained deliveries of the subscription, exactly those
   published after the target are unacknowledged; the revived ones are immediately
   deliverable with fresh retention; the others keep their lease *)
Lemma seek_time_row_backlog sid ttl target now w d :
  d_sub (seek_time_row sid ttl target now w d) = sid ->
  now <= d_expires (seek_time_row sid ttl target now w d) ->
  (d_completed (seek_time_row sid ttl target now w d) = None <->
   target < d_published (seek_time_row sid ttl target now w d)).
Proof.
  destruct d as [i m sb pub att atts comp ex nb la].
  unfold seek_time_row, d_set_completed, d_revive, is_none, is_some.
  cbn [d_id d_msg d_sub d_published d_attempt_at d_attempts d_completed d_expires d_not_before d_last].
  destruct (N.eqb_spec sb sid); destruct (Z.leb_spec now ex); destruct (Z.leb_spec pub target);
    destruct comp as [c|]; cbn [andb negb d_id d_msg d_sub d_published d_attempt_at d_attempts d_completed d_expires d_not_before d_last];
    intros H1 H2; split; intros H3; try discriminate; try reflexivity; try lia; try congruence.
Qed.

Theorem seek_time_backlog st now name target w s d' :
  valid_sub_name name = true -> find_live_sub st name = Some s ->
  In d' (dels (post st now (SeekTime name target w))) -> d_sub d' = s_id s -> now <= d_expires d' -> now <= w ->
  0 <= s_msg_ttl s ->
  (d_completed d' = None <-> target < d_published d').
Proof.
  intros Hv Hf Hin Hsub Hexp Hw Httl. unfold post in Hin.
  rewrite (step_seek_time _ _ _ _ _ _ Hv Hf) in Hin.
  unfold done, set_dels in Hin. cbn [r_state dels] in Hin.
  apply in_map_iff in Hin. destruct Hin as [d [Hd Hin]]. subst d'.
  apply seek_time_row_backlog; assumption.
Qed.

Theorem seek_time_revived st now name target w s d :
  valid_sub_name name = true -> find_live_sub st name = Some s ->
  In d (dels st) -> d_sub d = s_id s -> now <= d_expires d -> target < d_published d -> d_completed d <> None ->
  In (d_revive w (w + s_msg_ttl s) d) (dels (post st now (SeekTime name target w))).
Proof.
  intros Hv Hf Hin Hsub Hexp Hpub Hc. unfold post.
  rewrite (step_seek_time _ _ _ _ _ _ Hv Hf).
  unfold done, set_dels. cbn [r_state dels].
  apply in_map_iff. exists d. split; [|exact Hin].
  unfold seek_time_row. rewrite Hsub, N.eqb_refl.
  destruct (Z.leb_spec now (d_expires d)); [|lia].
  destruct (Z.leb_spec (d_published d) target); [lia|].
  cbn [andb]. destruct (d_completed d); [reflexivity | congruence].
Qed.

(* seeking again to the same time changes nothing *)
Lemma seek_time_row_idem sid ttl target now now' w w' d :
  now <= now' ->
  seek_time_row sid ttl target now' w' (seek_time_row sid ttl target now w d) =
  seek_time_row sid ttl target now w d.
Proof.
  intros Hnow. destruct d as [i m sb pub att atts comp ex nb la].
  unfold seek_time_row, d_set_completed, d_revive, is_none, is_some.
  cbn [d_id d_msg d_sub d_published d_attempt_at d_attempts d_completed d_expires d_not_before d_last].
  destruct (N.eqb_spec sb sid); destruct (Z.leb_spec now ex); destruct (Z.leb_spec pub target);
    destruct comp as [c|]; cbn [andb negb d_id d_msg d_sub d_published d_attempt_at d_attempts d_completed d_expires d_not_before d_last];
    repeat match goal with
           | |- context [N.eqb ?a ?b] => destruct (N.eqb_spec a b)
           | |- context [Z.leb ?a ?b] => destruct (Z.leb_spec a b)
           end; cbn [andb negb d_id d_msg d_sub d_published d_attempt_at d_attempts d_completed d_expires d_not_before d_last]; try reflexivity; try lia; try congruence.
Qed.

Theorem seek_time_idempotent st now now' name target w w' :
  valid_sub_name name = true -> now <= now' -> now <= w ->
  (forall s, find_live_sub st name = Some s -> 0 <= s_msg_ttl s) ->
  post (post st now (SeekTime name target w)) now' (SeekTime name target w') =
  post st now (SeekTime name target w).
Proof.
  intros Hv Hnow Hw Httl. destruct (find_live_sub st name) as [s|] eqn:Hf.
  - unfold post. rewrite (step_seek_time _ _ _ _ _ _ Hv Hf).
    unfold done. cbn [r_state].
    set (st1 := set_dels st _).
    assert (Hf1 : find_live_sub st1 name = Some s) by exact Hf.
    rewrite (step_seek_time _ _ _ _ _ _ Hv Hf1). unfold done. cbn [r_state].
    unfold st1, set_dels. cbn [dels topics subs msgs snaps]. f_equal.
    rewrite map_map. apply map_ext. intros d. apply seek_time_row_idem. exact Hnow.
  - assert (H : forall t ww, post st t (SeekTime name target ww) = st).
    { intros t ww. unfold post, step. rewrite Hv, Hf. reflexivity. }
    rewrite (H now w). apply H.
Qed.

(* ---- snapshots ---- *)
(* the subscription holds only plain deliveries: one per message, published when the
   message was (no dead-letter forwards into it) *)
Definition plain (st : state) (sid : id) : Prop :=
  (forall d m, In d (dels st) -> d_sub d = sid -> get_msg st (d_msg d) = Some m ->
               d_published d = m_published m /\ m_topic m = match get_sub st sid with Some s => s_topic s | None => 0%N end) /\
  (forall d1 d2, In d1 (dels st) -> In d2 (dels st) -> d_sub d1 = sid -> d_sub d2 = sid ->
                 d_msg d1 = d_msg d2 -> d1 = d2) /\
  (forall d, In d (dels st) -> d_sub d = sid -> has_id m_id (d_msg d) (msgs st) = true).

(* A snapshot (before, acked) records the acknowledgement state: a retained delivery of
   the subscription was unacknowledged when the snapshot was taken iff it is published at
   or after the watermark and its message is not in the acked set. *)
Lemma oldest_unacked_spec st s now :
  match oldest_unacked st s now with
  | None => forall x, In x (dels st) -> d_sub x = s_id s -> d_completed x = None ->
                      now < d_expires x -> False
  | Some b => forall x, In x (dels st) -> d_sub x = s_id s -> d_completed x = None ->
                        now < d_expires x -> d_published b <= d_published x
  end.
Proof.
  unfold oldest_unacked.
  set (f := fun d : del => N.eqb (d_sub d) (s_id s) && is_none (d_completed d) && (now <? d_expires d)).
  assert (Hfil : forall x, In x (dels st) -> d_sub x = s_id s -> d_completed x = None ->
                           now < d_expires x -> In x (filter f (dels st))).
  { intros x Hx Hsub Hc He. apply filter_In. split; [exact Hx|].
    unfold f. rewrite Hsub, N.eqb_refl, Hc. cbn [is_none is_some negb andb].
    apply Z.ltb_lt. exact He. }
  generalize (fold_min d_published (filter f (dels st)) None). unfold min_step.
  destruct (fold_left _ (filter f (dels st)) None) as [b|].
  - intros [H1 _] x Hx Hsub Hc He. apply H1. apply Hfil; assumption.
  - intros [_ H2] x Hx Hsub Hc He. pose proof (Hfil x Hx Hsub Hc He) as Hin.
    rewrite H2 in Hin. destruct Hin.
Qed.

Lemma mem_snapshot_acked st s before i :
  mem_id i (snapshot_acked st s before) = true <->
  exists m, In m (msgs st) /\ m_id m = i /\ m_topic m = s_topic s /\ before <= m_published m /\
    exists d, In d (dels st) /\ d_msg d = m_id m /\ d_sub d = s_id s /\ d_completed d <> None.
Proof.
  unfold snapshot_acked. rewrite mem_id_sort_ids, mem_id_In, in_map_iff. split.
  - intros [m [Hid Hm]]. apply filter_In in Hm. destruct Hm as [Hm Hp].
    apply andb_true_iff in Hp. destruct Hp as [Hp Hex].
    apply andb_true_iff in Hp. destruct Hp as [Ht Hb].
    apply N.eqb_eq in Ht. apply Z.leb_le in Hb.
    apply existsb_exists in Hex. destruct Hex as [d [Hd Hq]].
    apply andb_true_iff in Hq. destruct Hq as [Hq Hc].
    apply andb_true_iff in Hq. destruct Hq as [Hdm Hds].
    apply N.eqb_eq in Hdm. apply N.eqb_eq in Hds.
    exists m. repeat split; try assumption.
    exists d. repeat split; try assumption.
    intros Hnone. rewrite Hnone in Hc. discriminate Hc.
  - intros [m [Hm [Hid [Ht [Hb [d [Hd [Hdm [Hds Hc]]]]]]]]].
    exists m. split; [exact Hid|]. apply filter_In. split; [exact Hm|].
    apply andb_true_iff. split.
    + apply andb_true_iff. split; [apply N.eqb_eq; exact Ht | apply Z.leb_le; exact Hb].
    + apply existsb_exists. exists d. split; [exact Hd|].
      rewrite Hdm, Hds, !N.eqb_refl. cbn [andb].
      destruct (d_completed d); [reflexivity | congruence].
Qed.

Lemma snapshot_iff st s w :
  ids_unique st -> In s (subs st) -> plain st (s_id s) ->
  (forall d, In d (dels st) -> d_published d < w) ->
  forall d, In d (dels st) -> d_sub d = s_id s -> w < d_expires d ->
    (d_completed d = None <->
     (fst (match oldest_unacked st s w with
           | Some d0 => (d_published d0, snapshot_acked st s (d_published d0))
           | None => (w, [])
           end) <= d_published d /\
      mem_id (d_msg d)
        (snd (match oldest_unacked st s w with
              | Some d0 => (d_published d0, snapshot_acked st s (d_published d0))
              | None => (w, [])
              end)) = false)).
Proof.
  intros Hu Hins [Hp1 [Hp2 Hp3]] Hpub d Hd Hsub Hexp.
  pose proof (oldest_unacked_spec st s w) as Hmin.
  destruct (oldest_unacked st s w) as [d0|]; cbn [fst snd].
  - split.
    + intros Hc. split; [apply Hmin; assumption|].
      destruct (mem_id (d_msg d) (snapshot_acked st s (d_published d0))) eqn:E; [|reflexivity].
      apply mem_snapshot_acked in E.
      destruct E as [m [Hm [Hid [_ [_ [d' [Hd' [Hdm [Hds Hdc]]]]]]]]].
      assert (d' = d) by (apply Hp2; try assumption; congruence).
      subst d'. congruence.
    + intros [Hle Hmem]. destruct (d_completed d) as [c|] eqn:Hc; [exfalso | reflexivity].
      destruct (has_id_true m_id _ _ (Hp3 d Hd Hsub)) as [m Hgm].
      destruct (find_id_Some m_id _ _ _ Hgm) as [Hm Hid].
      destruct (Hp1 d m Hd Hsub Hgm) as [Hpm Htop].
      destruct Hu as [_ [Hus _]].
      unfold get_sub in Htop. rewrite (find_id_unique s_id _ _ Hus Hins) in Htop.
      assert (E : mem_id (d_msg d) (snapshot_acked st s (d_published d0)) = true).
      { apply mem_snapshot_acked. exists m. repeat split; try assumption; try lia.
        exists d. repeat split; try assumption; try congruence. }
      rewrite E in Hmem. discriminate Hmem.
  - split.
    + intros Hc. exfalso. apply (Hmin d); assumption.
    + intros [Hle _]. specialize (Hpub d Hd). lia.
Qed.

Theorem snapshot_meaning st now name subname labels fresh w s a b c e :
  ids_unique st -> legal st now (CreateSnap name subname labels fresh w) ->
  find_live_sub st subname = Some s -> plain st (s_id s) ->
  (forall d, In d (dels st) -> d_published d < w) ->
  answer st now (CreateSnap name subname labels fresh w) = RSnap a b c e ->
  exists n, find_snap (post st now (CreateSnap name subname labels fresh w)) name = Some n /\ n_id n = fresh /\
    n_topic n = s_topic s /\ n_expires n = w + default_snapshot_ttl /\
    forall d, In d (dels st) -> d_sub d = s_id s -> w < d_expires d ->
      (d_completed d = None <-> (n_before n <= d_published d /\ mem_id (d_msg d) (n_acked n) = false)).
Proof.
  intros Hu Hl Hf Hplain Hpub Hans.
  unfold answer, step in Hans.
  destruct (valid_snap_name name) eqn:Hv1; [|discriminate Hans].
  destruct (valid_sub_name subname) eqn:Hv2; [|discriminate Hans].
  cbn [negb] in Hans.
  destruct (is_some (find_snap st name)) eqn:Hs; [discriminate Hans|].
  clear Hans.
  assert (Hins : In s (subs st)).
  { unfold find_live_sub in Hf. apply find_some in Hf. exact (proj1 Hf). }
  pose proof (snapshot_iff st s w Hu Hins Hplain Hpub) as Hiff.
  unfold post, step. rewrite Hv1, Hv2, Hs, Hf. cbn [negb]. revert Hiff.
  assert (Hfind : forall n0, n_name n0 = name ->
            find_snap (set_snaps st (ins n_id n0 (snaps st))) name = Some n0).
  { intros n0 Hn0. unfold find_snap, set_snaps. cbn [snaps]. apply find_ins_new.
    - rewrite Hn0. apply String.eqb_refl.
    - unfold find_snap in Hs. destruct (find _ (snaps st)); [discriminate Hs | reflexivity]. }
  destruct (oldest_unacked st s w) as [d0|]; cbn [fst snd]; intros Hiff;
    unfold done; cbn [r_state]; eexists; (split; [apply Hfind; reflexivity|]);
    cbn [n_id n_topic n_expires n_before n_acked];
    (split; [reflexivity|]); (split; [reflexivity|]); (split; [reflexivity|]); exact Hiff.
Qed.

(* creating a snapshot changes nothing else *)
Theorem create_snap_frame st now name subname labels fresh w :
  let st' := post st now (CreateSnap name subname labels fresh w) in
  topics st' = topics st /\ subs st' = subs st /\ msgs st' = msgs st /\ dels st' = dels st /\
  (forall n, In n (snaps st) -> In n (snaps st')).
Proof.
  intros st'. subst st'. unfold post, step.
  destruct (valid_snap_name name); cbn [negb];
    [|cbn [fail r_state]; repeat split; auto].
  destruct (valid_sub_name subname); cbn [negb];
    [|cbn [fail r_state]; repeat split; auto].
  destruct (is_some (find_snap st name));
    [cbn [fail r_state]; repeat split; auto|].
  destruct (find_live_sub st subname) as [s|];
    [|cbn [fail r_state]; repeat split; auto].
  destruct (oldest_unacked st s w); unfold done, set_snaps;
    cbn [r_state topics subs msgs dels snaps]; repeat split; try reflexivity;
    intros n0 Hn0; apply In_ins_old; exact Hn0.
Qed.

(* ---- seek to a snapshot: exact post-state ---- *)
Definition seek_snap_row (sid : id) (msg_ttl : Z) (n : snap) (now w : time) (d : del) : del :=
  if N.eqb (d_sub d) sid then
    if is_none (d_completed d) then
      (if (now <=? d_expires d) && ((d_published d <? n_before n) || mem_id (d_msg d) (n_acked n))
       then d_set_completed w d else d)
    else
      (* no expiry guard on revival (the code has none) *)
      (if (n_before n <=? d_published d) && negb (mem_id (d_msg d) (n_acked n))
       then d_revive w (w + msg_ttl) d else d)
  else d.

Lemma seek_snap_row_ok sid ttl n now w d :
  (fun r => if N.eqb (d_sub r) sid && (n_before n <=? d_published r) &&
               negb (mem_id (d_msg r) (n_acked n)) && is_some (d_completed r)
            then d_revive w (w + ttl) r else r)
   ((fun r => if N.eqb (d_sub r) sid && (now <=? d_expires r) &&
                 mem_id (d_msg r) (n_acked n) && is_none (d_completed r)
              then d_set_completed w r else r)
     ((fun r => if N.eqb (d_sub r) sid && (now <=? d_expires r) &&
                   (d_published r <? n_before n) && is_none (d_completed r)
                then d_set_completed w r else r) d))
  = seek_snap_row sid ttl n now w d.
Proof.
  destruct d as [i m sb pub att atts comp ex nb la].
  unfold seek_snap_row, d_set_completed, d_revive, is_none, is_some.
  cbn [d_id d_msg d_sub d_published d_attempt_at d_attempts d_completed d_expires d_not_before d_last].
  destruct (N.eqb sb sid) eqn:E0; destruct (now <=? ex) eqn:E1;
    destruct (pub <? n_before n) eqn:E2; destruct (mem_id m (n_acked n)) eqn:E3;
    destruct comp as [c|];
    repeat progress (cbn [andb negb orb d_id d_msg d_sub d_published d_attempt_at d_attempts d_completed d_expires d_not_before d_last];
                     rewrite ?(Z.leb_antisym pub (n_before n)), ?E0, ?E1, ?E2, ?E3);
    reflexivity.
Qed.

Lemma seek_snap_ds2 sid now w acked (l : list del) :
  match acked with
  | [] => l
  | _ => upd_where (fun d => N.eqb (d_sub d) sid && (now <=? d_expires d) &&
                             mem_id (d_msg d) acked && is_none (d_completed d))
                   (d_set_completed w) l
  end =
  upd_where (fun d => N.eqb (d_sub d) sid && (now <=? d_expires d) &&
                      mem_id (d_msg d) acked && is_none (d_completed d))
            (d_set_completed w) l.
Proof.
  destruct acked; [|reflexivity]. unfold upd_where.
  rewrite <- (map_id l) at 1. apply map_ext. intros d.
  unfold mem_id. cbn [existsb]. rewrite andb_false_r. reflexivity.
Qed.

Lemma seek_snap_dels st s n now w :
  fst (seek_snap st s n now w) =
  set_dels st (map (seek_snap_row (s_id s) (s_msg_ttl s) n now w) (dels st)).
Proof.
  unfold seek_snap. cbn [fst]. rewrite seek_snap_ds2. f_equal.
  unfold upd_where. rewrite !map_map.
  apply map_ext. intros d. apply seek_snap_row_ok.
Qed.

Lemma step_seek_snap st now name snapname w s n :
  valid_sub_name name = true -> valid_snap_name snapname = true ->
  find_live_sub st name = Some s -> find_snap st snapname = Some n ->
  step st now (SeekSnap name snapname w) =
  done (set_dels st (map (seek_snap_row (s_id s) (s_msg_ttl s) n now w) (dels st)))
       RUnit (snd (seek_snap st s n now w)) [].
Proof.
  intros Hv Hv2 Hf Hn. unfold step. rewrite Hv, Hv2, Hf, Hn. cbn [negb].
  rewrite <- seek_snap_dels. destruct (seek_snap st s n now w). reflexivity.
Qed.

Theorem seek_snap_exact st now name snapname w s n :
  valid_sub_name name = true -> valid_snap_name snapname = true ->
  find_live_sub st name = Some s -> find_snap st snapname = Some n ->
  let st' := post st now (SeekSnap name snapname w) in
  answer st now (SeekSnap name snapname w) = RUnit /\
  dels st' = map (seek_snap_row (s_id s) (s_msg_ttl s) n now w) (dels st) /\
  topics st' = topics st /\ subs st' = subs st /\ msgs st' = msgs st /\ snaps st' = snaps st.
Proof.
  intros Hv Hv2 Hf Hn st'. subst st'. unfold post, answer.
  rewrite (step_seek_snap _ _ _ _ _ _ _ Hv Hv2 Hf Hn).
  unfold done, set_dels. cbn [r_state r_resp dels topics subs msgs snaps].
  repeat split; reflexivity.
Qed.

(* hence: afterwards a retained delivery of the subscription is unacknowledged iff it is
   at or after the watermark and not in the snapshot's acked set -- i.e. (by
   snapshot_meaning) iff it was unacknowledged at snapshot time or was published since *)
Lemma seek_snap_row_backlog sid ttl n now w d :
  d_sub (seek_snap_row sid ttl n now w d) = sid ->
  now <= d_expires (seek_snap_row sid ttl n now w d) ->
  (d_completed (seek_snap_row sid ttl n now w d) = None <->
   (n_before n <= d_published (seek_snap_row sid ttl n now w d) /\
    mem_id (d_msg (seek_snap_row sid ttl n now w d)) (n_acked n) = false)).
Proof.
  destruct d as [i m sb pub att atts comp ex nb la].
  unfold seek_snap_row, d_set_completed, d_revive, is_none, is_some.
  cbn [d_id d_msg d_sub d_published d_attempt_at d_attempts d_completed d_expires d_not_before d_last].
  destruct (N.eqb_spec sb sid); destruct (Z.leb_spec now ex);
    destruct (Z.ltb_spec pub (n_before n)); destruct (Z.leb_spec (n_before n) pub);
    destruct (mem_id m (n_acked n)) eqn:E3;
    destruct comp as [c|]; cbn [andb negb orb d_id d_msg d_sub d_published d_attempt_at d_attempts d_completed d_expires d_not_before d_last];
    intros Ha Hb; rewrite ?E3; split; intros Hc; try discriminate; try reflexivity;
    try lia; try congruence; try (destruct Hc; discriminate || lia); try (split; [lia | reflexivity]).
Qed.

Theorem seek_snap_backlog st now name snapname w s n d' :
  valid_sub_name name = true -> valid_snap_name snapname = true ->
  find_live_sub st name = Some s -> find_snap st snapname = Some n ->
  In d' (dels (post st now (SeekSnap name snapname w))) -> d_sub d' = s_id s -> now <= d_expires d' ->
  now <= w -> 0 <= s_msg_ttl s ->
  (d_completed d' = None <-> (n_before n <= d_published d' /\ mem_id (d_msg d') (n_acked n) = false)).
Proof.
  intros Hv Hv2 Hf Hn Hin Hsub Hexp Hw Httl. unfold post in Hin.
  rewrite (step_seek_snap _ _ _ _ _ _ _ Hv Hv2 Hf Hn) in Hin.
  unfold done, set_dels in Hin. cbn [r_state dels] in Hin.
  apply in_map_iff in Hin. destruct Hin as [d [Hd Hin]]. subst d'.
  apply seek_snap_row_backlog; assumption.
Qed.

(* messages acknowledged before the snapshot stay acknowledged *)
Theorem seek_snap_keeps_acked st now name snapname w s n d :
  valid_sub_name name = true -> valid_snap_name snapname = true ->
  find_live_sub st name = Some s -> find_snap st snapname = Some n ->
  In d (dels st) -> d_completed d <> None ->
  (d_published d < n_before n \/ mem_id (d_msg d) (n_acked n) = true) ->
  In d (dels (post st now (SeekSnap name snapname w))).
Proof.
  intros Hv Hv2 Hf Hn Hin Hc Hor. unfold post.
  rewrite (step_seek_snap _ _ _ _ _ _ _ Hv Hv2 Hf Hn).
  unfold done, set_dels. cbn [r_state dels].
  apply in_map_iff. exists d. split; [|exact Hin].
  unfold seek_snap_row. destruct (N.eqb (d_sub d) (s_id s)); [|reflexivity].
  destruct (d_completed d) as [c|]; [|congruence]. cbn [is_none is_some negb].
  destruct Hor as [Hlt|Hm].
  - destruct (Z.leb_spec (n_before n) (d_published d)); [lia|]. reflexivity.
  - rewrite Hm. cbn [negb]. rewrite andb_false_r. reflexivity.
Qed.

(* ---- other subscriptions are unaffected by either seek ---- *)
Theorem seek_other_untouched st now o d :
  (match o with SeekTime _ _ _ | SeekSnap _ _ _ => True | _ => False end) ->
  In d (dels st) -> is_seek_of st o (d_sub d) = false -> In d (dels (post st now o)).
Proof.
  intros Ho Hin His. destruct o; try contradiction.
  - (* SeekTime *)
    unfold is_seek_of, sub_of_name in His.
    destruct (valid_sub_name name) eqn:Hv.
    + destruct (find_live_sub st name) as [s|] eqn:Hf.
      * cbn [option_map] in His. unfold post.
        rewrite (step_seek_time _ _ _ _ _ _ Hv Hf).
        unfold done, set_dels. cbn [r_state dels].
        apply in_map_iff. exists d. split; [|exact Hin].
        unfold seek_time_row. rewrite N.eqb_sym, His. reflexivity.
      * unfold post, step. rewrite Hv, Hf. exact Hin.
    + unfold post, step. rewrite Hv. exact Hin.
  - (* SeekSnap *)
    unfold is_seek_of, sub_of_name in His.
    destruct (valid_sub_name name) eqn:Hv.
    + destruct (valid_snap_name snapname) eqn:Hv2.
      * destruct (find_live_sub st name) as [s|] eqn:Hf.
        -- destruct (find_snap st snapname) as [n|] eqn:Hn.
           ++ cbn [option_map] in His. unfold post.
              rewrite (step_seek_snap _ _ _ _ _ _ _ Hv Hv2 Hf Hn).
              unfold done, set_dels. cbn [r_state dels].
              apply in_map_iff. exists d. split; [|exact Hin].
              unfold seek_snap_row. rewrite N.eqb_sym, His. reflexivity.
           ++ unfold post, step. rewrite Hv, Hv2, Hf, Hn. exact Hin.
        -- unfold post, step. rewrite Hv, Hv2, Hf. exact Hin.
      * unfold post, step. rewrite Hv, Hv2. exact Hin.
    + unfold post, step. rewrite Hv. exact Hin.
Qed.

(* a failed seek (unknown subscription or snapshot) changes nothing *)
Theorem seek_not_found st now name snapname w :
  valid_sub_name name = true -> valid_snap_name snapname = true ->
  (find_live_sub st name = None \/ find_snap st snapname = None) ->
  answer st now (SeekSnap name snapname w) = RErr NotFound /\ post st now (SeekSnap name snapname w) = st.
Proof.
  intros Hv Hv2 Hor. unfold answer, post, step. rewrite Hv, Hv2. cbn [negb].
  destruct Hor as [H|H]; rewrite H.
  - split; reflexivity.
  - destruct (find_live_sub st name); split; reflexivity.
Qed.

Print Assumptions seek_time_exact.
Print Assumptions seek_snap_exact.
Print Assumptions seek_snap_backlog.
Print Assumptions snapshot_meaning.
