(* Bus/L01_Ops.v -- how the helper functions of Bus/Ops.v and Bus/Step.v change the tables
   (one group of lemmas per helper), used by the C01 proofs. *)
From MB Require Import Base.
From MB.Bus Require Import State Ops Step Defs L01_Tables.
Local Open Scope string_scope.
Open Scope list_scope.
Open Scope Z_scope.

Ltac inv H := inversion H; subst; clear H.

(* ---- frames ---- *)
Definition frame4 (st st' : state) : Prop :=
  topics st' = topics st /\ subs st' = subs st /\ msgs st' = msgs st /\ snaps st' = snaps st.
Definition dels_mono (st st' : state) : Prop := forall d, In d (dels st) -> In d (dels st').

Lemma frame4_refl st : frame4 st st.
Proof. unfold frame4; auto. Qed.
Lemma frame4_trans a b c : frame4 a b -> frame4 b c -> frame4 a c.
Proof. unfold frame4. intros [A1 [A2 [A3 A4]]] [B1 [B2 [B3 B4]]]. repeat split; congruence. Qed.
Lemma dels_mono_refl st : dels_mono st st.
Proof. intros d H; exact H. Qed.
Lemma dels_mono_trans a b c : dels_mono a b -> dels_mono b c -> dels_mono a c.
Proof. intros H1 H2 d H. apply H2, H1, H. Qed.
Lemma frame4_set_dels st ds : frame4 st (set_dels st ds).
Proof. unfold frame4; cbn; auto. Qed.

Lemma frame4_get_sub st st' i : frame4 st st' -> get_sub st' i = get_sub st i.
Proof. intros [_ [H _]]. unfold get_sub. rewrite H. reflexivity. Qed.
Lemma frame4_get_msg st st' i : frame4 st st' -> get_msg st' i = get_msg st i.
Proof. intros [_ [_ [H _]]]. unfold get_msg. rewrite H. reflexivity. Qed.

(* ---- what survives of a delivery row ---- *)
Definition row_kept (d d' : del) : Prop :=
  d_id d' = d_id d /\ d_msg d' = d_msg d /\ d_sub d' = d_sub d /\ d_completed d' = d_completed d /\
  d_expires d' = d_expires d /\ d_published d' = d_published d /\ d_attempts d <= d_attempts d'.

Lemma row_kept_refl d : row_kept d d.
Proof. unfold row_kept. repeat split; try reflexivity; lia. Qed.
Lemma row_kept_trans a b c : row_kept a b -> row_kept b c -> row_kept a c.
Proof.
  unfold row_kept. intros [A1 [A2 [A3 [A4 [A5 [A6 A7]]]]]] [B1 [B2 [B3 [B4 [B5 [B6 B7]]]]]].
  repeat split; try congruence; lia.
Qed.
Lemma row_kept_attempt_at t d : row_kept d (d_set_attempt_at t d).
Proof. unfold row_kept; cbn. repeat split; try reflexivity; lia. Qed.
Lemma row_kept_lease a b d : row_kept d (d_lease a b d).
Proof. unfold row_kept; cbn. repeat split; try reflexivity; lia. Qed.
Lemma row_kept_null_link ids d : row_kept d (d_null_link ids d).
Proof.
  unfold d_null_link. destruct (d_not_before d) as [p|]; [|apply row_kept_refl].
  destruct (mem_id p ids); [|apply row_kept_refl].
  unfold row_kept; cbn. repeat split; try reflexivity; lia.
Qed.

(* ---- deliver_to_sub / deliver_to_subs ---- *)
Definition new_row (m : msg) (now : time) (s : sub) (d : del) : Prop :=
  d_msg d = m_id m /\ d_sub d = s_id s /\ d_published d = now /\
  d_attempt_at d = now + s_delay s /\ d_attempts d = 0 /\ d_completed d = None /\
  d_expires d = now + s_msg_ttl s /\ d_last d = None.

Definition accepts (m : msg) (s : sub) : bool := filter_accepts (s_filter s) (m_attrs m).

Lemma deliver_to_sub_frame st s m now fr st' fr' w n :
  deliver_to_sub st s m now fr = (st', fr', w, n) -> frame4 st st' /\ dels_mono st st'.
Proof.
  unfold deliver_to_sub. cbv zeta. intros H.
  destruct (negb (filter_accepts (s_filter s) (m_attrs m))).
  - inv H. split; [apply frame4_refl|apply dels_mono_refl].
  - destruct (take_fresh (m_id m) (s_id s) fr) as [oi fr1]. destruct oi as [i|].
    + inv H. split; [unfold frame4; cbn; auto|].
      intros d Hd. cbn [dels]. apply in_ins. right; exact Hd.
    + inv H. split; [apply frame4_refl|apply dels_mono_refl].
Qed.

Lemma deliver_to_sub_spec st s m now fr st' fr' w n :
  deliver_to_sub st s m now fr = (st', fr', w, n) -> n = [] ->
  w = (if accepts m s then [s_id s] else []) /\
  exists news, (forall d, In d (dels st') <-> In d news \/ In d (dels st)) /\
               Forall2 (new_row m now) (if accepts m s then [s] else []) news.
Proof.
  unfold deliver_to_sub, accepts. cbv zeta. intros H Hn.
  destruct (filter_accepts (s_filter s) (m_attrs m)); cbn [negb] in H.
  - destruct (take_fresh (m_id m) (s_id s) fr) as [oi fr1]. destruct oi as [i|].
    + inv H. split; [reflexivity|].
      eexists [_]. split.
      * intros d. cbn [dels]. rewrite in_ins. cbn [In].
        split; [intros [->|H]; auto|intros [[<-|[]]|H]; auto].
      * constructor; [|constructor]. unfold new_row; cbn. repeat split; reflexivity.
    + inv H. discriminate.
  - inv H. split; [reflexivity|]. exists []. split; [|constructor].
    intros d. cbn [In]. tauto.
Qed.

Lemma deliver_to_subs_frame ss : forall st m now fr st' fr' w n,
  deliver_to_subs st ss m now fr = (st', fr', w, n) -> frame4 st st' /\ dels_mono st st'.
Proof.
  induction ss as [|s r IH]; intros st m now fr st' fr' w n H; cbn [deliver_to_subs] in H.
  - inv H. split; [apply frame4_refl|apply dels_mono_refl].
  - destruct (deliver_to_sub st s m now fr) as [[[st1 fr1] w1] n1] eqn:E1.
    destruct (deliver_to_subs st1 r m now fr1) as [[[st2 fr2] w2] n2] eqn:E2.
    inv H. apply deliver_to_sub_frame in E1. apply IH in E2.
    destruct E1 as [F1 M1], E2 as [F2 M2].
    split; [eapply frame4_trans; eassumption|eapply dels_mono_trans; eassumption].
Qed.

Lemma deliver_to_subs_spec ss : forall st m now fr st' fr' w n,
  deliver_to_subs st ss m now fr = (st', fr', w, n) -> n = [] ->
  w = map s_id (filter (accepts m) ss) /\
  exists news, (forall d, In d (dels st') <-> In d news \/ In d (dels st)) /\
               Forall2 (new_row m now) (filter (accepts m) ss) news.
Proof.
  induction ss as [|s r IH]; intros st m now fr st' fr' w n H Hn; cbn [deliver_to_subs] in H.
  - inv H. split; [reflexivity|]. exists []. split; [|constructor]. intros d; cbn [In]; tauto.
  - destruct (deliver_to_sub st s m now fr) as [[[st1 fr1] w1] n1] eqn:E1.
    destruct (deliver_to_subs st1 r m now fr1) as [[[st2 fr2] w2] n2] eqn:E2.
    subst n. injection H as <- <- <- Hn. apply app_eq_nil in Hn. destruct Hn as [N1 N2].
    destruct (deliver_to_sub_spec _ _ _ _ _ _ _ _ _ E1 N1) as [W1 [news1 [D1 F1]]].
    destruct (IH _ _ _ _ _ _ _ _ E2 N2) as [W2 [news2 [D2 F2]]].
    cbn [filter]. subst w1 w2.
    destruct (accepts m s).
    + split; [reflexivity|]. exists (news1 ++ news2). split.
      * intros d. rewrite D2, D1, in_app_iff. tauto.
      * change (s :: filter (accepts m) r) with ([s] ++ filter (accepts m) r).
        apply Forall2_app; assumption.
    + inv F1. split; [reflexivity|]. exists news2. split; [|exact F2].
      intros d. rewrite D2, D1. cbn [In]. tauto.
Qed.

(* ---- dead_letter ---- *)
Definition dl_deliver (st : state) (d : del) (dlt : id) (now : time) (fr : fresh_dels)
  : state * fresh_dels * list id * notes :=
  match get_topic st dlt with
  | Some t =>
      if topic_live t then
        match live_subs_of st dlt, get_msg st (d_msg d) with
        | [], _ => (st, fr, [], [])
        | ss, Some m => deliver_to_subs st ss m now fr
        | _, None => (st, fr, [], ["dead-letter-message-missing"%string])
        end
      else (st, fr, [], [])
  | None => (st, fr, [], [])
  end.

Lemma dead_letter_eq st d dlt now fr :
  dead_letter st d dlt now fr =
  let '(st1, fr1, w1, n1) := dl_deliver st d dlt now fr in
  (set_dels st1 (upd_where (fun x => N.eqb (d_id x) (d_id d)) (d_set_completed now) (dels st1)),
   fr1, w1 ++ [d_sub d], n1).
Proof. reflexivity. Qed.

Lemma dl_deliver_frame st d dlt now fr st' fr' w n :
  dl_deliver st d dlt now fr = (st', fr', w, n) -> frame4 st st' /\ dels_mono st st'.
Proof.
  unfold dl_deliver. intros H.
  assert (Hid : (st, fr, @nil id, @nil string) = (st', fr', w, n) -> frame4 st st' /\ dels_mono st st').
  { intros E. inv E. split; [apply frame4_refl|apply dels_mono_refl]. }
  destruct (get_topic st dlt) as [t|]; [|auto].
  destruct (topic_live t); [|auto].
  destruct (live_subs_of st dlt) as [|s0 ss]; [auto|].
  destruct (get_msg st (d_msg d)) as [m|].
  - eapply deliver_to_subs_frame; eassumption.
  - inv H. split; [apply frame4_refl|apply dels_mono_refl].
Qed.

Lemma dead_letter_frame st d dlt now fr st' fr' w n :
  dead_letter st d dlt now fr = (st', fr', w, n) -> frame4 st st'.
Proof.
  rewrite dead_letter_eq. destruct (dl_deliver st d dlt now fr) as [[[st1 fr1] w1] n1] eqn:E.
  intros H. inv H. apply dl_deliver_frame in E. destruct E as [F _].
  eapply frame4_trans; [exact F|apply frame4_set_dels].
Qed.

Lemma dead_letter_other st d dlt now fr st' fr' w n x :
  dead_letter st d dlt now fr = (st', fr', w, n) ->
  In x (dels st) -> d_id x <> d_id d -> In x (dels st').
Proof.
  rewrite dead_letter_eq. destruct (dl_deliver st d dlt now fr) as [[[st1 fr1] w1] n1] eqn:E.
  intros H Hx Hne. inv H. apply dl_deliver_frame in E. destruct E as [_ M].
  cbn [set_dels dels]. apply in_upd_where_keep; [apply M; exact Hx|].
  apply N.eqb_neq. exact Hne.
Qed.

Lemma dead_letter_hit st d dlt now fr st' fr' w n x :
  dead_letter st d dlt now fr = (st', fr', w, n) ->
  In x (dels st) -> d_id x = d_id d -> In (d_set_completed now x) (dels st').
Proof.
  rewrite dead_letter_eq. destruct (dl_deliver st d dlt now fr) as [[[st1 fr1] w1] n1] eqn:E.
  intros H Hx He. inv H. apply dl_deliver_frame in E. destruct E as [_ M].
  cbn [set_dels dels]. apply in_upd_where_hit; [apply M; exact Hx|].
  apply N.eqb_eq. exact He.
Qed.

(* ---- the dead-letter condition both Pull and Nack evaluate ---- *)
Definition dlcond (s : sub) (d : del) : bool := full_dl s && (max_attempts_of s <=? d_attempts d).

Lemma full_dl_topic s : full_dl s = true -> exists dlt, s_dl_topic s = Some dlt.
Proof.
  unfold full_dl. destruct (s_max_attempts s); [|discriminate].
  destruct (s_dl_topic s) as [t|]; [|discriminate]. intros _. exists t. reflexivity.
Qed.

(* the optional dead-lettering step shared by apply_results and nack_each *)
Definition dl_opt (st : state) (s : sub) (d : del) (wnow : time) (fr : fresh_dels)
  : state * fresh_dels * list id * notes :=
  match s_dl_topic s with
  | Some dlt => dead_letter st d dlt wnow fr
  | None => (st, fr, [], [])
  end.

Lemma dl_opt_frame st s d wnow fr st' fr' w n :
  dl_opt st s d wnow fr = (st', fr', w, n) -> frame4 st st'.
Proof.
  unfold dl_opt. destruct (s_dl_topic s) as [dlt|]; intros H.
  - eapply dead_letter_frame; eassumption.
  - inv H. apply frame4_refl.
Qed.

Lemma dl_opt_other st s d wnow fr st' fr' w n x :
  dl_opt st s d wnow fr = (st', fr', w, n) ->
  In x (dels st) -> d_id x <> d_id d -> In x (dels st').
Proof.
  unfold dl_opt. destruct (s_dl_topic s) as [dlt|]; intros H Hx Hne.
  - eapply dead_letter_other; eassumption.
  - inv H. exact Hx.
Qed.

Lemma dl_opt_hit st s d wnow fr st' fr' w n x :
  dl_opt st s d wnow fr = (st', fr', w, n) -> full_dl s = true ->
  In x (dels st) -> d_id x = d_id d -> In (d_set_completed wnow x) (dels st').
Proof.
  unfold dl_opt. intros H Hf Hx He. destruct (full_dl_topic s Hf) as [dlt Hd]. rewrite Hd in H.
  eapply dead_letter_hit; eassumption.
Qed.

(* ---- apply_results ---- *)
Section ApplyResults.
  Variables (s : sub) (strict : bool) (maxb : Z) (now wnow : time) (fz : fuzzes).

  Lemma apply_results_cons st d r first bytes fr :
    apply_results st s (d :: r) first strict bytes maxb now wnow fz fr =
    match get_msg st (d_msg d) with
    | None => (st, fr, [], [], ["pull-message-missing"%string])
    | Some m =>
        if (strict || negb first) && (maxb <? bytes + m_size m) then
          apply_results st s r false strict bytes maxb now wnow fz fr
        else if dlcond s d then
          let '(st1, fr1, w1, n1) := dl_opt st s d wnow fr in
          let '(st2, fr2, ps, w2, n2) :=
            apply_results st1 s r false strict bytes maxb now wnow fz fr1 in
          (st2, fr2, ps, w1 ++ w2, n1 ++ n2)
        else
          let nom := nominal_delay (s_minb s) (s_maxb s) (d_attempts d + 1) in
          let f := fuzz_of (d_id d) fz in
          let st1 := set_dels st (upd_where (fun x => N.eqb (d_id x) (d_id d))
                                            (d_lease wnow (wnow + nom + f)) (dels st)) in
          let p := mkPulled (d_id d) (m_id m) (d_attempts d + 1) (m_payload m) (m_attrs m)
                            (match m_key m with Some k => k | None => EmptyString end)
                            (m_published m) in
          let '(st2, fr2, ps, w2, n2) :=
            apply_results st1 s r false strict (bytes + m_size m) maxb now wnow fz fr in
          (st2, fr2, p :: ps, w2,
           (if fuzz_legal nom f then [] else ["illegal-fuzz"%string]) ++ n2)
    end.
  Proof. reflexivity. Qed.

  Lemma apply_results_frame cands : forall st first bytes fr st' fr' ps w n,
    apply_results st s cands first strict bytes maxb now wnow fz fr = (st', fr', ps, w, n) ->
    frame4 st st'.
  Proof.
    induction cands as [|d r IH]; intros st first bytes fr st' fr' ps w n H.
    - cbn [apply_results] in H. inv H. apply frame4_refl.
    - rewrite apply_results_cons in H.
      destruct (get_msg st (d_msg d)) as [m|]; [|inv H; apply frame4_refl].
      destruct ((strict || negb first) && (maxb <? bytes + m_size m)).
      { eapply IH; eassumption. }
      destruct (dlcond s d).
      + destruct (dl_opt st s d wnow fr) as [[[st1 fr1] w1] n1] eqn:E1.
        destruct (apply_results st1 s r false strict bytes maxb now wnow fz fr1)
          as [[[[st2 fr2] ps2] w2] n2] eqn:E2.
        inv H. eapply frame4_trans; [eapply dl_opt_frame; eassumption|eapply IH; eassumption].
      + cbv zeta in H.
        match type of H with context [apply_results ?a s r false strict ?b maxb now wnow fz fr] =>
          destruct (apply_results a s r false strict b maxb now wnow fz fr)
            as [[[[st2 fr2] ps2] w2] n2] eqn:E2 end.
        inv H. eapply frame4_trans; [|eapply IH; eassumption]. apply frame4_set_dels.
  Qed.

  (* a row whose id is not among the candidates is not touched *)
  Lemma apply_results_untouched cands : forall st first bytes fr st' fr' ps w n x,
    apply_results st s cands first strict bytes maxb now wnow fz fr = (st', fr', ps, w, n) ->
    In x (dels st) -> ~ In (d_id x) (map d_id cands) -> In x (dels st').
  Proof.
    induction cands as [|d r IH]; intros st first bytes fr st' fr' ps w n x H Hx Hn.
    - cbn [apply_results] in H. inv H. exact Hx.
    - rewrite apply_results_cons in H. cbn [map In] in Hn.
      assert (Hne : d_id x <> d_id d) by (intros E; apply Hn; left; symmetry; exact E).
      assert (Hnr : ~ In (d_id x) (map d_id r)) by (intros E; apply Hn; right; exact E).
      destruct (get_msg st (d_msg d)) as [m|]; [|inv H; exact Hx].
      destruct ((strict || negb first) && (maxb <? bytes + m_size m)).
      { eapply IH; eassumption. }
      destruct (dlcond s d).
      + destruct (dl_opt st s d wnow fr) as [[[st1 fr1] w1] n1] eqn:E1.
        destruct (apply_results st1 s r false strict bytes maxb now wnow fz fr1)
          as [[[[st2 fr2] ps2] w2] n2] eqn:E2.
        inv H. eapply IH; [eassumption| |exact Hnr].
        eapply dl_opt_other; eassumption.
      + cbv zeta in H.
        match type of H with context [apply_results ?a s r false strict ?b maxb now wnow fz fr] =>
          destruct (apply_results a s r false strict b maxb now wnow fz fr)
            as [[[[st2 fr2] ps2] w2] n2] eqn:E2 end.
        inv H. eapply IH; [eassumption| |exact Hnr].
        cbn [set_dels dels]. apply in_upd_where_keep; [exact Hx|]. apply N.eqb_neq. exact Hne.
  Qed.

  (* a row that is not dead-lettered survives (possibly leased) *)
  Lemma apply_results_kept cands : forall st first bytes fr st' fr' ps w n x,
    apply_results st s cands first strict bytes maxb now wnow fz fr = (st', fr', ps, w, n) ->
    In x (dels st) -> (forall c, In c cands -> d_id c = d_id x -> dlcond s c = false) ->
    exists x', In x' (dels st') /\ row_kept x x'.
  Proof.
    induction cands as [|d r IH]; intros st first bytes fr st' fr' ps w n x H Hx Hc.
    - cbn [apply_results] in H. inv H. exists x. split; [exact Hx|apply row_kept_refl].
    - rewrite apply_results_cons in H.
      assert (Hcr : forall x', row_kept x x' -> forall c, In c r -> d_id c = d_id x' -> dlcond s c = false).
      { intros x' K c Hi E. apply Hc; [right; exact Hi|]. destruct K as [K _]. congruence. }
      destruct (get_msg st (d_msg d)) as [m|];
        [|inv H; exists x; split; [exact Hx|apply row_kept_refl]].
      destruct ((strict || negb first) && (maxb <? bytes + m_size m)).
      { eapply IH; [eassumption|exact Hx|]. apply Hcr. apply row_kept_refl. }
      destruct (dlcond s d) eqn:Ed.
      + destruct (dl_opt st s d wnow fr) as [[[st1 fr1] w1] n1] eqn:E1.
        destruct (apply_results st1 s r false strict bytes maxb now wnow fz fr1)
          as [[[[st2 fr2] ps2] w2] n2] eqn:E2.
        inv H.
        assert (Hne : d_id x <> d_id d).
        { intros E. rewrite (Hc d (or_introl eq_refl) (eq_sym E)) in Ed. discriminate. }
        eapply IH; [eassumption| |apply Hcr; apply row_kept_refl].
        eapply dl_opt_other; eassumption.
      + cbv zeta in H.
        match type of H with context [apply_results ?a s r false strict ?b maxb now wnow fz fr] =>
          destruct (apply_results a s r false strict b maxb now wnow fz fr)
            as [[[[st2 fr2] ps2] w2] n2] eqn:E2 end.
        inv H.
        destruct (N.eqb (d_id x) (d_id d)) eqn:Ex.
        * match type of E2 with context [d_lease ?a ?b] => set (x1 := d_lease a b x) end.
          assert (K1 : row_kept x x1) by apply row_kept_lease.
          destruct (IH _ _ _ _ _ _ _ _ _ x1 E2) as [x' [Hx' K']].
          { cbn [set_dels dels]. apply in_upd_where_hit; assumption. }
          { apply Hcr. exact K1. }
          exists x'. split; [exact Hx'|eapply row_kept_trans; eassumption].
        * eapply IH; [eassumption| |apply Hcr; apply row_kept_refl].
          cbn [set_dels dels]. apply in_upd_where_keep; assumption.
  Qed.

  (* every handed-out message is a leased candidate *)
  Lemma apply_results_leased cands : forall st first bytes fr st' fr' ps w n p,
    apply_results st s cands first strict bytes maxb now wnow fz fr = (st', fr', ps, w, n) -> n = [] ->
    NoDup (map d_id cands) -> (forall c, In c cands -> In c (dels st)) ->
    In p ps ->
    exists c, In c cands /\ p_ack p = d_id c /\
      fuzz_legal (nominal_delay (s_minb s) (s_maxb s) (d_attempts c + 1)) (fuzz_of (d_id c) fz) = true /\
      In (d_lease wnow (wnow + nominal_delay (s_minb s) (s_maxb s) (d_attempts c + 1) + fuzz_of (d_id c) fz) c)
         (dels st').
  Proof.
    induction cands as [|d r IH]; intros st first bytes fr st' fr' ps w n p H Hn ND Hin Hp.
    - cbn [apply_results] in H. inv H. destruct Hp.
    - rewrite apply_results_cons in H. cbn [map] in ND. apply NoDup_cons_iff in ND. destruct ND as [Hnd NDr].
      assert (Hrest : forall c, In c r -> d_id c <> d_id d).
      { intros c Hc E. apply Hnd. rewrite <- E. apply in_map. exact Hc. }
      destruct (get_msg st (d_msg d)) as [m|]; [|inv H; discriminate].
      destruct ((strict || negb first) && (maxb <? bytes + m_size m)).
      { destruct (IH _ _ _ _ _ _ _ _ _ p H Hn NDr) as [c [A B]]; [|exact Hp|].
        - intros c Hc. apply Hin. right; exact Hc.
        - exists c. split; [right; exact A|exact B]. }
      destruct (dlcond s d).
      + destruct (dl_opt st s d wnow fr) as [[[st1 fr1] w1] n1] eqn:E1.
        destruct (apply_results st1 s r false strict bytes maxb now wnow fz fr1)
          as [[[[st2 fr2] ps2] w2] n2] eqn:E2.
        subst n. injection H as <- <- <- <- Hn. apply app_eq_nil in Hn. destruct Hn as [N1 N2].
        destruct (IH _ _ _ _ _ _ _ _ _ p E2 N2 NDr) as [c [A B]]; [|exact Hp|].
        * intros c Hc. eapply dl_opt_other; [eassumption|apply Hin; right; exact Hc|apply Hrest; exact Hc].
        * exists c. split; [right; exact A|exact B].
      + cbv zeta in H.
        match type of H with context [apply_results ?a s r false strict ?b maxb now wnow fz fr] =>
          destruct (apply_results a s r false strict b maxb now wnow fz fr)
            as [[[[st2 fr2] ps2] w2] n2] eqn:E2 end.
        subst n. injection H as <- <- <- <- Hn. apply app_eq_nil in Hn. destruct Hn as [N1 N2].
        destruct Hp as [<-|Hp].
        * exists d. split; [left; reflexivity|]. split; [reflexivity|].
          split.
          { destruct (fuzz_legal (nominal_delay (s_minb s) (s_maxb s) (d_attempts d + 1)) (fuzz_of (d_id d) fz));
              [reflexivity|discriminate]. }
          eapply apply_results_untouched; [exact E2| |exact Hnd].
          cbn [set_dels dels]. apply in_upd_where_hit; [apply Hin; left; reflexivity|apply N.eqb_refl].
        * destruct (IH _ _ _ _ _ _ _ _ _ p E2 N2 NDr) as [c [A B]]; [|exact Hp|].
          { intros c Hc. cbn [set_dels dels]. apply in_upd_where_keep; [apply Hin; right; exact Hc|].
            apply N.eqb_neq. apply Hrest. exact Hc. }
          exists c. split; [right; exact A|exact B].
  Qed.
End ApplyResults.

(* with the byte budget out of the way (strict = false), every candidate is served *)
Section Served.
  Variables (s : sub) (maxb : Z) (now wnow : time) (fz : fuzzes) (B : Z).

  Lemma apply_results_served cands : forall st first bytes fr st' fr' ps w n c m,
    apply_results st s cands first false bytes maxb now wnow fz fr = (st', fr', ps, w, n) -> n = [] ->
    NoDup (map d_id cands) -> (forall c, In c cands -> In c (dels st)) ->
    (forall m', In m' (msgs st) -> 0 <= m_size m' <= B) -> 0 <= B ->
    bytes + B * Z.of_nat (length cands) <= maxb ->
    In c cands -> get_msg st (d_msg c) = Some m ->
    (dlcond s c = true /\ In (d_set_completed wnow c) (dels st')) \/
    (dlcond s c = false /\
     exists p, In p ps /\ p_ack p = d_id c /\ p_msg p = m_id m /\ p_attempt p = d_attempts c + 1 /\
               p_payload p = m_payload m /\ p_attrs p = m_attrs m).
  Proof.
    induction cands as [|d r IH]; intros st first bytes fr st' fr' ps w n c m H Hn ND Hin Hsz HB Hbud Hc Hm.
    - destruct Hc.
    - rewrite apply_results_cons in H. cbn [map] in ND. apply NoDup_cons_iff in ND. destruct ND as [Hnd NDr].
      assert (Hrest : forall c, In c r -> d_id c <> d_id d).
      { intros c0 Hc0 E. apply Hnd. rewrite <- E. apply in_map. exact Hc0. }
      cbn [length] in Hbud. rewrite Nat2Z.inj_succ in Hbud.
      assert (Hlen : 0 <= Z.of_nat (length r)) by lia.
      destruct (get_msg st (d_msg d)) as [m0|] eqn:Em0; [|inv H; discriminate].
      assert (Hm0 : 0 <= m_size m0 <= B).
      { apply Hsz. unfold get_msg in Em0. apply find_id_some in Em0. tauto. }
      assert (Hskip : (false || negb first) && (maxb <? bytes + m_size m0) = false).
      { apply andb_false_iff. right. apply Z.ltb_ge. nia. }
      rewrite Hskip in H.
      destruct (dlcond s d) eqn:Ed.
      + destruct (dl_opt st s d wnow fr) as [[[st1 fr1] w1] n1] eqn:E1.
        destruct (apply_results st1 s r false false bytes maxb now wnow fz fr1)
          as [[[[st2 fr2] ps2] w2] n2] eqn:E2.
        subst n. injection H as <- <- <- <- Hn. apply app_eq_nil in Hn. destruct Hn as [N1 N2].
        pose proof (dl_opt_frame _ _ _ _ _ _ _ _ _ E1) as F1.
        destruct Hc as [<-|Hc].
        * left. split; [exact Ed|].
          eapply apply_results_untouched; [exact E2| |exact Hnd].
          eapply dl_opt_hit; [exact E1| |apply Hin; left; reflexivity|reflexivity].
          unfold dlcond in Ed. apply andb_true_iff in Ed. tauto.
        * eapply (IH st1 false bytes fr1 _ _ _ _ _ c m E2 N2 NDr); try assumption.
          -- intros c0 Hc0. eapply dl_opt_other; [eassumption|apply Hin; right; exact Hc0|apply Hrest; exact Hc0].
          -- destruct F1 as [_ [_ [F1 _]]]. rewrite F1. exact Hsz.
          -- nia.
          -- rewrite (frame4_get_msg _ _ _ F1). exact Hm.
      + cbv zeta in H.
        match type of H with context [apply_results ?a s r false false ?b maxb now wnow fz fr] =>
          destruct (apply_results a s r false false b maxb now wnow fz fr)
            as [[[[st2 fr2] ps2] w2] n2] eqn:E2 end.
        subst n. injection H as <- <- <- <- Hn. apply app_eq_nil in Hn. destruct Hn as [N1 N2].
        destruct Hc as [<-|Hc].
        * right. split; [exact Ed|]. rewrite Hm in Em0. inv Em0.
          eexists. split; [left; reflexivity|]. cbn. repeat split; reflexivity.
        * match type of E2 with apply_results ?a _ _ _ _ ?b _ _ _ _ _ = _ =>
            destruct (IH a false b fr _ _ _ _ _ c m E2 N2 NDr) as [IHr|IHr] end; try assumption.
          -- intros c0 Hc0. cbn [set_dels dels].
             apply in_upd_where_keep; [apply Hin; right; exact Hc0|].
             apply N.eqb_neq. apply Hrest. exact Hc0.
          -- nia.
          -- left. exact IHr.
          -- right. destruct IHr as [A [p [Hp Hr]]]. split; [exact A|].
             exists p. split; [right; exact Hp|exact Hr].
  Qed.
End Served.

(* ---- nack_each ---- *)
Lemma nack_each_cons st d r now wnow fz fr :
  nack_each st (d :: r) now wnow fz fr =
  match get_sub st (d_sub d) with
  | None => (st, fr, [], ["nack-subscription-missing"%string])
  | Some s =>
      let '(st1, fr1, w1, n1) :=
        if dlcond s d then dl_opt st s d wnow fr
        else
          let nom := nominal_delay (s_minb s) (s_maxb s) (d_attempts d) in
          let f := fuzz_of (d_id d) fz in
          (set_dels st (upd_where (fun x => N.eqb (d_id x) (d_id d))
                                  (d_set_attempt_at (wnow + nom + f)) (dels st)),
           fr, [], if fuzz_legal nom f then [] else ["illegal-fuzz"%string]) in
      let '(st2, fr2, w2, n2) := nack_each st1 r now wnow fz fr1 in
      (st2, fr2, w1 ++ w2, n1 ++ n2)
  end.
Proof. reflexivity. Qed.

Lemma nack_each_kept ds : forall st now wnow fz fr st' fr' w n x,
  nack_each st ds now wnow fz fr = (st', fr', w, n) ->
  In x (dels st) ->
  (forall c s, In c ds -> d_id c = d_id x -> get_sub st (d_sub c) = Some s -> dlcond s c = false) ->
  frame4 st st' /\ exists x', In x' (dels st') /\ row_kept x x'.
Proof.
  induction ds as [|d r IH]; intros st now wnow fz fr st' fr' w n x H Hx Hc.
  - cbn [nack_each] in H. inv H. split; [apply frame4_refl|].
    exists x. split; [exact Hx|apply row_kept_refl].
  - rewrite nack_each_cons in H.
    destruct (get_sub st (d_sub d)) as [s|] eqn:Es;
      [|inv H; split; [apply frame4_refl|exists x; split; [exact Hx|apply row_kept_refl]]].
    assert (Hstep : forall st1 x1, frame4 st st1 -> In x1 (dels st1) -> row_kept x x1 ->
              forall fr1 st2 fr2 w2 n2, nack_each st1 r now wnow fz fr1 = (st2, fr2, w2, n2) ->
              frame4 st st2 /\ exists x', In x' (dels st2) /\ row_kept x x').
    { intros st1 x1 F1 Hx1 K1 fr1 st2 fr2 w2 n2 E2.
      destruct (IH _ _ _ _ _ _ _ _ _ x1 E2 Hx1) as [F2 [x' [Hx' K']]].
      - intros c s0 Hi E G. rewrite (frame4_get_sub _ _ _ F1) in G.
        eapply Hc; [right; exact Hi| |exact G]. destruct K1 as [K1 _]. congruence.
      - split; [eapply frame4_trans; eassumption|].
        exists x'. split; [exact Hx'|eapply row_kept_trans; eassumption]. }
    destruct (dlcond s d) eqn:Ed.
    + destruct (dl_opt st s d wnow fr) as [[[st1 fr1] w1] n1] eqn:E1.
      destruct (nack_each st1 r now wnow fz fr1) as [[[st2 fr2] w2] n2] eqn:E2.
      inv H.
      assert (Hne : d_id x <> d_id d).
      { intros E. rewrite (Hc d s (or_introl eq_refl) (eq_sym E) Es) in Ed. discriminate. }
      eapply (Hstep st1 x); [eapply dl_opt_frame; eassumption| |apply row_kept_refl|exact E2].
      eapply dl_opt_other; eassumption.
    + cbv beta iota zeta in H.
      match type of H with context [nack_each ?a r now wnow fz fr] =>
        destruct (nack_each a r now wnow fz fr) as [[[st2 fr2] w2] n2] eqn:E2 end.
      inv H.
      destruct (N.eqb (d_id x) (d_id d)) eqn:Ex.
      * match type of E2 with context [d_set_attempt_at ?a] =>
          eapply (Hstep _ (d_set_attempt_at a x)); [apply frame4_set_dels| |apply row_kept_attempt_at|exact E2] end.
        cbn [set_dels dels]. apply in_upd_where_hit; assumption.
      * eapply (Hstep _ x); [apply frame4_set_dels| |apply row_kept_refl|exact E2].
        cbn [set_dels dels]. apply in_upd_where_keep; assumption.
Qed.

(* ---- sweep_each ---- *)
Lemma sweep_each_untouched ds : forall st wnow fr st' fr' w n x,
  sweep_each st ds wnow fr = (st', fr', w, n) ->
  In x (dels st) -> ~ In (d_id x) ds -> frame4 st st' /\ In x (dels st').
Proof.
  induction ds as [|i r IH]; intros st wnow fr st' fr' w n x H Hx Hn; cbn [sweep_each] in H.
  - inv H. split; [apply frame4_refl|exact Hx].
  - destruct (get_del st i) as [d|] eqn:Ed; [|inv H; split; [apply frame4_refl|exact Hx]].
    destruct (get_sub st (d_sub d)) as [s|]; [|inv H; split; [apply frame4_refl|exact Hx]].
    destruct (s_dl_topic s) as [dlt|]; [|inv H; split; [apply frame4_refl|exact Hx]].
    destruct (dead_letter st d dlt wnow fr) as [[[st1 fr1] w1] n1] eqn:E1.
    destruct (sweep_each st1 r wnow fr1) as [[[st2 fr2] w2] n2] eqn:E2.
    inv H. unfold get_del in Ed. apply find_id_some in Ed. destruct Ed as [_ Ei].
    destruct (IH _ _ _ _ _ _ _ x E2) as [F2 Hx2].
    + eapply dead_letter_other; [eassumption|exact Hx|]. rewrite Ei. intros E. apply Hn. left. symmetry. exact E.
    + intros E. apply Hn. right. exact E.
    + split; [|exact Hx2]. eapply frame4_trans; [eapply dead_letter_frame; eassumption|exact F2].
Qed.

(* ---- publish_one / publish_all ---- *)
Definition msg_of (t : topic) (p : pubmsg) : msg :=
  mkMsg (pm_id p) (t_id t) (pm_now p) (pm_attrs p)
        (if String.eqb (pm_key p) "" then None else Some (pm_key p)) (pm_payload p) (pm_size p).

Lemma live_subs_of_subs st st' tid : subs st' = subs st -> live_subs_of st' tid = live_subs_of st tid.
Proof. unfold live_subs_of. intros ->. reflexivity. Qed.

Lemma publish_one_spec st t p fr st' fr' w n :
  publish_one st t p fr = (st', fr', w, n) -> n = [] ->
  topics st' = topics st /\ subs st' = subs st /\ snaps st' = snaps st /\
  (forall m, In m (msgs st') <-> m = msg_of t p \/ In m (msgs st)) /\
  w = map s_id (filter (accepts (msg_of t p)) (live_subs_of st (t_id t))) /\
  exists news, (forall d, In d (dels st') <-> In d news \/ In d (dels st)) /\
    Forall2 (new_row (msg_of t p) (pm_now p)) (filter (accepts (msg_of t p)) (live_subs_of st (t_id t))) news.
Proof.
  unfold publish_one. cbv zeta. fold (msg_of t p). intros H Hn.
  match type of H with context [deliver_to_subs ?a ?b ?c ?d ?e] =>
    destruct (deliver_to_subs a b c d e) as [[[st2 fr2] w2] n2] eqn:E end.
  subst n. injection H as <- <- <- Hn. apply app_eq_nil in Hn. destruct Hn as [N0 N2].
  destruct (deliver_to_subs_frame _ _ _ _ _ _ _ _ _ E) as [[F1 [F2 [F3 F4]]] _].
  destruct (deliver_to_subs_spec _ _ _ _ _ _ _ _ _ E N2) as [W [news [D F]]].
  cbn [set_msgs topics subs msgs snaps dels] in *.
  rewrite (live_subs_of_subs st (set_msgs st (ins m_id (msg_of t p) (msgs st)))) in * by reflexivity.
  repeat split; try assumption.
  - rewrite F3. intros Hi. apply in_ins in Hi. exact Hi.
  - rewrite F3. intros Hi. apply in_ins. exact Hi.
  - exists news. split; assumption.
Qed.

Definition group_ok (t : topic) (L : list sub) (p : pubmsg) (g : list del) : Prop :=
  Forall2 (new_row (msg_of t p) (pm_now p)) (filter (accepts (msg_of t p)) L) g.

Lemma publish_all_spec t L ms : forall st fr st' fr' w n,
  publish_all st t ms fr = Some (st', fr', w, n) -> n = [] -> live_subs_of st (t_id t) = L ->
  topics st' = topics st /\ subs st' = subs st /\ snaps st' = snaps st /\
  (forall m, In m (msgs st') <-> In m (map (msg_of t) ms) \/ In m (msgs st)) /\
  w = flat_map (fun p => map s_id (filter (accepts (msg_of t p)) L)) ms /\
  exists groups, (forall d, In d (dels st') <-> In d (concat groups) \/ In d (dels st)) /\
                 Forall2 (group_ok t L) ms groups.
Proof.
  induction ms as [|p r IH]; intros st fr st' fr' w n H Hn HL; cbn [publish_all] in H.
  - inv H. repeat split; try reflexivity; try (cbn [map In]; tauto).
    exists []. split; [|constructor]. intros d. cbn [concat In]. tauto.
  - destruct (negb (pm_valid p)); [discriminate|].
    destruct (publish_one st t p fr) as [[[st1 fr1] w1] n1] eqn:E1.
    destruct (publish_all st1 t r fr1) as [[[[st2 fr2] w2] n2]|] eqn:E2; [|discriminate].
    subst n. injection H as <- <- <- Hn. apply app_eq_nil in Hn. destruct Hn as [N1 N2].
    destruct (publish_one_spec _ _ _ _ _ _ _ _ E1 N1) as [A1 [A2 [A3 [A4 [A5 [news [A6 A7]]]]]]].
    destruct (IH _ _ _ _ _ _ E2 N2) as [B1 [B2 [B3 [B4 [B5 [groups [B6 B7]]]]]]].
    { rewrite (live_subs_of_subs _ _ _ A2). exact HL. }
    rewrite HL in A5, A7.
    split; [congruence|]. split; [congruence|]. split; [congruence|].
    split; [|split].
    + intros m. rewrite B4, A4. cbn [map In]. split.
      * intros [Hi|[Hi|Hi]]; [left; right; exact Hi|left; left; symmetry; exact Hi|right; exact Hi].
      * intros [[Hi|Hi]|Hi]; [right; left; symmetry; exact Hi|left; exact Hi|right; right; exact Hi].
    + cbn [flat_map]. rewrite A5, B5. reflexivity.
    + exists (news :: groups). split.
      * intros d. rewrite B6, A6. cbn [concat]. rewrite in_app_iff. tauto.
      * constructor; [exact A7|exact B7].
Qed.

(* consequences of the group structure (pure list reasoning) *)
Lemma groups_exists t L ms groups p s :
  Forall2 (group_ok t L) ms groups -> In p ms -> In s (filter (accepts (msg_of t p)) L) ->
  exists d, In d (concat groups) /\ new_row (msg_of t p) (pm_now p) s d.
Proof.
  intros F Hp Hs. destruct (Forall2_in_l _ _ _ _ F Hp) as [g [Hg G]].
  destruct (Forall2_in_l _ _ _ _ G Hs) as [d [Hd R]].
  exists d. split; [|exact R]. apply in_concat. exists g. auto.
Qed.

Lemma groups_only t L ms groups d :
  Forall2 (group_ok t L) ms groups -> In d (concat groups) ->
  exists p s, In p ms /\ In s (filter (accepts (msg_of t p)) L) /\ new_row (msg_of t p) (pm_now p) s d.
Proof.
  intros F Hd. apply in_concat in Hd. destruct Hd as [g [Hg Hd]].
  destruct (Forall2_in_r _ _ _ _ F Hg) as [p [Hp G]].
  destruct (Forall2_in_r _ _ _ _ G Hd) as [s [Hs R]].
  exists p, s. auto.
Qed.

Lemma group_once t L p g d1 d2 :
  NoDup (map s_id L) -> group_ok t L p g -> In d1 g -> In d2 g -> d_sub d1 = d_sub d2 -> d1 = d2.
Proof.
  intros ND G H1 H2 E.
  assert (M : map s_id (filter (accepts (msg_of t p)) L) = map d_sub g).
  { apply Forall2_map_eq. eapply Forall2_impl; [|exact G].
    intros a b R. destruct R as [_ [R _]]. symmetry. exact R. }
  apply (nodup_map_inj d_sub g); try assumption.
  rewrite <- M. apply nodup_map_filter. exact ND.
Qed.

Lemma groups_once t L ms : forall groups d1 d2,
  NoDup (map s_id L) -> NoDup (map pm_id ms) ->
  Forall2 (group_ok t L) ms groups -> In d1 (concat groups) -> In d2 (concat groups) ->
  d_msg d1 = d_msg d2 -> d_sub d1 = d_sub d2 -> d1 = d2.
Proof.
  induction ms as [|p r IH]; intros groups d1 d2 NL NM F H1 H2 Em Es.
  - inv F. destruct H1.
  - inv F. cbn [concat] in H1, H2. cbn [map] in NM. inversion NM as [|? ? Hnp NMr]; subst.
    assert (Hg : forall d, In d y -> d_msg d = pm_id p).
    { intros d Hd. destruct (Forall2_in_r _ _ _ _ H3 Hd) as [s [_ R]]. destruct R as [R _]. exact R. }
    assert (Hr : forall d, In d (concat l') -> In (d_msg d) (map pm_id r)).
    { intros d Hd. destruct (groups_only _ _ _ _ _ H5 Hd) as [p' [s [Hp' [_ R]]]].
      destruct R as [R _]. rewrite R. cbn [msg_of m_id]. apply in_map. exact Hp'. }
    apply in_app_iff in H1. apply in_app_iff in H2.
    destruct H1 as [H1|H1], H2 as [H2|H2].
    + eapply group_once; eassumption.
    + exfalso. apply Hnp. rewrite <- (Hg _ H1), Em. apply Hr. exact H2.
    + exfalso. apply Hnp. rewrite <- (Hg _ H2), <- Em. apply Hr. exact H1.
    + eapply IH; eassumption.
Qed.

(* ---- nominal delays are never negative ---- *)
Lemma eff_pos dflt o : 0 < dflt -> 0 < eff dflt o.
Proof.
  intros H. unfold eff. destruct o as [v|]; [|exact H].
  destruct (0 <? v) eqn:E; [apply Z.ltb_lt in E; exact E|exact H].
Qed.

Lemma nominal_delay_nonneg minb maxb n : 0 <= nominal_delay minb maxb n.
Proof.
  unfold nominal_delay.
  assert (H1 : 0 < eff default_max_delay maxb) by (apply eff_pos; reflexivity).
  assert (H2 : 0 < eff default_min_delay minb) by (apply eff_pos; reflexivity).
  apply Z.min_glb; [lia|].
  apply Z_div_nonneg_nonneg.
  - apply Z.mul_nonneg_nonneg; [lia|]. apply Z.pow_nonneg. lia.
  - apply Z.pow_nonneg. lia.
Qed.
