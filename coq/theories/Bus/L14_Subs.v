(* Bus/L14_Subs.v -- how a step changes the subscriptions table, as far as the expiry
   deadline is concerned (used by T_C14). *)
From MB Require Import Base.
From MB.Bus Require Import State Ops Step Defs L04_Lists L04_Evo L04_Pull L14_Dels.
Local Open Scope string_scope.
Open Scope list_scope.
Open Scope Z_scope.

Lemma has_id_false' {R} (key : R -> id) i l : has_id key i l = false -> ~ In i (map key l).
Proof.
  unfold has_id. induction l as [|y l IH]; cbn [find_id map]; [intros _ []|].
  destruct (N.eqb (key y) i) eqn:E; [discriminate|].
  intros H [Hy|Hi]; [apply N.eqb_neq in E; contradiction|exact (IH H Hi)].
Qed.

Definition SubER (o : op) (s s' : sub) : Prop :=
  s_expires s' = s_expires s \/
  (exists name max r o' w fz fr, o = Pull name max r o' w fz fr /\ s_expires s' = w + s_ttl s) \/
  (exists q paths w, o = UpdateSub q paths w /\ In "expiration_policy" paths /\
                     s_expires s' = w + s_ttl s').

Definition sub_rows (o : op) (st : state) (l' : list sub) : Prop :=
  forall s', In s' l' ->
    (exists x, In x (subs st) /\ s_id x = s_id s' /\ SubER o x s') \/
    ~ In (s_id s') (map s_id (subs st)).

Definition sub_desc (st : state) (now : time) (o : op) : Prop :=
  sub_rows o st (subs (post st now o)).

Lemma keep_row o st s' :
  In s' (subs st) ->
  (exists x, In x (subs st) /\ s_id x = s_id s' /\ SubER o x s') \/
  ~ In (s_id s') (map s_id (subs st)).
Proof.
  intros H. left. exists s'. split; [exact H|]. split; [reflexivity|left; reflexivity].
Qed.

Lemma rows_sub o st l' : (forall s', In s' l' -> In s' (subs st)) -> sub_rows o st l'.
Proof. intros H s' Hs'. apply keep_row. apply H. exact Hs'. Qed.

Lemma rows_same o st : sub_rows o st (subs st).
Proof. apply rows_sub. auto. Qed.

Lemma rows_map o st g :
  (forall x, s_id (g x) = s_id x /\ s_expires (g x) = s_expires x) ->
  sub_rows o st (map g (subs st)).
Proof.
  intros Hg s' Hs'. apply in_map_iff in Hs'. destruct Hs' as [x [<- Hx]].
  left. exists x. destruct (Hg x) as [A B]. split; [exact Hx|]. split; [symmetry; exact A|].
  left. exact B.
Qed.

Lemma rows_upd o st p f :
  (forall x, s_id (f x) = s_id x /\ s_expires (f x) = s_expires x) ->
  sub_rows o st (upd_where p f (subs st)).
Proof.
  intros Hf. unfold upd_where. apply rows_map.
  intros x. destruct (p x); [apply Hf|split; reflexivity].
Qed.

Lemma subd_same st now o : subs (post st now o) = subs st -> sub_desc st now o.
Proof. intros H. unfold sub_desc. rewrite H. apply rows_same. Qed.

Ltac crush_same :=
  apply subd_same; unfold post, step;
  repeat (match goal with |- context [match ?x with _ => _ end] => destruct x end);
  reflexivity.

Lemma subd_publish st now t ms fr : sub_desc st now (Publish t ms fr).
Proof.
  apply subd_same. unfold post, step.
  destruct (negb (valid_topic_name t)); [reflexivity|].
  destruct (find_live_topic st t) as [tp|]; [|reflexivity].
  destruct (publish_all st tp ms fr) as [[[[st' fr'] w] n]|] eqn:E; [|reflexivity].
  cbn [done r_state]. apply publish_all_evo in E. apply E.
Qed.

Lemma subd_create st now q fresh w :
  legal st now (CreateSub q fresh w) -> sub_desc st now (CreateSub q fresh w).
Proof.
  unfold legal, sub_desc, sub_rows, post, step, create_sub.
  destruct (has_id s_id fresh (subs st)) eqn:HF; cbv beta iota zeta;
  repeat (match goal with
          | |- context [match ?x with _ => _ end] => destruct x
          end; cbv beta iota zeta; cbn [fail done r_state r_notes]);
    intros L s' Hs';
    try (left; exists s'; split; [exact Hs'|]; split; [reflexivity|left; reflexivity]).
  all: try discriminate.
  all: cbn [set_subs subs] in Hs'; apply in_ins in Hs'; destruct Hs' as [->|Hs'];
    [right; cbn [s_id]; apply has_id_false'; exact HF
    |left; exists s'; split; [exact Hs'|]; split; [reflexivity|left; reflexivity]].
Qed.

(* ---- UpdateSubscription ---- *)
Definition updE (w : time) (paths : list str) (s0 : sub) (acc : sub * str * bool) : Prop :=
  let '(s', _, _) := acc in
  s_id s' = s_id s0 /\
  (s_expires s' = s_expires s0 \/
   (In "expiration_policy" paths /\ s_expires s' = w + s_ttl s')).

Lemma upd_path_updE st q w paths s0 acc p acc' :
  In p paths -> updE w paths s0 acc -> upd_path st q w acc p = inr acc' -> updE w paths s0 acc'.
Proof.
  destruct acc as [[s1 dl1] tc1]. unfold updE, upd_path. intros Hp [A B].
  destruct (String.eqb p "expiration_policy") eqn:Ep.
  - apply String.eqb_eq in Ep. subst p.
    repeat match goal with
           | |- context [if ?b then _ else _] => destruct b eqn:?
           | |- context [match ?x with _ => _ end] => destruct x eqn:?
           end;
      intros H; inversion H; subst; clear H; cbn [s_id s_expires s_ttl];
      (split; [exact A|]); first [exact B | right; split; [exact Hp|reflexivity]].
  - repeat match goal with
           | |- context [if ?b then _ else _] => destruct b eqn:?
           | |- context [match ?x with _ => _ end] => destruct x eqn:?
           end;
      intros H; inversion H; subst; clear H; cbn [s_id s_expires s_ttl];
      (split; [exact A|exact B]).
Qed.

Lemma upd_paths_updE st q w paths s0 : forall ps acc acc',
  incl ps paths -> updE w paths s0 acc -> upd_paths st q w acc ps = inr acc' -> updE w paths s0 acc'.
Proof.
  induction ps as [|p ps IH]; intros acc acc' Hi HI; cbn [upd_paths].
  - intros H; inversion H; subst. exact HI.
  - destruct (upd_path st q w acc p) as [c|acc1] eqn:E; [discriminate|].
    apply IH; [intros x Hx; apply Hi; right; exact Hx|].
    eapply upd_path_updE; [|exact HI|exact E]. apply Hi. left. reflexivity.
Qed.

Lemma subd_update st now q paths w :
  ids_unique st -> sub_desc st now (UpdateSub q paths w).
Proof.
  intros U. unfold sub_desc, sub_rows, post, step, update_sub.
  destruct (negb (valid_sub_name (q_name q))); [intros s'; apply keep_row|].
  destruct (find_live_sub st (q_name q)) as [s0|] eqn:Es; [|intros s'; apply keep_row].
  match goal with |- context [upd_paths ?a ?b ?c ?d ?e] =>
    destruct (upd_paths a b c d e) as [c0|[[s1 dl] t]] eqn:E end; [intros s'; apply keep_row|].
  destruct (negb t); [intros s'; apply keep_row|].
  cbn [done r_state set_subs subs]. intros s' Hs'.
  apply in_upd_where_elim in Hs'. destruct Hs' as [x [Hx ->]].
  left. exists x. split; [exact Hx|].
  apply upd_paths_updE with (paths := paths) (s0 := s0) in E;
    [|apply incl_refl|split; [reflexivity|left; reflexivity]].
  destruct E as [A B].
  destruct (N.eqb (s_id x) (s_id s0)) eqn:Eq; [|split; [reflexivity|left; reflexivity]].
  apply N.eqb_eq in Eq.
  assert (x = s0).
  { apply (nodup_key_inj s_id (subs st)); [apply U|exact Hx| |exact Eq].
    eapply find_live_sub_in'. exact Es. }
  subst x. split; [symmetry; exact A|].
  destruct B as [B|[B1 B2]]; [left; exact B|].
  right. right. exists q, paths, w. split; [reflexivity|]. split; assumption.
Qed.

Lemma subd_pull st now name max returned others w fz fr :
  ids_unique st -> sub_desc st now (Pull name max returned others w fz fr).
Proof.
  intros U. unfold sub_desc, sub_rows, post, step.
  destruct (negb (valid_sub_name name)); [intros s'; apply keep_row|].
  destruct (max <? 1); [intros s'; apply keep_row|].
  destruct (find_live_sub st name) as [s0|] eqn:Es; [|intros s'; apply keep_row].
  match goal with |- context [apply_results ?a ?b ?c ?d ?e ?f ?g ?h ?i ?j ?k] =>
    destruct (apply_results a b c d e f g h i j k) as [[[[st1 fr1] ps] wk] n] eqn:E end.
  cbn [done r_state]. apply AR_evoE in E. destruct E as [S _]. rewrite S.
  cbn [set_subs subs]. intros s' Hs'.
  apply in_upd_where_elim in Hs'. destruct Hs' as [x [Hx ->]].
  left. exists x. split; [exact Hx|].
  destruct (N.eqb (s_id x) (s_id s0)) eqn:Eq; [|split; [reflexivity|left; reflexivity]].
  apply N.eqb_eq in Eq.
  assert (x = s0).
  { apply (nodup_key_inj s_id (subs st)); [apply U|exact Hx| |exact Eq].
    eapply find_live_sub_in'. exact Es. }
  subst x. split; [reflexivity|].
  right. left. exists name, max, returned, others, w, fz, fr. split; reflexivity.
Qed.

Lemma subd_delete st now name w : sub_desc st now (DeleteSub name w).
Proof.
  unfold sub_desc, post, step.
  destruct (negb (valid_sub_name name)); [apply rows_same|].
  destruct (find_live_sub st name) as [s0|]; [|apply rows_same].
  cbn [done r_state set_subs subs]. apply rows_upd. intros x; split; reflexivity.
Qed.

Lemma subd_modpush st now name p : sub_desc st now (ModifyPush name p).
Proof.
  unfold sub_desc, post, step.
  destruct (negb (valid_sub_name name)); [apply rows_same|].
  destruct (validate_push p); [apply rows_same|].
  destruct (find_live_sub st name) as [s0|]; [|apply rows_same].
  cbn [done r_state set_subs subs]. apply rows_upd. intros x; split; reflexivity.
Qed.

Lemma subd_setdelay st now name delay : sub_desc st now (SetDelay name delay).
Proof.
  unfold sub_desc, post, step.
  destruct (find_live_sub st name) as [s0|]; [|apply rows_same].
  cbn [done r_state set_subs subs]. apply rows_upd. intros x; split; reflexivity.
Qed.

Lemma subd_modack st now name ids secs w : sub_desc st now (ModAck name ids secs w).
Proof.
  apply subd_same. unfold post, step.
  destruct (negb (valid_sub_name name)); [reflexivity|].
  destruct ids as [ids|]; [|reflexivity].
  unfold do_delay. destruct (secs * sec <=? 0); reflexivity.
Qed.

Lemma subd_ack st now name ids w : sub_desc st now (Ack name ids w).
Proof.
  apply subd_same. unfold post, step.
  destruct (negb (valid_sub_name name)); [reflexivity|].
  destruct ids as [ids|]; reflexivity.
Qed.

Lemma subd_seek_time st now name target w : sub_desc st now (SeekTime name target w).
Proof.
  apply subd_same. unfold post, step.
  destruct (negb (valid_sub_name name)); [reflexivity|].
  destruct (find_live_sub st name) as [s0|]; reflexivity.
Qed.

Lemma subd_seek_snap st now name sn w : sub_desc st now (SeekSnap name sn w).
Proof.
  apply subd_same. unfold post, step.
  destruct (negb (valid_sub_name name)); [reflexivity|].
  destruct (negb (valid_snap_name sn)); [reflexivity|].
  destruct (find_live_sub st name) as [s0|]; [|reflexivity].
  destruct (find_snap st sn) as [n|]; reflexivity.
Qed.

Lemma subd_stream st now acks nacks w fz fr : sub_desc st now (StreamAckNack acks nacks w fz fr).
Proof.
  apply subd_same. unfold post, step. unfold do_ack.
  set (st1 := set_dels st (upd_where (ack_pred acks) (d_set_completed w) (dels st))).
  destruct (do_nack st1 nacks now w fz fr) as [[[st2 fr2] w2] n2] eqn:E.
  cbn [done r_state]. unfold do_nack in E. apply nack_each_evoE in E. destruct E as [S _].
  rewrite S. reflexivity.
Qed.

Lemma subd_job st now j mn mx ch f w fr : sub_desc st now (Job j mn mx ch f w fr).
Proof.
  destruct f.
  - apply subd_same. unfold post, step, run_job. destruct j; reflexivity.
  - destruct j.
    + apply subd_same. reflexivity.
    + apply subd_same. reflexivity.
    + apply subd_same. reflexivity.
    + apply subd_same. reflexivity.
    + unfold sub_desc, post, step, run_job. cbn [done r_state set_subs subs].
      apply rows_sub. intros s' Hs'. eapply in_del_ids. exact Hs'.
    + unfold sub_desc, post, step, run_job.
      destruct (existsb (topic_has_messages st) ch); [apply rows_same|].
      cbn [done r_state set_subs set_topics set_snaps subs]. apply rows_map.
      intros x. destruct (s_dl_topic x) as [t|]; [|split; reflexivity].
      destruct (mem_id t ch); split; reflexivity.
    + unfold sub_desc, post, step, run_job. cbn [done r_state set_subs subs].
      apply rows_upd. intros x; split; reflexivity.
    + apply subd_same. unfold post, step, run_job.
      destruct (sweep_each st ch w fr) as [[[st1 fr1] wk] n] eqn:E.
      cbn [done r_state]. apply sweep_each_evoE in E. apply E.
Qed.

Lemma sub_desc_all st now o : ids_unique st -> legal st now o -> sub_desc st now o.
Proof.
  intros U L. destruct o.
  - crush_same.
  - crush_same.
  - crush_same.
  - crush_same.
  - crush_same.
  - crush_same.
  - apply subd_publish.
  - apply subd_create. exact L.
  - crush_same.
  - apply subd_update. exact U.
  - crush_same.
  - apply subd_delete.
  - apply subd_modack.
  - apply subd_ack.
  - apply subd_pull. exact U.
  - apply subd_seek_time.
  - apply subd_seek_snap.
  - crush_same.
  - apply subd_modpush.
  - crush_same.
  - crush_same.
  - crush_same.
  - crush_same.
  - apply subd_stream.
  - apply subd_setdelay.
  - apply subd_job.
Qed.

(* ---- publish creates deliveries only for live subscriptions ---- *)
Lemma deliver_to_sub_new st s m now fr st' fr' w n d :
  deliver_to_sub st s m now fr = (st', fr', w, n) -> In d (dels st') ->
  In d (dels st) \/ d_sub d = s_id s.
Proof.
  unfold deliver_to_sub. intros H.
  destruct (negb (filter_accepts (s_filter s) (m_attrs m))); [inversion H; subst; auto|].
  destruct (take_fresh (m_id m) (s_id s) fr) as [oi fr1].
  destruct oi as [i|]; inversion H; subst; cbn [dels]; [|auto].
  intros Hd. apply in_ins in Hd. destruct Hd as [->|Hd]; [right; reflexivity|left; exact Hd].
Qed.

Lemma deliver_to_subs_new m now : forall ss st fr st' fr' w n d,
  deliver_to_subs st ss m now fr = (st', fr', w, n) -> In d (dels st') ->
  In d (dels st) \/ exists s, In s ss /\ d_sub d = s_id s.
Proof.
  induction ss as [|s r IH]; intros st fr st' fr' w n d H Hd; cbn [deliver_to_subs] in H.
  - inversion H; subst. left. exact Hd.
  - destruct (deliver_to_sub st s m now fr) as [[[st1 fr1] w1] n1] eqn:E1.
    destruct (deliver_to_subs st1 r m now fr1) as [[[st2 fr2] w2] n2] eqn:E2.
    inversion H; subst.
    destruct (IH _ _ _ _ _ _ d E2 Hd) as [H1|[s0 [Hs0 H1]]].
    + destruct (deliver_to_sub_new _ _ _ _ _ _ _ _ _ d E1 H1) as [H0|H0]; [left; exact H0|].
      right. exists s. split; [left; reflexivity|exact H0].
    + right. exists s0. split; [right; exact Hs0|exact H1].
Qed.

Definition to_live_sub (st : state) (d : del) : Prop :=
  exists s, In s (subs st) /\ sub_live s = true /\ d_sub d = s_id s.

Lemma publish_one_new st t p fr st' fr' w n d :
  publish_one st t p fr = (st', fr', w, n) -> In d (dels st') ->
  In d (dels st) \/ to_live_sub st d.
Proof.
  unfold publish_one. intros H Hd.
  match type of H with context [match ?X with (_, _) => _ end] =>
    destruct X as [[[st2 fr2] w2] n2] eqn:E end.
  inversion H; subst.
  destruct (deliver_to_subs_new _ _ _ _ _ _ _ _ _ d E Hd) as [H0|[s [Hs H0]]].
  - left. exact H0.
  - right. unfold live_subs_of in Hs. cbn [set_msgs subs] in Hs.
    apply filter_In in Hs. destruct Hs as [Hs Hl]. apply andb_true_iff in Hl.
    exists s. split; [exact Hs|]. split; [apply Hl|exact H0].
Qed.

Lemma publish_all_new t : forall ps st fr st' fr' w n d,
  publish_all st t ps fr = Some (st', fr', w, n) -> In d (dels st') ->
  In d (dels st) \/ to_live_sub st d.
Proof.
  induction ps as [|p r IH]; intros st fr st' fr' w n d H Hd; cbn [publish_all] in H.
  - inversion H; subst. left. exact Hd.
  - destruct (negb (pm_valid p)); [discriminate|].
    destruct (publish_one st t p fr) as [[[st1 fr1] w1] n1] eqn:E1.
    destruct (publish_all st1 t r fr1) as [[[[st2 fr2] w2] n2]|] eqn:E2; [|discriminate].
    inversion H; subst.
    destruct (IH _ _ _ _ _ _ d E2 Hd) as [H1|H1].
    + eapply publish_one_new; eauto.
    + right. apply publish_one_evo in E1. destruct E1 as [S1 _].
      unfold to_live_sub in *. rewrite S1 in H1. exact H1.
Qed.

Lemma publish_new st now tname ms fr d :
  In d (dels (post st now (Publish tname ms fr))) -> In d (dels st) \/ to_live_sub st d.
Proof.
  unfold post, step.
  destruct (negb (valid_topic_name tname)); [auto|].
  destruct (find_live_topic st tname) as [tp|]; [|auto].
  destruct (publish_all st tp ms fr) as [[[[st' fr'] w] n]|] eqn:E; [|auto].
  cbn [done r_state]. eapply publish_all_new. exact E.
Qed.
