(* Bus/T_C17.v -- C17: configuration round-trips (the duration codec half is in
   IntervalProofs.v / Props/C17codec.v). *)
From MB Require Import Base.
From MB.Bus Require Import State Ops Step Defs L_Tables L17_Update.
Local Open Scope string_scope.
Open Scope list_scope.
Open Scope Z_scope.

(* what Get must render for an accepted creation request: the request with the
   documented defaults filled in *)
Definition normalise (q : subreq) (topic_name : str) : subview :=
  let ttl := if q_ttl q =? 0 then default_sub_ttl else q_ttl q in
  let msg_ttl := if q_msg_ttl q =? 0 then default_msg_ttl else q_msg_ttl q in
  let minb := match q_retry q with Some (Some a, _) => if 0 <? a then Some a else None | _ => None end in
  let maxb := match q_retry q with Some (_, Some b) => if 0 <? b then Some b else None | _ => None end in
  mkSubview (q_name q) topic_name
    (nominal_delay minb maxb 0 / sec) msg_ttl (q_labels q) (q_ordered q) ttl
    (match q_push q with Some p => if String.eqb (pr_endpoint p) "" then None else Some (pr_endpoint p) | None => None end)
    (q_filter q)
    (match q_dl q with Some (t, n) => Some (t, if n =? 0 then default_dl_attempts else n) | None => None end)
    (match minb, maxb with None, None => None | a, b => Some (a, b) end).

Lemma create_tail st now' q s t dlname :
  NoDup (map t_id (topics st)) ->
  negb (valid_sub_name (q_name q)) = false ->
  is_some (find_live_sub st (q_name q)) = false ->
  find_live_topic st (q_topic q) = Some t ->
  s_name s = q_name q -> s_deleted s = None -> s_topic s = t_id t ->
  (forall d, s_dl_topic s = Some d -> render_topic_name st d = dlname) ->
  view_sub st s false (q_topic q) dlname = normalise q (q_topic q) ->
  view_sub st s false (q_topic q) dlname = normalise q (q_topic q) /\
  r_resp (step (set_subs st (ins s_id s (subs st))) now' (GetSub (q_name q))) =
    RSub (normalise q (q_topic q)).
Proof.
  intros Ut HV HF ET Hn Hd Ht Hdl HN. split; [exact HN|].
  cbn [step]. rewrite HV.
  assert (F : find_live_sub (set_subs st (ins s_id s (subs st))) (q_name q) = Some s).
  { unfold find_live_sub. cbn [subs set_subs]. apply find_ins_new.
    - unfold find_live_sub in HF. destruct (find _ (subs st)); [discriminate HF|reflexivity].
    - unfold sub_live. rewrite Hd, Hn. cbn [is_none is_some negb andb]. apply String.eqb_refl. }
  rewrite F. cbn [r_resp done]. f_equal. rewrite <- HN. unfold view_sub. rewrite Ht.
  change (render_topic_name (set_subs st (ins s_id s (subs st)))) with (render_topic_name st).
  rewrite (render_live st (q_topic q) t Ut ET).
  destruct (s_dl_topic s) as [d|] eqn:ED; [rewrite (Hdl d eq_refl)|]; reflexivity.
Qed.

Ltac if_disc :=
  match goal with |- context [if ?c then fail _ _ else _] =>
    destruct c eqn:?; [let A := fresh "A" in intros A; discriminate A|] end.

(* Create then Get returns the normalised configuration: the response of Create itself,
   and a GetSubscription in the resulting state *)
Theorem create_get st now now' q fresh w v :
  ids_unique st -> legal st now (CreateSub q fresh w) ->
  answer st now (CreateSub q fresh w) = RSub v ->
  (forall t, find_live_topic st (q_topic q) = Some t -> t_name t = q_topic q) ->
  v = normalise q (q_topic q) /\
  answer (post st now (CreateSub q fresh w)) now' (GetSub (q_name q)) = RSub (normalise q (q_topic q)).
Proof.
  intros U _ A _. unfold answer, post in *.
  change (step st now (CreateSub q fresh w)) with (create_sub st q fresh w) in *.
  assert (Ut : NoDup (map t_id (topics st))) by apply U. clear U.
  assert (EMIN : (if 0 <? match q_retry q with Some (a, _) => oz_get a | None => 0 end
                  then Some match q_retry q with Some (a, _) => oz_get a | None => 0 end else None) =
                 match q_retry q with Some (Some a, _) => if 0 <? a then Some a else None | _ => None end).
  { destruct (q_retry q) as [[[a|] b]|]; reflexivity. }
  assert (EMAX : (if 0 <? match q_retry q with Some (_, b) => oz_get b | None => 0 end
                  then Some match q_retry q with Some (_, b) => oz_get b | None => 0 end else None) =
                 match q_retry q with Some (_, Some b) => if 0 <? b then Some b else None | _ => None end).
  { destruct (q_retry q) as [[a [b|]]|]; reflexivity. }
  assert (EPUSH : (if String.eqb match q_push q with Some p => pr_endpoint p | None => "" end ""
                   then None else Some match q_push q with Some p => pr_endpoint p | None => "" end) =
                  match q_push q with
                  | Some p => if String.eqb (pr_endpoint p) "" then None else Some (pr_endpoint p)
                  | None => None end).
  { destruct (q_push q); reflexivity. }
  assert (EFILT : match (if String.eqb (q_filter q) "" then None else Some (q_filter q)) with
                  | Some f => f | None => "" end = q_filter q).
  { destruct (String.eqb_spec (q_filter q) "") as [E|E]; [symmetry; exact E|reflexivity]. }
  revert A. unfold create_sub.
  destruct (q_dl q) as [[tn n]|] eqn:EDL; cbv beta iota zeta.
  all: repeat if_disc.
  all: destruct (find_live_topic st (q_topic q)) as [t|] eqn:ET; [|intros A; discriminate A].
  all: repeat if_disc.
  all: rewrite EMIN, EMAX.
  - assert (EM : ((if n =? 0 then default_dl_attempts else n) =? 0) = false).
    { destruct (n =? 0) eqn:En; [reflexivity|exact En]. }
    assert (ETN : String.eqb tn "" = false).
    { match goal with H : create_sub_panics _ _ _ _ = false |- _ =>
        unfold create_sub_panics in H; rewrite EM in H; destruct (String.eqb tn ""); [|reflexivity];
        cbn [negb Bool.eqb] in H; rewrite orb_true_r in H; discriminate H end. }
    rewrite EM, ETN.
    destruct (find_live_topic st tn) as [dt|] eqn:EDT; [|intros A; discriminate A].
    match goal with |- context [ins s_id ?r (subs st)] => set (s := r) end.
    intros A. cbn [r_resp done] in A. inversion A as [Hv]; clear A. cbn [r_state done].
    apply create_tail with t; try assumption; try reflexivity.
    + subst s; sub_projs. intros d Hd. inversion Hd; subst d. apply render_live; assumption.
    + unfold view_sub, normalise. subst s. sub_projs. rewrite EDL. cbv beta iota zeta.
      f_equal; try reflexivity; try assumption.
      destruct (q_retry q) as [[[a|] [b|]]|];
        repeat match goal with |- context [if ?c then _ else _] => destruct c end; reflexivity.
  - cbn [String.eqb].
    match goal with |- context [ins s_id ?r (subs st)] => set (s := r) end.
    intros A. cbn [r_resp done] in A. inversion A as [Hv]; clear A. cbn [r_state done].
    apply create_tail with t; try assumption; try reflexivity.
    + subst s; sub_projs. intros d Hd. discriminate Hd.
    + unfold view_sub, normalise. subst s. sub_projs. rewrite EDL. cbv beta iota zeta.
      f_equal; try reflexivity; try assumption.
      destruct (q_retry q) as [[[a|] [b|]]|];
        repeat match goal with |- context [if ?c then _ else _] => destruct c end; reflexivity.
Qed.

(* ---- update mask locality ---- *)
(* the fields of a subscription row, by the mask path that may change them *)
Definition field_owner : list (str * (sub -> sub -> Prop)) :=
  [ ("labels", fun a b => s_labels a = s_labels b);
    ("expiration_policy", fun a b => s_ttl a = s_ttl b /\ s_expires a = s_expires b);
    ("message_retention_duration", fun a b => s_msg_ttl a = s_msg_ttl b);
    ("enable_message_ordering", fun a b => s_ordered a = s_ordered b);
    ("retry_policy", fun a b => s_minb a = s_minb b /\ s_maxb a = s_maxb b);
    ("push_config", fun a b => s_push a = s_push b);
    ("filter", fun a b => s_filter a = s_filter b);
    ("dead_letter_policy", fun a b => s_dl_topic a = s_dl_topic b /\ s_max_attempts a = s_max_attempts b) ].

Lemma keeps_field_owner ps a b :
  keeps ps a b -> forall path same, In (path, same) field_owner -> ~ In path ps -> same a b.
Proof.
  intros (K1 & K2 & K3 & K4 & K5 & K6 & K7 & K8 & _) path same Hin Hn.
  unfold field_owner in Hin. cbn [In] in Hin.
  repeat destruct Hin as [Hin|Hin]; try contradiction;
    inversion Hin; subst; cbv beta; auto.
Qed.

(* An update changes only the fields named in its mask: for every field group whose
   path is not in the mask, the row's values are unchanged; name, topic, id, delay and
   deletion state never change; no other row of any table changes. *)
Theorem update_local st now q paths w s s' :
  ids_unique st -> find_live_sub st (q_name q) = Some s ->
  In s' (subs (post st now (UpdateSub q paths w))) -> s_id s' = s_id s ->
  (forall path same, In (path, same) field_owner -> ~ In path paths -> same s s') /\
  s_name s' = s_name s /\ s_topic s' = s_topic s /\ s_delay s' = s_delay s /\ s_deleted s' = s_deleted s.
Proof.
  intros U EF Hin Hid.
  assert (K : keeps paths s s').
  { unfold post in Hin.
    change (step st now (UpdateSub q paths w)) with (update_sub st q paths w) in Hin.
    destruct (update_sub_cases st q paths w) as [[E _]|(s0 & d0 & s2 & d2 & EF' & EU & E)];
      rewrite E in Hin.
    - assert (s' = s) as ->; [|apply keeps_refl].
      destruct U as (_ & Us & _).
      apply (nodup_key_inj s_id (subs st)); auto.
      eapply find_live_sub_some; exact EF.
    - rewrite EF in EF'. inversion EF'; subst s0. cbn [set_subs subs] in Hin.
      apply in_upd_const in Hin; [|exact Hid]. subst s'.
      eapply upd_paths_keeps; exact EU. }
  split; [apply keeps_field_owner; exact K|].
  destruct K as (_ & _ & _ & _ & _ & _ & _ & _ & K9 & K10 & K11 & K12 & K13). auto.
Qed.

Theorem update_frame st now q paths w :
  let st' := post st now (UpdateSub q paths w) in
  topics st' = topics st /\ msgs st' = msgs st /\ dels st' = dels st /\ snaps st' = snaps st /\
  (forall x, In x (subs st) -> sub_of_name st (q_name q) <> Some (s_id x) -> In x (subs st')).
Proof.
  intros st'. subst st'. unfold post.
  change (step st now (UpdateSub q paths w)) with (update_sub st q paths w).
  destruct (update_sub_cases st q paths w) as [[E _]|(s & d0 & s2 & d2 & EF & EU & E)]; rewrite E.
  - do 4 (split; [reflexivity|]). auto.
  - cbn [set_subs topics msgs dels snaps subs]. do 4 (split; [reflexivity|]).
    intros x Hx Hn. apply in_upd_other; [exact Hx|].
    intros He. apply Hn. unfold sub_of_name. rewrite EF. cbn [option_map]. rewrite He. reflexivity.
Qed.

(* what each named path sets (for an accepted update) *)
Theorem update_sets st now q paths w s s' v :
  ids_unique st -> find_live_sub st (q_name q) = Some s ->
  answer st now (UpdateSub q paths w) = RSub v ->
  In s' (subs (post st now (UpdateSub q paths w))) -> s_id s' = s_id s ->
  (In "labels" paths -> s_labels s' = q_labels q) /\
  (In "expiration_policy" paths ->
     s_ttl s' = (if q_ttl q =? 0 then default_sub_ttl else q_ttl q) /\ s_expires s' = w + s_ttl s') /\
  (In "message_retention_duration" paths -> s_msg_ttl s' = (if q_msg_ttl q =? 0 then default_msg_ttl else q_msg_ttl q)) /\
  (In "enable_message_ordering" paths -> s_ordered s' = q_ordered q) /\
  (In "filter" paths -> s_filter s' = (if String.eqb (q_filter q) "" then None else Some (q_filter q))).
Proof.
  intros U EF A Hin Hid.
  unfold post in Hin. unfold answer in A.
  change (step st now (UpdateSub q paths w)) with (update_sub st q paths w) in Hin, A.
  destruct (update_sub_cases st q paths w) as [[_ E]|(s0 & d0 & s2 & d2 & EF' & EU & E)].
  - exfalso. exact (E v A).
  - rewrite E in Hin. rewrite EF in EF'. inversion EF'; subst s0. cbn [set_subs subs] in Hin.
    apply in_upd_const in Hin; [|exact Hid]. subst s'.
    eapply upd_paths_sets_all; exact EU.
Qed.

Lemma update_rejects st now q paths w p :
  valid_sub_name (q_name q) = true -> (exists s, find_live_sub st (q_name q) = Some s) ->
  In p paths -> (forall acc, exists c, upd_path st q w acc p = inl c) ->
  (exists c, answer st now (UpdateSub q paths w) = RErr c) /\ post st now (UpdateSub q paths w) = st.
Proof.
  intros HV [s EF] Hin Hp. unfold answer, post.
  change (step st now (UpdateSub q paths w)) with (update_sub st q paths w).
  unfold update_sub. rewrite HV. cbn [negb]. rewrite EF.
  match goal with |- context [upd_paths st q w ?acc paths] =>
    destruct (upd_paths_reject st q w p Hp paths Hin acc) as [c Hc]; rewrite Hc end.
  split; [exists c; reflexivity|reflexivity].
Qed.

(* an unknown or unsupported path rejects the whole update: nothing changes *)
Theorem update_bad_path_rejects st now q paths w p :
  valid_sub_name (q_name q) = true -> (exists s, find_live_sub st (q_name q) = Some s) ->
  In p paths ->
  ~ In p ["labels"; "expiration_policy"; "message_retention_duration"; "enable_message_ordering";
          "retry_policy"; "push_config"; "filter"; "dead_letter_policy"] ->
  (exists c, answer st now (UpdateSub q paths w) = RErr c) /\ post st now (UpdateSub q paths w) = st.
Proof.
  intros HV HS Hin Hn.
  apply update_rejects with p; [exact HV|exact HS|exact Hin|].
  intros acc. apply upd_path_rejects_unknown. exact Hn.
Qed.

Ltac fin_fail := split; [eexists; reflexivity|reflexivity].
Ltac if_fail :=
  match goal with |- context [if ?c then fail _ _ else _] => destruct c eqn:?; [fin_fail|] end.

(* an invalid filter is never stored: creation and update reject it and change nothing *)
Theorem bad_filter_never_stored_create st now q fresh w :
  q_filter q <> "" -> filter_parses (q_filter q) = false ->
  (exists c, answer st now (CreateSub q fresh w) = RErr c) /\ post st now (CreateSub q fresh w) = st.
Proof.
  intros Hne Hp. unfold answer, post.
  change (step st now (CreateSub q fresh w)) with (create_sub st q fresh w).
  unfold create_sub. rewrite Hp.
  destruct (String.eqb_spec (q_filter q) "") as [E|_]; [contradiction|]. cbn [negb andb].
  destruct (q_dl q) as [[tn n]|]; cbv beta iota zeta.
  all: repeat if_fail.
  all: destruct (find_live_topic st (q_topic q)); fin_fail.
Qed.

Theorem bad_filter_never_stored_update st now q paths w :
  q_filter q <> "" -> filter_parses (q_filter q) = false -> In "filter" paths ->
  valid_sub_name (q_name q) = true -> (exists s, find_live_sub st (q_name q) = Some s) ->
  (exists c, answer st now (UpdateSub q paths w) = RErr c) /\ post st now (UpdateSub q paths w) = st.
Proof.
  intros Hne Hp Hin HV HS.
  apply update_rejects with "filter"; [exact HV|exact HS|exact Hin|].
  intros acc. apply upd_path_rejects_filter; assumption.
Qed.

(* topics: labels round-trip *)
Theorem topic_create_get st now now' name labels fresh :
  legal st now (CreateTopic name labels false fresh) -> ids_unique st ->
  answer st now (CreateTopic name labels false fresh) = RTopic name labels ->
  answer (post st now (CreateTopic name labels false fresh)) now' (GetTopic name) = RTopic name labels.
Proof.
  intros _ _. unfold answer, post. cbn [step].
  destruct (negb (valid_topic_name name)) eqn:EV; [intros A; discriminate A|].
  destruct (is_some (find_live_topic st name)) eqn:EF; [intros A; discriminate A|].
  intros _. cbn [r_state done].
  assert (F : find_live_topic (set_topics st (ins t_id (mkTopic fresh name None labels) (topics st))) name
              = Some (mkTopic fresh name None labels)).
  { unfold find_live_topic. cbn [topics set_topics]. apply find_ins_new.
    - unfold find_live_topic in EF. destruct (find _ (topics st)); [discriminate EF|reflexivity].
    - cbn [t_deleted t_name topic_live is_none is_some negb andb]. apply String.eqb_refl. }
  rewrite F. reflexivity.
Qed.

Print Assumptions create_get.
Print Assumptions update_local.
Print Assumptions update_sets.
Print Assumptions update_frame.
Print Assumptions update_bad_path_rejects.
Print Assumptions bad_filter_never_stored_create.
Print Assumptions bad_filter_never_stored_update.
Print Assumptions topic_create_get.
