(* Bus/View.v -- what clients can observe of a state (no proofs): used by the C15 theorems
   (a prune job leaves it unchanged) and, through [check_prune_steps], as an executable
   monitor on observed implementation steps. *)
From MB Require Import Base.
From MB.Bus Require Import State Ops Step Check.
Local Open Scope string_scope.
Open Scope list_scope.
Open Scope Z_scope.

Definition is_prune (j : job) : bool :=
  match j with
  | JPruneCompletedDeliveries | JPruneExpiredDeliveries | JPruneCompletedMessages
  | JPruneDeletedSubDeliveries | JPruneDeletedSubs | JPruneDeletedTopics => true
  | _ => false
  end.

(* ---- what clients can observe ---- *)
(* an outstanding delivery as a client sees it: its ack id, message content, attempt
   count, deadlines, and whether ordering currently holds it back *)
Record odel := mkOdel {
  o_id : id; o_sub : id; o_msg : option msg; o_attempts : Z; o_attempt_at : time; o_expires : time;
  o_published : time; o_blocked : bool }.

Definition view_del (st : state) (now : time) (d : del) : odel :=
  mkOdel (d_id d) (d_sub d) (get_msg st (d_msg d)) (d_attempts d) (d_attempt_at d) (d_expires d) (d_published d)
         (match get_sub st (d_sub d) with Some s => s_ordered s && pred_blocks st now d | None => false end).

Definition snap_visible (st : state) (n : snap) : bool :=
  match get_topic st (n_topic n) with
  | Some t => topic_live t
  | None => false
  end.

Record view := mkView {
  v_topics : list topic;              (* live topics *)
  v_subs : list sub;                  (* live subscriptions, full configuration *)
  v_dltopic_names : list (id * str);  (* how each live subscription's dead-letter topic renders *)
  v_topic_names : list (id * str);    (* how each live subscription's topic renders *)
  v_snaps : list snap;                (* snapshots of live topics (DeleteTopic removes a topic's snapshots) *)
  v_dels : list odel }.               (* outstanding deliveries *)

Definition dl_names (st : state) (ss : list sub) : list (id * str) :=
  flat_map (fun s => match s_dl_topic s with
                     | Some t => [(s_id s, render_topic_name st t)]
                     | None => []
                     end) ss.

Definition view_of (st : state) (now : time) : view :=
  mkView (filter topic_live (topics st))
         (filter sub_live (subs st))
         (dl_names st (filter sub_live (subs st)))
         (map (fun s => (s_id s, render_topic_name st (s_topic s))) (filter sub_live (subs st)))
         (filter (snap_visible st) (snaps st))
         (map (view_del st now) (filter (outstanding st now) (dels st))).


(* ---- executable comparison, for the monitor ---- *)
Definition odel_eqb (a b : odel) : bool :=
  N.eqb (o_id a) (o_id b) && N.eqb (o_sub a) (o_sub b) && opt_eqb msg_eqb (o_msg a) (o_msg b) &&
  Z.eqb (o_attempts a) (o_attempts b) && Z.eqb (o_attempt_at a) (o_attempt_at b) &&
  Z.eqb (o_expires a) (o_expires b) && Z.eqb (o_published a) (o_published b) &&
  Bool.eqb (o_blocked a) (o_blocked b).

Definition view_eqb (a b : view) : bool :=
  list_eqb topic_eqb (v_topics a) (v_topics b) && list_eqb sub_eqb (v_subs a) (v_subs b) &&
  list_eqb (pair_eqb N.eqb String.eqb) (v_dltopic_names a) (v_dltopic_names b) &&
  list_eqb (pair_eqb N.eqb String.eqb) (v_topic_names a) (v_topic_names b) &&
  list_eqb snap_eqb (v_snaps a) (v_snaps b) && list_eqb odel_eqb (v_dels a) (v_dels b).

(* the monitor: indices of the observed steps at which a committed prune job changed the
   client-visible view of the implementation's own state *)
Definition prune_step_visible (pre : state) (o : obs) : bool :=
  match o_op o with
  | Job j _ _ _ false _ _ =>
      is_prune j && negb (o_skip o) && negb (view_eqb (view_of (o_post o) (o_lo o)) (view_of pre (o_lo o)))
  | _ => false
  end.
Fixpoint prune_visible_from (pre : state) (i : nat) (h : list obs) : list nat :=
  match h with
  | [] => []
  | o :: r => (if prune_step_visible pre o then [i] else []) ++ prune_visible_from (o_post o) (S i) r
  end.
Definition check_prune_steps (h : list obs) : list nat := prune_visible_from empty_state O h.
