(* Bus/L02_Evo.v -- how the delivery table evolves inside one step: rows of the old table
   are kept, or rewritten in place (same id / subscription / message) if their
   subscription is touched, and new rows have fresh ids and a provenance (used by T_C02). *)
From MB Require Import Base.
From MB.Bus Require Import State Ops Step Defs L02_Lists L02_Frame.
Local Open Scope string_scope.
Open Scope list_scope.
Open Scope Z_scope.

Section Evo.
  Variables (P : del -> Prop) (T : id -> Prop) (D0 : list del).
  Hypothesis ND0 : NoDup (map d_id D0).

  Definition evo (D : list del) : Prop :=
    (forall x, In x D ->
       In x D0 \/
       (exists c, In c D0 /\ d_id c = d_id x /\ d_sub c = d_sub x /\ d_msg c = d_msg x /\ T (d_sub c)) \/
       (~ In (d_id x) (map d_id D0) /\ P x)) /\
    (forall c, In c D0 -> In c D \/ T (d_sub c)) /\
    (forall c, In c D0 -> In (d_id c) (map d_id D)).

  Lemma evo_refl : evo D0.
  Proof.
    split; [intros x Hx; left; exact Hx|]. split; [intros c Hc; left; exact Hc|].
    intros c Hc. apply in_map. exact Hc.
  Qed.

  Lemma evo_row D x c :
    evo D -> In x D -> In c D0 -> d_id c = d_id x -> d_sub c = d_sub x /\ d_msg c = d_msg x.
  Proof.
    intros (H1 & _ & _) Hx Hc Hid.
    destruct (H1 x Hx) as [Hx0|[(c' & Hc' & Hi' & Hs' & Hm' & _)|[Hn _]]].
    - assert (c = x) by (eapply key_inj_nodup; [exact ND0|exact Hc|exact Hx0|exact Hid]).
      subst. split; reflexivity.
    - assert (c = c') by (eapply key_inj_nodup; [exact ND0|exact Hc|exact Hc'|congruence]).
      subst. split; assumption.
    - exfalso. apply Hn. rewrite <- Hid. apply in_map. exact Hc.
  Qed.

  Lemma evo_upd D (p : del -> bool) (f : del -> del) :
    evo D ->
    (forall x, d_id (f x) = d_id x /\ d_sub (f x) = d_sub x /\ d_msg (f x) = d_msg x) ->
    (forall x, In x D -> p x = true -> exists c, In c D0 /\ d_id c = d_id x /\ T (d_sub c)) ->
    evo (upd_where p f D).
  Proof.
    intros (H1 & H2 & H3) Hf Hp. split; [|split].
    - intros x' Hx'. apply in_upd_where in Hx'. destruct Hx' as (x & Hx & ->).
      destruct (p x) eqn:Epx; [|apply H1; exact Hx].
      destruct (Hp x Hx Epx) as (c0 & Hc0 & Hi0 & HT0).
      destruct (Hf x) as (Hfi & Hfs & Hfm).
      destruct (H1 x Hx) as [Hx0|[(c' & Hc' & Hi' & Hs' & Hm' & HT')|[Hn _]]].
      + assert (c0 = x) by (eapply key_inj_nodup; [exact ND0|exact Hc0|exact Hx0|exact Hi0]).
        subst c0. right; left. exists x. repeat split; try (symmetry; assumption); assumption.
      + right; left. exists c'. repeat split; try congruence; assumption.
      + exfalso. apply Hn. rewrite <- Hi0. apply in_map. exact Hc0.
    - intros c Hc. destruct (H2 c Hc) as [Hin|HT]; [|right; exact HT].
      destruct (p c) eqn:Epc.
      + destruct (Hp c Hin Epc) as (c0 & Hc0 & Hi0 & HT0).
        assert (c0 = c) by (eapply key_inj_nodup; [exact ND0|exact Hc0|exact Hc|exact Hi0]).
        subst c0. right; exact HT0.
      + left. apply in_upd_where. exists c. rewrite Epc. split; [exact Hin|reflexivity].
    - intros c Hc. rewrite map_key_upd; [apply H3; exact Hc|]. intros r. apply Hf.
  Qed.

  Lemma evo_ins D r :
    evo D -> has_id d_id (d_id r) D = false -> P r -> evo (ins d_id r D).
  Proof.
    intros (H1 & H2 & H3) Hfresh HP. split; [|split].
    - intros x Hx. apply in_ins in Hx. destruct Hx as [->|Hx]; [|apply H1; exact Hx].
      right; right. split; [|exact HP].
      intros Hi. apply in_map_iff in Hi. destruct Hi as (c & Hci & Hc).
      apply has_id_false in Hfresh. apply Hfresh. rewrite <- Hci. apply H3. exact Hc.
    - intros c Hc. destruct (H2 c Hc) as [Hin|HT]; [left|right; exact HT].
      apply in_ins. right; exact Hin.
    - intros c Hc. specialize (H3 c Hc). apply in_map_iff in H3. destruct H3 as (x & Hxi & Hx).
      rewrite <- Hxi. apply in_map. apply in_ins. right; exact Hx.
  Qed.
End Evo.

Lemma evo_weaken (P P' : del -> Prop) (T T' : id -> Prop) D0 D :
  (forall x, P x -> P' x) -> (forall i, T i -> T' i) -> evo P T D0 D -> evo P' T' D0 D.
Proof.
  intros HP HT (H1 & H2 & H3). split; [|split].
  - intros x Hx. destruct (H1 x Hx) as [H|[(c & Hc & Hi & Hs & Hm & Ht)|[Hn Hp]]].
    + left; exact H.
    + right; left. exists c. repeat split; try assumption. apply HT; exact Ht.
    + right; right. split; [exact Hn|apply HP; exact Hp].
  - intros c Hc. destruct (H2 c Hc) as [H|H]; [left; exact H|right; apply HT; exact H].
  - exact H3.
Qed.

(* the modifications of delivery rows all keep id, subscription and message *)
Lemma keep_completed t x :
  d_id (d_set_completed t x) = d_id x /\ d_sub (d_set_completed t x) = d_sub x /\
  d_msg (d_set_completed t x) = d_msg x.
Proof. repeat split. Qed.
Lemma keep_attempt_at t x :
  d_id (d_set_attempt_at t x) = d_id x /\ d_sub (d_set_attempt_at t x) = d_sub x /\
  d_msg (d_set_attempt_at t x) = d_msg x.
Proof. repeat split. Qed.
Lemma keep_lease a b x :
  d_id (d_lease a b x) = d_id x /\ d_sub (d_lease a b x) = d_sub x /\ d_msg (d_lease a b x) = d_msg x.
Proof. repeat split. Qed.
Lemma keep_revive a b x :
  d_id (d_revive a b x) = d_id x /\ d_sub (d_revive a b x) = d_sub x /\ d_msg (d_revive a b x) = d_msg x.
Proof. repeat split. Qed.
Lemma keep_null_link ids x :
  d_id (d_null_link ids x) = d_id x /\ d_sub (d_null_link ids x) = d_sub x /\
  d_msg (d_null_link ids x) = d_msg x.
Proof.
  unfold d_null_link. destruct (d_not_before x) as [p|]; [|repeat split].
  destruct (mem_id p ids); repeat split.
Qed.

(* ---- provenance of a dead-letter forward ---- *)
Definition dlprov (SS : list sub) (MM : list msg) (D0 : list del) (S0 : list sub) (d : del) : Prop :=
  exists s m, In s SS /\ s_id s = d_sub d /\ sub_live s = true /\ In m MM /\ m_id m = d_msg d /\
    filter_accepts (s_filter s) (m_attrs m) = true /\ d_attempts d = 0 /\ d_completed d = None /\
    exists src ssub, In src D0 /\ d_msg src = d_msg d /\ find_id s_id (d_sub src) S0 = Some ssub /\
      full_dl ssub = true /\ s_dl_topic ssub = Some (s_topic s) /\
      max_attempts_of ssub <= d_attempts src.

Ltac nil_app :=
  match goal with Hx : _ ++ _ = [] |- _ => apply app_eq_nil in Hx; destruct Hx as [-> ->] end.

Section Loop.
  Variables (SS : list sub) (MM : list msg) (D0 : list del) (S0 : list sub) (T : id -> Prop).
  Hypothesis ND0 : NoDup (map d_id D0).

  Definition linv (P : del -> Prop) (st : state) : Prop :=
    subs st = SS /\ msgs st = MM /\ evo P T D0 (dels st).

  Lemma deliver_to_sub_linv P st s m now fr st1 fr1 w :
    linv P st ->
    (forall d, d_msg d = m_id m -> d_sub d = s_id s -> d_attempts d = 0 -> d_completed d = None ->
               filter_accepts (s_filter s) (m_attrs m) = true -> P d) ->
    deliver_to_sub st s m now fr = (st1, fr1, w, []) -> linv P st1.
  Proof.
    intros (Hs & Hm & He) HP. unfold deliver_to_sub.
    destruct (filter_accepts (s_filter s) (m_attrs m)) eqn:Ef; cbn [negb].
    2:{ intros H; injection H as H1 H2 H3. subst st1. split; [exact Hs|split; [exact Hm|exact He]]. }
    destruct (take_fresh (m_id m) (s_id s) fr) as [[i|] fr'].
    2:{ intros H; inversion H. }
    intros H. inversion H as [[H1 H2 H3 H4]]. clear H.
    destruct (has_id d_id i (dels st)) eqn:Eh; [discriminate|]. subst st1.
    split; [exact Hs|]. split; [exact Hm|]. cbn [dels].
    apply evo_ins; [exact He|exact Eh|]. apply HP; reflexivity || exact Ef.
  Qed.

  Lemma deliver_to_subs_linv P ss : forall st m now fr st1 fr1 w n,
    linv P st ->
    (forall s d, In s ss -> d_msg d = m_id m -> d_sub d = s_id s -> d_attempts d = 0 ->
                 d_completed d = None -> filter_accepts (s_filter s) (m_attrs m) = true -> P d) ->
    deliver_to_subs st ss m now fr = (st1, fr1, w, n) -> n = [] -> linv P st1.
  Proof.
    induction ss as [|s r IH]; intros st m now fr st1 fr1 w n Hl HP; cbn [deliver_to_subs].
    - intros H _; inversion H; subst. exact Hl.
    - destruct (deliver_to_sub st s m now fr) as [[[sa fa] wa] na] eqn:Ea.
      destruct (deliver_to_subs sa r m now fa) as [[[sb fb] wb] nb] eqn:Eb.
      intros H Hn; subst n; inversion H; subst. nil_app.
      eapply IH; [| |exact Eb|reflexivity].
      + eapply deliver_to_sub_linv; [exact Hl| |exact Ea].
        intros d. apply HP. left; reflexivity.
      + intros s' d Hs'. apply HP. right; exact Hs'.
  Qed.

  Definition dl_ok (d : del) (dlt : id) : Prop :=
    exists c, In c D0 /\ d_id c = d_id d /\ d_sub c = d_sub d /\ d_msg c = d_msg d /\ T (d_sub c) /\
      exists ssub, find_id s_id (d_sub c) S0 = Some ssub /\ full_dl ssub = true /\
                   s_dl_topic ssub = Some dlt /\ max_attempts_of ssub <= d_attempts c.

  Let P := dlprov SS MM D0 S0.

  Lemma dead_letter_linv st d dlt now fr st1 fr1 w :
    linv P st -> dl_ok d dlt ->
    dead_letter st d dlt now fr = (st1, fr1, w, []) -> linv P st1.
  Proof.
    intros Hl (c & Hc & Hci & Hcs & Hcm & HcT & ssub & Hss & Hfull & Hdlt & Hmax).
    unfold dead_letter.
    match goal with |- context [match ?x with (_, _) => _ end] =>
      destruct x as [[[sa fa] wa] na] eqn:Ea end.
    intros H; inversion H; subst. clear H.
    assert (Hla : linv P sa).
    { destruct (get_topic st dlt) as [t|]; [|inversion Ea; subst; exact Hl].
      destruct (topic_live t); [|inversion Ea; subst; exact Hl].
      destruct (live_subs_of st dlt) as [|s0 l0] eqn:Els; [inversion Ea; subst; exact Hl|].
      destruct (get_msg st (d_msg d)) as [m|] eqn:Em; [|inversion Ea].
      eapply deliver_to_subs_linv; [exact Hl| |exact Ea|reflexivity].
      intros s' d' Hs' Hdm Hds Hda Hdc Hfa.
      rewrite <- Els in Hs'. unfold live_subs_of in Hs'. apply filter_In in Hs'.
      destruct Hs' as [Hs'in Hs'p]. apply andb_true_iff in Hs'p. destruct Hs'p as [Hlive Htop].
      apply N.eqb_eq in Htop.
      destruct Hl as (HSS & HMM & _).
      unfold get_msg in Em. apply find_id_some in Em. destruct Em as [Hmin Hmid].
      exists s', m. rewrite <- HSS, <- HMM.
      split; [exact Hs'in|]. split; [symmetry; exact Hds|]. split; [exact Hlive|].
      split; [exact Hmin|]. split; [symmetry; exact Hdm|]. split; [exact Hfa|].
      split; [exact Hda|]. split; [exact Hdc|].
      exists c, ssub. split; [exact Hc|]. split; [congruence|]. split; [exact Hss|].
      split; [exact Hfull|]. split; [rewrite Htop; exact Hdlt|exact Hmax]. }
    destruct Hla as (HSS & HMM & Hev).
    split; [exact HSS|]. split; [exact HMM|]. cbn [set_dels dels].
    apply evo_upd; [exact ND0|exact Hev|intros x; apply keep_completed|].
    intros x Hx Hpx. apply N.eqb_eq in Hpx. exists c. split; [exact Hc|]. split; [congruence|exact HcT].
  Qed.

  Lemma apply_results_linv s cands : forall st first strict bytes maxb now wnow fz fr st2 fr2 ps w,
    linv P st ->
    (forall d, In d cands -> In d D0 /\ T (d_sub d) /\ d_sub d = s_id s) ->
    find_id s_id (s_id s) S0 = Some s ->
    apply_results st s cands first strict bytes maxb now wnow fz fr = (st2, fr2, ps, w, []) ->
    linv P st2.
  Proof.
    induction cands as [|d r IH]; intros st first strict bytes maxb now wnow fz fr st2 fr2 ps w Hl Hc Hs;
      cbn [apply_results].
    - intros H; inversion H; subst. exact Hl.
    - assert (Hcr : forall d, In d r -> In d D0 /\ T (d_sub d) /\ d_sub d = s_id s)
        by (intros d' Hd'; apply Hc; right; exact Hd').
      destruct (Hc d (or_introl eq_refl)) as (Hd0 & HdT & Hds).
      destruct (get_msg st (d_msg d)) as [m|] eqn:Em; [|intros H; inversion H].
      destruct ((strict || negb first) && (maxb <? bytes + m_size m)).
      { intros H. eapply IH; [exact Hl|exact Hcr|exact Hs|exact H]. }
      destruct (full_dl s && (max_attempts_of s <=? d_attempts d)) eqn:Edl.
      { match goal with |- context [match ?x with (_, _) => _ end] =>
          destruct x as [[[sa fa] wa] na] eqn:Ea end.
        destruct (apply_results sa s r false strict bytes maxb now wnow fz fa)
          as [[[[sb fb] pb] wb] nb] eqn:Eb.
        intros H; inversion H as [[H1 H2 H3 H4 H5]]; subst. clear H.
        apply app_eq_nil in H5. destruct H5 as [-> ->].
        eapply IH; [|exact Hcr|exact Hs|exact Eb].
        apply andb_true_iff in Edl. destruct Edl as [Hfull Hmax]. apply Z.leb_le in Hmax.
        destruct (s_dl_topic s) as [dlt|] eqn:Edlt; [|inversion Ea; subst; exact Hl].
        eapply dead_letter_linv; [exact Hl| |exact Ea].
        exists d. repeat (split; [first [reflexivity|assumption]|]).
        exists s. rewrite Hds. repeat (split; [assumption|]). exact Hmax. }
      match goal with |- context [apply_results ?a s r false strict ?b maxb now wnow fz fr] =>
        destruct (apply_results a s r false strict b maxb now wnow fz fr)
          as [[[[sb fb] pb] wb] nb] eqn:Eb end.
      intros H; inversion H as [[H1 H2 H3 H4 H5]]; subst. clear H.
      apply app_eq_nil in H5. destruct H5 as [_ ->].
      eapply IH; [|exact Hcr|exact Hs|exact Eb].
      destruct Hl as (HSS & HMM & Hev).
      split; [exact HSS|]. split; [exact HMM|]. cbn [set_dels dels].
      apply evo_upd; [exact ND0|exact Hev|intros x; apply keep_lease|].
      intros x Hx Hpx. apply N.eqb_eq in Hpx. exists d. split; [exact Hd0|]. split; [congruence|exact HdT].
  Qed.

  Lemma nack_each_linv ds : forall st now wnow fz fr st2 fr2 w n,
    (forall i, find_id s_id i S0 = find_id s_id i SS) -> linv P st ->
    (forall d, In d ds -> In d D0 /\ T (d_sub d)) ->
    nack_each st ds now wnow fz fr = (st2, fr2, w, n) -> n = [] -> linv P st2.
  Proof.
    intros st now wnow fz fr st2 fr2 w n HS0. revert st fr st2 fr2 w n.
    induction ds as [|d r IH]; intros st fr st2 fr2 w n Hl Hc; cbn [nack_each].
    - intros H _; inversion H; subst. exact Hl.
    - assert (Hcr : forall d, In d r -> In d D0 /\ T (d_sub d))
        by (intros d' Hd'; apply Hc; right; exact Hd').
      destruct (Hc d (or_introl eq_refl)) as (Hd0 & HdT).
      destruct (get_sub st (d_sub d)) as [s|] eqn:Es; [|intros H Hn; inversion H; subst; discriminate].
      match goal with |- context [match ?x with (_, _) => _ end] =>
        destruct x as [[[sa fa] wa] na] eqn:Ea end.
      destruct (nack_each sa r now wnow fz fa) as [[[sb fb] wb] nb] eqn:Eb.
      intros H Hn; subst n; inversion H; subst. clear H. nil_app.
      eapply IH; [|exact Hcr|exact Eb|reflexivity].
      destruct (full_dl s && (max_attempts_of s <=? d_attempts d)) eqn:Edl.
      + apply andb_true_iff in Edl. destruct Edl as [Hfull Hmax]. apply Z.leb_le in Hmax.
        destruct (s_dl_topic s) as [dlt|] eqn:Edlt; [|inversion Ea; subst; exact Hl].
        eapply dead_letter_linv; [exact Hl| |exact Ea].
        exists d. repeat (split; [first [reflexivity|assumption]|]).
        exists s. split; [|repeat (split; [assumption|]); exact Hmax].
        destruct Hl as (HSS & _ & _). unfold get_sub in Es. rewrite HSS in Es. rewrite HS0. exact Es.
      + inversion Ea; subst. clear Ea.
        destruct Hl as (HSS & HMM & Hev).
        split; [exact HSS|]. split; [exact HMM|]. cbn [set_dels dels].
        apply evo_upd; [exact ND0|exact Hev|intros x; apply keep_attempt_at|].
        intros x Hx Hpx. apply N.eqb_eq in Hpx. exists d. split; [exact Hd0|]. split; [congruence|exact HdT].
  Qed.

  Lemma sweep_each_linv ds : forall st wnow fr st2 fr2 w n,
    (forall i, find_id s_id i S0 = find_id s_id i SS) -> linv P st ->
    (forall i, In i ds -> exists c, In c D0 /\ d_id c = i /\ T (d_sub c) /\
        exists ssub, find_id s_id (d_sub c) S0 = Some ssub /\ full_dl ssub = true /\
                     max_attempts_of ssub <= d_attempts c) ->
    sweep_each st ds wnow fr = (st2, fr2, w, n) -> n = [] -> linv P st2.
  Proof.
    intros st wnow fr st2 fr2 w n HS0. revert st fr st2 fr2 w n.
    induction ds as [|i r IH]; intros st fr st2 fr2 w n Hl Hc; cbn [sweep_each].
    - intros H _; inversion H; subst. exact Hl.
    - assert (Hcr : forall j, In j r -> exists c, In c D0 /\ d_id c = j /\ T (d_sub c) /\
        exists ssub, find_id s_id (d_sub c) S0 = Some ssub /\ full_dl ssub = true /\
                     max_attempts_of ssub <= d_attempts c)
        by (intros j Hj; apply Hc; right; exact Hj).
      destruct (Hc i (or_introl eq_refl)) as (c & Hc0 & Hci & HcT & ssub & Hss & Hfull & Hmax).
      destruct (get_del st i) as [d|] eqn:Ed; [|intros H Hn; inversion H; subst; discriminate].
      destruct (get_sub st (d_sub d)) as [s|] eqn:Es; [|intros H Hn; inversion H; subst; discriminate].
      destruct (s_dl_topic s) as [dlt|] eqn:Edlt; [|intros H Hn; inversion H; subst; discriminate].
      destruct (dead_letter st d dlt wnow fr) as [[[sa fa] wa] na] eqn:Ea.
      destruct (sweep_each sa r wnow fa) as [[[sb fb] wb] nb] eqn:Eb.
      intros H Hn; subst n; inversion H; subst. clear H. nil_app.
      eapply IH; [|exact Hcr|exact Eb|reflexivity].
      eapply dead_letter_linv; [exact Hl| |exact Ea].
      unfold get_del in Ed. apply find_id_some in Ed. destruct Ed as [Hdin Hdid].
      destruct Hl as (HSS & _ & Hev).
      destruct (evo_row _ _ _ ND0 _ _ _ Hev Hdin Hc0 (eq_sym Hdid)) as [Hsub Hmsg].
      exists c. split; [exact Hc0|]. split; [symmetry; exact Hdid|]. split; [exact Hsub|].
      split; [exact Hmsg|]. split; [exact HcT|].
      exists ssub. split; [exact Hss|]. split; [exact Hfull|]. split; [|exact Hmax].
      unfold get_sub in Es. rewrite HSS, <- HS0, <- Hsub, Hss in Es. inversion Es; subst. exact Edlt.
  Qed.
End Loop.
