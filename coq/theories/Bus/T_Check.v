(* Bus/T_Check.v -- what a CLEAN correspondence check means.

   The harness evaluates [Check.check_history] on what it observed of the implementation
   (for every step: time window, operation with its oracles, response, five-table
   post-state). These theorems state what an empty result certifies, in terms of the model's
   [step]: for every non-skipped step, taken from the OBSERVED state before it,
     - every oracle of the operation is legal (fresh ids, LIMIT choices, jitter, ...),
     - the written times lie in the observed window and increase strictly,
     - the model's response equals the observed response,
     - each of the five tables of the model's post-state agrees with the observed one, row
       by row through the primary key (deliveries up to the predecessor tie of Check.nb_same),
       and neither side has a row the other lacks.
   So an observed history with a clean check IS a run of the model (a step-local forward
   simulation), up to the documented tie. *)
From MB Require Import Base.
From MB.Bus Require Import State Ops Step Defs Check.
Local Open Scope string_scope.
Open Scope list_scope.
Open Scope Z_scope.

Lemma ins_id_not_nil i l : ins_id i l <> [].
Proof.
  induction l as [|x l IH]; cbn [ins_id]; [discriminate|].
  destruct (i <? x)%N; [discriminate|]. destruct (N.eqb i x) eqn:E; [|discriminate].
  (* i = x: the list keeps x *) intros H. discriminate H.
Qed.

Lemma sort_ids_nil l : sort_ids l = [] -> l = [].
Proof.
  destruct l as [|x l]; [reflexivity|]. unfold sort_ids. cbn [fold_right].
  intros H. exfalso. exact (ins_id_not_nil _ _ H).
Qed.

Lemma filter_nil {A} (p : A -> bool) l : filter p l = [] -> forall x, In x l -> p x = false.
Proof.
  induction l as [|y l IH]; cbn [filter]; [intros _ x []|].
  destruct (p y) eqn:E; [discriminate|]. intros H x [<-|Hx]; [exact E|exact (IH H x Hx)].
Qed.

Lemma map_nil {A B} (f : A -> B) l : map f l = [] -> l = [].
Proof. destruct l; [reflexivity|discriminate]. Qed.

Section Agree.
  Context {R : Type} (key : R -> id) (eqb : R -> R -> bool).

  (* the two tables hold the same keys, and rows with the same key are [eqb] *)
  Definition table_agrees (a b : list R) : Prop :=
    (forall r, In r a -> exists r', find_id key (key r) b = Some r' /\ eqb r r' = true) /\
    (forall r', In r' b -> has_id key (key r') a = true).

  Lemma diff_table_nil a b : diff_table key eqb a b = [] -> table_agrees a b.
  Proof.
    unfold diff_table. intros H. apply sort_ids_nil in H. apply app_eq_nil in H. destruct H as [H1 H2].
    apply map_nil in H1. apply map_nil in H2. split.
    - intros r Hr. pose proof (filter_nil _ _ H1 r Hr) as E. cbv beta in E.
      destruct (find_id key (key r) b) as [r'|]; [|discriminate].
      exists r'. split; [reflexivity|]. destruct (eqb r r'); [reflexivity|discriminate].
    - intros r' Hr'. pose proof (filter_nil _ _ H2 r' Hr') as E. cbv beta in E.
      destruct (has_id key (key r') a); [reflexivity|discriminate].
  Qed.
End Agree.

(* ---- the row comparisons are equality ---- *)
Lemma opt_eqb_eq {A} (e : A -> A -> bool) :
  (forall x y, e x y = true -> x = y) -> forall a b, opt_eqb e a b = true -> a = b.
Proof. intros He [x|] [y|]; cbn; try discriminate; [intros H; f_equal; apply He; exact H|reflexivity]. Qed.

Lemma list_eqb_eq {A} (e : A -> A -> bool) :
  (forall x y, e x y = true -> x = y) -> forall a b, list_eqb e a b = true -> a = b.
Proof.
  intros He. induction a as [|x a IH]; intros [|y b]; cbn [list_eqb]; try discriminate; [reflexivity|].
  intros H. apply andb_true_iff in H. destruct H as [H1 H2]. f_equal; [apply He; exact H1|apply IH; exact H2].
Qed.

Lemma N_eqb_eq' x y : N.eqb x y = true -> x = y.   Proof. apply N.eqb_eq. Qed.
Lemma Z_eqb_eq' x y : Z.eqb x y = true -> x = y.   Proof. apply Z.eqb_eq. Qed.
Lemma S_eqb_eq' x y : String.eqb x y = true -> x = y.   Proof. apply String.eqb_eq. Qed.
Lemma B_eqb_eq' x y : Bool.eqb x y = true -> x = y.   Proof. apply Bool.eqb_prop. Qed.

Lemma smap_eqb_eq a b : smap_eqb a b = true -> a = b.
Proof.
  apply list_eqb_eq. intros [x1 x2] [y1 y2]. unfold pair_eqb. cbn [fst snd]. intros H.
  apply andb_true_iff in H. destruct H as [H1 H2]. f_equal; apply S_eqb_eq'; assumption.
Qed.
Lemma oz_eqb_eq a b : oz_eqb a b = true -> a = b.   Proof. apply opt_eqb_eq. exact Z_eqb_eq'. Qed.
Lemma on_eqb_eq a b : on_eqb a b = true -> a = b.   Proof. apply opt_eqb_eq. exact N_eqb_eq'. Qed.
Lemma os_eqb_eq a b : os_eqb a b = true -> a = b.   Proof. apply opt_eqb_eq. exact S_eqb_eq'. Qed.

Ltac eqb_all H :=
  repeat match type of H with
         | _ && _ = true => let H' := fresh "E" in apply andb_true_iff in H; destruct H as [H H']
         end.
Ltac eqb_fin :=
  repeat match goal with
         | E : N.eqb _ _ = true |- _ => apply N_eqb_eq' in E
         | E : Z.eqb _ _ = true |- _ => apply Z_eqb_eq' in E
         | E : String.eqb _ _ = true |- _ => apply S_eqb_eq' in E
         | E : Bool.eqb _ _ = true |- _ => apply B_eqb_eq' in E
         | E : oz_eqb _ _ = true |- _ => apply oz_eqb_eq in E
         | E : on_eqb _ _ = true |- _ => apply on_eqb_eq in E
         | E : os_eqb _ _ = true |- _ => apply os_eqb_eq in E
         | E : smap_eqb _ _ = true |- _ => apply smap_eqb_eq in E
         | E : list_eqb N.eqb _ _ = true |- _ => apply (list_eqb_eq N.eqb N_eqb_eq') in E
         end.

Lemma topic_eqb_eq a b : topic_eqb a b = true -> a = b.
Proof.
  destruct a, b. unfold topic_eqb. simpl. intros H. eqb_all H. eqb_fin. subst. reflexivity.
Qed.
Lemma sub_eqb_eq a b : sub_eqb a b = true -> a = b.
Proof.
  destruct a, b. unfold sub_eqb. simpl. intros H. eqb_all H. eqb_fin. subst. reflexivity.
Qed.
Lemma msg_eqb_eq a b : msg_eqb a b = true -> a = b.
Proof.
  destruct a, b. unfold msg_eqb. simpl. intros H. eqb_all H. eqb_fin. subst. reflexivity.
Qed.
Lemma snap_eqb_eq a b : snap_eqb a b = true -> a = b.
Proof.
  destruct a, b. unfold snap_eqb. simpl. intros H. eqb_all H. eqb_fin. subst. reflexivity.
Qed.

(* a delivery row agrees in every column; the predecessor link up to the documented tie *)
Lemma del_eqb_ties_cols post a b : del_eqb_ties post a b = true ->
  d_id a = d_id b /\ d_msg a = d_msg b /\ d_sub a = d_sub b /\ d_published a = d_published b /\
  d_attempt_at a = d_attempt_at b /\ d_attempts a = d_attempts b /\ d_completed a = d_completed b /\
  d_expires a = d_expires b /\ d_last a = d_last b /\
  (d_not_before a = d_not_before b \/ nb_tie post (d_not_before a) (d_not_before b) = true).
Proof.
  unfold del_eqb_ties, nb_same. intros H. eqb_all H.
  match goal with E : _ || _ = true |- _ => apply orb_true_iff in E; destruct E as [E|E] end; eqb_fin;
    repeat split; auto.
Qed.

Lemma nonempty_nil {A} (mk : list A -> mismatch) l : nonempty mk l = [] -> l = [].
Proof. destruct l; [reflexivity|discriminate]. Qed.

Definition rejected (o : obs) : bool := match o_resp o with RErr _ => true | _ => false end.

(* what one clean step certifies *)
Definition step_agrees (pre : state) (o : obs) : Prop :=
  let r := step pre (o_lo o) (o_op o) in
  legal pre (o_lo o) (o_op o) /\
  times_legal (o_lo o) (o_hi o) (o_op o) (rejected o) = true /\
  resp_eqb (r_resp r) (o_resp o) = true /\
  table_agrees t_id topic_eqb (topics (r_state r)) (topics (o_post o)) /\
  table_agrees s_id sub_eqb (subs (r_state r)) (subs (o_post o)) /\
  table_agrees m_id msg_eqb (msgs (r_state r)) (msgs (o_post o)) /\
  table_agrees d_id (del_eqb_ties (o_post o)) (dels (r_state r)) (dels (o_post o)) /\
  table_agrees n_id snap_eqb (snaps (r_state r)) (snaps (o_post o)).

Theorem check_step_sound pre o : check_step pre o = [] -> step_agrees pre o.
Proof.
  unfold check_step, step_agrees, legal, rejected. cbv zeta.
  set (r := step pre (o_lo o) (o_op o)).
  intros H.
  repeat match type of H with _ ++ _ = [] => apply app_eq_nil in H; let H1 := fresh "H" in destruct H as [H1 H] end.
  repeat match goal with
         | H : (if ?c then [] else _) = [] |- _ => destruct c eqn:?; [clear H|discriminate H]
         | H : (if ?c then _ :: _ else []) = [] |- _ => destruct c eqn:?; [discriminate H|clear H]
         | H : nonempty _ _ = [] |- _ => apply nonempty_nil in H
         | H : map MNote _ = [] |- _ => apply map_nil in H
         end.
  refine (conj _ (conj _ (conj _ (conj _ (conj _ (conj _ (conj _ _)))))));
    first [assumption | reflexivity | apply diff_table_nil; assumption].
Qed.

Lemma find_id_in {R} (key : R -> id) i l r : find_id key i l = Some r -> In r l /\ key r = i.
Proof.
  induction l as [|x l IH]; cbn [find_id]; [discriminate|].
  destruct (N.eqb (key x) i) eqn:E.
  - intros H. injection H as <-. split; [left; reflexivity|apply N.eqb_eq; exact E].
  - intros H. destruct (IH H) as [A B]. split; [right; exact A|exact B].
Qed.

Lemma has_id_in_keys {R} (key : R -> id) i l : has_id key i l = true -> In i (map key l).
Proof.
  unfold has_id. destruct (find_id key i l) as [r|] eqn:E; [|discriminate]. intros _.
  destruct (find_id_in _ _ _ _ E) as [A B]. rewrite <- B. apply in_map. exact A.
Qed.

(* with an exact row comparison: the model's rows ARE rows of the observed table, and the
   observed table has no key the model lacks *)
Lemma table_agrees_exact {R} (key : R -> id) (eqb : R -> R -> bool) a b :
  (forall x y, eqb x y = true -> x = y) -> table_agrees key eqb a b ->
  (forall r, In r a -> In r b) /\ (forall r', In r' b -> In (key r') (map key a)).
Proof.
  intros He [A B]. split.
  - intros r Hr. destruct (A r Hr) as [r' [F E]]. apply He in E. subst r'.
    apply (find_id_in _ _ _ _ F).
  - intros r' Hr'. apply has_id_in_keys. apply B. exact Hr'.
Qed.

(* the same, spelled out for the four tables compared exactly, plus the delivery columns *)
Theorem check_step_tables pre o :
  check_step pre o = [] ->
  let m := post pre (o_lo o) (o_op o) in
  let p := o_post o in
  (forall r, In r (topics m) -> In r (topics p)) /\ (forall r, In r (topics p) -> In (t_id r) (map t_id (topics m))) /\
  (forall r, In r (subs m) -> In r (subs p)) /\ (forall r, In r (subs p) -> In (s_id r) (map s_id (subs m))) /\
  (forall r, In r (msgs m) -> In r (msgs p)) /\ (forall r, In r (msgs p) -> In (m_id r) (map m_id (msgs m))) /\
  (forall r, In r (snaps m) -> In r (snaps p)) /\ (forall r, In r (snaps p) -> In (n_id r) (map n_id (snaps m))) /\
  (forall d, In d (dels m) -> exists d', In d' (dels p) /\
     d_id d = d_id d' /\ d_msg d = d_msg d' /\ d_sub d = d_sub d' /\ d_published d = d_published d' /\
     d_attempt_at d = d_attempt_at d' /\ d_attempts d = d_attempts d' /\ d_completed d = d_completed d' /\
     d_expires d = d_expires d' /\ d_last d = d_last d' /\
     (d_not_before d = d_not_before d' \/ nb_tie p (d_not_before d) (d_not_before d') = true)) /\
  (forall d', In d' (dels p) -> In (d_id d') (map d_id (dels m))).
Proof.
  intros H m p. destruct (check_step_sound pre o H) as (_ & _ & _ & T & S & M & D & N).
  fold (post pre (o_lo o) (o_op o)) in T, S, M, D, N. fold m in T, S, M, D, N. fold p in T, S, M, D, N.
  destruct (table_agrees_exact _ _ _ _ topic_eqb_eq T) as [T1 T2].
  destruct (table_agrees_exact _ _ _ _ sub_eqb_eq S) as [S1 S2].
  destruct (table_agrees_exact _ _ _ _ msg_eqb_eq M) as [M1 M2].
  destruct (table_agrees_exact _ _ _ _ snap_eqb_eq N) as [N1 N2].
  refine (conj T1 (conj T2 (conj S1 (conj S2 (conj M1 (conj M2 (conj N1 (conj N2 (conj _ _))))))))).
  - intros d Hd. destruct D as [D1 _]. destruct (D1 d Hd) as [d' [F E]].
    exists d'. split; [apply (find_id_in _ _ _ _ F)|]. apply (del_eqb_ties_cols p). exact E.
  - intros d' Hd'. apply has_id_in_keys. apply D. exact Hd'.
Qed.

(* the observed steps of a history, each with the observed state before it *)
Fixpoint steps_of (pre : state) (h : list obs) : list (state * obs) :=
  match h with
  | [] => []
  | o :: r => (pre, o) :: steps_of (o_post o) r
  end.

Theorem check_from_sound h : forall pre i,
  check_from pre i h = [] ->
  forall p o, In (p, o) (steps_of pre h) -> o_skip o = false -> step_agrees p o.
Proof.
  induction h as [|o r IH]; intros pre i H p o' Hin Hs; cbn [steps_of] in Hin; [contradiction|].
  cbn [check_from] in H.
  destruct (if o_skip o then [] else check_step pre o) eqn:E; [|discriminate].
  destruct Hin as [Eq|Hin].
  - injection Eq as <- <-. rewrite Hs in E. apply check_step_sound. exact E.
  - eapply IH; eassumption.
Qed.

(* a clean check of a whole observed history: every non-skipped step is a model step *)
Theorem check_history_sound h :
  check_history h = [] ->
  forall p o, In (p, o) (steps_of empty_state h) -> o_skip o = false -> step_agrees p o.
Proof. unfold check_history. apply check_from_sound. Qed.

(* ... and the patch-encoded form the harness actually writes *)
Corollary check_built_history_sound l :
  check_history (build l) = [] ->
  forall p o, In (p, o) (steps_of empty_state (build l)) -> o_skip o = false -> step_agrees p o.
Proof. apply check_history_sound. Qed.

Print Assumptions topic_eqb_eq.
Print Assumptions del_eqb_ties_cols.
Print Assumptions check_step_sound.
Print Assumptions check_step_tables.
Print Assumptions check_history_sound.
