(* Bus/T_C01.v -- C01: at-least-once delivery. *)
From MB Require Import Base.
From MB.Bus Require Import State Ops Step Defs T_Inv L01_Tables L01_Ops.
Local Open Scope string_scope.
Open Scope list_scope.
Open Scope Z_scope.

(* ---- Publish creates exactly the rightful deliveries ---- *)
(* the delivery row deliverToSubscription creates for message p on subscription s *)
Definition is_new_delivery (p : pubmsg) (s : sub) (d : del) : Prop :=
  d_msg d = pm_id p /\ d_sub d = s_id s /\ d_published d = pm_now p /\
  d_attempt_at d = pm_now p + s_delay s /\ d_attempts d = 0 /\ d_completed d = None /\
  d_expires d = pm_now p + s_msg_ttl s /\ d_last d = None.

Definition receives (st : state) (t : topic) (p : pubmsg) (s : sub) : Prop :=
  In s (subs st) /\ sub_live s = true /\ s_topic s = t_id t /\
  filter_accepts (s_filter s) (pm_attrs p) = true.

Lemma publish_all_some t ms : forall st fr,
  (forall p, In p ms -> pm_valid p = true) -> publish_all st t ms fr <> None.
Proof.
  induction ms as [|p r IH]; intros st fr Hv; cbn [publish_all]; [discriminate|].
  rewrite (Hv p (or_introl eq_refl)). cbn [negb].
  destruct (publish_one st t p fr) as [[[st1 fr1] w1] n1].
  specialize (IH st1 fr1 (fun q Hq => Hv q (or_intror Hq))).
  destruct (publish_all st1 t r fr1) as [[[[st2 fr2] w2] n2]|]; [discriminate|contradiction].
Qed.

Lemma step_publish_eq st now tname ms fr t :
  valid_topic_name tname = true -> find_live_topic st tname = Some t ->
  step st now (Publish tname ms fr) =
  match publish_all st t ms fr with
  | None => fail st Unknown
  | Some (st', fr', w, n) => done st' (RIds (map pm_id ms)) w (n ++ leftover fr')
  end.
Proof. intros H1 H2. cbv beta iota delta [step]. rewrite H1, H2. reflexivity. Qed.

Lemma receives_iff st t p s :
  receives st t p s <-> In s (filter (accepts (msg_of t p)) (live_subs_of st (t_id t))).
Proof.
  unfold receives, live_subs_of, accepts. cbn [msg_of m_attrs].
  rewrite !filter_In, andb_true_iff, N.eqb_eq. tauto.
Qed.

Lemma live_subs_nodup st tid : ids_unique st -> NoDup (map s_id (live_subs_of st tid)).
Proof. intros [_ [H _]]. unfold live_subs_of. apply nodup_map_filter. exact H. Qed.

Section Publish.
  Variables (st : state) (now : time) (tname : str) (ms : list pubmsg) (fr : fresh_dels) (t : topic).
  Hypothesis Hname : valid_topic_name tname = true.
  Hypothesis Htopic : find_live_topic st tname = Some t.
  Hypothesis Hvalid : forall p, In p ms -> pm_valid p = true.
  Hypothesis Huniq : ids_unique st.
  Hypothesis Hlegal : legal st now (Publish tname ms fr).
  Let st' := post st now (Publish tname ms fr).

  (* the call succeeds and returns the ids of the stored messages, in order *)
  Lemma publish_run : exists st1 fr1 w1,
    publish_all st t ms fr = Some (st1, fr1, w1, []) /\
    step st now (Publish tname ms fr) = mkResult st1 (RIds (map pm_id ms)) w1 (leftover fr1).
  Proof.
    pose proof (step_publish_eq st now tname ms fr t Hname Htopic) as E.
    pose proof (publish_all_some t ms st fr Hvalid) as Hs.
    unfold legal in Hlegal. rewrite E in Hlegal.
    destruct (publish_all st t ms fr) as [[[[st1 fr1] w1] n1]|]; [|contradiction].
    cbn [done r_notes] in Hlegal. apply app_eq_nil in Hlegal. destruct Hlegal as [N1 N2].
    subst n1. exists st1, fr1, w1. split; [reflexivity|]. rewrite E. unfold done. rewrite N2. reflexivity.
  Qed.

  (* the structure of the post-state *)
  Lemma publish_structure :
    topics st' = topics st /\ subs st' = subs st /\ snaps st' = snaps st /\
    (forall m, In m (msgs st') <-> In m (map (msg_of t) ms) \/ In m (msgs st)) /\
    wakes st now (Publish tname ms fr) =
      flat_map (fun p => map s_id (filter (accepts (msg_of t p)) (live_subs_of st (t_id t)))) ms /\
    exists groups, (forall d, In d (dels st') <-> In d (concat groups) \/ In d (dels st)) /\
                   Forall2 (group_ok t (live_subs_of st (t_id t))) ms groups.
  Proof.
    destruct publish_run as [st1 [fr1 [w1 [HP HS]]]].
    unfold st', post, wakes. rewrite HS. cbn [r_state r_wakes].
    exact (publish_all_spec t _ ms st fr st1 fr1 w1 [] HP eq_refl eq_refl).
  Qed.

  Theorem publish_answer : answer st now (Publish tname ms fr) = RIds (map pm_id ms).
  Proof.
    destruct publish_run as [st1 [fr1 [w1 [HP HS]]]]. unfold answer. rewrite HS. reflexivity.
  Qed.

  (* every message of the batch is stored with its content *)
  Theorem publish_stores p : In p ms ->
    exists m, In m (msgs st') /\ m_id m = pm_id p /\ m_topic m = t_id t /\ m_published m = pm_now p /\
              m_attrs m = pm_attrs p /\ m_payload m = pm_payload p /\
              m_key m = (if String.eqb (pm_key p) "" then None else Some (pm_key p)).
  Proof.
    intros Hp. destruct publish_structure as [_ [_ [_ [HM _]]]].
    exists (msg_of t p). split; [apply HM; left; apply in_map; exact Hp|].
    cbn. repeat split; reflexivity.
  Qed.

  (* ... and delivered on every live subscription of the topic whose filter accepts it *)
  Theorem publish_delivers p s : In p ms -> receives st t p s ->
    exists d, In d (dels st') /\ is_new_delivery p s d.
  Proof.
    intros Hp Hr. destruct publish_structure as [_ [_ [_ [_ [_ [groups [HD HG]]]]]]].
    apply receives_iff in Hr.
    destruct (groups_exists _ _ _ _ _ _ HG Hp Hr) as [d [Hd R]].
    exists d. split; [apply HD; left; exact Hd|exact R].
  Qed.

  (* nothing else is created: every new delivery row is such a delivery *)
  Theorem publish_only_rightful d : In d (dels st') -> ~ In d (dels st) ->
    exists p s, In p ms /\ receives st t p s /\ is_new_delivery p s d.
  Proof.
    intros Hd Hn. destruct publish_structure as [_ [_ [_ [_ [_ [groups [HD HG]]]]]]].
    apply HD in Hd. destruct Hd as [Hd|Hd]; [|contradiction].
    destruct (groups_only _ _ _ _ _ HG Hd) as [p [s [Hp [Hs R]]]].
    exists p, s. split; [exact Hp|]. split; [apply receives_iff; exact Hs|exact R].
  Qed.

  (* exactly one per (message, subscription) *)
  Theorem publish_once d1 d2 : In d1 (dels st') -> In d2 (dels st') -> ~ In d1 (dels st) -> ~ In d2 (dels st) ->
    NoDup (map pm_id ms) ->
    d_msg d1 = d_msg d2 -> d_sub d1 = d_sub d2 -> d1 = d2.
  Proof.
    intros H1 H2 N1 N2 ND Em Es. destruct publish_structure as [_ [_ [_ [_ [_ [groups [HD HG]]]]]]].
    apply HD in H1. destruct H1 as [H1|H1]; [|contradiction].
    apply HD in H2. destruct H2 as [H2|H2]; [|contradiction].
    eapply groups_once; try eassumption. apply live_subs_nodup. exact Huniq.
  Qed.

  (* frame: no existing row of any table is changed or removed *)
  Theorem publish_frame :
    topics st' = topics st /\ subs st' = subs st /\ snaps st' = snaps st /\
    (forall d, In d (dels st) -> In d (dels st')) /\ (forall m, In m (msgs st) -> In m (msgs st')).
  Proof.
    destruct publish_structure as [A1 [A2 [A3 [HM [_ [groups [HD _]]]]]]].
    repeat split; try assumption.
    - intros d Hd. apply HD. right; exact Hd.
    - intros m Hm. apply HM. right; exact Hm.
  Qed.

  (* every receiving subscription is woken *)
  Theorem publish_wakes p s : In p ms -> receives st t p s -> In (s_id s) (wakes st now (Publish tname ms fr)).
  Proof.
    intros Hp Hr. destruct publish_structure as [_ [_ [_ [_ [HW _]]]]]. rewrite HW.
    apply receives_iff in Hr. apply in_flat_map. exists p. split; [exact Hp|].
    apply in_map. exact Hr.
  Qed.
End Publish.

(* ---- nothing but a rightful cause ends a delivery's being outstanding ---- *)
Definition dl_due (st : state) (d : del) : bool :=
  match get_sub st (d_sub d) with
  | Some s => full_dl s && (max_attempts_of s <=? d_attempts d)
  | None => false
  end.

Definition names_sub (st : state) (name : str) (d : del) : bool :=
  match sub_of_name st name with Some i => N.eqb i (d_sub d) | None => false end.

(* the rightful causes: acknowledged; dead-lettered (only when due: attempts >= N with a
   full dead-letter policy); a seek on, or the deletion / expiry of, its subscription *)
Definition cause (st : state) (o : op) (d : del) : bool :=
  match o with
  | Ack _ (Some ids) _ => mem_id (d_id d) ids
  | StreamAckNack acks nacks _ _ _ => mem_id (d_id d) acks || (mem_id (d_id d) nacks && dl_due st d)
  | Pull name _ returned others _ _ _ => names_sub st name d && mem_id (d_id d) (returned ++ others) && dl_due st d
  | SeekTime name _ _ | SeekSnap name _ _ => names_sub st name d
  | DeleteSub name _ => names_sub st name d
  | Job JExpireSubs _ _ chosen _ _ _ => mem_id (d_sub d) chosen
  | Job JDeadLetterSweep _ _ chosen _ _ _ => mem_id (d_id d) chosen && dl_due st d
  | _ => false
  end.

(* ---- operations that touch neither deliveries nor subscriptions; shapes of CreateSub / UpdateSub ---- *)
Definition ds_same (st : state) (r : result) : Prop :=
  dels (r_state r) = dels st /\ subs (r_state r) = subs st.

Ltac same_tac :=
  repeat match goal with
         | |- ds_same _ (match ?x with _ => _ end) => destruct x
         | |- ds_same _ (let _ := _ in _) => cbv zeta
         end;
  split; reflexivity.

Lemma step_ds_same st now o :
  match o with
  | CreateTopic _ _ _ _ | GetTopic _ | UpdateTopic _ _ _ | DeleteTopic _ _ | ListTopics _ _ _
  | ListTopicSubs _ _ _ | GetSub _ | ListSubs _ _ _ | SeekNoTarget _ | CreateSnap _ _ _ _ _
  | GetSnap _ | ListSnaps _ _ _ | DeleteSnap _ => True
  | _ => False
  end -> ds_same st (step st now o).
Proof.
  destruct o; intros H; try destruct H; cbv beta iota delta [step]; same_tac.
Qed.

Definition cs_ok (st : state) (fresh : id) (r : result) : Prop :=
  r_state r = st \/
  exists s, s_id s = fresh /\ r_state r = set_subs st (ins s_id s (subs st)) /\
            r_notes r = (if has_id s_id fresh (subs st) then ["subscription-id-not-fresh"%string] else []).

Lemma create_sub_cases st q fresh wnow : cs_ok st fresh (create_sub st q fresh wnow).
Proof.
  unfold create_sub.
  repeat match goal with
         | |- cs_ok _ _ (match ?x with _ => _ end) => destruct x
         | |- cs_ok _ _ (let _ := _ in _) => cbv zeta
         end;
  try (left; reflexivity);
  right; eexists; split; [|split]; cycle 1; [reflexivity|reflexivity|reflexivity].
Qed.

Lemma upd_path_keeps st q wnow s dl t p s' dl' t' :
  upd_path st q wnow (s, dl, t) p = inr (s', dl', t') -> s_id s' = s_id s /\ s_deleted s' = s_deleted s.
Proof.
  unfold upd_path. cbv beta zeta. intros H.
  repeat match type of H with
         | (match ?x with _ => _ end) = _ => destruct x
         end; try discriminate; inv H; split; reflexivity.
Qed.

(* ---- Pull: the shape of a legal step ---- *)
Definition pull_st0 (st : state) (s : sub) (wnow : time) : state :=
  set_subs st (upd_where (fun x => N.eqb (s_id x) (s_id s)) (s_set_expires (wnow + s_ttl s)) (subs st)).
Definition pull_cands (st : state) (obs : list id) : list del := flat_map (optl (get_del st)) obs.

Lemma step_pull_eq st now name max returned others wnow fz fr s :
  valid_sub_name name = true -> (max <? 1) = false -> find_live_sub st name = Some s ->
  step st now (Pull name max returned others wnow fz fr) =
  let '(st1, fr1, ps, w, n) :=
    apply_results (pull_st0 st s wnow) s (pull_cands st (returned ++ others)) true false 0
                  pull_max_bytes now wnow fz fr in
  done st1 (RPull ps) w
       ((if selection_legal st s now max returned others then [] else ["illegal-selection"%string])
        ++ n ++ leftover fr1).
Proof. intros H1 H2 H3. cbv beta iota delta [step]. rewrite H1, H2, H3. reflexivity. Qed.

Lemma step_pull_cases st now name max returned others wnow fz fr :
  (exists c, step st now (Pull name max returned others wnow fz fr) = fail st c) \/
  (exists s, valid_sub_name name = true /\ (max <? 1) = false /\ find_live_sub st name = Some s).
Proof.
  cbv beta iota delta [step].
  destruct (valid_sub_name name); cbn [negb]; [|left; eexists; reflexivity].
  destruct (max <? 1); [left; eexists; reflexivity|].
  destruct (find_live_sub st name) as [s|]; [right; exists s; auto|left; eexists; reflexivity].
Qed.

Lemma pull_run st now name max returned others wnow fz fr s :
  valid_sub_name name = true -> (max <? 1) = false -> find_live_sub st name = Some s ->
  legal st now (Pull name max returned others wnow fz fr) ->
  exists st1 fr1 ps w,
    apply_results (pull_st0 st s wnow) s (pull_cands st (returned ++ others)) true false 0
                  pull_max_bytes now wnow fz fr = (st1, fr1, ps, w, []) /\
    selection_legal st s now max returned others = true /\
    post st now (Pull name max returned others wnow fz fr) = st1 /\
    answer st now (Pull name max returned others wnow fz fr) = RPull ps.
Proof.
  intros H1 H2 H3 HL. unfold legal, post, answer in *.
  rewrite (step_pull_eq _ _ _ _ _ _ _ _ _ s H1 H2 H3) in *.
  destruct (apply_results (pull_st0 st s wnow) s (pull_cands st (returned ++ others)) true false 0
                          pull_max_bytes now wnow fz fr) as [[[[st1 fr1] ps] w] n].
  cbn [done r_notes r_state r_resp] in *.
  apply app_eq_nil in HL. destruct HL as [N0 HL]. apply app_eq_nil in HL. destruct HL as [N1 N2].
  subst n. exists st1, fr1, ps, w. split; [reflexivity|]. split; [|split; reflexivity].
  destruct (selection_legal st s now max returned others); [reflexivity|discriminate].
Qed.

Lemma find_live_sub_some st name s :
  find_live_sub st name = Some s -> In s (subs st) /\ sub_live s = true /\ s_name s = name.
Proof.
  unfold find_live_sub. intros H. apply find_some in H. destruct H as [Hi H].
  apply andb_true_iff in H. destruct H as [Hl Hn]. apply String.eqb_eq in Hn. auto.
Qed.

Lemma get_sub_of_live st name s :
  ids_unique st -> find_live_sub st name = Some s -> get_sub st (s_id s) = Some s.
Proof.
  intros [_ [U _]] H. apply find_live_sub_some in H. destruct H as [Hi _].
  unfold get_sub. apply find_id_nodup; auto.
Qed.

Lemma get_del_of_row st d : ids_unique st -> In d (dels st) -> get_del st (d_id d) = Some d.
Proof. intros [_ [_ [_ [U _]]]] H. unfold get_del. apply find_id_nodup; auto. Qed.

Lemma eligible_facts st s now d :
  eligible st s now d = true ->
  d_sub d = s_id s /\ d_completed d = None /\ now < d_expires d /\ d_attempt_at d <= now.
Proof.
  unfold eligible. rewrite !andb_true_iff. intros [[[[A B] C] D] _].
  apply N.eqb_eq in A. apply Z.ltb_lt in C. apply Z.leb_le in D.
  unfold is_none, is_some in B. destruct (d_completed d); [discriminate|]. auto.
Qed.

(* what a legal selection says about the observed ids *)
Lemma selection_facts st s now max returned others :
  ids_unique st -> selection_legal st s now max returned others = true ->
  NoDup (returned ++ others) /\
  (forall i, In i (returned ++ others) ->
     exists d, get_del st i = Some d /\ In d (dels st) /\ eligible st s now d = true /\ d_id d = i) /\
  Z.of_nat (length (returned ++ others)) =
    Z.min max (Z.of_nat (length (filter (eligible st s now) (dels st)))).
Proof.
  intros U H. unfold selection_legal in H. cbv zeta in H.
  rewrite !andb_true_iff in H. destruct H as [[[[H1 H2] H3] _] _].
  split; [apply nodup_ids_NoDup; exact H1|]. split; [|apply Z.eqb_eq; exact H3].
  apply Nat.eqb_eq in H2.
  intros i Hi.
  destruct (flat_map_opt_full (fun i => find_id d_id i (filter (eligible st s now) (dels st))) _ H2 i Hi)
    as [d Hd].
  apply find_id_some in Hd. destruct Hd as [Hd Hk]. apply filter_In in Hd. destruct Hd as [Hd He].
  exists d. split; [|auto]. rewrite <- Hk. apply get_del_of_row; assumption.
Qed.

Lemma pull_cands_in st obs c :
  In c (pull_cands st obs) <-> exists i, In i obs /\ get_del st i = Some c.
Proof. unfold pull_cands. apply flat_map_opt_in. Qed.

Lemma pull_cands_nodup st obs : NoDup obs -> NoDup (map d_id (pull_cands st obs)).
Proof.
  unfold pull_cands. induction obs as [|i r IH]; intros ND; cbn [flat_map map]; [constructor|].
  apply NoDup_cons_iff in ND. destruct ND as [Hn ND].
  unfold optl at 1. destruct (get_del st i) as [d|] eqn:E; cbn [app]; [|apply IH; exact ND].
  cbn [map]. constructor; [|apply IH; exact ND].
  unfold get_del in E. apply find_id_some in E. destruct E as [_ E]. rewrite E.
  intros Hi. apply in_map_iff in Hi. destruct Hi as [c [Hc Hi]].
  apply flat_map_opt_in in Hi. destruct Hi as [j [Hj Hg]].
  unfold get_del in Hg. apply find_id_some in Hg. destruct Hg as [_ Hg].
  apply Hn. congruence.
Qed.

Lemma pull_cands_rows st obs c : In c (pull_cands st obs) -> In c (dels st) /\ In (d_id c) obs.
Proof.
  intros H. apply pull_cands_in in H. destruct H as [i [Hi Hg]].
  unfold get_del in Hg. apply find_id_some in Hg. destruct Hg as [Hc Hk]. subst i. auto.
Qed.

Lemma dl_due_dlcond st s d : get_sub st (s_id s) = Some s -> d_sub d = s_id s -> dl_due st d = dlcond s d.
Proof. intros G E. unfold dl_due. rewrite E, G. reflexivity. Qed.

(* ---- the subscription of a row stays live; the row itself is kept ---- *)
Definition sub_kept (st st' : state) (sid : id) : Prop :=
  forall s, get_sub st sid = Some s -> sub_live s = true ->
  exists s', get_sub st' sid = Some s' /\ sub_live s' = true.

Definition settled (st st' : state) (d : del) : Prop :=
  (exists d', In d' (dels st') /\ row_kept d d') /\ sub_kept st st' (d_sub d).

Lemma sub_kept_same st st' sid : subs st' = subs st -> sub_kept st st' sid.
Proof. intros E s G L. exists s. unfold get_sub in *. rewrite E. auto. Qed.

Lemma sub_kept_map st st' sid g :
  subs st' = map g (subs st) ->
  (forall x, In x (subs st) ->
     s_id (g x) = s_id x /\ (s_id x = sid -> sub_live x = true -> sub_live (g x) = true)) ->
  sub_kept st st' sid.
Proof.
  intros E H s G L. unfold get_sub in *. rewrite E.
  rewrite find_id_map by (intros x Hx; apply H; exact Hx).
  rewrite G. cbn [option_map]. exists (g s). split; [reflexivity|].
  apply find_id_some in G. destruct G as [Hi Hk]. apply H; assumption.
Qed.

Lemma sub_kept_ins st st' sid s0 :
  subs st' = ins s_id s0 (subs st) -> has_id s_id (s_id s0) (subs st) = false -> sub_kept st st' sid.
Proof.
  intros E Hf s G L. unfold get_sub in *. rewrite E. exists s. split; [|exact L].
  rewrite find_id_ins_other; [exact G|].
  apply find_id_some in G. destruct G as [Hi Hk]. intros E0.
  apply (has_id_false s_id _ _ Hf s Hi). congruence.
Qed.

Lemma sub_kept_del_ids st st' sid ids :
  subs st' = del_ids s_id ids (subs st) ->
  (forall s, In s (subs st) -> s_id s = sid -> sub_live s = true -> ~ In (s_id s) ids) ->
  sub_kept st st' sid.
Proof.
  intros E H s G L. unfold get_sub in *. rewrite E. exists s. split; [|exact L].
  unfold del_ids. apply find_id_filter; [exact G|].
  apply find_id_some in G. destruct G as [Hi Hk].
  apply Bool.negb_true_iff. apply (mem_id_notin (s_id s) ids). apply H; assumption.
Qed.

Lemma settled_same st st' d :
  In d (dels st) -> dels st' = dels st -> subs st' = subs st -> settled st st' d.
Proof.
  intros Hd E1 E2. split; [|apply sub_kept_same; exact E2].
  exists d. rewrite E1. split; [exact Hd|apply row_kept_refl].
Qed.

Lemma settled_ds_same st r d : In d (dels st) -> ds_same st r -> settled st (r_state r) d.
Proof. intros Hd [E1 E2]. apply settled_same; assumption. Qed.

Lemma upd_where_row_kept (p : del -> bool) f l d :
  In d l -> (forall x, row_kept x (f x)) -> exists d', In d' (upd_where p f l) /\ row_kept d d'.
Proof.
  intros Hd Hf. destruct (p d) eqn:E.
  - exists (f d). split; [apply in_upd_where_hit; assumption|apply Hf].
  - exists d. split; [apply in_upd_where_keep; assumption|apply row_kept_refl].
Qed.

Lemma outstanding_facts st now d :
  outstanding st now d = true ->
  d_completed d = None /\ now < d_expires d /\
  exists s, get_sub st (d_sub d) = Some s /\ sub_live s = true.
Proof.
  unfold outstanding. rewrite !andb_true_iff. intros [[A B] C].
  apply Z.ltb_lt in B. unfold is_none, is_some in A.
  destruct (d_completed d); [discriminate|].
  destruct (get_sub st (d_sub d)) as [s|]; [|discriminate]. eauto.
Qed.

Lemma settled_finish st st' now d :
  outstanding st now d = true -> settled st st' d ->
  exists d', In d' (dels st') /\ d_id d' = d_id d /\ d_msg d' = d_msg d /\ d_sub d' = d_sub d /\
             d_completed d' = None /\ d_expires d' = d_expires d /\ d_published d' = d_published d /\
             d_attempts d <= d_attempts d' /\
             outstanding st' now d' = true.
Proof.
  intros Ho [[d' [Hd' K]] SK].
  destruct (outstanding_facts _ _ _ Ho) as [Hc [He [s [Hs Hl]]]].
  destruct K as [K1 [K2 [K3 [K4 [K5 [K6 K7]]]]]].
  destruct (SK s Hs Hl) as [s' [Hs' Hl']].
  exists d'. repeat split; try congruence.
  unfold outstanding. rewrite K4, Hc, K5, K3, Hs', Hl'. cbn [is_none is_some negb andb].
  rewrite andb_true_r. apply Z.ltb_lt. exact He.
Qed.

Lemma names_sub_false st name s d :
  find_live_sub st name = Some s -> names_sub st name d = false -> s_id s <> d_sub d.
Proof.
  unfold names_sub, sub_of_name. intros ->. cbn [option_map]. apply N.eqb_neq.
Qed.

Lemma names_sub_true st name s d :
  find_live_sub st name = Some s -> d_sub d = s_id s -> names_sub st name d = true.
Proof.
  unfold names_sub, sub_of_name. intros -> ->. cbn [option_map]. apply N.eqb_refl.
Qed.

Lemma upd_paths_keeps st q wnow ps : forall s dl t s' dl' t',
  upd_paths st q wnow (s, dl, t) ps = inr (s', dl', t') -> s_id s' = s_id s /\ s_deleted s' = s_deleted s.
Proof.
  induction ps as [|p r IH]; intros s dl t s' dl' t' H; cbn [upd_paths] in H.
  - inv H. auto.
  - destruct (upd_path st q wnow (s, dl, t) p) as [c|[[s1 dl1] t1]] eqn:E; [discriminate|].
    apply upd_path_keeps in E. apply IH in H. destruct E, H. split; congruence.
Qed.

(* rows chosen by a LIMIT over a filtered table *)
Lemma chosen_row {R} (key : R -> id) (P : R -> bool) (l : list R) chosen r :
  NoDup (map key l) -> In r l ->
  (forall i, In i chosen -> In i (map key (filter P l))) -> In (key r) chosen -> P r = true.
Proof.
  intros ND Hr Hc Hi. apply Hc in Hi. apply in_map_iff in Hi. destruct Hi as [x [Hk Hx]].
  apply filter_In in Hx. destruct Hx as [Hx HP].
  assert (x = r) by (apply (nodup_map_inj key l); auto). subst x. exact HP.
Qed.

Lemma choice_legal_incl matching chosen max :
  choice_legal matching chosen max = true -> forall i, In i chosen -> In i matching.
Proof.
  unfold choice_legal. rewrite !andb_true_iff. intros [[_ H] _] i Hi.
  rewrite forallb_forall in H. apply mem_id_in. apply H. exact Hi.
Qed.

(* ---- per-operation settlement ---- *)
Section Settle.
  Variables (st : state) (now : time) (d : del).
  Hypothesis U : ids_unique st.
  Hypothesis Hd : In d (dels st).
  Hypothesis Ho : outstanding st now d = true.

  Lemma settle_publish tname ms fr :
    legal st now (Publish tname ms fr) -> settled st (post st now (Publish tname ms fr)) d.
  Proof.
    unfold legal, post. cbv beta iota delta [step].
    destruct (negb (valid_topic_name tname)); [intros _; apply settled_same; auto|].
    destruct (find_live_topic st tname) as [t|]; [|intros _; apply settled_same; auto].
    destruct (publish_all st t ms fr) as [[[[st1 fr1] w1] n1]|] eqn:E; [|intros _; apply settled_same; auto].
    cbn [done r_notes r_state]. intros HL. apply app_eq_nil in HL. destruct HL as [N1 _].
    destruct (publish_all_spec t _ ms st fr st1 fr1 w1 n1 E N1 eq_refl) as [_ [A2 [_ [_ [_ [groups [HD _]]]]]]].
    split; [|apply sub_kept_same; exact A2].
    exists d. split; [apply HD; right; exact Hd|apply row_kept_refl].
  Qed.

  Lemma settle_create_sub q fresh wnow :
    legal st now (CreateSub q fresh wnow) -> settled st (post st now (CreateSub q fresh wnow)) d.
  Proof.
    unfold legal, post. cbv beta iota delta [step].
    destruct (create_sub_cases st q fresh wnow) as [E|[s [Es [E N]]]].
    - intros _. rewrite E. apply settled_same; auto.
    - intros HL. rewrite N in HL. rewrite E.
      destruct (has_id s_id fresh (subs st)) eqn:Hf; [discriminate|].
      split; [exists d; split; [exact Hd|apply row_kept_refl]|].
      eapply sub_kept_ins; [reflexivity|]. rewrite Es. exact Hf.
  Qed.

  Lemma settle_update_sub q paths wnow :
    settled st (post st now (UpdateSub q paths wnow)) d.
  Proof.
    unfold post. cbv beta iota delta [step]. unfold update_sub.
    destruct (negb (valid_sub_name (q_name q))); [apply settled_same; auto|].
    destruct (find_live_sub st (q_name q)) as [s|] eqn:Hf; [|apply settled_same; auto].
    match goal with |- context [upd_paths st q wnow ?a paths] =>
      destruct (upd_paths st q wnow a paths) as [c|[[s' dl'] t']] eqn:E end;
      [apply settled_same; auto|].
    destruct (negb t'); [apply settled_same; auto|].
    apply upd_paths_keeps in E. destruct E as [E1 E2].
    cbn [done r_state]. split; [exists d; split; [exact Hd|apply row_kept_refl]|].
    eapply sub_kept_map; [reflexivity|].
    intros x Hx. cbv beta. destruct (N.eqb (s_id x) (s_id s)) eqn:Ex; [|auto].
    apply N.eqb_eq in Ex. split; [congruence|].
    intros _ _. apply find_live_sub_some in Hf. destruct Hf as [_ [Hl _]].
    unfold sub_live in *. rewrite E2. exact Hl.
  Qed.

  Lemma settle_sub_rewrite (s : sub) (f : sub -> sub) r w n :
    (forall x, s_id (f x) = s_id x /\ s_deleted (f x) = s_deleted x) ->
    settled st (r_state (done (set_subs st (upd_where (fun x => N.eqb (s_id x) (s_id s)) f (subs st))) r w n)) d.
  Proof.
    intros Hf. cbn [done r_state]. split; [exists d; split; [exact Hd|apply row_kept_refl]|].
    eapply sub_kept_map; [reflexivity|].
    intros x Hx. cbv beta. destruct (N.eqb (s_id x) (s_id s)); [|auto].
    destruct (Hf x) as [F1 F2]. split; [exact F1|]. intros _. unfold sub_live. rewrite F2. auto.
  Qed.

  Lemma settle_modify_push name p : settled st (post st now (ModifyPush name p)) d.
  Proof.
    unfold post. cbv beta iota delta [step].
    destruct (negb (valid_sub_name name)); [apply settled_same; auto|].
    destruct (validate_push p); [apply settled_same; auto|].
    destruct (find_live_sub st name) as [s|]; [|apply settled_same; auto].
    apply settle_sub_rewrite. intros x. split; reflexivity.
  Qed.

  Lemma settle_set_delay name delay : settled st (post st now (SetDelay name delay)) d.
  Proof.
    unfold post. cbv beta iota delta [step].
    destruct (find_live_sub st name) as [s|]; [|apply settled_same; auto].
    apply settle_sub_rewrite. intros x. split; reflexivity.
  Qed.

  (* a subscription rewrite that spares the row's own subscription *)
  Lemma settle_sub_spare (p : sub -> bool) (f : sub -> sub) r w n :
    (forall x, s_id (f x) = s_id x) ->
    (forall x, In x (subs st) -> s_id x = d_sub d -> p x = false) ->
    settled st (r_state (done (set_subs st (upd_where p f (subs st))) r w n)) d.
  Proof.
    intros Hf Hp. cbn [done r_state]. split; [exists d; split; [exact Hd|apply row_kept_refl]|].
    eapply sub_kept_map; [reflexivity|].
    intros x Hx. cbv beta. destruct (p x) eqn:E; [|auto].
    split; [apply Hf|]. intros Hk. rewrite (Hp x Hx Hk) in E. discriminate.
  Qed.

  Lemma settle_delete_sub name wnow :
    cause st (DeleteSub name wnow) d = false -> settled st (post st now (DeleteSub name wnow)) d.
  Proof.
    cbn [cause]. intros Hc. unfold post. cbv beta iota delta [step].
    destruct (negb (valid_sub_name name)); [apply settled_same; auto|].
    destruct (find_live_sub st name) as [s|] eqn:Hf; [|apply settled_same; auto].
    apply settle_sub_spare; [reflexivity|].
    intros x _ Hk. apply N.eqb_neq. rewrite Hk. intros E.
    exact (names_sub_false _ _ _ _ Hf Hc (eq_sym E)).
  Qed.

  Lemma settle_dels_upd (p : del -> bool) f r w n :
    (forall x, row_kept x (f x)) ->
    settled st (r_state (done (set_dels st (upd_where p f (dels st))) r w n)) d.
  Proof.
    intros Hf. cbn [done r_state]. split; [|apply sub_kept_same; reflexivity].
    cbn [set_dels dels]. apply upd_where_row_kept; assumption.
  Qed.

  Lemma settle_modack name ids seconds wnow : settled st (post st now (ModAck name ids seconds wnow)) d.
  Proof.
    unfold post. cbv beta iota delta [step].
    destruct (negb (valid_sub_name name)); [apply settled_same; auto|].
    destruct ids as [ids|]; [|apply settled_same; auto].
    unfold do_delay. cbv zeta. destruct (seconds * sec <=? 0); cbv beta iota;
      apply settle_dels_upd; intros x; apply row_kept_attempt_at.
  Qed.

  Lemma settle_dels_spare (p : del -> bool) f r w n :
    p d = false ->
    settled st (r_state (done (set_dels st (upd_where p f (dels st))) r w n)) d.
  Proof.
    intros Hp. cbn [done r_state]. split; [|apply sub_kept_same; reflexivity].
    cbn [set_dels dels]. exists d. split; [apply in_upd_where_keep; assumption|apply row_kept_refl].
  Qed.

  Lemma settle_ack name ids wnow :
    cause st (Ack name ids wnow) d = false -> settled st (post st now (Ack name ids wnow)) d.
  Proof.
    intros Hc. unfold post. cbv beta iota delta [step].
    destruct (negb (valid_sub_name name)); [apply settled_same; auto|].
    destruct ids as [ids|]; [|apply settled_same; auto].
    cbn [cause] in Hc. unfold do_ack. cbv beta iota.
    apply settle_dels_spare. unfold ack_pred. rewrite Hc. reflexivity.
  Qed.
End Settle.

Section Settle2.
  Variables (st : state) (now : time) (d : del).
  Hypothesis U : ids_unique st.
  Hypothesis Hd : In d (dels st).
  Hypothesis Ho : outstanding st now d = true.

  Lemma settle_seek_time name target wnow :
    cause st (SeekTime name target wnow) d = false -> settled st (post st now (SeekTime name target wnow)) d.
  Proof.
    cbn [cause]. intros Hc. unfold post. cbv beta iota delta [step].
    destruct (negb (valid_sub_name name)); [apply settled_same; auto|].
    destruct (find_live_sub st name) as [s|] eqn:Hf; [|apply settled_same; auto].
    pose proof (names_sub_false _ _ _ _ Hf Hc) as Hne.
    assert (Hs : N.eqb (d_sub d) (s_id s) = false) by (apply N.eqb_neq; congruence).
    unfold seek_time. cbv beta iota zeta. cbn [done r_state].
    split; [|apply sub_kept_same; reflexivity].
    cbn [set_dels dels]. exists d. split; [|apply row_kept_refl].
    apply in_upd_where_keep; [apply in_upd_where_keep; [exact Hd|]|]; rewrite Hs; reflexivity.
  Qed.

  Lemma settle_seek_snap name snapname wnow :
    cause st (SeekSnap name snapname wnow) d = false -> settled st (post st now (SeekSnap name snapname wnow)) d.
  Proof.
    cbn [cause]. intros Hc. unfold post. cbv beta iota delta [step].
    destruct (negb (valid_sub_name name)); [apply settled_same; auto|].
    destruct (negb (valid_snap_name snapname)); [apply settled_same; auto|].
    destruct (find_live_sub st name) as [s|] eqn:Hf; [|apply settled_same; auto].
    destruct (find_snap st snapname) as [n|]; [|apply settled_same; auto].
    pose proof (names_sub_false _ _ _ _ Hf Hc) as Hne.
    assert (Hs : N.eqb (d_sub d) (s_id s) = false) by (apply N.eqb_neq; congruence).
    unfold seek_snap. cbv beta iota zeta. cbn [done r_state].
    split; [|apply sub_kept_same; reflexivity].
    cbn [set_dels dels]. exists d. split; [|apply row_kept_refl].
    apply in_upd_where_keep; [|rewrite Hs; reflexivity].
    destruct (n_acked n).
    - apply in_upd_where_keep; [exact Hd|rewrite Hs; reflexivity].
    - apply in_upd_where_keep; [apply in_upd_where_keep; [exact Hd|]|]; rewrite Hs; reflexivity.
  Qed.

  Lemma settle_pull name max returned others wnow fz fr :
    legal st now (Pull name max returned others wnow fz fr) ->
    cause st (Pull name max returned others wnow fz fr) d = false ->
    settled st (post st now (Pull name max returned others wnow fz fr)) d.
  Proof.
    intros HL Hc.
    destruct (step_pull_cases st now name max returned others wnow fz fr) as [[c E]|[s [Hv [Hm Hf]]]].
    { unfold post. rewrite E. apply settled_same; auto. }
    destruct (pull_run _ _ _ _ _ _ _ _ _ s Hv Hm Hf HL) as [st1 [fr1 [ps [w0 [HA [Hsel [Hpost _]]]]]]].
    destruct (selection_facts _ _ _ _ _ _ U Hsel) as [ND [Hrows _]].
    rewrite Hpost. set (obs := returned ++ others) in *.
    pose proof (apply_results_frame _ _ _ _ _ _ _ _ _ _ _ _ _ _ _ _ HA) as [_ [F2 _]].
    split.
    - eapply apply_results_kept; [exact HA|exact Hd|].
      intros c Hcc Hid. apply pull_cands_rows in Hcc. destruct Hcc as [Hcd Hco].
      assert (c = d).
      { destruct U as [_ [_ [_ [U' _]]]]. apply (nodup_map_inj d_id (dels st)); auto. }
      subst c.
      destruct (Hrows _ Hco) as [d0 [Hg0 [_ [He0 _]]]].
      rewrite (get_del_of_row _ _ U Hd) in Hg0. injection Hg0 as <-.
      destruct (eligible_facts _ _ _ _ He0) as [Hsub _].
      rewrite <- (dl_due_dlcond st s d (get_sub_of_live _ _ _ U Hf) Hsub).
      cbn [cause] in Hc. rewrite (names_sub_true _ _ _ _ Hf Hsub) in Hc.
      fold obs in Hc. apply mem_id_in in Hco. rewrite Hco in Hc. exact Hc.
    - eapply sub_kept_map; [rewrite F2; reflexivity|].
      intros x Hx. cbv beta. destruct (N.eqb (s_id x) (s_id s)); auto.
  Qed.

  Lemma settle_stream acks nacks wnow fz fr :
    cause st (StreamAckNack acks nacks wnow fz fr) d = false ->
    settled st (post st now (StreamAckNack acks nacks wnow fz fr)) d.
  Proof.
    cbn [cause]. intros Hc. apply orb_false_iff in Hc. destruct Hc as [Hc1 Hc2].
    unfold post. cbv beta iota delta [step]. unfold do_ack, do_nack. cbv beta iota zeta.
    set (st1 := set_dels st (upd_where (ack_pred acks) (d_set_completed wnow) (dels st))).
    match goal with |- context [nack_each st1 ?ds now wnow fz fr] =>
      set (cands := ds); destruct (nack_each st1 cands now wnow fz fr) as [[[st2 fr2] w2] n2] eqn:E end.
    cbn [done r_state].
    assert (Hd1 : In d (dels st1)).
    { cbn [st1 set_dels dels]. apply in_upd_where_keep; [exact Hd|]. unfold ack_pred. rewrite Hc1. reflexivity. }
    destruct (nack_each_kept _ _ _ _ _ _ _ _ _ _ d E Hd1) as [[_ [F2 _]] K].
    - intros c s0 Hcc Hid Hg. unfold cands in Hcc. apply filter_In in Hcc. destruct Hcc as [Hcd Hcp].
      assert (c = d).
      { apply (nodup_map_inj d_id (dels st1)); auto. cbn [st1 set_dels dels].
        rewrite map_key_upd_where by reflexivity. destruct U as [_ [_ [_ [U' _]]]]. exact U'. }
      subst c. rewrite !andb_true_iff in Hcp. destruct Hcp as [[Hmem _] _].
      rewrite Hmem in Hc2. cbn [andb] in Hc2. unfold dl_due in Hc2.
      change (get_sub st1 (d_sub d)) with (get_sub st (d_sub d)) in Hg. rewrite Hg in Hc2. exact Hc2.
    - split; [exact K|]. apply sub_kept_same. rewrite F2. reflexivity.
  Qed.

  (* ---- background jobs ---- *)
  Lemma prune_dels_settled chosen r w n :
    ~ In (d_id d) chosen ->
    settled st (r_state (done (set_dels st (map (d_null_link chosen) (del_ids d_id chosen (dels st)))) r w n)) d.
  Proof.
    intros Hn. cbn [done r_state]. split; [|apply sub_kept_same; reflexivity].
    cbn [set_dels dels]. exists (d_null_link chosen d). split; [|apply row_kept_null_link].
    apply in_map. apply in_del_ids. auto.
  Qed.

  Lemma settle_job j min_age max chosen failed wnow fr :
    legal st now (Job j min_age max chosen failed wnow fr) ->
    cause st (Job j min_age max chosen failed wnow fr) d = false ->
    settled st (post st now (Job j min_age max chosen failed wnow fr)) d.
  Proof.
    destruct (outstanding_facts _ _ _ Ho) as [Hcomp [Hexp [s [Hs Hl]]]].
    assert (UD : NoDup (map d_id (dels st))) by (destruct U as [_ [_ [_ [U' _]]]]; exact U').
    assert (US : NoDup (map s_id (subs st))) by (destruct U as [_ [U' _]]; exact U').
    unfold legal, post. cbv beta iota delta [step]. unfold run_job. cbv zeta.
    destruct failed.
    { intros _ _. destruct j; apply settled_same; auto. }
    destruct j; cbn [done r_notes]; intros HL Hc.
    - (* JPruneCompletedDeliveries *)
      destruct (choice_legal _ chosen max) eqn:Ech in HL; [|discriminate].
      apply prune_dels_settled. intros Hi.
      pose proof (chosen_row d_id _ _ _ _ UD Hd (choice_legal_incl _ _ _ Ech) Hi) as HP.
      cbv beta in HP. rewrite Hcomp in HP. discriminate.
    - (* JPruneExpiredDeliveries *)
      destruct (choice_legal _ chosen max) eqn:Ech in HL; [|discriminate].
      apply prune_dels_settled. intros Hi.
      pose proof (chosen_row d_id _ _ _ _ UD Hd (choice_legal_incl _ _ _ Ech) Hi) as HP.
      cbv beta in HP. apply Z.ltb_lt in HP. lia.
    - (* JPruneCompletedMessages *)
      apply settled_same; auto.
    - (* JPruneDeletedSubDeliveries *)
      destruct (choice_legal _ chosen max) eqn:Ech in HL; [|discriminate].
      apply prune_dels_settled. intros Hi.
      pose proof (chosen_row d_id _ _ _ _ UD Hd (choice_legal_incl _ _ _ Ech) Hi) as HP.
      cbv beta in HP. rewrite Hs in HP. unfold sub_live, is_none, is_some in Hl.
      destruct (s_deleted s); discriminate.
    - (* JPruneDeletedSubs *)
      destruct (choice_legal _ chosen max) eqn:Ech in HL; [|discriminate].
      cbn [r_state]. split; [exists d; split; [exact Hd|apply row_kept_refl]|].
      eapply sub_kept_del_ids; [reflexivity|].
      intros x Hx Hk Hlx Hi.
      pose proof (chosen_row s_id _ _ _ _ US Hx (choice_legal_incl _ _ _ Ech) Hi) as HP.
      cbv beta in HP. unfold sub_live, is_none, is_some in Hlx.
      destruct (s_deleted x); discriminate.
    - (* JPruneDeletedTopics *)
      destruct (existsb (topic_has_messages st) chosen); [discriminate|].
      cbn [done r_state]. split; [exists d; split; [exact Hd|apply row_kept_refl]|].
      eapply sub_kept_map; [reflexivity|].
      intros x Hx. cbv beta. destruct (s_dl_topic x) as [t|]; [|auto].
      destruct (mem_id t chosen); [|auto].
      split; [reflexivity|intros _ Hlx; exact Hlx].
    - (* JExpireSubs *)
      cbn [cause] in Hc.
      apply settle_sub_spare; try assumption; [reflexivity|].
      intros x _ Hk. rewrite Hk. exact Hc.
    - (* JDeadLetterSweep *)
      destruct (sweep_each st chosen wnow fr) as [[[st1 fr1] w1] n1] eqn:E.
      cbn [done r_notes r_state] in *.
      apply app_eq_nil in HL. destruct HL as [HL _].
      destruct (choice_legal _ chosen max) eqn:Ech in HL; [|discriminate].
      cbn [cause] in Hc.
      assert (Hn : ~ In (d_id d) chosen).
      { intros Hi.
        pose proof (chosen_row d_id _ _ _ _ UD Hd (choice_legal_incl _ _ _ Ech) Hi) as HP.
        cbv beta in HP. rewrite Hs in HP. rewrite !andb_true_iff in HP.
        destruct HP as [[[[[_ P1] P2] _] _] _].
        apply mem_id_in in Hi. rewrite Hi in Hc. cbn [andb] in Hc.
        unfold dl_due in Hc. rewrite Hs, P1, P2 in Hc. discriminate. }
      destruct (sweep_each_untouched _ _ _ _ _ _ _ _ d E Hd Hn) as [[_ [F2 _]] Hd1].
      split; [exists d; split; [exact Hd1|apply row_kept_refl]|].
      apply sub_kept_same. exact F2.
  Qed.
End Settle2.

(* If a delivery is outstanding (uncompleted, unexpired, subscription live) before a legal
   step and no rightful cause applies, then after the step its row is still there, still
   uncompleted, with the same retention deadline, the same message and subscription, and
   its subscription is still live: other subscriptions' acks, other messages, failed
   requests, configuration changes and all prune jobs cannot make it disappear. *)
Theorem only_rightful_settlement st now o d :
  ids_unique st -> legal st now o ->
  In d (dels st) -> outstanding st now d = true -> cause st o d = false ->
  exists d', In d' (dels (post st now o)) /\ d_id d' = d_id d /\ d_msg d' = d_msg d /\ d_sub d' = d_sub d /\
             d_completed d' = None /\ d_expires d' = d_expires d /\ d_published d' = d_published d /\
             d_attempts d <= d_attempts d' /\
             outstanding (post st now o) now d' = true.
Proof.
  intros U HL Hd Ho Hc. apply (settled_finish st); [exact Ho|].
  destruct o;
    try (unfold post; apply settled_ds_same; [exact Hd|apply step_ds_same; exact I]).
  - apply settle_publish; assumption.
  - apply settle_create_sub; assumption.
  - apply settle_update_sub; assumption.
  - apply settle_delete_sub; assumption.
  - apply settle_modack; assumption.
  - apply settle_ack; assumption.
  - apply settle_pull; assumption.
  - apply settle_seek_time; assumption.
  - apply settle_seek_snap; assumption.
  - apply settle_modify_push; assumption.
  - apply settle_stream; assumption.
  - apply settle_set_delay; assumption.
  - apply settle_job; assumption.
Qed.

(* ---- a due delivery is offered ---- *)
(* If a pull's LIMIT does not cut the eligible set, every eligible delivery is selected;
   each selected delivery is either handed out in the response or dead-lettered. *)
Theorem offered st now name max returned others w fz fr s d :
  ids_unique st -> legal st now (Pull name max returned others w fz fr) ->
  valid_sub_name name = true -> 1 <= max -> find_live_sub st name = Some s ->
  In d (dels st) -> eligible st s now d = true ->
  Z.of_nat (length (filter (eligible st s now) (dels st))) <= max ->
  mem_id (d_id d) (returned ++ others) = true.
Proof.
  intros U HL Hv Hmax Hf Hd He Hlen.
  assert (Hm : (max <? 1) = false) by (apply Z.ltb_ge; lia).
  destruct (pull_run _ _ _ _ _ _ _ _ _ s Hv Hm Hf HL) as [st1 [fr1 [ps [w0 [_ [Hsel _]]]]]].
  destruct (selection_facts _ _ _ _ _ _ U Hsel) as [ND [Hrows Hl]].
  set (el := filter (eligible st s now) (dels st)) in *.
  apply mem_id_in.
  assert (Hincl : incl (map d_id el) (returned ++ others)).
  { apply NoDup_length_incl.
    - exact ND.
    - rewrite map_length. rewrite Z.min_r in Hl by exact Hlen. lia.
    - intros i Hi. destruct (Hrows i Hi) as [c [_ [Hc [Hce Hci]]]]. rewrite <- Hci.
      apply in_map. unfold el. apply filter_In. auto. }
  apply Hincl. apply in_map. unfold el. apply filter_In. auto.
Qed.

Theorem selected_is_served st now name max returned others w fz fr s d m :
  ids_unique st -> legal st now (Pull name max returned others w fz fr) ->
  valid_sub_name name = true -> 1 <= max -> find_live_sub st name = Some s ->
  In d (dels st) -> mem_id (d_id d) (returned ++ others) = true ->
  get_msg st (d_msg d) = Some m ->
  (* the 10 MiB budget of a Pull is not the limiting factor *)
  (forall m', In m' (msgs st) ->
              0 <= m_size m' /\ m_size m' * Z.of_nat (length (returned ++ others)) <= pull_max_bytes) ->
  (dl_due st d = true /\
   exists d', In d' (dels (post st now (Pull name max returned others w fz fr))) /\ d_id d' = d_id d /\
              d_completed d' = Some w) \/
  (dl_due st d = false /\
   exists p, In p (pulled_of (answer st now (Pull name max returned others w fz fr))) /\
             p_ack p = d_id d /\ p_msg p = d_msg d /\ p_attempt p = d_attempts d + 1 /\
             p_payload p = m_payload m /\ p_attrs p = m_attrs m).
Proof.
  intros U HL Hv Hmax Hf Hd Hmem Hgm Hbud.
  assert (Hm : (max <? 1) = false) by (apply Z.ltb_ge; lia).
  destruct (pull_run _ _ _ _ _ _ _ _ _ s Hv Hm Hf HL) as [st1 [fr1 [ps [w0 [HA [Hsel [Hpost Hans]]]]]]].
  destruct (selection_facts _ _ _ _ _ _ U Hsel) as [ND [Hrows _]].
  rewrite Hpost, Hans. cbn [pulled_of].
  set (obs := returned ++ others) in *.
  apply mem_id_in in Hmem.
  assert (Hdc : In d (pull_cands st obs)).
  { apply pull_cands_in. exists (d_id d). split; [exact Hmem|apply get_del_of_row; assumption]. }
  destruct (Hrows _ Hmem) as [d0 [Hg0 [_ [He0 _]]]].
  rewrite (get_del_of_row _ _ U Hd) in Hg0. injection Hg0 as <-.
  destruct (eligible_facts _ _ _ _ He0) as [Hsub _].
  rewrite (dl_due_dlcond st s d (get_sub_of_live _ _ _ U Hf) Hsub).
  assert (Hlen : 0 < Z.of_nat (length obs)).
  { destruct obs; [destruct Hmem|cbn [length]; lia]. }
  set (B := pull_max_bytes / Z.of_nat (length obs)).
  assert (HB : 0 <= B) by (apply Z.div_pos; [unfold pull_max_bytes; lia|exact Hlen]).
  assert (HBl : Z.of_nat (length obs) * B <= pull_max_bytes) by (apply Z.mul_div_le; exact Hlen).
  assert (Hcl : (length (pull_cands st obs) <= length obs)%nat) by apply flat_map_opt_len.
  destruct (apply_results_served s pull_max_bytes now w fz B (pull_cands st obs)
              (pull_st0 st s w) true 0 fr st1 fr1 ps w0 [] d m HA eq_refl) as [[A1 A2]|[A1 A2]].
  - apply pull_cands_nodup. exact ND.
  - intros c Hc. apply pull_cands_rows in Hc. cbn [pull_st0 set_subs dels]. tauto.
  - cbn [pull_st0 set_subs msgs]. intros m' Hm'. destruct (Hbud m' Hm') as [Z1 Z2].
    split; [exact Z1|]. apply Z.div_le_lower_bound; [exact Hlen|]. fold obs in Z2. lia.
  - exact HB.
  - nia.
  - exact Hdc.
  - exact Hgm.
  - left. split; [exact A1|]. exists (d_set_completed w d). split; [exact A2|]. cbn. auto.
  - right. split; [exact A1|]. destruct A2 as [p [Hp [P1 [P2 [P3 [P4 P5]]]]]].
    exists p. split; [exact Hp|]. unfold get_msg in Hgm. apply find_id_some in Hgm.
    destruct Hgm as [_ Hgm]. repeat split; congruence.
Qed.

(* a pull never completes a delivery it hands out and only moves attempt_at forward *)
Theorem pull_only_leases st now name max returned others w fz fr d p :
  ids_unique st -> legal st now (Pull name max returned others w fz fr) -> now <= w ->
  In d (dels st) ->
  In p (pulled_of (answer st now (Pull name max returned others w fz fr))) -> p_ack p = d_id d ->
  exists d', In d' (dels (post st now (Pull name max returned others w fz fr))) /\ d_id d' = d_id d /\
             d_completed d' = None /\ d_expires d' = d_expires d /\ d_attempts d' = d_attempts d + 1 /\
             d_attempt_at d <= d_attempt_at d' + float_tol.
Proof.
  intros U HL Hw Hd Hp Hack.
  destruct (step_pull_cases st now name max returned others w fz fr) as [[c E]|[s [Hv [Hm Hf]]]].
  { unfold answer in Hp. rewrite E in Hp. destruct Hp. }
  destruct (pull_run _ _ _ _ _ _ _ _ _ s Hv Hm Hf HL) as [st1 [fr1 [ps [w0 [HA [Hsel [Hpost Hans]]]]]]].
  destruct (selection_facts _ _ _ _ _ _ U Hsel) as [ND [Hrows _]].
  rewrite Hpost. rewrite Hans in Hp. cbn [pulled_of] in Hp.
  set (obs := returned ++ others) in *.
  destruct (apply_results_leased s false pull_max_bytes now w fz (pull_cands st obs)
              (pull_st0 st s w) true 0 fr st1 fr1 ps w0 [] p HA eq_refl) as [c [Hc [Pc [Fz Hin]]]].
  - apply pull_cands_nodup. exact ND.
  - intros c Hc. apply pull_cands_rows in Hc. cbn [pull_st0 set_subs dels]. tauto.
  - exact Hp.
  - destruct (pull_cands_rows _ _ _ Hc) as [Hcd Hco].
    assert (c = d).
    { destruct U as [_ [_ [_ [U _]]]]. apply (nodup_map_inj d_id (dels st)); auto. congruence. }
    subst c.
    destruct (Hrows _ Hco) as [d0 [Hg0 [_ [He0 _]]]].
    rewrite (get_del_of_row _ _ U Hd) in Hg0. injection Hg0 as <-.
    destruct (eligible_facts _ _ _ _ He0) as [_ [Hcomp [_ Hat]]].
    eexists. split; [exact Hin|]. cbn [d_lease d_id d_completed d_expires d_attempts d_attempt_at].
    repeat split; try assumption; try reflexivity.
    pose proof (nominal_delay_nonneg (s_minb s) (s_maxb s) (d_attempts d + 1)) as Hnom.
    unfold fuzz_legal in Fz. rewrite !andb_true_iff in Fz. destruct Fz as [[F1 _] _].
    apply Z.leb_le in F1. lia.
Qed.

(* ---- over histories: an accepted message is never lost ---- *)
(* Along any legal history with non-decreasing clock in which no rightful cause ever
   applies to the delivery, the row stays: uncompleted, same retention deadline,
   subscription live -- so it is outstanding at every instant before its deadline. *)
Theorem C01_never_lost h : forall st t0 d,
  ids_unique st -> all_legal st h -> times_nondecreasing t0 h ->
  In d (dels st) -> d_completed d = None ->
  (match get_sub st (d_sub d) with Some s => sub_live s = true | None => False end) ->
  (forall s now o d0, In (s, now, o) (trace st h) -> In d0 (dels s) -> d_id d0 = d_id d -> now < d_expires d ->
                      cause s o d0 = false) ->
  (forall s now o, In (s, now, o) (trace st h) -> now < d_expires d) ->
  exists d', In d' (dels (run st h)) /\ d_id d' = d_id d /\ d_msg d' = d_msg d /\ d_sub d' = d_sub d /\
             d_completed d' = None /\ d_expires d' = d_expires d /\
             (match get_sub (run st h) (d_sub d) with Some s => sub_live s = true | None => False end).
Proof.
  induction h as [|[now o] r IH]; intros st t0 d U AL TN Hd Hc Hl Hcause Htime.
  - cbn [run]. exists d. repeat split; auto.
  - cbn [run].
    assert (Hin : In (st, now, o) (trace st ((now, o) :: r))) by (left; reflexivity).
    assert (HLg : legal st now o) by (apply AL; exact Hin).
    assert (Hnow : now < d_expires d) by (eapply Htime; exact Hin).
    assert (Hout : outstanding st now d = true).
    { unfold outstanding. rewrite Hc.
      destruct (get_sub st (d_sub d)) as [s|]; [|contradiction]. rewrite Hl.
      apply Z.ltb_lt in Hnow. rewrite Hnow. reflexivity. }
    destruct (only_rightful_settlement st now o d U HLg Hd Hout)
      as [d1 [H1 [K1 [K2 [K3 [K4 [K5 [K6 [K7 K8]]]]]]]]].
    { eapply Hcause; [exact Hin|exact Hd|reflexivity|exact Hnow]. }
    destruct (outstanding_facts _ _ _ K8) as [_ [_ [s1 [Hs1 Hl1]]]].
    destruct TN as [_ TN].
    destruct (IH (post st now o) now d1) as [d' [G1 [G2 [G3 [G4 [G5 [G6 G7]]]]]]].
    + apply step_ids_unique; assumption.
    + intros s n o' Hi. apply AL. right. exact Hi.
    + exact TN.
    + exact H1.
    + exact K4.
    + rewrite Hs1. exact Hl1.
    + intros s n o' d0 Hi Hd0 Hid Hlt.
      eapply Hcause; [right; exact Hi|exact Hd0|congruence|congruence].
    + intros s n o' Hi. rewrite K5. eapply Htime. right; exact Hi.
    + exists d'. rewrite K3 in G7. repeat split; congruence.
Qed.


(* ---- drain: a surviving message is handed out by a pull past its backoff ---- *)
(* The drain phase of the property: after any legal history in which no rightful cause
   applied to the delivery (so it survived, [C01_never_lost]), a pull on its subscription
   - at a time not before the delivery's current attempt deadline and before its retention
     deadline ("past every backoff"),
   - while ordering does not hold it back (unordered subscription, or no active predecessor),
   - whose LIMIT does not cut the eligible set and whose byte budget is not the limit,
   hands the message out, with the payload and attributes it was published with -- or
   dead-letters it when its attempts are used up under a complete dead-letter policy. *)
Theorem C01_drain h st t0 d now name max returned others w fz fr s m :
  ids_unique st -> all_legal st h -> times_nondecreasing t0 h ->
  In d (dels st) -> d_completed d = None ->
  (match get_sub st (d_sub d) with Some s => sub_live s = true | None => False end) ->
  (forall s now o d0, In (s, now, o) (trace st h) -> In d0 (dels s) -> d_id d0 = d_id d -> now < d_expires d ->
                      cause s o d0 = false) ->
  (forall s now o, In (s, now, o) (trace st h) -> now < d_expires d) ->
  let st' := run st h in
  let pull := Pull name max returned others w fz fr in
  legal st' now pull -> valid_sub_name name = true -> 1 <= max ->
  find_live_sub st' name = Some s -> s_id s = d_sub d ->
  now < d_expires d ->
  (forall d', In d' (dels st') -> d_id d' = d_id d ->
              d_attempt_at d' <= now /\ (s_ordered s && pred_blocks st' now d') = false) ->
  Z.of_nat (length (filter (eligible st' s now) (dels st'))) <= max ->
  get_msg st' (d_msg d) = Some m ->
  (forall m', In m' (msgs st') ->
              0 <= m_size m' /\ m_size m' * Z.of_nat (length (returned ++ others)) <= pull_max_bytes) ->
  (exists d', In d' (dels st') /\ d_id d' = d_id d /\ dl_due st' d' = true /\
     exists d'', In d'' (dels (post st' now pull)) /\ d_id d'' = d_id d /\ d_completed d'' = Some w) \/
  (exists p, In p (pulled_of (answer st' now pull)) /\ p_ack p = d_id d /\ p_msg p = d_msg d /\
             p_payload p = m_payload m /\ p_attrs p = m_attrs m).
Proof.
  intros U AL TN Hd Hc Hl Hcause Htime st' pull HL Hv Hmax Hf Hsid Hnow Hready Hlim Hgm Hbud.
  destruct (C01_never_lost h st t0 d U AL TN Hd Hc Hl Hcause Htime)
    as [d' [G1 [G2 [G3 [G4 [G5 [G6 _]]]]]]].
  fold st' in G1.
  assert (U' : ids_unique st') by (apply run_ids_unique; assumption).
  destruct (Hready d' G1 G2) as [Hat Hblk].
  assert (He : eligible st' s now d' = true).
  { unfold eligible. rewrite G4, <- Hsid, N.eqb_refl, G5, G6, Hblk. cbn [is_none andb negb].
    apply Z.ltb_lt in Hnow. apply Z.leb_le in Hat. rewrite Hnow, Hat. reflexivity. }
  pose proof (offered st' now name max returned others w fz fr s d' U' HL Hv Hmax Hf G1 He Hlim) as Hmem.
  assert (Hgm' : get_msg st' (d_msg d') = Some m) by (rewrite G3; exact Hgm).
  destruct (selected_is_served st' now name max returned others w fz fr s d' m U' HL Hv Hmax Hf G1 Hmem Hgm' Hbud)
    as [[Hdue [d'' [K1 [K2 K3]]]]|[_ [p [K1 [K2 [K3 [_ [K5 K6]]]]]]]].
  - left. exists d'. repeat split; try assumption.
    exists d''. repeat split; try assumption. congruence.
  - right. exists p. repeat split; try assumption; congruence.
Qed.

Print Assumptions publish_only_rightful.
Print Assumptions only_rightful_settlement.
Print Assumptions offered.
Print Assumptions selected_is_served.
Print Assumptions C01_never_lost.
Print Assumptions C01_drain.
