(* Bus/L05_Ops.v -- how the transaction helpers of Ops.v change the deliveries of one
   subscription [sid] (used by the C05 invariant proof). *)
From MB Require Import Base.
From MB.Bus Require Import State Ops Step Defs L05_Lists.
Local Open Scope string_scope.
Open Scope list_scope.
Open Scope Z_scope.

(* ---- the deliveries of one subscription ---- *)
Definition sidp (sid : id) (d : del) : bool := N.eqb (d_sub d) sid.
Definition sdels (sid : id) (st : state) : list del := filter (sidp sid) (dels st).

Lemma in_sdels sid st d : In d (sdels sid st) <-> In d (dels st) /\ d_sub d = sid.
Proof.
  unfold sdels, sidp. rewrite filter_In. rewrite N.eqb_eq. reflexivity.
Qed.

(* the columns no benign update touches *)
Definition same_core (d' d : del) : Prop :=
  d_id d' = d_id d /\ d_msg d' = d_msg d /\ d_sub d' = d_sub d /\
  d_published d' = d_published d /\ d_expires d' = d_expires d /\
  d_not_before d' = d_not_before d.

Lemma same_core_refl d : same_core d d.
Proof. unfold same_core; intuition. Qed.

Lemma same_core_trans a b c : same_core a b -> same_core b c -> same_core a c.
Proof. unfold same_core; intuition congruence. Qed.

(* [f] is a benign row update at [d]: it keeps the core, never un-completes, and changes
   attempts / completion only for rows whose id is in [A] *)
Definition good_at (A : id -> Prop) (f : del -> del) (d : del) : Prop :=
  same_core (f d) d /\ (d_completed (f d) = None -> d_completed d = None) /\
  ((d_attempts (f d) = d_attempts d /\ d_completed (f d) = d_completed d) \/ A (d_id d)).

Definition evolves (A : id -> Prop) (l l' : list del) : Prop :=
  exists f, l' = map f l /\ forall d, In d l -> good_at A f d.

Lemma evolves_refl A l : evolves A l l.
Proof.
  exists (fun d => d). split; [symmetry; apply map_id|].
  intros d _. unfold good_at. split; [apply same_core_refl|]. split; [auto|left; auto].
Qed.

Lemma evolves_eq A l l' : l' = l -> evolves A l l'.
Proof. intros ->. apply evolves_refl. Qed.

Lemma evolves_weaken (A B : id -> Prop) l l' :
  (forall i, A i -> B i) -> evolves A l l' -> evolves B l l'.
Proof.
  intros HAB [f [Hm Hg]]. exists f. split; [exact Hm|].
  intros d Hd. destruct (Hg d Hd) as [H1 [H2 H3]].
  split; [exact H1|]. split; [exact H2|]. destruct H3 as [H3|H3]; [left; exact H3|right; auto].
Qed.

Lemma evolves_trans A l l1 l2 : evolves A l l1 -> evolves A l1 l2 -> evolves A l l2.
Proof.
  intros [f [Hm Hg]] [f' [Hm' Hg']]. exists (fun d => f' (f d)). split.
  - rewrite Hm', Hm. apply map_map.
  - intros d Hd. destruct (Hg d Hd) as [H1 [H2 H3]].
    assert (Hin : In (f d) l1) by (rewrite Hm; apply in_map; exact Hd).
    destruct (Hg' (f d) Hin) as [H1' [H2' H3']].
    split; [eapply same_core_trans; eassumption|]. split; [auto|].
    assert (Hid : d_id (f d) = d_id d) by (apply H1).
    destruct H3' as [[Ha' Hc']|H3']; [|right; rewrite <- Hid; exact H3'].
    destruct H3 as [[Ha Hc]|H3]; [|right; exact H3].
    left. split; congruence.
Qed.

(* msgs and subs untouched, deliveries of sid evolve benignly *)
Definition frame (sid : id) (A : id -> Prop) (st st' : state) : Prop :=
  msgs st' = msgs st /\ subs st' = subs st /\ evolves A (sdels sid st) (sdels sid st').

Lemma frame_refl sid A st : frame sid A st st.
Proof. unfold frame. split; [reflexivity|]. split; [reflexivity|apply evolves_refl]. Qed.

Lemma frame_same sid A st st' :
  msgs st' = msgs st -> subs st' = subs st -> sdels sid st' = sdels sid st -> frame sid A st st'.
Proof. intros H1 H2 H3. split; [exact H1|]. split; [exact H2|]. apply evolves_eq. exact H3. Qed.

Lemma frame_weaken sid (A B : id -> Prop) st st' :
  (forall i, A i -> B i) -> frame sid A st st' -> frame sid B st st'.
Proof.
  intros HAB [H1 [H2 H3]]. split; [exact H1|]. split; [exact H2|].
  eapply evolves_weaken; eassumption.
Qed.

Lemma frame_trans sid A st st1 st2 : frame sid A st st1 -> frame sid A st1 st2 -> frame sid A st st2.
Proof.
  intros [H1 [H2 H3]] [H1' [H2' H3']]. split; [congruence|]. split; [congruence|].
  eapply evolves_trans; eassumption.
Qed.

Lemma sdels_upd sid st p g :
  (forall r, d_sub (g r) = d_sub r) ->
  sdels sid (set_dels st (upd_where p g (dels st))) =
  map (fun r => if p r then g r else r) (sdels sid st).
Proof.
  intros H. unfold sdels, set_dels, upd_where. cbn [dels].
  apply filter_map_comm. intros x. unfold sidp. destruct (p x); [rewrite H|]; reflexivity.
Qed.

Lemma frame_upd sid (A : id -> Prop) st p g :
  (forall r, same_core (g r) r) ->
  (forall r, d_completed (g r) = None -> d_completed r = None) ->
  (forall r, d_sub r = sid -> p r = true ->
     (d_attempts (g r) = d_attempts r /\ d_completed (g r) = d_completed r) \/ A (d_id r)) ->
  frame sid A st (set_dels st (upd_where p g (dels st))).
Proof.
  intros Hc Hn Ha. split; [reflexivity|]. split; [reflexivity|].
  exists (fun r => if p r then g r else r). split.
  - apply sdels_upd. intros r. apply (Hc r).
  - intros d Hd. apply in_sdels in Hd. destruct Hd as [_ Hs].
    unfold good_at. destruct (p d) eqn:Ep.
    + split; [apply Hc|]. split; [apply Hn|]. apply Ha; assumption.
    + split; [apply same_core_refl|]. split; [auto|left; auto].
Qed.

(* an update that does not select rows of sid leaves them alone *)
Lemma sdels_upd_other sid p g l :
  (forall r, d_sub (g r) = d_sub r) -> (forall r, p r = true -> d_sub r <> sid) ->
  filter (sidp sid) (upd_where p g l) = filter (sidp sid) l.
Proof.
  intros Hs Hp. unfold upd_where. rewrite filter_map_comm.
  - rewrite <- (map_id (filter (sidp sid) l)) at 2. apply map_ext_in.
    intros r Hr. apply filter_In in Hr. destruct Hr as [_ Hr].
    unfold sidp in Hr. apply N.eqb_eq in Hr.
    destruct (p r) eqn:Ep; [exfalso; exact (Hp r Ep Hr)|reflexivity].
  - intros x. unfold sidp. destruct (p x); [rewrite Hs|]; reflexivity.
Qed.

(* ---- row transformers ---- *)
Lemma core_set_completed t r : same_core (d_set_completed t r) r.
Proof. unfold same_core; cbn; intuition. Qed.
Lemma core_set_attempt_at t r : same_core (d_set_attempt_at t r) r.
Proof. unfold same_core; cbn; intuition. Qed.
Lemma core_lease a b r : same_core (d_lease a b r) r.
Proof. unfold same_core; cbn; intuition. Qed.

Lemma full_dl_pos s : full_dl s = true -> 1 <= max_attempts_of s.
Proof.
  unfold full_dl, max_attempts_of. destruct (s_max_attempts s); [|discriminate].
  destruct (s_dl_topic s); [|discriminate]. intros H. apply Z.ltb_lt in H. lia.
Qed.

(* ---- the fresh-id oracle ---- *)
Definition no_sid_fr (sid : id) (fr : fresh_dels) : Prop := forall m i, ~ In (m, sid, i) fr.

Lemma take_fresh_spec m s fr : forall o fr',
  take_fresh m s fr = (o, fr') ->
  (forall x, In x fr' -> In x fr) /\ (forall i, o = Some i -> In (m, s, i) fr).
Proof.
  induction fr as [|[[m' s'] i'] r IH]; intros o fr'; cbn [take_fresh].
  - intros H; inversion H; subst. split; [auto|discriminate].
  - destruct (N.eqb m m' && N.eqb s s') eqn:E.
    + intros H; inversion H; subst. apply andb_prop in E. destruct E as [E1 E2].
      apply N.eqb_eq in E1. apply N.eqb_eq in E2. subst. split.
      * intros x Hx. right; exact Hx.
      * intros i Hi. inversion Hi; subst. left; reflexivity.
    + destruct (take_fresh m s r) as [o1 r1] eqn:Et. intros H; inversion H; subst.
      destruct (IH _ _ eq_refl) as [H1 H2]. split.
      * intros x [Hx|Hx]; [left; exact Hx|right; apply H1; exact Hx].
      * intros i Hi. right. apply H2. exact Hi.
Qed.

Lemma no_sid_fr_sub sid fr fr' : (forall x, In x fr' -> In x fr) -> no_sid_fr sid fr -> no_sid_fr sid fr'.
Proof. intros H Hn m i Hi. apply (Hn m i). apply H. exact Hi. Qed.

(* ---- deliver_to_sub ---- *)
Definition new_del (st : state) (s : sub) (m : msg) (now : time) (i : id) : del :=
  mkDel i (m_id m) (s_id s) now (now + s_delay s) 0 None (now + s_msg_ttl s)
    (if s_ordered s && match m_key m with Some k => negb (String.eqb k "") | None => false end
     then option_map d_id (last_delivery st s m now) else None) None.

Lemma deliver_to_sub_spec st s m now fr st' fr' w n :
  deliver_to_sub st s m now fr = (st', fr', w, n) ->
  msgs st' = msgs st /\ subs st' = subs st /\ (forall x, In x fr' -> In x fr) /\
  (dels st' = dels st \/
   exists i, In (m_id m, s_id s, i) fr /\ dels st' = ins d_id (new_del st s m now i) (dels st)).
Proof.
  unfold deliver_to_sub.
  destruct (negb (filter_accepts (s_filter s) (m_attrs m))).
  - intros H; inversion H; subst. repeat split; auto.
  - destruct (take_fresh (m_id m) (s_id s) fr) as [oi fr1] eqn:Et.
    destruct (take_fresh_spec _ _ _ _ _ Et) as [Hsub Hin].
    destruct oi as [i|].
    + intros H; inversion H; subst. cbn [msgs subs dels].
      split; [reflexivity|]. split; [reflexivity|]. split; [exact Hsub|].
      right. exists i. split; [apply Hin; reflexivity|reflexivity].
    + intros H; inversion H; subst. repeat split; auto.
Qed.

Lemma deliver_to_sub_missing st s m now fr st' fr' w :
  deliver_to_sub st s m now fr = (st', fr', w, []) ->
  dels st' = dels st \/
   exists i, In (m_id m, s_id s, i) fr /\ dels st' = ins d_id (new_del st s m now i) (dels st).
Proof. intros H. apply deliver_to_sub_spec in H. apply H. Qed.

Lemma sdels_ins_other sid st d l :
  d_sub d <> sid -> dels st = ins d_id d l -> sdels sid st = filter (sidp sid) l.
Proof.
  intros Hn He. unfold sdels. rewrite He. apply filter_ins_other.
  unfold sidp. apply N.eqb_neq. exact Hn.
Qed.

Lemma deliver_to_sub_other sid st s m now fr st' fr' w n :
  deliver_to_sub st s m now fr = (st', fr', w, n) -> s_id s <> sid ->
  msgs st' = msgs st /\ subs st' = subs st /\ sdels sid st' = sdels sid st /\
  (forall x, In x fr' -> In x fr).
Proof.
  intros H Hn. apply deliver_to_sub_spec in H. destruct H as [H1 [H2 [H3 H4]]].
  split; [exact H1|]. split; [exact H2|]. split; [|exact H3].
  destruct H4 as [H4|[i [_ H4]]].
  - unfold sdels. rewrite H4. reflexivity.
  - eapply sdels_ins_other; [|exact H4]. cbn [new_del d_sub]. exact Hn.
Qed.

Lemma deliver_to_sub_nofr sid st s m now fr st' fr' w n :
  no_sid_fr sid fr -> deliver_to_sub st s m now fr = (st', fr', w, n) ->
  msgs st' = msgs st /\ subs st' = subs st /\ sdels sid st' = sdels sid st /\
  no_sid_fr sid fr'.
Proof.
  intros Hno H. apply deliver_to_sub_spec in H. destruct H as [H1 [H2 [H3 H4]]].
  split; [exact H1|]. split; [exact H2|]. split; [|eapply no_sid_fr_sub; eassumption].
  destruct H4 as [H4|[i [Hi H4]]].
  - unfold sdels. rewrite H4. reflexivity.
  - eapply sdels_ins_other; [|exact H4]. cbn [new_del d_sub].
    intros He. rewrite He in Hi. exact (Hno _ _ Hi).
Qed.

Lemma deliver_to_subs_other sid ss : forall st m now fr st' fr' w n,
  deliver_to_subs st ss m now fr = (st', fr', w, n) ->
  (forall s, In s ss -> s_id s <> sid) ->
  msgs st' = msgs st /\ subs st' = subs st /\ sdels sid st' = sdels sid st.
Proof.
  induction ss as [|s r IH]; intros st m now fr st' fr' w n; cbn [deliver_to_subs].
  - intros H _; inversion H; subst. auto.
  - destruct (deliver_to_sub st s m now fr) as [[[st1 fr1] w1] n1] eqn:E1.
    destruct (deliver_to_subs st1 r m now fr1) as [[[st2 fr2] w2] n2] eqn:E2.
    intros H Hall; inversion H; subst.
    destruct (deliver_to_sub_other sid _ _ _ _ _ _ _ _ _ E1 (Hall s (or_introl eq_refl)))
      as [A1 [A2 [A3 _]]].
    destruct (IH _ _ _ _ _ _ _ _ E2 (fun s0 H0 => Hall s0 (or_intror H0))) as [B1 [B2 B3]].
    repeat split; congruence.
Qed.

Lemma deliver_to_subs_nofr sid ss : forall st m now fr st' fr' w n,
  no_sid_fr sid fr -> deliver_to_subs st ss m now fr = (st', fr', w, n) ->
  msgs st' = msgs st /\ subs st' = subs st /\ sdels sid st' = sdels sid st /\ no_sid_fr sid fr'.
Proof.
  induction ss as [|s r IH]; intros st m now fr st' fr' w n Hno; cbn [deliver_to_subs].
  - intros H; inversion H; subst. auto.
  - destruct (deliver_to_sub st s m now fr) as [[[st1 fr1] w1] n1] eqn:E1.
    destruct (deliver_to_subs st1 r m now fr1) as [[[st2 fr2] w2] n2] eqn:E2.
    intros H; inversion H; subst.
    destruct (deliver_to_sub_nofr sid _ _ _ _ _ _ _ _ _ Hno E1) as [A1 [A2 [A3 A4]]].
    destruct (IH _ _ _ _ _ _ _ _ A4 E2) as [B1 [B2 [B3 B4]]].
    repeat split; try congruence. exact B4.
Qed.

(* ---- last_delivery ---- *)
Definition ld_step (best : option del) (d : del) : option del :=
  match best with
  | None => Some d
  | Some b => if d_published b <? d_published d then Some d else best
  end.

Definition ld_rest (st : state) (m : msg) (now : time) (d : del) : bool :=
  (now <? d_expires d) &&
  match get_msg st (d_msg d) with
  | Some dm => N.eqb (m_topic dm) (m_topic m) && os_eqb (m_key dm) (m_key m)
  | None => false
  end.

Lemma last_delivery_eq st s m now :
  last_delivery st s m now =
  fold_left ld_step (filter (ld_rest st m now) (sdels (s_id s) st)) None.
Proof.
  unfold last_delivery, sdels. rewrite <- filter_and.
  f_equal. apply filter_ext_in'. intros d _. unfold sidp, ld_rest.
  rewrite andb_assoc. reflexivity.
Qed.

Lemma ld_fold_some l : forall b, exists p,
  fold_left ld_step l (Some b) = Some p /\ (p = b \/ In p l) /\
  d_published b <= d_published p /\ forall c, In c l -> d_published c <= d_published p.
Proof.
  induction l as [|c l IH]; intros b; cbn [fold_left].
  - exists b. split; [reflexivity|]. split; [left; reflexivity|]. split; [lia|intros c []].
  - cbn [ld_step]. destruct (d_published b <? d_published c) eqn:E.
    + apply Z.ltb_lt in E. destruct (IH c) as [p [H1 [H2 [H3 H4]]]].
      exists p. split; [exact H1|]. split; [right; destruct H2 as [->|H2]; [left; reflexivity|right; exact H2]|].
      split; [lia|]. intros x [<-|Hx]; [exact H3|apply H4; exact Hx].
    + apply Z.ltb_ge in E. destruct (IH b) as [p [H1 [H2 [H3 H4]]]].
      exists p. split; [exact H1|]. split; [destruct H2 as [->|H2]; [left; reflexivity|right; right; exact H2]|].
      split; [exact H3|]. intros x [<-|Hx]; [lia|apply H4; exact Hx].
Qed.

Lemma last_delivery_spec st s m now d0 :
  In d0 (sdels (s_id s) st) -> ld_rest st m now d0 = true ->
  exists p, last_delivery st s m now = Some p /\ In p (sdels (s_id s) st) /\
            ld_rest st m now p = true /\ d_published d0 <= d_published p.
Proof.
  intros Hin Hr. rewrite last_delivery_eq.
  assert (H0 : In d0 (filter (ld_rest st m now) (sdels (s_id s) st)))
    by (apply filter_In; split; assumption).
  destruct (filter (ld_rest st m now) (sdels (s_id s) st)) as [|x l] eqn:El; [destruct H0|].
  cbn [fold_left ld_step].
  destruct (ld_fold_some l x) as [p [H1 [H2 [H3 H4]]]].
  exists p. split; [exact H1|].
  assert (Hp : In p (x :: l)) by (destruct H2 as [->|H2]; [left; reflexivity|right; exact H2]).
  rewrite <- El in Hp. apply filter_In in Hp. destruct Hp as [Hp1 Hp2].
  split; [exact Hp1|]. split; [exact Hp2|].
  destruct H0 as [<-|H0]; [exact H3|apply H4; exact H0].
Qed.

Lemma last_delivery_ext st st' s m now :
  msgs st' = msgs st -> sdels (s_id s) st' = sdels (s_id s) st ->
  last_delivery st' s m now = last_delivery st s m now.
Proof.
  intros Hm Hs. rewrite !last_delivery_eq. rewrite Hs. f_equal.
  apply filter_ext_in'. intros d _. unfold ld_rest, get_msg. rewrite Hm. reflexivity.
Qed.

Lemma new_del_ext st st' s m now i :
  msgs st' = msgs st -> sdels (s_id s) st' = sdels (s_id s) st ->
  new_del st' s m now i = new_del st s m now i.
Proof.
  intros Hm Hs. unfold new_del. rewrite (last_delivery_ext st st' s m now Hm Hs). reflexivity.
Qed.

(* deliver_to_subs with respect to the one subscription row [s] with id sid *)
Lemma deliver_to_subs_sid sid s ss : forall st m now fr st' fr' w,
  NoDup (map s_id ss) -> s_id s = sid -> (forall s0, In s0 ss -> s_id s0 = sid -> s0 = s) ->
  deliver_to_subs st ss m now fr = (st', fr', w, []) ->
  msgs st' = msgs st /\ subs st' = subs st /\
  (sdels sid st' = sdels sid st \/
   (In s ss /\ exists i, forall x, In x (sdels sid st') <-> x = new_del st s m now i \/ In x (sdels sid st))).
Proof.
  induction ss as [|s0 r IH]; intros st m now fr st' fr' w Hnd Hsid Huniq; cbn [deliver_to_subs].
  - intros H; inversion H; subst. auto.
  - destruct (deliver_to_sub st s0 m now fr) as [[[st1 fr1] w1] n1] eqn:E1.
    destruct (deliver_to_subs st1 r m now fr1) as [[[st2 fr2] w2] n2] eqn:E2.
    intros H; inversion H; subst. clear H.
    match goal with H : n1 ++ n2 = [] |- _ => apply app_eq_nil in H; destruct H as [-> ->] end.
    cbn [map] in Hnd. inversion Hnd as [|a b Hnotin Hnd']; subst.
    destruct (N.eq_dec (s_id s0) (s_id s)) as [Heq|Hne].
    + assert (s0 = s) by (apply Huniq; [left; reflexivity|exact Heq]). subst s0.
      assert (Hr : forall s1, In s1 r -> s_id s1 <> s_id s).
      { intros s1 H1 He. apply Hnotin. rewrite <- He. apply in_map. exact H1. }
      destruct (deliver_to_subs_other (s_id s) _ _ _ _ _ _ _ _ _ E2 Hr) as [B1 [B2 B3]].
      pose proof (deliver_to_sub_spec _ _ _ _ _ _ _ _ _ E1) as [A1 [A2 [_ A4]]].
      split; [congruence|]. split; [congruence|].
      destruct A4 as [A4|[i [_ A4]]].
      * left. rewrite B3. unfold sdels. rewrite A4. reflexivity.
      * right. split; [left; reflexivity|]. exists i. intros x.
        rewrite B3. rewrite !in_sdels. rewrite A4. rewrite in_ins.
        split.
        -- intros [[->|Hx] Hs]; [left; reflexivity|right; split; assumption].
        -- intros [->|[Hx Hs]]; [split; [left; reflexivity|reflexivity]|split; [right; exact Hx|exact Hs]].
    + destruct (deliver_to_sub_other (s_id s) _ _ _ _ _ _ _ _ _ E1 Hne) as [A1 [A2 [A3 _]]].
      assert (Hu' : forall s1, In s1 r -> s_id s1 = s_id s -> s1 = s)
        by (intros s1 H1 He; apply Huniq; [right; exact H1|exact He]).
      destruct (IH _ _ _ _ _ _ _ Hnd' eq_refl Hu' E2) as [B1 [B2 B3]].
      split; [congruence|]. split; [congruence|].
      destruct B3 as [B3|[Hin [i B3]]].
      * left. congruence.
      * right. split; [right; exact Hin|]. exists i. intros x.
        rewrite B3. rewrite A3. rewrite (new_del_ext st st1 s m now i A1 A3). reflexivity.
Qed.

(* ---- dead_letter ---- *)
Lemma dl_finish sid st st1 d now :
  msgs st1 = msgs st -> subs st1 = subs st -> sdels sid st1 = sdels sid st ->
  frame sid (fun i => i = d_id d) st
        (set_dels st1 (upd_where (fun x => N.eqb (d_id x) (d_id d)) (d_set_completed now) (dels st1))).
Proof.
  intros P1 P2 P3.
  eapply frame_trans; [apply frame_same; eassumption|].
  apply frame_upd.
  - intros r. apply core_set_completed.
  - intros r. cbn. discriminate.
  - intros r _ Hp. right. apply N.eqb_eq in Hp. exact Hp.
Qed.

Lemma dead_letter_frame sid st d dlt now fr st' fr' w :
  no_sid_fr sid fr -> dead_letter st d dlt now fr = (st', fr', w, []) ->
  frame sid (fun i => i = d_id d) st st' /\ no_sid_fr sid fr'.
Proof.
  intros Hno. unfold dead_letter.
  destruct (get_topic st dlt) as [t|];
    [|intros H; inversion H; subst; split; [apply dl_finish; reflexivity|exact Hno]].
  destruct (topic_live t);
    [|intros H; inversion H; subst; split; [apply dl_finish; reflexivity|exact Hno]].
  destruct (live_subs_of st dlt) as [|s0 l] eqn:El;
    [intros H; inversion H; subst; split; [apply dl_finish; reflexivity|exact Hno]|].
  destruct (get_msg st (d_msg d)) as [m|]; [|intros H; inversion H].
  destruct (deliver_to_subs st (s0 :: l) m now fr) as [[[st1 fr1] w1] n1] eqn:E1.
  intros H; inversion H; subst. clear H.
  destruct (deliver_to_subs_nofr sid _ _ _ _ _ _ _ _ _ Hno E1) as [P1 [P2 [P3 P4]]].
  split; [apply dl_finish; assumption|exact P4].
Qed.

(* ---- acks, delays ---- *)
Lemma do_ack_frame sid st ids wnow :
  frame sid (fun i => mem_id i ids = true) st (fst (do_ack st ids wnow)).
Proof.
  unfold do_ack. cbn [fst]. apply frame_upd.
  - intros r. apply core_set_completed.
  - intros r. cbn. discriminate.
  - intros r _ Hp. right. unfold ack_pred in Hp. apply andb_prop in Hp. apply Hp.
Qed.

Lemma do_delay_frame sid st ids delay wnow :
  frame sid (fun _ => False) st (fst (do_delay st ids delay wnow)).
Proof.
  unfold do_delay. destruct (delay <=? 0); cbn [fst]; apply frame_upd;
    try (intros r; apply core_set_attempt_at); try (intros r; cbn; auto; fail);
    intros r _ _; left; cbn; auto.
Qed.

(* ---- nacks ---- *)
Lemma nack_each_frame sid ds : forall st now wnow fz fr st' fr' w,
  no_sid_fr sid fr -> nack_each st ds now wnow fz fr = (st', fr', w, []) ->
  frame sid (fun i => exists d, In d ds /\ d_id d = i /\ 1 <= d_attempts d) st st' /\
  no_sid_fr sid fr'.
Proof.
  induction ds as [|d r IH]; intros st now wnow fz fr st' fr' w Hno; cbn [nack_each].
  - intros H; inversion H; subst. split; [apply frame_refl|exact Hno].
  - destruct (get_sub st (d_sub d)) as [s0|]; [|intros H; inversion H].
    assert (Hw : forall st1 st2 fr2,
               frame sid (fun i => exists d0, In d0 (d :: r) /\ d_id d0 = i /\ 1 <= d_attempts d0) st st1 ->
               frame sid (fun i => exists d0, In d0 r /\ d_id d0 = i /\ 1 <= d_attempts d0) st1 st2 /\
               no_sid_fr sid fr2 ->
               frame sid (fun i => exists d0, In d0 (d :: r) /\ d_id d0 = i /\ 1 <= d_attempts d0) st st2 /\
               no_sid_fr sid fr2).
    { intros st1 st2 fr2 F1 [G1 G2]. split; [|exact G2].
      eapply frame_trans; [exact F1|]. eapply frame_weaken; [|exact G1].
      intros i [d0 [Hd0 Hrest]]. exists d0. split; [right; exact Hd0|exact Hrest]. }
    destruct (full_dl s0 && (max_attempts_of s0 <=? d_attempts d)) eqn:Ec.
    + apply andb_prop in Ec. destruct Ec as [Ec1 Ec2].
      apply full_dl_pos in Ec1. apply Z.leb_le in Ec2.
      destruct (s_dl_topic s0) as [dlt|].
      * destruct (dead_letter st d dlt wnow fr) as [[[st1 fr1] w1] n1] eqn:E1.
        destruct (nack_each st1 r now wnow fz fr1) as [[[st2 fr2] w2] n2] eqn:E2.
        intros H; inversion H; subst. clear H.
        match goal with H : n1 ++ n2 = [] |- _ => apply app_eq_nil in H; destruct H as [-> ->] end.
        destruct (dead_letter_frame sid _ _ _ _ _ _ _ _ Hno E1) as [F1 F2].
        apply (Hw st1); [|eapply IH; eassumption].
        eapply frame_weaken; [|exact F1].
        intros i ->. exists d. split; [left; reflexivity|]. split; [reflexivity|lia].
      * destruct (nack_each st r now wnow fz fr) as [[[st2 fr2] w2] n2] eqn:E2.
        intros H; inversion H; subst. clear H.
        apply (Hw st); [apply frame_refl|]. eapply IH; eassumption.
    + match goal with |- context[nack_each ?S r now wnow fz fr] =>
        destruct (nack_each S r now wnow fz fr) as [[[st2 fr2] w2] n2] eqn:E2 end.
      intros H; inversion H; subst. clear H.
      match goal with H : _ ++ n2 = [] |- _ => apply app_eq_nil in H; destruct H as [_ ->] end.
      eapply Hw; [|eapply IH; eassumption].
      apply frame_upd.
      * intros x. apply core_set_attempt_at.
      * intros x. cbn. auto.
      * intros x _ _. left. cbn. auto.
Qed.

Lemma do_nack_frame sid st ids now wnow fz fr st' fr' w :
  no_sid_fr sid fr -> do_nack st ids now wnow fz fr = (st', fr', w, []) ->
  frame sid (fun i => exists d, In d (dels st) /\ d_id d = i /\ 1 <= d_attempts d) st st' /\
  no_sid_fr sid fr'.
Proof.
  intros Hno H. unfold do_nack in H.
  destruct (nack_each_frame sid _ _ _ _ _ _ _ _ _ Hno H) as [F1 F2]. split; [|exact F2].
  eapply frame_weaken; [|exact F1].
  intros i [d [Hd Hrest]]. apply filter_In in Hd. exists d. split; [apply Hd|exact Hrest].
Qed.

(* ---- pull ---- *)
Lemma apply_results_pulled s cands : forall st first strict bytes maxb now wnow fz fr st' fr' ps w n,
  apply_results st s cands first strict bytes maxb now wnow fz fr = (st', fr', ps, w, n) ->
  forall p, In p ps -> exists c, In c cands /\ p_ack p = d_id c.
Proof.
  induction cands as [|d r IH]; intros st first strict bytes maxb now wnow fz fr st' fr' ps w n;
    cbn [apply_results].
  - intros H; inversion H; subst. intros p [].
  - destruct (get_msg st (d_msg d)) as [m|]; [|intros H; inversion H; subst; intros p []].
    assert (Hw : forall p, (exists c, In c r /\ p_ack p = d_id c) -> exists c, In c (d :: r) /\ p_ack p = d_id c).
    { intros p [c [Hc He]]. exists c. split; [right; exact Hc|exact He]. }
    destruct ((strict || negb first) && (maxb <? bytes + m_size m)).
    + intros H p Hp. apply Hw. eapply IH; eassumption.
    + destruct (full_dl s && (max_attempts_of s <=? d_attempts d)).
      * destruct (s_dl_topic s) as [dlt|].
        -- destruct (dead_letter st d dlt wnow fr) as [[[st1 fr1] w1] n1] eqn:E1.
           destruct (apply_results st1 s r false strict bytes maxb now wnow fz fr1)
             as [[[[st2 fr2] ps2] w2] n2] eqn:E2.
           intros H; inversion H; subst. intros p Hp. apply Hw. eapply IH; eassumption.
        -- destruct (apply_results st s r false strict bytes maxb now wnow fz fr)
             as [[[[st2 fr2] ps2] w2] n2] eqn:E2.
           intros H; inversion H; subst. intros p Hp. apply Hw. eapply IH; eassumption.
      * match goal with |- context[apply_results ?S s r false strict ?B maxb now wnow fz fr] =>
          destruct (apply_results S s r false strict B maxb now wnow fz fr)
            as [[[[st2 fr2] ps2] w2] n2] eqn:E2 end.
        intros H; inversion H; subst. intros p [<-|Hp].
        -- exists d. split; [left; reflexivity|reflexivity].
        -- apply Hw. eapply IH; eassumption.
Qed.

Lemma apply_results_frame sid s cands : forall st first strict bytes maxb now wnow fz fr st' fr' ps w,
  no_sid_fr sid fr ->
  apply_results st s cands first strict bytes maxb now wnow fz fr = (st', fr', ps, w, []) ->
  frame sid (fun i => exists c, In c cands /\ d_id c = i) st st' /\ no_sid_fr sid fr'.
Proof.
  induction cands as [|d r IH]; intros st first strict bytes maxb now wnow fz fr st' fr' ps w Hno;
    cbn [apply_results].
  - intros H; inversion H; subst. split; [apply frame_refl|exact Hno].
  - destruct (get_msg st (d_msg d)) as [m|]; [|intros H; inversion H].
    assert (Hw : forall st1 st2 fr2,
               frame sid (fun i => i = d_id d) st st1 ->
               frame sid (fun i => exists c, In c r /\ d_id c = i) st1 st2 /\ no_sid_fr sid fr2 ->
               frame sid (fun i => exists c, In c (d :: r) /\ d_id c = i) st st2 /\ no_sid_fr sid fr2).
    { intros st1 st2 fr2 F1 [G1 G2]. split; [|exact G2].
      eapply frame_trans.
      - eapply frame_weaken; [|exact F1]. intros i ->. exists d. split; [left|]; reflexivity.
      - eapply frame_weaken; [|exact G1]. intros i [c [Hc He]]. exists c. split; [right; exact Hc|exact He]. }
    destruct ((strict || negb first) && (maxb <? bytes + m_size m)).
    + intros H. apply (Hw st); [apply frame_refl|]. eapply IH; eassumption.
    + destruct (full_dl s && (max_attempts_of s <=? d_attempts d)).
      * destruct (s_dl_topic s) as [dlt|].
        -- destruct (dead_letter st d dlt wnow fr) as [[[st1 fr1] w1] n1] eqn:E1.
           destruct (apply_results st1 s r false strict bytes maxb now wnow fz fr1)
             as [[[[st2 fr2] ps2] w2] n2] eqn:E2.
           intros H; inversion H; subst. clear H.
           match goal with H : n1 ++ n2 = [] |- _ => apply app_eq_nil in H; destruct H as [-> ->] end.
           destruct (dead_letter_frame sid _ _ _ _ _ _ _ _ Hno E1) as [F1 F2].
           apply (Hw st1); [exact F1|]. eapply IH; eassumption.
        -- destruct (apply_results st s r false strict bytes maxb now wnow fz fr)
             as [[[[st2 fr2] ps2] w2] n2] eqn:E2.
           intros H; inversion H; subst. clear H.
           apply (Hw st); [apply frame_refl|]. eapply IH; eassumption.
      * match goal with |- context[apply_results ?S s r false strict ?B maxb now wnow fz fr] =>
          destruct (apply_results S s r false strict B maxb now wnow fz fr)
            as [[[[st2 fr2] ps2] w2] n2] eqn:E2 end.
        intros H; inversion H; subst. clear H.
        match goal with H : _ ++ n2 = [] |- _ => apply app_eq_nil in H; destruct H as [_ ->] end.
        eapply Hw; [|eapply IH; eassumption].
        apply frame_upd.
        -- intros x. apply core_lease.
        -- intros x. cbn. auto.
        -- intros x _ Hp. right. apply N.eqb_eq in Hp. exact Hp.
Qed.

(* ---- dead-letter sweep ---- *)
Lemma sweep_each_frame sid ds : forall st wnow fr st' fr' w,
  no_sid_fr sid fr -> sweep_each st ds wnow fr = (st', fr', w, []) ->
  frame sid (fun i => In i ds) st st' /\ no_sid_fr sid fr'.
Proof.
  induction ds as [|i r IH]; intros st wnow fr st' fr' w Hno; cbn [sweep_each].
  - intros H; inversion H; subst. split; [apply frame_refl|exact Hno].
  - destruct (get_del st i) as [d|] eqn:Ed; [|intros H; inversion H].
    destruct (get_sub st (d_sub d)) as [s0|]; [|intros H; inversion H].
    destruct (s_dl_topic s0) as [dlt|]; [|intros H; inversion H].
    destruct (dead_letter st d dlt wnow fr) as [[[st1 fr1] w1] n1] eqn:E1.
    destruct (sweep_each st1 r wnow fr1) as [[[st2 fr2] w2] n2] eqn:E2.
    intros H; inversion H; subst. clear H.
    match goal with H : n1 ++ n2 = [] |- _ => apply app_eq_nil in H; destruct H as [-> ->] end.
    destruct (dead_letter_frame sid _ _ _ _ _ _ _ _ Hno E1) as [F1 F2].
    destruct (IH _ _ _ _ _ _ F2 E2) as [G1 G2]. split; [|exact G2].
    apply find_id_In in Ed. destruct Ed as [_ Ed].
    eapply frame_trans.
    + eapply frame_weaken; [|exact F1]. intros j ->. left. symmetry. exact Ed.
    + eapply frame_weaken; [|exact G1]. intros j Hj. right. exact Hj.
Qed.
