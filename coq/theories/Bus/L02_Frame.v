(* Bus/L02_Frame.v -- what the delivery loops leave alone; what Pull returns (used by T_C02). *)
From MB Require Import Base.
From MB.Bus Require Import State Ops Step Defs L02_Lists.
Local Open Scope string_scope.
Open Scope list_scope.
Open Scope Z_scope.

Definition frame (st st1 : state) : Prop :=
  topics st1 = topics st /\ subs st1 = subs st /\ msgs st1 = msgs st.

Lemma frame_refl st : frame st st.
Proof. repeat split. Qed.

Lemma frame_trans a b c : frame a b -> frame b c -> frame a c.
Proof. unfold frame. intros (H1&H2&H3) (H4&H5&H6). repeat split; congruence. Qed.

Lemma frame_set_dels st ds : frame st (set_dels st ds).
Proof. repeat split. Qed.

Lemma deliver_to_sub_frame st s m now fr st1 fr1 w n :
  deliver_to_sub st s m now fr = (st1, fr1, w, n) -> frame st st1.
Proof.
  unfold deliver_to_sub.
  destruct (negb (filter_accepts (s_filter s) (m_attrs m))).
  - intros H; inversion H; subst. apply frame_refl.
  - destruct (take_fresh (m_id m) (s_id s) fr) as [[i|] fr'].
    + intros H; inversion H; subst. repeat split.
    + intros H; inversion H; subst. apply frame_refl.
Qed.

Lemma deliver_to_subs_frame ss : forall st m now fr st1 fr1 w n,
  deliver_to_subs st ss m now fr = (st1, fr1, w, n) -> frame st st1.
Proof.
  induction ss as [|s r IH]; intros st m now fr st1 fr1 w n; cbn [deliver_to_subs].
  - intros H; inversion H; subst. apply frame_refl.
  - destruct (deliver_to_sub st s m now fr) as [[[sa fa] wa] na] eqn:Ea.
    destruct (deliver_to_subs sa r m now fa) as [[[sb fb] wb] nb] eqn:Eb.
    intros H; inversion H; subst.
    eapply frame_trans; [eapply deliver_to_sub_frame; exact Ea|eapply IH; exact Eb].
Qed.

Lemma dead_letter_frame st d dlt now fr st1 fr1 w n :
  dead_letter st d dlt now fr = (st1, fr1, w, n) -> frame st st1.
Proof.
  unfold dead_letter.
  match goal with |- context [match ?x with (_, _) => _ end] => destruct x as [[[sa fa] wa] na] eqn:Ea end.
  intros H; inversion H; subst.
  eapply frame_trans; [|apply frame_set_dels].
  destruct (get_topic st dlt) as [t|]; [|inversion Ea; subst; apply frame_refl].
  destruct (topic_live t); [|inversion Ea; subst; apply frame_refl].
  destruct (live_subs_of st dlt) as [|s0 l0]; [inversion Ea; subst; apply frame_refl|].
  destruct (get_msg st (d_msg d)) as [m|]; [|inversion Ea; subst; apply frame_refl].
  eapply deliver_to_subs_frame; exact Ea.
Qed.

Definition pulled_from (d : del) (m : msg) : pulled :=
  mkPulled (d_id d) (m_id m) (d_attempts d + 1) (m_payload m) (m_attrs m)
           (match m_key m with Some k => k | None => EmptyString end) (m_published m).

Lemma apply_results_spec cands : forall st s first strict bytes maxb now wnow fz fr st2 fr2 ps w n,
  apply_results st s cands first strict bytes maxb now wnow fz fr = (st2, fr2, ps, w, n) ->
  frame st st2 /\
  (length ps <= length cands)%nat /\
  (forall p, In p ps -> exists d m, In d cands /\ find_id m_id (d_msg d) (msgs st) = Some m /\
                                    p = pulled_from d m) /\
  (NoDup (map d_id cands) -> NoDup (map p_ack ps)).
Proof.
  induction cands as [|d r IH]; intros st s first strict bytes maxb now wnow fz fr st2 fr2 ps w n;
    cbn [apply_results].
  - intros H; inversion H; subst. split; [apply frame_refl|]. split; [cbn; lia|].
    split; [intros p []|intros _; constructor].
  - destruct (get_msg st (d_msg d)) as [m|] eqn:Em.
    2:{ intros H; inversion H; subst. split; [apply frame_refl|]. split; [cbn; lia|].
        split; [intros p []|intros _; constructor]. }
    destruct ((strict || negb first) && (maxb <? bytes + m_size m)).
    { intros H. apply IH in H. destruct H as (Hf & Hl & Hp & Hn).
      split; [exact Hf|]. split; [cbn [length]; lia|]. split.
      - intros p Hi. destruct (Hp p Hi) as (d' & m' & H1 & H2 & H3).
        exists d', m'. split; [right; exact H1|]. split; assumption.
      - intros Hnd. cbn [map] in Hnd. inversion Hnd; subst. apply Hn; assumption. }
    destruct (full_dl s && (max_attempts_of s <=? d_attempts d)).
    { match goal with |- context [match ?x with (_, _) => _ end] =>
        destruct x as [[[sa fa] wa] na] eqn:Ea end.
      destruct (apply_results sa s r false strict bytes maxb now wnow fz fa)
        as [[[[sb fb] pb] wb] nb] eqn:Eb.
      intros H; inversion H; subst.
      apply IH in Eb. destruct Eb as (Hf & Hl & Hp & Hn).
      assert (Hfa : frame st sa).
      { destruct (s_dl_topic s) as [dlt|].
        - eapply dead_letter_frame; exact Ea.
        - inversion Ea; subst. apply frame_refl. }
      split; [eapply frame_trans; eassumption|]. split; [cbn [length]; lia|]. split.
      - intros p Hi. destruct (Hp p Hi) as (d' & m' & H1 & H2 & H3).
        exists d', m'. split; [right; exact H1|]. split; [|exact H3].
        destruct Hfa as (_ & _ & Hm). rewrite <- Hm. exact H2.
      - intros Hnd. cbn [map] in Hnd. inversion Hnd; subst. apply Hn; assumption. }
    match goal with |- context [apply_results ?a s r false strict ?b maxb now wnow fz fr] =>
      destruct (apply_results a s r false strict b maxb now wnow fz fr)
        as [[[[sb fb] pb] wb] nb] eqn:Eb end.
    intros H; inversion H; subst.
    apply IH in Eb. destruct Eb as (Hf & Hl & Hp & Hn).
    split; [eapply frame_trans; [apply frame_set_dels|exact Hf]|].
    split; [cbn [length]; lia|]. split.
    + intros p [<-|Hi].
      * exists d, m. split; [left; reflexivity|]. split; [exact Em|reflexivity].
      * destruct (Hp p Hi) as (d' & m' & H1 & H2 & H3).
        exists d', m'. split; [right; exact H1|]. split; assumption.
    + intros Hnd. cbn [map] in Hnd. inversion Hnd as [|a l Hni Hnd']; subst.
      cbn [map p_ack]. constructor; [|apply Hn; exact Hnd'].
      intros Hi. apply in_map_iff in Hi. destruct Hi as (p & Hpa & Hpi).
      destruct (Hp p Hpi) as (d' & m' & H1 & H2 & H3). subst p. cbn [pulled_from p_ack] in Hpa.
      apply Hni. rewrite <- Hpa. apply in_map. exact H1.
Qed.

Definition pull_cands (st : state) (obs : list id) : list del :=
  flat_map (fun i => match get_del st i with Some d => [d] | None => [] end) obs.
Definition pull_st0 (st : state) (s : sub) (wnow : time) : state :=
  set_subs st (upd_where (fun x => N.eqb (s_id x) (s_id s)) (s_set_expires (wnow + s_ttl s)) (subs st)).

Lemma pull_cases st now name max returned others w fz fr :
  (exists c, step st now (Pull name max returned others w fz fr) = fail st c) \/
  (exists s st1 fr1 ps wk n,
     1 <= max /\ find_live_sub st name = Some s /\
     apply_results (pull_st0 st s w) s (pull_cands st (returned ++ others)) true false 0
                   pull_max_bytes now w fz fr = (st1, fr1, ps, wk, n) /\
     step st now (Pull name max returned others w fz fr) =
       done st1 (RPull ps) wk
            ((if selection_legal st s now max returned others then [] else ["illegal-selection"%string])
             ++ n ++ leftover fr1)).
Proof.
  unfold step.
  destruct (negb (valid_sub_name name)); [left; eexists; reflexivity|].
  destruct (max <? 1) eqn:Emax; [left; eexists; reflexivity|].
  destruct (find_live_sub st name) as [s|]; [|left; eexists; reflexivity].
  right. fold (pull_st0 st s w). fold (pull_cands st (returned ++ others)).
  destruct (apply_results (pull_st0 st s w) s (pull_cands st (returned ++ others)) true false 0
                   pull_max_bytes now w fz fr) as [[[[st1 fr1] ps] wk] n] eqn:E.
  exists s, st1, fr1, ps, wk, n. apply Z.ltb_ge in Emax.
  split; [exact Emax|]. split; [reflexivity|]. split; [exact E|reflexivity].
Qed.

Record sel_facts (st : state) (s : sub) (now : time) (max : Z) (obs : list id) : Prop := {
  sf_nodup : NoDup obs;
  sf_len : Z.of_nat (length obs) <= max;
  sf_elig : forall i, In i obs -> exists d, In d (dels st) /\ d_id d = i /\ eligible st s now d = true }.

Lemma selection_legal_facts st s now max returned others :
  selection_legal st s now max returned others = true ->
  sel_facts st s now max (returned ++ others).
Proof.
  unfold selection_legal. intros H.
  repeat (apply andb_true_iff in H; destruct H as [H ?]).
  constructor.
  - apply nodup_ids_NoDup. exact H.
  - match goal with H' : (_ =? _) = true |- _ => apply Z.eqb_eq in H'; rewrite H' end. lia.
  - intros i Hi.
    match goal with H' : Nat.eqb _ _ = true |- _ => apply Nat.eqb_eq in H' ; rename H' into Hl end.
    destruct (flat_opt_full _ _ Hl i Hi) as [d Hd].
    apply find_id_some in Hd. destruct Hd as [Hd Hk]. apply filter_In in Hd. destruct Hd as [Hd He].
    exists d. auto.
Qed.

Lemma pull_cands_facts st s now max obs d :
  NoDup (map d_id (dels st)) -> sel_facts st s now max obs -> In d (pull_cands st obs) ->
  In d (dels st) /\ eligible st s now d = true /\ In (d_id d) obs.
Proof.
  intros Hu [_ _ Hel] Hd. unfold pull_cands in Hd. apply in_flat_opt in Hd.
  destruct Hd as (i & Hi & Hg). apply find_id_some in Hg. destruct Hg as [Hin Hk].
  destruct (Hel i Hi) as (d' & Hin' & Hk' & He).
  assert (d' = d) by (eapply key_inj_nodup; [exact Hu|exact Hin'|exact Hin|congruence]).
  subst d'. subst i. auto.
Qed.

