(* Bus/L02_Step.v -- per-operation assembly: how [step] changes the delivery table (used by T_C02). *)
From MB Require Import Base.
From MB.Bus Require Import State Ops Step Defs L02_Lists L02_Frame L02_Evo.
Local Open Scope string_scope.
Open Scope list_scope.
Open Scope Z_scope.

(* ---- operations that never change deliveries or messages ---- *)
Ltac brk1 :=
  match goal with
  | |- context [match ?x with _ => _ end] =>
      lazymatch x with
      | context [match _ with _ => _ end] => fail
      | _ => destruct x eqn:?
      end
  end.

Lemma create_sub_dm st q f w :
  dels (r_state (create_sub st q f w)) = dels st /\ msgs (r_state (create_sub st q f w)) = msgs st.
Proof.
  unfold create_sub.
  repeat (first [ split; reflexivity | brk1 ]).
Qed.

Lemma update_sub_dm st q ps w :
  dels (r_state (update_sub st q ps w)) = dels st /\ msgs (r_state (update_sub st q ps w)) = msgs st.
Proof.
  unfold update_sub.
  repeat (first [ split; reflexivity | brk1 ]).
Qed.

Definition is_config (o : op) : Prop :=
  match o with
  | DeleteSub _ _ | UpdateSub _ _ _ | CreateSub _ _ _ | ModifyPush _ _ | SetDelay _ _
  | CreateTopic _ _ _ _ | UpdateTopic _ _ _ | DeleteTopic _ _ | CreateSnap _ _ _ _ _ | DeleteSnap _
  | GetTopic _ | GetSub _ | GetSnap _ | ListTopics _ _ _ | ListSubs _ _ _ | ListSnaps _ _ _
  | ListTopicSubs _ _ _ | SeekNoTarget _ => True
  | _ => False
  end.

Lemma config_dm st now o :
  is_config o -> dels (post st now o) = dels st /\ msgs (post st now o) = msgs st.
Proof.
  intros H. unfold post.
  destruct o; try contradiction; clear H; unfold step;
    try apply create_sub_dm; try apply update_sub_dm;
    repeat (first [ split; reflexivity | brk1
      | match goal with |- context [match ?x with inl _ => _ | inr _ => _ end] =>
          destruct x as [?|[|]] end ]).
Qed.

(* ---- the first two clauses of [evo] are what the theorems need ---- *)
Definition evo2 (P : del -> Prop) (T : id -> Prop) (D0 D : list del) : Prop :=
  (forall x, In x D ->
     In x D0 \/
     (exists c, In c D0 /\ d_id c = d_id x /\ d_sub c = d_sub x /\ d_msg c = d_msg x /\ T (d_sub c)) \/
     (~ In (d_id x) (map d_id D0) /\ P x)) /\
  (forall c, In c D0 -> In c D \/ T (d_sub c)).

Lemma evo_evo2 P T D0 D : evo P T D0 D -> evo2 P T D0 D.
Proof. intros (H1 & H2 & _). split; assumption. Qed.

Lemma evo2_refl P T D0 : evo2 P T D0 D0.
Proof. split; intros x Hx; left; exact Hx. Qed.

Definition NoP : del -> Prop := fun _ => False.

Lemma evo_upd_T (T : id -> Prop) D0 D (p : del -> bool) (f : del -> del) :
  NoDup (map d_id D0) -> evo NoP T D0 D ->
  (forall x, d_id (f x) = d_id x /\ d_sub (f x) = d_sub x /\ d_msg (f x) = d_msg x) ->
  (forall x, In x D -> p x = true -> T (d_sub x)) ->
  evo NoP T D0 (upd_where p f D).
Proof.
  intros ND He Hf Hp. apply evo_upd; [exact ND|exact He|exact Hf|].
  intros x Hx Hpx. specialize (Hp x Hx Hpx).
  destruct He as (H1 & _ & _).
  destruct (H1 x Hx) as [Hx0|[(c & Hc & Hi & Hs & Hm & HT)|[_ []]]].
  - exists x. auto.
  - exists c. auto.
Qed.

Lemma do_ack_evo (T : id -> Prop) st ids w :
  NoDup (map d_id (dels st)) ->
  (forall x, In x (dels st) -> mem_id (d_id x) ids = true -> T (d_sub x)) ->
  evo NoP T (dels st) (dels (fst (do_ack st ids w))).
Proof.
  intros ND HT. unfold do_ack. cbn [fst set_dels dels].
  apply evo_upd_T; [exact ND|apply evo_refl|intros x; apply keep_completed|].
  intros x Hx Hp. unfold ack_pred in Hp. apply andb_true_iff in Hp. apply HT; tauto.
Qed.

Lemma do_delay_evo (T : id -> Prop) st ids delay w :
  NoDup (map d_id (dels st)) ->
  (forall x, In x (dels st) -> mem_id (d_id x) ids = true -> T (d_sub x)) ->
  evo NoP T (dels st) (dels (fst (do_delay st ids delay w))).
Proof.
  intros ND HT. unfold do_delay. destruct (delay <=? 0); cbn [fst set_dels dels].
  - apply evo_upd_T; [exact ND|apply evo_refl|intros x; apply keep_attempt_at|].
    intros x Hx Hp. unfold ack_pred in Hp. apply andb_true_iff in Hp. apply HT; tauto.
  - apply evo_upd_T; [exact ND|apply evo_refl|intros x; apply keep_attempt_at|].
    intros x Hx Hp. apply andb_true_iff in Hp. destruct Hp as [Hp _].
    unfold ack_pred in Hp. apply andb_true_iff in Hp. apply HT; tauto.
Qed.

Ltac sub_of_pred Hp :=
  repeat (apply andb_true_iff in Hp; destruct Hp as [Hp ?]); apply N.eqb_eq in Hp.

Lemma seek_time_evo (T : id -> Prop) st s target now w :
  NoDup (map d_id (dels st)) -> T (s_id s) ->
  evo NoP T (dels st) (dels (fst (seek_time st s target now w))).
Proof.
  intros ND HT. unfold seek_time. cbn [fst set_dels dels].
  apply evo_upd_T; [exact ND| |intros x; apply keep_revive|].
  - apply evo_upd_T; [exact ND|apply evo_refl|intros x; apply keep_completed|].
    intros x Hx Hp. sub_of_pred Hp. rewrite Hp; exact HT.
  - intros x Hx Hp. sub_of_pred Hp. rewrite Hp; exact HT.
Qed.

Lemma seek_snap_evo (T : id -> Prop) st s n now w :
  NoDup (map d_id (dels st)) -> T (s_id s) ->
  evo NoP T (dels st) (dels (fst (seek_snap st s n now w))).
Proof.
  intros ND HT. unfold seek_snap. cbn [fst set_dels dels].
  assert (H1 : evo NoP T (dels st)
     (upd_where (fun d => N.eqb (d_sub d) (s_id s) && (now <=? d_expires d) &&
                          (d_published d <? n_before n) && is_none (d_completed d))
                (d_set_completed w) (dels st))).
  { apply evo_upd_T; [exact ND|apply evo_refl|intros x; apply keep_completed|].
    intros x Hx Hp. sub_of_pred Hp. rewrite Hp; exact HT. }
  apply evo_upd_T; [exact ND| |intros x; apply keep_revive|].
  - destruct (n_acked n) as [|a l]; [exact H1|].
    apply evo_upd_T; [exact ND|exact H1|intros x; apply keep_completed|].
    intros x Hx Hp. sub_of_pred Hp. rewrite Hp; exact HT.
  - intros x Hx Hp. sub_of_pred Hp. rewrite Hp; exact HT.
Qed.

(* ---- the subscriptions an operation may touch (same definition as T_C02.touches) ---- *)
Definition tch (st : state) (o : op) (sid : id) : bool :=
  match o with
  | Ack _ (Some ids) _ | ModAck _ (Some ids) _ _ =>
      existsb (fun d => mem_id (d_id d) ids && N.eqb (d_sub d) sid) (dels st)
  | StreamAckNack acks nacks _ _ _ =>
      existsb (fun d => mem_id (d_id d) (acks ++ nacks) && N.eqb (d_sub d) sid) (dels st)
  | Pull name _ _ _ _ _ _ | SeekTime name _ _ | SeekSnap name _ _ =>
      match sub_of_name st name with Some i => N.eqb i sid | None => false end
  | Job _ _ _ _ _ _ _ => true
  | _ => false
  end.

Definition Tof (st : state) (o : op) : id -> Prop := fun i => tch st o i = true.

Definition sprov (st : state) (now : time) (o : op) (d : del) : Prop :=
  dlprov (subs st) (msgs st) (dels st) (subs st) d /\ msgs (post st now o) = msgs st.

Lemma dlprov_subs SS SS' MM D0 S0 d :
  (forall s', In s' SS' -> exists s, In s SS /\ s_id s = s_id s' /\ sub_live s = sub_live s' /\
                                     s_filter s = s_filter s' /\ s_topic s = s_topic s') ->
  dlprov SS' MM D0 S0 d -> dlprov SS MM D0 S0 d.
Proof.
  intros Hmap (s' & m & H1 & H2 & H3 & H4 & H5 & H6 & H7 & H8 & src & ssub & H9 & H10 & H11 & H12 & H13 & H14).
  destruct (Hmap s' H1) as (s & Hs & Hi & Hl & Hf & Ht).
  exists s, m. rewrite Hi, Hl, Hf. repeat (split; [assumption|]).
  exists src, ssub. rewrite Ht. repeat (split; [assumption|]). assumption.
Qed.

Lemma find_live_sub_facts st name s :
  NoDup (map s_id (subs st)) -> find_live_sub st name = Some s ->
  In s (subs st) /\ find_id s_id (s_id s) (subs st) = Some s /\ sub_of_name st name = Some (s_id s).
Proof.
  intros ND H. unfold sub_of_name. rewrite H. unfold find_live_sub in H. apply find_some in H.
  destruct H as [H _]. split; [exact H|]. split; [|reflexivity].
  apply find_id_in_nodup; assumption.
Qed.

Lemma pull_evo st now name max returned others w fz fr :
  let o := Pull name max returned others w fz fr in
  ids_unique st -> legal st now o ->
  evo2 (sprov st now o) (Tof st o) (dels st) (dels (post st now o)).
Proof.
  intros o (_ & NDs & _ & NDd & _) Hl. unfold legal in Hl. subst o.
  destruct (pull_cases st now name max returned others w fz fr)
    as [[c Hc]|(s & st1 & fr1 & ps & wk & n & Hmax & Hs & Ha & Hstep)].
  - unfold post. rewrite Hc. cbn [fail r_state]. apply evo2_refl.
  - rewrite Hstep in Hl. cbn [done r_notes] in Hl.
    apply app_eq_nil in Hl. destruct Hl as [Hsel Hl]. apply app_eq_nil in Hl. destruct Hl as [-> _].
    destruct (selection_legal st s now max returned others) eqn:Esel; [|discriminate].
    apply selection_legal_facts in Esel.
    destruct (find_live_sub_facts _ _ _ NDs Hs) as (Hsin & Hsfind & Hsname).
    assert (HT : Tof st (Pull name max returned others w fz fr) (s_id s)).
    { unfold Tof, tch. rewrite Hsname. apply N.eqb_refl. }
    eapply (apply_results_linv (subs (pull_st0 st s w)) (msgs st) (dels st) (subs st) _ NDd) in Ha.
    + destruct Ha as (_ & Hmm & Hev).
      assert (Hpm : msgs (post st now (Pull name max returned others w fz fr)) = msgs st).
      { unfold post. rewrite Hstep. exact Hmm. }
      unfold post. rewrite Hstep. cbn [done r_state]. apply evo_evo2.
      eapply evo_weaken; [| |exact Hev].
      * intros x Hx. split; [|exact Hpm]. eapply dlprov_subs; [|exact Hx].
        cbn [pull_st0 set_subs subs]. intros s' Hs'. apply in_upd_where in Hs'.
        destruct Hs' as (r & Hr & ->). exists r. split; [exact Hr|].
        destruct (N.eqb (s_id r) (s_id s)); repeat split.
      * intros i Hi. exact Hi.
    + split; [reflexivity|]. split; [reflexivity|]. apply evo_refl.
    + intros d Hd. destruct (pull_cands_facts _ _ _ _ _ _ NDd Esel Hd) as (Hin & He & _).
      assert (Hsub : d_sub d = s_id s).
      { unfold eligible in He. repeat (apply andb_true_iff in He; destruct He as [He ?]).
        apply N.eqb_eq in He. exact He. }
      split; [exact Hin|]. split; [rewrite Hsub; exact HT|exact Hsub].
    + exact Hsfind.
Qed.

Lemma stream_cases st now acks nacks w fz fr :
  exists st2 fr2 w2 n2,
    do_nack (fst (do_ack st acks w)) nacks now w fz fr = (st2, fr2, w2, n2) /\
    step st now (StreamAckNack acks nacks w fz fr) =
      done st2 RUnit (snd (do_ack st acks w) ++ w2) (n2 ++ leftover fr2).
Proof.
  unfold step. destruct (do_ack st acks w) as [st1 w1]. cbn [fst snd].
  destruct (do_nack st1 nacks now w fz fr) as [[[st2 fr2] w2] n2].
  exists st2, fr2, w2, n2. split; reflexivity.
Qed.

Lemma stream_evo st now acks nacks w fz fr :
  let o := StreamAckNack acks nacks w fz fr in
  ids_unique st -> legal st now o ->
  evo2 (sprov st now o) (Tof st o) (dels st) (dels (post st now o)).
Proof.
  intros o (_ & NDs & _ & NDd & _) Hl. subst o. unfold legal in Hl.
  destruct (stream_cases st now acks nacks w fz fr) as (st2 & fr2 & w2 & n2 & En & Hstep).
  rewrite Hstep in Hl. cbn [done r_notes] in Hl.
  apply app_eq_nil in Hl. destruct Hl as [-> _].
  set (st1 := fst (do_ack st acks w)) in *.
  set (T := Tof st (StreamAckNack acks nacks w fz fr)).
  assert (HT : forall x ids, In x (dels st) -> mem_id (d_id x) ids = true ->
                 (forall i, In i ids -> In i (acks ++ nacks)) -> T (d_sub x)).
  { intros x ids Hx Hm Hincl. unfold T, Tof, tch. apply existsb_exists. exists x. split; [exact Hx|].
    apply andb_true_iff. split; [|apply N.eqb_refl].
    apply mem_id_In. apply Hincl. apply mem_id_In. exact Hm. }
  assert (Hev1 : evo NoP T (dels st) (dels st1)).
  { apply do_ack_evo; [exact NDd|].
    intros x Hx Hm. apply (HT x acks Hx Hm). intros i Hi. apply in_or_app. left; exact Hi. }
  unfold do_nack in En.
  eapply (nack_each_linv (subs st) (msgs st) (dels st) (subs st) T NDd) in En; [| | | |reflexivity].
  - destruct En as (_ & Hmm & Hev).
    assert (Hpm : msgs (post st now (StreamAckNack acks nacks w fz fr)) = msgs st).
    { unfold post. rewrite Hstep. exact Hmm. }
    unfold post. rewrite Hstep. cbn [done r_state]. apply evo_evo2.
    eapply evo_weaken; [| |exact Hev].
    + intros x Hx. split; [exact Hx|exact Hpm].
    + intros i Hi; exact Hi.
  - intros i; reflexivity.
  - split; [reflexivity|]. split; [reflexivity|].
    eapply evo_weaken; [| |exact Hev1]; [intros x []|intros i Hi; exact Hi].
  - intros d Hd. apply filter_In in Hd. destruct Hd as [Hd Hp].
    apply andb_true_iff in Hp. destruct Hp as [Hp _]. apply andb_true_iff in Hp. destruct Hp as [Hm Hc].
    unfold st1, do_ack in Hd. cbn [fst set_dels dels] in Hd.
    apply in_upd_where in Hd. destruct Hd as (r & Hr & Hdr).
    assert (d = r).
    { destruct (ack_pred acks r); [|exact Hdr]. subst d. cbn in Hc. discriminate. }
    subst r. split; [exact Hr|].
    apply (HT d nacks Hr Hm). intros i Hi. apply in_or_app. right; exact Hi.
Qed.

Lemma prune_evo2 P (T : id -> Prop) D0 ch :
  (forall i, T i) -> evo2 P T D0 (map (d_null_link ch) (del_ids d_id ch D0)).
Proof.
  intros HT. split.
  - intros x Hx. apply in_map_iff in Hx. destruct Hx as (y & <- & Hy). apply in_del_ids in Hy.
    right; left. exists y. destruct (keep_null_link ch y) as (H1 & H2 & H3).
    repeat split; try (symmetry; assumption); [exact Hy|apply HT].
  - intros c _. right. apply HT.
Qed.

Lemma sweep_cases st now mn mx ch w fr :
  exists st1 fr1 wk n,
    sweep_each st ch w fr = (st1, fr1, wk, n) /\
    step st now (Job JDeadLetterSweep mn mx ch false w fr) =
      done st1 (RCount (Z.of_nat (length ch))) wk
        ((if choice_legal (job_matches st JDeadLetterSweep now mn) ch mx then []
          else ["illegal-choice"%string]) ++ n ++
         match fr1 with [] => [] | _ => ["unexpected-delivery"%string] end).
Proof.
  unfold step, run_job.
  destruct (sweep_each st ch w fr) as [[[st1 fr1] wk] n].
  exists st1, fr1, wk, n. split; reflexivity.
Qed.

Lemma job_evo st now j mn mx ch failed w fr :
  let o := Job j mn mx ch failed w fr in
  ids_unique st -> legal st now o ->
  evo2 (sprov st now o) (Tof st o) (dels st) (dels (post st now o)).
Proof.
  intros o (_ & NDs & _ & NDd & _) Hl. subst o.
  assert (HT : forall i, Tof st (Job j mn mx ch failed w fr) i) by (intros i; reflexivity).
  destruct failed.
  { unfold post, step, run_job. destruct j; cbn [r_state]; apply evo2_refl. }
  destruct j;
    try (unfold post, step, run_job; cbn [done r_state set_dels set_msgs set_subs dels];
         first [apply evo2_refl | apply prune_evo2; exact HT]).
  - (* JPruneDeletedTopics *)
    unfold post, step, run_job.
    destruct (existsb (topic_has_messages st) ch); cbn [done r_state]; apply evo2_refl.
  - (* JDeadLetterSweep *)
    unfold legal in Hl.
    destruct (sweep_cases st now mn mx ch w fr) as (st1 & fr1 & wk & n & Es & Hstep).
    rewrite Hstep in Hl. cbn [done r_notes] in Hl.
    apply app_eq_nil in Hl. destruct Hl as [Hch Hl]. apply app_eq_nil in Hl. destruct Hl as [-> _].
    destruct (choice_legal (job_matches st JDeadLetterSweep now mn) ch mx) eqn:Ech; [|discriminate].
    eapply (sweep_each_linv (subs st) (msgs st) (dels st) (subs st) _ NDd) in Es; [| | | |reflexivity].
    + destruct Es as (_ & Hmm & Hev).
      assert (Hpm : msgs (post st now (Job JDeadLetterSweep mn mx ch false w fr)) = msgs st).
      { unfold post. rewrite Hstep. exact Hmm. }
      unfold post. rewrite Hstep. cbn [done r_state]. apply evo_evo2.
      eapply evo_weaken; [| |exact Hev].
      * intros x Hx. split; [exact Hx|exact Hpm].
      * intros i Hi; exact Hi.
    + intros i; reflexivity.
    + split; [reflexivity|]. split; [reflexivity|]. apply evo_refl.
    + intros i Hi.
      unfold choice_legal in Ech. apply andb_true_iff in Ech. destruct Ech as [Ech _].
      apply andb_true_iff in Ech. destruct Ech as [_ Hall].
      rewrite forallb_forall in Hall. specialize (Hall i Hi). apply mem_id_In in Hall.
      cbn [job_matches] in Hall. apply in_map_iff in Hall. destruct Hall as (c & Hci & Hc).
      apply filter_In in Hc. destruct Hc as [Hc Hf].
      exists c. split; [exact Hc|]. split; [exact Hci|]. split; [apply HT|].
      unfold get_sub in Hf. destruct (find_id s_id (d_sub c) (subs st)) as [ssub|]; [|discriminate].
      repeat (apply andb_true_iff in Hf; destruct Hf as [Hf ?]).
      exists ssub. split; [reflexivity|]. split; [assumption|]. apply Z.leb_le. assumption.
Qed.

Lemma evo_NoP_evo2 P (T : id -> Prop) D0 D : evo NoP T D0 D -> evo2 P T D0 D.
Proof.
  intros H. apply evo_evo2. eapply evo_weaken; [| |exact H]; [intros x []|intros i Hi; exact Hi].
Qed.

Lemma ack_T st (T : id -> Prop) ids :
  (forall i, T i <-> existsb (fun d => mem_id (d_id d) ids && N.eqb (d_sub d) i) (dels st) = true) ->
  forall x, In x (dels st) -> mem_id (d_id x) ids = true -> T (d_sub x).
Proof.
  intros HT x Hx Hm. apply HT. apply existsb_exists. exists x. split; [exact Hx|].
  rewrite Hm. apply N.eqb_refl.
Qed.

Theorem step_evo st now o :
  ids_unique st -> legal st now o ->
  (match o with Publish _ _ _ => False | _ => True end) ->
  evo2 (sprov st now o) (Tof st o) (dels st) (dels (post st now o)).
Proof.
  intros Hu Hl Hnp.
  assert (Hcfg : is_config o -> evo2 (sprov st now o) (Tof st o) (dels st) (dels (post st now o))).
  { intros Hc. destruct (config_dm st now o Hc) as [-> _]. apply evo2_refl. }
  pose proof Hu as (_ & NDs & _ & NDd & _).
  destruct o; try (apply Hcfg; exact I); try contradiction.
  - (* ModAck *)
    unfold post, step. destruct (negb (valid_sub_name name)); [apply evo2_refl|].
    destruct ids as [ids|]; [|apply evo2_refl].
    destruct (do_delay st ids (seconds * sec) wnow) as [st' w'] eqn:E.
    cbn [done r_state]. change st' with (fst (st', w')). rewrite <- E.
    apply evo_NoP_evo2. apply do_delay_evo; [exact NDd|].
    apply ack_T. intros i. unfold Tof, tch. reflexivity.
  - (* Ack *)
    unfold post, step. destruct (negb (valid_sub_name name)); [apply evo2_refl|].
    destruct ids as [ids|]; [|apply evo2_refl].
    destruct (do_ack st ids wnow) as [st' w'] eqn:E.
    cbn [done r_state]. change st' with (fst (st', w')). rewrite <- E.
    apply evo_NoP_evo2. apply do_ack_evo; [exact NDd|].
    apply ack_T. intros i. unfold Tof, tch. reflexivity.
  - apply pull_evo; assumption.
  - (* SeekTime *)
    unfold post, step. destruct (negb (valid_sub_name name)); [apply evo2_refl|].
    destruct (find_live_sub st name) as [s|] eqn:Es; [|apply evo2_refl].
    destruct (seek_time st s target now wnow) as [st' w'] eqn:E.
    cbn [done r_state]. change st' with (fst (st', w')). rewrite <- E.
    apply evo_NoP_evo2. apply seek_time_evo; [exact NDd|].
    destruct (find_live_sub_facts _ _ _ NDs Es) as (_ & _ & Hn).
    unfold Tof, tch. rewrite Hn. apply N.eqb_refl.
  - (* SeekSnap *)
    unfold post, step. destruct (negb (valid_sub_name name)); [apply evo2_refl|].
    destruct (negb (valid_snap_name snapname)); [apply evo2_refl|].
    destruct (find_live_sub st name) as [s|] eqn:Es; [|apply evo2_refl].
    destruct (find_snap st snapname) as [n|]; [|apply evo2_refl].
    destruct (seek_snap st s n now wnow) as [st' w'] eqn:E.
    cbn [done r_state]. change st' with (fst (st', w')). rewrite <- E.
    apply evo_NoP_evo2. apply seek_snap_evo; [exact NDd|].
    destruct (find_live_sub_facts _ _ _ NDs Es) as (_ & _ & Hn).
    unfold Tof, tch. rewrite Hn. apply N.eqb_refl.
  - apply stream_evo; assumption.
  - apply job_evo; assumption.
Qed.

(* ---- Publish ---- *)
Definition pubprov (SS : list sub) (MM : list msg) (d : del) : Prop :=
  exists s m, In s SS /\ s_id s = d_sub d /\ sub_live s = true /\ In m MM /\ m_id m = d_msg d /\
    filter_accepts (s_filter s) (m_attrs m) = true /\ d_attempts d = 0 /\ d_completed d = None /\
    m_topic m = s_topic s.

Lemma pubprov_mono SS MM MM' d : incl MM MM' -> pubprov SS MM d -> pubprov SS MM' d.
Proof.
  intros Hi (s & m & H1 & H2 & H3 & H4 & H5). exists s, m.
  split; [exact H1|]. split; [exact H2|]. split; [exact H3|]. split; [apply Hi; exact H4|exact H5].
Qed.

Lemma publish_one_prov st t p fr st' fr' w :
  publish_one st t p fr = (st', fr', w, []) ->
  subs st' = subs st /\ incl (msgs st) (msgs st') /\
  forall d, In d (dels st') -> In d (dels st) \/ pubprov (subs st) (msgs st') d.
Proof.
  unfold publish_one.
  match goal with |- context [deliver_to_subs ?a ?b ?c ?d ?e] =>
    destruct (deliver_to_subs a b c d e) as [[[st2 fr2] w2] n2] eqn:E;
    set (m := c) in *; set (st1 := a) in * end.
  intros H. inversion H as [[H1 H2 H3 H4]]. clear H. subst st2 fr2 w2.
  apply app_eq_nil in H4. destruct H4 as [_ ->].
  eapply (deliver_to_subs_linv (subs st) (msgs st1) (dels st) (fun _ => False)
            (pubprov (subs st) (msgs st1))) in E; [| | |reflexivity].
  - destruct E as (Hs & Hm & (Hev & _ & _)).
    split; [exact Hs|]. split.
    + rewrite Hm. unfold st1. cbn [set_msgs msgs]. intros x Hx. apply in_ins. right; exact Hx.
    + intros d Hd. rewrite Hm. destruct (Hev d Hd) as [H|[(c & _ & _ & _ & _ & [])|[_ H]]].
      * left; exact H.
      * right; exact H.
  - split; [reflexivity|]. split; [reflexivity|]. apply evo_refl.
  - intros s d Hs Hdm Hds Hda Hdc Hf.
    unfold live_subs_of in Hs. apply filter_In in Hs. destruct Hs as [Hsin Hsp].
    apply andb_true_iff in Hsp. destruct Hsp as [Hlive Htop]. apply N.eqb_eq in Htop.
    exists s, m. split; [exact Hsin|]. split; [symmetry; exact Hds|]. split; [exact Hlive|].
    split; [unfold st1; cbn [set_msgs msgs]; apply in_ins; left; reflexivity|].
    split; [symmetry; exact Hdm|]. split; [exact Hf|]. split; [exact Hda|]. split; [exact Hdc|].
    symmetry; exact Htop.
Qed.

Lemma publish_all_prov t ps : forall st fr st' fr' w n,
  publish_all st t ps fr = Some (st', fr', w, n) -> n = [] ->
  subs st' = subs st /\ incl (msgs st) (msgs st') /\
  forall d, In d (dels st') -> In d (dels st) \/ pubprov (subs st) (msgs st') d.
Proof.
  induction ps as [|p r IH]; intros st fr st' fr' w n; cbn [publish_all].
  - intros H _; inversion H; subst. split; [reflexivity|]. split; [apply incl_refl|].
    intros d Hd; left; exact Hd.
  - destruct (negb (pm_valid p)); [discriminate|].
    destruct (publish_one st t p fr) as [[[sa fa] wa] na] eqn:Ea.
    destruct (publish_all sa t r fa) as [[[[sb fb] wb] nb]|] eqn:Eb; [|discriminate].
    intros H Hn; subst n; inversion H; subst. clear H.
    match goal with Hx : _ ++ _ = [] |- _ => apply app_eq_nil in Hx; destruct Hx as [-> ->] end.
    apply publish_one_prov in Ea. destruct Ea as (Hs1 & Hm1 & Hd1).
    destruct (IH _ _ _ _ _ _ Eb eq_refl) as (Hs2 & Hm2 & Hd2).
    split; [congruence|]. split; [eapply incl_tran; eassumption|].
    intros d Hd. destruct (Hd2 d Hd) as [H|H].
    + destruct (Hd1 d H) as [H'|H']; [left; exact H'|right].
      eapply pubprov_mono; [exact Hm2|exact H'].
    + right. rewrite <- Hs1. exact H.
Qed.
