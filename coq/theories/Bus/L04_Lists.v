(* Bus/L04_Lists.v -- generic list / table lemmas used by T_C04 (self-contained). *)
From MB Require Import Base.
From MB.Bus Require Import State.
Open Scope list_scope.

Lemma mem_id_In i l : mem_id i l = true <-> In i l.
Proof.
  unfold mem_id. rewrite existsb_exists. split.
  - intros [x [Hx He]]. apply N.eqb_eq in He. subst; exact Hx.
  - intros H. exists i. split; [exact H|apply N.eqb_refl].
Qed.

Lemma mem_id_false i l : mem_id i l = false <-> ~ In i l.
Proof.
  rewrite <- mem_id_In. destruct (mem_id i l); split; congruence.
Qed.

Lemma nodup_ids_NoDup l : nodup_ids l = true -> NoDup l.
Proof.
  induction l as [|a l IH]; cbn [nodup_ids]; intros H; [constructor|].
  apply andb_true_iff in H. destruct H as [H1 H2].
  constructor; [|apply IH; exact H2].
  apply Bool.negb_true_iff in H1. apply mem_id_false in H1. exact H1.
Qed.

Section TableLemmas.
  Context {R : Type} (key : R -> id).

  Lemma in_ins x r l : In x (ins key r l) <-> x = r \/ In x l.
  Proof.
    induction l as [|y l IH]; cbn [ins].
    - cbn. intuition.
    - destruct (key r <? key y)%N.
      + cbn. intuition.
      + cbn [In]. rewrite IH. intuition.
  Qed.

  Lemma find_id_some i l r : find_id key i l = Some r -> In r l /\ key r = i.
  Proof.
    induction l as [|y l IH]; cbn [find_id]; [discriminate|].
    destruct (N.eqb (key y) i) eqn:E.
    - intros H; inversion H; subst. apply N.eqb_eq in E. split; [left; reflexivity|exact E].
    - intros H. destruct (IH H) as [Hi Hk]. split; [right; exact Hi|exact Hk].
  Qed.

  Lemma nodup_key_inj l a b : NoDup (map key l) -> In a l -> In b l -> key a = key b -> a = b.
  Proof.
    induction l as [|y l IH]; cbn [map]; intros Hd Ha Hb He; [destruct Ha|].
    inversion Hd as [|u v Hy Hd']; subst.
    destruct Ha as [->|Ha]; destruct Hb as [->|Hb].
    - reflexivity.
    - exfalso. apply Hy. rewrite He. apply in_map; exact Hb.
    - exfalso. apply Hy. rewrite <- He. apply in_map; exact Ha.
    - apply IH; assumption.
  Qed.

  Lemma in_upd_where_intro (p : R -> bool) f l x :
    In x l -> In (if p x then f x else x) (upd_where p f l).
  Proof.
    intros H. unfold upd_where.
    apply (in_map (fun r => if p r then f r else r)) in H. exact H.
  Qed.

  Lemma in_upd_where_elim (p : R -> bool) f l x' :
    In x' (upd_where p f l) -> exists x, In x l /\ x' = (if p x then f x else x).
  Proof.
    unfold upd_where. rewrite in_map_iff. intros [x [He Hx]]. exists x. split; [exact Hx|].
    symmetry; exact He.
  Qed.

  Lemma in_del_ids ids l x : In x (del_ids key ids l) -> In x l.
  Proof. unfold del_ids. rewrite filter_In. tauto. Qed.
End TableLemmas.

Section FlatOpt.
  Context {A B : Type} (f : A -> option B).
  Definition optl (i : A) : list B := match f i with Some d => [d] | None => [] end.

  Lemma flat_map_opt_in l x : In x (flat_map optl l) <-> exists i, In i l /\ f i = Some x.
  Proof.
    rewrite in_flat_map. unfold optl. split; intros [i [Hi H]]; exists i; split; auto.
    - destruct (f i); [destruct H as [<-|[]]; reflexivity|destruct H].
    - rewrite H. left; reflexivity.
  Qed.

  Lemma flat_map_opt_len l : (length (flat_map optl l) <= length l)%nat.
  Proof.
    induction l as [|a l IH]; cbn [flat_map length]; [lia|].
    rewrite app_length. unfold optl at 1. destruct (f a); cbn [length]; lia.
  Qed.

  Lemma flat_map_opt_full l :
    length (flat_map optl l) = length l -> forall i, In i l -> exists d, f i = Some d.
  Proof.
    induction l as [|a l IH]; intros H i Hi; [destruct Hi|].
    cbn [flat_map length] in H. rewrite app_length in H.
    pose proof (flat_map_opt_len l) as L. unfold optl at 1 in H.
    destruct (f a) as [d|] eqn:E; cbn [length] in H.
    - destruct Hi as [<-|Hi]; [exists d; exact E|]. apply IH; [lia|exact Hi].
    - exfalso. lia.
  Qed.
End FlatOpt.

(* the rows found for a duplicate-free list of ids have distinct ids *)
Lemma nodup_flat_find {R} (key : R -> id) (tbl : list R) (l : list id) :
  NoDup l -> NoDup (map key (flat_map (optl (fun i => find_id key i tbl)) l)).
Proof.
  induction l as [|a l IH]; intros Hd; cbn [flat_map map]; [constructor|].
  inversion Hd as [|u v Ha Hd']; subst.
  rewrite map_app. unfold optl at 1.
  destruct (find_id key a tbl) as [r|] eqn:E; cbn [map app]; [|apply IH; exact Hd'].
  apply find_id_some in E. destruct E as [_ Hk].
  constructor; [|apply IH; exact Hd'].
  intros Hi. apply in_map_iff in Hi. destruct Hi as [x [Hx Hin]].
  apply flat_map_opt_in in Hin. destruct Hin as [i [Hi Hf]].
  apply find_id_some in Hf. destruct Hf as [_ Hk']. apply Ha. congruence.
Qed.

Lemma count_occ_nodup_le (l : list id) i : NoDup l -> (count_occ N.eq_dec l i <= 1)%nat.
Proof. intros H. apply (proj1 (NoDup_count_occ N.eq_dec l)). exact H. Qed.

Lemma map_key_upd {R} (key : R -> id) (p : R -> bool) (f : R -> R) l :
  (forall r, key (f r) = key r) -> map key (upd_where p f l) = map key l.
Proof.
  intros H. unfold upd_where. rewrite map_map. apply map_ext. intros r.
  destruct (p r); [apply H|reflexivity].
Qed.

Lemma nodup_map_filter {R} (key : R -> id) (p : R -> bool) l :
  NoDup (map key l) -> NoDup (map key (filter p l)).
Proof.
  induction l as [|y l IH]; cbn [filter map]; intros Hd; [constructor|].
  inversion Hd as [|a b Hy Hd']; subst.
  destruct (p y); [|apply IH; exact Hd'].
  cbn [map]. constructor; [|apply IH; exact Hd'].
  intros Hi. apply Hy. apply in_map_iff in Hi. destruct Hi as [r [He Hr]].
  apply filter_In in Hr. destruct Hr as [Hr _]. rewrite <- He. apply in_map; exact Hr.
Qed.
