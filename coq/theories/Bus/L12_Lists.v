(* Bus/L12_Lists.v -- generic list / table lemmas used by T_C12 (names, pagination). *)
From MB Require Import Base.
From MB.Bus Require Import State.
From Coq Require Import Sorting.Sorted.
Open Scope list_scope.

(* ---- id-sorted tables ---- *)
Section Tbl.
  Context {R : Type} (key : R -> id).

  Lemma in_ins12 r x l : In x (ins key r l) <-> x = r \/ In x l.
  Proof.
    induction l as [|y l IH]; cbn [ins].
    - cbn. intuition.
    - destruct (key r <? key y)%N; cbn [In]; [intuition|]. rewrite IH. intuition.
  Qed.

  Lemma find_ins_none12 (p : R -> bool) r l :
    find p l = None -> p r = true -> find p (ins key r l) = Some r.
  Proof.
    induction l as [|y l IH]; cbn [ins find]; intros H Hr.
    - rewrite Hr. reflexivity.
    - destruct (p y) eqn:Py; [discriminate|].
      destruct (key r <? key y)%N; cbn [find].
      + rewrite Hr. reflexivity.
      + rewrite Py. auto.
  Qed.

  Lemma find_id_some12 i l r : find_id key i l = Some r -> In r l /\ key r = i.
  Proof.
    induction l as [|y l IH]; cbn [find_id]; [discriminate|].
    destruct (N.eqb (key y) i) eqn:E.
    - intros H; inversion H; subst. split; [left; reflexivity|apply N.eqb_eq; exact E].
    - intros H. apply IH in H. destruct H. split; [right; assumption|assumption].
  Qed.

  Lemma find_id_none12 i l : find_id key i l = None -> forall r, In r l -> key r <> i.
  Proof.
    induction l as [|y l IH]; cbn [find_id]; intros H r Hr; [destruct Hr|].
    destruct (N.eqb (key y) i) eqn:E; [discriminate|].
    destruct Hr as [->|Hr]; [apply N.eqb_neq; exact E|apply IH; assumption].
  Qed.

  Lemma has_id_false12 i l : has_id key i l = false -> forall r, In r l -> key r <> i.
  Proof.
    unfold has_id. destruct (find_id key i l) eqn:E; [discriminate|].
    intros _. apply find_id_none12. exact E.
  Qed.

  Lemma has_id_true12 i l : has_id key i l = true -> exists r, In r l /\ key r = i.
  Proof.
    unfold has_id. destruct (find_id key i l) eqn:E; [|discriminate].
    intros _. exists r. eapply find_id_some12; eauto.
  Qed.

  Lemma nodup_key_inj12 l a b : NoDup (map key l) -> In a l -> In b l -> key a = key b -> a = b.
  Proof.
    induction l as [|y l IH]; cbn [map]; intros ND Ha Hb E; [destruct Ha|].
    inversion ND as [|? ? Hn ND']; subst.
    destruct Ha as [->|Ha], Hb as [->|Hb]; auto.
    - exfalso. apply Hn. rewrite E. apply in_map. exact Hb.
    - exfalso. apply Hn. rewrite <- E. apply in_map. exact Ha.
  Qed.
End Tbl.

(* ---- find ---- *)
Lemma find_none_all12 {A} (p : A -> bool) l : (forall x, In x l -> p x = false) -> find p l = None.
Proof.
  induction l as [|y l IH]; cbn [find]; intros H; [reflexivity|].
  rewrite (H y (or_introl eq_refl)). apply IH. intros x Hx. apply H. right; exact Hx.
Qed.

Lemma filter_all_true12 {A} (p : A -> bool) l : (forall x, In x l -> p x = true) -> filter p l = l.
Proof.
  induction l as [|y l IH]; cbn [filter]; intros H; [reflexivity|].
  rewrite (H y (or_introl eq_refl)). f_equal. apply IH. intros x Hx. apply H. right; exact Hx.
Qed.

Lemma filter_all_false12 {A} (p : A -> bool) l : (forall x, In x l -> p x = false) -> filter p l = [].
Proof.
  induction l as [|y l IH]; cbn [filter]; intros H; [reflexivity|].
  rewrite (H y (or_introl eq_refl)). apply IH. intros x Hx. apply H. right; exact Hx.
Qed.

(* ---- at most one live row per name ---- *)
Section NU.
  Context {R : Type} (live : R -> bool) (name : R -> str).

  Definition NU (l : list R) : Prop :=
    forall a b, In a l -> In b l -> live a = true -> live b = true -> name a = name b -> a = b.

  Lemma NU_nil : NU [].
  Proof. intros a b []. Qed.

  Lemma NU_incl l l' : (forall x, In x l' -> In x l) -> NU l -> NU l'.
  Proof. intros I H a b Ha Hb. apply H; auto. Qed.

  Lemma NU_filter p l : NU l -> NU (filter p l).
  Proof. apply NU_incl. intros x Hx. apply filter_In in Hx. apply Hx. Qed.

  Lemma NU_map g l :
    (forall r, In r l -> live (g r) = true -> live r = true /\ name (g r) = name r) ->
    NU l -> NU (map g l).
  Proof.
    intros G H a' b' Ha Hb La Lb E.
    apply in_map_iff in Ha. destruct Ha as [a [<- Ha]].
    apply in_map_iff in Hb. destruct Hb as [b [<- Hb]].
    destruct (G a Ha La) as [La0 Na]. destruct (G b Hb Lb) as [Lb0 Nb].
    f_equal. apply H; auto. congruence.
  Qed.

  Lemma NU_upd_where p f l :
    (forall r, In r l -> p r = true -> live (f r) = true -> live r = true /\ name (f r) = name r) ->
    NU l -> NU (upd_where p f l).
  Proof.
    intros G. unfold upd_where. apply NU_map.
    intros r Hr. destruct (p r) eqn:P; [apply G; assumption|]. auto.
  Qed.

  Lemma NU_ins key r l :
    (forall b, In b l -> live b = true -> name b = name r -> False) ->
    NU l -> NU (ins key r l).
  Proof.
    intros Fr H a b Ha Hb La Lb E.
    apply in_ins12 in Ha. apply in_ins12 in Hb.
    destruct Ha as [->|Ha], Hb as [->|Hb]; auto.
    - exfalso. eapply Fr; eauto.
    - exfalso. eapply Fr; eauto.
  Qed.
End NU.

(* ---- strictly sorted keys: the rows after a given row are those with a larger key ---- *)
Lemma filter_after12 {R} (key : R -> id) (pre : list R) x post :
  StronglySorted N.lt (map key (pre ++ x :: post)) ->
  filter (fun r => (key x <? key r)%N) (pre ++ x :: post) = post.
Proof.
  induction pre as [|a pre IH]; cbn [app map filter]; intros SS.
  - apply StronglySorted_inv in SS. destruct SS as [_ F].
    rewrite N.ltb_irrefl. apply filter_all_true12.
    intros y Hy. apply N.ltb_lt. rewrite Forall_forall in F. apply F. apply in_map. exact Hy.
  - apply StronglySorted_inv in SS. destruct SS as [SS F].
    rewrite Forall_forall in F.
    assert (key a < key x)%N as Lt.
    { apply F. rewrite map_app. apply in_or_app. right. left. reflexivity. }
    replace (key x <? key a)%N with false by (symmetry; apply N.ltb_ge; lia).
    apply IH. exact SS.
Qed.
