(* Bus/T_Live.v -- liveness of ordered delivery (C01 with C05): the ordering links can hold a
   message back only behind ANOTHER outstanding message of the same subscription, never behind
   itself and never in a circle. Hence in every reachable state a subscription with an
   outstanding backlog has an outstanding delivery that no predecessor blocks; when every
   outstanding delivery is due, a pull finds something to serve: an ordered backlog cannot
   deadlock itself, whatever acknowledgements, nacks, seeks, prunes and dead-letter forwards
   produced the state.

   The invariant behind it (L_Good.LBr, preserved by every legal step: T_Inv.step_links_ranked):
   there is a ranking of delivery ids that every link strictly decreases, and a link never
   leaves its subscription. Ranks are assigned at insertion (a new row ranks above everything
   it can point to; nothing points to a fresh id), so rows forwarded in one batch with equal
   publish times are covered too. *)
From MB Require Import Base.
From MB.Bus Require Import State Ops Step Defs L_Tables L_Good L_Helpers T_Inv T_C01.
Local Open Scope string_scope.
Open Scope list_scope.
Open Scope Z_scope.

(* outstanding on subscription s: neither acknowledged nor past its retention *)
Definition live_on (s : sub) (now : time) (d : del) : bool :=
  N.eqb (d_sub d) (s_id s) && is_none (d_completed d) && (now <? d_expires d).

Lemma live_on_true s now d :
  live_on s now d = true <-> d_sub d = s_id s /\ d_completed d = None /\ now < d_expires d.
Proof.
  unfold live_on, is_none. rewrite !andb_true_iff, N.eqb_eq, Z.ltb_lt.
  destruct (d_completed d); split; intros H; try tauto.
  - destruct H as [[_ H] _]. discriminate.
  - destruct H as [_ [H _]]. discriminate.
Qed.

(* a blocked row's predecessor is an outstanding row of the same subscription, of lower rank *)
Lemma blocked_by_lower st s now rank d :
  lb_ok (dels st) rank -> In d (dels st) -> live_on s now d = true -> pred_blocks st now d = true ->
  exists pd, In pd (dels st) /\ live_on s now pd = true /\ (rank (d_id pd) < rank (d_id d))%nat.
Proof.
  intros Hr Hd Hl Hb. unfold pred_blocks in Hb.
  destruct (d_not_before d) as [p|] eqn:En; [|discriminate].
  destruct (get_del st p) as [pd|] eqn:Eg; [|discriminate].
  apply get_del_in in Eg. destruct Eg as [Hpd Ep]. subst p.
  destruct (Hr d pd Hd Hpd En) as [Es Er].
  exists pd. split; [exact Hpd|]. split; [|exact Er].
  apply andb_true_iff in Hb. destruct Hb as [Hc He].
  apply live_on_true in Hl. destruct Hl as [Hs _].
  apply live_on_true. unfold is_none in Hc. apply Z.ltb_lt in He.
  destruct (d_completed pd); [discriminate|]. repeat split; congruence.
Qed.

(* ---- no self-blocking ---- *)
Theorem backlog_has_unblocked_head st s now :
  LBr (dels st) ->
  (exists d, In d (dels st) /\ live_on s now d = true) ->
  exists d, In d (dels st) /\ live_on s now d = true /\ pred_blocks st now d = false.
Proof.
  intros [rank Hr] [d0 [Hd0 Hl0]].
  assert (G : forall n d, (rank (d_id d) <= n)%nat -> In d (dels st) -> live_on s now d = true ->
                          exists d', In d' (dels st) /\ live_on s now d' = true /\ pred_blocks st now d' = false).
  { induction n as [|n IH]; intros d Hn Hd Hl.
    - destruct (pred_blocks st now d) eqn:Hb; [|exists d; auto].
      destruct (blocked_by_lower st s now rank d Hr Hd Hl Hb) as [pd [_ [_ Hlt]]].
      exfalso. apply Nat.le_0_r in Hn. rewrite Hn in Hlt. exact (Nat.nlt_0_r _ Hlt).
    - destruct (pred_blocks st now d) eqn:Hb; [|exists d; auto].
      destruct (blocked_by_lower st s now rank d Hr Hd Hl Hb) as [pd [Hpd [Hlp Hlt]]].
      apply (IH pd); [|exact Hpd|exact Hlp].
      apply Nat.lt_succ_r. eapply Nat.lt_le_trans; [exact Hlt|exact Hn]. }
  exact (G (rank (d_id d0)) d0 (Nat.le_refl _) Hd0 Hl0).
Qed.

(* ... so when everything outstanding is due, something is eligible *)
Theorem due_backlog_is_eligible st s now :
  LBr (dels st) ->
  (exists d, In d (dels st) /\ live_on s now d = true) ->
  (forall d, In d (dels st) -> live_on s now d = true -> d_attempt_at d <= now) ->
  exists d, In d (dels st) /\ eligible st s now d = true.
Proof.
  intros HB Hex Hdue.
  destruct (backlog_has_unblocked_head st s now HB Hex) as [d [Hd [Hl Hb]]].
  exists d. split; [exact Hd|].
  pose proof (Hdue d Hd Hl) as Ha. apply Z.leb_le in Ha.
  unfold eligible. unfold live_on in Hl. rewrite Hl, Ha, Hb, andb_false_r. reflexivity.
Qed.

(* ---- over every legal history from the empty database ---- *)
Theorem C01_ordered_backlog_never_deadlocks st s now :
  reachable st ->
  (exists d, In d (dels st) /\ live_on s now d = true) ->
  (forall d, In d (dels st) -> live_on s now d = true -> d_attempt_at d <= now) ->
  exists d, In d (dels st) /\ eligible st s now d = true.
Proof.
  intros HR. apply due_backlog_is_eligible. apply reachable_links_ranked. exact HR.
Qed.

(* and the pull that comes then serves it: with a LIMIT that does not cut the eligible set and
   the byte budget not the limit, a legal Pull hands out (or dead-letters, when its attempts are
   used up) at least one delivery of the backlog *)
Theorem C01_pull_serves_a_due_backlog st now name max returned others w fz fr s :
  reachable st ->
  legal st now (Pull name max returned others w fz fr) ->
  valid_sub_name name = true -> 1 <= max -> find_live_sub st name = Some s ->
  (exists d, In d (dels st) /\ live_on s now d = true) ->
  (forall d, In d (dels st) -> live_on s now d = true -> d_attempt_at d <= now) ->
  Z.of_nat (length (filter (eligible st s now) (dels st))) <= max ->
  (forall m', In m' (msgs st) ->
              0 <= m_size m' /\ m_size m' * Z.of_nat (length (returned ++ others)) <= pull_max_bytes) ->
  exists d, In d (dels st) /\ live_on s now d = true /\
    ((dl_due st d = true /\
      exists d', In d' (dels (post st now (Pull name max returned others w fz fr))) /\ d_id d' = d_id d /\
                 d_completed d' = Some w) \/
     (dl_due st d = false /\
      exists p, In p (pulled_of (answer st now (Pull name max returned others w fz fr))) /\
                p_ack p = d_id d /\ p_msg p = d_msg d)).
Proof.
  intros HR HL Hv Hmax Hf Hex Hdue Hlim Hbud.
  destruct (reachable_ok st HR) as [U R].
  destruct (C01_ordered_backlog_never_deadlocks st s now HR Hex Hdue) as [d [Hd He]].
  pose proof (offered st now name max returned others w fz fr s d U HL Hv Hmax Hf Hd He Hlim) as Hmem.
  assert (Hm : exists m, get_msg st (d_msg d) = Some m).
  { destruct R as (_&_&_&_&_&R6&_). specialize (R6 d Hd). apply has_id_in in R6.
    apply in_map_iff in R6. destruct R6 as [m [Em Hm]]. exists m.
    destruct U as (_&_&UM&_&_). unfold get_msg. rewrite <- Em. apply find_id_in_nodup; assumption. }
  destruct Hm as [m Hgm].
  exists d. split; [exact Hd|]. split.
  { unfold eligible in He. unfold live_on.
    apply andb_true_iff in He. destruct He as [He _]. apply andb_true_iff in He. destruct He as [He _]. exact He. }
  destruct (selected_is_served st now name max returned others w fz fr s d m U HL Hv Hmax Hf Hd Hmem Hgm Hbud)
    as [[Hdue' K]|[Hdue' [p [K1 [K2 [K3 _]]]]]].
  - left. split; assumption.
  - right. split; [exact Hdue'|]. exists p. auto.
Qed.

(* non-vacuity: a chain of two same-key deliveries, the first one outstanding: the second is
   blocked, the first is the unblocked head *)
Example chain_of_two :
  let d1 := mkDel 1%N 10%N 5%N 100 100 0 None 1000 None None in
  let d2 := mkDel 2%N 11%N 5%N 101 101 0 None 1000 (Some 1%N) None in
  let st := mkState [] [] [] [d1; d2] [] in
  lb_ok (dels st) (fun i => N.to_nat i) /\ pred_blocks st 200 d2 = true /\ pred_blocks st 200 d1 = false.
Proof.
  cbv zeta. split; [|split; vm_compute; reflexivity].
  intros d pd Hd Hpd Hl. cbn [dels In] in Hd, Hpd.
  destruct Hd as [<-|[<-|[]]]; cbn in Hl; [discriminate|].
  destruct Hpd as [<-|[<-|[]]]; cbn in Hl; inversion Hl. cbn. split; [reflexivity|]. apply Nat.lt_succ_diag_r.
Qed.

Print Assumptions backlog_has_unblocked_head.
Print Assumptions C01_ordered_backlog_never_deadlocks.
Print Assumptions C01_pull_serves_a_due_backlog.
