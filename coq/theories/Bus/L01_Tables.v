(* Bus/L01_Tables.v -- generic list / id-keyed table lemmas used by the C01 proofs. *)
From MB Require Import Base.
From MB.Bus Require Import State.
Open Scope list_scope.

(* ---- id lists ---- *)
Lemma mem_id_in i l : mem_id i l = true <-> In i l.
Proof.
  unfold mem_id. rewrite existsb_exists. split.
  - intros [x [Hx E]]. apply N.eqb_eq in E. subst. exact Hx.
  - intros H. exists i. split; [exact H|apply N.eqb_refl].
Qed.

Lemma mem_id_notin i l : mem_id i l = false <-> ~ In i l.
Proof.
  rewrite <- mem_id_in. destruct (mem_id i l); split; congruence.
Qed.

Lemma mem_id_app i a b : mem_id i (a ++ b) = mem_id i a || mem_id i b.
Proof. unfold mem_id. apply existsb_app. Qed.

Lemma nodup_ids_NoDup l : nodup_ids l = true -> NoDup l.
Proof.
  induction l as [|a l IH]; cbn [nodup_ids]; intros H; [constructor|].
  apply andb_true_iff in H. destruct H as [H1 H2].
  constructor; [|apply IH; exact H2].
  apply Bool.negb_true_iff in H1. apply mem_id_notin in H1. exact H1.
Qed.

Lemma in_ins_id x i l : In x (ins_id i l) -> x = i \/ In x l.
Proof.
  induction l as [|a l IH]; cbn [ins_id].
  - intros [H|[]]; auto.
  - destruct (i <? a)%N.
    + intros [H|H]; auto.
    + destruct (N.eqb i a).
      * auto.
      * intros [H|H]; [right; left; exact H|]. apply IH in H.
        destruct H; [left|right; right]; assumption.
Qed.

Lemma in_sort_ids x l : In x (sort_ids l) -> In x l.
Proof.
  induction l as [|a l IH]; cbn [sort_ids fold_right]; [auto|].
  intros H. apply in_ins_id in H. destruct H as [->|H]; [left; reflexivity|right; apply IH; exact H].
Qed.

(* ---- generic ---- *)
Lemma nodup_map_inj {A B} (f : A -> B) l a b :
  NoDup (map f l) -> In a l -> In b l -> f a = f b -> a = b.
Proof.
  induction l as [|c l IH]; intros ND Ha Hb E; [destruct Ha|].
  cbn [map] in ND. inversion ND as [|? ? Hn ND']; subst.
  destruct Ha as [<-|Ha], Hb as [<-|Hb]; auto.
  - exfalso; apply Hn. rewrite E. apply in_map; exact Hb.
  - exfalso; apply Hn. rewrite <- E. apply in_map; exact Ha.
Qed.

Lemma nodup_map_filter {A B} (f : A -> B) (p : A -> bool) l :
  NoDup (map f l) -> NoDup (map f (filter p l)).
Proof.
  induction l as [|y l IH]; cbn [filter map]; intros Hd; [constructor|].
  inversion Hd as [|a b Hy Hd']; subst.
  destruct (p y); [|apply IH; exact Hd'].
  cbn [map]. constructor; [|apply IH; exact Hd'].
  intros Hi. apply Hy. apply in_map_iff in Hi. destruct Hi as [r [He Hr]].
  apply filter_In in Hr. destruct Hr as [Hr _]. rewrite <- He. apply in_map; exact Hr.
Qed.

Lemma Forall2_in_l {A B} (R : A -> B -> Prop) l1 l2 a :
  Forall2 R l1 l2 -> In a l1 -> exists b, In b l2 /\ R a b.
Proof.
  induction 1 as [|x y l1 l2 Hxy HF IH]; intros Hi; [destruct Hi|].
  destruct Hi as [<-|Hi].
  - exists y. split; [left; reflexivity|exact Hxy].
  - destruct (IH Hi) as [b [Hb Hr]]. exists b. split; [right; exact Hb|exact Hr].
Qed.

Lemma Forall2_in_r {A B} (R : A -> B -> Prop) l1 l2 b :
  Forall2 R l1 l2 -> In b l2 -> exists a, In a l1 /\ R a b.
Proof.
  induction 1 as [|x y l1 l2 Hxy HF IH]; intros Hi; [destruct Hi|].
  destruct Hi as [<-|Hi].
  - exists x. split; [left; reflexivity|exact Hxy].
  - destruct (IH Hi) as [a [Ha Hr]]. exists a. split; [right; exact Ha|exact Hr].
Qed.

Lemma Forall2_map_eq {A B C} (f : A -> C) (g : B -> C) l1 l2 :
  Forall2 (fun a b => f a = g b) l1 l2 -> map f l1 = map g l2.
Proof.
  induction 1 as [|x y l1 l2 Hxy HF IH]; [reflexivity|].
  cbn [map]. rewrite Hxy, IH. reflexivity.
Qed.

Lemma Forall2_impl {A B} (R S : A -> B -> Prop) l1 l2 :
  (forall a b, R a b -> S a b) -> Forall2 R l1 l2 -> Forall2 S l1 l2.
Proof.
  intros H. induction 1; constructor; auto.
Qed.

Section FlatOpt.
  Context {A B : Type} (f : A -> option B).
  Definition optl (i : A) : list B := match f i with Some d => [d] | None => [] end.

  Lemma flat_map_opt_in l x : In x (flat_map optl l) <-> exists i, In i l /\ f i = Some x.
  Proof.
    rewrite in_flat_map. unfold optl. split; intros [i [Hi H]]; exists i; split; auto.
    - destruct (f i); [destruct H as [<-|[]]; reflexivity|destruct H].
    - rewrite H. left; reflexivity.
  Qed.

  Lemma flat_map_opt_len l : (length (flat_map optl l) <= length l)%nat.
  Proof.
    induction l as [|a l IH]; cbn [flat_map length]; [lia|].
    rewrite app_length. unfold optl at 1. destruct (f a); cbn [length]; lia.
  Qed.

  Lemma flat_map_opt_full l :
    length (flat_map optl l) = length l -> forall i, In i l -> exists d, f i = Some d.
  Proof.
    induction l as [|a l IH]; intros H i Hi; [destruct Hi|].
    cbn [flat_map length] in H. rewrite app_length in H.
    pose proof (flat_map_opt_len l) as L. unfold optl at 1 in H.
    destruct (f a) as [d|] eqn:E; cbn [length] in H.
    - destruct Hi as [<-|Hi]; [exists d; exact E|]. apply IH; [lia|exact Hi].
    - exfalso. lia.
  Qed.
End FlatOpt.

(* ---- id-keyed tables ---- *)
Section Tbl.
  Context {R : Type} (key : R -> id).

  Lemma in_ins r x l : In x (ins key r l) <-> x = r \/ In x l.
  Proof.
    induction l as [|a l IH]; cbn [ins].
    - cbn [In]. split; intros [H|H]; auto.
    - destruct (key r <? key a)%N; cbn [In].
      + split; intros [H|H]; auto.
      + rewrite IH. tauto.
  Qed.

  Lemma find_id_some i l r : find_id key i l = Some r -> In r l /\ key r = i.
  Proof.
    induction l as [|a l IH]; cbn [find_id]; [discriminate|].
    destruct (N.eqb_spec (key a) i) as [E|E].
    - intros H; injection H as <-. split; [left; reflexivity|exact E].
    - intros H. apply IH in H. destruct H as [H1 H2]. split; [right; exact H1|exact H2].
  Qed.

  Lemma find_id_none i l : find_id key i l = None -> forall r, In r l -> key r <> i.
  Proof.
    induction l as [|a l IH]; cbn [find_id]; intros H r Hr; [destruct Hr|].
    destruct (N.eqb_spec (key a) i) as [E|E]; [discriminate|].
    destruct Hr as [<-|Hr]; [exact E|]. apply IH; assumption.
  Qed.

  Lemma has_id_false i l : has_id key i l = false -> forall r, In r l -> key r <> i.
  Proof.
    unfold has_id. destruct (find_id key i l) eqn:E; [discriminate|].
    intros _. apply find_id_none. exact E.
  Qed.

  Lemma find_id_nodup i l r : NoDup (map key l) -> In r l -> key r = i -> find_id key i l = Some r.
  Proof.
    intros ND Hr E. destruct (find_id key i l) as [r'|] eqn:F.
    - apply find_id_some in F. destruct F as [F1 F2]. f_equal.
      apply (nodup_map_inj key l); auto. congruence.
    - exfalso. exact (find_id_none _ _ F r Hr E).
  Qed.

  Lemma find_id_ins_other i r l : key r <> i -> find_id key i (ins key r l) = find_id key i l.
  Proof.
    intros Hn. induction l as [|a l IH]; cbn [ins find_id].
    - destruct (N.eqb_spec (key r) i); [contradiction|reflexivity].
    - destruct (key r <? key a)%N; cbn [find_id].
      + destruct (N.eqb_spec (key r) i); [contradiction|reflexivity].
      + rewrite IH. reflexivity.
  Qed.

  Lemma find_id_map (g : R -> R) i l :
    (forall x, In x l -> key (g x) = key x) ->
    find_id key i (map g l) = option_map g (find_id key i l).
  Proof.
    induction l as [|a l IH]; intros H; cbn [map find_id]; [reflexivity|].
    rewrite (H a (or_introl eq_refl)).
    destruct (N.eqb (key a) i); [reflexivity|].
    apply IH. intros x Hx. apply H. right; exact Hx.
  Qed.

  Lemma find_id_filter (q : R -> bool) i l x :
    find_id key i l = Some x -> q x = true -> find_id key i (filter q l) = Some x.
  Proof.
    induction l as [|a l IH]; cbn [find_id filter]; [discriminate|].
    destruct (N.eqb (key a) i) eqn:E.
    - intros H Hq. injection H as ->. rewrite Hq. cbn [find_id]. rewrite E. reflexivity.
    - intros H Hq. destruct (q a); [cbn [find_id]; rewrite E|]; apply IH; assumption.
  Qed.

  Lemma in_upd_where_keep (p : R -> bool) f l x : In x l -> p x = false -> In x (upd_where p f l).
  Proof.
    intros H E. unfold upd_where. apply in_map_iff. exists x. rewrite E. auto.
  Qed.

  Lemma in_upd_where_hit (p : R -> bool) f l x : In x l -> p x = true -> In (f x) (upd_where p f l).
  Proof.
    intros H E. unfold upd_where. apply in_map_iff. exists x. rewrite E. auto.
  Qed.

  Lemma in_upd_where_inv (p : R -> bool) f l y :
    In y (upd_where p f l) ->
    exists x, In x l /\ ((p x = false /\ y = x) \/ (p x = true /\ y = f x)).
  Proof.
    unfold upd_where. rewrite in_map_iff. intros [x [E Hx]]. exists x. split; [exact Hx|].
    destruct (p x); [right|left]; auto.
  Qed.

  Lemma map_key_upd_where (p : R -> bool) f l :
    (forall x, key (f x) = key x) -> map key (upd_where p f l) = map key l.
  Proof.
    intros H. unfold upd_where. rewrite map_map. apply map_ext. intros a. destruct (p a); auto.
  Qed.

  Lemma find_id_upd_where (p : R -> bool) f i l :
    (forall x, In x l -> p x = true -> key (f x) = key x) ->
    find_id key i (upd_where p f l) = option_map (fun r => if p r then f r else r) (find_id key i l).
  Proof.
    intros H. unfold upd_where. apply find_id_map.
    intros x Hx. destruct (p x) eqn:E; [apply H; assumption|reflexivity].
  Qed.

  Lemma in_del_ids ids l x : In x (del_ids key ids l) <-> In x l /\ ~ In (key x) ids.
  Proof.
    unfold del_ids. rewrite filter_In. rewrite Bool.negb_true_iff.
    change (existsb (N.eqb (key x)) ids) with (mem_id (key x) ids).
    rewrite mem_id_notin. tauto.
  Qed.
End Tbl.
