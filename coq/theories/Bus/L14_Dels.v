(* Bus/L14_Dels.v -- how a step changes expires_at of the delivery rows (used by T_C14):
   only the reviving UPDATE of a seek rewrites it. *)
From MB Require Import Base.
From MB.Bus Require Import State Ops Step Defs L04_Lists L04_Evo L04_Pull.
Local Open Scope string_scope.
Open Scope list_scope.
Open Scope Z_scope.

Ltac bsplit :=
  repeat match goal with
         | H : _ && _ = true |- _ => apply andb_true_iff in H; destruct H
         end.

(* ---- generic ---- *)
Lemma find_in {A} (p : A -> bool) l x : find p l = Some x -> In x l /\ p x = true.
Proof. apply find_some. Qed.

Lemma find_live_sub_in' st name s : find_live_sub st name = Some s -> In s (subs st).
Proof. unfold find_live_sub. intros H. apply find_some in H. apply H. Qed.

Lemma find_id_in_nodup' {R} (key : R -> id) r l :
  NoDup (map key l) -> In r l -> find_id key (key r) l = Some r.
Proof.
  induction l as [|y l IH]; cbn [find_id map]; intros Hd Hi; [destruct Hi|].
  inversion Hd as [|a b Hy Hd']; subst.
  destruct Hi as [->|Hi].
  - rewrite N.eqb_refl. reflexivity.
  - destruct (N.eqb (key y) (key r)) eqn:E.
    + apply N.eqb_eq in E. exfalso. apply Hy. rewrite E. apply in_map; exact Hi.
    + apply IH; assumption.
Qed.

(* ---- rows whose expires_at is kept ---- *)
Definition keepE (x x' : del) : Prop := d_expires x' = d_expires x.

Lemma keepE_refl x : keepE x x.
Proof. reflexivity. Qed.

Lemma keepE_trans x y z : keepE x y -> keepE y z -> keepE x z.
Proof. unfold keepE; congruence. Qed.

Lemma evo_keepE_trans F l l1 l2 : evo keepE F l l1 -> evo keepE F l1 l2 -> evo keepE F l l2.
Proof.
  intros A B. eapply evo_trans; [exact A|exact B|]. intros x x1 x2 _ _. apply keepE_trans.
Qed.

Lemma evo_keepE_refl F l : evo keepE F l l.
Proof. apply evo_refl. apply keepE_refl. Qed.

Lemma evo_eq_keepE F l l' : evo eq F l l' -> evo keepE F l l'.
Proof.
  intros A. eapply evo_mono; [exact A| |apply incl_refl]. intros x x' _ ->. apply keepE_refl.
Qed.

Lemma evo_upd_keepE F (p : del -> bool) f l :
  (forall x, d_id (f x) = d_id x /\ d_expires (f x) = d_expires x) -> evo keepE F l (upd_where p f l).
Proof.
  intros Hf. eapply evo_mono; [apply evo_upd; intros x; apply Hf| |apply incl_refl].
  intros x x' _ ->. unfold keepE. destruct (p x); [apply Hf|reflexivity].
Qed.

Lemma dead_letter_evoE st d dlt now fr st' fr' w n :
  dead_letter st d dlt now fr = (st', fr', w, n) ->
  subs st' = subs st /\ incl (fids fr') (fids fr) /\ evo keepE (fids fr) (dels st) (dels st').
Proof.
  intros H. apply dead_letter_evo in H. destruct H as [S [I V]].
  split; [exact S|]. split; [exact I|].
  eapply evo_mono; [exact V| |apply incl_refl].
  intros x x' _ HD. unfold DL in HD. subst x'. unfold keepE.
  destruct (N.eqb (d_id x) (d_id d)); reflexivity.
Qed.

Lemma nack_each_evoE now wnow fz : forall ds st fr st' fr' w n,
  nack_each st ds now wnow fz fr = (st', fr', w, n) ->
  subs st' = subs st /\ incl (fids fr') (fids fr) /\ evo keepE (fids fr) (dels st) (dels st').
Proof.
  assert (Z0 : forall st fr, subs st = subs st /\ incl (fids fr) (fids fr) /\
                             evo keepE (fids fr) (dels st) (dels st)).
  { intros. split; [reflexivity|]. split; [apply incl_refl|apply evo_keepE_refl]. }
  induction ds as [|d r IH]; intros st fr st' fr' w n H; cbn [nack_each] in H.
  - inversion H; subst. apply Z0.
  - destruct (get_sub st (d_sub d)) as [s|]; [|inversion H; subst; apply Z0].
    cbv zeta in H.
    match type of H with context [match ?X with (_, _) => _ end] =>
      destruct X as [[[st1 fr1] w1] n1] eqn:E1 end.
    destruct (nack_each st1 r now wnow fz fr1) as [[[st2 fr2] w2] n2] eqn:E2.
    inversion H; subst.
    assert (A : subs st1 = subs st /\ incl (fids fr1) (fids fr) /\
                evo keepE (fids fr) (dels st) (dels st1)).
    { destruct (full_dl s && (max_attempts_of s <=? d_attempts d)).
      - destruct (s_dl_topic s) as [dlt|];
          [eapply dead_letter_evoE; exact E1|inversion E1; subst; apply Z0].
      - inversion E1; subst. cbn [set_dels dels subs].
        split; [reflexivity|]. split; [apply incl_refl|].
        apply evo_upd_keepE. intros x; split; reflexivity. }
    destruct A as [S1 [I1 V1]]. apply IH in E2. destruct E2 as [S2 [I2 V2]].
    split; [congruence|]. split; [eapply incl_tran; eauto|].
    eapply evo_keepE_trans; [exact V1|eapply evo_F_mono; eauto].
Qed.

Lemma AR_evoE s strict maxb now wnow fz cands st first bytes fr st' fr' ps w n :
  apply_results st s cands first strict bytes maxb now wnow fz fr = (st', fr', ps, w, n) ->
  subs st' = subs st /\ incl (fids fr') (fids fr) /\ evo keepE (fids fr) (dels st) (dels st').
Proof.
  intros H.
  refine (AR_ind s strict maxb now wnow fz
    (fun cands st fr st' fr' ps n =>
       subs st' = subs st /\ incl (fids fr') (fids fr) /\ evo keepE (fids fr) (dels st) (dels st'))
    _ _ _ _ _ cands st first bytes fr st' fr' ps w n H); clear.
  - intros st fr. split; [reflexivity|]. split; [apply incl_refl|apply evo_keepE_refl].
  - intros d r st fr. split; [reflexivity|]. split; [apply incl_refl|apply evo_keepE_refl].
  - intros d r st fr st' fr' ps n IHQ. exact IHQ.
  - intros d r dlt st fr st1 fr1 w1 n1 st' fr' ps w2 n2 bytes _ E1 _ [S2 [I2 V2]].
    apply dead_letter_evoE in E1. destruct E1 as [S1 [I1 V1]].
    split; [congruence|]. split; [eapply incl_tran; eauto|].
    eapply evo_keepE_trans; [exact V1|eapply evo_F_mono; eauto].
  - intros d r p st fr st' fr' ps w2 n2 bytes _ _ _ _ [S2 [I2 V2]].
    split; [exact S2|]. split; [exact I2|].
    eapply evo_keepE_trans; [|exact V2].
    unfold lease_state. cbn [set_dels dels]. apply evo_upd_keepE. intros x; split; reflexivity.
Qed.

Lemma sweep_each_evoE wnow : forall ds st fr st' fr' w n,
  sweep_each st ds wnow fr = (st', fr', w, n) ->
  subs st' = subs st /\ incl (fids fr') (fids fr) /\ evo keepE (fids fr) (dels st) (dels st').
Proof.
  assert (Z0 : forall st fr, subs st = subs st /\ incl (fids fr) (fids fr) /\
                             evo keepE (fids fr) (dels st) (dels st)).
  { intros. split; [reflexivity|]. split; [apply incl_refl|apply evo_keepE_refl]. }
  induction ds as [|i r IH]; intros st fr st' fr' w n H; cbn [sweep_each] in H.
  - inversion H; subst. apply Z0.
  - destruct (get_del st i) as [d|]; [|inversion H; subst; apply Z0].
    destruct (get_sub st (d_sub d)) as [s|]; [|inversion H; subst; apply Z0].
    destruct (s_dl_topic s) as [dlt|]; [|inversion H; subst; apply Z0].
    destruct (dead_letter st d dlt wnow fr) as [[[st1 fr1] w1] n1] eqn:E1.
    destruct (sweep_each st1 r wnow fr1) as [[[st2 fr2] w2] n2] eqn:E2.
    inversion H; subst.
    apply dead_letter_evoE in E1. destruct E1 as [S1 [I1 V1]].
    apply IH in E2. destruct E2 as [S2 [I2 V2]].
    split; [congruence|]. split; [eapply incl_tran; eauto|].
    eapply evo_keepE_trans; [exact V1|eapply evo_F_mono; eauto].
Qed.

(* ---- seek: the only writer of expires_at ---- *)
Definition SeekR (s : sub) (w : time) (x x' : del) : Prop :=
  d_expires x' = d_expires x \/
  (d_sub x = s_id s /\ d_completed x <> None /\ d_completed x' = None /\
   d_expires x' = w + s_msg_ttl s /\ d_attempt_at x' = w).

Lemma is_some_not_none {A} (o : option A) : is_some o = true -> o <> None.
Proof. destruct o; [intros _; discriminate|discriminate]. Qed.

Lemma seek_time_evoE F st s target now wnow :
  evo (SeekR s wnow) F (dels st) (dels (fst (seek_time st s target now wnow))).
Proof.
  unfold seek_time. cbn [fst set_dels dels].
  eapply evo_trans; [|apply evo_upd; reflexivity|]; [apply evo_upd; reflexivity|].
  intros x x1 x2 _ _ E1 E2. cbv beta in E1, E2.
  destruct (N.eqb (d_sub x) (s_id s) && (now <=? d_expires x) && (d_published x <=? target) &&
            is_none (d_completed x)) eqn:C1.
  - (* completed by the first update: cannot be revived *)
    subst x1. cbn [d_set_completed d_sub d_expires d_published d_completed] in E2.
    bsplit.
    match goal with H1 : (d_published x <=? target) = true |- _ => apply Z.leb_le in H1 end.
    assert (Hf : (target <? d_published x) = false) by (apply Z.ltb_ge; lia).
    rewrite Hf in E2. rewrite !andb_false_r in E2. cbn [andb] in E2.
    subst x2. left. reflexivity.
  - subst x1.
    destruct (N.eqb (d_sub x) (s_id s) && (now <=? d_expires x) && (target <? d_published x) &&
              is_some (d_completed x)) eqn:C2.
    + subst x2. right. bsplit.
      match goal with H1 : N.eqb (d_sub x) (s_id s) = true |- _ => apply N.eqb_eq in H1 end.
      repeat split; try assumption; try reflexivity.
      apply is_some_not_none. assumption.
    + subst x2. left. reflexivity.
Qed.

Definition SnapMid (n : snap) (w : time) (x x2 : del) : Prop :=
  x2 = x \/ (x2 = d_set_completed w x /\
             (d_published x < n_before n \/ mem_id (d_msg x) (n_acked n) = true)).

Lemma seek_snap_evoE F st s n now wnow :
  evo (SeekR s wnow) F (dels st) (dels (fst (seek_snap st s n now wnow))).
Proof.
  unfold seek_snap. cbn [fst set_dels dels].
  set (p1 := fun d => N.eqb (d_sub d) (s_id s) && (now <=? d_expires d) &&
                      (d_published d <? n_before n) && is_none (d_completed d)).
  set (p2 := fun d => N.eqb (d_sub d) (s_id s) && (now <=? d_expires d) &&
                      mem_id (d_msg d) (n_acked n) && is_none (d_completed d)).
  set (ds1 := upd_where p1 (d_set_completed wnow) (dels st)).
  assert (V12 : forall sel : list id,
             evo (SnapMid n wnow) F (dels st)
                 (match sel with [] => ds1 | _ => upd_where p2 (d_set_completed wnow) ds1 end)).
  { assert (V1 : evo (SnapMid n wnow) F (dels st) ds1).
    { unfold ds1. eapply evo_mono; [apply evo_upd; reflexivity| |apply incl_refl].
      intros x x' _ ->. unfold SnapMid. destruct (p1 x) eqn:C1; [|left; reflexivity].
      right. split; [reflexivity|]. left. unfold p1 in C1. bsplit.
      match goal with H1 : (d_published x <? n_before n) = true |- _ => apply Z.ltb_lt in H1; exact H1 end. }
    intros [|a sel]; [exact V1|].
    eapply evo_trans; [exact V1|apply evo_upd; reflexivity|].
    intros x x1 x2 _ _ M1 E2. cbv beta in E2. unfold SnapMid in *.
    destruct M1 as [->|[-> R]].
    - destruct (p2 x) eqn:C2; [|left; exact E2].
      right. split; [exact E2|]. right. unfold p2 in C2. bsplit. assumption.
    - right. split; [|exact R]. subst x2.
      destruct (p2 (d_set_completed wnow x)); reflexivity. }
  eapply evo_trans; [apply (V12 (n_acked n))|apply evo_upd; reflexivity|].
  intros x x2 x3 _ _ M E3. cbv beta in E3. unfold SnapMid in M.
  destruct M as [->|[-> R]].
  - destruct (N.eqb (d_sub x) (s_id s) && (n_before n <=? d_published x) &&
              negb (mem_id (d_msg x) (n_acked n)) && is_some (d_completed x)) eqn:C3.
    + subst x3. right. bsplit.
      match goal with H1 : N.eqb (d_sub x) (s_id s) = true |- _ => apply N.eqb_eq in H1 end.
      repeat split; try assumption; try reflexivity.
      apply is_some_not_none. assumption.
    + subst x3. left. reflexivity.
  - cbn [d_set_completed d_sub d_expires d_published d_completed d_msg] in E3.
    assert (Hf : (n_before n <=? d_published x) && negb (mem_id (d_msg x) (n_acked n)) = false).
    { destruct R as [R|R].
      - assert (Hf : (n_before n <=? d_published x) = false) by (apply Z.leb_gt; exact R).
        rewrite Hf. reflexivity.
      - rewrite R. cbn [negb]. apply andb_false_r. }
    rewrite <- !andb_assoc in E3. rewrite (andb_assoc (n_before n <=? d_published x)) in E3.
    rewrite Hf in E3. cbn [andb] in E3. rewrite andb_false_r in E3.
    subst x3. left. reflexivity.
Qed.

(* ---- the description of a step ---- *)
Definition ExpR (st : state) (o : op) (d d' : del) : Prop :=
  d_expires d' = d_expires d \/
  (is_seek_of st o (d_sub d) = true /\ d_completed d <> None /\ d_completed d' = None /\
   exists w s, op_wnow o = Some w /\ get_sub st (d_sub d) = Some s /\
               d_expires d' = w + s_msg_ttl s /\ d_attempt_at d' = w).

Definition rel_desc (P : del -> del -> Prop) (l l' : list del) : Prop :=
  (exists F, evo P F l l') \/
  (forall x', In x' l' -> exists x, In x l /\ d_id x = d_id x' /\ P x x').

Lemma rel_desc_use P l l' :
  rel_desc P l l' -> NoDup (map d_id l) -> NoDup (map d_id l') ->
  forall x x', In x l -> In x' l' -> d_id x' = d_id x -> P x x'.
Proof.
  intros [[F V]|V] Hd Hd' x x' Hx Hx' He.
  - eapply evo_rel; eauto.
  - destruct (V x' Hx') as [y [Hy [Ey Py]]].
    assert (y = x) by (apply (nodup_key_inj d_id l y x Hd Hy Hx); congruence).
    subst y. exact Py.
Qed.

Definition exp_desc (st : state) (now : time) (o : op) : Prop :=
  rel_desc (ExpR st o) (dels st) (dels (post st now o)).

Lemma ExpR_keepE st o x x' : keepE x x' -> ExpR st o x x'.
Proof. intros H. left. exact H. Qed.

Lemma expd_keep st now o F :
  evo keepE F (dels st) (dels (post st now o)) -> exp_desc st now o.
Proof.
  intros V. left. exists F. eapply evo_mono; [exact V| |apply incl_refl].
  intros x x' _. apply ExpR_keepE.
Qed.

Lemma expd_same st now o : dels (post st now o) = dels st -> exp_desc st now o.
Proof. intros H. apply (expd_keep st now o []). rewrite H. apply evo_keepE_refl. Qed.

Ltac crush_same :=
  apply expd_same; unfold post, step;
  repeat (match goal with |- context [match ?x with _ => _ end] => destruct x end);
  reflexivity.

Lemma expd_publish st now t ms fr : exp_desc st now (Publish t ms fr).
Proof.
  destruct (negb (valid_topic_name t)) eqn:Ev;
    [apply expd_same; unfold post, step; rewrite Ev; reflexivity|].
  destruct (find_live_topic st t) as [tp|] eqn:Et;
    [|apply expd_same; unfold post, step; rewrite Ev, Et; reflexivity].
  destruct (publish_all st tp ms fr) as [[[[st' fr'] w] n]|] eqn:E;
    [|apply expd_same; unfold post, step; rewrite Ev, Et, E; reflexivity].
  apply (expd_keep _ _ _ (fids fr)). unfold post, step. rewrite Ev, Et, E. cbn [done r_state].
  apply publish_all_evo in E. destruct E as [_ [_ V]]. apply evo_eq_keepE. exact V.
Qed.

Lemma expd_modack st now name ids secs w : exp_desc st now (ModAck name ids secs w).
Proof.
  apply (expd_keep _ _ _ []). unfold post, step.
  destruct (negb (valid_sub_name name)); [apply evo_keepE_refl|].
  destruct ids as [ids|]; [|apply evo_keepE_refl].
  unfold do_delay.
  destruct (secs * sec <=? 0); cbn [done r_state set_dels dels];
    apply evo_upd_keepE; intros x; split; reflexivity.
Qed.

Lemma expd_ack st now name ids w : exp_desc st now (Ack name ids w).
Proof.
  apply (expd_keep _ _ _ []). unfold post, step.
  destruct (negb (valid_sub_name name)); [apply evo_keepE_refl|].
  destruct ids as [ids|]; [|apply evo_keepE_refl].
  unfold do_ack. cbn [done r_state set_dels dels].
  apply evo_upd_keepE; intros x; split; reflexivity.
Qed.

Lemma expd_pull st now name max returned others w fz fr :
  exp_desc st now (Pull name max returned others w fz fr).
Proof.
  apply (expd_keep _ _ _ (fids fr)). unfold post, step.
  destruct (negb (valid_sub_name name)); [apply evo_keepE_refl|].
  destruct (max <? 1); [apply evo_keepE_refl|].
  destruct (find_live_sub st name) as [s|]; [|apply evo_keepE_refl].
  match goal with |- context [apply_results ?a ?b ?c ?d ?e ?f ?g ?h ?i ?j ?k] =>
    destruct (apply_results a b c d e f g h i j k) as [[[[st1 fr1] ps] wk] n] eqn:E end.
  cbn [done r_state]. apply AR_evoE in E. destruct E as [_ [_ V]].
  cbn [set_subs dels] in V. exact V.
Qed.

Lemma SeekR_ExpR st o name s w x x' :
  ids_unique st -> find_live_sub st name = Some s ->
  is_seek_of st o (s_id s) = true -> op_wnow o = Some w ->
  SeekR s w x x' -> ExpR st o x x'.
Proof.
  intros U Es Hseek Hw [H|[H1 [H2 [H3 [H4 H5]]]]]; [left; exact H|].
  right. rewrite H1. split; [exact Hseek|]. split; [exact H2|]. split; [exact H3|].
  exists w, s. split; [exact Hw|]. split; [|split; assumption].
  unfold get_sub. apply find_id_in_nodup'; [apply U|]. eapply find_live_sub_in'. exact Es.
Qed.

Lemma expd_seek_time st now name target w :
  ids_unique st -> exp_desc st now (SeekTime name target w).
Proof.
  intros U.
  destruct (negb (valid_sub_name name)) eqn:Ev;
    [apply expd_same; unfold post, step; rewrite Ev; reflexivity|].
  destruct (find_live_sub st name) as [s|] eqn:Es;
    [|apply expd_same; unfold post, step; rewrite Ev, Es; reflexivity].
  left. exists []. unfold post, step. rewrite Ev, Es.
  pose proof (seek_time_evoE [] st s target now w) as V.
  destruct (seek_time st s target now w) as [st' wk]. cbn [fst] in V. cbn [done r_state].
  eapply evo_mono; [exact V| |apply incl_refl].
  intros x x' _. apply (SeekR_ExpR st _ name s w); auto.
  unfold is_seek_of, sub_of_name. rewrite Es. cbn [option_map]. apply N.eqb_refl.
Qed.

Lemma expd_seek_snap st now name sn w :
  ids_unique st -> exp_desc st now (SeekSnap name sn w).
Proof.
  intros U.
  destruct (negb (valid_sub_name name)) eqn:Ev;
    [apply expd_same; unfold post, step; rewrite Ev; reflexivity|].
  destruct (negb (valid_snap_name sn)) eqn:Ev2;
    [apply expd_same; unfold post, step; rewrite Ev, Ev2; reflexivity|].
  destruct (find_live_sub st name) as [s|] eqn:Es;
    [|apply expd_same; unfold post, step; rewrite Ev, Ev2, Es; reflexivity].
  destruct (find_snap st sn) as [n|] eqn:En;
    [|apply expd_same; unfold post, step; rewrite Ev, Ev2, Es, En; reflexivity].
  left. exists []. unfold post, step. rewrite Ev, Ev2, Es, En.
  pose proof (seek_snap_evoE [] st s n now w) as V.
  destruct (seek_snap st s n now w) as [st' wk]. cbn [fst] in V. cbn [done r_state].
  eapply evo_mono; [exact V| |apply incl_refl].
  intros x x' _. apply (SeekR_ExpR st _ name s w); auto.
  unfold is_seek_of, sub_of_name. rewrite Es. cbn [option_map]. apply N.eqb_refl.
Qed.

Lemma expd_stream st now acks nacks w fz fr : exp_desc st now (StreamAckNack acks nacks w fz fr).
Proof.
  apply (expd_keep _ _ _ (fids fr)). unfold post, step. unfold do_ack.
  set (st1 := set_dels st (upd_where (ack_pred acks) (d_set_completed w) (dels st))).
  destruct (do_nack st1 nacks now w fz fr) as [[[st2 fr2] w2] n2] eqn:E.
  cbn [done r_state]. unfold do_nack in E. apply nack_each_evoE in E. destruct E as [_ [_ V2]].
  eapply evo_keepE_trans; [|exact V2].
  unfold st1. cbn [set_dels dels]. apply evo_upd_keepE. intros x; split; reflexivity.
Qed.

Lemma d_null_link_expires ids x :
  d_id (d_null_link ids x) = d_id x /\ d_expires (d_null_link ids x) = d_expires x.
Proof.
  unfold d_null_link. destruct (d_not_before x) as [p|]; [|split; reflexivity].
  destruct (mem_id p ids); split; reflexivity.
Qed.

Lemma expd_prune st o now chosen :
  dels (post st now o) = map (d_null_link chosen) (del_ids d_id chosen (dels st)) ->
  exp_desc st now o.
Proof.
  intros H. right. rewrite H. intros x' Hx'. apply in_map_iff in Hx'. destruct Hx' as [x [<- Hx]].
  apply in_del_ids in Hx. exists x. destruct (d_null_link_expires chosen x) as [A B].
  split; [exact Hx|]. split; [symmetry; exact A|]. left. exact B.
Qed.

Lemma expd_job st now j mn mx ch f w fr : exp_desc st now (Job j mn mx ch f w fr).
Proof.
  destruct f.
  - apply expd_same. unfold post, step, run_job. destruct j; reflexivity.
  - destruct j.
    + eapply expd_prune. reflexivity.
    + eapply expd_prune. reflexivity.
    + apply expd_same. reflexivity.
    + eapply expd_prune. reflexivity.
    + apply expd_same. reflexivity.
    + apply expd_same. unfold post, step, run_job.
      destruct (existsb (topic_has_messages st) ch); reflexivity.
    + apply expd_same. reflexivity.
    + apply (expd_keep _ _ _ (fids fr)). unfold post, step, run_job.
      destruct (sweep_each st ch w fr) as [[[st1 fr1] wk] n] eqn:E.
      cbn [done r_state]. apply sweep_each_evoE in E. destruct E as [_ [_ V]]. exact V.
Qed.

Lemma expd_create_sub st now q fresh w : exp_desc st now (CreateSub q fresh w).
Proof.
  apply expd_same. unfold post, step, create_sub.
  repeat (match goal with |- context [match ?x with _ => _ end] => destruct x end); reflexivity.
Qed.

Lemma expd_update_sub st now q paths w : exp_desc st now (UpdateSub q paths w).
Proof.
  apply expd_same. unfold post, step, update_sub.
  destruct (negb (valid_sub_name (q_name q))); [reflexivity|].
  destruct (find_live_sub st (q_name q)) as [s|]; [|reflexivity].
  match goal with |- context [upd_paths ?a ?b ?c ?d ?e] =>
    destruct (upd_paths a b c d e) as [c0|[[s' dl] t]] end; [reflexivity|].
  destruct (negb t); reflexivity.
Qed.

Lemma exp_desc_all st now o : ids_unique st -> exp_desc st now o.
Proof.
  intros U. destruct o.
  - crush_same.
  - crush_same.
  - crush_same.
  - crush_same.
  - crush_same.
  - crush_same.
  - apply expd_publish.
  - apply expd_create_sub.
  - crush_same.
  - apply expd_update_sub.
  - crush_same.
  - crush_same.
  - apply expd_modack.
  - apply expd_ack.
  - apply expd_pull.
  - apply expd_seek_time. exact U.
  - apply expd_seek_snap. exact U.
  - crush_same.
  - crush_same.
  - crush_same.
  - crush_same.
  - crush_same.
  - crush_same.
  - apply expd_stream.
  - crush_same.
  - apply expd_job.
Qed.
