(* Bus/T_C06.v -- C06: dead-lettering: bounded attempts, forwarded exactly once. *)
From Coq Require Import Permutation.
From MB Require Import Base.
From MB.Bus Require Import State Ops Step Defs L06_Lists L06_Rel L06_Step L06_DL L06_Legal T_Inv.
Local Open Scope string_scope.
Open Scope list_scope.
Open Scope Z_scope.

(* the subscriptions a dead-letter forward of message m into topic dlt reaches *)
Definition dl_receivers (st : state) (dlt : id) (m : msg) : list sub :=
  match get_topic st dlt with
  | Some t => if topic_live t
              then filter (fun s => filter_accepts (s_filter s) (m_attrs m)) (live_subs_of st dlt)
              else []
  | None => []
  end.

(* ---- the one routine all three paths call (deadLetterDelivery) ---- *)
Section DeadLetter.
  Variables (st : state) (d : del) (dlt : id) (now : time) (fr : fresh_dels) (m : msg).
  Hypothesis Huniq : ids_unique st.
  Hypothesis Hd : In d (dels st).
  Hypothesis Hm : get_msg st (d_msg d) = Some m.
  Let r := dead_letter st d dlt now fr.
  Let st' := fst (fst (fst r)).
  Hypothesis Hlegal : snd r = [].

  Lemma dl_g_id x : d_id (dl_g d now x) = d_id x.
  Proof. unfold dl_g. destruct (N.eqb (d_id x) (d_id d)); reflexivity. Qed.

  Lemma dl_facts :
    same_others st st' /\
    exists st1,
      dels st' = map (dl_g d now) (dels st1) /\
      (dl_receivers st dlt m = [] -> st1 = st) /\
      exists nd, Permutation (dels st1) (nd ++ dels st) /\
                 Forall2 (new_row m now) (dl_receivers st dlt m) nd /\
                 (forall x, In x nd -> ~ In (d_id x) (map d_id (dels st))).
  Proof. exact (dead_letter_spec st d dlt now fr m Hm Hlegal). Qed.

  Lemma dl_g_new nd x :
    (forall x, In x nd -> ~ In (d_id x) (map d_id (dels st))) -> In x nd -> dl_g d now x = x.
  Proof.
    intros N Hx. unfold dl_g. destruct (N.eqb (d_id x) (d_id d)) eqn:E; [|reflexivity].
    exfalso. apply N.eqb_eq in E. apply (N x Hx). rewrite E. apply in_map. exact Hd.
  Qed.

  (* the original is retired: completed at the transaction's time, nothing else changed *)
  Theorem dl_retires : In (d_set_completed now d) (dels st').
  Proof.
    destruct dl_facts as (O & st1 & Ed & Hnil & nd & P & F & N).
    rewrite Ed. apply in_map_iff. exists d. split.
    - unfold dl_g. rewrite N.eqb_refl. reflexivity.
    - eapply Permutation_in; [apply Permutation_sym; exact P|].
      apply in_or_app. right. exact Hd.
  Qed.

  (* the same message (same row: id, payload, attributes) is enqueued on every live
     subscription of the live dead-letter topic whose filter accepts it *)
  Theorem dl_forwards s : In s (dl_receivers st dlt m) ->
    exists d', In d' (dels st') /\ ~ In d' (dels st) /\ d_msg d' = d_msg d /\ d_sub d' = s_id s /\
               d_attempts d' = 0 /\ d_completed d' = None /\ d_published d' = now /\
               d_attempt_at d' = now + s_delay s /\ d_expires d' = now + s_msg_ttl s.
  Proof.
    intros Hs. destruct dl_facts as (O & st1 & Ed & Hnil & nd & P & F & N).
    destruct (Forall2_in_l _ _ _ s F Hs) as (x & Hx & Rx).
    destruct Rx as (R1&R2&R3&R4&R5&R6&R7).
    exists x. split; [|split; [|split; [|repeat split; assumption]]].
    - rewrite Ed. apply in_map_iff. exists x. split; [apply (dl_g_new nd); assumption|].
      eapply Permutation_in; [apply Permutation_sym; exact P|].
      apply in_or_app. left. exact Hx.
    - intros Hin. apply (N x Hx). apply in_map. exact Hin.
    - rewrite R1. apply (find_id_some m_id) in Hm. apply Hm.
  Qed.

  (* exactly once each, and nothing else is created or changed *)
  Theorem dl_exactly :
    let new := filter (fun x => negb (has_id d_id (d_id x) (dels st))) (dels st') in
    Permutation (map d_sub new) (map s_id (dl_receivers st dlt m)) /\
    (forall x, In x new -> d_msg x = d_msg d) /\
    (forall x, In x (dels st) -> d_id x <> d_id d -> In x (dels st')) /\
    topics st' = topics st /\ subs st' = subs st /\ msgs st' = msgs st /\ snaps st' = snaps st.
  Proof.
    intros new. destruct dl_facts as (O & st1 & Ed & Hnil & nd & P & F & N).
    assert (Hg_nd : map (dl_g d now) nd = nd).
    { rewrite <- (map_id nd) at 2. apply map_ext_in. intros x Hx. apply (dl_g_new nd); assumption. }
    assert (T1 : filter (fun x => negb (has_id d_id (d_id x) (dels st))) nd = nd).
    { apply filter_all_true. intros x Hx. apply negb_true_iff. apply has_id_false. apply N; exact Hx. }
    assert (T2 : filter (fun x => negb (has_id d_id (d_id x) (dels st)))
                        (map (dl_g d now) (dels st)) = []).
    { apply filter_all_false. intros y Hy. apply in_map_iff in Hy. destruct Hy as [x [<- Hx]].
      apply negb_false_iff. apply has_id_in. rewrite dl_g_id. apply in_map. exact Hx. }
    assert (Pnew : Permutation new nd).
    { unfold new. rewrite Ed.
      eapply Permutation_trans; [apply perm_filter; apply Permutation_map; exact P|].
      rewrite map_app, Hg_nd, filter_app, T1, T2, app_nil_r. apply Permutation_refl. }
    split; [|split; [|split]].
    - rewrite <- (new_rows_subs m now _ nd F). apply Permutation_map. exact Pnew.
    - intros x Hx. apply (Permutation_in _ Pnew) in Hx.
      destruct (Forall2_in_r _ _ _ x F Hx) as (s & _ & R1 & _).
      rewrite R1. apply (find_id_some m_id) in Hm. apply Hm.
    - intros x Hx Hne. rewrite Ed. apply in_map_iff. exists x. split.
      + unfold dl_g. apply N.eqb_neq in Hne. rewrite Hne. reflexivity.
      + eapply Permutation_in; [apply Permutation_sym; exact P|].
        apply in_or_app. right. exact Hx.
    - exact O.
  Qed.

  (* with a deleted dead-letter topic or no subscriber the delivery is just retired *)
  Theorem dl_no_target : dl_receivers st dlt m = [] ->
    dels st' = upd_where (fun x => N.eqb (d_id x) (d_id d)) (d_set_completed now) (dels st).
  Proof.
    intros Hnone. destruct dl_facts as (O & st1 & Ed & Hnil & nd & P & F & N).
    rewrite Ed. rewrite (Hnil Hnone). reflexivity.
  Qed.
End DeadLetter.

(* ---- when it happens ---- *)
Definition dl_due (st : state) (d : del) : bool :=
  match get_sub st (d_sub d) with
  | Some s => full_dl s && (max_attempts_of s <=? d_attempts d)
  | None => false
  end.

(* a delivery becomes completed in a step either by an acknowledgement naming it, by a
   seek on its subscription, or by being dead-lettered -- and the latter only when it is
   due: full dead-letter policy, attempts >= N, not completed, not expired *)
Definition acked_or_seeked (st : state) (o : op) (d : del) : bool :=
  match o with
  | Ack _ (Some ids) _ => mem_id (d_id d) ids
  | StreamAckNack acks _ _ _ _ => mem_id (d_id d) acks
  | SeekTime name _ _ | SeekSnap name _ _ =>
      match sub_of_name st name with Some i => N.eqb i (d_sub d) | None => false end
  | _ => false
  end.

Theorem dead_letter_only_when_due st now o d d' :
  ids_unique st -> legal st now o ->
  In d (dels st) -> d_completed d = None -> In d' (dels (post st now o)) -> d_id d' = d_id d ->
  d_completed d' <> None -> acked_or_seeked st o d = false ->
  dl_due st d = true /\ now < d_expires d /\
  (match o with
   | Pull name _ returned others _ _ _ => sub_of_name st name = Some (d_sub d) /\ d_attempt_at d <= now
   | StreamAckNack _ nacks _ _ _ => mem_id (d_id d) nacks = true
   | Job JDeadLetterSweep _ _ chosen _ _ _ => mem_id (d_id d) chosen = true /\ d_attempt_at d <= now
   | _ => False
   end).
Proof.
  intros Hu Hl Hd Hc Hd' Hi Hc' Hacked.
  pose proof (step_compl st now o d d' Hu Hd Hc Hd' Hi Hc') as W.
  destruct Hu as (Hut&Hus&Hum&Hud&Hun).
  assert (Hu : ids_unique st) by (repeat split; assumption).
  destruct o; unfold why in W; try contradiction.
  - (* Ack *)
    destruct ids as [ids|]; [|contradiction].
    cbn [acked_or_seeked] in Hacked. congruence.
  - (* Pull *)
    destruct W as (s&V&M&FS&c&Hcin&Hcid&Hdue).
    pose proof (pull_legal _ _ _ _ _ _ _ _ _ s Hl V M FS) as SL.
    apply in_flat_map_opt in Hcin. destruct Hcin as (j&Hj&Hg).
    apply find_id_some in Hg. destruct Hg as [Hcd Hcj].
    assert (c = d) by (apply (nodup_key_inj d_id (dels st)); auto). subst c.
    subst j.
    pose proof (selection_eligible st s now max returned others d Hu SL Hd Hj) as El.
    unfold eligible in El.
    repeat (apply andb_true_iff in El; destruct El as [El ?]).
    apply N.eqb_eq in El.
    split; [|split; [apply Z.ltb_lt; assumption|split; [|apply Z.leb_le; assumption]]].
    + unfold dl_due. rewrite El. rewrite (find_live_sub_get st name s Hu FS). exact Hdue.
    + unfold sub_of_name. rewrite FS. cbn [option_map]. congruence.
  - (* SeekTime *)
    exfalso. destruct W as (s&FS&x&Hx&Hxi&Hxs).
    assert (x = d) by (apply (nodup_key_inj d_id (dels st)); auto). subst x.
    cbn [acked_or_seeked] in Hacked. unfold sub_of_name in Hacked. rewrite FS in Hacked.
    cbn [option_map] in Hacked. rewrite Hxs, N.eqb_refl in Hacked. discriminate.
  - (* SeekSnap *)
    exfalso. destruct W as (s&FS&x&Hx&Hxi&Hxs).
    assert (x = d) by (apply (nodup_key_inj d_id (dels st)); auto). subst x.
    cbn [acked_or_seeked] in Hacked. unfold sub_of_name in Hacked. rewrite FS in Hacked.
    cbn [option_map] in Hacked. rewrite Hxs, N.eqb_refl in Hacked. discriminate.
  - (* StreamAckNack *)
    cbn [acked_or_seeked] in Hacked.
    destruct W as [W|(c&s&Hcin&Hcid&Hs&Hdue)]; [congruence|].
    apply filter_In in Hcin. destruct Hcin as [Hcin Hp].
    unfold do_ack in Hcin. cbn [fst set_dels dels] in Hcin.
    apply in_upd_where in Hcin. destruct Hcin as (x&Hx&Ec).
    assert (Hxid : d_id x = d_id d).
    { rewrite <- Hcid, Ec. destruct (ack_pred acks x); reflexivity. }
    assert (x = d) by (apply (nodup_key_inj d_id (dels st)); auto). subst x.
    assert (Hap : ack_pred acks d = false).
    { unfold ack_pred. rewrite Hacked. reflexivity. }
    rewrite Hap in Ec. subst c.
    repeat (apply andb_true_iff in Hp; destruct Hp as [Hp ?]).
    split; [|split; [apply Z.ltb_lt; assumption|exact Hp]].
    unfold dl_due, get_sub. rewrite Hs. exact Hdue.
  - (* Job *)
    destruct j; try contradiction. destruct failed; [contradiction|].
    destruct (sweep_legal _ _ _ _ _ _ _ Hl) as [CL _].
    destruct (sweep_due st now min_age max chosen d Hu CL Hd W) as ((s&Hs&Hdue)&_&Hexp&Hat).
    split; [|split; [exact Hexp|split; [apply mem_id_In; exact W|exact Hat]]].
    unfold dl_due. rewrite Hs. exact Hdue.
Qed.

(* ---- bounded attempts ---- *)
(* with a full dead-letter policy of N attempts a pull hands a delivery out only while
   attempts < N, so the reported delivery attempt never exceeds N *)
Theorem attempts_bounded st now name max returned others w fz fr p s :
  ids_unique st -> legal st now (Pull name max returned others w fz fr) ->
  find_live_sub st name = Some s -> full_dl s = true ->
  In p (pulled_of (answer st now (Pull name max returned others w fz fr))) ->
  p_attempt p <= max_attempts_of s.
Proof.
  intros Hu Hl FS FD Hp. unfold answer in Hp. cbn [step] in Hp.
  destruct (negb (valid_sub_name name)); [cbn in Hp; contradiction|].
  destruct (max <? 1); [cbn in Hp; contradiction|].
  rewrite FS in Hp. cbv zeta in Hp.
  match type of Hp with context [apply_results ?a ?b ?c ?d ?e ?f ?g ?h ?i ?j ?k] =>
    destruct (apply_results a b c d e f g h i j k) as [[[[st1 fr1] ps] wk] n] eqn:E end.
  cbn [r_resp done pulled_of] in Hp.
  apply (apply_results_rel (fun _ => False)) in E. destruct E as (_&_&_&P).
  destruct (P p Hp) as (c&_&Hdue&Hatt&_).
  unfold due_sub in Hdue. rewrite FD in Hdue. cbn [andb] in Hdue.
  apply Z.leb_gt in Hdue. lia.
Qed.

(* the sweep dead-letters exactly what it chose, and only due deliveries are choosable *)
Theorem sweep_fires st now mn mx chosen w fr d :
  ids_unique st -> legal st now (Job JDeadLetterSweep mn mx chosen false w fr) ->
  In d (dels st) -> mem_id (d_id d) chosen = true ->
  dl_due st d = true /\ d_completed d = None /\ now < d_expires d /\ d_attempt_at d <= now /\
  exists d', In d' (dels (post st now (Job JDeadLetterSweep mn mx chosen false w fr))) /\
             d_id d' = d_id d /\ d_completed d' = Some w.
Proof.
  intros Hu Hl Hd Hm. apply mem_id_In in Hm.
  destruct (sweep_legal _ _ _ _ _ _ _ Hl) as [CL SN].
  destruct (sweep_due st now mn mx chosen d Hu CL Hd Hm) as ((s&Hs&Hdue)&Hc&Hexp&Hat).
  split; [unfold dl_due; rewrite Hs; exact Hdue|].
  split; [exact Hc|split; [exact Hexp|split; [exact Hat|]]].
  rewrite sweep_post.
  destruct (sweep_each st chosen w fr) as [[[st1 fr1] w1] n1] eqn:E.
  cbn [snd] in SN. subst n1. cbn [fst].
  destruct (sweep_each_completes w _ _ _ _ _ _ E (d_id d)) as (x'&H1&H2&H3).
  - left. exact Hm.
  - exists x'. auto.
Qed.

(* ---- at most once over histories ---- *)
(* the event: this step retires the delivery by dead-lettering *)
Definition dl_event (st : state) (now : time) (o : op) (i : id) : Prop :=
  exists d d', In d (dels st) /\ d_id d = i /\ d_completed d = None /\
               In d' (dels (post st now o)) /\ d_id d' = i /\ d_completed d' <> None /\
               acked_or_seeked st o d = false.

(* ---- invariants along a history ---- *)
Section AtMostOnce.
  Variables (i sid : id).
  (* the delivery [i], while it exists, belongs to subscription [sid] ... *)
  Definition Jsub (s : state) : Prop := forall d, In d (dels s) -> d_id d = i -> d_sub d = sid.
  (* ... and is completed *)
  Definition Kdone (s : state) : Prop := forall d, In d (dels s) -> d_id d = i -> d_completed d <> None.

  Lemma step_Jsub st now o : Jsub st -> ~ In i (op_fresh_dels o) -> Jsub (post st now o).
  Proof.
    intros J NF d' Hd' Hi. destruct (step_stays st now o d' Hd') as [(d&H1&H2&H3&_)|F].
    - rewrite <- H3. apply J; auto. congruence.
    - exfalso. apply NF. rewrite <- Hi. exact F.
  Qed.

  Lemma step_Kdone st now o :
    Jsub st -> Kdone st -> ~ In i (op_fresh_dels o) -> is_seek_of st o sid = false ->
    Kdone (post st now o).
  Proof.
    intros J K NF NS d' Hd' Hi. destruct (step_stays st now o d' Hd') as [(d&H1&H2&H3&H4)|F].
    - assert (Hdi : d_id d = i) by congruence.
      apply H4; [apply K; auto|]. rewrite (J d H1 Hdi). exact NS.
    - exfalso. apply NF. rewrite <- Hi. exact F.
  Qed.

  Lemma trace_split : forall h st pre s now o suf,
    trace st h = pre ++ (s, now, o) :: suf -> exists hs, suf = trace (post s now o) hs.
  Proof.
    induction h as [|[n o0] r IH]; intros st pre s now o suf; cbn [trace].
    - intros H. exfalso. exact (app_cons_not_nil _ _ _ H).
    - destruct pre as [|x pre]; cbn [app]; intros H; inversion H; subst.
      + exists r. reflexivity.
      + eapply IH. eassumption.
  Qed.

  Lemma trace_inv : forall h st,
    ids_unique st -> Jsub st -> all_legal st h ->
    (forall s now o, In (s, now, o) (trace st h) -> ~ In i (op_fresh_dels o)) ->
    forall s now o, In (s, now, o) (trace st h) -> ids_unique s /\ Jsub s.
  Proof.
    induction h as [|[n o0] r IH]; intros st Hu J Hl NF s now o; cbn [trace]; [intros []|].
    intros [E|Hin].
    - inversion E; subst. auto.
    - assert (Hl0 : legal st n o0) by (apply Hl; cbn [trace]; left; reflexivity).
      assert (NF0 : ~ In i (op_fresh_dels o0)) by (apply (NF st n o0); cbn [trace]; left; reflexivity).
      apply (IH (post st n o0)) with (now := now) (o := o); auto.
      + apply step_ids_unique; assumption.
      + apply step_Jsub; assumption.
      + intros s' n' o' H'. apply Hl. cbn [trace]. right; exact H'.
      + intros s' n' o' H'. apply (NF s' n' o'). cbn [trace]. right; exact H'.
  Qed.

  Lemma trace_done : forall h st,
    ids_unique st -> Jsub st -> Kdone st -> all_legal st h ->
    (forall s now o, In (s, now, o) (trace st h) -> ~ In i (op_fresh_dels o)) ->
    (forall s now o, In (s, now, o) (trace st h) -> is_seek_of s o sid = false) ->
    forall s now o, In (s, now, o) (trace st h) -> Kdone s.
  Proof.
    induction h as [|[n o0] r IH]; intros st Hu J K Hl NF NS s now o; cbn [trace]; [intros []|].
    intros [E|Hin].
    - inversion E; subst. auto.
    - assert (Hl0 : legal st n o0) by (apply Hl; cbn [trace]; left; reflexivity).
      assert (NF0 : ~ In i (op_fresh_dels o0)) by (apply (NF st n o0); cbn [trace]; left; reflexivity).
      assert (NS0 : is_seek_of st o0 sid = false) by (apply (NS st n o0); cbn [trace]; left; reflexivity).
      apply (IH (post st n o0)) with (now := now) (o := o); auto.
      + apply step_ids_unique; assumption.
      + apply step_Jsub; assumption.
      + apply step_Kdone; assumption.
      + intros s' n' o' H'. apply Hl. cbn [trace]. right; exact H'.
      + intros s' n' o' H'. apply (NF s' n' o'). cbn [trace]. right; exact H'.
      + intros s' n' o' H'. apply (NS s' n' o'). cbn [trace]. right; exact H'.
  Qed.
End AtMostOnce.

(* In a legal history without a seek on the delivery's subscription the event happens at
   most once per delivery: never forwarded twice, never after it was acknowledged. *)
Theorem C06_at_most_once h : forall st i sid,
  ids_unique st -> all_legal st h ->
  (forall d, In d (dels st) -> d_id d = i -> d_sub d = sid) ->
  (forall s now o, In (s, now, o) (trace st h) -> is_seek_of s o sid = false) ->
  (forall s now o, In (s, now, o) (trace st h) -> ~ In i (op_fresh_dels o)) ->
  forall h1 s1 now1 o1 h2 s2 now2 o2 h3,
    trace st h = h1 ++ (s1, now1, o1) :: h2 ++ (s2, now2, o2) :: h3 ->
    dl_event s1 now1 o1 i -> ~ dl_event s2 now2 o2 i.
Proof.
  intros st i sid Hu Hl J NS NF h1 s1 now1 o1 h2 s2 now2 o2 h3 Htr Ev1 Ev2.
  assert (In1 : In (s1, now1, o1) (trace st h)).
  { rewrite Htr. apply in_or_app. right. left. reflexivity. }
  assert (Suf : forall x, In x (h2 ++ (s2, now2, o2) :: h3) -> In x (trace st h)).
  { intros x Hx. rewrite Htr. apply in_or_app. right. right. exact Hx. }
  destruct (trace_inv i sid h st Hu J Hl NF s1 now1 o1 In1) as [Hu1 J1].
  pose proof (Hl _ _ _ In1) as Hl1.
  pose proof (step_ids_unique s1 now1 o1 Hu1 Hl1) as Hup.
  pose proof (step_Jsub i sid s1 now1 o1 J1 (NF _ _ _ In1)) as Jp.
  assert (Kp : Kdone i (post s1 now1 o1)).
  { destruct Ev1 as (d&d'&_&_&_&Hd'&Hi'&Hc'&_).
    intros x Hx Hxi. destruct Hup as (_&_&_&Hud&_).
    assert (x = d') by (apply (nodup_key_inj d_id (dels (post s1 now1 o1))); auto; congruence).
    subst x. exact Hc'. }
  destruct (trace_split h st h1 s1 now1 o1 _ Htr) as [hs Ehs].
  assert (K2 : Kdone i s2).
  { apply (trace_done i sid hs (post s1 now1 o1)) with (now := now2) (o := o2); auto.
    - intros s n o Hin. apply Hl. apply Suf. rewrite Ehs. exact Hin.
    - intros s n o Hin. apply (NF s n o). apply Suf. rewrite Ehs. exact Hin.
    - intros s n o Hin. apply (NS s n o). apply Suf. rewrite Ehs. exact Hin.
    - rewrite <- Ehs. apply in_or_app. right. left. reflexivity. }
  destruct Ev2 as (d&d'&Hd&Hi&Hc&_).
  exact (K2 d Hd Hi Hc).
Qed.

Print Assumptions dl_exactly.
Print Assumptions dl_forwards.
Print Assumptions dead_letter_only_when_due.
Print Assumptions attempts_bounded.
Print Assumptions sweep_fires.
Print Assumptions C06_at_most_once.
