(* Bus/State.v -- the five tables (ent/schema/message-bus.go) as lists of records, kept
   sorted by id, plus decidable equality for the correspondence check.

   ids: the harness maps every UUID it sees (in rows, requests and responses) to its rank
   in byte order, an order-preserving injection into N; the model only uses equality,
   freshness and the order (List* pagination, ORDER BY id).
   times: virtual nanoseconds (Z).  durations: nanoseconds (Z). *)
From MB Require Import Base.
Open Scope Z_scope.

Definition id := N.
Definition time := Z.

Record topic := mkTopic {
  t_id : id; t_name : str; t_deleted : option time; t_labels : smap }.
  (* live = (deleted_at IS NULL): checkLiveOrDeleted keeps the two columns in lock step *)

Record sub := mkSub {
  s_id : id; s_name : str; s_topic : id; s_deleted : option time; s_expires : time;
  s_ttl : Z; s_msg_ttl : Z; s_ordered : bool; s_filter : option str;
  s_minb : option Z; s_maxb : option Z; s_max_attempts : option Z; s_dl_topic : option id;
  s_delay : Z; s_push : option str; s_labels : smap }.

Record msg := mkMsg {
  m_id : id; m_topic : id; m_published : time; m_attrs : smap; m_key : option str;
  m_payload : str;   (* canonical JSON text of the stored value (harness canonicaliser) *)
  m_size : Z }.      (* len(stored payload bytes): only used by the byte budget *)

Record del := mkDel {
  d_id : id; d_msg : id; d_sub : id; d_published : time; d_attempt_at : time;
  d_attempts : Z; d_completed : option time; d_expires : time; d_not_before : option id;
  d_last : option time }.   (* last_attempted_at *)

Record snap := mkSnap {
  n_id : id; n_name : str; n_topic : id; n_expires : time; n_labels : smap;
  n_before : time; n_acked : list id }.   (* acked ids kept sorted *)

Record state := mkState {
  topics : list topic; subs : list sub; msgs : list msg; dels : list del; snaps : list snap }.

Definition empty_state : state := mkState [] [] [] [] [].

(* ---- equality ---- *)
Definition oz_eqb := opt_eqb Z.eqb.
Definition on_eqb := opt_eqb N.eqb.
Definition os_eqb := opt_eqb String.eqb.

(* maps are compared as finite maps: the harness emits them sorted by key *)
Definition topic_eqb (a b : topic) : bool :=
  N.eqb (t_id a) (t_id b) && String.eqb (t_name a) (t_name b) &&
  oz_eqb (t_deleted a) (t_deleted b) && smap_eqb (t_labels a) (t_labels b).

Definition sub_eqb (a b : sub) : bool :=
  N.eqb (s_id a) (s_id b) && String.eqb (s_name a) (s_name b) && N.eqb (s_topic a) (s_topic b) &&
  oz_eqb (s_deleted a) (s_deleted b) && Z.eqb (s_expires a) (s_expires b) &&
  Z.eqb (s_ttl a) (s_ttl b) && Z.eqb (s_msg_ttl a) (s_msg_ttl b) &&
  Bool.eqb (s_ordered a) (s_ordered b) && os_eqb (s_filter a) (s_filter b) &&
  oz_eqb (s_minb a) (s_minb b) && oz_eqb (s_maxb a) (s_maxb b) &&
  oz_eqb (s_max_attempts a) (s_max_attempts b) && on_eqb (s_dl_topic a) (s_dl_topic b) &&
  Z.eqb (s_delay a) (s_delay b) && os_eqb (s_push a) (s_push b) &&
  smap_eqb (s_labels a) (s_labels b).

Definition msg_eqb (a b : msg) : bool :=
  N.eqb (m_id a) (m_id b) && N.eqb (m_topic a) (m_topic b) &&
  Z.eqb (m_published a) (m_published b) && smap_eqb (m_attrs a) (m_attrs b) &&
  os_eqb (m_key a) (m_key b) && String.eqb (m_payload a) (m_payload b) &&
  Z.eqb (m_size a) (m_size b).

Definition del_eqb (a b : del) : bool :=
  N.eqb (d_id a) (d_id b) && N.eqb (d_msg a) (d_msg b) && N.eqb (d_sub a) (d_sub b) &&
  Z.eqb (d_published a) (d_published b) && Z.eqb (d_attempt_at a) (d_attempt_at b) &&
  Z.eqb (d_attempts a) (d_attempts b) && oz_eqb (d_completed a) (d_completed b) &&
  Z.eqb (d_expires a) (d_expires b) && on_eqb (d_not_before a) (d_not_before b) &&
  oz_eqb (d_last a) (d_last b).

Definition snap_eqb (a b : snap) : bool :=
  N.eqb (n_id a) (n_id b) && String.eqb (n_name a) (n_name b) && N.eqb (n_topic a) (n_topic b) &&
  Z.eqb (n_expires a) (n_expires b) && smap_eqb (n_labels a) (n_labels b) &&
  Z.eqb (n_before a) (n_before b) && list_eqb N.eqb (n_acked a) (n_acked b).

(* ---- generic helpers on id-sorted tables ---- *)
Section Table.
  Context {R : Type} (key : R -> id).

  Fixpoint ins (r : R) (l : list R) : list R :=
    match l with
    | [] => [r]
    | x :: l' => if (key r <? key x)%N then r :: l else x :: ins r l'
    end.

  Fixpoint find_id (i : id) (l : list R) : option R :=
    match l with
    | [] => None
    | x :: l' => if N.eqb (key x) i then Some x else find_id i l'
    end.

  Definition has_id (i : id) (l : list R) : bool :=
    match find_id i l with Some _ => true | None => false end.

  (* UPDATE ... WHERE p: rewrite the matching rows, report how many *)
  Definition upd_where (p : R -> bool) (f : R -> R) (l : list R) : list R :=
    map (fun r => if p r then f r else r) l.
  Definition count_where (p : R -> bool) (l : list R) : Z := Z.of_nat (length (filter p l)).

  Definition del_ids (ids : list id) (l : list R) : list R :=
    filter (fun r => negb (existsb (N.eqb (key r)) ids)) l.
End Table.

Definition mem_id (i : id) (l : list id) : bool := existsb (N.eqb i) l.

Fixpoint ins_id (i : id) (l : list id) : list id :=
  match l with
  | [] => [i]
  | x :: l' => if (i <? x)%N then i :: l else if N.eqb i x then l else x :: ins_id i l'
  end.
Definition sort_ids (l : list id) : list id := fold_right ins_id [] l.

Fixpoint nodup_ids (l : list id) : bool :=
  match l with [] => true | x :: r => negb (mem_id x r) && nodup_ids r end.

(* stable insertion sort by an integer key *)
Section SortBy.
  Context {R : Type} (k : R -> Z).
  Fixpoint ins_by (r : R) (l : list R) : list R :=
    match l with
    | [] => [r]
    | x :: l' => if k r <? k x then r :: l else x :: ins_by r l'
    end.
  Definition sort_by (l : list R) : list R := fold_right ins_by [] l.
  (* fold_right inserts the last element first; [ins_by] puts an equal key AFTER the
     elements already there, so process the list reversed to keep it stable *)
  Definition stable_sort_by (l : list R) : list R :=
    fold_left (fun acc r => ins_by r acc) l [].
End SortBy.

Definition is_some {A} (o : option A) : bool := match o with Some _ => true | None => false end.
Definition is_none {A} (o : option A) : bool := negb (is_some o).
