(* Bus/T_C12.v -- C12: one live resource per name; Get/List show exactly the live set. *)
From MB Require Import Base.
From MB.Bus Require Import State Ops Step Defs T_Inv L12_Lists L12_Frame.
From Coq Require Import Sorting.Sorted.
Local Open Scope string_scope.
Open Scope list_scope.
Open Scope Z_scope.

(* ---- at most one live topic / live subscription / snapshot per name ---- *)
Definition names_unique (st : state) : Prop :=
  (forall a b, In a (topics st) -> In b (topics st) -> topic_live a = true -> topic_live b = true ->
               t_name a = t_name b -> a = b) /\
  (forall a b, In a (subs st) -> In b (subs st) -> sub_live a = true -> sub_live b = true ->
               s_name a = s_name b -> a = b) /\
  (forall a b, In a (snaps st) -> In b (snaps st) -> n_name a = n_name b -> a = b).

Lemma names_unique_NU st : names_unique st <->
  NU topic_live t_name (topics st) /\ NU sub_live s_name (subs st) /\
  NU (fun _ => true) n_name (snaps st).
Proof.
  unfold names_unique, NU. split; intros (A&B&C); (split; [exact A|split; [exact B|]]).
  - intros a b Ha Hb _ _ E. apply C; assumption.
  - intros a b Ha Hb E. apply C; auto.
Qed.

Lemma nu_same st st' : same_named st st' -> names_unique st -> names_unique st'.
Proof. intros (A&B&C). unfold names_unique. rewrite A, B, C. auto. Qed.

Lemma find_live_topic_some st name t :
  find_live_topic st name = Some t -> In t (topics st) /\ topic_live t = true /\ t_name t = name.
Proof.
  unfold find_live_topic. intros H. apply find_some in H. destruct H as [I H].
  apply andb_true_iff in H. destruct H as [L N]. apply String.eqb_eq in N. auto.
Qed.
Lemma find_live_topic_none st name :
  find_live_topic st name = None ->
  forall t, In t (topics st) -> topic_live t = true -> t_name t = name -> False.
Proof.
  unfold find_live_topic. intros H t I L N.
  pose proof (find_none _ _ H t I) as F. cbn beta in F. rewrite L, N, String.eqb_refl in F. discriminate.
Qed.
Lemma find_live_sub_some st name s :
  find_live_sub st name = Some s -> In s (subs st) /\ sub_live s = true /\ s_name s = name.
Proof.
  unfold find_live_sub. intros H. apply find_some in H. destruct H as [I H].
  apply andb_true_iff in H. destruct H as [L N]. apply String.eqb_eq in N. auto.
Qed.
Lemma find_live_sub_none st name :
  find_live_sub st name = None ->
  forall s, In s (subs st) -> sub_live s = true -> s_name s = name -> False.
Proof.
  unfold find_live_sub. intros H t I L N.
  pose proof (find_none _ _ H t I) as F. cbn beta in F. rewrite L, N, String.eqb_refl in F. discriminate.
Qed.
Lemma find_snap_some st name n :
  find_snap st name = Some n -> In n (snaps st) /\ n_name n = name.
Proof.
  unfold find_snap. intros H. apply find_some in H. destruct H as [I N].
  apply String.eqb_eq in N. auto.
Qed.
Lemma find_snap_none st name :
  find_snap st name = None -> forall n, In n (snaps st) -> n_name n = name -> False.
Proof.
  unfold find_snap. intros H t I N.
  pose proof (find_none _ _ H t I) as F. cbn beta in F. rewrite N, String.eqb_refl in F. discriminate.
Qed.

Theorem names_unique_empty : names_unique empty_state.
Proof. apply names_unique_NU. cbn. repeat split; apply NU_nil. Qed.

(* the two outcomes of CreateSubscription *)
Lemma create_sub_inv st q fresh wnow :
  (exists c, create_sub st q fresh wnow = fail st c) \/
  (exists s v,
     create_sub st q fresh wnow =
       done (set_subs st (ins s_id s (subs st))) (RSub v) [fresh]
            (if has_id s_id fresh (subs st) then ["subscription-id-not-fresh"%string] else []) /\
     s_id s = fresh /\ s_name s = q_name q /\ sub_live s = true /\
     find_live_sub st (q_name q) = None).
Proof.
  unfold create_sub.
  destruct (q_dl q) as [[dt dn]|]; cbv beta iota zeta;
  repeat match goal with
  | |- context [if ?c then fail st ?e else _] => destruct c eqn:?; [left; eexists; reflexivity|]
  | |- context [match ?o with Some _ => _ | None => fail st ?e end] =>
      destruct o eqn:?; [|left; eexists; reflexivity]
  end.
  all: right; eexists; eexists; (split; [reflexivity|]); cbn [s_id s_name sub_live s_deleted is_none is_some negb];
    repeat split;
    match goal with H : is_some ?x = false |- ?x = None =>
      destruct x; [discriminate H|reflexivity] end.
Qed.

(* UpdateSubscription never touches id, name or liveness *)
Lemma upd_path_keep st q wnow s dl tc p s' dl' tc' :
  upd_path st q wnow (s, dl, tc) p = inr (s', dl', tc') ->
  s_id s' = s_id s /\ s_name s' = s_name s /\ s_deleted s' = s_deleted s.
Proof.
  unfold upd_path. cbv beta iota zeta.
  destruct (String.eqb p "name"); [discriminate|].
  destruct (String.eqb p "topic"); [discriminate|].
  destruct (String.eqb p "labels"); [intros H; inversion H; subst; repeat split|].
  destruct (String.eqb p "expiration_policy"); [intros H; inversion H; subst; repeat split|].
  destruct (String.eqb p "message_retention_duration"); [intros H; inversion H; subst; repeat split|].
  destruct (String.eqb p "enable_message_ordering"); [intros H; inversion H; subst; repeat split|].
  destruct (String.eqb p "retry_policy").
  { destruct (match q_retry q with Some ab => ab | None => (None, None) end) as [a b].
    intros H; inversion H; subst; repeat split. }
  destruct (String.eqb p "push_config").
  { destruct (validate_push (q_push q)); [discriminate|].
    intros H; inversion H; subst; repeat split. }
  destruct (String.eqb p "filter").
  { destruct (String.eqb (q_filter q) ""); [intros H; inversion H; subst; repeat split|].
    destruct (filter_parses (q_filter q)); [intros H; inversion H; subst; repeat split|discriminate]. }
  destruct (String.eqb p "dead_letter_policy"); [|discriminate].
  destruct (match q_dl q with Some x => x | None => (EmptyString, 0) end) as [tn n].
  destruct (String.eqb tn ""); [intros H; inversion H; subst; repeat split|].
  destruct (find_live_topic st tn); [intros H; inversion H; subst; repeat split|discriminate].
Qed.

Lemma upd_paths_keep st q wnow : forall ps s dl tc s' dl' tc',
  upd_paths st q wnow (s, dl, tc) ps = inr (s', dl', tc') ->
  s_id s' = s_id s /\ s_name s' = s_name s /\ s_deleted s' = s_deleted s.
Proof.
  induction ps as [|p r IH]; intros s dl tc s' dl' tc'; cbn [upd_paths].
  - intros H; inversion H; subst; repeat split.
  - destruct (upd_path st q wnow (s, dl, tc) p) as [c|[[s1 dl1] tc1]] eqn:E; [discriminate|].
    intros H. apply IH in H. apply upd_path_keep in E.
    destruct H as (A&B&C), E as (D&E&F). repeat split; congruence.
Qed.

Lemma nu_set_subs_upd st p f :
  (forall r, In r (subs st) -> p r = true -> sub_live (f r) = true ->
             sub_live r = true /\ s_name (f r) = s_name r) ->
  names_unique st -> names_unique (set_subs st (upd_where p f (subs st))).
Proof.
  intros G H. apply names_unique_NU in H. destruct H as (A&B&C). apply names_unique_NU.
  cbn [set_subs topics subs snaps]. split; [exact A|split; [|exact C]].
  apply NU_upd_where; [exact G|exact B].
Qed.

Lemma nu_set_topics_upd st p f :
  (forall r, In r (topics st) -> p r = true -> topic_live (f r) = true ->
             topic_live r = true /\ t_name (f r) = t_name r) ->
  names_unique st -> names_unique (set_topics st (upd_where p f (topics st))).
Proof.
  intros G H. apply names_unique_NU in H. destruct H as (A&B&C). apply names_unique_NU.
  cbn [set_topics topics subs snaps]. split; [|split; [exact B|exact C]].
  apply NU_upd_where; [exact G|exact A].
Qed.

Lemma nu_set_snaps_filter st p :
  names_unique st -> names_unique (set_snaps st (filter p (snaps st))).
Proof.
  intros H. apply names_unique_NU in H. destruct H as (A&B&C). apply names_unique_NU.
  cbn [set_snaps topics subs snaps]. split; [exact A|split; [exact B|]].
  apply NU_filter. exact C.
Qed.

Lemma nu_set_dels st ds : names_unique st -> names_unique (set_dels st ds).
Proof. apply nu_same. apply same_named_set_dels. Qed.

Lemma nu_set_msgs st ms : names_unique st -> names_unique (set_msgs st ms).
Proof. apply nu_same. apply same_named_set_msgs. Qed.

(* peel the validation / lookup layers of a handler: every early exit leaves the state alone *)
Ltac peel NU0 :=
  repeat match goal with
  | |- names_unique (r_state (if ?c then _ else _)) => destruct c eqn:?
  | |- names_unique (r_state (match ?x with Some _ => _ | None => _ end)) => destruct x eqn:?
  | |- names_unique (r_state (match ?x with TokBad => _ | _ => _ end)) => destruct x eqn:?
  end; try exact NU0.

Ltac dpair :=
  match goal with |- context [match ?x with pair _ _ => _ end] => destruct x eqn:? end.

Theorem step_names_unique st now o :
  ids_unique st -> legal st now o -> names_unique st -> names_unique (post st now o).
Proof.
  intros IU L NU0. unfold post, legal in *.
  destruct o as [name labels advanced fresh | name | name paths labels | name wnow
                | project size tok | tname size tok | tname ms fr | q fresh wnow | name
                | q paths wnow | project size tok | name wnow | name ids seconds wnow
                | name ids wnow | name max returned others wnow fz fr | name target wnow
                | name snapname wnow | name | name p | name subname labels fresh wnow | name
                | project size tok | name | acks nacks wnow fz fr | name delay
                | j min_age max chosen failed wnow fr]; cbn [step] in *.
  - (* CreateTopic *)
    peel NU0. cbn [done r_state].
    apply names_unique_NU in NU0. destruct NU0 as (A&B&C). apply names_unique_NU.
    cbn [set_topics topics subs snaps]. split; [|split; assumption].
    apply NU_ins; [|exact A]. intros b Hb Lb Nb. cbn [t_name] in Nb.
    destruct (find_live_topic st name) eqn:F; [discriminate|].
    eapply find_live_topic_none; eauto.
  - (* GetTopic *) peel NU0.
  - (* UpdateTopic *)
    peel NU0.
    match goal with |- context [match ?X with inl _ => _ | inr _ => _ end] =>
      destruct X as [c|[|]] end; try exact NU0.
    cbn [done r_state]. apply nu_set_topics_upd; [|exact NU0].
    intros r _ _ Lr. split; [exact Lr|reflexivity].
  - (* DeleteTopic *)
    peel NU0. cbn [done r_state].
    apply (nu_set_snaps_filter (set_topics st _)).
    apply nu_set_topics_upd; [|exact NU0].
    intros r _ _ Lr. cbn in Lr. discriminate Lr.
  - (* ListTopics *) peel NU0. all: dpair; exact NU0.
  - (* ListTopicSubs *) peel NU0. all: dpair; exact NU0.
  - (* Publish *)
    peel NU0.
    match goal with |- context [match ?x with pair _ _ => _ end] =>
      destruct x as [[[st' fr'] w] n] end.
    cbn [done r_state]. eapply nu_same; [eapply publish_all_sn; eauto|exact NU0].
  - (* CreateSub *)
    destruct (create_sub_inv st q fresh wnow) as [[c E]|(s0&v&E&Hid&Hn&Hl&N)]; rewrite E in *;
      [exact NU0|].
    cbn [done r_state].
    apply names_unique_NU in NU0. destruct NU0 as (A&B&C). apply names_unique_NU.
    cbn [set_subs topics subs snaps]. split; [exact A|split; [|exact C]].
    apply NU_ins; [|exact B]. intros b Hb Lb Nb.
    eapply find_live_sub_none; eauto. congruence.
  - (* GetSub *) peel NU0.
  - (* UpdateSub *)
    unfold update_sub in *. peel NU0.
    match goal with |- context [upd_paths ?a ?b ?c ?d ?e] =>
      destruct (upd_paths a b c d e) as [c0|[[s' dl'] tc']] eqn:UP end; [exact NU0|].
    peel NU0.
    cbn [done r_state]. apply upd_paths_keep in UP. destruct UP as (Ui&Un&Ud).
    match goal with H : find_live_sub st _ = Some ?s |- _ =>
      apply find_live_sub_some in H; destruct H as (Is&Ls&Ns) end.
    apply nu_set_subs_upd; [|exact NU0]. intros r Hr Pr Lr.
    apply N.eqb_eq in Pr.
    match type of Is with In ?s _ =>
      assert (Er : r = s) by (destruct IU as (_&IUs&_); eapply nodup_key_inj12; eauto) end.
    subst r. unfold sub_live in *. rewrite Ud in Lr. split; [exact Lr|exact Un].
  - (* ListSubs *) peel NU0. all: dpair; exact NU0.
  - (* DeleteSub *)
    peel NU0. cbn [done r_state]. apply nu_set_subs_upd; [|exact NU0].
    intros r _ _ Lr. cbn in Lr. discriminate Lr.
  - (* ModAck *)
    peel NU0.
    match goal with |- context [do_delay ?a ?b ?c ?d] =>
      pose proof (do_delay_sn a b c d) as SN; destruct (do_delay a b c d) as [st' w] end.
    cbn [fst] in SN. cbn [done r_state]. eapply nu_same; eauto.
  - (* Ack *)
    peel NU0.
  - (* Pull *)
    peel NU0.
    match goal with |- context [apply_results ?a ?b ?c ?d ?e ?f ?g ?h ?i ?j ?k] =>
      destruct (apply_results a b c d e f g h i j k) as [[[[st1 fr1] ps] w] n] eqn:AR end.
    cbn [done r_state]. apply apply_results_sn in AR. eapply nu_same; [exact AR|].
    apply nu_set_subs_upd; [|exact NU0]. intros r _ _ Lr. split; [exact Lr|reflexivity].
  - (* SeekTime *)
    peel NU0.
  - (* SeekSnap *)
    peel NU0.
  - (* SeekNoTarget *) peel NU0.
  - (* ModifyPush *)
    peel NU0. cbn [done r_state]. apply nu_set_subs_upd; [|exact NU0].
    intros r _ _ Lr. split; [exact Lr|reflexivity].
  - (* CreateSnap *)
    peel NU0. dpair. cbn [done r_state].
    apply names_unique_NU in NU0. destruct NU0 as (A&B&C). apply names_unique_NU.
    cbn [set_snaps topics subs snaps]. split; [exact A|split; [exact B|]].
    apply NU_ins; [|exact C]. intros b Hb _ Nb. cbn [n_name] in Nb.
    destruct (find_snap st name) eqn:F; [discriminate|]. eapply find_snap_none; eauto.
  - (* GetSnap *) peel NU0.
  - (* ListSnaps *) peel NU0. all: dpair; exact NU0.
  - (* DeleteSnap *)
    peel NU0. cbn [done r_state]. apply nu_set_snaps_filter. exact NU0.
  - (* StreamAckNack *)
    pose proof (do_ack_sn st acks wnow) as SN1.
    destruct (do_ack st acks wnow) as [st1 w1]. cbn [fst] in SN1.
    destruct (do_nack st1 nacks now wnow fz fr) as [[[st2 fr2] w2] n2] eqn:DN.
    cbn [done r_state]. apply do_nack_sn in DN.
    eapply nu_same; [eapply same_named_trans; eauto|exact NU0].
  - (* SetDelay *)
    peel NU0. cbn [done r_state]. apply nu_set_subs_upd; [|exact NU0].
    intros r _ _ Lr. split; [exact Lr|reflexivity].
  - (* Job *)
    unfold run_job in *. destruct failed; [destruct j; exact NU0|].
    destruct j; cbv zeta; cbn [done r_state].
    + apply nu_set_dels; exact NU0.
    + apply nu_set_dels; exact NU0.
    + apply nu_set_msgs; exact NU0.
    + apply nu_set_dels; exact NU0.
    + apply names_unique_NU in NU0. destruct NU0 as (A&B&C). apply names_unique_NU.
      cbn [set_subs topics subs snaps]. split; [exact A|split; [|exact C]].
      unfold del_ids. apply NU_filter. exact B.
    + peel NU0. cbn [done r_state].
      apply names_unique_NU in NU0. destruct NU0 as (A&B&C). apply names_unique_NU.
      cbn [set_snaps set_topics set_subs topics subs snaps]. split; [|split].
      * unfold del_ids. apply NU_filter. exact A.
      * apply NU_map; [|exact B]. intros r _ Lr.
        destruct (s_dl_topic r) as [t|]; [|split; [exact Lr|reflexivity]].
        destruct (mem_id t chosen); split; solve [exact Lr|reflexivity].
      * apply NU_filter. exact C.
    + apply nu_set_subs_upd; [|exact NU0]. intros r _ _ Lr. cbn in Lr. discriminate Lr.
    + destruct (sweep_each st chosen wnow fr) as [[[st1 fr1] w] n] eqn:SW.
      cbn [done r_state]. apply sweep_each_sn in SW. eapply nu_same; eauto.
Qed.

(* ---- create ---- *)
Theorem create_topic_exists st now name labels fresh t :
  valid_topic_name name = true -> find_live_topic st name = Some t ->
  answer st now (CreateTopic name labels false fresh) = RErr AlreadyExists /\
  post st now (CreateTopic name labels false fresh) = st.
Proof.
  intros V F. unfold answer, post. cbn [step]. rewrite V, F. split; reflexivity.
Qed.

Theorem create_topic_new st now name labels fresh :
  valid_topic_name name = true -> find_live_topic st name = None ->
  legal st now (CreateTopic name labels false fresh) ->
  let st' := post st now (CreateTopic name labels false fresh) in
  answer st now (CreateTopic name labels false fresh) = RTopic name labels /\
  find_live_topic st' name = Some (mkTopic fresh name None labels) /\
  (forall t, In t (topics st') <-> t = mkTopic fresh name None labels \/ In t (topics st)) /\
  subs st' = subs st /\ msgs st' = msgs st /\ dels st' = dels st /\ snaps st' = snaps st /\
  has_id t_id fresh (topics st) = false.
Proof.
  intros V F L st'. subst st'. unfold answer, post, legal in *. cbn [step] in *.
  rewrite V, F in *. cbn [negb is_some done r_notes r_state r_resp] in *.
  destruct (has_id t_id fresh (topics st)) eqn:HF; [discriminate|].
  split; [reflexivity|]. split.
  { unfold find_live_topic at 1. cbn [set_topics topics].
    apply find_ins_none12; [exact F|]. cbn. apply String.eqb_refl. }
  split.
  { intros t. cbn [set_topics topics]. apply in_ins12. }
  repeat split; reflexivity.
Qed.

Theorem create_sub_exists st now q fresh w s :
  valid_sub_name (q_name q) = true -> find_live_sub st (q_name q) = Some s ->
  (match answer st now (CreateSub q fresh w) with RErr _ => True | _ => False end) /\
  post st now (CreateSub q fresh w) = st.
Proof.
  intros V F. unfold answer, post. cbn [step].
  destruct (create_sub_inv st q fresh w) as [[c E]|(s0&v&E&_&_&_&N)].
  - rewrite E. split; [exact I|reflexivity].
  - rewrite N in F. discriminate.
Qed.

(* a created subscription is a new row: fresh id, and -- with referential integrity -- no
   delivery, and nothing else, refers to it: it inherits no backlog *)
Theorem create_sub_fresh st now q fresh w v :
  legal st now (CreateSub q fresh w) -> refs_ok st ->
  answer st now (CreateSub q fresh w) = RSub v ->
  let st' := post st now (CreateSub q fresh w) in
  has_id s_id fresh (subs st) = false /\
  (exists s, In s (subs st') /\ s_id s = fresh /\ s_name s = q_name q /\ sub_live s = true) /\
  (forall d, In d (dels st') -> d_sub d <> fresh) /\
  dels st' = dels st /\ msgs st' = msgs st /\ topics st' = topics st /\ snaps st' = snaps st.
Proof.
  intros L R A st'. subst st'. unfold answer, post, legal in *. cbn [step] in *.
  destruct (create_sub_inv st q fresh w) as [[c E]|(s0&v0&E&Hid&Hn&Hl&N)]; rewrite E in *.
  - discriminate A.
  - cbn [done r_notes r_state r_resp] in *.
    destruct (has_id s_id fresh (subs st)) eqn:HF; [discriminate|].
    split; [reflexivity|]. split.
    { exists s0. split; [apply in_ins12; left; reflexivity|auto]. }
    split.
    { cbn [set_subs dels]. intros d Hd Ed. destruct R as (_&_&_&_&R5&_).
      specialize (R5 d Hd). rewrite Ed, HF in R5. discriminate. }
    repeat split; reflexivity.
Qed.

(* ---- delete makes the name immediately reusable ---- *)
Lemma delete_topic_gone st name t wnow sn :
  names_unique st -> find_live_topic st name = Some t ->
  find_live_topic
    (set_snaps (set_topics st (upd_where (fun x => N.eqb (t_id x) (t_id t))
                                 (fun x => mkTopic (t_id x) (t_name x) (Some wnow) (t_labels x))
                                 (topics st))) sn) name = None.
Proof.
  intros NU0 F. apply find_live_topic_some in F. destruct F as (I&L&N).
  unfold find_live_topic. cbn [set_snaps set_topics topics]. apply find_none_all12.
  intros x Hx. unfold upd_where in Hx. apply in_map_iff in Hx. destruct Hx as [y [<- Hy]].
  destruct (N.eqb (t_id y) (t_id t)) eqn:E.
  - reflexivity.
  - destruct (topic_live y && String.eqb (t_name y) name) eqn:P; [|reflexivity].
    apply andb_true_iff in P. destruct P as [Ly Ny]. apply String.eqb_eq in Ny.
    destruct NU0 as (A&_&_). assert (y = t) by (apply A; auto; congruence).
    subst y. rewrite N.eqb_refl in E. discriminate.
Qed.

Lemma delete_sub_gone st name s wnow :
  names_unique st -> find_live_sub st name = Some s ->
  find_live_sub
    (set_subs st (upd_where (fun x => N.eqb (s_id x) (s_id s)) (s_set_deleted wnow) (subs st)))
    name = None.
Proof.
  intros NU0 F. apply find_live_sub_some in F. destruct F as (I&L&N).
  unfold find_live_sub. cbn [set_subs subs]. apply find_none_all12.
  intros x Hx. unfold upd_where in Hx. apply in_map_iff in Hx. destruct Hx as [y [<- Hy]].
  destruct (N.eqb (s_id y) (s_id s)) eqn:E.
  - reflexivity.
  - destruct (sub_live y && String.eqb (s_name y) name) eqn:P; [|reflexivity].
    apply andb_true_iff in P. destruct P as [Ly Ny]. apply String.eqb_eq in Ny.
    destruct NU0 as (_&B&_). assert (y = s) by (apply B; auto; congruence).
    subst y. rewrite N.eqb_refl in E. discriminate.
Qed.

Theorem delete_topic_then_create st now now' name w labels fresh :
  valid_topic_name name = true -> names_unique st ->
  answer st now (DeleteTopic name w) = RUnit ->
  let st1 := post st now (DeleteTopic name w) in
  find_live_topic st1 name = None /\
  (has_id t_id fresh (topics st1) = false ->
   answer st1 now' (CreateTopic name labels false fresh) = RTopic name labels).
Proof.
  intros V NU0 A st1. subst st1. unfold answer, post in *. cbn [step] in *.
  rewrite V in *. cbn [negb] in *.
  destruct (find_live_topic st name) as [t|] eqn:F; [|discriminate A].
  cbn [done r_state].
  match goal with |- find_live_topic ?s name = None /\ _ =>
    assert (G : find_live_topic s name = None) by (apply delete_topic_gone; assumption) end.
  split; [exact G|]. intros _. rewrite G. reflexivity.
Qed.

Theorem delete_sub_then_gone st now name w :
  valid_sub_name name = true -> names_unique st ->
  answer st now (DeleteSub name w) = RUnit ->
  find_live_sub (post st now (DeleteSub name w)) name = None.
Proof.
  intros V NU0 A. unfold answer, post in *. cbn [step] in *.
  rewrite V in *. cbn [negb] in *.
  destruct (find_live_sub st name) as [s|] eqn:F; [|discriminate A].
  cbn [done r_state]. apply delete_sub_gone; assumption.
Qed.

(* ---- Get succeeds exactly for live resources ---- *)
Theorem get_topic_iff st now name :
  valid_topic_name name = true ->
  ((exists l, answer st now (GetTopic name) = RTopic name l) <-> (exists t, find_live_topic st name = Some t)) /\
  (answer st now (GetTopic name) = RErr NotFound <-> find_live_topic st name = None).
Proof.
  intros V. unfold answer. cbn [step]. rewrite V. cbn [negb].
  destruct (find_live_topic st name) as [t|] eqn:F; cbn [done fail r_resp].
  - apply find_live_topic_some in F. destruct F as (_&_&N). rewrite N. split; split.
    + intros _. eexists; reflexivity.
    + intros _. eexists; reflexivity.
    + discriminate.
    + discriminate.
  - split; split.
    + intros [l H]; discriminate.
    + intros [t H]; discriminate.
    + reflexivity.
    + reflexivity.
Qed.

Theorem get_sub_iff st now name :
  valid_sub_name name = true ->
  ((exists v, answer st now (GetSub name) = RSub v) <-> (exists s, find_live_sub st name = Some s)) /\
  (answer st now (GetSub name) = RErr NotFound <-> find_live_sub st name = None).
Proof.
  intros V. unfold answer. cbn [step]. rewrite V. cbn [negb].
  destruct (find_live_sub st name) as [s|] eqn:F; cbn [done fail r_resp].
  - split; split.
    + intros _. eexists; reflexivity.
    + intros _. eexists; reflexivity.
    + discriminate.
    + discriminate.
  - split; split.
    + intros [l H]; discriminate.
    + intros [t H]; discriminate.
    + reflexivity.
    + reflexivity.
Qed.

Theorem get_snap_iff st now name :
  valid_snap_name name = true ->
  ((exists a b c d, answer st now (GetSnap name) = RSnap a b c d) <-> (exists n, find_snap st name = Some n)) /\
  (answer st now (GetSnap name) = RErr NotFound <-> find_snap st name = None).
Proof.
  intros V. unfold answer. cbn [step]. rewrite V. cbn [negb].
  destruct (find_snap st name) as [n|] eqn:F; cbn [done fail r_resp].
  - split; split.
    + intros _. eexists; reflexivity.
    + intros _. do 4 eexists; reflexivity.
    + discriminate.
    + discriminate.
  - split; split.
    + intros (a&b&c&d&H); discriminate.
    + intros [t H]; discriminate.
    + reflexivity.
    + reflexivity.
Qed.

(* every operation addressing a subscription by name answers NotFound once it is deleted *)
Theorem deleted_sub_not_found st now name :
  valid_sub_name name = true -> find_live_sub st name = None ->
  forall o, In o [GetSub name; DeleteSub name now; SeekTime name 0 now; Pull name 1 [] [] now [] [];
                  ModifyPush name None] ->
  answer st now o = RErr NotFound /\ post st now o = st.
Proof.
  intros V F o Ho. cbn [In] in Ho.
  destruct Ho as [<-|[<-|[<-|[<-|[<-|[]]]]]]; unfold answer, post; cbn [step];
    rewrite V, ?F; split; reflexivity.
Qed.

(* ---- List: exact pagination ---- *)
(* the project filter is an exact, case-sensitive prefix test (wildcards are literal) *)
Theorem prefix_exact p s : name_has_prefix p s = true <-> exists r, s = (p ++ r)%string.
Proof.
  unfold name_has_prefix. revert s.
  induction p as [|a p IH]; intros s; cbn [str_prefix String.append].
  - split; [intros _; exists s; reflexivity|reflexivity].
  - destruct s as [|b s].
    + split; [discriminate|intros [r H]; discriminate].
    + split.
      * intros H. apply andb_true_iff in H. destruct H as [E H].
        apply Ascii.eqb_eq in E. apply IH in H. destruct H as [r ->]. subst. exists r. reflexivity.
      * intros [r H]. inversion H; subst. rewrite Ascii.eqb_refl. cbn [andb].
        apply IH. exists r. reflexivity.
Qed.

(* following the page tokens from the start enumerates exactly the rows, once each, in id
   order, for every page size (size <= 0 or >= 100 means 100) *)
Fixpoint walk {R : Type} (key : R -> id) (rows : list R) (size : Z) (fuel : nat) (tok : page_token) : list R :=
  match fuel with
  | O => []
  | S f =>
      let '(pg, next) := page key rows size tok in
      pg ++ match next with Some i => walk key rows size f (TokId i) | None => [] end
  end.

Lemma sorted_ids_SS l : sorted_ids l -> StronglySorted N.lt l.
Proof.
  induction l as [|a l IH]; intros H; [constructor|].
  destruct l as [|b l]; [constructor; constructor|].
  cbn [sorted_ids] in H. destruct H as [Hab Hs]. specialize (IH Hs).
  constructor; [exact IH|]. apply StronglySorted_inv in IH. destruct IH as [_ F].
  constructor; [exact Hab|]. eapply Forall_impl; [|exact F]. intros c Hc. cbn beta in *. lia.
Qed.

Lemma page_size_bounds size : 1 <= page_size size <= 100.
Proof.
  unfold page_size.
  destruct (Z.ltb_spec 0 size); destruct (Z.ltb_spec size 100); cbn [andb]; lia.
Qed.

Definition tok_rows {R : Type} (key : R -> id) (rows : list R) (tok : page_token) : list R :=
  match tok with TokId i => filter (fun r => (i <? key r)%N) rows | _ => rows end.

Lemma page_eq {R : Type} (key : R -> id) rows size tok :
  page key rows size tok =
  (firstn (Z.to_nat (page_size size)) (tok_rows key rows tok),
   if page_size size <=? Z.of_nat (length (firstn (Z.to_nat (page_size size)) (tok_rows key rows tok)))
   then option_map key (last (map Some (firstn (Z.to_nat (page_size size)) (tok_rows key rows tok))) None)
   else None).
Proof. reflexivity. Qed.

(* for any suffix [rest] of the rows that is what the token selects, walking from the
   token yields [rest] *)
Lemma walk_gen {R : Type} (key : R -> id) (rows : list R) (size : Z) :
  StronglySorted N.lt (map key rows) ->
  forall fuel tok pre rest,
    rows = pre ++ rest -> tok_rows key rows tok = rest -> (length rest < fuel)%nat ->
    walk key rows size fuel tok = rest.
Proof.
  intros SS. induction fuel as [|f IH]; intros tok pre rest Hsplit Htok Hlen; [lia|].
  cbn [walk]. rewrite page_eq. rewrite Htok.
  pose proof (page_size_bounds size) as PB.
  remember (Z.to_nat (page_size size)) as n eqn:Hn.
  assert (PS : page_size size = Z.of_nat n) by lia.
  rewrite PS.
  destruct (le_lt_dec n (length rest)) as [Hle|Hlt].
  - (* a full page *)
    assert (HL : length (firstn n rest) = n) by (apply firstn_length_le; exact Hle).
    rewrite HL. rewrite Z.leb_refl.
    destruct (exists_last (l := firstn n rest)) as [pre2 [x Hx]].
    { intro E. rewrite E in HL. cbn in HL. lia. }
    rewrite Hx at 2. rewrite map_app. cbn [map]. rewrite last_last. cbn [option_map].
    rewrite (IH (TokId (key x)) (pre ++ pre2 ++ [x]) (skipn n rest)).
    + apply firstn_skipn.
    + rewrite Hsplit. rewrite <- (firstn_skipn n rest) at 1. rewrite Hx.
      repeat rewrite <- app_assoc. reflexivity.
    + cbn [tok_rows].
      assert (E : rows = (pre ++ pre2) ++ x :: skipn n rest).
      { rewrite Hsplit. rewrite <- (firstn_skipn n rest) at 1. rewrite Hx.
        repeat rewrite <- app_assoc. reflexivity. }
      rewrite E. apply filter_after12. rewrite <- E. exact SS.
    + rewrite skipn_length. lia.
  - (* the last, short page *)
    rewrite firstn_all2 by lia.
    replace (Z.of_nat n <=? Z.of_nat (length rest)) with false by (symmetry; apply Z.leb_gt; lia).
    apply app_nil_r.
Qed.

Theorem walk_exact {R : Type} (key : R -> id) (rows : list R) (size : Z) :
  sorted_ids (map key rows) ->
  walk key rows size (S (length rows)) TokNone = rows.
Proof.
  intros H. apply (walk_gen key rows size (sorted_ids_SS _ H) _ TokNone []); auto.
Qed.

(* what each List RPC pages over *)
Theorem list_topics_spec st now project size tok :
  tok <> TokBad ->
  let rows := filter (fun t => topic_live t && name_has_prefix (project ++ "/topics/")%string (t_name t)) (topics st) in
  answer st now (ListTopics project size tok) =
  RTopics (map (fun t => (t_name t, t_labels t)) (fst (page t_id rows size tok))) (snd (page t_id rows size tok)).
Proof.
  intros T rows. subst rows. unfold answer. cbn [step].
  change (project_prefix project "topics") with (project ++ "/topics/")%string.
  destruct tok; [|contradiction T; reflexivity|];
    match goal with |- context [page t_id ?r size ?t] => destruct (page t_id r size t) as [pg next] end;
    reflexivity.
Qed.

Theorem list_subs_spec st now project size tok :
  tok <> TokBad ->
  let rows := filter (fun s => sub_live s && name_has_prefix (project ++ "/subscriptions/")%string (s_name s)) (subs st) in
  answer st now (ListSubs project size tok) =
  RSubs (map (fun s => view_sub st s true EmptyString EmptyString) (fst (page s_id rows size tok)))
        (snd (page s_id rows size tok)).
Proof.
  intros T rows. subst rows. unfold answer. cbn [step].
  change (project_prefix project "subscriptions") with (project ++ "/subscriptions/")%string.
  destruct tok; [|contradiction T; reflexivity|];
    match goal with |- context [page s_id ?r size ?t] => destruct (page s_id r size t) as [pg next] end;
    reflexivity.
Qed.

Theorem list_snaps_spec st now project size tok :
  tok <> TokBad ->
  let rows := filter (fun n => name_has_prefix (project ++ "/snapshots/")%string (n_name n)) (snaps st) in
  answer st now (ListSnaps project size tok) =
  RSnaps (map (fun n => (n_name n, render_topic_name st (n_topic n), n_expires n, n_labels n))
              (fst (page n_id rows size tok))) (snd (page n_id rows size tok)).
Proof.
  intros T rows. subst rows. unfold answer. cbn [step].
  change (project_prefix project "snapshots") with (project ++ "/snapshots/")%string.
  destruct tok; [|contradiction T; reflexivity|];
    match goal with |- context [page n_id ?r size ?t] => destruct (page n_id r size t) as [pg next] end;
    reflexivity.
Qed.

(* listing never changes anything *)
Theorem list_readonly st now o :
  (match o with ListTopics _ _ _ | ListSubs _ _ _ | ListSnaps _ _ _ | ListTopicSubs _ _ _
              | GetTopic _ | GetSub _ | GetSnap _ => True | _ => False end) ->
  post st now o = st.
Proof.
  destruct o; try contradiction; intros _; unfold post; cbn [step];
    repeat match goal with
    | |- r_state (if ?c then _ else _) = _ => destruct c
    | |- r_state (match ?x with Some _ => _ | None => _ end) = _ => destruct x
    | |- r_state (match ?x with TokBad => _ | _ => _ end) = _ => destruct x
    | |- r_state (match ?x with pair _ _ => _ end) = _ => destruct x
    end; reflexivity.
Qed.

Print Assumptions step_names_unique.
Print Assumptions create_sub_fresh.
Print Assumptions walk_exact.
Print Assumptions deleted_sub_not_found.
