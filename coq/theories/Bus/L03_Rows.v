(* Bus/L03_Rows.v -- what the transaction helpers of Ops.v / Step.v do to the deliveries
   table, row by row: where a row of the result comes from ([origin]) and which rows are
   certainly left alone ([keeps]). *)
From MB Require Import Base.
From MB.Bus Require Import State Ops Step Defs L03_Lists.
Local Open Scope string_scope.
Open Scope list_scope.
Open Scope Z_scope.

Definition present (i : id) (l : list del) : Prop := exists y, In y l /\ d_id y = i.

(* provided a row with id [i] exists, the rows with id [i] are the same in both tables *)
Definition keeps (i : id) (l l' : list del) : Prop :=
  present i l -> forall x, d_id x = i -> (In x l' <-> In x l).

(* every row of [l'] descends from a row of [l] (same id, same subscription) or carries an
   id proposed by the oracle *)
Definition origin (F : list id) (l l' : list del) : Prop :=
  forall x, In x l' ->
    (exists y, In y l /\ d_id y = d_id x /\ d_sub y = d_sub x) \/ In (d_id x) F.

Definition good (T : list id) (fr fr' : fresh_dels) (n : notes) (l l' : list del) : Prop :=
  incl (map snd fr') (map snd fr) /\
  origin (map snd fr) l l' /\
  (n = [] -> forall i, ~ In i T -> keeps i l l').

Lemma keeps_refl i l : keeps i l l.
Proof. intros _ x _. tauto. Qed.

Lemma keeps_present i l l' : keeps i l l' -> present i l -> present i l'.
Proof.
  intros K P. destruct P as [y [Hy Ey]]. exists y. split; [|exact Ey].
  apply (K (ex_intro _ y (conj Hy Ey)) y Ey). exact Hy.
Qed.

Lemma keeps_trans i l l1 l2 : keeps i l l1 -> keeps i l1 l2 -> keeps i l l2.
Proof.
  intros K1 K2 P x E. pose proof (keeps_present _ _ _ K1 P) as P1.
  rewrite (K2 P1 x E). apply (K1 P x E).
Qed.

Lemma origin_refl F l : origin F l l.
Proof. intros x Hx. left. exists x. auto. Qed.

Lemma origin_trans F l l1 l2 : origin F l l1 -> origin F l1 l2 -> origin F l l2.
Proof.
  intros O1 O2 x Hx. destruct (O2 x Hx) as [[y [Hy [E1 E2]]]|H]; [|right; exact H].
  destruct (O1 y Hy) as [[z [Hz [E3 E4]]]|H].
  - left. exists z. repeat split; congruence.
  - right. rewrite <- E1. exact H.
Qed.

Lemma origin_mono F F' l l' : incl F F' -> origin F l l' -> origin F' l l'.
Proof.
  intros I O x Hx. destruct (O x Hx) as [H|H]; [left; exact H|right; apply I; exact H].
Qed.

Lemma good_same T fr fr' n l : incl (map snd fr') (map snd fr) -> good T fr fr' n l l.
Proof.
  intros I. split; [exact I|]. split; [apply origin_refl|]. intros _ i _. apply keeps_refl.
Qed.

Lemma good_refl T fr n l : good T fr fr n l l.
Proof. apply good_same. apply incl_refl. Qed.

Lemma good_comp T1 T2 T fr fr1 fr2 n1 n2 n l l1 l2 :
  good T1 fr fr1 n1 l l1 -> good T2 fr1 fr2 n2 l1 l2 ->
  (n = [] -> n1 = [] /\ n2 = []) -> incl (T1 ++ T2) T ->
  good T fr fr2 n l l2.
Proof.
  intros [I1 [O1 K1]] [I2 [O2 K2]] Hn HT. split; [|split].
  - eapply incl_tran; eassumption.
  - eapply origin_trans; [exact O1|]. eapply origin_mono; [exact I1|exact O2].
  - intros En i Hi. destruct (Hn En) as [E1 E2].
    eapply keeps_trans.
    + apply K1; [exact E1|]. intros C. apply Hi. apply HT. apply in_or_app. left; exact C.
    + apply K2; [exact E2|]. intros C. apply Hi. apply HT. apply in_or_app. right; exact C.
Qed.

Lemma good_weaken T T' fr fr' n n' l l' :
  good T fr fr' n l l' -> (n' = [] -> n = []) -> incl T T' -> good T' fr fr' n' l l'.
Proof.
  intros [I [O K]] Hn HT. split; [exact I|]. split; [exact O|].
  intros En i Hi. apply K; [apply Hn; exact En|]. intros C. apply Hi. apply HT. exact C.
Qed.

(* a row-wise rewrite keyed by id *)
Lemma good_upd_id j f fr n l :
  (forall x, d_id (f x) = d_id x /\ d_sub (f x) = d_sub x) ->
  good [j] fr fr n l (upd_where (fun x => N.eqb (d_id x) j) f l).
Proof.
  intros Hf. split; [apply incl_refl|]. split.
  - intros x Hx. left. apply upd_where_row in Hx. destruct Hx as [y [Hy [->|[_ ->]]]].
    + exists y. auto.
    + exists y. destruct (Hf y) as [A B]. auto.
  - intros _ i Hi _ x Ex. split.
    + intros Hx. apply upd_where_row in Hx. destruct Hx as [y [Hy [->|[Ep ->]]]]; [exact Hy|].
      exfalso. apply Hi. left. apply N.eqb_eq in Ep. destruct (Hf y) as [A _]. congruence.
    + intros Hx. apply upd_where_keep; [exact Hx|]. apply N.eqb_neq. intros C. apply Hi. left. congruence.
Qed.

Lemma take_fresh_spec m s fr :
  incl (map snd (snd (take_fresh m s fr))) (map snd fr) /\
  forall i, fst (take_fresh m s fr) = Some i -> In i (map snd fr).
Proof.
  induction fr as [|[[m' s'] i'] r IH]; cbn [take_fresh].
  - cbn [fst snd map]. split; [apply incl_refl|discriminate].
  - destruct (N.eqb m m' && N.eqb s s').
    + cbn [fst snd map]. split; [apply incl_tl, incl_refl|]. intros i H. injection H as <-. left; reflexivity.
    + destruct (take_fresh m s r) as [o r'] eqn:E. cbn [fst snd map] in *. destruct IH as [IH1 IH2]. split.
      * intros x [Hx|Hx]; [left; exact Hx|right; apply IH1; exact Hx].
      * intros i Hi. right. apply IH2. exact Hi.
Qed.

Lemma deliver_to_sub_good st s m now fr st' fr' w n :
  deliver_to_sub st s m now fr = (st', fr', w, n) -> good [] fr fr' n (dels st) (dels st').
Proof.
  unfold deliver_to_sub. destruct (negb (filter_accepts (s_filter s) (m_attrs m))).
  - intros E. injection E as <- <- <- <-. apply good_refl.
  - pose proof (take_fresh_spec (m_id m) (s_id s) fr) as [Hi Hs].
    destruct (take_fresh (m_id m) (s_id s) fr) as [oi fr1]. cbn [fst snd] in Hi, Hs.
    cbv beta iota zeta. destruct oi as [i|].
    + intros E. injection E as <- <- <- <-. cbn [dels]. split; [exact Hi|]. split.
      * intros x Hx. apply in_ins in Hx. destruct Hx as [->|Hx].
        -- right. cbn [d_id]. apply Hs; reflexivity.
        -- left. exists x. auto.
      * intros Hn j _ P x Ex. rewrite in_ins. split; [|auto]. intros [->|H]; [|exact H].
        exfalso. cbn [d_id] in Ex. subst j. destruct P as [y [Hy Ey]].
        destruct (has_id d_id i (dels st)) eqn:Hh; [discriminate|].
        rewrite <- Ey in Hh. rewrite (in_has_id d_id y _ Hy) in Hh. discriminate.
    + intros E. injection E as <- <- <- <-. apply good_same. exact Hi.
Qed.

Lemma deliver_to_subs_good m now : forall ss st fr st' fr' w n,
  deliver_to_subs st ss m now fr = (st', fr', w, n) -> good [] fr fr' n (dels st) (dels st').
Proof.
  induction ss as [|s r IH]; intros st fr st' fr' w n E; cbn [deliver_to_subs] in E.
  - injection E as <- <- <- <-. apply good_refl.
  - destruct (deliver_to_sub st s m now fr) as [[[st1 fr1] w1] n1] eqn:E1.
    destruct (deliver_to_subs st1 r m now fr1) as [[[st2 fr2] w2] n2] eqn:E2.
    injection E as <- <- <- <-.
    eapply good_comp; [eapply deliver_to_sub_good; exact E1|eapply IH; exact E2| |].
    + intros H. apply app_eq_nil in H. exact H.
    + cbn. apply incl_refl.
Qed.

Lemma d_set_completed_keys t x : d_id (d_set_completed t x) = d_id x /\ d_sub (d_set_completed t x) = d_sub x.
Proof. split; reflexivity. Qed.
Lemma d_set_attempt_at_keys t x : d_id (d_set_attempt_at t x) = d_id x /\ d_sub (d_set_attempt_at t x) = d_sub x.
Proof. split; reflexivity. Qed.
Lemma d_lease_keys a b x : d_id (d_lease a b x) = d_id x /\ d_sub (d_lease a b x) = d_sub x.
Proof. split; reflexivity. Qed.
Lemma d_revive_keys a b x : d_id (d_revive a b x) = d_id x /\ d_sub (d_revive a b x) = d_sub x.
Proof. split; reflexivity. Qed.
Lemma d_null_link_keys ids x : d_id (d_null_link ids x) = d_id x /\ d_sub (d_null_link ids x) = d_sub x.
Proof. unfold d_null_link. destruct (d_not_before x); [destruct (mem_id i ids)|]; split; reflexivity. Qed.
Lemma d_null_link_fields ids x :
  d_completed (d_null_link ids x) = d_completed x /\ d_attempts (d_null_link ids x) = d_attempts x /\
  d_attempt_at (d_null_link ids x) = d_attempt_at x /\ d_expires (d_null_link ids x) = d_expires x.
Proof. unfold d_null_link. destruct (d_not_before x); [destruct (mem_id i ids)|]; repeat split; reflexivity. Qed.

Lemma dead_letter_good st d dlt now fr st' fr' w n :
  dead_letter st d dlt now fr = (st', fr', w, n) -> good [d_id d] fr fr' n (dels st) (dels st').
Proof.
  unfold dead_letter.
  destruct (match get_topic st dlt with
            | Some t => if topic_live t then
                          match live_subs_of st dlt, get_msg st (d_msg d) with
                          | [], _ => (st, fr, [], [])
                          | ss, Some m => deliver_to_subs st ss m now fr
                          | _, None => (st, fr, [], ["dead-letter-message-missing"])
                          end
                        else (st, fr, [], [])
            | None => (st, fr, [], [])
            end) as [[[st1 fr1] w1] n1] eqn:E1.
  intros E. injection E as <- <- <- <-. cbn [dels set_dels].
  assert (G1 : good [] fr fr1 n1 (dels st) (dels st1)).
  { destruct (get_topic st dlt) as [t|]; [|injection E1 as <- <- <- <-; apply good_refl].
    destruct (topic_live t); [|injection E1 as <- <- <- <-; apply good_refl].
    destruct (live_subs_of st dlt) as [|s0 ss]; [injection E1 as <- <- <- <-; apply good_refl|].
    destruct (get_msg st (d_msg d)) as [m|]; [|injection E1 as <- <- <- <-; apply good_refl].
    eapply deliver_to_subs_good; exact E1. }
  eapply good_comp; [exact G1|apply good_upd_id; apply d_set_completed_keys| |].
  - instantiate (1 := []). intros H; split; [exact H|reflexivity].
  - cbn. apply incl_refl.
Qed.

Lemma publish_one_good st t p fr st' fr' w n :
  publish_one st t p fr = (st', fr', w, n) -> good [] fr fr' n (dels st) (dels st').
Proof.
  unfold publish_one. cbv zeta.
  match goal with |- context [deliver_to_subs ?a ?b ?c ?d ?e] =>
    destruct (deliver_to_subs a b c d e) as [[[st2 fr2] w2] n2] eqn:E2 end.
  intros E. injection E as <- <- <- <-.
  apply deliver_to_subs_good in E2. cbn [dels set_msgs] in E2.
  eapply good_weaken; [exact E2| |apply incl_refl].
  intros H. apply app_eq_nil in H. tauto.
Qed.

Lemma publish_all_good t : forall ps st fr st' fr' w n,
  publish_all st t ps fr = Some (st', fr', w, n) -> good [] fr fr' n (dels st) (dels st').
Proof.
  induction ps as [|p r IH]; intros st fr st' fr' w n E; cbn [publish_all] in E.
  - injection E as <- <- <- <-. apply good_refl.
  - destruct (negb (pm_valid p)); [discriminate|].
    destruct (publish_one st t p fr) as [[[st1 fr1] w1] n1] eqn:E1.
    destruct (publish_all st1 t r fr1) as [[[[st2 fr2] w2] n2]|] eqn:E2; [|discriminate].
    injection E as <- <- <- <-.
    eapply good_comp; [eapply publish_one_good; exact E1|eapply IH; exact E2| |].
    + intros H. apply app_eq_nil in H. exact H.
    + cbn. apply incl_refl.
Qed.

Lemma nack_each_good now wnow fz : forall ds st fr st' fr' w n,
  nack_each st ds now wnow fz fr = (st', fr', w, n) -> good (map d_id ds) fr fr' n (dels st) (dels st').
Proof.
  induction ds as [|d r IH]; intros st fr st' fr' w n E; cbn [nack_each] in E.
  - injection E as <- <- <- <-. apply good_refl.
  - destruct (get_sub st (d_sub d)) as [s|]; [|injection E as <- <- <- <-; apply good_refl].
    match type of E with (match ?X with _ => _ end) = _ =>
      destruct X as [[[st1 fr1] w1] n1] eqn:E1 end.
    destruct (nack_each st1 r now wnow fz fr1) as [[[st2 fr2] w2] n2] eqn:E2.
    injection E as <- <- <- <-.
    assert (G1 : good [d_id d] fr fr1 n1 (dels st) (dels st1)).
    { destruct (full_dl s && (max_attempts_of s <=? d_attempts d)).
      - destruct (s_dl_topic s) as [dlt|]; [eapply dead_letter_good; exact E1|].
        injection E1 as <- <- <- <-. apply good_refl.
      - injection E1 as <- <- <- <-. cbn [dels set_dels].
        apply good_upd_id. apply d_set_attempt_at_keys. }
    eapply good_comp; [exact G1|eapply IH; exact E2| |].
    + intros H. apply app_eq_nil in H. exact H.
    + cbn. apply incl_refl.
Qed.

Lemma apply_results_good s strict maxb now wnow fz : forall cands st first bytes fr st' fr' ps w n,
  apply_results st s cands first strict bytes maxb now wnow fz fr = (st', fr', ps, w, n) ->
  good (map d_id cands) fr fr' n (dels st) (dels st').
Proof.
  induction cands as [|d r IH]; intros st first bytes fr st' fr' ps w n E; cbn [apply_results] in E.
  - injection E as <- <- <- <- <-. apply good_refl.
  - destruct (get_msg st (d_msg d)) as [m|]; [|injection E as <- <- <- <- <-; apply good_refl].
    destruct ((strict || negb first) && (maxb <? bytes + m_size m)).
    { apply IH in E. eapply good_weaken; [exact E|auto|]. cbn [map]. apply incl_tl, incl_refl. }
    destruct (full_dl s && (max_attempts_of s <=? d_attempts d)).
    + match type of E with (match ?X with _ => _ end) = _ =>
        destruct X as [[[st1 fr1] w1] n1] eqn:E1 end.
      match type of E with (match ?X with _ => _ end) = _ =>
        destruct X as [[[[st2 fr2] ps2] w2] n2] eqn:E2 end.
      injection E as <- <- <- <- <-.
      assert (G1 : good [d_id d] fr fr1 n1 (dels st) (dels st1)).
      { destruct (s_dl_topic s) as [dlt|]; [eapply dead_letter_good; exact E1|].
        injection E1 as <- <- <- <-. apply good_refl. }
      eapply good_comp; [exact G1|eapply IH; exact E2| |].
      * intros H. apply app_eq_nil in H. exact H.
      * cbn. apply incl_refl.
    + cbv zeta in E.
      match type of E with (match ?X with _ => _ end) = _ =>
        destruct X as [[[[st2 fr2] ps2] w2] n2] eqn:E2 end.
      injection E as <- <- <- <- <-.
      apply IH in E2. cbn [dels set_dels] in E2.
      eapply good_comp; [apply good_upd_id; apply d_lease_keys|exact E2| |].
      * intros H. apply app_eq_nil in H. exact H.
      * cbn. apply incl_refl.
Qed.

Lemma sweep_each_good wnow : forall ds st fr st' fr' w n,
  sweep_each st ds wnow fr = (st', fr', w, n) -> good ds fr fr' n (dels st) (dels st').
Proof.
  induction ds as [|i r IH]; intros st fr st' fr' w n E; cbn [sweep_each] in E.
  - injection E as <- <- <- <-. apply good_refl.
  - destruct (get_del st i) as [d|] eqn:Ed; [|injection E as <- <- <- <-; apply good_refl].
    destruct (get_sub st (d_sub d)) as [s|]; [|injection E as <- <- <- <-; apply good_refl].
    destruct (s_dl_topic s) as [dlt|]; [|injection E as <- <- <- <-; apply good_refl].
    destruct (dead_letter st d dlt wnow fr) as [[[st1 fr1] w1] n1] eqn:E1.
    destruct (sweep_each st1 r wnow fr1) as [[[st2 fr2] w2] n2] eqn:E2.
    injection E as <- <- <- <-.
    apply find_id_some in Ed. destruct Ed as [_ Ed].
    eapply good_comp; [eapply dead_letter_good; exact E1|eapply IH; exact E2| |].
    + intros H. apply app_eq_nil in H. exact H.
    + rewrite Ed. cbn. apply incl_refl.
Qed.
