(* Bus/T_C16.v -- C16: no request crashes the server; rejected requests change nothing.
   The action constructors of the code panic when their preconditions are violated
   (actions/*.go: New...), and the server has no recovery interceptor, so the property is:
   whenever a handler gets as far as constructing an action, the constructor's
   precondition holds. The handler logic is the one [step] transcribes (after the fixes
   of F11); the preconditions are transcribed here. *)
From MB Require Import Base.
From MB.Bus Require Import State Ops Step Defs T_Inv.
From Coq Require Import Lia ZArith Bool.
Local Open Scope string_scope.
Open Scope list_scope.
Open Scope Z_scope.

(* ---- constructor preconditions (the panics of the code) ---- *)
(* NewCreateSubscription *)
Definition pre_create_sub (ttl msg_ttl max_attempts : Z) (dl_topic : str) : bool :=
  (0 <? ttl) && (0 <? msg_ttl) && (0 <=? max_attempts) &&
  Bool.eqb (negb (max_attempts =? 0)) (negb (String.eqb dl_topic "")).
(* NewGetSubscriptionMessages, as called by Pull: MaxBytes = 10 MiB, MaxWait >= 0 *)
Definition pre_pull (name : str) (max : Z) : bool := (1 <=? max) && negb (String.eqb name "").
(* NewSeekSubscriptionToSnapshot / NewCreateSnapshot / NewCreateTopic / NewPublishMessage:
   non-empty names *)
Definition nonempty (s : str) : bool := negb (String.eqb s "").

(* a valid resource name is never empty *)
Theorem valid_name_nonempty kind name : valid_name kind name = true -> nonempty name = true.
Proof.
  intros H. destruct name as [|a r]; [|reflexivity].
  unfold valid_name in H. cbn [split_slash] in H. discriminate H.
Qed.

(* the transcribed precondition is exactly the negation of the model's panic predicate *)
Lemma pre_create_sub_panics ttl msg_ttl max_att dl :
  pre_create_sub ttl msg_ttl max_att dl = negb (create_sub_panics ttl msg_ttl max_att dl).
Proof.
  unfold pre_create_sub, create_sub_panics.
  rewrite (Z.ltb_antisym ttl 0), (Z.ltb_antisym msg_ttl 0), (Z.leb_antisym max_att 0).
  destruct (ttl <=? 0), (msg_ttl <=? 0), (max_att <? 0), (max_att =? 0), (String.eqb dl "");
    reflexivity.
Qed.

Lemma valid_sub_name_nonempty name : valid_sub_name name = true -> nonempty name = true.
Proof. apply valid_name_nonempty. Qed.
Lemma valid_topic_name_nonempty name : valid_topic_name name = true -> nonempty name = true.
Proof. apply valid_name_nonempty. Qed.
Lemma valid_snap_name_nonempty name : valid_snap_name name = true -> nonempty name = true.
Proof. apply valid_name_nonempty. Qed.

Lemma nonempty_false_invalid kind name : nonempty name = false -> valid_name kind name = false.
Proof.
  intros H. destruct (valid_name kind name) eqn:V; [|reflexivity].
  apply valid_name_nonempty in V. congruence.
Qed.

(* ---- the parameters the CreateSubscription handler computes ---- *)
Definition create_params (q : subreq) : Z * Z * Z * str :=
  let ttl := if q_ttl q =? 0 then default_sub_ttl else q_ttl q in
  let msg_ttl := if q_msg_ttl q =? 0 then default_msg_ttl else q_msg_ttl q in
  let '(max_att, dl_name) :=
    match q_dl q with
    | Some (t, n) => (if n =? 0 then default_dl_attempts else n, t)
    | None => (0, EmptyString)
    end in
  (ttl, msg_ttl, max_att, dl_name).

(* whenever CreateSubscription is not rejected by validation (i.e. its answer is not
   InvalidArgument / Unimplemented from the handler), the constructor precondition holds;
   stated contrapositively: a violated precondition is always answered InvalidArgument or
   Unimplemented and nothing changes *)
Theorem create_sub_never_panics st now q fresh w :
  let '(ttl, msg_ttl, max_att, dl_name) := create_params q in
  pre_create_sub ttl msg_ttl max_att dl_name = false ->
  (answer st now (CreateSub q fresh w) = RErr InvalidArgument \/
   answer st now (CreateSub q fresh w) = RErr Unimplemented) /\
  post st now (CreateSub q fresh w) = st.
Proof.
  unfold create_params.
  destruct (q_dl q) as [[t n]|] eqn:Hdl; cbv beta iota zeta;
    intros Hpre; rewrite pre_create_sub_panics in Hpre; apply negb_false_iff in Hpre;
    unfold answer, post, step, create_sub; rewrite Hdl; cbv beta iota zeta; rewrite Hpre.
  all: destruct (negb (valid_sub_name (q_name q))); [split; [left|]; reflexivity|].
  all: destruct (q_detached q); [split; [left|]; reflexivity|].
  all: destruct (q_push q) as [p|].
  all: repeat match goal with
       | |- context [if ?b then fail _ _ else _] =>
           destruct b; [split; [(left; reflexivity) || (right; reflexivity)|reflexivity]|]
       end.
  all: split; [left|]; reflexivity.
Qed.

(* and when validation passes the precondition holds *)
Theorem create_sub_precondition st now q fresh w v :
  answer st now (CreateSub q fresh w) = RSub v ->
  let '(ttl, msg_ttl, max_att, dl_name) := create_params q in
  pre_create_sub ttl msg_ttl max_att dl_name = true /\ nonempty (q_name q) = true.
Proof.
  unfold create_params, answer, step, create_sub.
  destruct (valid_sub_name (q_name q)) eqn:Hv; cbn [negb]; [|discriminate].
  destruct (q_detached q); [discriminate|].
  destruct (match q_push q with Some p => negb match pr_attrs p with [] => true | _ :: _ => false end
                              | None => false end); [discriminate|].
  destruct (match q_push q with Some p => pr_auth p | None => false end); [discriminate|].
  destruct (match q_push q with
            | Some p => match pr_wrapper p with WOther => true | _ => false end
            | None => false end); [discriminate|].
  destruct (q_dl q) as [[t n]|]; cbv beta iota zeta.
  all: match goal with |- context [create_sub_panics ?a ?b ?c ?d] =>
         destruct (create_sub_panics a b c d) eqn:Hp; [discriminate|] end.
  all: intros _; rewrite pre_create_sub_panics, Hp; split;
         [reflexivity | apply valid_sub_name_nonempty; exact Hv].
Qed.

Theorem pull_never_panics st now name max returned others w fz fr :
  pre_pull name max = false ->
  answer st now (Pull name max returned others w fz fr) = RErr InvalidArgument /\
  post st now (Pull name max returned others w fz fr) = st.
Proof.
  unfold pre_pull. intros Hpre. unfold answer, post, step.
  destruct (valid_sub_name name) eqn:Hv; cbn [negb]; [|split; reflexivity].
  apply valid_sub_name_nonempty in Hv. unfold nonempty in Hv. rewrite Hv in Hpre.
  rewrite andb_true_r in Hpre.
  assert (Hm : (max <? 1) = true) by (apply Z.ltb_lt; apply Z.leb_gt in Hpre; lia).
  rewrite Hm. split; reflexivity.
Qed.

Theorem seek_snap_never_panics st now name snapname w :
  (nonempty name = false \/ nonempty snapname = false) ->
  answer st now (SeekSnap name snapname w) = RErr InvalidArgument /\ post st now (SeekSnap name snapname w) = st.
Proof.
  intros H. unfold answer, post, step.
  destruct (valid_sub_name name) eqn:Hv; cbn [negb]; [|split; reflexivity].
  destruct (valid_snap_name snapname) eqn:Hv2; cbn [negb]; [|split; reflexivity].
  apply valid_sub_name_nonempty in Hv. apply valid_snap_name_nonempty in Hv2.
  destruct H; congruence.
Qed.

Theorem create_snap_never_panics st now name subname labels fresh w :
  (nonempty name = false \/ nonempty subname = false) ->
  answer st now (CreateSnap name subname labels fresh w) = RErr InvalidArgument /\
  post st now (CreateSnap name subname labels fresh w) = st.
Proof.
  intros H. unfold answer, post, step.
  destruct (valid_snap_name name) eqn:Hv; cbn [negb]; [|split; reflexivity].
  destruct (valid_sub_name subname) eqn:Hv2; cbn [negb]; [|split; reflexivity].
  apply valid_snap_name_nonempty in Hv. apply valid_sub_name_nonempty in Hv2.
  destruct H; congruence.
Qed.

Theorem create_topic_never_panics st now labels adv fresh :
  answer st now (CreateTopic "" labels adv fresh) = RErr InvalidArgument /\
  post st now (CreateTopic "" labels adv fresh) = st.
Proof.
  unfold answer, post, step.
  replace (valid_topic_name "") with false by reflexivity.
  split; reflexivity.
Qed.

(* ---- every answer is a status; errors change nothing (from T_Inv) ---- *)
(* [step] is total: for every request the model yields an answer; and an error answer
   leaves all five tables exactly as they were and wakes nobody *)
Theorem error_changes_nothing st now o c :
  answer st now o = RErr c -> post st now o = st /\ wakes st now o = [].
Proof.
  intros H. split.
  - eapply step_error_unchanged; exact H.
  - eapply step_error_no_wakes; exact H.
Qed.


(* ---- the codes of the error sites ---- *)
Definition is_err_code (c : code) : Prop :=
  c = InvalidArgument \/ c = NotFound \/ c = AlreadyExists \/ c = Unknown \/ c = Unimplemented.

Lemma validate_push_code p c : validate_push p = Some c -> is_err_code c.
Proof.
  unfold validate_push, is_err_code. destruct p as [p|]; [|discriminate].
  destruct (existsb _ _); [intros E; inversion E; auto|].
  destruct (pr_auth p); [intros E; inversion E; auto 6|discriminate].
Qed.

Lemma upd_path_code st q w acc p c : upd_path st q w acc p = inl c -> is_err_code c.
Proof.
  unfold upd_path. destruct acc as [[s dl] touched].
  repeat match goal with
  | |- (if ?b then _ else _) = inl _ -> _ => destruct b
  | |- (let '(_, _) := ?x in _) = inl _ -> _ => destruct x
  end; try discriminate.
  all: try (intros E; inversion E; unfold is_err_code; auto 6; fail).
  - destruct (validate_push (q_push q)) eqn:V; [|discriminate].
    intros E; inversion E; subst. eapply validate_push_code; exact V.
  - destruct (find_live_topic st _); [discriminate|].
    intros E; inversion E; unfold is_err_code; auto 6.
Qed.

Lemma upd_paths_code st q w ps : forall acc c,
  upd_paths st q w acc ps = inl c -> is_err_code c.
Proof.
  induction ps as [|p r IH]; intros acc c; cbn [upd_paths]; [discriminate|].
  destruct (upd_path st q w acc p) eqn:E.
  - intros E'; inversion E'; subst. eapply upd_path_code; exact E.
  - apply IH.
Qed.

Ltac c16_destr_eq x :=
  let T := type of x in
  lazymatch T with
  | prod (prod (prod (prod _ _) _) _) _ => destruct x as [[[[? ?] ?] ?] ?] eqn:?
  | prod (prod (prod _ _) _) _ => destruct x as [[[? ?] ?] ?] eqn:?
  | prod (prod _ _) _ => destruct x as [[? ?] ?] eqn:?
  | prod _ _ => destruct x as [? ?] eqn:?
  | _ => destruct x eqn:?
  end.
Ltac c16_scrut t :=
  lazymatch t with
  | match ?x with _ => _ end =>
      lazymatch x with
      | match _ with _ => _ end => c16_scrut x
      | _ => c16_destr_eq x
      end
  end.
Ltac c16_step :=
  cbv beta match zeta;
  match goal with |- context [r_resp ?R] => c16_scrut R end.

Lemma step_err_code st now o c : r_resp (step st now o) = RErr c -> is_err_code c.
Proof.
  destruct o; unfold step, create_sub, update_sub, run_job.
  all: repeat c16_step; cbv beta match zeta; cbn [r_resp done fail];
    intros H; try discriminate H.
  all: try (inversion H; unfold is_err_code; auto 6; fail).
  all: inversion H; subst.
  all: try (eapply upd_paths_code; eassumption).
  all: try (eapply validate_push_code; eassumption).
  (* UpdateTopic: the local loop over the mask paths *)
  clear H.
  match type of Heqs with ?g paths false = _ =>
    assert (G : forall ps b, g ps b = inl c -> is_err_code c); [|exact (G _ _ Heqs)] end.
  clear Heqs. intros ps. induction ps as [|p r IH]; intros b; [discriminate|].
  cbv beta iota fix.
  destruct (String.eqb p "name"); [intros E; inversion E; unfold is_err_code; auto|].
  destruct (String.eqb p "labels"); [apply IH|].
  destruct (_ || _); intros E; inversion E; unfold is_err_code; auto 6.
Qed.

(* the error codes the handlers can produce *)
Theorem answer_codes st now o c :
  answer st now o = RErr c ->
  c = InvalidArgument \/ c = NotFound \/ c = AlreadyExists \/ c = Unknown \/ c = Unimplemented.
Proof.
  unfold answer. intros H. apply (step_err_code st now o c H).
Qed.

(* requests with malformed resource names are rejected before anything is looked up *)
Theorem malformed_sub_name_rejected st now name :
  valid_sub_name name = false ->
  forall o, In o [GetSub name; DeleteSub name now; SeekTime name 0 now; Pull name 1 [] [] now [] [];
                  ModifyPush name None; Ack name (Some []) now; ModAck name (Some []) 0 now; SeekNoTarget name] ->
  answer st now o = RErr InvalidArgument /\ post st now o = st.
Proof.
  intros H o Ho. cbn [In] in Ho.
  repeat (destruct Ho as [<-|Ho]; [unfold answer, post, step; rewrite H; split; reflexivity|]).
  contradiction.
Qed.

Print Assumptions create_sub_never_panics.
Print Assumptions pull_never_panics.
Print Assumptions error_changes_nothing.
Print Assumptions answer_codes.
