(* Bus/L20_Live.v -- liveness of a subscription never comes back: a subscription row that
   is live after a step was live before it (or is new). Used by T_Spec. *)
From MB Require Import Base.
From MB.Bus Require Import State Ops Step Defs L04_Lists L04_Evo L04_Pull L14_Dels L14_Subs.
From MB.Bus Require T_C12.
Local Open Scope string_scope.
Open Scope list_scope.
Open Scope Z_scope.

Definition SubLR (s s' : sub) : Prop := sub_live s' = true -> sub_live s = true.

Definition live_rows (st : state) (l' : list sub) : Prop :=
  forall s', In s' l' ->
    (exists x, In x (subs st) /\ s_id x = s_id s' /\ SubLR x s') \/
    ~ In (s_id s') (map s_id (subs st)).

Definition live_desc (st : state) (now : time) (o : op) : Prop :=
  live_rows st (subs (post st now o)).

Lemma lkeep_row st s' : In s' (subs st) -> 
  (exists x, In x (subs st) /\ s_id x = s_id s' /\ SubLR x s') \/ ~ In (s_id s') (map s_id (subs st)).
Proof. intros H. left. exists s'. split; [exact H|]. split; [reflexivity|]. intros L; exact L. Qed.

Lemma lrows_sub st l' : (forall s', In s' l' -> In s' (subs st)) -> live_rows st l'.
Proof. intros H s' Hs'. apply lkeep_row. apply H. exact Hs'. Qed.

Lemma lrows_same st : live_rows st (subs st).
Proof. apply lrows_sub. auto. Qed.

Lemma lrows_map st g :
  (forall x, s_id (g x) = s_id x /\ SubLR x (g x)) -> live_rows st (map g (subs st)).
Proof.
  intros Hg s' Hs'. apply in_map_iff in Hs'. destruct Hs' as [x [<- Hx]].
  left. exists x. destruct (Hg x) as [A B]. split; [exact Hx|]. split; [symmetry; exact A|exact B].
Qed.

Lemma lrows_upd st p f :
  (forall x, s_id (f x) = s_id x /\ SubLR x (f x)) -> live_rows st (upd_where p f (subs st)).
Proof.
  intros Hf. unfold upd_where. apply lrows_map.
  intros x. destruct (p x); [apply Hf|split; [reflexivity|intros L; exact L]].
Qed.

Lemma lived_same st now o : subs (post st now o) = subs st -> live_desc st now o.
Proof. intros H. unfold live_desc. rewrite H. apply lrows_same. Qed.

Ltac lcrush_same :=
  apply lived_same; unfold post, step;
  repeat (match goal with |- context [match ?x with _ => _ end] => destruct x end);
  reflexivity.

(* when the subscriptions table is unchanged the expiry description has it too *)
Lemma subs_same_of_subd_same st now o :
  subs (post st now o) = subs st -> live_desc st now o.
Proof. apply lived_same. Qed.

Lemma lived_publish st now t ms fr : live_desc st now (Publish t ms fr).
Proof.
  apply lived_same. unfold post, step.
  destruct (negb (valid_topic_name t)); [reflexivity|].
  destruct (find_live_topic st t) as [tp|]; [|reflexivity].
  destruct (publish_all st tp ms fr) as [[[[st' fr'] w] n]|] eqn:E; [|reflexivity].
  cbn [done r_state]. apply publish_all_evo in E. apply E.
Qed.

Lemma lived_create st now q fresh w :
  legal st now (CreateSub q fresh w) -> live_desc st now (CreateSub q fresh w).
Proof.
  unfold legal, live_desc, live_rows, post, step, create_sub.
  destruct (has_id s_id fresh (subs st)) eqn:HF; cbv beta iota zeta;
  repeat (match goal with
          | |- context [match ?x with _ => _ end] => destruct x
          end; cbv beta iota zeta; cbn [fail done r_state r_notes]);
    intros L s' Hs';
    try (apply lkeep_row; exact Hs').
  all: try discriminate.
  all: cbn [set_subs subs] in Hs'; apply in_ins in Hs'; destruct Hs' as [->|Hs'];
    [right; cbn [s_id]; apply has_id_false'; exact HF
    |apply lkeep_row; exact Hs'].
Qed.

Lemma lived_update st now q paths w :
  ids_unique st -> live_desc st now (UpdateSub q paths w).
Proof.
  intros U. unfold live_desc, live_rows, post, step, update_sub.
  destruct (negb (valid_sub_name (q_name q))); [intros s'; apply lkeep_row|].
  destruct (find_live_sub st (q_name q)) as [s0|] eqn:Es; [|intros s'; apply lkeep_row].
  match goal with |- context [upd_paths ?a ?b ?c ?d ?e] =>
    destruct (upd_paths a b c d e) as [c0|[[s1 dl] t]] eqn:E end; [intros s'; apply lkeep_row|].
  destruct (negb t); [intros s'; apply lkeep_row|].
  cbn [done r_state set_subs subs]. intros s' Hs'.
  apply in_upd_where_elim in Hs'. destruct Hs' as [x [Hx ->]].
  left. exists x. split; [exact Hx|].
  apply T_C12.upd_paths_keep in E. destruct E as (A & _ & C).
  destruct (N.eqb (s_id x) (s_id s0)) eqn:Eq; [|split; [reflexivity|intros L; exact L]].
  apply N.eqb_eq in Eq.
  assert (x = s0).
  { apply (nodup_key_inj s_id (subs st)); [apply U|exact Hx| |exact Eq].
    eapply find_live_sub_in'. exact Es. }
  subst x. split; [symmetry; exact A|].
  unfold SubLR, sub_live. rewrite C. intros L; exact L.
Qed.

Lemma lived_pull st now name max returned others w fz fr :
  ids_unique st -> live_desc st now (Pull name max returned others w fz fr).
Proof.
  intros U. unfold live_desc, live_rows, post, step.
  destruct (negb (valid_sub_name name)); [intros s'; apply lkeep_row|].
  destruct (max <? 1); [intros s'; apply lkeep_row|].
  destruct (find_live_sub st name) as [s0|] eqn:Es; [|intros s'; apply lkeep_row].
  match goal with |- context [apply_results ?a ?b ?c ?d ?e ?f ?g ?h ?i ?j ?k] =>
    destruct (apply_results a b c d e f g h i j k) as [[[[st1 fr1] ps] wk] n] eqn:E end.
  cbn [done r_state]. apply AR_evoE in E. destruct E as [S _]. rewrite S.
  cbn [set_subs subs]. intros s' Hs'.
  apply in_upd_where_elim in Hs'. destruct Hs' as [x [Hx ->]].
  left. exists x. split; [exact Hx|].
  destruct (N.eqb (s_id x) (s_id s0)); (split; [reflexivity|intros L; exact L]).
Qed.

Lemma SubLR_dead x y : sub_live y = false -> SubLR x y.
Proof. intros H L. rewrite H in L. discriminate. Qed.

Lemma lived_delete st now name w : live_desc st now (DeleteSub name w).
Proof.
  unfold live_desc, post, step.
  destruct (negb (valid_sub_name name)); [apply lrows_same|].
  destruct (find_live_sub st name) as [s0|]; [|apply lrows_same].
  cbn [done r_state set_subs subs]. apply lrows_upd. intros x; split; [reflexivity|].
  apply SubLR_dead. reflexivity.
Qed.

Lemma lived_modpush st now name p : live_desc st now (ModifyPush name p).
Proof.
  unfold live_desc, post, step.
  destruct (negb (valid_sub_name name)); [apply lrows_same|].
  destruct (validate_push p); [apply lrows_same|].
  destruct (find_live_sub st name) as [s0|]; [|apply lrows_same].
  cbn [done r_state set_subs subs]. apply lrows_upd. intros x; split; [reflexivity|intros L; exact L].
Qed.

Lemma lived_setdelay st now name delay : live_desc st now (SetDelay name delay).
Proof.
  unfold live_desc, post, step.
  destruct (find_live_sub st name) as [s0|]; [|apply lrows_same].
  cbn [done r_state set_subs subs]. apply lrows_upd. intros x; split; [reflexivity|intros L; exact L].
Qed.

Lemma lived_of_subd_same st now o : (subs (post st now o) = subs st) -> live_desc st now o.
Proof. apply lived_same. Qed.

Lemma lived_modack st now name ids secs w : live_desc st now (ModAck name ids secs w).
Proof.
  apply lived_same. unfold post, step.
  destruct (negb (valid_sub_name name)); [reflexivity|].
  destruct ids as [ids|]; [|reflexivity].
  unfold do_delay. destruct (secs * sec <=? 0); reflexivity.
Qed.

Lemma lived_ack st now name ids w : live_desc st now (Ack name ids w).
Proof.
  apply lived_same. unfold post, step.
  destruct (negb (valid_sub_name name)); [reflexivity|].
  destruct ids as [ids|]; reflexivity.
Qed.

Lemma lived_seek_time st now name target w : live_desc st now (SeekTime name target w).
Proof.
  apply lived_same. unfold post, step.
  destruct (negb (valid_sub_name name)); [reflexivity|].
  destruct (find_live_sub st name) as [s0|]; reflexivity.
Qed.

Lemma lived_seek_snap st now name sn w : live_desc st now (SeekSnap name sn w).
Proof.
  apply lived_same. unfold post, step.
  destruct (negb (valid_sub_name name)); [reflexivity|].
  destruct (negb (valid_snap_name sn)); [reflexivity|].
  destruct (find_live_sub st name) as [s0|]; [|reflexivity].
  destruct (find_snap st sn) as [n|]; reflexivity.
Qed.

Lemma lived_stream st now acks nacks w fz fr : live_desc st now (StreamAckNack acks nacks w fz fr).
Proof.
  apply lived_same. unfold post, step. unfold do_ack.
  set (st1 := set_dels st (upd_where (ack_pred acks) (d_set_completed w) (dels st))).
  destruct (do_nack st1 nacks now w fz fr) as [[[st2 fr2] w2] n2] eqn:E.
  cbn [done r_state]. unfold do_nack in E. apply nack_each_evoE in E. destruct E as [S _].
  rewrite S. reflexivity.
Qed.

Lemma lived_job st now j mn mx ch f w fr : live_desc st now (Job j mn mx ch f w fr).
Proof.
  destruct f.
  - apply lived_same. unfold post, step, run_job. destruct j; reflexivity.
  - destruct j.
    + apply lived_same. reflexivity.
    + apply lived_same. reflexivity.
    + apply lived_same. reflexivity.
    + apply lived_same. reflexivity.
    + unfold live_desc, post, step, run_job. cbn [done r_state set_subs subs].
      apply lrows_sub. intros s' Hs'. eapply in_del_ids. exact Hs'.
    + unfold live_desc, post, step, run_job.
      destruct (existsb (topic_has_messages st) ch); [apply lrows_same|].
      cbn [done r_state set_subs set_topics set_snaps subs]. apply lrows_map.
      intros x. destruct (s_dl_topic x) as [t|]; [|split; [reflexivity|intros L; exact L]].
      destruct (mem_id t ch); (split; [reflexivity|intros L; exact L]).
    + unfold live_desc, post, step, run_job. cbn [done r_state set_subs subs].
      apply lrows_upd. intros x; split; [reflexivity|]. apply SubLR_dead. reflexivity.
    + apply lived_same. unfold post, step, run_job.
      destruct (sweep_each st ch w fr) as [[[st1 fr1] wk] n] eqn:E.
      cbn [done r_state]. apply sweep_each_evoE in E. apply E.
Qed.

Lemma live_desc_all st now o : ids_unique st -> legal st now o -> live_desc st now o.
Proof.
  intros U L. destruct o.
  - lcrush_same.
  - lcrush_same.
  - lcrush_same.
  - lcrush_same.
  - lcrush_same.
  - lcrush_same.
  - apply lived_publish.
  - apply lived_create. exact L.
  - lcrush_same.
  - apply lived_update. exact U.
  - lcrush_same.
  - apply lived_delete.
  - apply lived_modack.
  - apply lived_ack.
  - apply lived_pull. exact U.
  - apply lived_seek_time.
  - apply lived_seek_snap.
  - lcrush_same.
  - apply lived_modpush.
  - lcrush_same.
  - lcrush_same.
  - lcrush_same.
  - lcrush_same.
  - apply lived_stream.
  - apply lived_setdelay.
  - apply lived_job.
Qed.

(* the use: a subscription id live after the step was live before it, or did not exist *)
Lemma live_after_live_before st now o sid s' :
  ids_unique st -> legal st now o ->
  get_sub (post st now o) sid = Some s' -> sub_live s' = true ->
  (exists s, get_sub st sid = Some s /\ sub_live s = true) \/ get_sub st sid = None.
Proof.
  intros U L G Hl.
  destruct (get_sub st sid) as [s|] eqn:Gs; [left|right; reflexivity].
  exists s. split; [reflexivity|].
  unfold get_sub in *. apply find_id_some in G. destruct G as [Hin' Hid'].
  apply find_id_some in Gs. destruct Gs as [Hin Hid].
  destruct (live_desc_all st now o U L s' Hin') as [(x & Hx & Ex & Lx)|Hn].
  - assert (x = s).
    { apply (nodup_key_inj s_id (subs st)); [apply U|exact Hx|exact Hin|congruence]. }
    subst x. apply Lx. exact Hl.
  - exfalso. apply Hn. rewrite Hid', <- Hid. apply in_map. exact Hin.
Qed.
