(* Bus/L17_Update.v -- lemmas for C17 (configuration round-trips): what one path of an
   UpdateSubscription mask does to the row, the fold over the mask, and the shape of
   [update_sub]'s result. *)
From MB Require Import Base.
From MB.Bus Require Import State Ops Step Defs L_Tables.
Local Open Scope string_scope.
Open Scope list_scope.
Open Scope Z_scope.

(* ---- generic table facts ---- *)
Lemma find_ins_new {R} (key : R -> id) (p : R -> bool) r l :
  find p l = None -> p r = true -> find p (ins key r l) = Some r.
Proof.
  induction l as [|x l IH]; cbn [ins find]; intros Hn Hr.
  - rewrite Hr. reflexivity.
  - destruct (p x) eqn:Ex; [discriminate|].
    destruct (key r <? key x)%N; cbn [find].
    + rewrite Hr. reflexivity.
    + rewrite Ex. apply IH; assumption.
Qed.

Lemma nodup_key_inj {R} (key : R -> id) l a b :
  NoDup (map key l) -> In a l -> In b l -> key a = key b -> a = b.
Proof.
  intros Hd Ha Hb He.
  pose proof (find_id_in_nodup key a l Hd Ha) as Fa.
  pose proof (find_id_in_nodup key b l Hd Hb) as Fb.
  rewrite He in Fa. rewrite Fa in Fb. inversion Fb. reflexivity.
Qed.

Lemma in_upd_const (l : list sub) i s2 x :
  In x (upd_where (fun y => N.eqb (s_id y) i) (fun _ => s2) l) -> s_id x = i -> x = s2.
Proof.
  unfold upd_where. rewrite in_map_iff. intros [r [He Hr]] Hi.
  destruct (N.eqb (s_id r) i) eqn:E; [symmetry; exact He|].
  subst x. apply N.eqb_neq in E. contradiction.
Qed.

Lemma in_upd_other (l : list sub) i (f : sub -> sub) x :
  In x l -> s_id x <> i -> In x (upd_where (fun y => N.eqb (s_id y) i) f l).
Proof.
  intros Hx Hn. unfold upd_where. apply in_map_iff. exists x. split; [|exact Hx].
  apply N.eqb_neq in Hn. rewrite Hn. reflexivity.
Qed.

Lemma find_live_sub_some st name s :
  find_live_sub st name = Some s -> In s (subs st) /\ sub_live s = true /\ s_name s = name.
Proof.
  unfold find_live_sub. intros H. apply find_some in H. destruct H as [Hi Hp].
  apply andb_true_iff in Hp. destruct Hp as [Hl Hn]. apply String.eqb_eq in Hn. auto.
Qed.

Lemma find_live_topic_some st name t :
  find_live_topic st name = Some t -> In t (topics st) /\ topic_live t = true /\ t_name t = name.
Proof.
  unfold find_live_topic. intros H. apply find_some in H. destruct H as [Hi Hp].
  apply andb_true_iff in Hp. destruct Hp as [Hl Hn]. apply String.eqb_eq in Hn. auto.
Qed.

Lemma render_live st name t :
  NoDup (map t_id (topics st)) -> find_live_topic st name = Some t ->
  render_topic_name st (t_id t) = name.
Proof.
  intros Hd H. apply find_live_topic_some in H. destruct H as (Hi & Hl & Hn).
  unfold render_topic_name, get_topic. rewrite (find_id_in_nodup t_id t _ Hd Hi).
  rewrite Hl. exact Hn.
Qed.

(* ---- one path ---- *)
(* [keeps ps a b]: b differs from a at most in the field groups whose path is in ps *)
Definition keeps (ps : list str) (a b : sub) : Prop :=
  (~ In "labels" ps -> s_labels a = s_labels b) /\
  (~ In "expiration_policy" ps -> s_ttl a = s_ttl b /\ s_expires a = s_expires b) /\
  (~ In "message_retention_duration" ps -> s_msg_ttl a = s_msg_ttl b) /\
  (~ In "enable_message_ordering" ps -> s_ordered a = s_ordered b) /\
  (~ In "retry_policy" ps -> s_minb a = s_minb b /\ s_maxb a = s_maxb b) /\
  (~ In "push_config" ps -> s_push a = s_push b) /\
  (~ In "filter" ps -> s_filter a = s_filter b) /\
  (~ In "dead_letter_policy" ps -> s_dl_topic a = s_dl_topic b /\ s_max_attempts a = s_max_attempts b) /\
  s_id a = s_id b /\ s_name a = s_name b /\ s_topic a = s_topic b /\ s_delay a = s_delay b /\
  s_deleted a = s_deleted b.

(* what path p sets in the row b it produces *)
Definition sets (q : subreq) (w : time) (p : str) (b : sub) : Prop :=
  (p = "labels" -> s_labels b = q_labels q) /\
  (p = "expiration_policy" ->
     s_ttl b = (if q_ttl q =? 0 then default_sub_ttl else q_ttl q) /\ s_expires b = w + s_ttl b) /\
  (p = "message_retention_duration" ->
     s_msg_ttl b = (if q_msg_ttl q =? 0 then default_msg_ttl else q_msg_ttl q)) /\
  (p = "enable_message_ordering" -> s_ordered b = q_ordered q) /\
  (p = "filter" -> s_filter b = (if String.eqb (q_filter q) "" then None else Some (q_filter q))).

Ltac sub_projs :=
  cbn [In s_id s_name s_topic s_deleted s_expires s_ttl s_msg_ttl s_ordered s_filter s_minb s_maxb
       s_max_attempts s_dl_topic s_delay s_push s_labels].

Ltac split_all := repeat match goal with |- _ /\ _ => split | |- _ -> _ => intro end.

Ltac fin_path :=
  let H := fresh "H" in
  intros H; inversion H; subst; clear H; sub_projs; split_all;
  try reflexivity; try discriminate;
  try (match goal with Hn : ~ _ |- _ => exfalso; apply Hn; left; reflexivity end).

Lemma keeps_refl ps a : keeps ps a a.
Proof. unfold keeps. split_all; reflexivity. Qed.

Lemma upd_path_spec st q w s d t p s' d' t' :
  upd_path st q w (s, d, t) p = inr (s', d', t') -> keeps [p] s s' /\ sets q w p s' /\ t' = true.
Proof.
  unfold upd_path, keeps, sets. cbv beta iota zeta.
  destruct (String.eqb p "name") eqn:E1; [discriminate|].
  destruct (String.eqb p "topic") eqn:E2; [discriminate|].
  destruct (String.eqb p "labels") eqn:E3.
  { apply String.eqb_eq in E3. subst p. fin_path. }
  destruct (String.eqb p "expiration_policy") eqn:E4.
  { apply String.eqb_eq in E4. subst p. fin_path. }
  destruct (String.eqb p "message_retention_duration") eqn:E5.
  { apply String.eqb_eq in E5. subst p. fin_path. }
  destruct (String.eqb p "enable_message_ordering") eqn:E6.
  { apply String.eqb_eq in E6. subst p. fin_path. }
  destruct (String.eqb p "retry_policy") eqn:E7.
  { apply String.eqb_eq in E7. subst p. destruct (q_retry q) as [[a b]|]; fin_path. }
  destruct (String.eqb p "push_config") eqn:E8.
  { apply String.eqb_eq in E8. subst p. destruct (validate_push (q_push q)); [discriminate|]. fin_path. }
  destruct (String.eqb p "filter") eqn:E9.
  { apply String.eqb_eq in E9. subst p.
    destruct (String.eqb (q_filter q) "") eqn:EF; [fin_path|].
    destruct (filter_parses (q_filter q)); [fin_path|discriminate]. }
  destruct (String.eqb p "dead_letter_policy") eqn:E10; [|discriminate].
  apply String.eqb_eq in E10. subst p.
  destruct (q_dl q) as [[tn n]|]; cbv beta iota zeta.
  - destruct (String.eqb tn ""); [fin_path|].
    destruct (find_live_topic st tn); [fin_path|discriminate].
  - cbn [String.eqb]. fin_path.
Qed.

Lemma upd_path_rejects_unknown st q w acc p :
  ~ In p ["labels"; "expiration_policy"; "message_retention_duration"; "enable_message_ordering";
          "retry_policy"; "push_config"; "filter"; "dead_letter_policy"] ->
  exists c, upd_path st q w acc p = inl c.
Proof.
  intros Hn. destruct acc as [[s d] t]. unfold upd_path. cbv beta iota zeta.
  destruct (String.eqb p "name"); [eexists; reflexivity|].
  destruct (String.eqb p "topic"); [eexists; reflexivity|].
  repeat match goal with
  | |- context [if String.eqb p ?x then _ else _] =>
      destruct (String.eqb_spec p x) as [E|E];
      [exfalso; apply Hn; rewrite E; cbn [In]; repeat (first [left; reflexivity|right])|clear E]
  end.
  eexists; reflexivity.
Qed.

Lemma upd_path_rejects_filter st q w acc :
  q_filter q <> "" -> filter_parses (q_filter q) = false ->
  exists c, upd_path st q w acc "filter" = inl c.
Proof.
  intros Hne Hp. destruct acc as [[s d] t]. unfold upd_path. cbv beta iota zeta.
  cbn [String.eqb Ascii.eqb Bool.eqb andb].
  rewrite Hp. destruct (String.eqb_spec (q_filter q) "") as [E|E]; [contradiction|].
  eexists; reflexivity.
Qed.

(* ---- the fold over the mask ---- *)
Lemma notin_cons (x p : str) r : ~ In x (p :: r) -> ~ In x [p] /\ ~ In x r.
Proof. cbn [In]. tauto. Qed.

Lemma keeps_trans p r a b c : keeps [p] a b -> keeps r b c -> keeps (p :: r) a c.
Proof.
  unfold keeps.
  intros (A1 & A2 & A3 & A4 & A5 & A6 & A7 & A8 & A9 & A10 & A11 & A12 & A13)
         (B1 & B2 & B3 & B4 & B5 & B6 & B7 & B8 & B9 & B10 & B11 & B12 & B13).
  repeat match goal with |- _ /\ _ => split end; try congruence.
  all: intros Hn; apply notin_cons in Hn; destruct Hn as [Hn1 Hn2].
  - rewrite (A1 Hn1). exact (B1 Hn2).
  - destruct (A2 Hn1), (B2 Hn2). split; congruence.
  - rewrite (A3 Hn1). exact (B3 Hn2).
  - rewrite (A4 Hn1). exact (B4 Hn2).
  - destruct (A5 Hn1), (B5 Hn2). split; congruence.
  - rewrite (A6 Hn1). exact (B6 Hn2).
  - rewrite (A7 Hn1). exact (B7 Hn2).
  - destruct (A8 Hn1), (B8 Hn2). split; congruence.
Qed.

Lemma upd_paths_keeps st q w : forall ps s d t s' d' t',
  upd_paths st q w (s, d, t) ps = inr (s', d', t') -> keeps ps s s'.
Proof.
  induction ps as [|p r IH]; intros s d t s' d' t'; cbn [upd_paths].
  - intros H; inversion H; subst. apply keeps_refl.
  - destruct (upd_path st q w (s, d, t) p) as [c|[[sm dm] tm]] eqn:E; [discriminate|].
    intros H. apply keeps_trans with sm.
    + eapply upd_path_spec; exact E.
    + eapply IH; exact H.
Qed.

Lemma upd_paths_sets st q w (x : str) (F : sub -> Prop) :
  (forall s d t s' d' t', upd_path st q w (s, d, t) x = inr (s', d', t') -> F s') ->
  (forall s d t p s' d' t', upd_path st q w (s, d, t) p = inr (s', d', t') -> p <> x -> F s -> F s') ->
  forall ps s d t s' d' t',
    upd_paths st q w (s, d, t) ps = inr (s', d', t') -> In x ps \/ F s -> F s'.
Proof.
  intros Hset Hkeep.
  induction ps as [|p r IH]; intros s d t s' d' t'; cbn [upd_paths].
  - intros H; inversion H; subst. intros [[]|HF]. exact HF.
  - destruct (upd_path st q w (s, d, t) p) as [c|[[sm dm] tm]] eqn:E; [discriminate|].
    intros H Hor. apply (IH _ _ _ _ _ _ H).
    destruct (string_dec p x) as [->|Hne].
    + right. eapply Hset; exact E.
    + destruct Hor as [[He|Hi]|HF]; [contradiction|left; exact Hi|].
      right. eapply Hkeep; eauto.
Qed.

Lemma upd_paths_reject st q w p :
  (forall acc, exists c, upd_path st q w acc p = inl c) ->
  forall ps, In p ps -> forall acc, exists c, upd_paths st q w acc ps = inl c.
Proof.
  intros Hp. induction ps as [|p0 r IH]; intros Hin acc; [destruct Hin|].
  cbn [upd_paths]. destruct (upd_path st q w acc p0) as [c|acc'] eqn:E.
  - eexists; reflexivity.
  - destruct Hin as [->|Hin].
    + destruct (Hp acc) as [c Hc]. congruence.
    + apply IH; exact Hin.
Qed.

(* the five "sets" facts for the whole mask *)
Lemma upd_paths_sets_all st q w ps s d t s' d' t' :
  upd_paths st q w (s, d, t) ps = inr (s', d', t') ->
  (In "labels" ps -> s_labels s' = q_labels q) /\
  (In "expiration_policy" ps ->
     s_ttl s' = (if q_ttl q =? 0 then default_sub_ttl else q_ttl q) /\ s_expires s' = w + s_ttl s') /\
  (In "message_retention_duration" ps ->
     s_msg_ttl s' = (if q_msg_ttl q =? 0 then default_msg_ttl else q_msg_ttl q)) /\
  (In "enable_message_ordering" ps -> s_ordered s' = q_ordered q) /\
  (In "filter" ps -> s_filter s' = (if String.eqb (q_filter q) "" then None else Some (q_filter q))).
Proof.
  intros H.
  assert (NI : forall p x : str, p <> x -> ~ In x [p]).
  { intros p x Hne [He|[]]. contradiction. }
  repeat match goal with |- _ /\ _ => split end; intros Hi.
  - apply (upd_paths_sets st q w "labels" (fun b => s_labels b = q_labels q)) with (3 := H); [| |left; exact Hi].
    + intros. eapply upd_path_spec; eauto.
    + intros s0 d0 t0 p s1 d1 t1 E Hne HF. apply upd_path_spec in E. destruct E as [K _].
      destruct K as (K & _). rewrite <- (K (NI _ _ Hne)). exact HF.
  - apply (upd_paths_sets st q w "expiration_policy"
             (fun b => s_ttl b = (if q_ttl q =? 0 then default_sub_ttl else q_ttl q) /\
                       s_expires b = w + s_ttl b)) with (3 := H); [| |left; exact Hi].
    + intros. eapply upd_path_spec; eauto.
    + intros s0 d0 t0 p s1 d1 t1 E Hne HF. apply upd_path_spec in E. destruct E as [K _].
      destruct K as (_ & K & _). destruct (K (NI _ _ Hne)) as [K1 K2].
      rewrite <- K1, <- K2. exact HF.
  - apply (upd_paths_sets st q w "message_retention_duration"
             (fun b => s_msg_ttl b = (if q_msg_ttl q =? 0 then default_msg_ttl else q_msg_ttl q)))
      with (3 := H); [| |left; exact Hi].
    + intros. eapply upd_path_spec; eauto.
    + intros s0 d0 t0 p s1 d1 t1 E Hne HF. apply upd_path_spec in E. destruct E as [K _].
      destruct K as (_ & _ & K & _). rewrite <- (K (NI _ _ Hne)). exact HF.
  - apply (upd_paths_sets st q w "enable_message_ordering" (fun b => s_ordered b = q_ordered q))
      with (3 := H); [| |left; exact Hi].
    + intros. eapply upd_path_spec; eauto.
    + intros s0 d0 t0 p s1 d1 t1 E Hne HF. apply upd_path_spec in E. destruct E as [K _].
      destruct K as (_ & _ & _ & K & _). rewrite <- (K (NI _ _ Hne)). exact HF.
  - apply (upd_paths_sets st q w "filter"
             (fun b => s_filter b = (if String.eqb (q_filter q) "" then None else Some (q_filter q))))
      with (3 := H); [| |left; exact Hi].
    + intros. eapply upd_path_spec; eauto.
    + intros s0 d0 t0 p s1 d1 t1 E Hne HF. apply upd_path_spec in E. destruct E as [K _].
      destruct K as (_ & _ & _ & _ & _ & _ & K & _). rewrite <- (K (NI _ _ Hne)). exact HF.
Qed.

(* ---- the shape of update_sub's result ---- *)
Lemma update_sub_cases st q paths w :
  (r_state (update_sub st q paths w) = st /\ forall v, r_resp (update_sub st q paths w) <> RSub v) \/
  (exists s d0 s2 d2,
     find_live_sub st (q_name q) = Some s /\
     upd_paths st q w (s, d0, false) paths = inr (s2, d2, true) /\
     r_state (update_sub st q paths w) =
       set_subs st (upd_where (fun x => N.eqb (s_id x) (s_id s)) (fun _ => s2) (subs st))).
Proof.
  unfold update_sub.
  destruct (negb (valid_sub_name (q_name q))); [left; split; [reflexivity|intros v; discriminate]|].
  destruct (find_live_sub st (q_name q)) as [s|] eqn:EF; [|left; split; [reflexivity|intros v; discriminate]].
  match goal with |- context [upd_paths st q w (s, ?d, false) paths] => set (d0 := d) end.
  destruct (upd_paths st q w (s, d0, false) paths) as [c|[[s2 d2] t2]] eqn:EU;
    [left; split; [reflexivity|intros v; discriminate]|].
  destruct t2; cbn [negb].
  - right. exists s, d0, s2, d2. split; [reflexivity|]. split; [exact EU|reflexivity].
  - left; split; [reflexivity|intros v; discriminate].
Qed.
