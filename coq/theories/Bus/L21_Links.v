(* Bus/L21_Links.v -- a delivery row keeps its subscription, its publish time and its ordering
   link for as long as it exists - the link may only be set to NULL (its target was deleted):
   across every step, rows with the same id are related by keepL.
   (Derived from L20_Keys.v by replacing the kept columns; used by T_Live.) *)
From MB Require Import Base.
From MB.Bus Require Import State Ops Step Defs L04_Lists L04_Evo L04_Pull L14_Dels.
Local Open Scope string_scope.
Open Scope list_scope.
Open Scope Z_scope.

(* ---- rows whose subscription, publish time and link are kept (or the link nulled) ---- *)
Definition keepL (x x' : del) : Prop :=
  d_sub x' = d_sub x /\ d_published x' = d_published x /\
  (d_not_before x' = d_not_before x \/ d_not_before x' = None).

Lemma keepL_refl x : keepL x x.
Proof. split; [reflexivity|]. split; [reflexivity|]. left. reflexivity. Qed.

Lemma keepL_trans x y z : keepL x y -> keepL y z -> keepL x z.
Proof.
  unfold keepL; intros [A [B L1]] [C [D L2]]. split; [congruence|]. split; [congruence|].
  destruct L2 as [L2|L2]; [|right; exact L2]. destruct L1 as [L1|L1]; [left|right]; congruence.
Qed.

Lemma evo_keepL_trans F l l1 l2 : evo keepL F l l1 -> evo keepL F l1 l2 -> evo keepL F l l2.
Proof.
  intros A B. eapply evo_trans; [exact A|exact B|]. intros x x1 x2 _ _. apply keepL_trans.
Qed.

Lemma evo_keepL_refl F l : evo keepL F l l.
Proof. apply evo_refl. apply keepL_refl. Qed.

Lemma evo_eq_keepL F l l' : evo eq F l l' -> evo keepL F l l'.
Proof.
  intros A. eapply evo_mono; [exact A| |apply incl_refl]. intros x x' _ ->. apply keepL_refl.
Qed.

Lemma evo_upd_keepL F (p : del -> bool) f l :
  (forall x, d_id (f x) = d_id x /\ d_sub (f x) = d_sub x /\ d_published (f x) = d_published x /\
             d_not_before (f x) = d_not_before x) -> evo keepL F l (upd_where p f l).
Proof.
  intros Hf. eapply evo_mono; [apply evo_upd; intros x; apply Hf| |apply incl_refl].
  intros x x' _ ->. destruct (p x); [|apply keepL_refl].
  destruct (Hf x) as [_ [A [B C]]]. split; [exact A|]. split; [exact B|]. left. exact C.
Qed.

Lemma dead_letter_evoL st d dlt now fr st' fr' w n :
  dead_letter st d dlt now fr = (st', fr', w, n) ->
  subs st' = subs st /\ incl (fids fr') (fids fr) /\ evo keepL (fids fr) (dels st) (dels st').
Proof.
  intros H. apply dead_letter_evo in H. destruct H as [S [I V]].
  split; [exact S|]. split; [exact I|].
  eapply evo_mono; [exact V| |apply incl_refl].
  intros x x' _ HD. unfold DL in HD. subst x'.
  destruct (N.eqb (d_id x) (d_id d)); (split; [reflexivity|]; split; [reflexivity|]; left; reflexivity).
Qed.

Lemma nack_each_evoL now wnow fz : forall ds st fr st' fr' w n,
  nack_each st ds now wnow fz fr = (st', fr', w, n) ->
  subs st' = subs st /\ incl (fids fr') (fids fr) /\ evo keepL (fids fr) (dels st) (dels st').
Proof.
  assert (Z0 : forall st fr, subs st = subs st /\ incl (fids fr) (fids fr) /\
                             evo keepL (fids fr) (dels st) (dels st)).
  { intros. split; [reflexivity|]. split; [apply incl_refl|apply evo_keepL_refl]. }
  induction ds as [|d r IH]; intros st fr st' fr' w n H; cbn [nack_each] in H.
  - inversion H; subst. apply Z0.
  - destruct (get_sub st (d_sub d)) as [s|]; [|inversion H; subst; apply Z0].
    cbv zeta in H.
    match type of H with context [match ?X with (_, _) => _ end] =>
      destruct X as [[[st1 fr1] w1] n1] eqn:E1 end.
    destruct (nack_each st1 r now wnow fz fr1) as [[[st2 fr2] w2] n2] eqn:E2.
    inversion H; subst.
    assert (A : subs st1 = subs st /\ incl (fids fr1) (fids fr) /\
                evo keepL (fids fr) (dels st) (dels st1)).
    { destruct (full_dl s && (max_attempts_of s <=? d_attempts d)).
      - destruct (s_dl_topic s) as [dlt|];
          [eapply dead_letter_evoL; exact E1|inversion E1; subst; apply Z0].
      - inversion E1; subst. cbn [set_dels dels subs].
        split; [reflexivity|]. split; [apply incl_refl|].
        apply evo_upd_keepL. intros x; repeat split; reflexivity. }
    destruct A as [S1 [I1 V1]]. apply IH in E2. destruct E2 as [S2 [I2 V2]].
    split; [congruence|]. split; [eapply incl_tran; eauto|].
    eapply evo_keepL_trans; [exact V1|eapply evo_F_mono; eauto].
Qed.

Lemma AR_evoL s strict maxb now wnow fz cands st first bytes fr st' fr' ps w n :
  apply_results st s cands first strict bytes maxb now wnow fz fr = (st', fr', ps, w, n) ->
  subs st' = subs st /\ incl (fids fr') (fids fr) /\ evo keepL (fids fr) (dels st) (dels st').
Proof.
  intros H.
  refine (AR_ind s strict maxb now wnow fz
    (fun cands st fr st' fr' ps n =>
       subs st' = subs st /\ incl (fids fr') (fids fr) /\ evo keepL (fids fr) (dels st) (dels st'))
    _ _ _ _ _ cands st first bytes fr st' fr' ps w n H); clear.
  - intros st fr. split; [reflexivity|]. split; [apply incl_refl|apply evo_keepL_refl].
  - intros d r st fr. split; [reflexivity|]. split; [apply incl_refl|apply evo_keepL_refl].
  - intros d r st fr st' fr' ps n IHQ. exact IHQ.
  - intros d r dlt st fr st1 fr1 w1 n1 st' fr' ps w2 n2 bytes _ E1 _ [S2 [I2 V2]].
    apply dead_letter_evoL in E1. destruct E1 as [S1 [I1 V1]].
    split; [congruence|]. split; [eapply incl_tran; eauto|].
    eapply evo_keepL_trans; [exact V1|eapply evo_F_mono; eauto].
  - intros d r p st fr st' fr' ps w2 n2 bytes _ _ _ _ [S2 [I2 V2]].
    split; [exact S2|]. split; [exact I2|].
    eapply evo_keepL_trans; [|exact V2].
    unfold lease_state. cbn [set_dels dels]. apply evo_upd_keepL. intros x; repeat split; reflexivity.
Qed.

Lemma sweep_each_evoL wnow : forall ds st fr st' fr' w n,
  sweep_each st ds wnow fr = (st', fr', w, n) ->
  subs st' = subs st /\ incl (fids fr') (fids fr) /\ evo keepL (fids fr) (dels st) (dels st').
Proof.
  assert (Z0 : forall st fr, subs st = subs st /\ incl (fids fr) (fids fr) /\
                             evo keepL (fids fr) (dels st) (dels st)).
  { intros. split; [reflexivity|]. split; [apply incl_refl|apply evo_keepL_refl]. }
  induction ds as [|i r IH]; intros st fr st' fr' w n H; cbn [sweep_each] in H.
  - inversion H; subst. apply Z0.
  - destruct (get_del st i) as [d|]; [|inversion H; subst; apply Z0].
    destruct (get_sub st (d_sub d)) as [s|]; [|inversion H; subst; apply Z0].
    destruct (s_dl_topic s) as [dlt|]; [|inversion H; subst; apply Z0].
    destruct (dead_letter st d dlt wnow fr) as [[[st1 fr1] w1] n1] eqn:E1.
    destruct (sweep_each st1 r wnow fr1) as [[[st2 fr2] w2] n2] eqn:E2.
    inversion H; subst.
    apply dead_letter_evoL in E1. destruct E1 as [S1 [I1 V1]].
    apply IH in E2. destruct E2 as [S2 [I2 V2]].
    split; [congruence|]. split; [eapply incl_tran; eauto|].
    eapply evo_keepL_trans; [exact V1|eapply evo_F_mono; eauto].
Qed.

Definition link_desc (st : state) (now : time) (o : op) : Prop :=
  rel_desc keepL (dels st) (dels (post st now o)).

Lemma linkd_keep st now o F :
  evo keepL F (dels st) (dels (post st now o)) -> link_desc st now o.
Proof.
  intros V. left. exists F. exact V.
Qed.

Lemma linkd_same st now o : dels (post st now o) = dels st -> link_desc st now o.
Proof. intros H. apply (linkd_keep st now o []). rewrite H. apply evo_keepL_refl. Qed.

Ltac crush_same :=
  apply linkd_same; unfold post, step;
  repeat (match goal with |- context [match ?x with _ => _ end] => destruct x end);
  reflexivity.

Lemma linkd_publish st now t ms fr : link_desc st now (Publish t ms fr).
Proof.
  destruct (negb (valid_topic_name t)) eqn:Ev;
    [apply linkd_same; unfold post, step; rewrite Ev; reflexivity|].
  destruct (find_live_topic st t) as [tp|] eqn:Et;
    [|apply linkd_same; unfold post, step; rewrite Ev, Et; reflexivity].
  destruct (publish_all st tp ms fr) as [[[[st' fr'] w] n]|] eqn:E;
    [|apply linkd_same; unfold post, step; rewrite Ev, Et, E; reflexivity].
  apply (linkd_keep _ _ _ (fids fr)). unfold post, step. rewrite Ev, Et, E. cbn [done r_state].
  apply publish_all_evo in E. destruct E as [_ [_ V]]. apply evo_eq_keepL. exact V.
Qed.

Lemma linkd_modack st now name ids secs w : link_desc st now (ModAck name ids secs w).
Proof.
  apply (linkd_keep _ _ _ []). unfold post, step.
  destruct (negb (valid_sub_name name)); [apply evo_keepL_refl|].
  destruct ids as [ids|]; [|apply evo_keepL_refl].
  unfold do_delay.
  destruct (secs * sec <=? 0); cbn [done r_state set_dels dels];
    apply evo_upd_keepL; intros x; repeat split; reflexivity.
Qed.

Lemma linkd_ack st now name ids w : link_desc st now (Ack name ids w).
Proof.
  apply (linkd_keep _ _ _ []). unfold post, step.
  destruct (negb (valid_sub_name name)); [apply evo_keepL_refl|].
  destruct ids as [ids|]; [|apply evo_keepL_refl].
  unfold do_ack. cbn [done r_state set_dels dels].
  apply evo_upd_keepL; intros x; repeat split; reflexivity.
Qed.

Lemma linkd_pull st now name max returned others w fz fr :
  link_desc st now (Pull name max returned others w fz fr).
Proof.
  apply (linkd_keep _ _ _ (fids fr)). unfold post, step.
  destruct (negb (valid_sub_name name)); [apply evo_keepL_refl|].
  destruct (max <? 1); [apply evo_keepL_refl|].
  destruct (find_live_sub st name) as [s|]; [|apply evo_keepL_refl].
  match goal with |- context [apply_results ?a ?b ?c ?d ?e ?f ?g ?h ?i ?j ?k] =>
    destruct (apply_results a b c d e f g h i j k) as [[[[st1 fr1] ps] wk] n] eqn:E end.
  cbn [done r_state]. apply AR_evoL in E. destruct E as [_ [_ V]].
  cbn [set_subs dels] in V. exact V.
Qed.

Lemma linkd_seek_time st now name target w :
  link_desc st now (SeekTime name target w).
Proof.
  apply (linkd_keep _ _ _ []). unfold post, step.
  destruct (negb (valid_sub_name name)); [apply evo_keepL_refl|].
  destruct (find_live_sub st name) as [s|]; [|apply evo_keepL_refl].
  unfold seek_time. cbn [done r_state fst set_dels dels].
  eapply evo_keepL_trans; apply evo_upd_keepL; intros x; repeat split; reflexivity.
Qed.

Lemma linkd_seek_snap st now name sn w :
  link_desc st now (SeekSnap name sn w).
Proof.
  apply (linkd_keep _ _ _ []). unfold post, step.
  destruct (negb (valid_sub_name name)); [apply evo_keepL_refl|].
  destruct (negb (valid_snap_name sn)); [apply evo_keepL_refl|].
  destruct (find_live_sub st name) as [s|]; [|apply evo_keepL_refl].
  destruct (find_snap st sn) as [n|]; [|apply evo_keepL_refl].
  unfold seek_snap. cbn [done r_state fst set_dels dels].
  eapply evo_keepL_trans; [|apply evo_upd_keepL; intros x; repeat split; reflexivity].
  destruct (n_acked n).
  - apply evo_upd_keepL; intros x; repeat split; reflexivity.
  - eapply evo_keepL_trans; apply evo_upd_keepL; intros x; repeat split; reflexivity.
Qed.

Lemma linkd_stream st now acks nacks w fz fr : link_desc st now (StreamAckNack acks nacks w fz fr).
Proof.
  apply (linkd_keep _ _ _ (fids fr)). unfold post, step. unfold do_ack.
  set (st1 := set_dels st (upd_where (ack_pred acks) (d_set_completed w) (dels st))).
  destruct (do_nack st1 nacks now w fz fr) as [[[st2 fr2] w2] n2] eqn:E.
  cbn [done r_state]. unfold do_nack in E. apply nack_each_evoL in E. destruct E as [_ [_ V2]].
  eapply evo_keepL_trans; [|exact V2].
  unfold st1. cbn [set_dels dels]. apply evo_upd_keepL. intros x; repeat split; reflexivity.
Qed.

Lemma d_null_link_links ids x :
  d_id (d_null_link ids x) = d_id x /\ keepL x (d_null_link ids x).
Proof.
  unfold d_null_link, keepL. destruct (d_not_before x) as [p|] eqn:E;
    [|split; [reflexivity|]; split; [reflexivity|]; split; [reflexivity|]; left; exact E].
  destruct (mem_id p ids); cbn;
    (split; [reflexivity|]; split; [reflexivity|]; split; [reflexivity|]); [right; reflexivity|left; exact E].
Qed.

Lemma linkd_prune st o now chosen :
  dels (post st now o) = map (d_null_link chosen) (del_ids d_id chosen (dels st)) ->
  link_desc st now o.
Proof.
  intros H. right. rewrite H. intros x' Hx'. apply in_map_iff in Hx'. destruct Hx' as [x [<- Hx]].
  apply in_del_ids in Hx. exists x. destruct (d_null_link_links chosen x) as [A B].
  split; [exact Hx|]. split; [symmetry; exact A|]. exact B.
Qed.

Lemma linkd_job st now j mn mx ch f w fr : link_desc st now (Job j mn mx ch f w fr).
Proof.
  destruct f.
  - apply linkd_same. unfold post, step, run_job. destruct j; reflexivity.
  - destruct j.
    + eapply linkd_prune. reflexivity.
    + eapply linkd_prune. reflexivity.
    + apply linkd_same. reflexivity.
    + eapply linkd_prune. reflexivity.
    + apply linkd_same. reflexivity.
    + apply linkd_same. unfold post, step, run_job.
      destruct (existsb (topic_has_messages st) ch); reflexivity.
    + apply linkd_same. reflexivity.
    + apply (linkd_keep _ _ _ (fids fr)). unfold post, step, run_job.
      destruct (sweep_each st ch w fr) as [[[st1 fr1] wk] n] eqn:E.
      cbn [done r_state]. apply sweep_each_evoL in E. destruct E as [_ [_ V]]. exact V.
Qed.

Lemma linkd_create_sub st now q fresh w : link_desc st now (CreateSub q fresh w).
Proof.
  apply linkd_same. unfold post, step, create_sub.
  repeat (match goal with |- context [match ?x with _ => _ end] => destruct x end); reflexivity.
Qed.

Lemma linkd_update_sub st now q paths w : link_desc st now (UpdateSub q paths w).
Proof.
  apply linkd_same. unfold post, step, update_sub.
  destruct (negb (valid_sub_name (q_name q))); [reflexivity|].
  destruct (find_live_sub st (q_name q)) as [s|]; [|reflexivity].
  match goal with |- context [upd_paths ?a ?b ?c ?d ?e] =>
    destruct (upd_paths a b c d e) as [c0|[[s' dl] t]] end; [reflexivity|].
  destruct (negb t); reflexivity.
Qed.

Lemma link_desc_all st now o : ids_unique st -> link_desc st now o.
Proof.
  intros U. destruct o.
  - crush_same.
  - crush_same.
  - crush_same.
  - crush_same.
  - crush_same.
  - crush_same.
  - apply linkd_publish.
  - apply linkd_create_sub.
  - crush_same.
  - apply linkd_update_sub.
  - crush_same.
  - crush_same.
  - apply linkd_modack.
  - apply linkd_ack.
  - apply linkd_pull.
  - apply linkd_seek_time.
  - apply linkd_seek_snap.
  - crush_same.
  - crush_same.
  - crush_same.
  - crush_same.
  - crush_same.
  - crush_same.
  - apply linkd_stream.
  - crush_same.
  - apply linkd_job.
Qed.
