(* Bus/L05_Step.v -- the shape of [step] per operation, as far as the C05 invariant needs it. *)
From MB Require Import Base.
From MB.Bus Require Import State Ops Step Defs L05_Lists L05_Ops.
Local Open Scope string_scope.
Open Scope list_scope.
Open Scope Z_scope.

Lemma find_live_sub_spec st name s :
  find_live_sub st name = Some s -> In s (subs st) /\ s_deleted s = None.
Proof.
  unfold find_live_sub. intros H. apply find_some in H. destruct H as [H1 H2].
  split; [exact H1|]. apply andb_prop in H2. destruct H2 as [H2 _].
  unfold sub_live, is_none, is_some in H2. destruct (s_deleted s); [discriminate|reflexivity].
Qed.

Lemma find_live_sub_get st name s :
  ids_unique st -> find_live_sub st name = Some s -> get_sub st (s_id s) = Some s.
Proof.
  intros Hu H. apply find_live_sub_spec in H. destruct H as [H _].
  unfold get_sub. apply find_id_unique; [apply Hu|exact H].
Qed.

Lemma get_sub_in st i s : get_sub st i = Some s -> In s (subs st) /\ s_id s = i.
Proof. unfold get_sub. apply find_id_In. Qed.

Lemma eligible_sub st s now d : eligible st s now d = true -> d_sub d = s_id s.
Proof.
  unfold eligible. intros H.
  apply andb_prop in H. destruct H as [H _]. apply andb_prop in H. destruct H as [H _].
  apply andb_prop in H. destruct H as [H _]. apply andb_prop in H. destruct H as [H _].
  apply N.eqb_eq. exact H.
Qed.

Lemma selection_legal_eligible st s now max ret oth i :
  selection_legal st s now max ret oth = true -> In i (ret ++ oth) ->
  exists e, In e (dels st) /\ d_id e = i /\ eligible st s now e = true.
Proof.
  unfold selection_legal. intros H Hi.
  apply andb_prop in H. destruct H as [H _]. apply andb_prop in H. destruct H as [H _].
  apply andb_prop in H. destruct H as [H _]. apply andb_prop in H. destruct H as [_ H].
  apply Nat.eqb_eq in H.
  destruct (flat_map_opt_full (fun i => find_id d_id i (filter (eligible st s now) (dels st))) _ H i Hi)
    as [e He].
  apply find_id_In in He. destruct He as [He1 He2]. apply filter_In in He1.
  exists e. split; [apply He1|]. split; [exact He2|apply He1].
Qed.

Definition pull_st0 (st : state) (s : sub) (wnow : time) : state :=
  set_subs st (upd_where (fun x => N.eqb (s_id x) (s_id s)) (s_set_expires (wnow + s_ttl s)) (subs st)).
Definition pull_cands (st : state) (obs : list id) : list del :=
  flat_map (fun i => match get_del st i with Some d => [d] | None => [] end) obs.

Lemma pull_cases st now name max returned others wnow fz fr :
  legal st now (Pull name max returned others wnow fz fr) ->
  (post st now (Pull name max returned others wnow fz fr) = st /\
   pulled_of (answer st now (Pull name max returned others wnow fz fr)) = []) \/
  exists s st1 fr1 ps w,
    find_live_sub st name = Some s /\ selection_legal st s now max returned others = true /\
    apply_results (pull_st0 st s wnow) s (pull_cands st (returned ++ others)) true false 0
                  pull_max_bytes now wnow fz fr = (st1, fr1, ps, w, []) /\
    post st now (Pull name max returned others wnow fz fr) = st1 /\
    answer st now (Pull name max returned others wnow fz fr) = RPull ps.
Proof.
  unfold legal, post, answer, step, pull_st0, pull_cands.
  destruct (negb (valid_sub_name name)); [intros _; left; split; reflexivity|].
  destruct (max <? 1); [intros _; left; split; reflexivity|].
  destruct (find_live_sub st name) as [s|]; [|intros _; left; split; reflexivity].
  destruct (apply_results _ _ _ _ _ _ _ _ _ _ _) as [[[[st1 fr1] ps] w] n] eqn:E.
  cbn [done r_notes r_state r_resp]. intros H.
  apply app_eq_nil in H. destruct H as [H1 H2]. apply app_eq_nil in H2. destruct H2 as [H2 _].
  subst n. right. exists s, st1, fr1, ps, w.
  split; [reflexivity|]. split; [|split; [exact E|split; reflexivity]].
  destruct (selection_legal st s now max returned others); [reflexivity|discriminate].
Qed.

Lemma pull_cands_in st obs c :
  NoDup (map d_id (dels st)) -> In c (pull_cands st obs) -> In c (dels st) /\ In (d_id c) obs.
Proof.
  intros Hu H. unfold pull_cands in H. apply flat_map_opt_In in H. destruct H as [i [Hi Hg]].
  unfold get_del in Hg. apply find_id_In in Hg. destruct Hg as [H1 H2]. subst i. auto.
Qed.
