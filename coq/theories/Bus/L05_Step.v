(* Bus/L05_Step.v -- the shape of [step] per operation, as far as the C05 invariant needs it. *)
From MB Require Import Base.
From MB.Bus Require Import State Ops Step Defs L05_Lists L05_Ops.
Local Open Scope string_scope.
Open Scope list_scope.
Open Scope Z_scope.

Lemma find_live_sub_spec st name s :
  find_live_sub st name = Some s -> In s (subs st) /\ s_deleted s = None.
Proof.
  unfold find_live_sub. intros H. apply find_some in H. destruct H as [H1 H2].
  split; [exact H1|]. apply andb_prop in H2. destruct H2 as [H2 _].
  unfold sub_live, is_none, is_some in H2. destruct (s_deleted s); [discriminate|reflexivity].
Qed.

Lemma find_live_sub_get st name s :
  ids_unique st -> find_live_sub st name = Some s -> get_sub st (s_id s) = Some s.
Proof.
  intros Hu H. apply find_live_sub_spec in H. destruct H as [H _].
  unfold get_sub. apply find_id_unique; [apply Hu|exact H].
Qed.

Lemma get_sub_in st i s : get_sub st i = Some s -> In s (subs st) /\ s_id s = i.
Proof. unfold get_sub. apply find_id_In. Qed.

Lemma eligible_sub st s now d : eligible st s now d = true -> d_sub d = s_id s.
Proof.
  unfold eligible. intros H.
  apply andb_prop in H. destruct H as [H _]. apply andb_prop in H. destruct H as [H _].
  apply andb_prop in H. destruct H as [H _]. apply andb_prop in H. destruct H as [H _].
  apply N.eqb_eq. exact H.
Qed.

Lemma selection_legal_eligible st s now max ret oth i :
  selection_legal st s now max ret oth = true -> In i (ret ++ oth) ->
  exists e, In e (dels st) /\ d_id e = i /\ eligible st s now e = true.
Proof.
  unfold selection_legal. intros H Hi.
  apply andb_prop in H. destruct H as [H _]. apply andb_prop in H. destruct H as [H _].
  apply andb_prop in H. destruct H as [H _]. apply andb_prop in H. destruct H as [_ H].
  apply Nat.eqb_eq in H.
  destruct (flat_map_opt_full (fun i => find_id d_id i (filter (eligible st s now) (dels st))) _ H i Hi)
    as [e He].
  apply find_id_In in He. destruct He as [He1 He2]. apply filter_In in He1.
  exists e. split; [apply He1|]. split; [exact He2|apply He1].
Qed.

Definition pull_st0 (st : state) (s : sub) (wnow : time) : state :=
  set_subs st (upd_where (fun x => N.eqb (s_id x) (s_id s)) (s_set_expires (wnow + s_ttl s)) (subs st)).
Definition pull_cands (st : state) (obs : list id) : list del :=
  flat_map (fun i => match get_del st i with Some d => [d] | None => [] end) obs.

Lemma pull_cases st now name max returned others wnow fz fr :
  legal st now (Pull name max returned others wnow fz fr) ->
  (post st now (Pull name max returned others wnow fz fr) = st /\
   pulled_of (answer st now (Pull name max returned others wnow fz fr)) = []) \/
  exists s st1 fr1 ps w,
    find_live_sub st name = Some s /\ selection_legal st s now max returned others = true /\
    apply_results (pull_st0 st s wnow) s (pull_cands st (returned ++ others)) true false 0
                  pull_max_bytes now wnow fz fr = (st1, fr1, ps, w, []) /\
    post st now (Pull name max returned others wnow fz fr) = st1 /\
    answer st now (Pull name max returned others wnow fz fr) = RPull ps.
Proof.
  unfold legal, post, answer, step, pull_st0, pull_cands.
  destruct (negb (valid_sub_name name)); [intros _; left; split; reflexivity|].
  destruct (max <? 1); [intros _; left; split; reflexivity|].
  destruct (find_live_sub st name) as [s|]; [|intros _; left; split; reflexivity].
  destruct (apply_results _ _ _ _ _ _ _ _ _ _ _) as [[[[st1 fr1] ps] w] n] eqn:E.
  cbn [done r_notes r_state r_resp]. intros H.
  apply app_eq_nil in H. destruct H as [H1 H2]. apply app_eq_nil in H2. destruct H2 as [H2 _].
  subst n. right. exists s, st1, fr1, ps, w.
  split; [reflexivity|]. split; [|split; [exact E|split; reflexivity]].
  destruct (selection_legal st s now max returned others); [reflexivity|discriminate].
Qed.

Lemma pull_cands_in st obs c :
  NoDup (map d_id (dels st)) -> In c (pull_cands st obs) -> In c (dels st) /\ In (d_id c) obs.
Proof.
  intros Hu H. unfold pull_cands in H. apply flat_map_opt_In in H. destruct H as [i [Hi Hg]].
  unfold get_del in Hg. apply find_id_In in Hg. destruct Hg as [H1 H2]. subst i. auto.
Qed.

(* ---- the row of sid keeps its retention and its topic ---- *)
Definition sagree (st' : state) (sid : id) (s : sub) : Prop :=
  forall s', get_sub st' sid = Some s' -> s_msg_ttl s' = s_msg_ttl s /\ s_topic s' = s_topic s.

Lemma sagree_same st st' sid s : subs st' = subs st -> get_sub st sid = Some s -> sagree st' sid s.
Proof.
  intros He Hs s' Hs'. unfold get_sub in *. rewrite He, Hs in Hs'. injection Hs' as <-. auto.
Qed.

Lemma sagree_map st st' sid s g :
  subs st' = map g (subs st) -> get_sub st sid = Some s ->
  (forall r, In r (subs st) -> s_id (g r) = s_id r) ->
  s_msg_ttl (g s) = s_msg_ttl s -> s_topic (g s) = s_topic s -> sagree st' sid s.
Proof.
  intros He Hs Hid H1 H2 s' Hs'. unfold get_sub in *. rewrite He in Hs'.
  rewrite (find_id_map s_id g sid (subs st) Hid), Hs in Hs'. cbn in Hs'.
  injection Hs' as <-. auto.
Qed.

Lemma sagree_upd st st' sid s p g :
  subs st' = upd_where p g (subs st) -> get_sub st sid = Some s ->
  (forall r, s_id (g r) = s_id r /\ s_msg_ttl (g r) = s_msg_ttl r /\ s_topic (g r) = s_topic r) ->
  sagree st' sid s.
Proof.
  intros He Hs Hg. unfold upd_where in He.
  eapply sagree_map; [exact He|exact Hs| | |].
  - intros r _. cbn beta. destruct (p r); [apply (Hg r)|reflexivity].
  - cbn beta. destruct (p s); [apply (Hg s)|reflexivity].
  - cbn beta. destruct (p s); [apply (Hg s)|reflexivity].
Qed.

Lemma sagree_ins st st' sid s snew :
  subs st' = ins s_id snew (subs st) -> get_sub st sid = Some s -> s_id snew <> sid ->
  sagree st' sid s.
Proof.
  intros He Hs Hn s' Hs'. unfold get_sub in *. rewrite He in Hs'.
  rewrite (find_id_ins_other s_id sid snew (subs st) Hn), Hs in Hs'. injection Hs' as <-. auto.
Qed.

Lemma sagree_del_ids st st' sid s chosen :
  NoDup (map s_id (subs st)) ->
  subs st' = del_ids s_id chosen (subs st) -> get_sub st sid = Some s -> sagree st' sid s.
Proof.
  intros Hu He Hs s' Hs'. unfold get_sub in *. rewrite He in Hs'. unfold del_ids in Hs'.
  apply (find_id_filter_some s_id _ sid (subs st) s' Hu) in Hs'.
  rewrite Hs in Hs'. injection Hs' as <-. auto.
Qed.

(* ---- operations that touch neither deliveries, messages nor subscriptions ---- *)
Definition same3 (st st' : state) : Prop :=
  dels st' = dels st /\ msgs st' = msgs st /\ subs st' = subs st.

Definition quiet_op (o : op) : bool :=
  match o with
  | CreateTopic _ _ _ _ | GetTopic _ | UpdateTopic _ _ _ | DeleteTopic _ _ | ListTopics _ _ _
  | ListTopicSubs _ _ _ | GetSub _ | ListSubs _ _ _ | SeekNoTarget _ | CreateSnap _ _ _ _ _
  | GetSnap _ | ListSnaps _ _ _ | DeleteSnap _ => true
  | _ => false
  end.

Ltac break_match :=
  match goal with
  | |- context[if ?c then _ else _] => destruct c
  | |- context[match ?x with _ => _ end] => destruct x
  end.

Lemma step_quiet_op st now o : quiet_op o = true -> same3 st (post st now o).
Proof.
  destruct o; cbn [quiet_op]; try discriminate; intros _; unfold post, step, same3.
  all: repeat break_match; cbn; auto.
Qed.

(* ---- operations that only touch the subscriptions table ---- *)
Lemma create_sub_shape st q fresh wnow :
  r_state (create_sub st q fresh wnow) = st \/
  exists snew, s_id snew = fresh /\
    r_state (create_sub st q fresh wnow) = set_subs st (ins s_id snew (subs st)) /\
    r_notes (create_sub st q fresh wnow) =
      (if has_id s_id fresh (subs st) then ["subscription-id-not-fresh"] else []).
Proof.
  unfold create_sub.
  destruct (negb (valid_sub_name (q_name q))); [left; reflexivity|].
  destruct (q_detached q); [left; reflexivity|].
  match goal with |- context[if ?c then fail st Unimplemented else _] => destruct c end; [left; reflexivity|].
  match goal with |- context[if ?c then fail st Unimplemented else _] => destruct c end; [left; reflexivity|].
  match goal with |- context[if ?c then fail st Unimplemented else _] => destruct c end; [left; reflexivity|].
  destruct (match q_dl q with Some (t, n) => _ | None => _ end) as [max_att dl_name].
  match goal with |- context[if ?c then fail st InvalidArgument else _] => destruct c end; [left; reflexivity|].
  destruct (is_some (find_live_sub st (q_name q))); [left; reflexivity|].
  destruct (find_live_topic st (q_topic q)) as [t|]; [|left; reflexivity].
  match goal with |- context[if ?c then fail st Unknown else _] => destruct c end; [left; reflexivity|].
  match goal with |- context[match ?c with Some dlt => _ | None => fail st NotFound end] => destruct c end;
    [|left; reflexivity].
  right. eexists. cbn [done r_state r_notes]. split; [|split; reflexivity]. reflexivity.
Qed.

Lemma upd_path_fields st q wnow s dl t p s' dl' t' :
  upd_path st q wnow (s, dl, t) p = inr (s', dl', t') ->
  s_id s' = s_id s /\ s_topic s' = s_topic s /\
  (p <> "message_retention_duration" -> s_msg_ttl s' = s_msg_ttl s).
Proof.
  unfold upd_path.
  destruct (String.eqb p "name"); [discriminate|].
  destruct (String.eqb p "topic"); [discriminate|].
  destruct (String.eqb p "labels"); [intros H; inversion H; subst; cbn; auto|].
  destruct (String.eqb p "expiration_policy"); [intros H; inversion H; subst; cbn; auto|].
  destruct (String.eqb p "message_retention_duration") eqn:Er.
  { apply String.eqb_eq in Er. intros H; inversion H; subst; cbn.
    split; [reflexivity|]. split; [reflexivity|]. intros Hn; contradiction. }
  destruct (String.eqb p "enable_message_ordering"); [intros H; inversion H; subst; cbn; auto|].
  destruct (String.eqb p "retry_policy").
  { destruct (match q_retry q with Some ab => ab | None => (None, None) end) as [a b].
    intros H; inversion H; subst; cbn; auto. }
  destruct (String.eqb p "push_config").
  { destruct (validate_push (q_push q)); [discriminate|]. intros H; inversion H; subst; cbn; auto. }
  destruct (String.eqb p "filter").
  { destruct (String.eqb (q_filter q) ""); [intros H; inversion H; subst; cbn; auto|].
    destruct (filter_parses (q_filter q)); [intros H; inversion H; subst; cbn; auto|discriminate]. }
  destruct (String.eqb p "dead_letter_policy"); [|discriminate].
  destruct (match q_dl q with Some x => x | None => (EmptyString, 0) end) as [tn n].
  destruct (String.eqb tn ""); [intros H; inversion H; subst; cbn; auto|].
  destruct (find_live_topic st tn); [intros H; inversion H; subst; cbn; auto|discriminate].
Qed.

Lemma upd_paths_fields st q wnow ps : forall s dl t s' dl' t',
  upd_paths st q wnow (s, dl, t) ps = inr (s', dl', t') ->
  s_id s' = s_id s /\ s_topic s' = s_topic s /\
  (~ In "message_retention_duration" ps -> s_msg_ttl s' = s_msg_ttl s).
Proof.
  induction ps as [|p r IH]; intros s dl t s' dl' t'; cbn [upd_paths].
  - intros H; inversion H; subst. auto.
  - destruct (upd_path st q wnow (s, dl, t) p) as [c|[[s1 dl1] t1]] eqn:E; [discriminate|].
    intros H. apply upd_path_fields in E. destruct E as [E1 [E2 E3]].
    destruct (IH _ _ _ _ _ _ H) as [F1 [F2 F3]].
    split; [congruence|]. split; [congruence|]. intros Hn.
    rewrite F3; [rewrite E3; [reflexivity|]|].
    + intros Hx; apply Hn; left; exact Hx.
    + intros Hx; apply Hn; right; exact Hx.
Qed.

Lemma update_sub_shape st q paths wnow :
  r_state (update_sub st q paths wnow) = st \/
  exists s0 dl0 s1 dl1 t1, find_live_sub st (q_name q) = Some s0 /\
    upd_paths st q wnow (s0, dl0, false) paths = inr (s1, dl1, t1) /\
    r_state (update_sub st q paths wnow) =
      set_subs st (upd_where (fun x => N.eqb (s_id x) (s_id s0)) (fun _ => s1) (subs st)).
Proof.
  unfold update_sub.
  destruct (negb (valid_sub_name (q_name q))); [left; reflexivity|].
  destruct (find_live_sub st (q_name q)) as [s0|]; [|left; reflexivity].
  destruct (upd_paths _ _ _ _ _) as [c|[[s1 dl1] t1]] eqn:E; [left; reflexivity|].
  destruct (negb t1); [left; reflexivity|].
  right. eexists s0, _, s1, dl1, t1. split; [reflexivity|]. split; [exact E|reflexivity].
Qed.

Definition sub_op (o : op) : bool :=
  match o with
  | CreateSub _ _ _ | UpdateSub _ _ _ | DeleteSub _ _ | ModifyPush _ _ | SetDelay _ _ => true
  | _ => false
  end.

Lemma step_sub_op st now o sid s :
  ids_unique st -> legal st now o -> get_sub st sid = Some s -> sub_op o = true ->
  match o with
  | UpdateSub q paths _ => sub_of_name st (q_name q) = Some sid -> ~ In "message_retention_duration" paths
  | _ => True
  end ->
  dels (post st now o) = dels st /\ msgs (post st now o) = msgs st /\ sagree (post st now o) sid s.
Proof.
  intros Hu Hl Hs Hop Hdisc.
  assert (Hsame : forall st', st' = st -> dels st' = dels st /\ msgs st' = msgs st /\ sagree st' sid s).
  { intros st' ->. split; [reflexivity|]. split; [reflexivity|]. apply (sagree_same st); auto. }
  assert (Hupd : forall p g,
             (forall r, s_id (g r) = s_id r /\ s_msg_ttl (g r) = s_msg_ttl r /\ s_topic (g r) = s_topic r) ->
             dels (set_subs st (upd_where p g (subs st))) = dels st /\
             msgs (set_subs st (upd_where p g (subs st))) = msgs st /\
             sagree (set_subs st (upd_where p g (subs st))) sid s).
  { intros p g Hg. split; [reflexivity|]. split; [reflexivity|].
    eapply (sagree_upd st); [reflexivity|exact Hs|exact Hg]. }
  destruct o; cbn [sub_op] in Hop; try discriminate; unfold legal, post, step in *.
  - (* CreateSub *)
    destruct (create_sub_shape st q fresh wnow) as [H|[snew [H1 [H2 H3]]]]; [apply Hsame; exact H|].
    rewrite H2. split; [reflexivity|]. split; [reflexivity|].
    eapply (sagree_ins st); [reflexivity|exact Hs|].
    rewrite H3 in Hl. destruct (has_id s_id fresh (subs st)) eqn:Ef; [discriminate|].
    apply get_sub_in in Hs. destruct Hs as [Hin Hid].
    pose proof (has_id_false s_id _ _ Ef s Hin). congruence.
  - (* UpdateSub *)
    destruct (update_sub_shape st q paths wnow) as [H|[s0 [dl0 [s1 [dl1 [t1 [Hf [Hp H]]]]]]]];
      [apply Hsame; exact H|].
    rewrite H. split; [reflexivity|]. split; [reflexivity|].
    apply upd_paths_fields in Hp. destruct Hp as [P1 [P2 P3]].
    unfold upd_where. eapply (sagree_map st); [reflexivity|exact Hs| | |].
    + intros r _. cbn beta. destruct (N.eqb (s_id r) (s_id s0)) eqn:E; [|reflexivity].
      apply N.eqb_eq in E. congruence.
    + cbn beta. destruct (N.eqb (s_id s) (s_id s0)) eqn:E; [|reflexivity].
      apply N.eqb_eq in E.
      pose proof (find_live_sub_get _ _ _ Hu Hf) as Hg0.
      pose proof (get_sub_in _ _ _ Hs) as [_ Hsid].
      rewrite <- E, Hsid, Hs in Hg0. injection Hg0 as <-.
      apply P3. apply Hdisc. unfold sub_of_name. rewrite Hf. cbn. congruence.
    + cbn beta. destruct (N.eqb (s_id s) (s_id s0)) eqn:E; [|reflexivity].
      apply N.eqb_eq in E.
      pose proof (find_live_sub_get _ _ _ Hu Hf) as Hg0.
      pose proof (get_sub_in _ _ _ Hs) as [_ Hsid].
      rewrite <- E, Hsid, Hs in Hg0. injection Hg0 as <-. exact P2.
  - (* DeleteSub *)
    destruct (negb (valid_sub_name name)); [apply Hsame; reflexivity|].
    destruct (find_live_sub st name); [|apply Hsame; reflexivity].
    cbn [done r_state]. apply Hupd. intros r. cbn. auto.
  - (* ModifyPush *)
    destruct (negb (valid_sub_name name)); [apply Hsame; reflexivity|].
    destruct (validate_push p); [apply Hsame; reflexivity|].
    destruct (find_live_sub st name); [|apply Hsame; reflexivity].
    cbn [done r_state]. apply Hupd. intros r. cbn. auto.
  - (* SetDelay *)
    destruct (find_live_sub st name); [|apply Hsame; reflexivity].
    cbn [done r_state]. apply Hupd. intros r. cbn. auto.
Qed.

(* ---- publish ---- *)
Definition pub_msg (t : topic) (p : pubmsg) : msg :=
  mkMsg (pm_id p) (t_id t) (pm_now p) (pm_attrs p)
        (if String.eqb (pm_key p) "" then None else Some (pm_key p)) (pm_payload p) (pm_size p).
Definition pub_st1 (st : state) (t : topic) (p : pubmsg) : state :=
  set_msgs st (ins m_id (pub_msg t p) (msgs st)).

Lemma publish_one_unfold st t p fr st' fr' wk :
  publish_one st t p fr = (st', fr', wk, []) ->
  has_id m_id (pm_id p) (msgs st) = false /\
  deliver_to_subs (pub_st1 st t p) (live_subs_of (pub_st1 st t p) (t_id t)) (pub_msg t p) (pm_now p) fr
    = (st', fr', wk, []).
Proof.
  unfold publish_one, pub_st1, pub_msg. cbv zeta.
  destruct (deliver_to_subs _ _ _ _ _) as [[[st2 fr2] w2] n2].
  destruct (has_id m_id (pm_id p) (msgs st)); intros H; inversion H; subst.
  split; reflexivity.
Qed.

(* ---- acks, delays, stream ---- *)
Lemma step_ack st now name ids wnow :
  post st now (Ack name ids wnow) = st \/
  exists l, ids = Some l /\ post st now (Ack name ids wnow) = fst (do_ack st l wnow).
Proof.
  unfold post, step. destruct (negb (valid_sub_name name)); [left; reflexivity|].
  destruct ids as [l|]; [|left; reflexivity]. right. exists l. split; reflexivity.
Qed.

Lemma step_modack st now name ids seconds wnow :
  post st now (ModAck name ids seconds wnow) = st \/
  exists l, post st now (ModAck name ids seconds wnow) = fst (do_delay st l (seconds * sec) wnow).
Proof.
  unfold post, step. destruct (negb (valid_sub_name name)); [left; reflexivity|].
  destruct ids as [l|]; [|left; reflexivity]. right. exists l.
  destruct (do_delay st l (seconds * sec) wnow) as [st' w]. reflexivity.
Qed.

Lemma step_stream st now acks nacks wnow fz fr :
  legal st now (StreamAckNack acks nacks wnow fz fr) ->
  exists st2 fr2 w2,
    do_nack (fst (do_ack st acks wnow)) nacks now wnow fz fr = (st2, fr2, w2, []) /\
    post st now (StreamAckNack acks nacks wnow fz fr) = st2.
Proof.
  unfold legal, post, step. unfold do_ack. cbn [fst].
  destruct (do_nack _ nacks now wnow fz fr) as [[[st2 fr2] w2] n2].
  cbn [done r_notes r_state]. intros H. apply app_eq_nil in H. destruct H as [-> _].
  exists st2, fr2, w2. split; reflexivity.
Qed.

(* ---- seek on another subscription ---- *)
Lemma andb4_first a b c d : a && b && c && d = true -> a = true.
Proof. destruct a; [reflexivity|cbn; discriminate]. Qed.

Lemma seek_time_other sid st s0 target now wnow :
  s_id s0 <> sid ->
  msgs (fst (seek_time st s0 target now wnow)) = msgs st /\
  subs (fst (seek_time st s0 target now wnow)) = subs st /\
  sdels sid (fst (seek_time st s0 target now wnow)) = sdels sid st.
Proof.
  intros Hn. unfold seek_time. cbv zeta. cbn [fst]. split; [reflexivity|]. split; [reflexivity|].
  unfold sdels, set_dels. cbn [dels].
  rewrite sdels_upd_other; [rewrite sdels_upd_other; [reflexivity| |]| |].
  - intros r. reflexivity.
  - intros r H. apply andb4_first in H. apply N.eqb_eq in H. congruence.
  - intros r. reflexivity.
  - intros r H. apply andb4_first in H. apply N.eqb_eq in H. congruence.
Qed.

Lemma seek_snap_other sid st s0 n now wnow :
  s_id s0 <> sid ->
  msgs (fst (seek_snap st s0 n now wnow)) = msgs st /\
  subs (fst (seek_snap st s0 n now wnow)) = subs st /\
  sdels sid (fst (seek_snap st s0 n now wnow)) = sdels sid st.
Proof.
  intros Hn. unfold seek_snap. cbv zeta. cbn [fst]. split; [reflexivity|]. split; [reflexivity|].
  unfold sdels, set_dels. cbn [dels].
  assert (Hp : forall (b c d : bool) r,
             N.eqb (d_sub r) (s_id s0) && b && c && d = true -> d_sub r <> sid).
  { intros b c d r H. apply andb4_first in H. apply N.eqb_eq in H. congruence. }
  rewrite sdels_upd_other; [| intros r; reflexivity | intros r H; eapply Hp; exact H].
  destruct (n_acked n) as [|a l].
  - rewrite sdels_upd_other; [reflexivity| intros r; reflexivity | intros r H; eapply Hp; exact H].
  - rewrite sdels_upd_other; [| intros r; reflexivity | intros r H; eapply Hp; exact H].
    rewrite sdels_upd_other; [reflexivity| intros r; reflexivity | intros r H; eapply Hp; exact H].
Qed.

Lemma step_seek_other st now o sid :
  is_seek_of st o sid = false ->
  match o with SeekTime _ _ _ | SeekSnap _ _ _ => True | _ => False end ->
  msgs (post st now o) = msgs st /\ subs (post st now o) = subs st /\
  sdels sid (post st now o) = sdels sid st.
Proof.
  intros Hseek Hop. destruct o; try contradiction; unfold post, step;
    unfold is_seek_of, sub_of_name in Hseek.
  - destruct (negb (valid_sub_name name)); [auto|].
    destruct (find_live_sub st name) as [s0|]; [|auto]. cbn [option_map] in Hseek.
    apply N.eqb_neq in Hseek.
    pose proof (seek_time_other sid st s0 target now wnow Hseek) as H.
    destruct (seek_time st s0 target now wnow) as [st' w]. exact H.
  - destruct (negb (valid_sub_name name)); [auto|].
    destruct (negb (valid_snap_name snapname)); [auto|].
    destruct (find_live_sub st name) as [s0|]; [|auto]. cbn [option_map] in Hseek.
    destruct (find_snap st snapname) as [n|]; [|auto].
    apply N.eqb_neq in Hseek.
    pose proof (seek_snap_other sid st s0 n now wnow Hseek) as H.
    destruct (seek_snap st s0 n now wnow) as [st' w]. exact H.
Qed.

(* ---- jobs ---- *)
Lemma run_job_failed st now j min_age max chosen wnow fr :
  r_state (run_job st now j min_age max chosen true wnow fr) = st.
Proof. unfold run_job. destruct j; reflexivity. Qed.

Lemma run_job_choice st now j min_age max chosen wnow fr :
  r_notes (run_job st now j min_age max chosen false wnow fr) = [] ->
  choice_legal (job_matches st j now min_age) chosen max = true.
Proof.
  unfold run_job. destruct (choice_legal (job_matches st j now min_age) chosen max); [reflexivity|].
  destruct j; cbn; try discriminate.
  - destruct (existsb (topic_has_messages st) chosen); cbn; discriminate.
  - destruct (sweep_each st chosen wnow fr) as [[[st1 fr1] w] n]. cbn. discriminate.
Qed.

Lemma choice_legal_in matching chosen max i :
  choice_legal matching chosen max = true -> In i chosen -> In i matching.
Proof.
  unfold choice_legal. intros H Hi. apply andb_prop in H. destruct H as [H _].
  apply andb_prop in H. destruct H as [_ H]. rewrite forallb_forall in H.
  apply mem_id_In. apply H. exact Hi.
Qed.

Lemma run_job_sweep st now min_age max chosen wnow fr :
  r_notes (run_job st now JDeadLetterSweep min_age max chosen false wnow fr) = [] ->
  exists st1 fr1 w, sweep_each st chosen wnow fr = (st1, fr1, w, []) /\
    r_state (run_job st now JDeadLetterSweep min_age max chosen false wnow fr) = st1.
Proof.
  unfold run_job.
  destruct (sweep_each st chosen wnow fr) as [[[st1 fr1] w] n] eqn:E.
  cbn [done r_notes r_state]. intros H.
  apply app_eq_nil in H. destruct H as [_ H]. apply app_eq_nil in H. destruct H as [-> _].
  exists st1, fr1, w. split; reflexivity.
Qed.

(* ---- only Pull answers with pulled messages ---- *)
Definition not_pull (r : resp) : Prop := match r with RPull _ => False | _ => True end.

Lemma create_sub_not_pull st q fresh wnow : not_pull (r_resp (create_sub st q fresh wnow)).
Proof.
  unfold create_sub.
  destruct (negb (valid_sub_name (q_name q))); [exact I|].
  destruct (q_detached q); [exact I|].
  match goal with |- context[if ?c then fail st Unimplemented else _] => destruct c end; [exact I|].
  match goal with |- context[if ?c then fail st Unimplemented else _] => destruct c end; [exact I|].
  match goal with |- context[if ?c then fail st Unimplemented else _] => destruct c end; [exact I|].
  destruct (match q_dl q with Some (t, n) => _ | None => _ end) as [max_att dl_name].
  match goal with |- context[if ?c then fail st InvalidArgument else _] => destruct c end; [exact I|].
  destruct (is_some (find_live_sub st (q_name q))); [exact I|].
  destruct (find_live_topic st (q_topic q)) as [t|]; [|exact I].
  match goal with |- context[if ?c then fail st Unknown else _] => destruct c end; [exact I|].
  match goal with |- context[match ?c with Some dlt => _ | None => fail st NotFound end] => destruct c end;
    exact I.
Qed.

Lemma update_sub_not_pull st q paths wnow : not_pull (r_resp (update_sub st q paths wnow)).
Proof.
  unfold update_sub.
  destruct (negb (valid_sub_name (q_name q))); [exact I|].
  destruct (find_live_sub st (q_name q)) as [s0|]; [|exact I].
  destruct (upd_paths _ _ _ _ _) as [c|[[s1 dl1] t1]]; [exact I|].
  destruct (negb t1); exact I.
Qed.

Lemma run_job_not_pull st now j min_age max chosen failed wnow fr :
  not_pull (r_resp (run_job st now j min_age max chosen failed wnow fr)).
Proof.
  unfold run_job. destruct failed; [destruct j; exact I|].
  destruct j; try exact I.
  - cbv zeta. destruct (existsb (topic_has_messages st) chosen); exact I.
  - cbv zeta. destruct (sweep_each st chosen wnow fr) as [[[st1 fr1] w] n]. exact I.
Qed.

Lemma not_pull_nil r : not_pull r -> pulled_of r = [].
Proof. destruct r; cbn; try reflexivity. intros []. Qed.

Lemma pulled_only_pull st now o p :
  In p (pulled_of (answer st now o)) ->
  exists name max ret oth w fz fr, o = Pull name max ret oth w fz fr.
Proof.
  intros H.
  assert (Hn : (exists name max ret oth w fz fr, o = Pull name max ret oth w fz fr) \/
               not_pull (answer st now o)).
  { destruct o; try (left; repeat eexists; fail); right; unfold answer, step.
    all: try apply create_sub_not_pull; try apply update_sub_not_pull; try apply run_job_not_pull.
    all: repeat break_match; exact I. }
  destruct Hn as [Hn|Hn]; [exact Hn|].
  apply not_pull_nil in Hn. rewrite Hn in H. destruct H.
Qed.

Lemma pulled_eligible st now name max returned others w fz fr p d :
  ids_unique st -> legal st now (Pull name max returned others w fz fr) ->
  In p (pulled_of (answer st now (Pull name max returned others w fz fr))) ->
  In d (dels st) -> d_id d = p_ack p ->
  exists s, find_live_sub st name = Some s /\ eligible st s now d = true.
Proof.
  intros Hu Hl Hp Hd Hid.
  destruct (pull_cases _ _ _ _ _ _ _ _ _ Hl) as [[_ Hnil]|[s' [st1 [fr1 [ps [wk [Hf' [Hsel [Har [_ Hans]]]]]]]]]].
  { rewrite Hnil in Hp. destruct Hp. }
  rewrite Hans in Hp. cbn [pulled_of] in Hp.
  destruct (apply_results_pulled _ _ _ _ _ _ _ _ _ _ _ _ _ _ _ _ Har p Hp) as [c [Hc Hpc]].
  assert (Hud : NoDup (map d_id (dels st))) by apply Hu.
  apply pull_cands_in in Hc; [|exact Hud]. destruct Hc as [Hc Hobs].
  assert (d = c) by (apply (NoDup_map_inj d_id (dels st)); auto; congruence). subst c.
  destruct (selection_legal_eligible _ _ _ _ _ _ _ Hsel Hobs) as [e [He1 [He2 He3]]].
  assert (e = d) by (apply (NoDup_map_inj d_id (dels st)); auto). subst e.
  exists s'. split; [exact Hf'|exact He3].
Qed.
