(* Bus/L06_DL.v -- exact description of what [dead_letter] does when no complaint is raised. *)
From Coq Require Import Permutation.
From MB Require Import Base.
From MB.Bus Require Import State Ops Step Defs L06_Lists L06_Rel.
Local Open Scope string_scope.
Open Scope list_scope.
Open Scope Z_scope.

(* the row created for message [m] on subscription [s] at time [now] *)
Definition new_row (m : msg) (now : time) (s : sub) (x : del) : Prop :=
  d_msg x = m_id m /\ d_sub x = s_id s /\ d_attempts x = 0 /\ d_completed x = None /\
  d_published x = now /\ d_attempt_at x = now + s_delay s /\ d_expires x = now + s_msg_ttl s.

Definition accepts (m : msg) (s : sub) : bool := filter_accepts (s_filter s) (m_attrs m).

Lemma deliver_to_sub_spec st s m now fr st' fr' w :
  deliver_to_sub st s m now fr = (st', fr', w, []) ->
  same_others st st' /\
  if accepts m s
  then exists x, dels st' = ins d_id x (dels st) /\ ~ In (d_id x) (map d_id (dels st)) /\
                 new_row m now s x
  else st' = st.
Proof.
  unfold deliver_to_sub, accepts.
  destruct (filter_accepts (s_filter s) (m_attrs m)); cbn [negb].
  2:{ intros H; inversion H; subst. split; [apply same_others_refl|reflexivity]. }
  destruct (take_fresh (m_id m) (s_id s) fr) as [[i|] fr1]; [|discriminate].
  destruct (has_id d_id i (dels st)) eqn:HF; [discriminate|].
  intros H; inversion H; subst; clear H.
  split; [repeat split|].
  eexists. split; [cbn [dels]; reflexivity|]. split.
  - cbn [d_id]. apply has_id_false. exact HF.
  - repeat split.
Qed.

Lemma deliver_to_subs_spec m now : forall ss st fr st' fr' w,
  deliver_to_subs st ss m now fr = (st', fr', w, []) ->
  same_others st st' /\
  exists nd, Permutation (dels st') (nd ++ dels st) /\
             Forall2 (new_row m now) (filter (accepts m) ss) nd /\
             (forall x, In x nd -> ~ In (d_id x) (map d_id (dels st))).
Proof.
  induction ss as [|s ss IH]; intros st fr st' fr' w; cbn [deliver_to_subs].
  - intros H; inversion H; subst. split; [apply same_others_refl|].
    exists []. cbn [filter app]. split; [apply Permutation_refl|split; [constructor|intros x []]].
  - destruct (deliver_to_sub st s m now fr) as [[[st1 fr1] w1] n1] eqn:E1.
    destruct (deliver_to_subs st1 ss m now fr1) as [[[st2 fr2] w2] n2] eqn:E2.
    intros H; inversion H; subst; clear H.
    match goal with H : _ ++ _ = [] |- _ => apply app_eq_nil in H; destruct H as [-> ->] end.
    apply deliver_to_sub_spec in E1. apply IH in E2.
    destruct E1 as [O1 S1], E2 as [O2 (nd&P2&F2&N2)].
    split; [eapply same_others_trans; eauto|].
    cbn [filter]. destruct (accepts m s).
    + destruct S1 as (x&Ex&Nx&Rx).
      exists (x :: nd). split; [|split].
      * eapply Permutation_trans; [exact P2|]. rewrite Ex.
        eapply Permutation_trans; [apply Permutation_app_head; apply perm_ins|].
        apply Permutation_sym. cbn [app]. apply Permutation_middle.
      * constructor; assumption.
      * intros y [<-|Hy]; [exact Nx|].
        intros Hi. apply (N2 y Hy). rewrite Ex.
        apply in_map_iff in Hi. destruct Hi as [z [Ez Hz]].
        apply in_map_iff. exists z. split; [exact Ez|]. apply in_ins. right; exact Hz.
    + subst st1. exists nd. auto.
Qed.

Lemma deliver_to_subs_none m now : forall ss st fr,
  (forall s, In s ss -> accepts m s = false) ->
  deliver_to_subs st ss m now fr = (st, fr, [], []).
Proof.
  induction ss as [|s ss IH]; intros st fr H; cbn [deliver_to_subs]; [reflexivity|].
  unfold deliver_to_sub at 1.
  pose proof (H s (or_introl eq_refl)) as Hs. unfold accepts in Hs. rewrite Hs. cbn [negb].
  rewrite IH; [reflexivity|]. intros s' Hs'. apply H. right; exact Hs'.
Qed.

Definition dl_recv (st : state) (dlt : id) (m : msg) : list sub :=
  match get_topic st dlt with
  | Some t => if topic_live t
              then filter (fun s => filter_accepts (s_filter s) (m_attrs m)) (live_subs_of st dlt)
              else []
  | None => []
  end.

Lemma dl_deliver_spec st d dlt now fr m st1 fr1 w1 :
  get_msg st (d_msg d) = Some m ->
  dl_deliver st d dlt now fr = (st1, fr1, w1, []) ->
  same_others st st1 /\
  (dl_recv st dlt m = [] -> st1 = st) /\
  exists nd, Permutation (dels st1) (nd ++ dels st) /\
             Forall2 (new_row m now) (dl_recv st dlt m) nd /\
             (forall x, In x nd -> ~ In (d_id x) (map d_id (dels st))).
Proof.
  intros Hm. unfold dl_deliver, dl_recv. rewrite Hm.
  assert (Triv : forall (w0 : list id) (n0 : notes), (st, fr, w0, n0) = (st1, fr1, w1, []) ->
     same_others st st1 /\ (@nil sub = [] -> st1 = st) /\
     exists nd, Permutation (dels st1) (nd ++ dels st) /\ Forall2 (new_row m now) [] nd /\
                (forall x, In x nd -> ~ In (d_id x) (map d_id (dels st)))).
  { intros w0 n0 H; inversion H; subst. split; [apply same_others_refl|split; [reflexivity|]].
    exists []. split; [apply Permutation_refl|split; [constructor|intros x []]]. }
  destruct (get_topic st dlt) as [t|]; [|apply Triv].
  destruct (topic_live t); [|apply Triv].
  destruct (live_subs_of st dlt) as [|s ss] eqn:L; [apply Triv|].
  intros H. split; [|split].
  - apply deliver_to_subs_spec in H. apply H.
  - intros Hnil. rewrite deliver_to_subs_none in H.
    + inversion H; reflexivity.
    + intros s' Hs'. apply (filter_nil_all _ _ Hnil s' Hs').
  - apply deliver_to_subs_spec in H. destruct H as [_ H]. exact H.
Qed.

Lemma Forall2_in_l {A B} (R : A -> B -> Prop) l l' a :
  Forall2 R l l' -> In a l -> exists b, In b l' /\ R a b.
Proof.
  induction 1 as [|x y l l' Hxy H IH]; intros Ha; [destruct Ha|].
  destruct Ha as [<-|Ha].
  - exists y. split; [left; reflexivity|exact Hxy].
  - destruct (IH Ha) as [b [Hb Hr]]. exists b. split; [right; exact Hb|exact Hr].
Qed.

Lemma Forall2_in_r {A B} (R : A -> B -> Prop) l l' b :
  Forall2 R l l' -> In b l' -> exists a, In a l /\ R a b.
Proof.
  induction 1 as [|x y l l' Hxy H IH]; intros Hb; [destruct Hb|].
  destruct Hb as [<-|Hb].
  - exists x. split; [left; reflexivity|exact Hxy].
  - destruct (IH Hb) as [a [Ha Hr]]. exists a. split; [right; exact Ha|exact Hr].
Qed.

Lemma new_rows_subs m now l nd :
  Forall2 (new_row m now) l nd -> map d_sub nd = map s_id l.
Proof.
  induction 1 as [|x y l l' Hxy H IH]; [reflexivity|].
  cbn [map]. rewrite IH. destruct Hxy as (_&->&_). reflexivity.
Qed.

(* the complete description *)
Definition dl_g (d : del) (now : time) : del -> del :=
  fun r => if N.eqb (d_id r) (d_id d) then d_set_completed now r else r.

Lemma dead_letter_spec st d dlt now fr m :
  get_msg st (d_msg d) = Some m ->
  snd (dead_letter st d dlt now fr) = [] ->
  let st' := fst (fst (fst (dead_letter st d dlt now fr))) in
  same_others st st' /\
  exists st1,
    dels st' = map (dl_g d now) (dels st1) /\
    (dl_recv st dlt m = [] -> st1 = st) /\
    exists nd, Permutation (dels st1) (nd ++ dels st) /\
               Forall2 (new_row m now) (dl_recv st dlt m) nd /\
               (forall x, In x nd -> ~ In (d_id x) (map d_id (dels st))).
Proof.
  intros Hm. rewrite dead_letter_eq.
  destruct (dl_deliver st d dlt now fr) as [[[st1 fr1] w1] n1] eqn:E.
  cbn [fst snd]. intros ->.
  apply (dl_deliver_spec st d dlt now fr m) in E; [|exact Hm].
  destruct E as (O&Hnil&nd&P&F&N).
  split; [eapply same_others_trans; [exact O|apply same_others_set_dels]|].
  exists st1. split; [reflexivity|]. split; [exact Hnil|].
  exists nd. auto.
Qed.

(* ---- rows are kept by the forwarding, and the retired one is completed ---- *)
Lemma deliver_to_sub_incl st s m now fr st' fr' w n :
  deliver_to_sub st s m now fr = (st', fr', w, n) -> incl (dels st) (dels st').
Proof.
  unfold deliver_to_sub.
  destruct (negb (filter_accepts (s_filter s) (m_attrs m))).
  { intros H; inversion H; subst. apply incl_refl. }
  destruct (take_fresh (m_id m) (s_id s) fr) as [[i|] fr1];
    intros H; inversion H; subst; clear H; [|apply incl_refl].
  cbn [dels]. intros x Hx. apply in_ins. right; exact Hx.
Qed.

Lemma deliver_to_subs_incl m now : forall ss st fr st' fr' w n,
  deliver_to_subs st ss m now fr = (st', fr', w, n) -> incl (dels st) (dels st').
Proof.
  induction ss as [|s ss IH]; intros st fr st' fr' w n; cbn [deliver_to_subs].
  - intros H; inversion H; subst. apply incl_refl.
  - destruct (deliver_to_sub st s m now fr) as [[[st1 fr1] w1] n1] eqn:E1.
    destruct (deliver_to_subs st1 ss m now fr1) as [[[st2 fr2] w2] n2] eqn:E2.
    intros H; inversion H; subst; clear H.
    apply deliver_to_sub_incl in E1. apply IH in E2. eapply incl_tran; eauto.
Qed.

Lemma dl_deliver_incl st d dlt now fr st' fr' w n :
  dl_deliver st d dlt now fr = (st', fr', w, n) -> incl (dels st) (dels st').
Proof.
  unfold dl_deliver.
  assert (Triv : forall (w0 : list id) (n0 : notes),
            (st, fr, w0, n0) = (st', fr', w, n) -> incl (dels st) (dels st')).
  { intros w0 n0 H; inversion H; subst. apply incl_refl. }
  destruct (get_topic st dlt) as [t|]; [|apply Triv].
  destruct (topic_live t); [|apply Triv].
  destruct (live_subs_of st dlt) as [|s ss]; [apply Triv|].
  destruct (get_msg st (d_msg d)) as [m|]; [|apply Triv].
  apply deliver_to_subs_incl.
Qed.

Lemma dead_letter_keeps st d dlt w fr st' fr' wk n :
  dead_letter st d dlt w fr = (st', fr', wk, n) ->
  forall x, In x (dels st) ->
    exists x', In x' (dels st') /\ d_id x' = d_id x /\
               (d_id x = d_id d -> d_completed x' = Some w) /\
               (d_completed x = Some w -> d_completed x' = Some w).
Proof.
  rewrite dead_letter_eq.
  destruct (dl_deliver st d dlt w fr) as [[[st1 fr1] w1] n1] eqn:E.
  intros H; inversion H; subst; clear H.
  apply dl_deliver_incl in E. intros x Hx.
  exists (dl_g d w x). split; [|split; [|split]].
  - cbn [set_dels dels]. apply in_upd_where. exists x. split; [apply E; exact Hx|reflexivity].
  - unfold dl_g. destruct (N.eqb (d_id x) (d_id d)); reflexivity.
  - intros He. unfold dl_g. apply N.eqb_eq in He. rewrite He. reflexivity.
  - intros Hc. unfold dl_g. destruct (N.eqb (d_id x) (d_id d)); [reflexivity|exact Hc].
Qed.

Lemma sweep_each_completes w : forall ds st fr st' fr' wk,
  sweep_each st ds w fr = (st', fr', wk, []) ->
  forall i, (In i ds \/ exists x, In x (dels st) /\ d_id x = i /\ d_completed x = Some w) ->
  exists x', In x' (dels st') /\ d_id x' = i /\ d_completed x' = Some w.
Proof.
  induction ds as [|j ds IH]; intros st fr st' fr' wk; cbn [sweep_each].
  - intros H; inversion H; subst. intros i [[]|Hx]. exact Hx.
  - destruct (get_del st j) as [d|] eqn:GD; [|discriminate].
    destruct (get_sub st (d_sub d)) as [s|]; [|discriminate].
    destruct (s_dl_topic s) as [dlt|]; [|discriminate].
    destruct (dead_letter st d dlt w fr) as [[[st1 fr1] w1] n1] eqn:E1.
    destruct (sweep_each st1 ds w fr1) as [[[st2 fr2] w2] n2] eqn:E2.
    intros H; inversion H; subst; clear H.
    match goal with H : _ ++ _ = [] |- _ => apply app_eq_nil in H; destruct H as [-> ->] end.
    apply find_id_some in GD. destruct GD as [Hd Hj].
    pose proof (dead_letter_keeps _ _ _ _ _ _ _ _ _ E1) as K.
    intros i Hi. apply (IH _ _ _ _ _ E2).
    destruct Hi as [[<-|Hi]|(x&Hx&Hxi&Hxc)].
    + right. destruct (K d Hd) as (x'&H1&H2&H3&_). exists x'. repeat split; auto. congruence.
    + left; exact Hi.
    + right. destruct (K x Hx) as (x'&H1&H2&_&H4). exists x'. repeat split; auto. congruence.
Qed.
