(* Bus/T_Inv.v -- invariants of every legal step, and the error / wake-up discipline
   (used by C01..C06, C09, C12..C16). *)
From MB Require Import Base.
From MB.Bus Require Import State Ops Step Defs.
From MB.Bus Require Import L_Tables L_Good L_Helpers L_Step.
Local Open Scope string_scope.
Open Scope list_scope.
Open Scope Z_scope.

(* ---- an operation answered with an error changes nothing and wakes nobody ---- *)
Theorem step_error_unchanged st now o c :
  answer st now o = RErr c -> post st now o = st.
Proof.
  unfold answer, post. intros H. apply step_error in H. apply H.
Qed.

Theorem step_error_no_wakes st now o c :
  answer st now o = RErr c -> wakes st now o = [].
Proof.
  unfold answer, wakes. intros H. apply step_error in H. apply H.
Qed.

(* ---- primary keys stay unique ---- *)
Theorem step_ids_unique st now o :
  ids_unique st -> legal st now o -> ids_unique (post st now o).
Proof.
  intros U L. apply (step_good st now o L). exact U.
Qed.

Theorem run_ids_unique h : forall st,
  ids_unique st -> all_legal st h -> ids_unique (run st h).
Proof.
  induction h as [|[now o] h IH]; intros st U L; cbn [run]; [exact U|].
  apply IH.
  - apply step_ids_unique; [exact U|]. apply L. cbn [trace]. left; reflexivity.
  - intros s now' o' Hi. apply L. cbn [trace]. right; exact Hi.
Qed.

(* ---- referential integrity (the foreign keys of ent/migrate/schema.go) ---- *)
Definition refs_ok (st : state) : Prop :=
  (forall s, In s (subs st) -> has_id t_id (s_topic s) (topics st) = true) /\
  (forall s t, In s (subs st) -> s_dl_topic s = Some t -> has_id t_id t (topics st) = true) /\
  (forall m, In m (msgs st) -> has_id t_id (m_topic m) (topics st) = true) /\
  (forall n, In n (snaps st) -> has_id t_id (n_topic n) (topics st) = true) /\
  (forall d, In d (dels st) -> has_id s_id (d_sub d) (subs st) = true) /\
  (forall d, In d (dels st) -> has_id m_id (d_msg d) (msgs st) = true) /\
  (forall d p, In d (dels st) -> d_not_before d = Some p -> has_id d_id p (dels st) = true).

Theorem step_refs_ok st now o :
  ids_unique st -> refs_ok st -> legal st now o -> refs_ok (post st now o).
Proof.
  intros U R L. apply (refs_ok'_iff (post st now o)).
  apply (step_good st now o L); [exact U|]. apply (refs_ok'_iff st). exact R.
Qed.

Theorem empty_state_ok : ids_unique empty_state /\ refs_ok empty_state.
Proof.
  split.
  - unfold ids_unique; cbn. repeat split; constructor.
  - unfold refs_ok; cbn. repeat split; intros; contradiction.
Qed.

(* every state reachable from the empty database by legal steps *)
Definition reachable (st : state) : Prop := exists h, all_legal empty_state h /\ st = run empty_state h.

Theorem reachable_ok st : reachable st -> ids_unique st /\ refs_ok st.
Proof.
  intros [h [L ->]].
  assert (G : forall h st0, ids_unique st0 /\ refs_ok st0 -> all_legal st0 h ->
                            ids_unique (run st0 h) /\ refs_ok (run st0 h)).
  { clear. induction h as [|[now o] h IH]; intros st0 [U R] L; cbn [run]; [split; assumption|].
    assert (L0 : legal st0 now o) by (apply L; cbn [trace]; left; reflexivity).
    apply IH.
    - split; [apply step_ids_unique|apply step_refs_ok]; assumption.
    - intros s now' o' Hi. apply L. cbn [trace]. right; exact Hi. }
  apply G; [apply empty_state_ok|exact L].
Qed.

(* ---- the ordering links are ranked: no cycle, and a link never leaves its subscription
   (L_Good.LBr; used by T_Live) ---- *)
Theorem step_links_ranked st now o :
  ids_unique st -> refs_ok st -> legal st now o -> LBr (dels st) -> LBr (dels (post st now o)).
Proof.
  intros U R L H. apply (step_good st now o L); [exact U| |exact H]. apply (refs_ok'_iff st). exact R.
Qed.

Theorem reachable_links_ranked st : reachable st -> LBr (dels st).
Proof.
  intros [h [L ->]].
  assert (G : forall h st0, ids_unique st0 /\ refs_ok st0 /\ LBr (dels st0) -> all_legal st0 h ->
                            LBr (dels (run st0 h))).
  { clear. induction h as [|[now o] h IH]; intros st0 (U & R & B) L; cbn [run]; [exact B|].
    assert (L0 : legal st0 now o) by (apply L; cbn [trace]; left; reflexivity).
    apply IH.
    - split; [apply step_ids_unique; assumption|]. split; [apply step_refs_ok; assumption|].
      apply step_links_ranked; assumption.
    - intros s now' o' Hi. apply L. cbn [trace]. right; exact Hi. }
  apply G; [|exact L]. destruct empty_state_ok as [U R]. split; [exact U|]. split; [exact R|].
  exists (fun _ => 0%nat). intros d pd Hd. destruct Hd.
Qed.

(* ---- tables are kept sorted by id (so that equality of dumps is equality of lists) ---- *)
Fixpoint sorted_ids (l : list id) : Prop :=
  match l with
  | a :: ((b :: _) as r) => (a < b)%N /\ sorted_ids r
  | _ => True
  end.
Definition tables_sorted (st : state) : Prop :=
  sorted_ids (map t_id (topics st)) /\ sorted_ids (map s_id (subs st)) /\ sorted_ids (map m_id (msgs st)) /\
  sorted_ids (map d_id (dels st)) /\ sorted_ids (map n_id (snaps st)).

Theorem step_tables_sorted st now o :
  tables_sorted st -> legal st now o -> tables_sorted (post st now o).
Proof.
  intros S L. apply (step_good st now o L). exact S.
Qed.

(* ---- messages are immutable: a step only inserts messages (Publish) or removes messages
   that no delivery refers to (PruneCompletedMessages) ---- *)
Theorem step_messages_immutable st now o m :
  ids_unique st -> legal st now o -> In m (msgs st) ->
  In m (msgs (post st now o)) \/
  (exists mn mx ch f w fr, o = Job JPruneCompletedMessages mn mx ch f w fr /\
                           forall d, In d (dels st) -> d_msg d <> m_id m).
Proof.
  intros _. apply step_msgs_immutable.
Qed.

Theorem step_messages_new st now o m :
  In m (msgs (post st now o)) -> In m (msgs st) \/ exists t ms fr, o = Publish t ms fr.
Proof.
  apply step_msgs_new.
Qed.

(* a boolean test for [all_legal], for concrete example histories *)
Definition all_legal_b (st : state) (h : hist) : bool :=
  forallb (fun x => match x with (s, n, o) => match r_notes (step s n o) with [] => true | _ => false end end)
          (trace st h).
Lemma all_legal_b_sound st h : all_legal_b st h = true -> all_legal st h.
Proof.
  unfold all_legal_b, all_legal. intros H s now o Hi. rewrite forallb_forall in H.
  specialize (H _ Hi). cbv beta iota in H. unfold legal. destruct (r_notes (step s now o)); [reflexivity|discriminate].
Qed.
Lemma reachable_by st h : all_legal_b empty_state h = true -> st = run empty_state h -> reachable st.
Proof. intros H E. exists h. split; [apply all_legal_b_sound; exact H|exact E]. Qed.

Print Assumptions step_ids_unique.
Print Assumptions step_refs_ok.
Print Assumptions step_error_unchanged.
Print Assumptions reachable_ok.
Print Assumptions run_ids_unique.
Print Assumptions step_error_no_wakes.
Print Assumptions step_tables_sorted.
Print Assumptions step_messages_immutable.
Print Assumptions step_messages_new.
Print Assumptions empty_state_ok.
