(* Bus/T_C11.v -- the byte budget of the streamer model (Streamer.select) is the byte
   rule of the Bus model's fetch (Ops.apply_results, the transcription of
   GetSubscriptionMessages.applyResults): for a subscription that does not dead-letter, the
   deliveries a fetch hands out are exactly those Streamer.select keeps, in the same order.
   This connects the C11 model to the model the engine ties to the code on every pull. *)
From MB Require Import Base Streamer.
From MB.Bus Require Import State Ops Step.
Open Scope list_scope.
Open Scope Z_scope.

Definition size_of (st : state) (d : del) : Z :=
  match get_msg st (d_msg d) with Some m => m_size m | None => 0 end.
Definition sized (st : state) (cands : list del) : pend := map (fun d => (d_id d, size_of st d)) cands.

Lemma get_msg_set_dels st ds i : get_msg (set_dels st ds) i = get_msg st i.
Proof. reflexivity. Qed.

Theorem apply_results_is_select s strict maxb now wnow fz : forall cands st first bytes fr,
  full_dl s = false ->
  (forall d, In d cands -> get_msg st (d_msg d) <> None) ->
  let '(_, _, ps, _, _) := apply_results st s cands first strict bytes maxb now wnow fz fr in
  map p_ack ps = ids (select (sized st cands) first strict bytes maxb).
Proof.
  induction cands as [|d cands IH]; intros st first bytes fr Hdl Hm; cbn [apply_results sized map select].
  - reflexivity.
  - assert (Hd : get_msg st (d_msg d) <> None) by (apply Hm; left; reflexivity).
    unfold size_of at 1. destruct (get_msg st (d_msg d)) as [m|] eqn:Em; [|congruence].
    cbn [snd].
    destruct ((strict || negb first) && (maxb <? bytes + m_size m)) eqn:Eskip.
    + specialize (IH st false bytes fr Hdl (fun x Hx => Hm x (or_intror Hx))). exact IH.
    + rewrite Hdl. cbn [andb].
      set (st1 := set_dels st _).
      assert (Hm1 : forall x, In x cands -> get_msg st1 (d_msg x) <> None).
      { intros x Hx. unfold st1. rewrite get_msg_set_dels. apply Hm. right; exact Hx. }
      specialize (IH st1 false (bytes + m_size m) fr Hdl Hm1).
      destruct (apply_results st1 s cands false strict (bytes + m_size m) maxb now wnow fz fr)
        as [[[[st2 fr2] ps] w2] n2].
      cbn [map p_ack ids fst]. f_equal.
      assert (Es : sized st1 cands = sized st cands).
      { unfold sized, size_of. apply map_ext. intros x. reflexivity. }
      change (map (fun d0 : del => (d_id d0, size_of st d0)) cands) with (sized st cands).
      replace (size_of st d) with (m_size m) by (unfold size_of; rewrite Em; reflexivity).
      rewrite <- Es. exact IH.
Qed.

(* the same for the budget the streamer computes: ORDER BY attempt_at LIMIT min(n, 100)
   is the harness-observed candidate list of the Bus model's pull; cut to that length,
   the two fetches agree *)
Corollary fetch_is_apply_results s strict maxb now wnow fz cands st fr n :
  full_dl s = false ->
  (forall d, In d cands -> get_msg st (d_msg d) <> None) ->
  let c := firstn (Z.to_nat (Z.min n 100)) cands in
  let '(_, _, ps, _, _) := apply_results st s c true strict 0 maxb now wnow fz fr in
  map p_ack ps = ids (fetch (sized st cands) n maxb strict).
Proof.
  intros Hdl Hm c.
  assert (Hc : forall d, In d c -> get_msg st (d_msg d) <> None).
  { intros d Hd. apply Hm. unfold c in Hd. revert Hd. generalize (Z.to_nat (Z.min n 100)) as k.
    clear. induction cands as [|x l IH]; intros k Hd; destruct k; cbn [firstn] in Hd; try contradiction.
    destruct Hd as [->|Hd]; [left; reflexivity|right; eapply IH; exact Hd]. }
  pose proof (apply_results_is_select s strict maxb now wnow fz c st true 0 fr Hdl Hc) as H.
  destruct (apply_results st s c true strict 0 maxb now wnow fz fr) as [[[[st2 fr2] ps] w2] n2].
  rewrite H. unfold fetch, sized, c. rewrite firstn_map. reflexivity.
Qed.
