(* Bus/L06_Rel.v -- how the helper transactions of Ops.v treat delivery rows:
   [rel F I K st st']: every delivery row of [st'] descends from a row of [st] with the same
   id and subscription (or has an id of [F], the fresh-id oracle), a completed row stays
   completed (unless its subscription is in [K], the seeked ones), and a row is newly
   completed only if its id is in [I]. *)
From MB Require Import Base.
From MB.Bus Require Import State Ops Step Defs L06_Lists.
Local Open Scope string_scope.
Open Scope list_scope.
Open Scope Z_scope.

Definition same_others (st st' : state) : Prop :=
  topics st' = topics st /\ subs st' = subs st /\ msgs st' = msgs st /\ snaps st' = snaps st.

Lemma same_others_refl st : same_others st st.
Proof. repeat split. Qed.
Lemma same_others_trans a b c : same_others a b -> same_others b c -> same_others a c.
Proof. intros (A&B&C&D) (E&F&G&H). repeat split; congruence. Qed.
Lemma same_others_set_dels st ds : same_others st (set_dels st ds).
Proof. repeat split. Qed.

Definition rel (F I K : id -> Prop) (st st' : state) : Prop :=
  forall d', In d' (dels st') ->
    ((exists d, In d (dels st) /\ d_id d = d_id d' /\ d_sub d = d_sub d' /\
                (d_completed d <> None -> d_completed d' <> None \/ K (d_sub d)))
     \/ F (d_id d'))
    /\ (d_completed d' <> None ->
        (exists d, In d (dels st) /\ d_id d = d_id d' /\ d_completed d <> None) \/ I (d_id d')).

Lemma rel_dels_eq F I K st st' : dels st' = dels st -> rel F I K st st'.
Proof.
  intros E d' Hd'. rewrite E in Hd'. split.
  - left. exists d'. repeat split; auto.
  - intros Hc. left. exists d'. auto.
Qed.

Lemma rel_refl F I K st : rel F I K st st.
Proof. apply rel_dels_eq. reflexivity. Qed.

Lemma rel_mono (F F' I I' K K' : id -> Prop) st st' :
  (forall i, F i -> F' i) -> (forall i, I i -> I' i) -> (forall i, K i -> K' i) ->
  rel F I K st st' -> rel F' I' K' st st'.
Proof.
  intros HF HI HK H d' Hd'. destruct (H d' Hd') as [A B]. split.
  - destruct A as [[d (H1&H2&H3&H4)]|A]; [left|right; auto].
    exists d. repeat split; auto. intros Hc. destruct (H4 Hc); auto.
  - intros Hc. destruct (B Hc) as [B'|B']; auto.
Qed.

Lemma rel_trans F I K st1 st2 st3 :
  rel F I K st1 st2 -> rel F I K st2 st3 -> rel F I K st1 st3.
Proof.
  intros H12 H23 d3 Hd3. destruct (H23 d3 Hd3) as [A3 B3]. split.
  - destruct A3 as [[d2 (H1&H2&H3&H4)]|A3]; [|right; exact A3].
    destruct (H12 d2 H1) as [A2 _].
    destruct A2 as [[d1 (G1&G2&G3&G4)]|A2]; [|right; rewrite <- H2; exact A2].
    left. exists d1. repeat split; try congruence.
    intros Hc. destruct (G4 Hc) as [Hc2|Hk]; [|right; exact Hk].
    destruct (H4 Hc2) as [Hc3|Hk]; [left; exact Hc3|right; rewrite G3; exact Hk].
  - intros Hc. destruct (B3 Hc) as [[d2 (H1&H2&H3)]|B]; [|right; exact B].
    destruct (H12 d2 H1) as [_ B2]. destruct (B2 H3) as [[d1 (G1&G2&G3)]|B].
    + left. exists d1. repeat split; try congruence.
    + right. rewrite <- H2. exact B.
Qed.

(* every row of [st'] is the image of a row of [st] under a field-preserving rewrite *)
Lemma rel_map_sub (F I K : id -> Prop) st st' (g : del -> del) :
  (forall d', In d' (dels st') -> exists d, In d (dels st) /\ d' = g d) ->
  (forall d, In d (dels st) ->
     d_id (g d) = d_id d /\ d_sub (g d) = d_sub d /\
     (d_completed d <> None -> d_completed (g d) <> None \/ K (d_sub d)) /\
     (d_completed d = None -> d_completed (g d) <> None -> I (d_id d))) ->
  rel F I K st st'.
Proof.
  intros Hsub Hg d' Hd'. destruct (Hsub d' Hd') as [d [Hd ->]].
  destruct (Hg d Hd) as (G1&G2&G3&G4). split.
  - left. exists d. repeat split; auto.
  - intros Hc. destruct (d_completed d) eqn:E.
    + left. exists d. repeat split; auto. congruence.
    + right. rewrite G1. apply G4; auto.
Qed.

Lemma rel_upd (F I K : id -> Prop) st (p : del -> bool) (f : del -> del) :
  (forall d, In d (dels st) -> p d = true ->
     d_id (f d) = d_id d /\ d_sub (f d) = d_sub d /\
     (d_completed d <> None -> d_completed (f d) <> None \/ K (d_sub d)) /\
     (d_completed d = None -> d_completed (f d) <> None -> I (d_id d))) ->
  rel F I K st (set_dels st (upd_where p f (dels st))).
Proof.
  intros Hf. apply (rel_map_sub F I K st _ (fun r => if p r then f r else r)).
  - cbn [set_dels dels]. intros d' Hd'. apply in_upd_where in Hd'. exact Hd'.
  - intros d Hd. destruct (p d) eqn:E; [apply Hf; auto|].
    repeat split; auto. intros Hn Hc. contradiction.
Qed.

Lemma rel_ins (F I K : id -> Prop) st st' x :
  dels st' = ins d_id x (dels st) -> F (d_id x) -> d_completed x = None -> rel F I K st st'.
Proof.
  intros E HF Hc d' Hd'. rewrite E in Hd'. apply in_ins in Hd'. destruct Hd' as [->|Hd'].
  - split; [right; exact HF|]. intros H; contradiction.
  - split.
    + left. exists d'. repeat split; auto.
    + intros H. left. exists d'. auto.
Qed.

(* ---- the fresh-id oracle ---- *)
Definition FR (fr : fresh_dels) : id -> Prop := fun i => In i (map (fun x => snd x) fr).

Lemma take_fresh_spec m s : forall fr o fr',
  take_fresh m s fr = (o, fr') ->
  (forall i, FR fr' i -> FR fr i) /\ (forall i, o = Some i -> FR fr i).
Proof.
  unfold FR.
  induction fr as [|[[m' s'] j] fr IH]; intros o fr'; cbn [take_fresh].
  - intros H; inversion H; subst. split; [auto|discriminate].
  - destruct (N.eqb m m' && N.eqb s s').
    + intros H; inversion H; subst. cbn [map In snd]. split; [auto|].
      intros i Hi; inversion Hi; subst. left; reflexivity.
    + destruct (take_fresh m s fr) as [o1 r1] eqn:E.
      intros H; inversion H; subst. destruct (IH _ _ eq_refl) as [A B].
      cbn [map In snd]. split.
      * intros i [Hi|Hi]; [left; exact Hi|right; apply A; exact Hi].
      * intros i Hi. right. apply B; exact Hi.
Qed.

(* ---- deliver_to_sub / deliver_to_subs ---- *)
Lemma deliver_to_sub_rel I K st s m now fr st' fr' w n :
  deliver_to_sub st s m now fr = (st', fr', w, n) ->
  rel (FR fr) I K st st' /\ (forall i, FR fr' i -> FR fr i) /\ same_others st st'.
Proof.
  unfold deliver_to_sub.
  destruct (negb (filter_accepts (s_filter s) (m_attrs m))).
  { intros H; inversion H; subst. split; [apply rel_refl|split; [auto|apply same_others_refl]]. }
  destruct (take_fresh (m_id m) (s_id s) fr) as [[i|] fr1] eqn:TF;
    apply take_fresh_spec in TF; destruct TF as [TA TB];
    intros H; inversion H; subst; clear H.
  - split; [|split; [exact TA|repeat split]].
    eapply rel_ins; [cbn [dels]; reflexivity| |reflexivity].
    cbn [d_id]. apply TB. reflexivity.
  - split; [apply rel_refl|split; [exact TA|apply same_others_refl]].
Qed.

Lemma deliver_to_subs_rel I K m now : forall ss st fr st' fr' w n,
  deliver_to_subs st ss m now fr = (st', fr', w, n) ->
  rel (FR fr) I K st st' /\ (forall i, FR fr' i -> FR fr i) /\ same_others st st'.
Proof.
  induction ss as [|s ss IH]; intros st fr st' fr' w n; cbn [deliver_to_subs].
  - intros H; inversion H; subst. split; [apply rel_refl|split; [auto|apply same_others_refl]].
  - destruct (deliver_to_sub st s m now fr) as [[[st1 fr1] w1] n1] eqn:E1.
    destruct (deliver_to_subs st1 ss m now fr1) as [[[st2 fr2] w2] n2] eqn:E2.
    intros H; inversion H; subst; clear H.
    apply (deliver_to_sub_rel I K) in E1. apply IH in E2.
    destruct E1 as (R1&F1&O1), E2 as (R2&F2&O2).
    split; [|split; [auto|eapply same_others_trans; eauto]].
    eapply rel_trans; [exact R1|]. eapply rel_mono; [exact F1| | |exact R2]; auto.
Qed.

(* ---- dead_letter ---- *)
Definition dl_deliver (st : state) (d : del) (dlt : id) (now : time) (fr : fresh_dels)
  : state * fresh_dels * list id * notes :=
  match get_topic st dlt with
  | Some t =>
      if topic_live t then
        match live_subs_of st dlt, get_msg st (d_msg d) with
        | [], _ => (st, fr, [], [])
        | ss, Some m => deliver_to_subs st ss m now fr
        | _, None => (st, fr, [], ["dead-letter-message-missing"%string])
        end
      else (st, fr, [], [])
  | None => (st, fr, [], [])
  end.

Lemma dead_letter_eq st d dlt now fr :
  dead_letter st d dlt now fr =
  let '(st1, fr1, w1, n1) := dl_deliver st d dlt now fr in
  (set_dels st1 (upd_where (fun x => N.eqb (d_id x) (d_id d)) (d_set_completed now) (dels st1)),
   fr1, w1 ++ [d_sub d], n1).
Proof. reflexivity. Qed.

Lemma dl_deliver_rel I K st d dlt now fr st' fr' w n :
  dl_deliver st d dlt now fr = (st', fr', w, n) ->
  rel (FR fr) I K st st' /\ (forall i, FR fr' i -> FR fr i) /\ same_others st st'.
Proof.
  unfold dl_deliver.
  assert (Triv : forall w0 n0, (st, fr, w0, n0) = (st', fr', w, n) ->
     rel (FR fr) I K st st' /\ (forall i, FR fr' i -> FR fr i) /\ same_others st st').
  { intros w0 n0 H; inversion H; subst.
    split; [apply rel_refl|split; [auto|apply same_others_refl]]. }
  destruct (get_topic st dlt) as [t|]; [|apply Triv].
  destruct (topic_live t); [|apply Triv].
  destruct (live_subs_of st dlt) as [|s ss]; [apply Triv|].
  destruct (get_msg st (d_msg d)) as [m|]; [|apply Triv].
  apply deliver_to_subs_rel.
Qed.

Lemma dead_letter_rel K st d dlt now fr st' fr' w n :
  dead_letter st d dlt now fr = (st', fr', w, n) ->
  rel (FR fr) (fun i => i = d_id d) K st st' /\ (forall i, FR fr' i -> FR fr i) /\
  same_others st st'.
Proof.
  rewrite dead_letter_eq.
  destruct (dl_deliver st d dlt now fr) as [[[st1 fr1] w1] n1] eqn:E.
  intros H; inversion H; subst; clear H.
  apply (dl_deliver_rel (fun i => i = d_id d) K) in E. destruct E as (R1&F1&O1).
  split; [|split; [exact F1|eapply same_others_trans; [exact O1|apply same_others_set_dels]]].
  eapply rel_trans; [exact R1|].
  apply rel_upd. intros x Hx Hp. apply N.eqb_eq in Hp.
  repeat split; auto. intros _. left. cbn. discriminate.
Qed.

Definition dl_opt (st : state) (d : del) (o : option id) (now : time) (fr : fresh_dels)
  : state * fresh_dels * list id * notes :=
  match o with
  | Some dlt => dead_letter st d dlt now fr
  | None => (st, fr, [], [])
  end.

Lemma dl_opt_rel K st d o now fr st' fr' w n :
  dl_opt st d o now fr = (st', fr', w, n) ->
  rel (FR fr) (fun i => i = d_id d) K st st' /\ (forall i, FR fr' i -> FR fr i) /\
  same_others st st'.
Proof.
  destruct o as [dlt|]; cbn [dl_opt]; [apply dead_letter_rel|].
  intros H; inversion H; subst. split; [apply rel_refl|split; [auto|apply same_others_refl]].
Qed.

(* ---- publish ---- *)
Lemma publish_one_rel I K st t p fr st' fr' w n :
  publish_one st t p fr = (st', fr', w, n) ->
  rel (FR fr) I K st st' /\ (forall i, FR fr' i -> FR fr i).
Proof.
  unfold publish_one.
  match goal with |- context [deliver_to_subs ?a ?b ?c ?d ?e] =>
    destruct (deliver_to_subs a b c d e) as [[[st2 fr2] w2] n2] eqn:E end.
  intros H; inversion H; subst; clear H.
  apply (deliver_to_subs_rel I K) in E. destruct E as (R&F&_).
  split; [|exact F].
  eapply rel_trans; [|exact R]. apply rel_dels_eq. reflexivity.
Qed.

Lemma publish_all_rel I K t : forall ps st fr st' fr' w n,
  publish_all st t ps fr = Some (st', fr', w, n) ->
  rel (FR fr) I K st st' /\ (forall i, FR fr' i -> FR fr i).
Proof.
  induction ps as [|p ps IH]; intros st fr st' fr' w n; cbn [publish_all].
  - intros H; inversion H; subst. split; [apply rel_refl|auto].
  - destruct (negb (pm_valid p)); [discriminate|].
    destruct (publish_one st t p fr) as [[[st1 fr1] w1] n1] eqn:E1.
    destruct (publish_all st1 t ps fr1) as [[[[st2 fr2] w2] n2]|] eqn:E2; [|discriminate].
    intros H; inversion H; subst; clear H.
    apply (publish_one_rel I K) in E1. apply IH in E2.
    destruct E1 as [R1 F1], E2 as [R2 F2]. split; [|auto].
    eapply rel_trans; [exact R1|]. eapply rel_mono; [exact F1| | |exact R2]; auto.
Qed.

(* ---- ack / delay ---- *)
Lemma do_ack_rel F K st ids wnow :
  rel F (fun i => mem_id i ids = true) K st (fst (do_ack st ids wnow)).
Proof.
  unfold do_ack. cbn [fst]. apply rel_upd. intros d Hd Hp.
  unfold ack_pred in Hp. apply andb_true_iff in Hp. destruct Hp as [Hm _].
  repeat split; auto. intros _. left. cbn. discriminate.
Qed.

Lemma do_delay_rel F I K st ids delay wnow :
  rel F I K st (fst (do_delay st ids delay wnow)).
Proof.
  unfold do_delay. destruct (delay <=? 0); cbn [fst]; apply rel_upd; intros d Hd Hp;
    (repeat split; auto; cbn; intros A B; contradiction).
Qed.

(* ---- nack ---- *)
Definition due_sub (s : sub) (d : del) : bool := full_dl s && (max_attempts_of s <=? d_attempts d).

Lemma nack_each_cons st d r now wnow fz fr :
  nack_each st (d :: r) now wnow fz fr =
  match get_sub st (d_sub d) with
  | None => (st, fr, [], ["nack-subscription-missing"%string])
  | Some s =>
      let '(st1, fr1, w1, n1) :=
        if due_sub s d then dl_opt st d (s_dl_topic s) wnow fr
        else
          let nom := nominal_delay (s_minb s) (s_maxb s) (d_attempts d) in
          let f := fuzz_of (d_id d) fz in
          (set_dels st (upd_where (fun x => N.eqb (d_id x) (d_id d))
                                  (d_set_attempt_at (wnow + nom + f)) (dels st)),
           fr, [], if fuzz_legal nom f then [] else ["illegal-fuzz"%string]) in
      let '(st2, fr2, w2, n2) := nack_each st1 r now wnow fz fr1 in
      (st2, fr2, w1 ++ w2, n1 ++ n2)
  end.
Proof. reflexivity. Qed.

Definition nack_why (ss : list sub) (ds : list del) : id -> Prop :=
  fun i => exists c s, In c ds /\ d_id c = i /\ find_id s_id (d_sub c) ss = Some s /\
                       due_sub s c = true.

Lemma nack_each_rel K now wnow fz : forall ds st fr st' fr' w n,
  nack_each st ds now wnow fz fr = (st', fr', w, n) ->
  rel (FR fr) (nack_why (subs st) ds) K st st' /\ (forall i, FR fr' i -> FR fr i) /\
  same_others st st'.
Proof.
  induction ds as [|d ds IH]; intros st fr st' fr' w n.
  - cbn [nack_each]. intros H; inversion H; subst.
    split; [apply rel_refl|split; [auto|apply same_others_refl]].
  - rewrite nack_each_cons.
    destruct (get_sub st (d_sub d)) as [s|] eqn:GS.
    2:{ intros H; inversion H; subst.
        split; [apply rel_refl|split; [auto|apply same_others_refl]]. }
    match goal with |- context [if due_sub s d then ?a else ?b] =>
      destruct (if due_sub s d then a else b) as [[[st1 fr1] w1] n1] eqn:E1 end.
    destruct (nack_each st1 ds now wnow fz fr1) as [[[st2 fr2] w2] n2] eqn:E2.
    intros H; inversion H; subst; clear H.
    apply IH in E2. destruct E2 as (R2&F2&O2).
    assert (H1 : rel (FR fr) (nack_why (subs st) (d :: ds)) K st st1 /\
                 (forall i, FR fr1 i -> FR fr i) /\ same_others st st1).
    { destruct (due_sub s d) eqn:DS.
      - apply (dl_opt_rel K) in E1. destruct E1 as (R1&F1&O1).
        split; [|split; auto].
        eapply rel_mono; [| | |exact R1]; auto.
        intros i ->. exists d, s. repeat split; auto. left; reflexivity.
      - cbv zeta in E1. inversion E1; subst; clear E1.
        split; [|split; [auto|apply same_others_set_dels]].
        apply rel_upd. intros x Hx Hp. repeat split; auto. cbn. intros A B; contradiction. }
    destruct H1 as (R1&F1&O1).
    split; [|split; [auto|eapply same_others_trans; eauto]].
    eapply rel_trans; [exact R1|].
    eapply rel_mono; [exact F1| | |exact R2]; auto.
    intros i (c&s0&Hc&Hi&Hs&Hdue). exists c, s0. repeat split; auto.
    + right; exact Hc.
    + destruct O1 as (_&Os&_). rewrite <- Os. exact Hs.
Qed.

(* ---- pull ---- *)
Lemma apply_results_cons st s d r first strict bytes maxb now wnow fz fr :
  apply_results st s (d :: r) first strict bytes maxb now wnow fz fr =
  match get_msg st (d_msg d) with
  | None => (st, fr, [], [], ["pull-message-missing"%string])
  | Some m =>
      if (strict || negb first) && (maxb <? bytes + m_size m) then
        apply_results st s r false strict bytes maxb now wnow fz fr
      else if due_sub s d then
        let '(st1, fr1, w1, n1) := dl_opt st d (s_dl_topic s) wnow fr in
        let '(st2, fr2, ps, w2, n2) :=
          apply_results st1 s r false strict bytes maxb now wnow fz fr1 in
        (st2, fr2, ps, w1 ++ w2, n1 ++ n2)
      else
        let nom := nominal_delay (s_minb s) (s_maxb s) (d_attempts d + 1) in
        let f := fuzz_of (d_id d) fz in
        let st1 := set_dels st (upd_where (fun x => N.eqb (d_id x) (d_id d))
                                          (d_lease wnow (wnow + nom + f)) (dels st)) in
        let p := mkPulled (d_id d) (m_id m) (d_attempts d + 1) (m_payload m) (m_attrs m)
                          (match m_key m with Some k => k | None => EmptyString end)
                          (m_published m) in
        let '(st2, fr2, ps, w2, n2) :=
          apply_results st1 s r false strict (bytes + m_size m) maxb now wnow fz fr in
        (st2, fr2, p :: ps, w2,
         (if fuzz_legal nom f then [] else ["illegal-fuzz"%string]) ++ n2)
  end.
Proof. reflexivity. Qed.

Definition pull_why (s : sub) (cands : list del) : id -> Prop :=
  fun i => exists c, In c cands /\ d_id c = i /\ due_sub s c = true.

Lemma apply_results_rel K s strict maxb now wnow fz :
  forall cands st first bytes fr st' fr' ps w n,
  apply_results st s cands first strict bytes maxb now wnow fz fr = (st', fr', ps, w, n) ->
  rel (FR fr) (pull_why s cands) K st st' /\ (forall i, FR fr' i -> FR fr i) /\
  same_others st st' /\
  (forall p, In p ps -> exists c, In c cands /\ due_sub s c = false /\
                                  p_attempt p = d_attempts c + 1 /\ p_ack p = d_id c).
Proof.
  induction cands as [|d cands IH]; intros st first bytes fr st' fr' ps w n.
  - cbn [apply_results]. intros H; inversion H; subst.
    split; [apply rel_refl|split; [auto|split; [apply same_others_refl|intros p []]]].
  - rewrite apply_results_cons.
    destruct (get_msg st (d_msg d)) as [m|].
    2:{ intros H; inversion H; subst.
        split; [apply rel_refl|split; [auto|split; [apply same_others_refl|intros p []]]]. }
    destruct ((strict || negb first) && (maxb <? bytes + m_size m)).
    { intros H. apply IH in H. destruct H as (R&F&O&P).
      split; [|split; [auto|split; [auto|]]].
      - eapply rel_mono; [| | |exact R]; auto.
        intros i (c&Hc&Hi&Hd). exists c. repeat split; auto. right; exact Hc.
      - intros p Hp. destruct (P p Hp) as (c&Hc&Hr). exists c. split; [right; exact Hc|exact Hr]. }
    destruct (due_sub s d) eqn:DS.
    + destruct (dl_opt st d (s_dl_topic s) wnow fr) as [[[st1 fr1] w1] n1] eqn:E1.
      destruct (apply_results st1 s cands false strict bytes maxb now wnow fz fr1)
        as [[[[st2 fr2] ps2] w2] n2] eqn:E2.
      intros H; inversion H; subst; clear H.
      apply IH in E2. destruct E2 as (R2&F2&O2&P2).
      apply (dl_opt_rel K) in E1. destruct E1 as (R1&F1&O1).
      split; [|split; [auto|split; [eapply same_others_trans; eauto|]]].
      * eapply rel_trans.
        -- eapply rel_mono; [| | |exact R1]; auto.
           intros i ->. exists d. repeat split; auto. left; reflexivity.
        -- eapply rel_mono; [exact F1| | |exact R2]; auto.
           intros i (c&Hc&Hi&Hd). exists c. repeat split; auto. right; exact Hc.
      * intros p Hp. destruct (P2 p Hp) as (c&Hc&Hr). exists c. split; [right; exact Hc|exact Hr].
    + cbv zeta.
      match goal with |- context [apply_results ?a s cands false strict ?b maxb now wnow fz fr] =>
        destruct (apply_results a s cands false strict b maxb now wnow fz fr)
          as [[[[st2 fr2] ps2] w2] n2] eqn:E2 end.
      intros H; inversion H; subst; clear H.
      apply IH in E2. destruct E2 as (R2&F2&O2&P2).
      split; [|split; [auto|split; [eapply same_others_trans; [apply same_others_set_dels|exact O2]|]]].
      * match type of R2 with rel _ _ _ ?mid _ => apply (rel_trans _ _ _ st mid st') end.
        -- apply rel_upd. intros x Hx Hp. repeat split; auto. cbn. intros A B; contradiction.
        -- eapply rel_mono; [| | |exact R2]; auto.
           intros i (c&Hc&Hi&Hd). exists c. repeat split; auto. right; exact Hc.
      * intros p [<-|Hp].
        -- exists d. cbn [p_attempt p_ack]. repeat split; auto. left; reflexivity.
        -- destruct (P2 p Hp) as (c&Hc&Hr). exists c. split; [right; exact Hc|exact Hr].
Qed.

(* ---- dead-letter sweep ---- *)
Lemma sweep_each_rel K wnow : forall ds st fr st' fr' w n,
  sweep_each st ds wnow fr = (st', fr', w, n) ->
  rel (FR fr) (fun i => In i ds) K st st' /\ (forall i, FR fr' i -> FR fr i) /\
  same_others st st'.
Proof.
  induction ds as [|i ds IH]; intros st fr st' fr' w n; cbn [sweep_each].
  - intros H; inversion H; subst. split; [apply rel_refl|split; [auto|apply same_others_refl]].
  - destruct (get_del st i) as [d|] eqn:GD.
    2:{ intros H; inversion H; subst. split; [apply rel_refl|split; [auto|apply same_others_refl]]. }
    destruct (get_sub st (d_sub d)) as [s|].
    2:{ intros H; inversion H; subst. split; [apply rel_refl|split; [auto|apply same_others_refl]]. }
    destruct (s_dl_topic s) as [dlt|].
    2:{ intros H; inversion H; subst. split; [apply rel_refl|split; [auto|apply same_others_refl]]. }
    destruct (dead_letter st d dlt wnow fr) as [[[st1 fr1] w1] n1] eqn:E1.
    destruct (sweep_each st1 ds wnow fr1) as [[[st2 fr2] w2] n2] eqn:E2.
    intros H; inversion H; subst; clear H.
    apply IH in E2. destruct E2 as (R2&F2&O2).
    apply (dead_letter_rel K) in E1. destruct E1 as (R1&F1&O1).
    apply find_id_some in GD. destruct GD as [_ GD].
    split; [|split; [auto|eapply same_others_trans; eauto]].
    eapply rel_trans.
    + eapply rel_mono; [| | |exact R1]; auto. intros j ->. left. symmetry; exact GD.
    + eapply rel_mono; [exact F1| | |exact R2]; auto. intros j Hj. right; exact Hj.
Qed.

(* ---- pruning jobs on deliveries ---- *)
Lemma prune_dels_rel F I K st chosen :
  rel F I K st (set_dels st (map (d_null_link chosen) (del_ids d_id chosen (dels st)))).
Proof.
  apply (rel_map_sub F I K st _ (d_null_link chosen)).
  - cbn [set_dels dels]. intros d' Hd'. apply in_map_iff in Hd'. destruct Hd' as [d [E Hd]].
    exists d. split; [|symmetry; exact E]. unfold del_ids in Hd. apply filter_In in Hd. apply Hd.
  - intros d Hd. unfold d_null_link. destruct (d_not_before d) as [p|].
    + destruct (mem_id p chosen); cbn; repeat split; auto; intros A B; contradiction.
    + repeat split; auto. intros A B; contradiction.
Qed.

(* ---- seeks ---- *)
Lemma rel_upd_after (F I K : id -> Prop) st ds (p : del -> bool) (f : del -> del) :
  rel F I K st (set_dels st ds) ->
  (forall d, In d ds -> p d = true ->
     d_id (f d) = d_id d /\ d_sub (f d) = d_sub d /\
     (d_completed d <> None -> d_completed (f d) <> None \/ K (d_sub d)) /\
     (d_completed d = None -> d_completed (f d) <> None -> I (d_id d))) ->
  rel F I K st (set_dels st (upd_where p f ds)).
Proof.
  intros H Hf. eapply rel_trans; [exact H|].
  change (rel F I K (set_dels st ds)
              (set_dels (set_dels st ds) (upd_where p f (dels (set_dels st ds))))).
  apply rel_upd. exact Hf.
Qed.

Definition seek_I (st : state) (s : sub) : id -> Prop :=
  fun i => exists x, In x (dels st) /\ d_id x = i /\ d_sub x = s_id s.
Definition seek_K (s : sub) : id -> Prop := fun j => j = s_id s.

Lemma seek_time_rel F st s target now wnow :
  rel F (seek_I st s) (seek_K s) st (fst (seek_time st s target now wnow)).
Proof.
  unfold seek_time. cbn [fst].
  apply rel_upd_after.
  - apply rel_upd. intros d Hd Hp.
    repeat (apply andb_true_iff in Hp; destruct Hp as [Hp ?]). apply N.eqb_eq in Hp.
    split; [reflexivity|split; [reflexivity|split]].
    + intros _. left. cbn. discriminate.
    + intros _ _. exists d. repeat split; auto.
  - intros d Hd Hp.
    repeat (apply andb_true_iff in Hp; destruct Hp as [Hp ?]). apply N.eqb_eq in Hp.
    split; [reflexivity|split; [reflexivity|split]].
    + intros _. right. exact Hp.
    + cbn. intros A B; contradiction.
Qed.

Lemma seek_snap_rel F st s n now wnow :
  rel F (seek_I st s) (seek_K s) st (fst (seek_snap st s n now wnow)).
Proof.
  unfold seek_snap. cbn [fst].
  assert (R1 : rel F (seek_I st s) (seek_K s) st (set_dels st (upd_where
            (fun d => N.eqb (d_sub d) (s_id s) && (now <=? d_expires d) &&
                      (d_published d <? n_before n) && is_none (d_completed d))
            (d_set_completed wnow) (dels st)))).
  { apply rel_upd. intros d Hd Hp.
    repeat (apply andb_true_iff in Hp; destruct Hp as [Hp ?]). apply N.eqb_eq in Hp.
    split; [reflexivity|split; [reflexivity|split]].
    + intros _. left. cbn. discriminate.
    + intros _ _. exists d. repeat split; auto. }
  apply rel_upd_after.
  - destruct (n_acked n) as [|a0 acked] eqn:EA; [exact R1|].
    apply rel_upd_after; [exact R1|].
    intros d Hd Hp.
    repeat (apply andb_true_iff in Hp; destruct Hp as [Hp ?]). apply N.eqb_eq in Hp.
    split; [reflexivity|split; [reflexivity|split]].
    + intros _. left. cbn. discriminate.
    + intros _ _. apply in_upd_where in Hd. destruct Hd as [x [Hx E]].
      exists x. split; [exact Hx|].
      rewrite <- Hp. rewrite E.
      match goal with |- context [if ?c then _ else _] => destruct c end; cbn; auto.
  - intros d Hd Hp.
    repeat (apply andb_true_iff in Hp; destruct Hp as [Hp ?]). apply N.eqb_eq in Hp.
    split; [reflexivity|split; [reflexivity|split]].
    + intros _. right. exact Hp.
    + cbn. intros A B; contradiction.
Qed.
