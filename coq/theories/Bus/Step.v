(* Bus/Step.v -- [step]: one client-visible operation = handler validation + the
   transaction(s) it runs + the response it renders. Mirrors services/grpc-publisher.go,
   services/grpc-subscriber.go, services/grpc-snapshots.go and the job actions. *)
From MB Require Import Base.
From MB.Bus Require Import State Ops.
Local Open Scope string_scope.
Open Scope list_scope.
Open Scope Z_scope.

Record result := mkResult {
  r_state : state;
  r_resp : resp;
  r_wakes : list id;      (* subscriptions whose publish listeners are woken on commit *)
  r_notes : notes }.      (* oracle legality complaints; must be empty *)

Definition fail (st : state) (c : code) : result := mkResult st (RErr c) [] [].
Definition done (st : state) (r : resp) (w : list id) (n : notes) : result := mkResult st r w n.

(* ---------- pagination of the List RPCs: WHERE id > token ORDER BY id LIMIT size ---------- *)
Definition page_size (size : Z) : Z := if (0 <? size) && (size <? 100) then size else 100.

Definition page {R : Type} (key : R -> id) (rows : list R) (size : Z) (tok : page_token)
  : list R * option id :=
  let rows := match tok with
              | TokId i => filter (fun r => (i <? key r)%N) rows
              | _ => rows
              end in
  let n := Z.to_nat (page_size size) in
  let pg := firstn n rows in
  (pg, if (page_size size <=? Z.of_nat (length pg))
       then option_map key (last (map Some pg) None) else None).

Definition project_prefix (project kind : str) : str := (project ++ "/" ++ kind ++ "/")%string.

(* name prefix predicate as the database evaluates it. SQLite's LIKE is
   case-insensitive for ASCII letters; the fixed code (F6) uses an exact prefix *)
Definition name_has_prefix (p s : str) : bool := str_prefix p s.

(* ---------- subscriptions ---------- *)
Definition push_unimplemented_on_create (p : pushreq) : bool :=
  negb (match pr_attrs p with [] => true | _ => false end) || pr_auth p ||
  match pr_wrapper p with WOther => true | _ => false end.

(* validatePushConfig *)
Definition validate_push (p : option pushreq) : option code :=
  match p with
  | None => None
  | Some p =>
      let bad_attr := existsb (fun kv => negb (String.eqb (fst kv) "x-goog-version") ||
                                         negb (String.eqb (snd kv) "v1")) (pr_attrs p) in
      if bad_attr then Some InvalidArgument
      else if pr_auth p then Some Unimplemented
      else None
  end.

Definition push_endpoint_of (p : option pushreq) : option str :=
  match p with
  | Some p => if String.eqb (pr_endpoint p) "" then None else Some (pr_endpoint p)
  | None => None
  end.

Definition filter_parses (f : str) : bool :=
  is_some (MB.Filter.Parse.parse_string MB.Filter.Tables.tbl_letter MB.Filter.Tables.tbl_digit f).

(* NewCreateSubscription's panics: the handler passes its parameters unvalidated.
   [None] = no panic *)
Definition create_sub_panics (ttl msg_ttl max_attempts : Z) (dl_topic : str) : bool :=
  (ttl <=? 0) || (msg_ttl <=? 0) || (max_attempts <? 0) ||
  negb (Bool.eqb (negb (max_attempts =? 0)) (negb (String.eqb dl_topic ""))).

Definition create_sub (st : state) (q : subreq) (fresh : id) (wnow : time) : result :=
  if negb (valid_sub_name (q_name q)) then fail st InvalidArgument
  else if q_detached q then fail st InvalidArgument
  else if match q_push q with Some p => negb (match pr_attrs p with [] => true | _ => false end)
                                      | None => false end then fail st Unimplemented
  else if match q_push q with Some p => pr_auth p | None => false end then fail st Unimplemented
  else if match q_push q with Some p => match pr_wrapper p with WOther => true | _ => false end
                              | None => false end then fail st Unimplemented
  else
    let ttl := if q_ttl q =? 0 then default_sub_ttl else q_ttl q in
    let msg_ttl := if q_msg_ttl q =? 0 then default_msg_ttl else q_msg_ttl q in
    let minb := match q_retry q with Some (a, _) => oz_get a | None => 0 end in
    let maxb := match q_retry q with Some (_, b) => oz_get b | None => 0 end in
    let '(max_att, dl_name) :=
      match q_dl q with
      | Some (t, n) => (if n =? 0 then default_dl_attempts else n, t)
      | None => (0, EmptyString)
      end in
    let endpoint := match q_push q with Some p => pr_endpoint p | None => EmptyString end in
    if create_sub_panics ttl msg_ttl max_att dl_name
    then fail st InvalidArgument        (* after the fix of F11: validated, not a panic *)
    else
      (* CreateSubscription.Execute *)
      if is_some (find_live_sub st (q_name q)) then fail st AlreadyExists
      else match find_live_topic st (q_topic q) with
      | None => fail st NotFound
      | Some t =>
          if negb (String.eqb (q_filter q) "") && negb (filter_parses (q_filter q))
          then fail st Unknown
          else
            let dl := if String.eqb dl_name "" then Some None
                      else match find_live_topic st dl_name with
                           | Some dt => Some (Some (t_id dt))
                           | None => None
                           end in
            match dl with
            | None => fail st NotFound
            | Some dlt =>
                let s := mkSub fresh (q_name q) (t_id t) None (wnow + ttl) ttl msg_ttl
                               (q_ordered q)
                               (if String.eqb (q_filter q) "" then None else Some (q_filter q))
                               (if 0 <? minb then Some minb else None)
                               (if 0 <? maxb then Some maxb else None)
                               (if max_att =? 0 then None else Some max_att)
                               dlt 0
                               (if String.eqb endpoint "" then None else Some endpoint)
                               (q_labels q) in
                done (set_subs st (ins s_id s (subs st)))
                     (RSub (view_sub st s false (q_topic q) dl_name)) [fresh]
                     (if has_id s_id fresh (subs st) then ["subscription-id-not-fresh"%string] else [])
            end
      end.

(* one path of UpdateSubscription's switch: either an error or the row after it *)
Definition upd_path (st : state) (q : subreq) (wnow : time) (acc : sub * str * bool) (p : str)
  : code + (sub * str * bool) :=
  let '(s, dl_name, touched) := acc in
  let mk := fun ttl exp msg_ttl ordered filt minb maxb maxa dlt push labels =>
    mkSub (s_id s) (s_name s) (s_topic s) (s_deleted s) exp ttl msg_ttl ordered filt minb maxb
          maxa dlt (s_delay s) push labels in
  if String.eqb p "name" then inl InvalidArgument
  else if String.eqb p "topic" then inl InvalidArgument
  else if String.eqb p "labels" then
    inr (mk (s_ttl s) (s_expires s) (s_msg_ttl s) (s_ordered s) (s_filter s) (s_minb s) (s_maxb s)
            (s_max_attempts s) (s_dl_topic s) (s_push s) (q_labels q), dl_name, true)
  else if String.eqb p "expiration_policy" then
    let ttl := if q_ttl q =? 0 then default_sub_ttl else q_ttl q in
    inr (mk ttl (wnow + ttl) (s_msg_ttl s) (s_ordered s) (s_filter s) (s_minb s) (s_maxb s)
            (s_max_attempts s) (s_dl_topic s) (s_push s) (s_labels s), dl_name, true)
  else if String.eqb p "message_retention_duration" then
    let mt := if q_msg_ttl q =? 0 then default_msg_ttl else q_msg_ttl q in
    inr (mk (s_ttl s) (s_expires s) mt (s_ordered s) (s_filter s) (s_minb s) (s_maxb s)
            (s_max_attempts s) (s_dl_topic s) (s_push s) (s_labels s), dl_name, true)
  else if String.eqb p "enable_message_ordering" then
    inr (mk (s_ttl s) (s_expires s) (s_msg_ttl s) (q_ordered q) (s_filter s) (s_minb s) (s_maxb s)
            (s_max_attempts s) (s_dl_topic s) (s_push s) (s_labels s), dl_name, true)
  else if String.eqb p "retry_policy" then
    let '(a, b) := match q_retry q with Some ab => ab | None => (None, None) end in
    inr (mk (s_ttl s) (s_expires s) (s_msg_ttl s) (s_ordered s) (s_filter s) a b
            (s_max_attempts s) (s_dl_topic s) (s_push s) (s_labels s), dl_name, true)
  else if String.eqb p "push_config" then
    match validate_push (q_push q) with
    | Some c => inl c
    | None =>
        inr (mk (s_ttl s) (s_expires s) (s_msg_ttl s) (s_ordered s) (s_filter s) (s_minb s) (s_maxb s)
                (s_max_attempts s) (s_dl_topic s) (push_endpoint_of (q_push q)) (s_labels s),
             dl_name, true)
    end
  else if String.eqb p "filter" then
    if String.eqb (q_filter q) "" then
      inr (mk (s_ttl s) (s_expires s) (s_msg_ttl s) (s_ordered s) None (s_minb s) (s_maxb s)
              (s_max_attempts s) (s_dl_topic s) (s_push s) (s_labels s), dl_name, true)
    else if filter_parses (q_filter q) then
      inr (mk (s_ttl s) (s_expires s) (s_msg_ttl s) (s_ordered s) (Some (q_filter q)) (s_minb s)
              (s_maxb s) (s_max_attempts s) (s_dl_topic s) (s_push s) (s_labels s), dl_name, true)
    else inl InvalidArgument
  else if String.eqb p "dead_letter_policy" then
    let '(tn, n) := match q_dl q with Some x => x | None => (EmptyString, 0) end in
    if String.eqb tn "" then
      inr (mk (s_ttl s) (s_expires s) (s_msg_ttl s) (s_ordered s) (s_filter s) (s_minb s) (s_maxb s)
              None None (s_push s) (s_labels s), EmptyString, true)
    else
      match find_live_topic st tn with
      | None => inl NotFound
      | Some dt =>
          inr (mk (s_ttl s) (s_expires s) (s_msg_ttl s) (s_ordered s) (s_filter s) (s_minb s)
                  (s_maxb s) (Some (if n =? 0 then default_dl_attempts else n)) (Some (t_id dt))
                  (s_push s) (s_labels s), t_name dt, true)
      end
  else inl InvalidArgument.   (* unsupported and unrecognised paths alike *)

Fixpoint upd_paths (st : state) (q : subreq) (wnow : time) (acc : sub * str * bool) (ps : list str)
  : code + (sub * str * bool) :=
  match ps with
  | [] => inr acc
  | p :: r =>
      match upd_path st q wnow acc p with
      | inl c => inl c
      | inr acc' => upd_paths st q wnow acc' r
      end
  end.

Definition update_sub (st : state) (q : subreq) (paths : list str) (wnow : time) : result :=
  if negb (valid_sub_name (q_name q)) then fail st InvalidArgument
  else match find_live_sub st (q_name q) with
  | None => fail st NotFound
  | Some s =>
      let dl0 := match s_dl_topic s with
                 | Some dlt => match get_topic st dlt with Some t => t_name t | None => EmptyString end
                 | None => EmptyString
                 end in
      match upd_paths st q wnow (s, dl0, false) paths with
      | inl c => fail st c
      | inr (s', dl_name, touched) =>
          if negb touched then done st RSubEmpty [] []
          else
            let tname := match get_topic st (s_topic s) with Some t => t_name t | None => EmptyString end in
            done (set_subs st (upd_where (fun x => N.eqb (s_id x) (s_id s)) (fun _ => s') (subs st)))
                 (RSub (view_sub st s' false tname dl_name)) [s_id s] []
      end
  end.

(* ---------- the step function ---------- *)
Definition job_matches (st : state) (j : job) (now min_age : Z) : list id :=
  match j with
  | JPruneCompletedDeliveries =>
      map d_id (filter (fun d => match d_completed d with Some c => c <=? now - min_age | None => false end)
                       (dels st))
  | JPruneExpiredDeliveries =>
      map d_id (filter (fun d => d_expires d <? now) (dels st))
  | JPruneCompletedMessages =>
      map m_id (filter (fun m => (m_published m <=? now - min_age) &&
                                 negb (existsb (fun d => N.eqb (d_msg d) (m_id m)) (dels st)))
                       (msgs st))
  | JPruneDeletedSubDeliveries =>
      map d_id (filter (fun d => match get_sub st (d_sub d) with
                                 | Some s => match s_deleted s with
                                             | Some t => t <=? now - min_age
                                             | None => false
                                             end
                                 | None => false
                                 end) (dels st))
  | JPruneDeletedSubs =>
      map s_id (filter (fun s => match s_deleted s with
                                 | Some t => (t <=? now - min_age) &&
                                             negb (existsb (fun d => N.eqb (d_sub d) (s_id s)) (dels st))
                                 | None => false
                                 end) (subs st))
  | JPruneDeletedTopics =>
      (* after the fix of F8: a topic that a live subscription still names as its
         dead-letter topic is kept *)
      map t_id (filter (fun t => match t_deleted t with
                                 | Some dt => (dt <=? now - min_age) &&
                                              negb (existsb (fun s => N.eqb (s_topic s) (t_id t)) (subs st)) &&
                                              negb (existsb (fun s => sub_live s &&
                                                                      on_eqb (s_dl_topic s) (Some (t_id t))) (subs st))
                                 | None => false
                                 end) (topics st))
  | JExpireSubs =>
      map s_id (filter (fun s => (s_expires s <? now) && sub_live s) (subs st))
  | JDeadLetterSweep =>
      map d_id (filter (fun d =>
          match get_sub st (d_sub d) with
          | Some s => sub_live s && full_dl s && (max_attempts_of s <=? d_attempts d) &&
                      is_none (d_completed d) && (now <? d_expires d) && (d_attempt_at d <=? now)
          | None => false
          end) (dels st))
  end.

(* the observed choice must be a duplicate-free subset of the matching rows of size
   min(max, |matching|)  (LIMIT without ORDER BY) *)
Definition choice_legal (matching chosen : list id) (max : Z) : bool :=
  nodup_ids chosen && forallb (fun i => mem_id i matching) chosen &&
  (Z.of_nat (length chosen) =? Z.min (Z.max max 0) (Z.of_nat (length matching))).

Fixpoint sweep_each (st : state) (ds : list id) (wnow : time) (fr : fresh_dels)
  : state * fresh_dels * list id * notes :=
  match ds with
  | [] => (st, fr, [], [])
  | i :: r =>
      match get_del st i with
      | None => (st, fr, [], ["sweep-delivery-missing"%string])
      | Some d =>
          match get_sub st (d_sub d) with
          | Some s =>
              match s_dl_topic s with
              | Some dlt =>
                  let '(st1, fr1, w1, n1) := dead_letter st d dlt wnow fr in
                  let '(st2, fr2, w2, n2) := sweep_each st1 r wnow fr1 in
                  (st2, fr2, w1 ++ w2, n1 ++ n2)
              | None => (st, fr, [], ["sweep-no-dl-topic"%string])
              end
          | None => (st, fr, [], ["sweep-subscription-missing"%string])
          end
      end
  end.

(* a topic row cannot be hard-deleted while a message still refers to it (FK NO ACTION) *)
Definition topic_has_messages (st : state) (i : id) : bool :=
  existsb (fun m => N.eqb (m_topic m) i) (msgs st).

Definition run_job (st : state) (now : time) (j : job) (min_age max : Z) (chosen : list id)
           (failed : bool) (wnow : time) (fr : fresh_dels) : result :=
  let matching := job_matches st j now min_age in
  if failed then
    (* the choice made by LIMIT is not observable when the transaction rolled back: the
       failure is legal iff some legal choice fails, i.e. (for the only job that can hit a
       foreign key) some matching topic still has messages *)
    match j with
    | JPruneDeletedTopics =>
        mkResult st (RErr Unknown) []
                 (if (0 <? max) && existsb (topic_has_messages st) matching then []
                  else ["unexpected-job-failure"%string])
    | _ => mkResult st (RErr Unknown) [] ["unexpected-job-failure"%string]
    end
  else
  let n0 := if choice_legal matching chosen max then [] else ["illegal-choice"%string] in
  let cnt := RCount (Z.of_nat (length chosen)) in
  match j with
  | JPruneCompletedDeliveries | JPruneDeletedSubDeliveries =>
      (* ON DELETE SET NULL on deliveries.not_before_id *)
      done (set_dels st (map (d_null_link chosen) (del_ids d_id chosen (dels st)))) cnt [] n0
  | JPruneExpiredDeliveries =>
      let woken := sort_ids (flat_map (fun i =>
          match get_del st i with
          | Some d => match get_sub st (d_sub d) with
                      | Some s => if s_ordered s then [s_id s] else []
                      | None => []
                      end
          | None => []
          end) chosen) in
      done (set_dels st (map (d_null_link chosen) (del_ids d_id chosen (dels st)))) cnt woken n0
  | JPruneCompletedMessages =>
      done (set_msgs st (del_ids m_id chosen (msgs st))) cnt [] n0
  | JPruneDeletedSubs =>
      done (set_subs st (del_ids s_id chosen (subs st))) cnt [] n0
  | JPruneDeletedTopics =>
      (* FK NO ACTION from messages.topic_id and snapshots.topic_id: the DELETE fails and the
         whole job rolls back; FK SET NULL from subscriptions.dead_letter_topic_id *)
      if existsb (topic_has_messages st) chosen
      then mkResult st (RErr Unknown) [] ("job-should-have-failed"%string :: n0)
      else
        let ss := map (fun s => match s_dl_topic s with
                                | Some t => if mem_id t chosen
                                            then mkSub (s_id s) (s_name s) (s_topic s) (s_deleted s)
                                                   (s_expires s) (s_ttl s) (s_msg_ttl s) (s_ordered s)
                                                   (s_filter s) (s_minb s) (s_maxb s) (s_max_attempts s)
                                                   None (s_delay s) (s_push s) (s_labels s)
                                            else s
                                | None => s
                                end) (subs st) in
        (* after the fix of F10 the topics' snapshots go with them *)
        done (set_snaps (set_topics (set_subs st ss) (del_ids t_id chosen (topics st)))
                        (filter (fun n => negb (mem_id (n_topic n) chosen)) (snaps st))) cnt [] n0
  | JExpireSubs =>
      done (set_subs st (upd_where (fun s => mem_id (s_id s) chosen) (s_set_deleted wnow) (subs st)))
           cnt (sort_ids chosen) n0
  | JDeadLetterSweep =>
      (* the order in which the code processes the chosen rows is the database's; the
         harness reconstructs it as far as it is observable (predecessor links between
         the forwards) and passes [chosen] in that order *)
      let '(st1, fr1, w, n) := sweep_each st chosen wnow fr in
      done st1 cnt w (n0 ++ n ++ match fr1 with [] => [] | _ => ["unexpected-delivery"%string] end)
  end.

Definition leftover (fr : fresh_dels) : notes :=
  match fr with [] => [] | _ => ["unexpected-delivery"%string] end.

Definition step (st : state) (now : time) (o : op) : result :=
  match o with
  (* ----- Publisher ----- *)
  | CreateTopic name labels advanced fresh =>
      if negb (valid_topic_name name) then fail st InvalidArgument
      else if advanced then fail st Unimplemented
      else if is_some (find_live_topic st name) then fail st AlreadyExists
      else done (set_topics st (ins t_id (mkTopic fresh name None labels) (topics st)))
                (RTopic name labels) []
                (if has_id t_id fresh (topics st) then ["topic-id-not-fresh"%string] else [])
  | GetTopic name =>
      if negb (valid_topic_name name) then fail st InvalidArgument
      else match find_live_topic st name with
           | Some t => done st (RTopic (t_name t) (t_labels t)) [] []
           | None => fail st NotFound
           end
  | UpdateTopic name paths labels =>
      if negb (valid_topic_name name) then fail st InvalidArgument
      else match find_live_topic st name with
      | None => fail st NotFound
      | Some t =>
          let fix go (ps : list str) (touched : bool) : code + bool :=
            match ps with
            | [] => inr touched
            | p :: r =>
                if String.eqb p "name" then inl InvalidArgument
                else if String.eqb p "labels" then go r true
                else if String.eqb p "message_storage_policy" || String.eqb p "kms_key_name" ||
                        String.eqb p "schema_settings" || String.eqb p "satisfies_pzs"
                then inl Unimplemented
                else inl InvalidArgument
            end in
          match go paths false with
          | inl c => fail st c
          | inr false => done st RTopicEmpty [] []
          | inr true =>
              done (set_topics st (upd_where (fun x => N.eqb (t_id x) (t_id t))
                                             (fun x => mkTopic (t_id x) (t_name x) (t_deleted x) labels)
                                             (topics st)))
                   (RTopic (t_name t) labels) [] []
          end
      end
  | DeleteTopic name wnow =>
      if negb (valid_topic_name name) then fail st InvalidArgument
      else match find_live_topic st name with
      | None => fail st NotFound
      | Some t =>
          (* soft delete + hard delete of the topic's snapshots *)
          done (set_snaps (set_topics st (upd_where (fun x => N.eqb (t_id x) (t_id t))
                                                    (fun x => mkTopic (t_id x) (t_name x) (Some wnow) (t_labels x))
                                                    (topics st)))
                          (filter (fun n => negb (N.eqb (n_topic n) (t_id t))) (snaps st)))
               RUnit [] []
      end
  | ListTopics project size tok =>
      match tok with
      | TokBad => fail st InvalidArgument
      | _ =>
          let rows := filter (fun t => topic_live t &&
                                       name_has_prefix (project_prefix project "topics") (t_name t))
                             (topics st) in
          let '(pg, next) := page t_id rows size tok in
          done st (RTopics (map (fun t => (t_name t, t_labels t)) pg) next) [] []
      end
  | ListTopicSubs tname size tok =>
      if negb (valid_topic_name tname) then fail st InvalidArgument
      else match find_live_topic st tname with
      | None => fail st NotFound
      | Some t =>
          match tok with
          | TokBad => fail st InvalidArgument
          | _ =>
              let '(pg, next) := page s_id (live_subs_of st (t_id t)) size tok in
              done st (RNames (map s_name pg) next) [] []
          end
      end
  | Publish tname ms fr =>
      if negb (valid_topic_name tname) then fail st InvalidArgument
      else match find_live_topic st tname with
      | None => fail st NotFound
      | Some t =>
          match publish_all st t ms fr with
          | None => fail st Unknown
          | Some (st', fr', w, n) => done st' (RIds (map pm_id ms)) w (n ++ leftover fr')
          end
      end
  (* ----- Subscriber ----- *)
  | CreateSub q fresh wnow => create_sub st q fresh wnow
  | GetSub name =>
      if negb (valid_sub_name name) then fail st InvalidArgument
      else match find_live_sub st name with
           | Some s => done st (RSub (view_sub st s true EmptyString EmptyString)) [] []
           | None => fail st NotFound
           end
  | UpdateSub q paths wnow => update_sub st q paths wnow
  | ListSubs project size tok =>
      match tok with
      | TokBad => fail st InvalidArgument
      | _ =>
          let rows := filter (fun s => sub_live s &&
                                       name_has_prefix (project_prefix project "subscriptions") (s_name s))
                             (subs st) in
          let '(pg, next) := page s_id rows size tok in
          done st (RSubs (map (fun s => view_sub st s true EmptyString EmptyString) pg) next) [] []
      end
  | DeleteSub name wnow =>
      if negb (valid_sub_name name) then fail st InvalidArgument
      else match find_live_sub st name with
      | None => fail st NotFound
      | Some s =>
          done (set_subs st (upd_where (fun x => N.eqb (s_id x) (s_id s)) (s_set_deleted wnow) (subs st)))
               RUnit [s_id s] []
      end
  | ModAck name ids seconds wnow =>
      if negb (valid_sub_name name) then fail st InvalidArgument
      else match ids with
      | None => fail st Unknown               (* uuid parse error through AsStatusError *)
      | Some ids =>
          let '(st', w) := do_delay st ids (seconds * sec) wnow in
          done st' RUnit w []
      end
  | Ack name ids wnow =>
      if negb (valid_sub_name name) then fail st InvalidArgument
      else match ids with
      | None => fail st InvalidArgument
      | Some ids => let '(st', w) := do_ack st ids wnow in done st' RUnit w []
      end
  | Pull name max returned others wnow fz fr =>
      if negb (valid_sub_name name) then fail st InvalidArgument
      else if max <? 1 then fail st InvalidArgument     (* after the fix of F11 *)
      else match find_live_sub st name with
      | None => fail st NotFound
      | Some s =>
          (* every transaction of the pull sets expires_at = its now + ttl; the last one wins *)
          let st0 := set_subs st (upd_where (fun x => N.eqb (s_id x) (s_id s))
                                            (s_set_expires (wnow + s_ttl s)) (subs st)) in
          let n0 := if selection_legal st s now max returned others then []
                    else ["illegal-selection"%string] in
          let cands := flat_map (fun i => match get_del st i with Some d => [d] | None => [] end)
                                (returned ++ others) in
          (* candidates are processed in attempt_at order; dead-lettered ones are not in
             the response, so their position among the returned ones is unobservable and,
             with the 10 MiB budget of Pull, irrelevant *)
          let '(st1, fr1, ps, w, n) :=
            apply_results st0 s cands true false 0 pull_max_bytes now wnow fz fr in
          done st1 (RPull ps) w (n0 ++ n ++ leftover fr1)
      end
  | SeekTime name target wnow =>
      if negb (valid_sub_name name) then fail st InvalidArgument
      else match find_live_sub st name with
      | None => fail st NotFound
      | Some s => let '(st', w) := seek_time st s target now wnow in done st' RUnit w []
      end
  | SeekSnap name snapname wnow =>
      if negb (valid_sub_name name) then fail st InvalidArgument
      else if negb (valid_snap_name snapname) then fail st InvalidArgument   (* after the fix of F11 *)
      else match find_live_sub st name, find_snap st snapname with
      | Some s, Some n => let '(st', w) := seek_snap st s n now wnow in done st' RUnit w []
      | _, _ => fail st NotFound
      end
  | SeekNoTarget name =>
      if negb (valid_sub_name name) then fail st InvalidArgument else fail st InvalidArgument
  | ModifyPush name p =>
      if negb (valid_sub_name name) then fail st InvalidArgument
      else match validate_push p with
      | Some c => fail st c
      | None =>
          match find_live_sub st name with
          | None => fail st NotFound
          | Some s =>
              done (set_subs st (upd_where (fun x => N.eqb (s_id x) (s_id s))
                     (fun x => mkSub (s_id x) (s_name x) (s_topic x) (s_deleted x) (s_expires x)
                                     (s_ttl x) (s_msg_ttl x) (s_ordered x) (s_filter x) (s_minb x)
                                     (s_maxb x) (s_max_attempts x) (s_dl_topic x) (s_delay x)
                                     (push_endpoint_of p) (s_labels x)) (subs st)))
                   RUnit [s_id s] []
          end
      end
  | CreateSnap name subname labels fresh wnow =>
      if negb (valid_snap_name name) then fail st InvalidArgument
      else if negb (valid_sub_name subname) then fail st InvalidArgument
      else if is_some (find_snap st name) then fail st AlreadyExists
      else match find_live_sub st subname with
      | None => fail st NotFound
      | Some s =>
          let '(before, acked) :=
            match oldest_unacked st s wnow with
            | None => (wnow, [])
            | Some d => (d_published d, snapshot_acked st s (d_published d))
            end in
          let n := mkSnap fresh name (s_topic s) (wnow + default_snapshot_ttl) labels before acked in
          let tname := match get_topic st (s_topic s) with Some t => t_name t | None => EmptyString end in
          done (set_snaps st (ins n_id n (snaps st)))
               (RSnap name tname (wnow + default_snapshot_ttl) labels) []
               (if has_id n_id fresh (snaps st) then ["snapshot-id-not-fresh"%string] else [])
      end
  | GetSnap name =>
      if negb (valid_snap_name name) then fail st InvalidArgument
      else match find_snap st name with
      | Some n => done st (RSnap (n_name n) (render_topic_name st (n_topic n)) (n_expires n) (n_labels n)) [] []
      | None => fail st NotFound
      end
  | ListSnaps project size tok =>
      match tok with
      | TokBad => fail st InvalidArgument
      | _ =>
          let rows := filter (fun n => name_has_prefix (project_prefix project "snapshots") (n_name n))
                             (snaps st) in
          let '(pg, next) := page n_id rows size tok in
          done st (RSnaps (map (fun n => (n_name n, render_topic_name st (n_topic n), n_expires n, n_labels n)) pg)
                          next) [] []
      end
  | DeleteSnap name =>
      if negb (valid_snap_name name) then fail st InvalidArgument
      else match find_snap st name with
      | Some n => done (set_snaps st (filter (fun x => negb (String.eqb (n_name x) name)) (snaps st))) RUnit [] []
      | None => fail st NotFound
      end
  | StreamAckNack acks nacks wnow fz fr =>
      let '(st1, w1) := do_ack st acks wnow in
      let '(st2, fr2, w2, n2) := do_nack st1 nacks now wnow fz fr in
      done st2 RUnit (w1 ++ w2) (n2 ++ leftover fr2)
  | SetDelay name delay =>
      match find_live_sub st name with
      | None => fail st NotFound
      | Some s =>
          done (set_subs st (upd_where (fun x => N.eqb (s_id x) (s_id s))
                 (fun x => mkSub (s_id x) (s_name x) (s_topic x) (s_deleted x) (s_expires x)
                                 (s_ttl x) (s_msg_ttl x) (s_ordered x) (s_filter x) (s_minb x)
                                 (s_maxb x) (s_max_attempts x) (s_dl_topic x) delay
                                 (s_push x) (s_labels x)) (subs st)))
               RUnit [] []
      end
  | Job j min_age max chosen failed wnow fr => run_job st now j min_age max chosen failed wnow fr
  end.
