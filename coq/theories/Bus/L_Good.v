(* Bus/L_Good.v -- the "good step" relation: a state change that preserves unique ids,
   sortedness and referential integrity; one lemma per table saying which changes of that
   table are good. *)
From MB Require Import Base.
From MB.Bus Require Import State Ops Step Defs L_Tables.
Open Scope list_scope.

(* same as T_Inv.tables_sorted *)
Definition tsorted (st : state) : Prop :=
  ssorted (map t_id (topics st)) /\ ssorted (map s_id (subs st)) /\ ssorted (map m_id (msgs st)) /\
  ssorted (map d_id (dels st)) /\ ssorted (map n_id (snaps st)).

(* same as T_Inv.refs_ok *)
Definition refs_ok' (st : state) : Prop :=
  (forall s, In s (subs st) -> has_id t_id (s_topic s) (topics st) = true) /\
  (forall s t, In s (subs st) -> s_dl_topic s = Some t -> has_id t_id t (topics st) = true) /\
  (forall m, In m (msgs st) -> has_id t_id (m_topic m) (topics st) = true) /\
  (forall n, In n (snaps st) -> has_id t_id (n_topic n) (topics st) = true) /\
  (forall d, In d (dels st) -> has_id s_id (d_sub d) (subs st) = true) /\
  (forall d, In d (dels st) -> has_id m_id (d_msg d) (msgs st) = true) /\
  (forall d p, In d (dels st) -> d_not_before d = Some p -> has_id d_id p (dels st) = true).

Definition tids st := map t_id (topics st).
Definition sids st := map s_id (subs st).
Definition mids st := map m_id (msgs st).
Definition dids st := map d_id (dels st).

Definition refsP (st : state) : Prop :=
  (forall s, In s (subs st) -> In (s_topic s) (tids st)) /\
  (forall s t, In s (subs st) -> s_dl_topic s = Some t -> In t (tids st)) /\
  (forall m, In m (msgs st) -> In (m_topic m) (tids st)) /\
  (forall n, In n (snaps st) -> In (n_topic n) (tids st)) /\
  (forall d, In d (dels st) -> In (d_sub d) (sids st)) /\
  (forall d, In d (dels st) -> In (d_msg d) (mids st)) /\
  (forall d p, In d (dels st) -> d_not_before d = Some p -> In p (dids st)).

Lemma refs_ok'_iff st : refs_ok' st <-> refsP st.
Proof.
  unfold refs_ok', refsP, tids, sids, mids, dids.
  split; intros (R1&R2&R3&R4&R5&R6&R7);
    (refine (conj _ (conj _ (conj _ (conj _ (conj _ (conj _ _)))))));
    intros;
    first [ apply has_id_in | apply -> has_id_in ]; eauto.
Qed.

Definition tbl_ok {R} (key : R -> id) (l l' : list R) : Prop :=
  (NoDup (map key l) -> NoDup (map key l')) /\ (ssorted (map key l) -> ssorted (map key l')).

Lemma tbl_ok_refl {R} (key : R -> id) l : tbl_ok key l l.
Proof. split; auto. Qed.

Lemma tbl_ok_trans {R} (key : R -> id) l1 l2 l3 :
  tbl_ok key l1 l2 -> tbl_ok key l2 l3 -> tbl_ok key l1 l3.
Proof. intros [A B] [C D]. split; auto. Qed.

Lemma tbl_ok_same_ids {R} (key : R -> id) l l' : map key l' = map key l -> tbl_ok key l l'.
Proof. intros E. split; rewrite E; auto. Qed.

Lemma tbl_ok_map {R} (key : R -> id) f l :
  (forall r, In r l -> key (f r) = key r) -> tbl_ok key l (map f l).
Proof. intros H. apply tbl_ok_same_ids. apply map_key_map. exact H. Qed.

Lemma tbl_ok_upd {R} (key : R -> id) p f l :
  (forall r, In r l -> key (f r) = key r) -> tbl_ok key l (upd_where p f l).
Proof. intros H. apply tbl_ok_same_ids. apply map_key_upd. exact H. Qed.

Lemma tbl_ok_ins {R} (key : R -> id) r l :
  has_id key (key r) l = false -> tbl_ok key l (ins key r l).
Proof.
  intros H. apply has_id_false in H.
  split; intros; [apply nodup_ins|apply ssorted_ins]; assumption.
Qed.

Lemma tbl_ok_filter {R} (key : R -> id) p l : tbl_ok key l (filter p l).
Proof. split; [apply nodup_map_filter|apply ssorted_map_filter]. Qed.

Lemma tbl_ok_del_ids {R} (key : R -> id) ids l : tbl_ok key l (del_ids key ids l).
Proof. apply tbl_ok_filter. Qed.

(* ---- the ordering links never form a cycle and never leave the subscription: there is a
   ranking of the delivery ids that every link (d.not_before = p) strictly decreases, and the
   row a link points to belongs to the same subscription (used by T_Live: an ordered backlog
   cannot block itself) ---- *)
Definition lb_ok (ds : list del) (rank : id -> nat) : Prop :=
  forall d pd, In d ds -> In pd ds -> d_not_before d = Some (d_id pd) ->
    d_sub pd = d_sub d /\ (rank (d_id pd) < rank (d_id d))%nat.
Definition LBr (ds : list del) : Prop := exists rank, lb_ok ds rank.

Definition maxrank (rank : id -> nat) (ds : list del) : nat :=
  fold_right (fun d a => Nat.max (rank (d_id d)) a) 0%nat ds.
Lemma maxrank_ge rank ds d : In d ds -> (rank (d_id d) <= maxrank rank ds)%nat.
Proof.
  induction ds as [|x ds IH]; cbn [In maxrank fold_right]; intros H; [contradiction|].
  destruct H as [->|H]; [apply Nat.le_max_l|].
  eapply Nat.le_trans; [apply IH; exact H|apply Nat.le_max_r].
Qed.

(* ---- good steps ---- *)
Definition good (st st' : state) : Prop :=
  (ids_unique st -> ids_unique st') /\ (tsorted st -> tsorted st') /\
  (ids_unique st -> refsP st -> refsP st') /\
  (ids_unique st -> refsP st -> LBr (dels st) -> LBr (dels st')).

Definition same_others (st st' : state) : Prop :=
  topics st' = topics st /\ subs st' = subs st /\ msgs st' = msgs st /\ snaps st' = snaps st.

Lemma good_refl st : good st st.
Proof. split; [|split; [|split]]; auto. Qed.

Lemma good_trans st1 st2 st3 : good st1 st2 -> good st2 st3 -> good st1 st3.
Proof. intros (A&B&C&L1) (D&E&F&L2). split; [|split; [|split]]; auto. Qed.

Lemma same_others_refl st : same_others st st.
Proof. repeat split. Qed.

Lemma same_others_trans st1 st2 st3 : same_others st1 st2 -> same_others st2 st3 -> same_others st1 st3.
Proof. intros (A&B&C&D) (E&F&G&H). repeat split; congruence. Qed.

Lemma same_others_set_dels st ds : same_others st (set_dels st ds).
Proof. repeat split. Qed.

Lemma good_intro' st st' :
  (ids_unique st -> refsP st -> LBr (dels st) -> LBr (dels st')) ->
  tbl_ok t_id (topics st) (topics st') -> tbl_ok s_id (subs st) (subs st') ->
  tbl_ok m_id (msgs st) (msgs st') -> tbl_ok d_id (dels st) (dels st') ->
  tbl_ok n_id (snaps st) (snaps st') ->
  (ids_unique st -> refsP st -> refsP st') -> good st st'.
Proof.
  intros HL [T1 T2] [S1 S2] [M1 M2] [D1 D2] [N1 N2] HR.
  split; [|split; [|split]]; [| |exact HR|exact HL].
  - intros (A&B&C&D&E). repeat split; auto.
  - intros (A&B&C&D&E). repeat split; auto.
Qed.

(* a change that leaves the deliveries table alone *)
Lemma good_intro st st' :
  dels st' = dels st ->
  tbl_ok t_id (topics st) (topics st') -> tbl_ok s_id (subs st) (subs st') ->
  tbl_ok m_id (msgs st) (msgs st') -> tbl_ok d_id (dels st) (dels st') ->
  tbl_ok n_id (snaps st) (snaps st') ->
  (ids_unique st -> refsP st -> refsP st') -> good st st'.
Proof. intros E. apply good_intro'. rewrite E. auto. Qed.

(* ---- deliveries ---- *)
Definition del_from (st : state) (d' : del) : Prop :=
  (exists d, In d (dels st) /\ d_sub d' = d_sub d /\ d_msg d' = d_msg d /\
             (d_not_before d' = d_not_before d \/ d_not_before d' = None)) \/
  (In (d_sub d') (sids st) /\ In (d_msg d') (mids st) /\
   forall p, d_not_before d' = Some p -> In p (dids st)).

Lemma good_dels st ds' :
  (ids_unique st -> refsP st -> LBr (dels st) -> LBr ds') ->
  tbl_ok d_id (dels st) ds' ->
  (ids_unique st -> refsP st -> forall d', In d' ds' -> del_from st d') ->
  (ids_unique st -> refsP st ->
   forall d' p, In d' ds' -> d_not_before d' = Some p -> In p (dids st) -> In p (map d_id ds')) ->
  good st (set_dels st ds').
Proof.
  intros HL HT HF HK. apply good_intro'; [exact HL|..]; cbn [set_dels topics subs msgs dels snaps];
    try apply tbl_ok_refl; [exact HT|].
  intros U R. pose proof (HF U R) as HF'. pose proof (HK U R) as HK'.
  destruct R as (R1&R2&R3&R4&R5&R6&R7).
  unfold refsP, tids, sids, mids, dids in *; cbn [set_dels topics subs msgs dels snaps].
  refine (conj R1 (conj R2 (conj R3 (conj R4 (conj _ (conj _ _)))))).
  - intros d' Hd'. destruct (HF' d' Hd') as [(d&Hd&Es&Em&En)|(Hs&Hm&Hn)].
    + rewrite Es. auto.
    + exact Hs.
  - intros d' Hd'. destruct (HF' d' Hd') as [(d&Hd&Es&Em&En)|(Hs&Hm&Hn)].
    + rewrite Em. auto.
    + exact Hm.
  - intros d' p Hd' Hp. apply (HK' d' p Hd' Hp).
    destruct (HF' d' Hd') as [(d&Hd&Es&Em&[En|En])|(Hs&Hm&Hn)].
    + rewrite En in Hp. eauto.
    + congruence.
    + auto.
Qed.

Definition dkeep (d d' : del) : Prop :=
  d_id d' = d_id d /\ d_sub d' = d_sub d /\ d_msg d' = d_msg d /\ d_not_before d' = d_not_before d.

Lemma dkeep_refl d : dkeep d d.
Proof. repeat split. Qed.

Lemma good_dels_map st f :
  (forall d, dkeep d (f d)) -> good st (set_dels st (map f (dels st))).
Proof.
  intros HK. apply good_dels.
  - intros _ _ [rank Hr]. exists rank. intros d' pd' Hd' Hpd' Hl.
    apply in_map_iff in Hd'. destruct Hd' as [d [<- Hd]].
    apply in_map_iff in Hpd'. destruct Hpd' as [pd [<- Hpd]].
    destruct (HK d) as (A1&A2&A3&A4). destruct (HK pd) as (B1&B2&B3&B4).
    rewrite A4, B1 in Hl. destruct (Hr d pd Hd Hpd Hl) as [Es Er].
    rewrite A1, A2, B1, B2. split; assumption.
  - apply tbl_ok_map. intros r _. apply HK.
  - intros _ _ d' Hd'. apply in_map_iff in Hd'. destruct Hd' as [d [<- Hd]].
    destruct (HK d) as (A&B&C&D). left. exists d. auto.
  - intros _ _ d' p _ _ Hp. unfold dids in Hp.
    rewrite map_key_map; [exact Hp|]. intros r _. apply HK.
Qed.

Lemma good_dels_upd st p f :
  (forall d, dkeep d (f d)) -> good st (set_dels st (upd_where p f (dels st))).
Proof.
  intros HK. unfold upd_where. apply good_dels_map.
  intros d. destruct (p d); [apply HK|apply dkeep_refl].
Qed.

Lemma good_dels_ins st d :
  has_id d_id (d_id d) (dels st) = false ->
  In (d_sub d) (sids st) -> In (d_msg d) (mids st) ->
  (forall p, d_not_before d = Some p -> In p (dids st)) ->
  (ids_unique st -> forall pd, In pd (dels st) -> d_not_before d = Some (d_id pd) -> d_sub pd = d_sub d) ->
  good st (set_dels st (ins d_id d (dels st))).
Proof.
  intros HF Hs Hm Hn Hsub. apply good_dels.
  - intros U R [rank Hr].
    assert (Fresh : forall x, In x (dels st) -> d_id x <> d_id d).
    { intros x Hx E. apply has_id_false in HF. apply HF. rewrite <- E. apply in_map. exact Hx. }
    exists (fun i => if N.eqb i (d_id d) then S (maxrank rank (dels st)) else rank i).
    intros d1 pd1 Hd1 Hpd1 Hl. apply in_ins in Hd1. apply in_ins in Hpd1.
    destruct R as (_&_&_&_&_&_&R7). unfold dids in R7.
    destruct Hd1 as [->|Hd1]; destruct Hpd1 as [->|Hpd1].
    + exfalso. apply Hn in Hl. unfold dids in Hl. apply in_map_iff in Hl. destruct Hl as [x [Ex Hx]].
      exact (Fresh x Hx Ex).
    + split; [apply Hsub; assumption|].
      rewrite N.eqb_refl. destruct (N.eqb (d_id pd1) (d_id d)) eqn:E;
        [apply N.eqb_eq in E; exfalso; exact (Fresh pd1 Hpd1 E)|].
      apply Nat.lt_succ_r. apply maxrank_ge. exact Hpd1.
    + exfalso. apply (R7 d1 (d_id d) Hd1) in Hl. apply in_map_iff in Hl. destruct Hl as [x [Ex Hx]].
      exact (Fresh x Hx Ex).
    + destruct (N.eqb (d_id d1) (d_id d)) eqn:E1; [apply N.eqb_eq in E1; exfalso; exact (Fresh d1 Hd1 E1)|].
      destruct (N.eqb (d_id pd1) (d_id d)) eqn:E2; [apply N.eqb_eq in E2; exfalso; exact (Fresh pd1 Hpd1 E2)|].
      apply Hr; assumption.
  - apply tbl_ok_ins. exact HF.
  - intros _ _ d' Hd'. apply in_ins in Hd'. destruct Hd' as [->|Hd'].
    + right. auto.
    + left. exists d'. auto.
  - intros _ _ d' p _ _ Hp. apply in_map_ins. right. exact Hp.
Qed.

Lemma d_null_link_cases ids d :
  d_null_link ids d = d \/
  (exists p, d_not_before d = Some p /\ In p ids /\
             d_id (d_null_link ids d) = d_id d /\ d_sub (d_null_link ids d) = d_sub d /\
             d_msg (d_null_link ids d) = d_msg d /\ d_not_before (d_null_link ids d) = None).
Proof.
  unfold d_null_link. destruct (d_not_before d) as [p|] eqn:E; [|left; reflexivity].
  destruct (mem_id p ids) eqn:M; [|left; reflexivity].
  right. exists p. cbn. apply mem_id_In in M. repeat split; auto.
Qed.

Lemma d_null_link_id ids d : d_id (d_null_link ids d) = d_id d.
Proof. destruct (d_null_link_cases ids d) as [->|(p&_&_&E&_)]; auto. Qed.

Lemma good_dels_prune st chosen :
  good st (set_dels st (map (d_null_link chosen) (del_ids d_id chosen (dels st)))).
Proof.
  apply good_dels.
  - intros _ _ [rank Hr]. exists rank. intros d' pd' Hd' Hpd' Hl.
    apply in_map_iff in Hd'. destruct Hd' as [d [<- Hd]].
    apply in_map_iff in Hpd'. destruct Hpd' as [pd [<- Hpd]].
    apply in_del_ids in Hd. destruct Hd as [Hd _]. apply in_del_ids in Hpd. destruct Hpd as [Hpd _].
    rewrite !d_null_link_id in *.
    assert (Sd : forall x, d_sub (d_null_link chosen x) = d_sub x).
    { intros x. destruct (d_null_link_cases chosen x) as [->|(p&_&_&_&A&_)]; auto. }
    rewrite !Sd.
    destruct (d_null_link_cases chosen d) as [E|(q&_&_&_&_&_&C)]; [|congruence].
    rewrite E in Hl. apply Hr; assumption.
  - eapply tbl_ok_trans; [apply tbl_ok_del_ids|].
    apply tbl_ok_map. intros r _. apply d_null_link_id.
  - intros _ _ d' Hd'. apply in_map_iff in Hd'. destruct Hd' as [d [<- Hd]].
    apply in_del_ids in Hd. destruct Hd as [Hd _].
    left. exists d. split; [exact Hd|].
    destruct (d_null_link_cases chosen d) as [->|(p&_&_&_&A&B&C)]; auto.
  - intros _ _ d' p Hd' Hp Hi. apply in_map_iff in Hd'. destruct Hd' as [d [<- Hd]].
    rewrite map_key_map by (intros; apply d_null_link_id).
    apply in_map_del_ids. split; [exact Hi|].
    destruct (d_null_link_cases chosen d) as [E|(q&_&_&_&_&_&C)]; [|congruence].
    rewrite E in Hp. unfold d_null_link in E. rewrite Hp in E.
    destruct (mem_id p chosen) eqn:M.
    + exfalso. assert (d_not_before d = None) by (rewrite <- E; reflexivity). congruence.
    + apply mem_id_false in M. exact M.
Qed.

(* ---- subscriptions ---- *)
Definition sub_from (st : state) (s' : sub) : Prop :=
  (exists s, In s (subs st) /\ s_topic s' = s_topic s /\
             forall t, s_dl_topic s' = Some t -> s_dl_topic s = Some t \/ In t (tids st)) \/
  (In (s_topic s') (tids st) /\ forall t, s_dl_topic s' = Some t -> In t (tids st)).

Lemma good_subs st ss' :
  tbl_ok s_id (subs st) ss' ->
  (ids_unique st -> refsP st -> forall s', In s' ss' -> sub_from st s') ->
  (ids_unique st -> refsP st -> forall d, In d (dels st) -> In (d_sub d) (sids st) -> In (d_sub d) (map s_id ss')) ->
  good st (set_subs st ss').
Proof.
  intros HT HF HK. apply good_intro; [reflexivity|..]; cbn [set_subs topics subs msgs dels snaps];
    try apply tbl_ok_refl; [exact HT|].
  intros U R. pose proof (HF U R) as HF'. pose proof (HK U R) as HK'.
  destruct R as (R1&R2&R3&R4&R5&R6&R7).
  unfold refsP, tids, sids, mids, dids in *; cbn [set_subs topics subs msgs dels snaps].
  refine (conj _ (conj _ (conj R3 (conj R4 (conj _ (conj R6 R7)))))).
  - intros s' Hs'. destruct (HF' s' Hs') as [(s&Hs&Et&Ed)|(Ht&Hd)].
    + rewrite Et. auto.
    + exact Ht.
  - intros s' t Hs' Hdl. destruct (HF' s' Hs') as [(s&Hs&Et&Ed)|(Ht&Hd)].
    + destruct (Ed t Hdl); eauto.
    + auto.
  - intros d Hd. auto.
Qed.

Definition skeep (s s' : sub) : Prop :=
  s_id s' = s_id s /\ s_topic s' = s_topic s /\ s_dl_topic s' = s_dl_topic s.

Lemma skeep_refl s : skeep s s.
Proof. repeat split. Qed.

(* rows rewritten in place: same id and topic, dead-letter topic kept or valid *)
Lemma good_subs_map_gen st f :
  (forall s, In s (subs st) -> s_id (f s) = s_id s /\ s_topic (f s) = s_topic s /\
             forall t, s_dl_topic (f s) = Some t -> s_dl_topic s = Some t \/ In t (tids st)) ->
  good st (set_subs st (map f (subs st))).
Proof.
  intros HK. apply good_subs.
  - apply tbl_ok_map. intros r Hr. apply HK. exact Hr.
  - intros _ _ s' Hs'. apply in_map_iff in Hs'. destruct Hs' as [s [<- Hs]].
    destruct (HK s Hs) as (A&B&C). left. exists s. auto.
  - intros _ _ d _ Hi. unfold sids in Hi.
    rewrite map_key_map; [exact Hi|]. intros r Hr. apply HK. exact Hr.
Qed.

Lemma good_subs_map_from st f :
  (forall s, In s (subs st) -> s_id (f s) = s_id s /\ sub_from st (f s)) ->
  good st (set_subs st (map f (subs st))).
Proof.
  intros HK. apply good_subs.
  - apply tbl_ok_map. intros r Hr. apply HK. exact Hr.
  - intros _ _ s' Hs'. apply in_map_iff in Hs'. destruct Hs' as [s [<- Hs]].
    apply HK. exact Hs.
  - intros _ _ d _ Hi. unfold sids in Hi.
    rewrite map_key_map; [exact Hi|]. intros r Hr. apply HK. exact Hr.
Qed.

Lemma good_subs_upd st p f :
  (forall s, skeep s (f s)) -> good st (set_subs st (upd_where p f (subs st))).
Proof.
  intros HK. unfold upd_where. apply good_subs_map_gen. intros s _.
  destruct (p s).
  - destruct (HK s) as (A&B&C). rewrite C. auto.
  - auto.
Qed.

Lemma good_subs_ins st s :
  has_id s_id (s_id s) (subs st) = false ->
  In (s_topic s) (tids st) -> (forall t, s_dl_topic s = Some t -> In t (tids st)) ->
  good st (set_subs st (ins s_id s (subs st))).
Proof.
  intros HF Ht Hd. apply good_subs.
  - apply tbl_ok_ins. exact HF.
  - intros _ _ s' Hs'. apply in_ins in Hs'. destruct Hs' as [->|Hs'].
    + right. auto.
    + left. exists s'. auto.
  - intros _ _ d _ Hi. apply in_map_ins. right. exact Hi.
Qed.

Lemma good_subs_del st chosen :
  (forall d, In d (dels st) -> ~ In (d_sub d) chosen) ->
  good st (set_subs st (del_ids s_id chosen (subs st))).
Proof.
  intros HN. apply good_subs.
  - apply tbl_ok_del_ids.
  - intros _ _ s' Hs'. apply in_del_ids in Hs'. destruct Hs' as [Hs' _].
    left. exists s'. auto.
  - intros _ _ d Hd Hi. apply in_map_del_ids. auto.
Qed.

(* ---- messages ---- *)
Lemma good_msgs st ms' :
  tbl_ok m_id (msgs st) ms' ->
  (ids_unique st -> refsP st -> forall m', In m' ms' ->
     (exists m, In m (msgs st) /\ m_topic m' = m_topic m) \/ In (m_topic m') (tids st)) ->
  (ids_unique st -> refsP st -> forall d, In d (dels st) -> In (d_msg d) (mids st) -> In (d_msg d) (map m_id ms')) ->
  good st (set_msgs st ms').
Proof.
  intros HT HF HK. apply good_intro; [reflexivity|..]; cbn [set_msgs topics subs msgs dels snaps];
    try apply tbl_ok_refl; [exact HT|].
  intros U R. pose proof (HF U R) as HF'. pose proof (HK U R) as HK'.
  destruct R as (R1&R2&R3&R4&R5&R6&R7).
  unfold refsP, tids, sids, mids, dids in *; cbn [set_msgs topics subs msgs dels snaps].
  refine (conj R1 (conj R2 (conj _ (conj R4 (conj R5 (conj _ R7)))))).
  - intros m' Hm'. destruct (HF' m' Hm') as [(m&Hm&Et)|Ht].
    + rewrite Et. auto.
    + exact Ht.
  - intros d Hd. auto.
Qed.

Lemma good_msgs_ins st m :
  has_id m_id (m_id m) (msgs st) = false -> In (m_topic m) (tids st) ->
  good st (set_msgs st (ins m_id m (msgs st))).
Proof.
  intros HF Ht. apply good_msgs.
  - apply tbl_ok_ins. exact HF.
  - intros _ _ m' Hm'. apply in_ins in Hm'. destruct Hm' as [->|Hm'].
    + right. exact Ht.
    + left. exists m'. auto.
  - intros _ _ d _ Hi. apply in_map_ins. right. exact Hi.
Qed.

Lemma good_msgs_del st chosen :
  (forall d, In d (dels st) -> ~ In (d_msg d) chosen) ->
  good st (set_msgs st (del_ids m_id chosen (msgs st))).
Proof.
  intros HN. apply good_msgs.
  - apply tbl_ok_del_ids.
  - intros _ _ m' Hm'. apply in_del_ids in Hm'. destruct Hm' as [Hm' _].
    left. exists m'. auto.
  - intros _ _ d Hd Hi. apply in_map_del_ids. auto.
Qed.

(* ---- snapshots ---- *)
Lemma good_snaps st ns' :
  tbl_ok n_id (snaps st) ns' ->
  (ids_unique st -> refsP st -> forall n', In n' ns' ->
     (exists n, In n (snaps st) /\ n_topic n' = n_topic n) \/ In (n_topic n') (tids st)) ->
  good st (set_snaps st ns').
Proof.
  intros HT HF. apply good_intro; [reflexivity|..]; cbn [set_snaps topics subs msgs dels snaps];
    try apply tbl_ok_refl; [exact HT|].
  intros U R. pose proof (HF U R) as HF'.
  destruct R as (R1&R2&R3&R4&R5&R6&R7).
  unfold refsP, tids, sids, mids, dids in *; cbn [set_snaps topics subs msgs dels snaps].
  refine (conj R1 (conj R2 (conj R3 (conj _ (conj R5 (conj R6 R7)))))).
  intros n' Hn'. destruct (HF' n' Hn') as [(n&Hn&Et)|Ht].
  - rewrite Et. auto.
  - exact Ht.
Qed.

Lemma good_snaps_filter st p : good st (set_snaps st (filter p (snaps st))).
Proof.
  apply good_snaps.
  - apply tbl_ok_filter.
  - intros _ _ n' Hn'. apply filter_In in Hn'. destruct Hn' as [Hn' _]. left. exists n'. auto.
Qed.

Lemma good_snaps_ins st n :
  has_id n_id (n_id n) (snaps st) = false ->
  (ids_unique st -> refsP st -> In (n_topic n) (tids st)) ->
  good st (set_snaps st (ins n_id n (snaps st))).
Proof.
  intros HF Ht. apply good_snaps.
  - apply tbl_ok_ins. exact HF.
  - intros U R n' Hn'. apply in_ins in Hn'. destruct Hn' as [->|Hn'].
    + right. auto.
    + left. exists n'. auto.
Qed.

(* ---- topics ---- *)
Lemma good_topics_incl st ts' :
  tbl_ok t_id (topics st) ts' -> incl (tids st) (map t_id ts') ->
  good st (set_topics st ts').
Proof.
  intros HT HI. apply good_intro; [reflexivity|..]; cbn [set_topics topics subs msgs dels snaps];
    try apply tbl_ok_refl; [exact HT|].
  intros U (R1&R2&R3&R4&R5&R6&R7).
  unfold refsP, tids, sids, mids, dids in *; cbn [set_topics topics subs msgs dels snaps].
  refine (conj _ (conj _ (conj _ (conj _ (conj R5 (conj R6 R7)))))); intros; apply HI; eauto.
Qed.

Lemma good_topics_map st f :
  (forall t, t_id (f t) = t_id t) -> good st (set_topics st (map f (topics st))).
Proof.
  intros HK. apply good_topics_incl.
  - apply tbl_ok_map. intros; apply HK.
  - unfold tids. rewrite map_key_map by (intros; apply HK). apply incl_refl.
Qed.

Lemma good_topics_upd st p f :
  (forall t, t_id (f t) = t_id t) -> good st (set_topics st (upd_where p f (topics st))).
Proof.
  intros HK. unfold upd_where. apply good_topics_map. intros t. destruct (p t); auto.
Qed.

Lemma good_topics_ins st t :
  has_id t_id (t_id t) (topics st) = false -> good st (set_topics st (ins t_id t (topics st))).
Proof.
  intros HF. apply good_topics_incl.
  - apply tbl_ok_ins. exact HF.
  - intros i Hi. apply in_map_ins. right. exact Hi.
Qed.
