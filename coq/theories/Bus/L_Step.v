(* Bus/L_Step.v -- every legal step is a good step; what a step does to the message table;
   error answers. *)
From MB Require Import Base.
From MB.Bus Require Import State Ops Step Defs L_Tables L_Good L_Helpers.
Open Scope list_scope.

Ltac destr_eq x :=
  let T := type of x in
  lazymatch T with
  | prod (prod (prod (prod _ _) _) _) _ => destruct x as [[[[? ?] ?] ?] ?] eqn:?
  | prod (prod (prod _ _) _) _ => destruct x as [[[? ?] ?] ?] eqn:?
  | prod (prod _ _) _ => destruct x as [[? ?] ?] eqn:?
  | prod _ _ => destruct x as [? ?] eqn:?
  | _ => destruct x eqn:?
  end.

Ltac scrut t :=
  lazymatch t with
  | match ?x with _ => _ end =>
      lazymatch x with
      | match _ with _ => _ end => scrut x
      | _ => destr_eq x
      end
  end.

Ltac step_destr :=
  cbv beta match zeta;
  match goal with |- context [r_state ?R] => scrut R end.

Ltac leaf := cbv beta match zeta; cbn [r_notes r_state done fail].

Ltac topic_in :=
  unfold tids; apply in_map; eapply find_live_topic_in; eauto.

Lemma create_sub_good st q fresh wnow :
  r_notes (create_sub st q fresh wnow) = [] -> good st (r_state (create_sub st q fresh wnow)).
Proof.
  unfold create_sub. repeat step_destr; leaf; intros HN; try apply good_refl.
  all: destruct (has_id s_id fresh (subs st)) eqn:HF; [discriminate|];
    apply good_subs_ins; cbn [s_id s_topic s_dl_topic];
    [exact HF | topic_in | intros t' E; inversion E; subst; topic_in].
Qed.

(* ---- UpdateSubscription ---- *)
Definition upd_inv (st : state) (s : sub) (acc : sub * str * bool) : Prop :=
  let '(s', _, _) := acc in
  s_id s' = s_id s /\ s_topic s' = s_topic s /\
  forall t, s_dl_topic s' = Some t -> s_dl_topic s = Some t \/ In t (tids st).

Lemma upd_path_inv st q wnow s acc p acc' :
  upd_inv st s acc -> upd_path st q wnow acc p = inr acc' -> upd_inv st s acc'.
Proof.
  destruct acc as [[s0 dl0] tc0]. unfold upd_inv, upd_path. intros (A&B&C).
  repeat match goal with
         | |- context [if ?b then _ else _] => destruct b eqn:?
         | |- context [match ?x with _ => _ end] => destr_eq x
         end;
    intros H; inversion H; subst; clear H; cbn [s_id s_topic s_dl_topic];
    (split; [exact A|split; [exact B|]]); try exact C; try (intros t' E; discriminate).
  all: intros t' E; inversion E; subst; right; topic_in.
Qed.

Lemma upd_paths_inv st q wnow s : forall ps acc acc',
  upd_inv st s acc -> upd_paths st q wnow acc ps = inr acc' -> upd_inv st s acc'.
Proof.
  induction ps as [|p ps IH]; intros acc acc' HI; cbn [upd_paths].
  - intros H; inversion H; subst. exact HI.
  - destruct (upd_path st q wnow acc p) as [c|acc1] eqn:E; [discriminate|].
    apply IH. eapply upd_path_inv; eauto.
Qed.

Lemma update_sub_good st q paths wnow :
  r_notes (update_sub st q paths wnow) = [] -> good st (r_state (update_sub st q paths wnow)).
Proof.
  unfold update_sub. repeat step_destr; leaf; intros HN; try apply good_refl.
  match goal with H : upd_paths _ _ _ _ _ = inr _ |- _ =>
    apply upd_paths_inv with (s := s) in H; [|cbn; auto] end.
  match goal with H : upd_inv _ _ _ |- _ => destruct H as (A&B&C) end.
  unfold upd_where. apply good_subs_map_from. intros x Hx.
  destruct (N.eqb (s_id x) (s_id s)) eqn:E.
  - apply N.eqb_eq in E. split; [congruence|].
    left. exists s. split; [eapply find_live_sub_in; eauto|]. auto.
  - split; [reflexivity|]. left. exists x. auto.
Qed.

(* ---- background jobs ---- *)
Lemma choice_legal_incl matching chosen max :
  choice_legal matching chosen max = true -> forall i, In i chosen -> In i matching.
Proof.
  unfold choice_legal. intros H. apply andb_true_iff in H. destruct H as [H _].
  apply andb_true_iff in H. destruct H as [_ H]. apply forallb_mem_incl. exact H.
Qed.

Lemma existsb_false_forall {A} (f : A -> bool) l x : existsb f l = false -> In x l -> f x = false.
Proof.
  intros H Hx. destruct (f x) eqn:E; [|reflexivity].
  assert (existsb f l = true) by (apply existsb_exists; eauto). congruence.
Qed.

Lemma prune_topics_good st chosen now min_age :
  (forall i, In i chosen -> In i (job_matches st JPruneDeletedTopics now min_age)) ->
  existsb (topic_has_messages st) chosen = false ->
  good st
    (set_snaps
       (set_topics
          (set_subs st
             (map (fun s => match s_dl_topic s with
                            | Some t => if mem_id t chosen
                                        then mkSub (s_id s) (s_name s) (s_topic s) (s_deleted s)
                                               (s_expires s) (s_ttl s) (s_msg_ttl s) (s_ordered s)
                                               (s_filter s) (s_minb s) (s_maxb s) (s_max_attempts s)
                                               None (s_delay s) (s_push s) (s_labels s)
                                        else s
                            | None => s
                            end) (subs st)))
          (del_ids t_id chosen (topics st)))
       (filter (fun n => negb (mem_id (n_topic n) chosen)) (snaps st))).
Proof.
  intros HC HM.
  set (g := fun s : sub => match s_dl_topic s with Some t => if mem_id t chosen then _ else s | None => s end).
  assert (Gid : forall s, s_id (g s) = s_id s).
  { intros s. unfold g. destruct (s_dl_topic s) as [t|]; [|reflexivity].
    destruct (mem_id t chosen); reflexivity. }
  assert (Gtopic : forall s, s_topic (g s) = s_topic s).
  { intros s. unfold g. destruct (s_dl_topic s) as [t|]; [|reflexivity].
    destruct (mem_id t chosen); reflexivity. }
  assert (Gdl : forall s t, s_dl_topic (g s) = Some t -> s_dl_topic s = Some t /\ ~ In t chosen).
  { intros s t. unfold g. destruct (s_dl_topic s) as [t0|] eqn:E; [|intros H; congruence].
    destruct (mem_id t0 chosen) eqn:M; cbn [s_dl_topic]; [discriminate|].
    rewrite E. intros H; inversion H; subst. split; [reflexivity|]. apply mem_id_false. exact M. }
  apply good_intro; [reflexivity|..]; cbn [set_snaps set_topics set_subs topics subs msgs dels snaps];
    try apply tbl_ok_refl.
  - apply tbl_ok_del_ids.
  - apply tbl_ok_map. intros; apply Gid.
  - apply tbl_ok_filter.
  - intros U (R1&R2&R3&R4&R5&R6&R7).
    assert (NoSub : forall s, In s (subs st) -> ~ In (s_topic s) chosen).
    { intros s Hs Hi. apply HC in Hi. cbn [job_matches] in Hi.
      apply in_map_iff in Hi. destruct Hi as [t [Et Ht]]. apply filter_In in Ht.
      destruct Ht as [Ht P]. destruct (t_deleted t); [|discriminate].
      apply andb_true_iff in P. destruct P as [P _].
      apply andb_true_iff in P. destruct P as [_ P]. apply negb_true_iff in P.
      eapply existsb_false_forall in P; [|exact Hs]. cbn in P.
      rewrite Et in P. rewrite N.eqb_refl in P. discriminate. }
    assert (NoMsg : forall m, In m (msgs st) -> ~ In (m_topic m) chosen).
    { intros m Hm Hi. eapply existsb_false_forall in HM; [|exact Hi].
      unfold topic_has_messages in HM. eapply existsb_false_forall in HM; [|exact Hm].
      cbn in HM. rewrite N.eqb_refl in HM. discriminate. }
    unfold refsP, tids, sids, mids, dids in *;
      cbn [set_snaps set_topics set_subs topics subs msgs dels snaps].
    refine (conj _ (conj _ (conj _ (conj _ (conj _ (conj R6 R7)))))).
    + intros s' Hs'. apply in_map_iff in Hs'. destruct Hs' as [s [<- Hs]].
      rewrite Gtopic. apply in_map_del_ids. auto.
    + intros s' t Hs' Hd. apply in_map_iff in Hs'. destruct Hs' as [s [<- Hs]].
      apply Gdl in Hd. destruct Hd as [Hd Hn]. apply in_map_del_ids. eauto.
    + intros m Hm. apply in_map_del_ids. auto.
    + intros n Hn. apply filter_In in Hn. destruct Hn as [Hn P].
      apply negb_true_iff in P. apply mem_id_false in P. apply in_map_del_ids. auto.
    + intros d Hd. rewrite map_key_map by (intros; apply Gid). auto.
Qed.

Lemma run_job_good st now j min_age max chosen failed wnow fr :
  r_notes (run_job st now j min_age max chosen failed wnow fr) = [] ->
  good st (r_state (run_job st now j min_age max chosen failed wnow fr)).
Proof.
  unfold run_job. destruct failed.
  { destruct j; leaf; intros; apply good_refl. }
  destruct j; cbv beta match zeta.
  - leaf. intros _. apply good_dels_prune.
  - leaf. intros _. apply good_dels_prune.
  - leaf. destruct (choice_legal _ chosen max) eqn:CL; [|discriminate]. intros _.
    apply good_msgs_del. intros d Hd Hi.
    eapply choice_legal_incl in Hi; [|exact CL]. cbn [job_matches] in Hi.
    apply in_map_iff in Hi. destruct Hi as [m [Em Hm]]. apply filter_In in Hm.
    destruct Hm as [Hm P]. apply andb_true_iff in P. destruct P as [_ P].
    apply negb_true_iff in P. eapply existsb_false_forall in P; [|exact Hd]. cbn in P.
    rewrite Em in P. rewrite N.eqb_refl in P. discriminate.
  - leaf. intros _. apply good_dels_prune.
  - leaf. destruct (choice_legal _ chosen max) eqn:CL; [|discriminate]. intros _.
    apply good_subs_del. intros d Hd Hi.
    eapply choice_legal_incl in Hi; [|exact CL]. cbn [job_matches] in Hi.
    apply in_map_iff in Hi. destruct Hi as [s [Es Hs]]. apply filter_In in Hs.
    destruct Hs as [Hs P]. destruct (s_deleted s); [|discriminate].
    apply andb_true_iff in P. destruct P as [_ P].
    apply negb_true_iff in P. eapply existsb_false_forall in P; [|exact Hd]. cbn in P.
    rewrite Es in P. rewrite N.eqb_refl in P. discriminate.
  - destruct (existsb (topic_has_messages st) chosen) eqn:HM; leaf; [discriminate|].
    destruct (choice_legal _ chosen max) eqn:CL; [|discriminate]. intros _.
    eapply prune_topics_good; [|exact HM]. apply (choice_legal_incl _ _ _ CL).
  - leaf. intros _. apply good_subs_upd. intros; apply skeep_deleted.
  - destruct (sweep_each st chosen wnow fr) as [[[st1 fr1] w] n] eqn:E.
    leaf. intros HN. apply app_eq_nil in HN. destruct HN as [_ HN].
    apply app_eq_nil in HN. destruct HN as [-> _].
    apply sweep_each_res in E. apply E. reflexivity.
Qed.

(* ---- the master lemma ---- *)
Ltac use_res :=
  match goal with
  | H : do_delay _ _ _ _ = _ |- _ => apply do_delay_res in H; destruct H as [_ H]; exact H
  | H : do_ack _ _ _ = _ |- _ => apply do_ack_res in H; destruct H as [_ H]; exact H
  | H : seek_time _ _ _ _ _ = _ |- _ => apply seek_time_res in H; destruct H as [_ H]; exact H
  | H : seek_snap _ _ _ _ _ = _ |- _ => apply seek_snap_res in H; destruct H as [_ H]; exact H
  end.

Lemma step_good st now o : legal st now o -> good st (post st now o).
Proof.
  unfold legal, post. destruct o; unfold step.
  - (* CreateTopic *)
    repeat step_destr; leaf; intros HN; try apply good_refl.
    destruct (has_id t_id fresh (topics st)) eqn:HF; [discriminate|].
    apply good_topics_ins. exact HF.
  - (* GetTopic *) repeat step_destr; leaf; intros HN; apply good_refl.
  - (* UpdateTopic *)
    repeat step_destr; leaf; intros HN; try apply good_refl.
    apply good_topics_upd. intros; reflexivity.
  - (* DeleteTopic *)
    repeat step_destr; leaf; intros HN; try apply good_refl.
    match goal with |- good st (set_snaps ?s1 (filter ?p _)) =>
      apply (good_trans st s1);
        [apply good_topics_upd; intros; reflexivity|exact (good_snaps_filter s1 p)] end.
  - (* ListTopics *) repeat step_destr; leaf; intros HN; apply good_refl.
  - (* ListTopicSubs *) repeat step_destr; leaf; intros HN; apply good_refl.
  - (* Publish *)
    repeat step_destr; leaf; intros HN; try apply good_refl.
    apply app_eq_nil in HN. destruct HN as [-> _].
    match goal with H : publish_all _ _ _ _ = Some _ |- _ =>
      apply publish_all_res in H; destruct H as [_ H]; apply H; [|reflexivity] end.
    eapply find_live_topic_in; eauto.
  - (* CreateSub *) apply create_sub_good.
  - (* GetSub *) repeat step_destr; leaf; intros HN; apply good_refl.
  - (* UpdateSub *) apply update_sub_good.
  - (* ListSubs *) repeat step_destr; leaf; intros HN; apply good_refl.
  - (* DeleteSub *)
    repeat step_destr; leaf; intros HN; try apply good_refl.
    apply good_subs_upd. intros; apply skeep_deleted.
  - (* ModAck *) repeat step_destr; leaf; intros HN; try apply good_refl. use_res.
  - (* Ack *) repeat step_destr; leaf; intros HN; try apply good_refl. use_res.
  - (* Pull *)
    repeat step_destr; leaf; intros HN; try apply good_refl.
    apply app_eq_nil in HN. destruct HN as [_ HN].
    apply app_eq_nil in HN. destruct HN as [-> _].
    match goal with H : apply_results _ _ _ _ _ _ _ _ _ _ _ = _ |- _ =>
      apply apply_results_res in H; destruct H as [_ H] end.
    eapply good_trans; [|eauto].
    apply good_subs_upd. intros; apply skeep_expires.
  - (* SeekTime *) repeat step_destr; leaf; intros HN; try apply good_refl. use_res.
  - (* SeekSnap *) repeat step_destr; leaf; intros HN; try apply good_refl. use_res.
  - (* SeekNoTarget *) repeat step_destr; leaf; intros HN; apply good_refl.
  - (* ModifyPush *)
    repeat step_destr; leaf; intros HN; try apply good_refl.
    apply good_subs_upd. intros; repeat split.
  - (* CreateSnap *)
    repeat step_destr; leaf; intros HN; try apply good_refl.
    all: destruct (has_id n_id fresh (snaps st)) eqn:HF; [discriminate|];
      apply good_snaps_ins; cbn [n_id n_topic]; [exact HF|];
      intros _ (R1&_); apply R1; eapply find_live_sub_in; eauto.
  - (* GetSnap *) repeat step_destr; leaf; intros HN; apply good_refl.
  - (* ListSnaps *) repeat step_destr; leaf; intros HN; apply good_refl.
  - (* DeleteSnap *)
    repeat step_destr; leaf; intros HN; try apply good_refl.
    apply good_snaps_filter.
  - (* StreamAckNack *)
    repeat step_destr; leaf; intros HN.
    apply app_eq_nil in HN. destruct HN as [-> _].
    match goal with H : do_ack _ _ _ = _ |- _ => apply do_ack_res in H; destruct H as [_ H] end.
    match goal with H : do_nack _ _ _ _ _ _ = _ |- _ => apply do_nack_res in H; destruct H as [_ H] end.
    eapply good_trans; eauto.
  - (* SetDelay *)
    repeat step_destr; leaf; intros HN; try apply good_refl.
    apply good_subs_upd. intros; repeat split.
  - (* Job *) apply run_job_good.
Qed.

(* ---- the message table ---- *)
Ltac msgs_res :=
  repeat match goal with
  | H : do_delay _ _ _ _ = _ |- _ => apply do_delay_res in H; destruct H as [(_&_&H&_) _]
  | H : do_ack _ _ _ = _ |- _ => apply do_ack_res in H; destruct H as [(_&_&H&_) _]
  | H : seek_time _ _ _ _ _ = _ |- _ => apply seek_time_res in H; destruct H as [(_&_&H&_) _]
  | H : seek_snap _ _ _ _ _ = _ |- _ => apply seek_snap_res in H; destruct H as [(_&_&H&_) _]
  | H : do_nack _ _ _ _ _ _ = _ |- _ => apply do_nack_res in H; destruct H as [(_&_&H&_) _]
  | H : apply_results _ _ _ _ _ _ _ _ _ _ _ = _ |- _ =>
      apply apply_results_res in H; destruct H as [(_&_&H&_) _]
  | H : sweep_each _ _ _ _ = _ |- _ => apply sweep_each_res in H; destruct H as [(_&_&H&_) _]
  end.

Ltac mleaf :=
  cbv beta match zeta;
  cbn [r_state done fail set_topics set_subs set_dels set_snaps set_msgs msgs].

Lemma step_msgs_same st now o :
  match o with
  | Publish _ _ _ => False
  | Job JPruneCompletedMessages _ _ _ _ _ _ => False
  | _ => True
  end -> msgs (post st now o) = msgs st.
Proof.
  unfold post. destruct o; intros HO; try contradiction;
    unfold step, create_sub, update_sub, run_job.
  all: try (repeat step_destr; mleaf; try contradiction; try reflexivity; msgs_res;
            cbn [set_subs msgs] in *; congruence).
Qed.

Lemma publish_msgs_incl st now t ms fr : incl (msgs st) (msgs (post st now (Publish t ms fr))).
Proof.
  unfold post, step. repeat step_destr; mleaf; try apply incl_refl.
  match goal with H : publish_all _ _ _ _ = Some _ |- _ =>
    apply publish_all_res in H; destruct H as [(_&_&_&H) _]; exact H end.
Qed.

Lemma step_msgs_new st now o m :
  In m (msgs (post st now o)) -> In m (msgs st) \/ exists t ms fr, o = Publish t ms fr.
Proof.
  destruct o; try (rewrite step_msgs_same by exact I; auto).
  - intros _. right. eauto.
  - destruct j; try (rewrite step_msgs_same by exact I; auto).
    unfold post, step, run_job. destruct failed; mleaf; auto.
    intros H. apply in_del_ids in H. left. apply H.
Qed.

Lemma step_msgs_immutable st now o m :
  legal st now o -> In m (msgs st) ->
  In m (msgs (post st now o)) \/
  (exists mn mx ch f w fr, o = Job JPruneCompletedMessages mn mx ch f w fr /\
                           forall d, In d (dels st) -> d_msg d <> m_id m).
Proof.
  intros HL Hm.
  destruct o; try (left; rewrite step_msgs_same by exact I; exact Hm).
  - left. apply publish_msgs_incl. exact Hm.
  - destruct j; try (left; rewrite step_msgs_same by exact I; exact Hm).
    unfold legal, post, step, run_job in *. destruct failed.
    { left. mleaf. exact Hm. }
    revert HL. mleaf. cbn [r_notes done]. intros HL.
    destruct (choice_legal _ chosen max) eqn:CL; [|discriminate].
    destruct (mem_id (m_id m) chosen) eqn:M.
    + right. do 6 eexists. split; [reflexivity|].
      apply mem_id_In in M. eapply choice_legal_incl in M; [|exact CL].
      cbn [job_matches] in M. apply in_map_iff in M. destruct M as [m' [Em Hm']].
      apply filter_In in Hm'. destruct Hm' as [_ P].
      apply andb_true_iff in P. destruct P as [_ P]. apply negb_true_iff in P.
      intros d Hd Hc. eapply existsb_false_forall in P; [|exact Hd]. cbn in P.
      rewrite Hc, Em, N.eqb_refl in P. discriminate.
    + left. apply in_del_ids. split; [exact Hm|]. apply mem_id_false. exact M.
Qed.

(* ---- error answers ---- *)
Lemma step_error st now o c :
  r_resp (step st now o) = RErr c -> r_state (step st now o) = st /\ r_wakes (step st now o) = [].
Proof.
  destruct o; unfold step, create_sub, update_sub, run_job.
  all: repeat step_destr; cbv beta match zeta; cbn [r_resp r_state r_wakes done fail];
    intros H; try discriminate; split; reflexivity.
Qed.
