(* Bus/L_Helpers.v -- what the helper transactions of Ops.v do to the tables:
   [same_others] (only deliveries change) and [good] when no complaint is raised. *)
From MB Require Import Base.
From MB.Bus Require Import State Ops Step Defs L_Tables L_Good.
Open Scope list_scope.

Lemma dkeep_completed t d : dkeep d (d_set_completed t d).
Proof. repeat split. Qed.
Lemma dkeep_attempt_at t d : dkeep d (d_set_attempt_at t d).
Proof. repeat split. Qed.
Lemma dkeep_lease a b d : dkeep d (d_lease a b d).
Proof. repeat split. Qed.
Lemma dkeep_revive a b d : dkeep d (d_revive a b d).
Proof. repeat split. Qed.
Lemma skeep_expires t s : skeep s (s_set_expires t s).
Proof. repeat split. Qed.
Lemma skeep_deleted t s : skeep s (s_set_deleted t s).
Proof. repeat split. Qed.

Lemma last_delivery_in st s m now d : last_delivery st s m now = Some d -> In d (dels st).
Proof.
  unfold last_delivery. intros H.
  apply (fold_best_in (fun b d => (d_published b <? d_published d)%Z)) in H.
  destruct H as [H|H]; [|discriminate].
  apply filter_In in H. apply H.
Qed.

Lemma last_delivery_sub st s m now d : last_delivery st s m now = Some d -> d_sub d = s_id s.
Proof.
  unfold last_delivery. intros H.
  apply (fold_best_in (fun b d => (d_published b <? d_published d)%Z)) in H.
  destruct H as [H|H]; [|discriminate].
  apply filter_In in H. destruct H as [_ H].
  apply andb_true_iff in H. destruct H as [H _]. apply andb_true_iff in H. destruct H as [H _].
  apply N.eqb_eq in H. exact H.
Qed.

Lemma get_msg_in st i m : get_msg st i = Some m -> In m (msgs st) /\ m_id m = i.
Proof. apply find_id_some. Qed.
Lemma get_sub_in st i s : get_sub st i = Some s -> In s (subs st) /\ s_id s = i.
Proof. apply find_id_some. Qed.
Lemma get_del_in st i d : get_del st i = Some d -> In d (dels st) /\ d_id d = i.
Proof. apply find_id_some. Qed.
Lemma get_topic_in st i t : get_topic st i = Some t -> In t (topics st) /\ t_id t = i.
Proof. apply find_id_some. Qed.

Lemma find_live_topic_in st name t : find_live_topic st name = Some t -> In t (topics st).
Proof. unfold find_live_topic. intros H. apply find_some in H. apply H. Qed.
Lemma find_live_sub_in st name s : find_live_sub st name = Some s -> In s (subs st).
Proof. unfold find_live_sub. intros H. apply find_some in H. apply H. Qed.
Lemma find_snap_in st name n : find_snap st name = Some n -> In n (snaps st).
Proof. unfold find_snap. intros H. apply find_some in H. apply H. Qed.

Lemma live_subs_of_in st tid s : In s (live_subs_of st tid) -> In s (subs st).
Proof. unfold live_subs_of. intros H. apply filter_In in H. apply H. Qed.

(* ---- deliver_to_sub / deliver_to_subs ---- *)
Lemma deliver_to_sub_res st s m now fr st' fr' w n :
  deliver_to_sub st s m now fr = (st', fr', w, n) ->
  same_others st st' /\ (In s (subs st) -> In m (msgs st) -> n = [] -> good st st').
Proof.
  unfold deliver_to_sub.
  destruct (negb (filter_accepts (s_filter s) (m_attrs m))).
  { intros H; inversion H; subst. split; [apply same_others_refl|intros; apply good_refl]. }
  destruct (take_fresh (m_id m) (s_id s) fr) as [[i|] fr1].
  - intros H; inversion H; subst; clear H. split; [repeat split|].
    intros Hs Hm Hn.
    destruct (has_id d_id i (dels st)) eqn:HF; [discriminate|].
    apply good_dels_ins; cbn [d_id d_sub d_msg d_not_before].
    + exact HF.
    + unfold sids. apply in_map. exact Hs.
    + unfold mids. apply in_map. exact Hm.
    + intros p Hp.
      destruct (s_ordered s && match m_key m with Some k => negb (String.eqb k "") | None => false end);
        [|discriminate].
      destruct (last_delivery st s m now) as [ld|] eqn:LD; [|discriminate].
      cbn in Hp. inversion Hp; subst. unfold dids. apply in_map.
      eapply last_delivery_in; eauto.
    + intros U pd Hpd Hl.
      destruct (s_ordered s && match m_key m with Some k => negb (String.eqb k "") | None => false end);
        [|discriminate].
      destruct (last_delivery st s m now) as [ld|] eqn:LD; [|discriminate].
      cbn in Hl. inversion Hl as [E].
      assert (pd = ld).
      { destruct U as (_&_&_&UD&_).
        pose proof (find_id_in_nodup d_id pd (dels st) UD Hpd) as F1.
        pose proof (find_id_in_nodup d_id ld (dels st) UD (last_delivery_in _ _ _ _ _ LD)) as F2.
        rewrite <- E in F1. congruence. }
      subst pd. eapply last_delivery_sub; eauto.
  - intros H; inversion H; subst; clear H. split; [apply same_others_refl|discriminate].
Qed.

Lemma deliver_to_subs_res m now : forall ss st fr st' fr' w n,
  deliver_to_subs st ss m now fr = (st', fr', w, n) ->
  same_others st st' /\
  ((forall s, In s ss -> In s (subs st)) -> In m (msgs st) -> n = [] -> good st st').
Proof.
  induction ss as [|s ss IH]; intros st fr st' fr' w n; cbn [deliver_to_subs].
  - intros H; inversion H; subst. split; [apply same_others_refl|intros; apply good_refl].
  - destruct (deliver_to_sub st s m now fr) as [[[st1 fr1] w1] n1] eqn:E1.
    destruct (deliver_to_subs st1 ss m now fr1) as [[[st2 fr2] w2] n2] eqn:E2.
    intros H; inversion H; subst; clear H.
    apply deliver_to_sub_res in E1. apply IH in E2.
    destruct E1 as [O1 G1], E2 as [O2 G2].
    split; [eapply same_others_trans; eauto|].
    intros Hss Hm Hn. apply app_eq_nil in Hn. destruct Hn as [-> ->].
    destruct O1 as (Ot&Os&Om&On).
    eapply good_trans.
    + apply G1; auto. apply Hss. left; reflexivity.
    + apply G2; auto.
      * intros s' Hs'. rewrite Os. apply Hss. right; exact Hs'.
      * rewrite Om. exact Hm.
Qed.

(* ---- dead_letter ---- *)
Definition dl_deliver (st : state) (d : del) (dlt : id) (now : time) (fr : fresh_dels)
  : state * fresh_dels * list id * notes :=
  match get_topic st dlt with
  | Some t =>
      if topic_live t then
        match live_subs_of st dlt, get_msg st (d_msg d) with
        | [], _ => (st, fr, [], [])
        | ss, Some m => deliver_to_subs st ss m now fr
        | _, None => (st, fr, [], ["dead-letter-message-missing"%string])
        end
      else (st, fr, [], [])
  | None => (st, fr, [], [])
  end.

Lemma dead_letter_eq st d dlt now fr :
  dead_letter st d dlt now fr =
  let '(st1, fr1, w1, n1) := dl_deliver st d dlt now fr in
  (set_dels st1 (upd_where (fun x => N.eqb (d_id x) (d_id d)) (d_set_completed now) (dels st1)),
   fr1, w1 ++ [d_sub d], n1).
Proof. reflexivity. Qed.

Lemma dl_deliver_res st d dlt now fr st' fr' w n :
  dl_deliver st d dlt now fr = (st', fr', w, n) ->
  same_others st st' /\ (n = [] -> good st st').
Proof.
  unfold dl_deliver.
  assert (Triv : forall w0 n0, (st, fr, w0, n0) = (st', fr', w, n) ->
                 same_others st st' /\ (n = [] -> good st st')).
  { intros w0 n0 H; inversion H; subst. split; [apply same_others_refl|intros; apply good_refl]. }
  destruct (get_topic st dlt) as [t|]; [|apply Triv].
  destruct (topic_live t); [|apply Triv].
  destruct (live_subs_of st dlt) as [|s ss] eqn:L; [apply Triv|].
  destruct (get_msg st (d_msg d)) as [m|] eqn:GM; [|apply Triv].
  intros H. apply deliver_to_subs_res in H. destruct H as [O G]. split; [exact O|].
  intros Hn. apply G; auto.
  - intros s' Hs'. rewrite <- L in Hs'. eapply live_subs_of_in; eauto.
  - apply get_msg_in in GM. apply GM.
Qed.

Lemma dead_letter_res st d dlt now fr st' fr' w n :
  dead_letter st d dlt now fr = (st', fr', w, n) ->
  same_others st st' /\ (n = [] -> good st st').
Proof.
  rewrite dead_letter_eq.
  destruct (dl_deliver st d dlt now fr) as [[[st1 fr1] w1] n1] eqn:E.
  intros H; inversion H; subst; clear H.
  apply dl_deliver_res in E. destruct E as [O G].
  split.
  - eapply same_others_trans; [exact O|apply same_others_set_dels].
  - intros Hn. eapply good_trans; [apply G; exact Hn|].
    apply good_dels_upd. intros; apply dkeep_completed.
Qed.

Lemma opt_dead_letter_res st d (o : option id) now fr st' fr' w n :
  match o with
  | Some dlt => dead_letter st d dlt now fr
  | None => (st, fr, [], [])
  end = (st', fr', w, n) ->
  same_others st st' /\ (n = [] -> good st st').
Proof.
  destruct o as [dlt|]; [apply dead_letter_res|].
  intros H; inversion H; subst. split; [apply same_others_refl|intros; apply good_refl].
Qed.

(* ---- publish ---- *)
Definition pub_others (st st' : state) : Prop :=
  topics st' = topics st /\ subs st' = subs st /\ snaps st' = snaps st /\
  incl (msgs st) (msgs st').

Lemma pub_others_refl st : pub_others st st.
Proof. repeat split. apply incl_refl. Qed.

Lemma pub_others_trans st1 st2 st3 : pub_others st1 st2 -> pub_others st2 st3 -> pub_others st1 st3.
Proof.
  intros (A&B&C&D) (E&F&G&H). repeat split; try congruence. eapply incl_tran; eauto.
Qed.

Lemma publish_one_res st t p fr st' fr' w n :
  publish_one st t p fr = (st', fr', w, n) ->
  pub_others st st' /\ (In t (topics st) -> n = [] -> good st st').
Proof.
  unfold publish_one.
  match goal with |- context [deliver_to_subs ?a ?b ?c ?d ?e] =>
    destruct (deliver_to_subs a b c d e) as [[[st2 fr2] w2] n2] eqn:E end.
  intros H; inversion H; subst; clear H.
  apply deliver_to_subs_res in E. destruct E as [(Ot&Os&Om&On) G].
  cbn [set_msgs topics subs msgs dels snaps] in Ot, Os, Om, On.
  split.
  - repeat split; auto. rewrite Om. intros x Hx. apply in_ins. right; exact Hx.
  - intros Ht Hn. apply app_eq_nil in Hn. destruct Hn as [Hn0 ->].
    destruct (has_id m_id (pm_id p) (msgs st)) eqn:HF; [discriminate|].
    eapply good_trans;
      [|apply G; auto;
        [intros s Hs; apply live_subs_of_in in Hs; exact Hs
        |cbn [set_msgs msgs]; apply in_ins; left; reflexivity]].
    apply good_msgs_ins; cbn [m_id m_topic]; [exact HF|].
    unfold tids. apply in_map. exact Ht.
Qed.

Lemma publish_all_res t : forall ps st fr st' fr' w n,
  publish_all st t ps fr = Some (st', fr', w, n) ->
  pub_others st st' /\ (In t (topics st) -> n = [] -> good st st').
Proof.
  induction ps as [|p ps IH]; intros st fr st' fr' w n; cbn [publish_all].
  - intros H; inversion H; subst. split; [apply pub_others_refl|intros; apply good_refl].
  - destruct (negb (pm_valid p)); [discriminate|].
    destruct (publish_one st t p fr) as [[[st1 fr1] w1] n1] eqn:E1.
    destruct (publish_all st1 t ps fr1) as [[[[st2 fr2] w2] n2]|] eqn:E2; [|discriminate].
    intros H; inversion H; subst; clear H.
    apply publish_one_res in E1. apply IH in E2.
    destruct E1 as [O1 G1], E2 as [O2 G2].
    split; [eapply pub_others_trans; eauto|].
    intros Ht Hn. apply app_eq_nil in Hn. destruct Hn as [-> ->].
    eapply good_trans; [apply G1; auto|apply G2; auto].
    destruct O1 as (Ot&_). rewrite Ot. exact Ht.
Qed.

(* ---- ack / delay / seek ---- *)
Lemma do_ack_res st ids wnow st' w :
  do_ack st ids wnow = (st', w) -> same_others st st' /\ good st st'.
Proof.
  unfold do_ack. intros H; inversion H; subst; clear H.
  split; [apply same_others_set_dels|apply good_dels_upd; intros; apply dkeep_completed].
Qed.

Lemma do_delay_res st ids delay wnow st' w :
  do_delay st ids delay wnow = (st', w) -> same_others st st' /\ good st st'.
Proof.
  unfold do_delay. destruct (delay <=? 0)%Z; intros H; inversion H; subst; clear H;
    (split; [apply same_others_set_dels|apply good_dels_upd; intros; apply dkeep_attempt_at]).
Qed.

Lemma good_dels_upd_after st ds p f :
  (forall d, dkeep d (f d)) -> good st (set_dels st ds) -> good st (set_dels st (upd_where p f ds)).
Proof.
  intros HK G. eapply good_trans; [exact G|].
  exact (good_dels_upd (set_dels st ds) p f HK).
Qed.

Lemma seek_time_res st s target now wnow st' w :
  seek_time st s target now wnow = (st', w) -> same_others st st' /\ good st st'.
Proof.
  unfold seek_time. intros H; inversion H; subst; clear H.
  split; [apply same_others_set_dels|].
  apply good_dels_upd_after; [intros; apply dkeep_revive|].
  apply good_dels_upd. intros; apply dkeep_completed.
Qed.

Lemma seek_snap_res st s n now wnow st' w :
  seek_snap st s n now wnow = (st', w) -> same_others st st' /\ good st st'.
Proof.
  unfold seek_snap. intros H; inversion H; subst; clear H.
  split; [apply same_others_set_dels|].
  apply good_dels_upd_after; [intros; apply dkeep_revive|].
  destruct (n_acked n).
  - apply good_dels_upd. intros; apply dkeep_completed.
  - apply good_dels_upd_after; [intros; apply dkeep_completed|].
    apply good_dels_upd. intros; apply dkeep_completed.
Qed.

(* ---- nack ---- *)
Definition dl_opt (st : state) (d : del) (o : option id) (now : time) (fr : fresh_dels)
  : state * fresh_dels * list id * notes :=
  match o with
  | Some dlt => dead_letter st d dlt now fr
  | None => (st, fr, [], [])
  end.

Lemma dl_opt_res st d o now fr st' fr' w n :
  dl_opt st d o now fr = (st', fr', w, n) -> same_others st st' /\ (n = [] -> good st st').
Proof. apply opt_dead_letter_res. Qed.

Definition nack_one (st : state) (s : sub) (d : del) (wnow : time) (fz : fuzzes) (fr : fresh_dels)
  : state * fresh_dels * list id * notes :=
  if full_dl s && (max_attempts_of s <=? d_attempts d)%Z then dl_opt st d (s_dl_topic s) wnow fr
  else
    let nom := nominal_delay (s_minb s) (s_maxb s) (d_attempts d) in
    let f := fuzz_of (d_id d) fz in
    (set_dels st (upd_where (fun x => N.eqb (d_id x) (d_id d))
                            (d_set_attempt_at (wnow + nom + f)%Z) (dels st)),
     fr, [], if fuzz_legal nom f then [] else ["illegal-fuzz"%string]).

Lemma nack_each_cons st d r now wnow fz fr :
  nack_each st (d :: r) now wnow fz fr =
  match get_sub st (d_sub d) with
  | None => (st, fr, [], ["nack-subscription-missing"%string])
  | Some s =>
      let '(st1, fr1, w1, n1) := nack_one st s d wnow fz fr in
      let '(st2, fr2, w2, n2) := nack_each st1 r now wnow fz fr1 in
      (st2, fr2, w1 ++ w2, n1 ++ n2)
  end.
Proof. reflexivity. Qed.

Lemma nack_one_res st s d wnow fz fr st' fr' w n :
  nack_one st s d wnow fz fr = (st', fr', w, n) -> same_others st st' /\ (n = [] -> good st st').
Proof.
  unfold nack_one. destruct (full_dl s && (max_attempts_of s <=? d_attempts d)%Z).
  - apply dl_opt_res.
  - intros H; inversion H; subst; clear H. split; [apply same_others_set_dels|].
    intros _. apply good_dels_upd. intros; apply dkeep_attempt_at.
Qed.

Lemma nack_each_res now wnow fz : forall ds st fr st' fr' w n,
  nack_each st ds now wnow fz fr = (st', fr', w, n) ->
  same_others st st' /\ (n = [] -> good st st').
Proof.
  induction ds as [|d ds IH]; intros st fr st' fr' w n.
  - cbn [nack_each]. intros H; inversion H; subst.
    split; [apply same_others_refl|intros; apply good_refl].
  - rewrite nack_each_cons.
    destruct (get_sub st (d_sub d)) as [s|].
    2:{ intros H; inversion H; subst. split; [apply same_others_refl|discriminate]. }
    destruct (nack_one st s d wnow fz fr) as [[[st1 fr1] w1] n1] eqn:E1.
    destruct (nack_each st1 ds now wnow fz fr1) as [[[st2 fr2] w2] n2] eqn:E2.
    intros H; inversion H; subst; clear H.
    apply IH in E2. destruct E2 as [O2 G2].
    apply nack_one_res in E1. destruct E1 as [O1 G1].
    split; [eapply same_others_trans; eauto|].
    intros Hn. apply app_eq_nil in Hn. destruct Hn as [-> ->].
    eapply good_trans; eauto.
Qed.

Lemma do_nack_res st ids now wnow fz fr st' fr' w n :
  do_nack st ids now wnow fz fr = (st', fr', w, n) ->
  same_others st st' /\ (n = [] -> good st st').
Proof. unfold do_nack. apply nack_each_res. Qed.

(* ---- pull ---- *)
Lemma apply_results_cons st s d r first strict bytes maxb now wnow fz fr :
  apply_results st s (d :: r) first strict bytes maxb now wnow fz fr =
  match get_msg st (d_msg d) with
  | None => (st, fr, [], [], ["pull-message-missing"%string])
  | Some m =>
      if (strict || negb first) && (maxb <? bytes + m_size m)%Z then
        apply_results st s r false strict bytes maxb now wnow fz fr
      else if full_dl s && (max_attempts_of s <=? d_attempts d)%Z then
        let '(st1, fr1, w1, n1) := dl_opt st d (s_dl_topic s) wnow fr in
        let '(st2, fr2, ps, w2, n2) :=
          apply_results st1 s r false strict bytes maxb now wnow fz fr1 in
        (st2, fr2, ps, w1 ++ w2, n1 ++ n2)
      else
        let nom := nominal_delay (s_minb s) (s_maxb s) (d_attempts d + 1) in
        let f := fuzz_of (d_id d) fz in
        let st1 := set_dels st (upd_where (fun x => N.eqb (d_id x) (d_id d))
                                          (d_lease wnow (wnow + nom + f)%Z) (dels st)) in
        let p := mkPulled (d_id d) (m_id m) (d_attempts d + 1) (m_payload m) (m_attrs m)
                          (match m_key m with Some k => k | None => EmptyString end)
                          (m_published m) in
        let '(st2, fr2, ps, w2, n2) :=
          apply_results st1 s r false strict (bytes + m_size m) maxb now wnow fz fr in
        (st2, fr2, p :: ps, w2,
         (if fuzz_legal nom f then [] else ["illegal-fuzz"%string]) ++ n2)
  end.
Proof. reflexivity. Qed.

Lemma apply_results_res s strict maxb now wnow fz : forall cands st first bytes fr st' fr' ps w n,
  apply_results st s cands first strict bytes maxb now wnow fz fr = (st', fr', ps, w, n) ->
  same_others st st' /\ (n = [] -> good st st').
Proof.
  induction cands as [|d cands IH]; intros st first bytes fr st' fr' ps w n.
  - cbn [apply_results]. intros H; inversion H; subst.
    split; [apply same_others_refl|intros; apply good_refl].
  - rewrite apply_results_cons.
    destruct (get_msg st (d_msg d)) as [m|].
    2:{ intros H; inversion H; subst. split; [apply same_others_refl|discriminate]. }
    destruct ((strict || negb first) && (maxb <? bytes + m_size m)%Z).
    { apply IH. }
    destruct (full_dl s && (max_attempts_of s <=? d_attempts d)%Z).
    + destruct (dl_opt st d (s_dl_topic s) wnow fr) as [[[st1 fr1] w1] n1] eqn:E1.
      destruct (apply_results st1 s cands false strict bytes maxb now wnow fz fr1)
        as [[[[st2 fr2] ps2] w2] n2] eqn:E2.
      intros H; inversion H; subst; clear H.
      apply IH in E2. destruct E2 as [O2 G2].
      apply dl_opt_res in E1. destruct E1 as [O1 G1].
      split; [eapply same_others_trans; eauto|].
      intros Hn. apply app_eq_nil in Hn. destruct Hn as [-> ->].
      eapply good_trans; eauto.
    + cbv zeta.
      match goal with |- context [apply_results ?a s cands false strict ?b maxb now wnow fz fr] =>
        destruct (apply_results a s cands false strict b maxb now wnow fz fr)
          as [[[[st2 fr2] ps2] w2] n2] eqn:E2 end.
      intros H; inversion H; subst; clear H.
      apply IH in E2. destruct E2 as [O2 G2].
      split.
      * eapply same_others_trans; [apply same_others_set_dels|exact O2].
      * intros Hn. apply app_eq_nil in Hn. destruct Hn as [_ ->].
        eapply good_trans; [|apply G2; reflexivity].
        apply good_dels_upd. intros; apply dkeep_lease.
Qed.

(* ---- dead-letter sweep ---- *)
Lemma sweep_each_res wnow : forall ds st fr st' fr' w n,
  sweep_each st ds wnow fr = (st', fr', w, n) ->
  same_others st st' /\ (n = [] -> good st st').
Proof.
  induction ds as [|i ds IH]; intros st fr st' fr' w n; cbn [sweep_each].
  - intros H; inversion H; subst. split; [apply same_others_refl|intros; apply good_refl].
  - destruct (get_del st i) as [d|].
    2:{ intros H; inversion H; subst. split; [apply same_others_refl|discriminate]. }
    destruct (get_sub st (d_sub d)) as [s|].
    2:{ intros H; inversion H; subst. split; [apply same_others_refl|discriminate]. }
    destruct (s_dl_topic s) as [dlt|].
    2:{ intros H; inversion H; subst. split; [apply same_others_refl|discriminate]. }
    destruct (dead_letter st d dlt wnow fr) as [[[st1 fr1] w1] n1] eqn:E1.
    destruct (sweep_each st1 ds wnow fr1) as [[[st2 fr2] w2] n2] eqn:E2.
    intros H; inversion H; subst; clear H.
    apply IH in E2. destruct E2 as [O2 G2].
    apply dead_letter_res in E1. destruct E1 as [O1 G1].
    split; [eapply same_others_trans; eauto|].
    intros Hn. apply app_eq_nil in Hn. destruct Hn as [-> ->].
    eapply good_trans; eauto.
Qed.
