(* Bus/Defs.v -- vocabulary shared by the theorems about [step] (no proofs). *)
From MB Require Import Base.
From MB.Bus Require Import State Ops Step.
Local Open Scope string_scope.
Open Scope list_scope.
Open Scope Z_scope.

Definition post (st : state) (now : time) (o : op) : state := r_state (step st now o).
Definition answer (st : state) (now : time) (o : op) : resp := r_resp (step st now o).
Definition wakes (st : state) (now : time) (o : op) : list id := r_wakes (step st now o).
(* every oracle the step was given is legal (fresh ids, legal LIMIT choice, legal jitter) *)
Definition legal (st : state) (now : time) (o : op) : Prop := r_notes (step st now o) = [].

(* a history is a list of (time, operation); [run] folds [step] over it *)
Definition hist := list (time * op).
Fixpoint run (st : state) (h : hist) : state :=
  match h with
  | [] => st
  | (now, o) :: r => run (post st now o) r
  end.
(* the states a history passes through, paired with the step taken there *)
Fixpoint trace (st : state) (h : hist) : list (state * time * op) :=
  match h with
  | [] => []
  | (now, o) :: r => (st, now, o) :: trace (post st now o) r
  end.
Definition all_legal (st : state) (h : hist) : Prop :=
  forall s now o, In (s, now, o) (trace st h) -> legal s now o.
Fixpoint times_nondecreasing (t0 : time) (h : hist) : Prop :=
  match h with
  | [] => True
  | (now, _) :: r => t0 <= now /\ times_nondecreasing now r
  end.

(* primary keys are unique in every table *)
Definition ids_unique (st : state) : Prop :=
  NoDup (map t_id (topics st)) /\ NoDup (map s_id (subs st)) /\ NoDup (map m_id (msgs st)) /\
  NoDup (map d_id (dels st)) /\ NoDup (map n_id (snaps st)).

(* the written time of a step is not earlier than its read time (the harness checks
   lo <= wnow <= hi) *)
Definition op_wnow (o : op) : option time :=
  match o with
  | DeleteTopic _ w | CreateSub _ _ w | UpdateSub _ _ w | DeleteSub _ w | ModAck _ _ _ w
  | Ack _ _ w | Pull _ _ _ _ w _ _ | SeekTime _ _ w | SeekSnap _ _ w
  | CreateSnap _ _ _ _ w | StreamAckNack _ _ w _ _ | Job _ _ _ _ _ w _ => Some w
  | _ => None
  end.

(* the subscription (id) an operation addressed by subscription name resolves to *)
Definition sub_of_name (st : state) (name : str) : option id := option_map s_id (find_live_sub st name).

Definition is_seek_of (st : state) (o : op) (sid : id) : bool :=
  match o with
  | SeekTime name _ _ | SeekSnap name _ _ =>
      match sub_of_name st name with Some i => N.eqb i sid | None => false end
  | _ => false
  end.

Definition pulled_of (r : resp) : list pulled := match r with RPull l => l | _ => [] end.

(* the row of a table with a given id *)
Definition del_of (st : state) (i : id) : option del := find_id d_id i (dels st).
Definition sub_row (st : state) (i : id) : option sub := find_id s_id i (subs st).

(* ids an operation's oracle proposes for new delivery rows. Identifiers are random
   UUIDs: the history theorems assume that the id of a row they talk about is never
   proposed again after the row was created (the single-step theorems only need
   freshness with respect to the current table, which [legal] checks). *)
Definition op_fresh_dels (o : op) : list id :=
  match o with
  | Publish _ _ fr | Pull _ _ _ _ _ _ fr | StreamAckNack _ _ _ _ fr | Job _ _ _ _ _ _ fr =>
      map (fun x => snd x) fr
  | _ => []
  end.
