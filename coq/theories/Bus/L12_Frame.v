(* Bus/L12_Frame.v -- the helper transactions of Ops.v / Step.v leave the named tables
   (topics, subscriptions, snapshots) alone. *)
From MB Require Import Base.
From MB.Bus Require Import State Ops Step.
Open Scope list_scope.

Definition same_named (st st' : state) : Prop :=
  topics st' = topics st /\ subs st' = subs st /\ snaps st' = snaps st.

Lemma same_named_refl st : same_named st st.
Proof. repeat split. Qed.

Lemma same_named_trans a b c : same_named a b -> same_named b c -> same_named a c.
Proof. intros (A&B&C) (D&E&F). repeat split; congruence. Qed.

Lemma same_named_set_dels st ds : same_named st (set_dels st ds).
Proof. repeat split. Qed.

Lemma same_named_set_msgs st ms : same_named st (set_msgs st ms).
Proof. repeat split. Qed.

Lemma deliver_to_sub_sn st s m now fr st' fr' w n :
  deliver_to_sub st s m now fr = (st', fr', w, n) -> same_named st st'.
Proof.
  unfold deliver_to_sub.
  destruct (negb (filter_accepts (s_filter s) (m_attrs m))).
  { intros H; inversion H; subst. apply same_named_refl. }
  destruct (take_fresh (m_id m) (s_id s) fr) as [[i|] fr1];
    intros H; inversion H; subst; repeat split.
Qed.

Lemma deliver_to_subs_sn m now : forall ss st fr st' fr' w n,
  deliver_to_subs st ss m now fr = (st', fr', w, n) -> same_named st st'.
Proof.
  induction ss as [|s ss IH]; intros st fr st' fr' w n; cbn [deliver_to_subs].
  - intros H; inversion H; subst. apply same_named_refl.
  - destruct (deliver_to_sub st s m now fr) as [[[st1 fr1] w1] n1] eqn:E1.
    destruct (deliver_to_subs st1 ss m now fr1) as [[[st2 fr2] w2] n2] eqn:E2.
    intros H; inversion H; subst; clear H.
    eapply same_named_trans; [eapply deliver_to_sub_sn; eauto|eapply IH; eauto].
Qed.

Lemma dead_letter_sn st d dlt now fr st' fr' w n :
  dead_letter st d dlt now fr = (st', fr', w, n) -> same_named st st'.
Proof.
  unfold dead_letter.
  match goal with |- context [match ?X with pair _ _ => _ end] =>
    destruct X as [[[st1 fr1] w1] n1] eqn:E end.
  intros H; inversion H; subst; clear H.
  eapply same_named_trans; [|apply same_named_set_dels].
  assert (Triv : forall w0 n0, (st, fr, w0, n0) = (st1, fr', w1, n) -> same_named st st1).
  { intros w0 n0 H; inversion H; subst. apply same_named_refl. }
  destruct (get_topic st dlt) as [t|]; [|eapply Triv; eauto].
  destruct (topic_live t); [|eapply Triv; eauto].
  destruct (live_subs_of st dlt) as [|s ss]; [eapply Triv; eauto|].
  destruct (get_msg st (d_msg d)) as [m|]; [|eapply Triv; eauto].
  eapply deliver_to_subs_sn; eauto.
Qed.

Lemma opt_dead_letter_sn st d (o : option id) now fr st' fr' w n :
  match o with
  | Some dlt => dead_letter st d dlt now fr
  | None => (st, fr, [], [])
  end = (st', fr', w, n) -> same_named st st'.
Proof.
  destruct o as [dlt|]; [apply dead_letter_sn|].
  intros H; inversion H; subst. apply same_named_refl.
Qed.

Lemma publish_one_sn st t p fr st' fr' w n :
  publish_one st t p fr = (st', fr', w, n) -> same_named st st'.
Proof.
  unfold publish_one.
  match goal with |- context [deliver_to_subs ?a ?b ?c ?d ?e] =>
    destruct (deliver_to_subs a b c d e) as [[[st2 fr2] w2] n2] eqn:E end.
  intros H; inversion H; subst; clear H.
  apply deliver_to_subs_sn in E.
  eapply same_named_trans; [apply same_named_set_msgs|exact E].
Qed.

Lemma publish_all_sn t : forall ps st fr st' fr' w n,
  publish_all st t ps fr = Some (st', fr', w, n) -> same_named st st'.
Proof.
  induction ps as [|p ps IH]; intros st fr st' fr' w n; cbn [publish_all].
  - intros H; inversion H; subst. apply same_named_refl.
  - destruct (negb (pm_valid p)); [discriminate|].
    destruct (publish_one st t p fr) as [[[st1 fr1] w1] n1] eqn:E1.
    destruct (publish_all st1 t ps fr1) as [[[[st2 fr2] w2] n2]|] eqn:E2; [|discriminate].
    intros H; inversion H; subst; clear H.
    eapply same_named_trans; [eapply publish_one_sn; eauto|eapply IH; eauto].
Qed.

Lemma nack_each_sn now wnow fz : forall ds st fr st' fr' w n,
  nack_each st ds now wnow fz fr = (st', fr', w, n) -> same_named st st'.
Proof.
  induction ds as [|d r IH]; intros st fr st' fr' w n; cbn [nack_each].
  - intros H; inversion H; subst. apply same_named_refl.
  - destruct (get_sub st (d_sub d)) as [s|]; [|intros H; inversion H; subst; apply same_named_refl].
    match goal with |- context [match ?X with pair _ _ => _ end] =>
      destruct X as [[[st1 fr1] w1] n1] eqn:E1 end.
    destruct (nack_each st1 r now wnow fz fr1) as [[[st2 fr2] w2] n2] eqn:E2.
    intros H; inversion H; subst; clear H.
    eapply same_named_trans; [|eapply IH; eauto].
    destruct (full_dl s && (max_attempts_of s <=? d_attempts d))%Z.
    + eapply opt_dead_letter_sn; eauto.
    + inversion E1; subst. apply same_named_set_dels.
Qed.

Lemma do_nack_sn st ids now wnow fz fr st' fr' w n :
  do_nack st ids now wnow fz fr = (st', fr', w, n) -> same_named st st'.
Proof. unfold do_nack. apply nack_each_sn. Qed.

Lemma do_ack_sn st ids wnow : same_named st (fst (do_ack st ids wnow)).
Proof. unfold do_ack. cbn [fst]. apply same_named_set_dels. Qed.

Lemma do_delay_sn st ids delay wnow : same_named st (fst (do_delay st ids delay wnow)).
Proof. unfold do_delay. destruct (delay <=? 0)%Z; cbn [fst]; apply same_named_set_dels. Qed.

Lemma seek_time_sn st s target now wnow : same_named st (fst (seek_time st s target now wnow)).
Proof. unfold seek_time. cbn [fst]. apply same_named_set_dels. Qed.

Lemma seek_snap_sn st s n now wnow : same_named st (fst (seek_snap st s n now wnow)).
Proof. unfold seek_snap. cbn [fst]. apply same_named_set_dels. Qed.

Lemma apply_results_sn s strict maxb now wnow fz : forall cands st first bytes fr st' fr' ps w n,
  apply_results st s cands first strict bytes maxb now wnow fz fr = (st', fr', ps, w, n) ->
  same_named st st'.
Proof.
  induction cands as [|d r IH]; intros st first bytes fr st' fr' ps w n; cbn [apply_results].
  - intros H; inversion H; subst. apply same_named_refl.
  - destruct (get_msg st (d_msg d)) as [m|]; [|intros H; inversion H; subst; apply same_named_refl].
    destruct ((strict || negb first) && (maxb <? bytes + m_size m))%Z; [apply IH|].
    destruct (full_dl s && (max_attempts_of s <=? d_attempts d))%Z.
    + match goal with |- context [match ?X with pair _ _ => _ end] =>
        destruct X as [[[st1 fr1] w1] n1] eqn:E1 end.
      match goal with |- context [match ?X with pair _ _ => _ end] =>
        destruct X as [[[[st2 fr2] ps2] w2] n2] eqn:E2 end.
      intros H; inversion H; subst; clear H.
      eapply same_named_trans; [eapply opt_dead_letter_sn; eauto|eapply IH; eauto].
    + match goal with |- context [match ?X with pair _ _ => _ end] =>
        destruct X as [[[[st2 fr2] ps2] w2] n2] eqn:E2 end.
      intros H; inversion H; subst; clear H.
      eapply same_named_trans; [|eapply IH; eauto]. apply same_named_set_dels.
Qed.

Lemma sweep_each_sn wnow : forall ds st fr st' fr' w n,
  sweep_each st ds wnow fr = (st', fr', w, n) -> same_named st st'.
Proof.
  induction ds as [|i r IH]; intros st fr st' fr' w n; cbn [sweep_each].
  - intros H; inversion H; subst. apply same_named_refl.
  - destruct (get_del st i) as [d|]; [|intros H; inversion H; subst; apply same_named_refl].
    destruct (get_sub st (d_sub d)) as [s|]; [|intros H; inversion H; subst; apply same_named_refl].
    destruct (s_dl_topic s) as [dlt|]; [|intros H; inversion H; subst; apply same_named_refl].
    destruct (dead_letter st d dlt wnow fr) as [[[st1 fr1] w1] n1] eqn:E1.
    destruct (sweep_each st1 r wnow fr1) as [[[st2 fr2] w2] n2] eqn:E2.
    intros H; inversion H; subst; clear H.
    eapply same_named_trans; [eapply dead_letter_sn; eauto|eapply IH; eauto].
Qed.
