(* Bus/T_C14.v -- C14: retention, expiry and delivery delay follow the configured durations. *)
From MB Require Import Base.
From MB.Bus Require Import State Ops Step Defs T_Inv L04_Lists L04_Evo L04_Pull L04_Step L14_Dels L14_Subs.
Local Open Scope string_scope.
Open Scope list_scope.
Open Scope Z_scope.

(* every message a legal pull hands out is an eligible row of the pre-state *)
Lemma pulled_cand st now name max returned others w fz fr p :
  ids_unique st -> legal st now (Pull name max returned others w fz fr) ->
  In p (pulled_of (answer st now (Pull name max returned others w fz fr))) ->
  exists s c, In c (dels st) /\ eligible st s now c = true /\ d_id c = p_ack p.
Proof.
  intros U L Hp.
  destruct (pull_legal st now name max returned others w fz fr U L) as [[_ E]|C].
  - rewrite E in Hp. destruct Hp.
  - destruct C as [s [st1 [fr1 [ps [wk [Hs [E [Hpost [Ha [Hnd Hc]]]]]]]]]].
    rewrite Ha in Hp. cbn [pulled_of] in Hp.
    apply AR_acks in E; [|exact Hnd]. destruct E as [_ Hincl].
    assert (Hi : In (p_ack p) (map d_id (pull_cands st returned others))).
    { apply Hincl. apply in_map. exact Hp. }
    apply in_map_iff in Hi. destruct Hi as [c [Ec Hc']].
    destruct (Hc c Hc') as [H1 H2]. exists s, c. auto.
Qed.

(* ---- retention ---- *)
(* a pull never returns a delivery at or after its retention deadline *)
Theorem pull_within_retention st now name max returned others w fz fr p :
  ids_unique st -> legal st now (Pull name max returned others w fz fr) ->
  In p (pulled_of (answer st now (Pull name max returned others w fz fr))) ->
  exists d, In d (dels st) /\ d_id d = p_ack p /\ now < d_expires d.
Proof.
  intros U L Hp.
  destruct (pulled_cand st now name max returned others w fz fr p U L Hp) as [s [c [H1 [H2 H3]]]].
  exists c. split; [exact H1|]. split; [exact H3|].
  apply eligible_facts in H2. apply H2.
Qed.

(* the deadline is set when the delivery is created (publish time + the subscription's
   retention at that moment; see T_C01.is_new_delivery) and rewritten ONLY by a seek
   that revives the delivery (to seek time + retention): every other operation leaves
   expires_at of every surviving row alone *)
Theorem expires_only_by_seek st now o d d' :
  ids_unique st -> legal st now o ->
  In d (dels st) -> In d' (dels (post st now o)) -> d_id d' = d_id d ->
  d_expires d' = d_expires d \/
  (is_seek_of st o (d_sub d) = true /\ d_completed d <> None /\ d_completed d' = None /\
   exists w s, op_wnow o = Some w /\ get_sub st (d_sub d) = Some s /\ d_expires d' = w + s_msg_ttl s /\ d_attempt_at d' = w).
Proof.
  intros U L Hd Hd' He.
  pose proof (step_ids_unique st now o U L) as U'.
  apply (rel_desc_use _ _ _ (exp_desc_all st now o U)); auto; [apply U|apply U'].
Qed.

(* ---- subscription expiry ---- *)
(* the expiry sweep only deletes subscriptions whose deadline has passed *)
Theorem expire_only_when_due st now mn mx chosen w fr s :
  legal st now (Job JExpireSubs mn mx chosen false w fr) ->
  In s (subs st) -> mem_id (s_id s) chosen = true -> ids_unique st ->
  s_expires s < now /\ sub_live s = true /\
  exists s', In s' (subs (post st now (Job JExpireSubs mn mx chosen false w fr))) /\ s_id s' = s_id s /\
             s_deleted s' = Some w.
Proof.
  intros L Hs Hm U.
  assert (Hc : choice_legal (job_matches st JExpireSubs now mn) chosen mx = true).
  { unfold legal, step, run_job in L. cbv beta iota zeta in L. cbn [done r_notes] in L.
    destruct (choice_legal (job_matches st JExpireSubs now mn) chosen mx); [reflexivity|discriminate]. }
  unfold choice_legal in Hc. apply andb_true_iff in Hc. destruct Hc as [Hc _].
  apply andb_true_iff in Hc. destruct Hc as [_ Hc]. rewrite forallb_forall in Hc.
  apply mem_id_In in Hm. specialize (Hc _ Hm). apply mem_id_In in Hc.
  cbn [job_matches] in Hc. apply in_map_iff in Hc. destruct Hc as [x [Ex Hx]].
  apply filter_In in Hx. destruct Hx as [Hx Hp].
  assert (x = s) by (apply (nodup_key_inj s_id (subs st) x s); [apply U|exact Hx|exact Hs|exact Ex]).
  subst x. apply andb_true_iff in Hp. destruct Hp as [Hp1 Hp2]. apply Z.ltb_lt in Hp1.
  split; [exact Hp1|]. split; [exact Hp2|].
  exists (s_set_deleted w s). split; [|split; reflexivity].
  unfold post, step, run_job. cbv beta iota zeta. cbn [done r_state set_subs subs].
  pose proof (in_upd_where_intro (fun s => mem_id (s_id s) chosen) (s_set_deleted w) (subs st) s Hs) as Hi.
  cbv beta in Hi. apply mem_id_In in Hm. rewrite Hm in Hi. exact Hi.
Qed.

(* ... and deletes nothing else; deliveries, messages, topics, snapshots are untouched *)
Theorem expire_frame st now mn mx chosen w fr s :
  In s (subs st) -> mem_id (s_id s) chosen = false ->
  In s (subs (post st now (Job JExpireSubs mn mx chosen false w fr))) /\
  dels (post st now (Job JExpireSubs mn mx chosen false w fr)) = dels st.
Proof.
  intros Hs Hm. unfold post, step, run_job. cbv beta iota zeta. cbn [done r_state set_subs subs dels].
  split; [|reflexivity].
  pose proof (in_upd_where_intro (fun s => mem_id (s_id s) chosen) (s_set_deleted w) (subs st) s Hs) as Hi.
  cbv beta in Hi. rewrite Hm in Hi. exact Hi.
Qed.

(* the deadline is (re)started at ttl after: creation, every pull that finds the
   subscription (even an empty one), and an update of the expiration policy *)
Theorem create_sets_expiry st now q fresh w v :
  legal st now (CreateSub q fresh w) -> answer st now (CreateSub q fresh w) = RSub v ->
  exists s, In s (subs (post st now (CreateSub q fresh w))) /\ s_id s = fresh /\
            s_ttl s = (if q_ttl q =? 0 then default_sub_ttl else q_ttl q) /\ s_expires s = w + s_ttl s.
Proof.
  unfold legal, answer, post, step, create_sub.
  repeat (match goal with
          | |- context [match ?x with _ => _ end] => destruct x
          end; cbv beta iota zeta; cbn [fail done r_state r_notes r_resp]);
    intros L A; try discriminate.
  all: eexists; split; [cbn [set_subs subs]; apply in_ins; left; reflexivity|];
    cbn [s_id s_ttl s_expires]; repeat split; reflexivity.
Qed.

Theorem pull_refreshes_expiry st now name max returned others w fz fr s :
  ids_unique st -> valid_sub_name name = true -> 1 <= max -> find_live_sub st name = Some s ->
  exists s', In s' (subs (post st now (Pull name max returned others w fz fr))) /\ s_id s' = s_id s /\
             s_expires s' = w + s_ttl s /\ s_ttl s' = s_ttl s /\ s_deleted s' = None.
Proof.
  intros U Hv Hm Hs. unfold post, step. rewrite Hv. cbn [negb].
  assert (Hlt : (max <? 1) = false) by (apply Z.ltb_ge; lia). rewrite Hlt, Hs.
  match goal with |- context [apply_results ?a ?b ?c ?d ?e ?f ?g ?h ?i ?j ?k] =>
    destruct (apply_results a b c d e f g h i j k) as [[[[st1 fr1] ps] wk] n] eqn:E end.
  cbn [done r_state]. apply AR_evoE in E. destruct E as [S _]. rewrite S. cbn [set_subs subs].
  exists (s_set_expires (w + s_ttl s) s). split.
  - pose proof (in_upd_where_intro (fun x => N.eqb (s_id x) (s_id s)) (s_set_expires (w + s_ttl s))
                  (subs st) s (find_live_sub_in' _ _ _ Hs)) as Hi.
    cbv beta in Hi. rewrite N.eqb_refl in Hi. exact Hi.
  - cbn [s_set_expires s_id s_expires s_ttl s_deleted]. repeat split.
    unfold find_live_sub in Hs. apply find_some in Hs. destruct Hs as [_ Hl].
    apply andb_true_iff in Hl. destruct Hl as [Hl _].
    unfold sub_live, is_none, is_some in Hl. destruct (s_deleted s); [discriminate|reflexivity].
Qed.

(* no operation other than a pull, an expiration-policy update (and creation) moves a
   subscription's expiry deadline: in particular it never moves EARLIER by accident *)
Theorem sub_expiry_only_by_pull_or_update st now o s s' :
  ids_unique st -> legal st now o ->
  In s (subs st) -> In s' (subs (post st now o)) -> s_id s' = s_id s ->
  s_expires s' = s_expires s \/
  (exists name max r o' w fz fr, o = Pull name max r o' w fz fr /\ s_expires s' = w + s_ttl s) \/
  (exists q paths w, o = UpdateSub q paths w /\ In "expiration_policy" paths /\ s_expires s' = w + s_ttl s').
Proof.
  intros U L Hs Hs' He.
  destruct (sub_desc_all st now o U L s' Hs') as [[x [Hx [Ex R]]]|Hn].
  - assert (x = s).
    { apply (nodup_key_inj s_id (subs st) x s); [apply U|exact Hx|exact Hs|congruence]. }
    subst x. exact R.
  - exfalso. apply Hn. rewrite He. apply in_map. exact Hs.
Qed.

(* an expired-and-swept (or deleted) subscription behaves as deleted: see T_C12
   deleted_sub_not_found; and Publish no longer delivers to it: *)
Theorem deleted_sub_gets_nothing st now tname ms fr s d :
  ids_unique st -> legal st now (Publish tname ms fr) ->
  In s (subs st) -> s_deleted s <> None ->
  In d (dels (post st now (Publish tname ms fr))) -> d_sub d = s_id s -> In d (dels st).
Proof.
  intros U L Hs Hdel Hd Hsub.
  destruct (publish_new st now tname ms fr d Hd) as [H|[s0 [Hs0 [Hl He]]]]; [exact H|].
  exfalso.
  assert (s0 = s).
  { apply (nodup_key_inj s_id (subs st) s0 s); [apply U|exact Hs0|exact Hs|congruence]. }
  subst s0. unfold sub_live, is_none, is_some in Hl.
  destruct (s_deleted s); [discriminate|]. apply Hdel. reflexivity.
Qed.

(* ---- delivery delay ---- *)
(* a delivery created with delay delta is first due delta after its publish time, and a
   pull hands it out only when due: with C04's lease_only_shortened_explicitly (nothing
   but nack / non-positive deadline / seek brings attempt_at forward) no message is
   delivered earlier than delta after its publish *)
Theorem delay_respected st now name max returned others w fz fr p d :
  ids_unique st -> legal st now (Pull name max returned others w fz fr) ->
  In p (pulled_of (answer st now (Pull name max returned others w fz fr))) ->
  In d (dels st) -> d_id d = p_ack p -> d_attempt_at d <= now.
Proof.
  intros U L Hp Hd He.
  destruct (pulled_cand st now name max returned others w fz fr p U L Hp) as [s [c [H1 [H2 H3]]]].
  assert (c = d).
  { apply (nodup_key_inj d_id (dels st) c d); [apply U|exact H1|exact Hd|congruence]. }
  subst c. apply eligible_facts in H2. apply H2.
Qed.

Theorem set_delay_effect st now name delay s :
  find_live_sub st name = Some s -> ids_unique st ->
  let st' := post st now (SetDelay name delay) in
  (exists s', In s' (subs st') /\ s_id s' = s_id s /\ s_delay s' = delay /\ s_expires s' = s_expires s /\
              s_msg_ttl s' = s_msg_ttl s /\ s_deleted s' = s_deleted s) /\
  dels st' = dels st /\ msgs st' = msgs st /\ topics st' = topics st.
Proof.
  intros Hs U st'. subst st'. unfold post, step. rewrite Hs.
  cbn [done r_state set_subs subs dels msgs topics].
  split; [|repeat split; reflexivity].
  eexists. split.
  - match goal with |- In _ (upd_where ?p ?f ?l) =>
      pose proof (in_upd_where_intro p f l s (find_live_sub_in' _ _ _ Hs)) as Hi end.
    cbv beta in Hi. rewrite N.eqb_refl in Hi. exact Hi.
  - cbn [s_id s_delay s_expires s_msg_ttl s_deleted]. repeat split; reflexivity.
Qed.

Print Assumptions pull_within_retention.
Print Assumptions expires_only_by_seek.
Print Assumptions sub_expiry_only_by_pull_or_update.
Print Assumptions delay_respected.
