(* Bus/Check.v -- the executable correspondence check: one observed implementation step
   against [step] run from the implementation's own pre-state (step-local forward
   simulation, DESIGN section 4.1). *)
From MB Require Import Base.
From MB.Bus Require Import State Ops Step.
Local Open Scope string_scope.
Open Scope list_scope.
Open Scope Z_scope.

Record obs := mkObs {
  o_lo : time;            (* virtual time just before the call *)
  o_hi : time;            (* virtual time just after it returned *)
  o_op : op;              (* the request, with the observed oracles *)
  o_resp : resp;          (* what the implementation answered *)
  o_post : state;         (* dump of the five tables afterwards *)
  o_skip : bool }.        (* the harness could not make this step unambiguous (a stored
                             deadline fell inside the call, or the call was slow): it is
                             only used as the pre-state of the next one *)

Inductive mismatch :=
| MResp                    (* response differs from the model's *)
| MTopics (l : list id) | MSubs (l : list id) | MMsgs (l : list id)
| MDels (l : list id) | MSnaps (l : list id)     (* rows that differ / are missing / are extra *)
| MCols (l : list string)  (* which columns differ / "x.row-missing" / "x.row-extra": lets each property
                              claim only the mismatches that belong to it *)
| MNote (s : string)       (* an oracle was illegal (see Ops.notes) *)
| MTime.                   (* a written timestamp lies outside [lo, hi] *)

Definition pulled_eqb (a b : pulled) : bool :=
  N.eqb (p_ack a) (p_ack b) && N.eqb (p_msg a) (p_msg b) && Z.eqb (p_attempt a) (p_attempt b) &&
  String.eqb (p_payload a) (p_payload b) && smap_eqb (p_attrs a) (p_attrs b) &&
  String.eqb (p_key a) (p_key b) && Z.eqb (p_published a) (p_published b).

Definition snapview_eqb (a b : str * str * time * smap) : bool :=
  let '(n1, t1, e1, l1) := a in let '(n2, t2, e2, l2) := b in
  String.eqb n1 n2 && String.eqb t1 t2 && Z.eqb e1 e2 && smap_eqb l1 l2.

Definition resp_eqb (a b : resp) : bool :=
  match a, b with
  | RErr c, RErr d => code_eqb c d
  | RUnit, RUnit => true
  | RIds l, RIds m => list_eqb N.eqb l m
  | RPull l, RPull m => list_eqb pulled_eqb l m
  | RSub v, RSub w => subview_eqb v w
  | RSubEmpty, RSubEmpty => true
  | RTopic n l, RTopic m k => String.eqb n m && smap_eqb l k
  | RTopicEmpty, RTopicEmpty => true
  | RNames l x, RNames m y => list_eqb String.eqb l m && on_eqb x y
  | RTopics l x, RTopics m y => list_eqb (pair_eqb String.eqb smap_eqb) l m && on_eqb x y
  | RSubs l x, RSubs m y => list_eqb subview_eqb l m && on_eqb x y
  | RSnap n t e l, RSnap m u f k => snapview_eqb (n, t, e, l) (m, u, f, k)
  | RSnaps l x, RSnaps m y => list_eqb snapview_eqb l m && on_eqb x y
  | RCount n, RCount m => Z.eqb n m
  | _, _ => false
  end.

(* ORDER BY published_at DESC LIMIT 1 (the predecessor query of deliverToSubscription) is
   not a function when several candidates carry the same published_at -- which happens
   exactly when they were created by one transaction with one time.Now(), e.g. a sweep
   dead-lettering several same-key deliveries into one ordered subscription. The database
   picks any of them; the model picks the first in id order. Two predecessor links are
   therefore taken as equal when they name deliveries of the same subscription with the
   same published_at in the observed post-state. *)
Definition nb_tie (post : state) (a b : option id) : bool :=
  match a, b with
  | Some x, Some y =>
      match find_id d_id x (dels post), find_id d_id y (dels post) with
      | Some dx, Some dy => Z.eqb (d_published dx) (d_published dy) && N.eqb (d_sub dx) (d_sub dy)
      | _, _ => false
      end
  | _, _ => false
  end.
Definition nb_same (post : state) (a b : option id) : bool := on_eqb a b || nb_tie post a b.

Definition del_eqb_ties (post : state) (a b : del) : bool :=
  N.eqb (d_id a) (d_id b) && N.eqb (d_msg a) (d_msg b) && N.eqb (d_sub a) (d_sub b) &&
  Z.eqb (d_published a) (d_published b) && Z.eqb (d_attempt_at a) (d_attempt_at b) &&
  Z.eqb (d_attempts a) (d_attempts b) && oz_eqb (d_completed a) (d_completed b) &&
  Z.eqb (d_expires a) (d_expires b) && nb_same post (d_not_before a) (d_not_before b) &&
  oz_eqb (d_last a) (d_last b).

Section Diff.
  Context {R : Type} (key : R -> id) (eqb : R -> R -> bool).
  (* ids of rows that are not identical on both sides *)
  Definition diff_table (a b : list R) : list id :=
    sort_ids
      (map key (filter (fun r => match find_id key (key r) b with
                                 | Some r' => negb (eqb r r')
                                 | None => true
                                 end) a) ++
       map key (filter (fun r => negb (has_id key (key r) a)) b)).
End Diff.

Definition col (same : bool) (name : string) : list string := if same then [] else [name].
Definition del_cols (post : state) (a b : del) : list string :=
  col (N.eqb (d_msg a) (d_msg b)) "d.msg" ++ col (N.eqb (d_sub a) (d_sub b)) "d.sub" ++
  col (Z.eqb (d_published a) (d_published b)) "d.published" ++ col (Z.eqb (d_attempt_at a) (d_attempt_at b)) "d.attempt_at" ++
  col (Z.eqb (d_attempts a) (d_attempts b)) "d.attempts" ++ col (oz_eqb (d_completed a) (d_completed b)) "d.completed" ++
  col (Z.eqb (d_expires a) (d_expires b)) "d.expires" ++ col (nb_same post (d_not_before a) (d_not_before b)) "d.not_before" ++
  col (oz_eqb (d_last a) (d_last b)) "d.last".
Definition sub_cols (a b : sub) : list string :=
  col (String.eqb (s_name a) (s_name b)) "s.name" ++ col (N.eqb (s_topic a) (s_topic b)) "s.topic" ++
  col (oz_eqb (s_deleted a) (s_deleted b)) "s.deleted" ++ col (Z.eqb (s_expires a) (s_expires b)) "s.expires" ++
  col (Z.eqb (s_ttl a) (s_ttl b)) "s.ttl" ++ col (Z.eqb (s_msg_ttl a) (s_msg_ttl b)) "s.msg_ttl" ++
  col (Bool.eqb (s_ordered a) (s_ordered b)) "s.ordered" ++ col (os_eqb (s_filter a) (s_filter b)) "s.filter" ++
  col (oz_eqb (s_minb a) (s_minb b) && oz_eqb (s_maxb a) (s_maxb b)) "s.retry" ++
  col (oz_eqb (s_max_attempts a) (s_max_attempts b) && on_eqb (s_dl_topic a) (s_dl_topic b)) "s.dead_letter" ++
  col (Z.eqb (s_delay a) (s_delay b)) "s.delay" ++ col (os_eqb (s_push a) (s_push b)) "s.push" ++
  col (smap_eqb (s_labels a) (s_labels b)) "s.labels".

Fixpoint dedup (l : list string) : list string :=
  match l with
  | [] => []
  | x :: r => if existsb (String.eqb x) r then dedup r else x :: dedup r
  end.

Section Cols.
  Context {R : Type} (key : R -> id) (cols : R -> R -> list string) (missing extra : string).
  (* [a] = the model's table, [b] = the implementation's *)
  Definition diff_cols (a b : list R) : list string :=
    dedup (flat_map (fun r => match find_id key (key r) b with
                              | Some r' => cols r r'
                              | None => [missing]
                              end) a ++
           flat_map (fun r => if has_id key (key r) a then [] else [extra]) b).
End Cols.

Definition op_wnows (o : op) : list time :=
  match o with
  | DeleteTopic _ w | CreateSub _ _ w | UpdateSub _ _ w | DeleteSub _ w | ModAck _ _ _ w
  | Ack _ _ w | Pull _ _ _ _ w _ _ | SeekTime _ _ w | SeekSnap _ _ w
  | CreateSnap _ _ _ _ w | StreamAckNack _ _ w _ _ | Job _ _ _ _ _ w _ => [w]
  | Publish _ ms _ => map pm_now ms
  | _ => []
  end.

(* the written times of one step increase STRICTLY (only a Publish batch has more than one):
   every message of a batch gets its own, later publish time. This is the hypothesis
   [T_C05.quiet] of the ordering theorem ("strictly_increasing (op_wnows o)"), checked here on
   the implementation: with equal publish times inside a batch "earlier published" no longer
   orders the batch and the predecessor query ties. *)
Fixpoint increasing (l : list time) : bool :=
  match l with
  | a :: ((b :: _) as r) => (a <? b) && increasing r
  | _ => true
  end.

Fixpoint nondecreasing (l : list time) : bool :=
  match l with
  | a :: ((b :: _) as r) => (a <=? b) && nondecreasing r
  | _ => true
  end.

(* (a rejected request wrote nothing: its times are placeholders, only the window is checked) *)
Definition times_legal (lo hi : time) (o : op) (rejected : bool) : bool :=
  let ws := op_wnows o in
  forallb (fun w => (lo <=? w) && (w <=? hi)) ws && (if rejected then nondecreasing ws else increasing ws).

Definition nonempty {A} (mk : list A -> mismatch) (l : list A) : list mismatch :=
  match l with [] => [] | _ => [mk l] end.

(* the subscription an operation is addressed to by name (acks and deadline changes address
   deliveries by id: their subscription field is only format-checked) *)
Definition op_target_sub (pre : state) (o : op) : option id :=
  let sid_of := fun name => option_map s_id (find_live_sub pre name) in
  match o with
  | Pull name _ _ _ _ _ _ | SeekTime name _ _ | SeekSnap name _ _ | DeleteSub name _ | ModifyPush name _
  | SetDelay name _ => sid_of name
  | UpdateSub q _ _ => sid_of (q_name q)
  | _ => None
  end.

(* a delivery row of ANOTHER subscription differs although the operation was addressed to one
   subscription (and is not a dead-letter forward, which creates rows with attempts = 0) *)
Definition touches_other_sub (pre : state) (o : op) (m p : state) : bool :=
  match op_target_sub pre o with
  | None => false
  | Some sid =>
      existsb (fun r => negb (N.eqb (d_sub r) sid) &&
                        match find_id d_id (d_id r) (dels p) with
                        | Some r' => negb (del_eqb_ties p r r')
                        | None => true
                        end) (dels m)
  end.

Definition check_step (pre : state) (o : obs) : list mismatch :=
  let r := step pre (o_lo o) (o_op o) in
  let m := r_state r in
  let p := o_post o in
  (if times_legal (o_lo o) (o_hi o) (o_op o) (match o_resp o with RErr _ => true | _ => false end) then [] else [MTime]) ++
  map MNote (r_notes r) ++
  (if resp_eqb (r_resp r) (o_resp o) then [] else [MResp]) ++
  nonempty MTopics (diff_table t_id topic_eqb (topics m) (topics p)) ++
  nonempty MSubs (diff_table s_id sub_eqb (subs m) (subs p)) ++
  nonempty MMsgs (diff_table m_id msg_eqb (msgs m) (msgs p)) ++
  nonempty MDels (diff_table d_id (del_eqb_ties p) (dels m) (dels p)) ++
  nonempty MSnaps (diff_table n_id snap_eqb (snaps m) (snaps p)) ++
  (if touches_other_sub pre (o_op o) m p then [MNote "other-subscription"] else []) ++
  nonempty MCols (diff_cols d_id (del_cols p) "d.row-missing" "d.row-extra" (dels m) (dels p) ++
                  diff_cols s_id sub_cols "s.row-missing" "s.row-extra" (subs m) (subs p) ++
                  (* the same for the delivery rows CREATED by this step only (tagged "new:"): the
                     laws about fresh deliveries -- first attempt at publish/forward time plus
                     the injected delay, retention from then -- are owned by other properties
                     than the laws about leases on existing rows *)
                  (let fresh := fun d => negb (has_id d_id (d_id d) (dels pre)) in
                   map (fun c => String.append "new:" c)
                       (diff_cols d_id (del_cols p) "d.row-missing" "d.row-extra"
                                  (filter fresh (dels m)) (filter fresh (dels p))))).

(* a history: observed steps from the empty database; the pre-state of a step is the
   observed post-state of the one before. Returns the failing steps only. *)
Fixpoint check_from (pre : state) (i : nat) (h : list obs) : list (nat * list mismatch) :=
  match h with
  | [] => []
  | o :: r =>
      match (if o_skip o then [] else check_step pre o) with
      | [] => check_from (o_post o) (S i) r
      | ms => (i, ms) :: check_from (o_post o) (S i) r
      end
  end.
Definition check_history (h : list obs) : list (nat * list mismatch) := check_from empty_state O h.

(* ---- compact histories: the harness writes each observed post-state as a patch over
   the one before (rows inserted or changed, ids removed); [build] expands them ---- *)
Record patch := mkPatch {
  u_topics : list topic; u_subs : list sub; u_msgs : list msg; u_dels : list del; u_snaps : list snap;
  x_topics : list id; x_subs : list id; x_msgs : list id; x_dels : list id; x_snaps : list id }.

Definition upsert {R} (key : R -> id) (rows : list R) (l : list R) : list R :=
  fold_left (fun acc r => ins key r (del_ids key [key r] acc)) rows l.

Definition apply_patch (s : state) (p : patch) : state :=
  mkState (upsert t_id (u_topics p) (del_ids t_id (x_topics p) (topics s)))
          (upsert s_id (u_subs p) (del_ids s_id (x_subs p) (subs s)))
          (upsert m_id (u_msgs p) (del_ids m_id (x_msgs p) (msgs s)))
          (upsert d_id (u_dels p) (del_ids d_id (x_dels p) (dels s)))
          (upsert n_id (u_snaps p) (del_ids n_id (x_snaps p) (snaps s))).

Record raw := mkRaw { w_lo : time; w_hi : time; w_op : op; w_resp : resp; w_patch : patch; w_skip : bool }.

Fixpoint build_from (pre : state) (l : list raw) : list obs :=
  match l with
  | [] => []
  | r :: t =>
      let post := apply_patch pre (w_patch r) in
      mkObs (w_lo r) (w_hi r) (w_op r) (w_resp r) post (w_skip r) :: build_from post t
  end.
Definition build (l : list raw) : list obs := build_from empty_state l.

(* the model's own prediction for a step, for replay files and debugging *)
Definition predict (pre : state) (o : obs) : result := step pre (o_lo o) (o_op o).
