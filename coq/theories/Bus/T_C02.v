(* Bus/T_C02.v -- C02: only rightful, intact messages; subscriptions are independent. *)
From MB Require Import Base.
From MB.Bus Require Import State Ops Step Defs.
Local Open Scope string_scope.
Open Scope list_scope.
Open Scope Z_scope.

(* ---- what a pull returns ---- *)
(* Every item of a Pull response is a delivery of the pulled subscription that is
   currently outstanding and due on it, and carries the stored message's id, payload,
   attributes, ordering key and publish time unchanged. *)
Theorem pull_sound st now name max returned others w fz fr p :
  ids_unique st -> legal st now (Pull name max returned others w fz fr) ->
  In p (pulled_of (answer st now (Pull name max returned others w fz fr))) ->
  exists s d m, find_live_sub st name = Some s /\ In d (dels st) /\ In m (msgs st) /\
    d_id d = p_ack p /\ d_sub d = s_id s /\ d_msg d = m_id m /\ eligible st s now d = true /\
    p_msg p = m_id m /\ p_payload p = m_payload m /\ p_attrs p = m_attrs m /\
    p_key p = (match m_key m with Some k => k | None => EmptyString end) /\
    p_published p = m_published m /\ p_attempt p = d_attempts d + 1.
Admitted.

(* at most max items, and no delivery twice within one response *)
Theorem pull_bounded st now name max returned others w fz fr :
  legal st now (Pull name max returned others w fz fr) ->
  let l := pulled_of (answer st now (Pull name max returned others w fz fr)) in
  Z.of_nat (length l) <= Z.max max 0 /\ NoDup (map p_ack l).
Admitted.

(* ---- provenance: where deliveries come from ---- *)
(* A step creates a delivery row on subscription s for message m only if the filter of s
   accepts m's attributes, s is live, and m is on the topic of s (Publish) or on the
   dead-letter path into the topic of s (dead-letter forward). *)
Theorem new_delivery_provenance st now o d :
  ids_unique st -> legal st now o ->
  In d (dels (post st now o)) -> has_id d_id (d_id d) (dels st) = false ->
  exists s m, In s (subs st) /\ s_id s = d_sub d /\ sub_live s = true /\
              In m (msgs (post st now o)) /\ m_id m = d_msg d /\
              filter_accepts (s_filter s) (m_attrs m) = true /\
              d_attempts d = 0 /\ d_completed d = None /\
              ((exists t ms fr, o = Publish t ms fr /\ m_topic m = s_topic s) \/
               (exists src ssub, In src (dels st) /\ d_msg src = d_msg d /\ get_sub st (d_sub src) = Some ssub /\
                                 full_dl ssub = true /\ s_dl_topic ssub = Some (s_topic s) /\
                                 max_attempts_of ssub <= d_attempts src)).
Admitted.

(* ---- independence ---- *)
(* the subscriptions whose deliveries an operation may touch, besides creating
   dead-letter forwards: the one it names, or the ones its ack ids belong to *)
Definition touches (st : state) (o : op) (sid : id) : bool :=
  match o with
  | Ack _ (Some ids) _ | ModAck _ (Some ids) _ _ =>
      existsb (fun d => mem_id (d_id d) ids && N.eqb (d_sub d) sid) (dels st)
  | StreamAckNack acks nacks _ _ _ =>
      existsb (fun d => mem_id (d_id d) (acks ++ nacks) && N.eqb (d_sub d) sid) (dels st)
  | Pull name _ _ _ _ _ _ | SeekTime name _ _ | SeekSnap name _ _ =>
      match sub_of_name st name with Some i => N.eqb i sid | None => false end
  | Job _ _ _ _ _ _ _ => true          (* background jobs work across subscriptions *)
  | _ => false
  end.

(* An ack / nack / deadline change / pull / seek / delete / update / creation that does
   not touch subscription sid leaves every delivery row of sid exactly as it was; the only
   rows it can add on sid are fresh dead-letter forwards (attempts 0, uncompleted). *)
Theorem independent st now o sid d :
  ids_unique st -> legal st now o -> touches st o sid = false ->
  (match o with Publish _ _ _ => False | _ => True end) ->
  In d (dels st) -> d_sub d = sid -> In d (dels (post st now o)).
Admitted.

Theorem independent_new st now o sid d :
  ids_unique st -> legal st now o -> touches st o sid = false ->
  (match o with Publish _ _ _ => False | _ => True end) ->
  In d (dels (post st now o)) -> d_sub d = sid -> ~ In d (dels st) ->
  has_id d_id (d_id d) (dels st) = false /\ d_attempts d = 0 /\ d_completed d = None.
Admitted.

(* deleting or reconfiguring a subscription never changes any delivery row at all *)
Theorem config_ops_leave_deliveries st now o :
  (match o with
   | DeleteSub _ _ | UpdateSub _ _ _ | CreateSub _ _ _ | ModifyPush _ _ | SetDelay _ _
   | CreateTopic _ _ _ _ | UpdateTopic _ _ _ | DeleteTopic _ _ | CreateSnap _ _ _ _ _ | DeleteSnap _
   | GetTopic _ | GetSub _ | GetSnap _ | ListTopics _ _ _ | ListSubs _ _ _ | ListSnaps _ _ _
   | ListTopicSubs _ _ _ | SeekNoTarget _ => True
   | _ => False
   end) ->
  dels (post st now o) = dels st /\ msgs (post st now o) = msgs st.
Admitted.
