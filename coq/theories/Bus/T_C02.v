(* Bus/T_C02.v -- C02: only rightful, intact messages; subscriptions are independent. *)
From MB Require Import Base.
From MB.Bus Require Import State Ops Step Defs L02_Lists L02_Frame L02_Evo L02_Step.
Local Open Scope string_scope.
Open Scope list_scope.
Open Scope Z_scope.

(* ---- what a pull returns ---- *)
(* Every item of a Pull response is a delivery of the pulled subscription that is
   currently outstanding and due on it, and carries the stored message's id, payload,
   attributes, ordering key and publish time unchanged. *)
Theorem pull_sound st now name max returned others w fz fr p :
  ids_unique st -> legal st now (Pull name max returned others w fz fr) ->
  In p (pulled_of (answer st now (Pull name max returned others w fz fr))) ->
  exists s d m, find_live_sub st name = Some s /\ In d (dels st) /\ In m (msgs st) /\
    d_id d = p_ack p /\ d_sub d = s_id s /\ d_msg d = m_id m /\ eligible st s now d = true /\
    p_msg p = m_id m /\ p_payload p = m_payload m /\ p_attrs p = m_attrs m /\
    p_key p = (match m_key m with Some k => k | None => EmptyString end) /\
    p_published p = m_published m /\ p_attempt p = d_attempts d + 1.
Proof.
  unfold legal, answer. intros Hu Hl Hp.
  destruct (pull_cases st now name max returned others w fz fr)
    as [[c Hc]|(s & st1 & fr1 & ps & wk & n & Hmax & Hs & Ha & Hstep)].
  - rewrite Hc in Hp. cbn in Hp. destruct Hp.
  - rewrite Hstep in Hl, Hp. cbn [done r_notes r_resp pulled_of] in Hl, Hp.
    apply app_eq_nil in Hl. destruct Hl as [Hsel _].
    destruct (selection_legal st s now max returned others) eqn:Esel; [|discriminate].
    apply selection_legal_facts in Esel.
    apply apply_results_spec in Ha. destruct Ha as (_ & _ & Hps & _).
    destruct (Hps p Hp) as (d & m & Hd & Hm & ->).
    destruct Hu as (_ & _ & _ & Hud & _).
    destruct (pull_cands_facts _ _ _ _ _ _ Hud Esel Hd) as (Hin & He & _).
    cbn [pull_st0 set_subs msgs] in Hm. apply find_id_some in Hm. destruct Hm as [Hmi Hmk].
    assert (Hsub : d_sub d = s_id s).
    { unfold eligible in He. repeat (apply andb_true_iff in He; destruct He as [He ?]).
      apply N.eqb_eq in He. exact He. }
    exists s, d, m. cbn [pulled_from p_ack p_msg p_payload p_attrs p_key p_published p_attempt].
    split; [exact Hs|]. split; [exact Hin|]. split; [exact Hmi|]. split; [reflexivity|].
    split; [exact Hsub|]. split; [symmetry; exact Hmk|]. split; [exact He|].
    repeat (split; [reflexivity|]). reflexivity.
Qed.

(* at most max items, and no delivery twice within one response *)
Theorem pull_bounded st now name max returned others w fz fr :
  legal st now (Pull name max returned others w fz fr) ->
  let l := pulled_of (answer st now (Pull name max returned others w fz fr)) in
  Z.of_nat (length l) <= Z.max max 0 /\ NoDup (map p_ack l).
Proof.
  unfold legal, answer. intros Hl.
  destruct (pull_cases st now name max returned others w fz fr)
    as [[c Hc]|(s & st1 & fr1 & ps & wk & n & Hmax & Hs & Ha & Hstep)].
  - rewrite Hc. cbn. split; [lia|constructor].
  - rewrite Hstep in Hl |- *. cbn [done r_notes r_resp pulled_of] in Hl |- *.
    apply app_eq_nil in Hl. destruct Hl as [Hsel _].
    destruct (selection_legal st s now max returned others) eqn:Esel; [|discriminate].
    apply selection_legal_facts in Esel. destruct Esel as [Hnd Hlen Hel].
    apply apply_results_spec in Ha. destruct Ha as (_ & Hlps & Hp & Hn).
    pose proof (flat_opt_length (get_del st) (returned ++ others)) as Hfl.
    fold (pull_cands st (returned ++ others)) in Hfl.
    split; [lia|].
    apply Hn. unfold pull_cands.
    clear - Hnd. induction (returned ++ others) as [|i l IH]; cbn [flat_map map]; [constructor|].
    inversion Hnd as [|a b Hni Hnd']; subst.
    destruct (get_del st i) as [d|] eqn:Ed; cbn [app map]; [|apply IH; exact Hnd'].
    constructor; [|apply IH; exact Hnd'].
    intros Hi. apply in_map_iff in Hi. destruct Hi as (d' & Hk & Hi).
    apply in_flat_opt in Hi. destruct Hi as (j & Hj & Hg).
    apply find_id_some in Hg. apply find_id_some in Ed.
    apply Hni. destruct Hg as [_ Hg]. destruct Ed as [_ Ed]. congruence.
Qed.

(* ---- provenance: where deliveries come from ---- *)
(* A step creates a delivery row on subscription s for message m only if the filter of s
   accepts m's attributes, s is live, and m is on the topic of s (Publish) or on the
   dead-letter path into the topic of s (dead-letter forward). *)
Theorem new_delivery_provenance st now o d :
  ids_unique st -> legal st now o ->
  In d (dels (post st now o)) -> has_id d_id (d_id d) (dels st) = false ->
  exists s m, In s (subs st) /\ s_id s = d_sub d /\ sub_live s = true /\
              In m (msgs (post st now o)) /\ m_id m = d_msg d /\
              filter_accepts (s_filter s) (m_attrs m) = true /\
              d_attempts d = 0 /\ d_completed d = None /\
              ((exists t ms fr, o = Publish t ms fr /\ m_topic m = s_topic s) \/
               (exists src ssub, In src (dels st) /\ d_msg src = d_msg d /\ get_sub st (d_sub src) = Some ssub /\
                                 full_dl ssub = true /\ s_dl_topic ssub = Some (s_topic s) /\
                                 max_attempts_of ssub <= d_attempts src)).
Proof.
  intros Hu Hl Hd Hfresh. apply has_id_false in Hfresh.
  assert (Hother : (match o with Publish _ _ _ => False | _ => True end) ->
    exists s m, In s (subs st) /\ s_id s = d_sub d /\ sub_live s = true /\
              In m (msgs (post st now o)) /\ m_id m = d_msg d /\
              filter_accepts (s_filter s) (m_attrs m) = true /\
              d_attempts d = 0 /\ d_completed d = None /\
              ((exists t ms fr, o = Publish t ms fr /\ m_topic m = s_topic s) \/
               (exists src ssub, In src (dels st) /\ d_msg src = d_msg d /\ get_sub st (d_sub src) = Some ssub /\
                                 full_dl ssub = true /\ s_dl_topic ssub = Some (s_topic s) /\
                                 max_attempts_of ssub <= d_attempts src))).
  { intros Hnp. destruct (step_evo st now o Hu Hl Hnp) as (H1 & _).
    destruct (H1 d Hd) as [Hin|[(c & Hc & Hi & _)|[_ (Hp & Hpm)]]].
    - exfalso. apply Hfresh. apply in_map. exact Hin.
    - exfalso. apply Hfresh. rewrite <- Hi. apply in_map. exact Hc.
    - destruct Hp as (s & m & H2 & H3 & H4 & H5 & H6 & H7 & H8 & H9 & src & ssub & Hsrc).
      exists s, m. rewrite Hpm. repeat (split; [assumption|]).
      right. exists src, ssub. exact Hsrc. }
  destruct o; try (apply Hother; exact I). clear Hother.
  unfold legal, post in *. unfold step in *.
  destruct (negb (valid_topic_name topic)).
  { exfalso. apply Hfresh. apply in_map. exact Hd. }
  destruct (find_live_topic st topic) as [t|].
  2:{ exfalso. apply Hfresh. apply in_map. exact Hd. }
  destruct (publish_all st t ms fr) as [[[[st' fr'] w] n]|] eqn:Ep.
  2:{ exfalso. apply Hfresh. apply in_map. exact Hd. }
  cbn [done r_notes r_state] in *.
  apply app_eq_nil in Hl. destruct Hl as [-> _].
  destruct (publish_all_prov _ _ _ _ _ _ _ _ Ep eq_refl) as (_ & _ & Hprov).
  destruct (Hprov d Hd) as [Hin|(s & m & H2 & H3 & H4 & H5 & H6 & H7 & H8 & H9 & H10)].
  { exfalso. apply Hfresh. apply in_map. exact Hin. }
  exists s, m. repeat (split; [assumption|]).
  left. exists topic, ms, fr. split; [reflexivity|exact H10].
Qed.

(* ---- independence ---- *)
(* the subscriptions whose deliveries an operation may touch, besides creating
   dead-letter forwards: the one it names, or the ones its ack ids belong to *)
Definition touches (st : state) (o : op) (sid : id) : bool :=
  match o with
  | Ack _ (Some ids) _ | ModAck _ (Some ids) _ _ =>
      existsb (fun d => mem_id (d_id d) ids && N.eqb (d_sub d) sid) (dels st)
  | StreamAckNack acks nacks _ _ _ =>
      existsb (fun d => mem_id (d_id d) (acks ++ nacks) && N.eqb (d_sub d) sid) (dels st)
  | Pull name _ _ _ _ _ _ | SeekTime name _ _ | SeekSnap name _ _ =>
      match sub_of_name st name with Some i => N.eqb i sid | None => false end
  | Job _ _ _ _ _ _ _ => true          (* background jobs work across subscriptions *)
  | _ => false
  end.

(* An ack / nack / deadline change / pull / seek / delete / update / creation that does
   not touch subscription sid leaves every delivery row of sid exactly as it was; the only
   rows it can add on sid are fresh dead-letter forwards (attempts 0, uncompleted). *)
Theorem independent st now o sid d :
  ids_unique st -> legal st now o -> touches st o sid = false ->
  (match o with Publish _ _ _ => False | _ => True end) ->
  In d (dels st) -> d_sub d = sid -> In d (dels (post st now o)).
Proof.
  intros Hu Hl Ht Hnp Hd Hs.
  destruct (step_evo st now o Hu Hl Hnp) as (_ & H2).
  destruct (H2 d Hd) as [H|H]; [exact H|].
  unfold Tof in H. change (tch st o (d_sub d)) with (touches st o (d_sub d)) in H.
  rewrite Hs in H. congruence.
Qed.

Theorem independent_new st now o sid d :
  ids_unique st -> legal st now o -> touches st o sid = false ->
  (match o with Publish _ _ _ => False | _ => True end) ->
  In d (dels (post st now o)) -> d_sub d = sid -> ~ In d (dels st) ->
  has_id d_id (d_id d) (dels st) = false /\ d_attempts d = 0 /\ d_completed d = None.
Proof.
  intros Hu Hl Ht Hnp Hd Hs Hnin.
  destruct (step_evo st now o Hu Hl Hnp) as (H1 & _).
  destruct (H1 d Hd) as [Hin|[(c & Hc & Hi & Hcs & _ & HT)|[Hfresh (Hp & _)]]].
  - contradiction.
  - exfalso. unfold Tof in HT. change (tch st o (d_sub c)) with (touches st o (d_sub c)) in HT.
    rewrite Hcs, Hs in HT. congruence.
  - split; [apply has_id_false; exact Hfresh|].
    destruct Hp as (s & m & _ & _ & _ & _ & _ & _ & H8 & H9 & _). split; assumption.
Qed.

(* deleting or reconfiguring a subscription never changes any delivery row at all *)
Theorem config_ops_leave_deliveries st now o :
  (match o with
   | DeleteSub _ _ | UpdateSub _ _ _ | CreateSub _ _ _ | ModifyPush _ _ | SetDelay _ _
   | CreateTopic _ _ _ _ | UpdateTopic _ _ _ | DeleteTopic _ _ | CreateSnap _ _ _ _ _ | DeleteSnap _
   | GetTopic _ | GetSub _ | GetSnap _ | ListTopics _ _ _ | ListSubs _ _ _ | ListSnaps _ _ _
   | ListTopicSubs _ _ _ | SeekNoTarget _ => True
   | _ => False
   end) ->
  dels (post st now o) = dels st /\ msgs (post st now o) = msgs st.
Proof.
  intros H. apply config_dm. destruct o; try contradiction; exact I.
Qed.

Print Assumptions pull_sound.
Print Assumptions pull_bounded.
Print Assumptions new_delivery_provenance.
Print Assumptions independent.
Print Assumptions independent_new.
Print Assumptions config_ops_leave_deliveries.
