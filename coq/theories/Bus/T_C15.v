(* Bus/T_C15.v -- C15: background pruning is invisible to clients and converges.
   (After the fixes of F8 -- a deleted topic still named as dead-letter topic by a live
   subscription is kept -- and F10 -- pruning a topic takes its snapshots with it.) *)
From MB Require Import Base.
From MB.Bus Require Import State Ops Step Defs View L_Tables L_Good L_Helpers L_Step T_Inv.
From MB.Bus Require Import L15_Lists L15_Links L15_View.
Local Open Scope string_scope.
Open Scope list_scope.
Open Scope Z_scope.

(* predecessor links stay within one subscription (deliverToSubscription only looks at
   deliveries of the same subscription): an invariant of every legal step *)
Definition links_same_sub (st : state) : Prop :=
  forall d p pd, In d (dels st) -> d_not_before d = Some p -> In pd (dels st) -> d_id pd = p -> d_sub pd = d_sub d.

Theorem links_same_sub_empty : links_same_sub empty_state.
Proof. intros d p pd Hd. destruct Hd. Qed.

Lemma dinv_of st : ids_unique st -> refs_ok st -> links_same_sub st -> dinv (dels st).
Proof.
  intros (_ & _ & _ & UD & _) (_ & _ & _ & _ & _ & _ & R7) LK.
  split; [exact UD|]. split; [exact LK|].
  intros d p Hd Hp. apply (has_id_in d_id). eapply R7; eauto.
Qed.

Theorem step_links_same_sub st now o :
  ids_unique st -> refs_ok st -> legal st now o -> links_same_sub st -> links_same_sub (post st now o).
Proof.
  intros U R L LK.
  destruct (step_dinv st now o L (dinv_of st U R LK)) as (_ & LK' & _). exact LK'.
Qed.

Theorem reachable_links_same_sub st : reachable st -> links_same_sub st.
Proof.
  intros [h [L ->]].
  assert (G : forall h st0, ids_unique st0 /\ refs_ok st0 /\ links_same_sub st0 -> all_legal st0 h ->
                            links_same_sub (run st0 h)).
  { clear. induction h as [|[now o] h IH]; intros st0 (U & R & K) L; cbn [run]; [exact K|].
    assert (L0 : legal st0 now o) by (apply L; cbn [trace]; left; reflexivity).
    apply IH.
    - split; [apply step_ids_unique; assumption|].
      split; [apply step_refs_ok; assumption|apply step_links_same_sub; assumption].
    - intros s now' o' Hi. apply L. cbn [trace]. right; exact Hi. }
  apply G; [|exact L].
  destruct empty_state_ok as [U R]. split; [exact U|]. split; [exact R|apply links_same_sub_empty].
Qed.

(* ---- what the jobs choose is dead ---- *)
Section Chosen.
  Variables (st : state) (now : time).
  Hypothesis U : ids_unique st.

  Let UT : NoDup (map t_id (topics st)). Proof. destruct U as (A & _); exact A. Qed.
  Let US : NoDup (map s_id (subs st)). Proof. destruct U as (_ & A & _); exact A. Qed.
  Let UD : NoDup (map d_id (dels st)). Proof. destruct U as (_ & _ & _ & A & _); exact A. Qed.

  Lemma in_matches_row {R} (key : R -> id) (P : R -> bool) (l : list R) i :
    In i (map key (filter P l)) -> exists r, In r l /\ key r = i /\ P r = true.
  Proof.
    intros Hi. apply in_map_iff in Hi. destruct Hi as [r [E Hr]]. apply filter_In in Hr.
    destruct Hr as [Hr HP]. exists r. auto.
  Qed.

  Lemma chosen_del_dead j mn chosen d :
    0 <= mn ->
    (j = JPruneCompletedDeliveries \/ j = JPruneExpiredDeliveries \/ j = JPruneDeletedSubDeliveries) ->
    (forall i, In i chosen -> In i (job_matches st j now mn)) ->
    In d (dels st) -> In (d_id d) chosen -> outstanding st now d = false.
  Proof.
    intros Hmn Hj Hc Hd Hi. apply Hc in Hi. unfold outstanding.
    destruct Hj as [->|[->| ->]]; cbn [job_matches] in Hi;
      apply (matched_row d_id _ _ _ UD Hd) in Hi; cbv beta in Hi.
    - destruct (d_completed d); [reflexivity|discriminate].
    - apply Z.ltb_lt in Hi. assert (E : (now <? d_expires d) = false) by (apply Z.ltb_ge; lia).
      rewrite E, andb_false_r. reflexivity.
    - destruct (get_sub st (d_sub d)) as [s|]; [|discriminate].
      unfold sub_live, is_none, is_some. destruct (s_deleted s); [|discriminate].
      cbn. apply andb_false_r.
  Qed.

  Lemma chosen_msg_unused mn chosen d :
    (forall i, In i chosen -> In i (job_matches st JPruneCompletedMessages now mn)) ->
    In d (dels st) -> ~ In (d_msg d) chosen.
  Proof.
    intros Hc Hd Hi. apply Hc in Hi. cbn [job_matches] in Hi.
    apply in_matches_row in Hi. destruct Hi as (m & _ & Em & P).
    apply andb_true_iff in P. destruct P as [_ P]. apply negb_true_iff in P.
    eapply existsb_false_all in P; [|exact Hd]. cbv beta in P.
    rewrite Em, N.eqb_refl in P. discriminate.
  Qed.

  Lemma chosen_sub_deleted mn chosen s :
    (forall i, In i chosen -> In i (job_matches st JPruneDeletedSubs now mn)) ->
    In s (subs st) -> In (s_id s) chosen -> sub_live s = false.
  Proof.
    intros Hc Hs Hi. apply Hc in Hi. cbn [job_matches] in Hi.
    apply (matched_row s_id _ _ _ US Hs) in Hi. cbv beta in Hi.
    unfold sub_live, is_none, is_some. destruct (s_deleted s); [reflexivity|discriminate].
  Qed.

  Lemma chosen_topic_facts mn chosen i :
    (forall i, In i chosen -> In i (job_matches st JPruneDeletedTopics now mn)) ->
    In i chosen ->
    (forall t, In t (topics st) -> t_id t = i -> topic_live t = false) /\
    (forall s, In s (subs st) -> s_topic s <> i) /\
    (forall s, In s (subs st) -> sub_live s = true -> s_dl_topic s <> Some i).
  Proof.
    intros Hc Hi. apply Hc in Hi. cbn [job_matches] in Hi. split; [|split].
    - intros t Ht E. subst i. apply (matched_row t_id _ _ _ UT Ht) in Hi. cbv beta in Hi.
      unfold topic_live, is_none, is_some. destruct (t_deleted t); [reflexivity|discriminate].
    - intros s Hs E. apply in_matches_row in Hi. destruct Hi as (t & _ & Et & P).
      destruct (t_deleted t); [|discriminate].
      apply andb_true_iff in P. destruct P as [P _]. apply andb_true_iff in P. destruct P as [_ P].
      apply negb_true_iff in P. eapply existsb_false_all in P; [|exact Hs]. cbv beta in P.
      rewrite E, Et, N.eqb_refl in P. discriminate.
    - intros s Hs Hl E. apply in_matches_row in Hi. destruct Hi as (t & _ & Et & P).
      destruct (t_deleted t); [|discriminate].
      apply andb_true_iff in P. destruct P as [_ P].
      apply negb_true_iff in P. eapply existsb_false_all in P; [|exact Hs]. cbv beta in P.
      rewrite Hl, E, Et in P. cbn in P. rewrite N.eqb_refl in P. discriminate.
  Qed.
End Chosen.

(* the row transformation PruneDeletedTopics applies to subscriptions (ON DELETE SET NULL) *)
Definition null_dl (chosen : list id) (s : sub) : sub :=
  match s_dl_topic s with
  | Some t => if mem_id t chosen
              then mkSub (s_id s) (s_name s) (s_topic s) (s_deleted s) (s_expires s) (s_ttl s) (s_msg_ttl s)
                         (s_ordered s) (s_filter s) (s_minb s) (s_maxb s) (s_max_attempts s) None (s_delay s)
                         (s_push s) (s_labels s)
              else s
  | None => s
  end.

Lemma null_dl_id ch s : s_id (null_dl ch s) = s_id s.
Proof. unfold null_dl. destruct (s_dl_topic s) as [t|]; [|reflexivity]. destruct (mem_id t ch); reflexivity. Qed.
Lemma null_dl_live ch s : sub_live (null_dl ch s) = sub_live s.
Proof. unfold null_dl. destruct (s_dl_topic s) as [t|]; [|reflexivity]. destruct (mem_id t ch); reflexivity. Qed.

(* ---- invisibility ---- *)
(* Running any prune job, with any age >= 0, any batch size and any legal choice of rows,
   at any time, leaves the client-visible view exactly as it was: no live topic, live
   subscription (nor any of its settings, including its dead-letter policy), outstanding
   delivery or message of an outstanding delivery is removed or changed, and what ordering
   holds back stays held back. *)
Theorem prune_invisible st now j mn mx chosen w fr :
  is_prune j = true -> 0 <= mn ->
  ids_unique st -> links_same_sub st ->
  legal st now (Job j mn mx chosen false w fr) ->
  view_of (post st now (Job j mn mx chosen false w fr)) now = view_of st now.
Proof.
  intros Hj Hmn U LK. unfold legal, post. cbv beta iota delta [step]. unfold run_job. cbv zeta.
  cbv beta iota.
  assert (UT : NoDup (map t_id (topics st))) by (destruct U as (A & _); exact A).
  assert (US : NoDup (map s_id (subs st))) by (destruct U as (_ & A & _); exact A).
  assert (UD : NoDup (map d_id (dels st))) by (destruct U as (_ & _ & _ & A & _); exact A).
  destruct j; try discriminate Hj; cbn [done r_notes r_state]; intros HL.
  - (* JPruneCompletedDeliveries *)
    destruct (choice_legal _ chosen mx) eqn:Ech in HL; [|discriminate].
    apply view_ext; try reflexivity.
    apply view_dels_prune; [exact UD|exact LK|].
    intros d Hd Hi. apply (chosen_del_dead st now U JPruneCompletedDeliveries mn chosen d Hmn); auto.
    apply (choice_legal_incl _ _ _ Ech).
  - (* JPruneExpiredDeliveries *)
    destruct (choice_legal _ chosen mx) eqn:Ech in HL; [|discriminate].
    apply view_ext; try reflexivity.
    apply view_dels_prune; [exact UD|exact LK|].
    intros d Hd Hi. apply (chosen_del_dead st now U JPruneExpiredDeliveries mn chosen d Hmn); auto.
    apply (choice_legal_incl _ _ _ Ech).
  - (* JPruneCompletedMessages *)
    destruct (choice_legal _ chosen mx) eqn:Ech in HL; [|discriminate].
    apply view_ext; try reflexivity.
    apply view_dels_same_dels; [reflexivity|reflexivity|].
    intros d Hd _. split; [reflexivity|].
    unfold get_msg. cbn [set_msgs msgs]. apply find_id_del_ids_out.
    eapply chosen_msg_unused; [|exact Hd]. apply (choice_legal_incl _ _ _ Ech).
  - (* JPruneDeletedSubDeliveries *)
    destruct (choice_legal _ chosen mx) eqn:Ech in HL; [|discriminate].
    apply view_ext; try reflexivity.
    apply view_dels_prune; [exact UD|exact LK|].
    intros d Hd Hi. apply (chosen_del_dead st now U JPruneDeletedSubDeliveries mn chosen d Hmn); auto.
    apply (choice_legal_incl _ _ _ Ech).
  - (* JPruneDeletedSubs *)
    destruct (choice_legal _ chosen mx) eqn:Ech in HL; [|discriminate].
    pose proof (choice_legal_incl _ _ _ Ech) as Hc.
    assert (Hg : forall i, get_sub (set_subs st (del_ids s_id chosen (subs st))) i =
                           if mem_id i chosen then None else get_sub st i).
    { intros i. unfold get_sub. cbn [set_subs subs]. destruct (mem_id i chosen) eqn:M.
      - apply find_id_del_ids_in. apply mem_id_In. exact M.
      - apply find_id_del_ids_out. apply mem_id_false. exact M. }
    apply view_ext; try reflexivity.
    + cbn [set_subs subs]. apply filter_del_ids. intros s Hs Hi.
      eapply chosen_sub_deleted; eauto.
    + apply view_dels_same_dels; [reflexivity| |].
      * intros d Hd. unfold outstanding. rewrite Hg.
        destruct (mem_id (d_sub d) chosen) eqn:M; [|reflexivity].
        destruct (get_sub st (d_sub d)) as [s|] eqn:Es; [|reflexivity].
        apply get_sub_in in Es. destruct Es as [Hs Eid].
        apply mem_id_In in M. rewrite <- Eid in M.
        rewrite (chosen_sub_deleted st now U mn chosen s Hc Hs M). reflexivity.
      * intros d Hd Ho. split; [|reflexivity]. rewrite Hg.
        destruct (mem_id (d_sub d) chosen) eqn:M; [|reflexivity].
        exfalso. unfold outstanding in Ho.
        destruct (get_sub st (d_sub d)) as [s|] eqn:Es; [|rewrite andb_false_r in Ho; discriminate].
        apply get_sub_in in Es. destruct Es as [Hs Eid].
        apply mem_id_In in M. rewrite <- Eid in M.
        rewrite (chosen_sub_deleted st now U mn chosen s Hc Hs M), andb_false_r in Ho. discriminate.
  - (* JPruneDeletedTopics *)
    destruct (existsb (topic_has_messages st) chosen) eqn:HM; cbn [done r_notes r_state] in *; [reflexivity|].
    destruct (choice_legal _ chosen mx) eqn:Ech in HL; [|discriminate].
    pose proof (choice_legal_incl _ _ _ Ech) as Hc.
    change (map _ (subs st)) with (map (null_dl chosen) (subs st)).
    set (st' := set_snaps _ _).
    assert (Hlive : forall s, In s (subs st) -> sub_live s = true -> null_dl chosen s = s).
    { intros s Hs Hl. unfold null_dl. destruct (s_dl_topic s) as [t|] eqn:E; [|reflexivity].
      destruct (mem_id t chosen) eqn:M; [|reflexivity]. exfalso. apply mem_id_In in M.
      destruct (chosen_topic_facts st now U mn chosen t Hc M) as (_ & _ & F). eapply F; eauto. }
    assert (Hgt : forall i, ~ In i chosen -> get_topic st' i = get_topic st i).
    { intros i Hi. unfold get_topic. cbn [st' set_snaps set_topics set_subs topics].
      apply find_id_del_ids_out. exact Hi. }
    assert (Hgs : forall i, get_sub st' i = option_map (null_dl chosen) (get_sub st i)).
    { intros i. unfold get_sub. cbn [st' set_snaps set_topics set_subs subs].
      apply find_id_map15. intros; apply null_dl_id. }
    apply view_ext.
    + cbn [st' set_snaps set_topics set_subs topics]. apply filter_del_ids. intros t Ht Hi.
      destruct (chosen_topic_facts st now U mn chosen (t_id t) Hc Hi) as (F & _). apply F; auto.
    + cbn [st' set_snaps set_topics set_subs subs]. apply filter_map_id.
      * intros r _. apply null_dl_live.
      * exact Hlive.
    + intros s t Hs Hl E. apply Hgt. intros Hi.
      destruct (chosen_topic_facts st now U mn chosen t Hc Hi) as (_ & _ & F). eapply F; eauto.
    + intros s Hs Hl. apply Hgt. intros Hi.
      destruct (chosen_topic_facts st now U mn chosen (s_topic s) Hc Hi) as (_ & F & _). eapply F; eauto.
    + cbn [st' set_snaps set_topics set_subs snaps]. fold st'. apply filter_filter_eq.
      intros n Hn. unfold snap_visible. destruct (mem_id (n_topic n) chosen) eqn:M; cbn [negb andb].
      * apply mem_id_In in M.
        destruct (get_topic st (n_topic n)) as [t|] eqn:Et; [|reflexivity].
        apply get_topic_in in Et. destruct Et as [Ht Eid].
        destruct (chosen_topic_facts st now U mn chosen (n_topic n) Hc M) as (F & _). apply F; auto.
      * apply mem_id_false in M. rewrite (Hgt _ M). reflexivity.
    + apply view_dels_same_dels; [reflexivity| |].
      * intros d Hd. unfold outstanding. rewrite Hgs.
        destruct (get_sub st (d_sub d)) as [s|]; cbn [option_map]; [|reflexivity].
        rewrite null_dl_live. reflexivity.
      * intros d Hd Ho. split; [|reflexivity]. rewrite Hgs.
        unfold outstanding in Ho.
        destruct (get_sub st (d_sub d)) as [s|] eqn:Es; cbn [option_map]; [|reflexivity].
        apply andb_true_iff in Ho. destruct Ho as [_ Hl].
        apply get_sub_in in Es. destruct Es as [Hs _]. rewrite (Hlive s Hs Hl). reflexivity.
Qed.

(* a failed job changes nothing at all *)
Theorem failed_job_invisible st now j mn mx chosen w fr :
  post st now (Job j mn mx chosen true w fr) = st.
Proof. unfold post. cbn [step]. unfold run_job. destruct j; reflexivity. Qed.

(* what the jobs remove is dead: an outstanding delivery is never removed *)
Theorem prune_removes_only_dead st now j mn mx chosen w fr d :
  is_prune j = true -> 0 <= mn -> ids_unique st ->
  legal st now (Job j mn mx chosen false w fr) ->
  In d (dels st) -> ~ has_id d_id (d_id d) (dels (post st now (Job j mn mx chosen false w fr))) = true ->
  outstanding st now d = false.
Proof.
  intros Hj Hmn U. unfold legal, post. cbv beta iota delta [step]. unfold run_job. cbv zeta. cbv beta iota.
  assert (Keep : forall ch, ~ In (d_id d) ch -> In d (dels st) ->
            has_id d_id (d_id d) (map (d_null_link ch) (del_ids d_id ch (dels st))) = true).
  { intros ch Hn Hd. apply (has_id_in d_id). rewrite map_key_map by (intros; apply d_null_link_id).
    apply in_map_del_ids. split; [apply in_map; exact Hd|exact Hn]. }
  assert (Same : In d (dels st) -> has_id d_id (d_id d) (dels st) = true).
  { intros Hd. apply (has_id_in d_id). apply in_map. exact Hd. }
  destruct j; try discriminate Hj; cbn [done r_notes r_state]; intros HL Hd Hno.
  - destruct (choice_legal _ chosen mx) eqn:Ech in HL; [|discriminate].
    destruct (outstanding st now d) eqn:Ho; [|reflexivity]. exfalso. apply Hno. cbn [set_dels dels].
    apply Keep; [|exact Hd]. intros Hi.
    rewrite (chosen_del_dead st now U JPruneCompletedDeliveries mn chosen d Hmn) in Ho; auto.
    discriminate. apply (choice_legal_incl _ _ _ Ech).
  - destruct (choice_legal _ chosen mx) eqn:Ech in HL; [|discriminate].
    destruct (outstanding st now d) eqn:Ho; [|reflexivity]. exfalso. apply Hno. cbn [set_dels dels].
    apply Keep; [|exact Hd]. intros Hi.
    rewrite (chosen_del_dead st now U JPruneExpiredDeliveries mn chosen d Hmn) in Ho; auto.
    discriminate. apply (choice_legal_incl _ _ _ Ech).
  - exfalso. apply Hno. cbn [set_msgs dels]. auto.
  - destruct (choice_legal _ chosen mx) eqn:Ech in HL; [|discriminate].
    destruct (outstanding st now d) eqn:Ho; [|reflexivity]. exfalso. apply Hno. cbn [set_dels dels].
    apply Keep; [|exact Hd]. intros Hi.
    rewrite (chosen_del_dead st now U JPruneDeletedSubDeliveries mn chosen d Hmn) in Ho; auto.
    discriminate. apply (choice_legal_incl _ _ _ Ech).
  - exfalso. apply Hno. cbn [set_subs dels]. auto.
  - exfalso. apply Hno.
    destruct (existsb (topic_has_messages st) chosen); cbn [done r_state set_snaps set_topics set_subs dels]; auto.
Qed.

(* ---- convergence ---- *)
(* the dead delivery rows of a state (what the delivery jobs are meant to reclaim), for age
   threshold a: completed at least a ago, expired, or of a subscription deleted at least a ago *)
Definition del_dead (st : state) (now a : Z) (d : del) : bool :=
  (match d_completed d with Some c => c <=? now - a | None => false end) ||
  (d_expires d <? now) ||
  (match get_sub st (d_sub d) with
   | Some s => match s_deleted s with Some t => t <=? now - a | None => false end
   | None => false
   end).
Definition dead_dels (st : state) (now a : Z) : list del := filter (del_dead st now a) (dels st).

Definition size (st : state) : nat :=
  (length (dels st) + length (msgs st) + length (subs st) + length (topics st))%nat.

Lemma choice_nonempty matching chosen mx :
  choice_legal matching chosen mx = true -> 1 <= mx -> matching <> [] -> exists i, In i chosen /\ In i matching.
Proof.
  intros Hc Hmx Hne. pose proof (choice_legal_incl _ _ _ Hc) as Hin.
  unfold choice_legal in Hc. apply andb_true_iff in Hc. destruct Hc as [_ Hl]. apply Z.eqb_eq in Hl.
  destruct chosen as [|i r].
  - exfalso. destruct matching; [congruence|]. cbn [length] in Hl. lia.
  - exists i. split; [left; reflexivity|apply Hin; left; reflexivity].
Qed.

Lemma length_prune_dels ch D : length (map (d_null_link ch) (del_ids d_id ch D)) = length (del_ids d_id ch D).
Proof. apply map_length. Qed.

(* progress: a job whose matching set is non-empty and whose batch size is positive, run
   with a legal choice, removes at least one row of its table *)
Theorem prune_progress st now j mn mx chosen w fr :
  is_prune j = true -> 1 <= mx ->
  legal st now (Job j mn mx chosen false w fr) ->
  job_matches st j now mn <> [] ->
  match j with
  | JPruneCompletedDeliveries | JPruneExpiredDeliveries | JPruneDeletedSubDeliveries =>
      (length (dels (post st now (Job j mn mx chosen false w fr))) < length (dels st))%nat
  | JPruneCompletedMessages =>
      (length (msgs (post st now (Job j mn mx chosen false w fr))) < length (msgs st))%nat
  | JPruneDeletedSubs =>
      (length (subs (post st now (Job j mn mx chosen false w fr))) < length (subs st))%nat
  | JPruneDeletedTopics =>
      (length (topics (post st now (Job j mn mx chosen false w fr))) < length (topics st))%nat
  | _ => True
  end.
Proof.
  intros Hj Hmx. unfold legal, post. cbv beta iota delta [step]. unfold run_job. cbv zeta. cbv beta iota.
  destruct j; try discriminate Hj; cbn [done r_notes r_state]; intros HL Hne.
  - destruct (choice_legal _ chosen mx) eqn:Ech in HL; [|discriminate].
    destruct (choice_nonempty _ _ _ Ech Hmx Hne) as (i & Hi & Hm). cbn [job_matches] in Hm.
    apply in_matches_row in Hm. destruct Hm as (r & Hr & Er & _).
    cbn [set_dels dels]. rewrite length_prune_dels. eapply length_del_ids_lt; [exact Hr|rewrite Er; exact Hi].
  - destruct (choice_legal _ chosen mx) eqn:Ech in HL; [|discriminate].
    destruct (choice_nonempty _ _ _ Ech Hmx Hne) as (i & Hi & Hm). cbn [job_matches] in Hm.
    apply in_matches_row in Hm. destruct Hm as (r & Hr & Er & _).
    cbn [set_dels dels]. rewrite length_prune_dels. eapply length_del_ids_lt; [exact Hr|rewrite Er; exact Hi].
  - destruct (choice_legal _ chosen mx) eqn:Ech in HL; [|discriminate].
    destruct (choice_nonempty _ _ _ Ech Hmx Hne) as (i & Hi & Hm). cbn [job_matches] in Hm.
    apply in_matches_row in Hm. destruct Hm as (r & Hr & Er & _).
    cbn [set_msgs msgs]. eapply length_del_ids_lt; [exact Hr|rewrite Er; exact Hi].
  - destruct (choice_legal _ chosen mx) eqn:Ech in HL; [|discriminate].
    destruct (choice_nonempty _ _ _ Ech Hmx Hne) as (i & Hi & Hm). cbn [job_matches] in Hm.
    apply in_matches_row in Hm. destruct Hm as (r & Hr & Er & _).
    cbn [set_dels dels]. rewrite length_prune_dels. eapply length_del_ids_lt; [exact Hr|rewrite Er; exact Hi].
  - destruct (choice_legal _ chosen mx) eqn:Ech in HL; [|discriminate].
    destruct (choice_nonempty _ _ _ Ech Hmx Hne) as (i & Hi & Hm). cbn [job_matches] in Hm.
    apply in_matches_row in Hm. destruct Hm as (r & Hr & Er & _).
    cbn [set_subs subs]. eapply length_del_ids_lt; [exact Hr|rewrite Er; exact Hi].
  - destruct (existsb (topic_has_messages st) chosen) eqn:HM; cbn [done r_notes r_state] in *; [discriminate|].
    destruct (choice_legal _ chosen mx) eqn:Ech in HL; [|discriminate].
    destruct (choice_nonempty _ _ _ Ech Hmx Hne) as (i & Hi & Hm). cbn [job_matches] in Hm.
    apply in_matches_row in Hm. destruct Hm as (r & Hr & Er & _).
    cbn [set_snaps set_topics set_subs topics]. eapply length_del_ids_lt; [exact Hr|rewrite Er; exact Hi].
Qed.

(* no prune job ever adds a row *)
Theorem prune_never_grows st now j mn mx chosen failed w fr :
  is_prune j = true ->
  (length (dels (post st now (Job j mn mx chosen failed w fr))) <= length (dels st))%nat /\
  (length (msgs (post st now (Job j mn mx chosen failed w fr))) <= length (msgs st))%nat /\
  (length (subs (post st now (Job j mn mx chosen failed w fr))) <= length (subs st))%nat /\
  (length (topics (post st now (Job j mn mx chosen failed w fr))) <= length (topics st))%nat.
Proof.
  intros Hj. destruct failed; [rewrite failed_job_invisible; lia|].
  unfold post. cbv beta iota delta [step]. unfold run_job. cbv zeta. cbv beta iota.
  destruct j; try discriminate Hj; cbn [done r_state set_dels set_msgs set_subs dels msgs subs topics].
  - rewrite length_prune_dels. pose proof (length_del_ids_le d_id chosen (dels st)). lia.
  - rewrite length_prune_dels. pose proof (length_del_ids_le d_id chosen (dels st)). lia.
  - pose proof (length_del_ids_le m_id chosen (msgs st)). lia.
  - rewrite length_prune_dels. pose proof (length_del_ids_le d_id chosen (dels st)). lia.
  - pose proof (length_del_ids_le s_id chosen (subs st)). lia.
  - destruct (existsb (topic_has_messages st) chosen);
      cbn [done r_state set_snaps set_topics set_subs dels msgs subs topics]; [lia|].
    rewrite map_length. pose proof (length_del_ids_le t_id chosen (topics st)). lia.
Qed.

(* hence any sequence of prune jobs, with any ages, batch sizes and choices, makes at most
   [size st] effective runs (runs that found something to do and committed): the rounds
   converge *)
Definition is_prune_op (o : op) : bool :=
  match o with Job j _ _ _ _ _ _ => is_prune j | _ => false end.
Definition effective (st : state) (now : time) (o : op) : bool :=
  match o with
  | Job j mn mx _ false _ _ => (1 <=? mx) && match job_matches st j now mn with [] => false | _ => true end
  | _ => false
  end.
Fixpoint effective_runs (st : state) (h : hist) : nat :=
  match h with
  | [] => 0%nat
  | (now, o) :: r => ((if effective st now o then 1 else 0) + effective_runs (post st now o) r)%nat
  end.

Theorem prune_rounds_bounded h : forall st,
  all_legal st h -> (forall now o, In (now, o) h -> is_prune_op o = true) ->
  (effective_runs st h + size (run st h) <= size st)%nat.
Proof.
  induction h as [|[now o] h IH]; intros st L P; cbn [effective_runs run]; [lia|].
  assert (L0 : legal st now o) by (apply L; cbn [trace]; left; reflexivity).
  assert (P0 : is_prune_op o = true) by (apply (P now); left; reflexivity).
  assert (IH' : (effective_runs (post st now o) h + size (run (post st now o) h) <= size (post st now o))%nat).
  { apply IH.
    - intros s now' o' Hi. apply L. cbn [trace]. right; exact Hi.
    - intros now' o' Hi. apply (P now'). right; exact Hi. }
  destruct o; try discriminate P0. cbn [is_prune_op] in P0.
  pose proof (prune_never_grows st now j min_age max chosen failed wnow fr P0) as (G1 & G2 & G3 & G4).
  unfold size in *.
  destruct (effective st now (Job j min_age max chosen failed wnow fr)) eqn:E; [|lia].
  cbn [effective] in E. destruct failed; [discriminate|].
  apply andb_true_iff in E. destruct E as [E1 E2]. apply Z.leb_le in E1.
  assert (Hne : job_matches st j now min_age <> []) by (destruct (job_matches st j now min_age); congruence).
  pose proof (prune_progress st now j min_age max chosen wnow fr P0 E1 L0 Hne) as PR.
  destruct j; try discriminate P0; lia.
Qed.

(* the only job that can fail is PruneDeletedTopics, and only because some matching topic
   still has messages (foreign key); it cannot fail on topics without messages *)
Theorem job_failure_cause st now j mn mx chosen w fr :
  legal st now (Job j mn mx chosen true w fr) ->
  j = JPruneDeletedTopics /\ 1 <= mx /\
  exists i, In i (job_matches st JPruneDeletedTopics now mn) /\ topic_has_messages st i = true.
Proof.
  unfold legal. cbv beta iota delta [step]. unfold run_job. cbv zeta. cbv beta iota.
  destruct j; cbn [r_notes]; try discriminate.
  destruct (0 <? mx) eqn:E; cbn [andb]; [|discriminate].
  destruct (existsb (topic_has_messages st) (job_matches st JPruneDeletedTopics now mn)) eqn:X; [|discriminate].
  intros _. split; [reflexivity|]. split; [apply Z.ltb_lt in E; lia|].
  apply existsb_exists in X. exact X.
Qed.

Theorem topic_prune_commits st now mn mx chosen w fr :
  legal st now (Job JPruneDeletedTopics mn mx chosen false w fr) ->
  answer st now (Job JPruneDeletedTopics mn mx chosen false w fr) = RCount (Z.of_nat (length chosen)) /\
  forall i m, In i chosen -> In m (msgs st) -> m_topic m <> i.
Proof.
  unfold legal, answer. cbv beta iota delta [step]. unfold run_job. cbv zeta. cbv beta iota.
  destruct (existsb (topic_has_messages st) chosen) eqn:HM; cbn [done r_notes r_resp]; [discriminate|].
  intros _. split; [reflexivity|]. intros i m Hi Hm E.
  eapply existsb_false_all in HM; [|exact Hi]. unfold topic_has_messages in HM.
  eapply existsb_false_all in HM; [|exact Hm]. cbv beta in HM. rewrite E, N.eqb_refl in HM. discriminate.
Qed.

(* the jobs enable one another in dependency order, so nothing stays stuck: *)
(* once no delivery refers to it, an old enough message is matched *)
Theorem messages_become_prunable st now mn m :
  In m (msgs st) -> m_published m <= now - mn ->
  (forall d, In d (dels st) -> d_msg d <> m_id m) ->
  In (m_id m) (job_matches st JPruneCompletedMessages now mn).
Proof.
  intros Hm Hp Hn. cbn [job_matches]. apply in_map. apply filter_In. split; [exact Hm|].
  apply andb_true_iff. split; [apply Z.leb_le; exact Hp|]. apply negb_true_iff.
  apply existsb_false_intro. intros d Hd. apply N.eqb_neq. apply Hn. exact Hd.
Qed.

(* once it has no deliveries, an old enough deleted subscription is matched *)
Theorem subs_become_prunable st now mn s t :
  In s (subs st) -> s_deleted s = Some t -> t <= now - mn ->
  (forall d, In d (dels st) -> d_sub d <> s_id s) ->
  In (s_id s) (job_matches st JPruneDeletedSubs now mn).
Proof.
  intros Hs Hd Ht Hn. cbn [job_matches]. apply in_map. apply filter_In. split; [exact Hs|].
  rewrite Hd. apply andb_true_iff. split; [apply Z.leb_le; exact Ht|]. apply negb_true_iff.
  apply existsb_false_intro. intros d Hdd. apply N.eqb_neq. apply Hn. exact Hdd.
Qed.

(* once it has no subscriptions (and no live subscription names it as dead-letter topic),
   an old enough deleted topic is matched *)
Theorem topics_become_prunable st now mn t dt :
  In t (topics st) -> t_deleted t = Some dt -> dt <= now - mn ->
  (forall s, In s (subs st) -> s_topic s <> t_id t) ->
  (forall s, In s (subs st) -> sub_live s = true -> s_dl_topic s <> Some (t_id t)) ->
  In (t_id t) (job_matches st JPruneDeletedTopics now mn).
Proof.
  intros Ht Hd Hdt Hn1 Hn2. cbn [job_matches]. apply in_map. apply filter_In. split; [exact Ht|].
  rewrite Hd. apply andb_true_iff. split; [apply andb_true_iff; split|].
  - apply Z.leb_le; exact Hdt.
  - apply negb_true_iff. apply existsb_false_intro. intros s Hs. apply N.eqb_neq. apply Hn1. exact Hs.
  - apply negb_true_iff. apply existsb_false_intro. intros s Hs.
    destruct (sub_live s) eqn:Hl; [|reflexivity]. cbn [andb].
    destruct (s_dl_topic s) as [x|] eqn:E; [|reflexivity]. cbn. apply N.eqb_neq. intros ->.
    eapply Hn2; eauto.
Qed.

(* every dead delivery is matched by one of the three delivery jobs *)
Theorem dead_deliveries_matched st now a d :
  In d (dead_dels st now a) ->
  In (d_id d) (job_matches st JPruneCompletedDeliveries now a) \/
  In (d_id d) (job_matches st JPruneExpiredDeliveries now a) \/
  In (d_id d) (job_matches st JPruneDeletedSubDeliveries now a).
Proof.
  intros Hd. apply filter_In in Hd. destruct Hd as [Hd P]. unfold del_dead in P.
  apply orb_true_iff in P. destruct P as [P|P]; [apply orb_true_iff in P; destruct P as [P|P]|].
  - left. cbn [job_matches]. apply in_map. apply filter_In. auto.
  - right; left. cbn [job_matches]. apply in_map. apply filter_In. auto.
  - right; right. cbn [job_matches]. apply in_map. apply filter_In. auto.
Qed.

(* nothing dead is left behind: in a state in which none of the six jobs finds anything
   (for age a), there is no dead delivery, every old message still has a delivery (which
   is then not dead), no subscription deleted at least a ago remains, and every remaining
   topic deleted at least a ago is still referred to by a subscription row *)
Theorem fixpoint_clean st now a :
  ids_unique st ->
  (forall j, is_prune j = true -> job_matches st j now a = []) ->
  dead_dels st now a = [] /\
  (forall m, In m (msgs st) -> m_published m <= now - a -> exists d, In d (dels st) /\ d_msg d = m_id m) /\
  (forall s t, In s (subs st) -> s_deleted s = Some t -> ~ t <= now - a) /\
  (forall t dt, In t (topics st) -> t_deleted t = Some dt -> dt <= now - a ->
                exists s, In s (subs st) /\ (s_topic s = t_id t \/ (sub_live s = true /\ s_dl_topic s = Some (t_id t)))).
Proof.
  intros U F.
  assert (US : NoDup (map s_id (subs st))) by (destruct U as (_ & A & _); exact A).
  assert (D0 : dead_dels st now a = []).
  { destruct (dead_dels st now a) as [|d r] eqn:E; [reflexivity|]. exfalso.
    assert (Hd : In d (dead_dels st now a)) by (rewrite E; left; reflexivity).
    apply dead_deliveries_matched in Hd.
    destruct Hd as [H|[H|H]]; rewrite F in H by reflexivity; destruct H. }
  split; [exact D0|]. split; [|split].
  - intros m Hm Hp.
    destruct (existsb (fun d => N.eqb (d_msg d) (m_id m)) (dels st)) eqn:X.
    + apply existsb_exists in X. destruct X as (d & Hd & E). apply N.eqb_eq in E. eauto.
    + exfalso. assert (H : In (m_id m) (job_matches st JPruneCompletedMessages now a)).
      { apply messages_become_prunable; auto. intros d Hd E.
        eapply existsb_false_all in X; [|exact Hd]. cbv beta in X. rewrite E, N.eqb_refl in X. discriminate. }
      rewrite F in H by reflexivity. destruct H.
  - intros s t Hs Hd Ht.
    destruct (existsb (fun d => N.eqb (d_sub d) (s_id s)) (dels st)) eqn:X.
    + apply existsb_exists in X. destruct X as (d & Hdd & E). apply N.eqb_eq in E.
      assert (Hin : In d (dead_dels st now a)).
      { apply filter_In. split; [exact Hdd|]. unfold del_dead.
        assert (G : get_sub st (d_sub d) = Some s).
        { unfold get_sub. rewrite E. apply (find_id_in_nodup s_id); assumption. }
        rewrite G, Hd. apply orb_true_iff. right. apply Z.leb_le. exact Ht. }
      rewrite D0 in Hin. destruct Hin.
    + assert (H : In (s_id s) (job_matches st JPruneDeletedSubs now a)).
      { eapply subs_become_prunable; eauto. intros d Hdd E.
        eapply existsb_false_all in X; [|exact Hdd]. cbv beta in X. rewrite E, N.eqb_refl in X. discriminate. }
      rewrite F in H by reflexivity. destruct H.
  - intros t dt Ht Hd Hdt.
    destruct (existsb (fun s => N.eqb (s_topic s) (t_id t) ||
                                (sub_live s && on_eqb (s_dl_topic s) (Some (t_id t)))) (subs st)) eqn:X.
    + apply existsb_exists in X. destruct X as (s & Hs & E). exists s. split; [exact Hs|].
      apply orb_true_iff in E. destruct E as [E|E]; [left; apply N.eqb_eq; exact E|right].
      apply andb_true_iff in E. destruct E as [E1 E2]. split; [exact E1|].
      destruct (s_dl_topic s) as [x|]; [|discriminate]. cbn in E2. apply N.eqb_eq in E2. congruence.
    + exfalso. assert (H : In (t_id t) (job_matches st JPruneDeletedTopics now a)).
      { eapply topics_become_prunable; eauto.
        - intros s Hs E. eapply existsb_false_all in X; [|exact Hs]. cbv beta in X.
          rewrite E, N.eqb_refl in X. discriminate.
        - intros s Hs Hl E. eapply existsb_false_all in X; [|exact Hs]. cbv beta in X.
          rewrite Hl, E in X. cbn in X. rewrite N.eqb_refl, orb_true_r in X. discriminate. }
      rewrite F in H by reflexivity. destruct H.
Qed.

(* a canonical full round (each delivery job run with an unbounded batch, choosing
   everything it matches) leaves no dead delivery behind *)
Definition run_all (st : state) (now : time) (j : job) (a : Z) : state :=
  post st now (Job j a (Z.of_nat (length (job_matches st j now a))) (job_matches st j now a) false now []).

Lemma run_all_dels st now j a :
  j = JPruneCompletedDeliveries \/ j = JPruneExpiredDeliveries \/ j = JPruneDeletedSubDeliveries ->
  dels (run_all st now j a) =
  map (d_null_link (job_matches st j now a)) (del_ids d_id (job_matches st j now a) (dels st)) /\
  subs (run_all st now j a) = subs st.
Proof.
  intros [->|[->| ->]]; unfold run_all, post; cbv beta iota delta [step]; unfold run_job; cbv zeta;
    cbv beta iota; cbn [done r_state set_dels dels subs]; auto.
Qed.

Lemma del_dead_null_link st st' now a ch d :
  subs st' = subs st -> del_dead st' now a (d_null_link ch d) = del_dead st now a d.
Proof.
  intros ES. unfold del_dead, get_sub. rewrite ES.
  destruct (d_null_link_fields ch d) as (A & B & _). rewrite A, B, d_null_link_sub. reflexivity.
Qed.

Theorem full_round_reclaims_deliveries st now a :
  ids_unique st ->
  let st1 := run_all st now JPruneCompletedDeliveries a in
  let st2 := run_all st1 now JPruneExpiredDeliveries a in
  let st3 := run_all st2 now JPruneDeletedSubDeliveries a in
  dead_dels st3 now a = [].
Proof.
  intros U st1 st2 st3.
  (* each of the three rounds removes every row its predicate matches, later rounds keep
     that, and the predicates together are [del_dead] *)
  assert (R : forall s j, j = JPruneCompletedDeliveries \/ j = JPruneExpiredDeliveries \/ j = JPruneDeletedSubDeliveries ->
              forall d', In d' (dels (run_all s now j a)) ->
              exists d, In d (dels s) /\ d' = d_null_link (job_matches s j now a) d /\
                        ~ In (d_id d) (job_matches s j now a)).
  { intros s j Hj d' Hd'. destruct (run_all_dels s now j a Hj) as [E _]. rewrite E in Hd'.
    apply in_map_iff in Hd'. destruct Hd' as (d & <- & Hd). apply in_del_ids in Hd. destruct Hd as [Hd Hn].
    exists d. auto. }
  unfold dead_dels. apply filter_all_false. intros d3 H3.
  destruct (R st2 JPruneDeletedSubDeliveries (or_intror (or_intror eq_refl)) d3 H3) as (d2 & H2 & E3 & N3).
  destruct (R st1 JPruneExpiredDeliveries (or_intror (or_introl eq_refl)) d2 H2) as (d1 & H1 & E2 & N2).
  destruct (R st JPruneCompletedDeliveries (or_introl eq_refl) d1 H1) as (d0 & H0 & E1 & N1).
  destruct (run_all_dels st now JPruneCompletedDeliveries a (or_introl eq_refl)) as [_ S1].
  destruct (run_all_dels st1 now JPruneExpiredDeliveries a (or_intror (or_introl eq_refl))) as [_ S2].
  destruct (run_all_dels st2 now JPruneDeletedSubDeliveries a (or_intror (or_intror eq_refl))) as [_ S3].
  fold st1 in S1. fold st2 in S2. fold st3 in S3.
  subst d3. rewrite (del_dead_null_link st2 st3 now a _ d2 S3).
  unfold del_dead. apply orb_false_iff. split; [apply orb_false_iff; split|].
  - (* not completed-old: else the first job matched d0 *)
    subst d2 d1. destruct (d_null_link_fields (job_matches st1 JPruneExpiredDeliveries now a)
                             (d_null_link (job_matches st JPruneCompletedDeliveries now a) d0)) as (A & _).
    destruct (d_null_link_fields (job_matches st JPruneCompletedDeliveries now a) d0) as (A' & _).
    rewrite A, A'.
    destruct (match d_completed d0 with Some c => c <=? now - a | None => false end) eqn:X; [|reflexivity].
    exfalso. apply N1. cbn [job_matches]. apply in_map. apply filter_In. auto.
  - subst d2. destruct (d_null_link_fields (job_matches st1 JPruneExpiredDeliveries now a) d1) as (_ & B & _).
    rewrite B. destruct (d_expires d1 <? now) eqn:X; [|reflexivity].
    exfalso. apply N2. cbn [job_matches]. apply in_map. apply filter_In. auto.
  - destruct (match get_sub st2 (d_sub d2) with
              | Some s => match s_deleted s with Some t => t <=? now - a | None => false end
              | None => false end) eqn:X; [|reflexivity].
    exfalso. apply N3. cbn [job_matches]. apply in_map. apply filter_In. auto.
Qed.

(* ---- non-vacuity: a concrete reachable state on which the hypotheses hold and a prune
   job really removes a row (a completed delivery that is the ordering predecessor of an
   outstanding one, so the successor's link is nulled) ---- *)
Module Example15.
  Definition tn : str := "projects/p/topics/t".
  Definition sn : str := "projects/p/subscriptions/s".
  Definition q0 := mkSubreq sn tn 0 0 true [] "" false None None None.
  Definition h0 : hist :=
    [ (100, CreateTopic tn [] false 1%N);
      (200, CreateSub q0 2%N 200);
      (300, Publish tn [mkPubmsg "1" true [] "k" 1 10%N 300; mkPubmsg "2" true [] "k" 1 11%N 301]
                    [(10%N, 2%N, 20%N); (11%N, 2%N, 21%N)]);
      (400, Pull sn 1 [20%N] [] 400 [] []);
      (500, Ack sn (Some [20%N]) 500) ].
  Definition st0 := run empty_state h0.
  Definition j0 := Job JPruneCompletedDeliveries 0 5 [20%N] false 600 [].

  Example reachable0 : reachable st0.
  Proof. apply (reachable_by st0 h0); [vm_compute; reflexivity|reflexivity]. Qed.

  Example hypotheses_hold :
    ids_unique st0 /\ links_same_sub st0 /\ legal st0 600 j0 /\
    length (dels (post st0 600 j0)) = 1%nat /\ length (dels st0) = 2%nat /\
    map d_not_before (dels st0) = [None; Some 20%N] /\ map d_not_before (dels (post st0 600 j0)) = [None] /\
    length (v_dels (view_of st0 600)) = 1%nat.
  Proof.
    split; [apply reachable_ok; exact reachable0|].
    split; [apply reachable_links_same_sub; exact reachable0|].
    repeat split; vm_compute; reflexivity.
  Qed.

  Example invisible_here : view_of (post st0 600 j0) 600 = view_of st0 600.
  Proof.
    destruct hypotheses_hold as (U & K & L & _).
    apply prune_invisible; [reflexivity|lia|exact U|exact K|exact L].
  Qed.
End Example15.

(* ---- the executable monitor is quiet on every model step ----
   [View.prune_step_visible] is what the correspondence check evaluates on the
   implementation's observed (pre, op, post): on the model's own post-state it never fires *)
Theorem monitor_quiet_on_model st now hi j mn mx chosen failed w fr resp skip :
  0 <= mn -> ids_unique st -> links_same_sub st ->
  legal st now (Job j mn mx chosen failed w fr) ->
  prune_step_visible st (Check.mkObs now hi (Job j mn mx chosen failed w fr) resp
                                     (post st now (Job j mn mx chosen failed w fr)) skip) = false.
Proof.
  intros Hmn U K L. unfold prune_step_visible. cbn [Check.o_op Check.o_post Check.o_lo Check.o_skip].
  destruct failed; [reflexivity|].
  destruct (is_prune j) eqn:Hj; [|reflexivity]. cbn [andb].
  rewrite (prune_invisible st now j mn mx chosen w fr Hj Hmn U K L), view_eqb_refl.
  destruct skip; reflexivity.
Qed.
