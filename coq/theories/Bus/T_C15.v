(* Bus/T_C15.v -- C15: background pruning is invisible to clients and converges.
   (After the fixes of F8 -- a deleted topic still named as dead-letter topic by a live
   subscription is kept -- and F10 -- pruning a topic takes its snapshots with it.) *)
From MB Require Import Base.
From MB.Bus Require Import State Ops Step Defs T_Inv.
Local Open Scope string_scope.
Open Scope list_scope.
Open Scope Z_scope.

Definition is_prune (j : job) : bool :=
  match j with
  | JPruneCompletedDeliveries | JPruneExpiredDeliveries | JPruneCompletedMessages
  | JPruneDeletedSubDeliveries | JPruneDeletedSubs | JPruneDeletedTopics => true
  | _ => false
  end.

(* ---- what clients can observe ---- *)
(* an outstanding delivery as a client sees it: its ack id, message content, attempt
   count, deadlines, and whether ordering currently holds it back *)
Record odel := mkOdel {
  o_id : id; o_sub : id; o_msg : option msg; o_attempts : Z; o_attempt_at : time; o_expires : time;
  o_published : time; o_blocked : bool }.

Definition view_del (st : state) (now : time) (d : del) : odel :=
  mkOdel (d_id d) (d_sub d) (get_msg st (d_msg d)) (d_attempts d) (d_attempt_at d) (d_expires d) (d_published d)
         (match get_sub st (d_sub d) with Some s => s_ordered s && pred_blocks st now d | None => false end).

Record view := mkView {
  v_topics : list topic;              (* live topics *)
  v_subs : list sub;                  (* live subscriptions, full configuration *)
  v_dltopic_names : list (id * str);  (* how each live subscription's dead-letter topic renders *)
  v_topic_names : list (id * str);    (* how each live subscription's topic renders *)
  v_snaps : list snap;                (* snapshots of live topics (DeleteTopic removes a topic's snapshots) *)
  v_dels : list odel }.               (* outstanding deliveries *)

Definition view_of (st : state) (now : time) : view :=
  mkView (filter topic_live (topics st))
         (filter sub_live (subs st))
         (flat_map (fun s => match s_dl_topic s with
                             | Some t => [(s_id s, render_topic_name st t)]
                             | None => []
                             end) (filter sub_live (subs st)))
         (map (fun s => (s_id s, render_topic_name st (s_topic s))) (filter sub_live (subs st)))
         (filter (fun n => match get_topic st (n_topic n) with
                           | Some t => topic_live t
                           | None => false
                           end) (snaps st))
         (map (view_del st now) (filter (outstanding st now) (dels st))).

(* predecessor links stay within one subscription (deliverToSubscription only looks at
   deliveries of the same subscription): an invariant of every legal step *)
Definition links_same_sub (st : state) : Prop :=
  forall d p pd, In d (dels st) -> d_not_before d = Some p -> In pd (dels st) -> d_id pd = p -> d_sub pd = d_sub d.

Theorem links_same_sub_empty : links_same_sub empty_state.
Admitted.

Theorem step_links_same_sub st now o :
  ids_unique st -> legal st now o -> links_same_sub st -> links_same_sub (post st now o).
Admitted.

(* ---- invisibility ---- *)
(* Running any prune job, with any age >= 0, any batch size and any legal choice of rows,
   at any time, leaves the client-visible view exactly as it was: no live topic, live
   subscription (nor any of its settings, including its dead-letter policy), outstanding
   delivery or message of an outstanding delivery is removed or changed, and what ordering
   holds back stays held back. *)
Theorem prune_invisible st now j mn mx chosen w fr :
  is_prune j = true -> 0 <= mn ->
  ids_unique st -> refs_ok st -> links_same_sub st ->
  legal st now (Job j mn mx chosen false w fr) ->
  view_of (post st now (Job j mn mx chosen false w fr)) now = view_of st now.
Admitted.

(* a failed job changes nothing at all *)
Theorem failed_job_invisible st now j mn mx chosen w fr :
  post st now (Job j mn mx chosen true w fr) = st.
Admitted.

(* what the jobs remove is dead: completed (long enough ago) or expired deliveries,
   deliveries of deleted subscriptions, messages no delivery refers to, soft-deleted
   subscriptions without deliveries, soft-deleted topics without subscriptions *)
Theorem prune_removes_only_dead st now j mn mx chosen w fr d :
  is_prune j = true -> 0 <= mn -> ids_unique st ->
  legal st now (Job j mn mx chosen false w fr) ->
  In d (dels st) -> ~ has_id d_id (d_id d) (dels (post st now (Job j mn mx chosen false w fr))) = true ->
  outstanding st now d = false.
Admitted.

(* ---- convergence ---- *)
(* the dead rows of a state (what the jobs are meant to reclaim), for age threshold a *)
Definition dead_dels (st : state) (now a : Z) : list del :=
  filter (fun d => (match d_completed d with Some c => c <=? now - a | None => false end) ||
                   (d_expires d <? now) ||
                   (match get_sub st (d_sub d) with
                    | Some s => match s_deleted s with Some t => t <=? now - a | None => false end
                    | None => false
                    end)) (dels st).

(* progress: a job whose matching set is non-empty and whose batch size is positive,
   run with a legal choice, removes at least one row (or, for the one job that can fail,
   fails only because some matching topic still has messages, which
   PruneCompletedMessages reclaims once their deliveries are gone) *)
Theorem prune_progress st now j mn mx chosen w fr :
  is_prune j = true -> 1 <= mx ->
  legal st now (Job j mn mx chosen false w fr) ->
  job_matches st j now mn <> [] ->
  chosen <> [] /\
  (match j with
   | JPruneCompletedDeliveries | JPruneExpiredDeliveries | JPruneDeletedSubDeliveries =>
       (length (dels (post st now (Job j mn mx chosen false w fr))) < length (dels st))%nat
   | JPruneCompletedMessages =>
       (length (msgs (post st now (Job j mn mx chosen false w fr))) < length (msgs st))%nat
   | JPruneDeletedSubs =>
       (length (subs (post st now (Job j mn mx chosen false w fr))) < length (subs st))%nat
   | JPruneDeletedTopics =>
       answer st now (Job j mn mx chosen false w fr) = RErr Unknown \/
       (length (topics (post st now (Job j mn mx chosen false w fr))) < length (topics st))%nat
   | _ => True
   end).
Admitted.

(* the jobs enable one another in dependency order, so nothing stays stuck: *)
(* once no delivery refers to it, an old enough message is matched *)
Theorem messages_become_prunable st now mn m :
  In m (msgs st) -> m_published m <= now - mn ->
  (forall d, In d (dels st) -> d_msg d <> m_id m) ->
  In (m_id m) (job_matches st JPruneCompletedMessages now mn).
Admitted.

(* once it has no deliveries, an old enough deleted subscription is matched *)
Theorem subs_become_prunable st now mn s t :
  In s (subs st) -> s_deleted s = Some t -> t <= now - mn ->
  (forall d, In d (dels st) -> d_sub d <> s_id s) ->
  In (s_id s) (job_matches st JPruneDeletedSubs now mn).
Admitted.

(* once it has no subscriptions (and no live subscription names it as dead-letter topic),
   an old enough deleted topic is matched; and when it has no messages either the job
   cannot fail on it *)
Theorem topics_become_prunable st now mn t dt :
  In t (topics st) -> t_deleted t = Some dt -> dt <= now - mn ->
  (forall s, In s (subs st) -> s_topic s <> t_id t) ->
  (forall s, In s (subs st) -> sub_live s = true -> s_dl_topic s <> Some (t_id t)) ->
  In (t_id t) (job_matches st JPruneDeletedTopics now mn).
Admitted.

Theorem topic_prune_cannot_fail st now mn mx chosen w fr :
  legal st now (Job JPruneDeletedTopics mn mx chosen false w fr) ->
  (forall i, In i chosen -> forall m, In m (msgs st) -> m_topic m <> i) ->
  exists n, answer st now (Job JPruneDeletedTopics mn mx chosen false w fr) = RCount n.
Admitted.

(* every dead delivery is matched by one of the three delivery jobs *)
Theorem dead_deliveries_matched st now a d :
  0 <= a -> In d (dead_dels st now a) ->
  In (d_id d) (job_matches st JPruneCompletedDeliveries now a) \/
  In (d_id d) (job_matches st JPruneExpiredDeliveries now a) \/
  In (d_id d) (job_matches st JPruneDeletedSubDeliveries now a).
Admitted.

(* a canonical full round (each job run with an unbounded batch, choosing everything it
   matches, in dependency order) leaves no dead delivery behind *)
Definition run_all (st : state) (now : time) (j : job) (a : Z) : state :=
  post st now (Job j a (Z.of_nat (length (job_matches st j now a))) (job_matches st j now a) false now []).

Theorem full_round_reclaims_deliveries st now a :
  0 <= a -> ids_unique st ->
  let st1 := run_all st now JPruneCompletedDeliveries a in
  let st2 := run_all st1 now JPruneExpiredDeliveries a in
  let st3 := run_all st2 now JPruneDeletedSubDeliveries a in
  dead_dels st3 now a = [].
Admitted.
