(* Bus/L13_Lists.v -- generic list / table lemmas used by T_C13 (seek and snapshots). *)
From MB Require Import Base.
From MB.Bus Require Import State.
Open Scope list_scope.
Open Scope Z_scope.

Section Table.
  Context {R : Type} (key : R -> id).

  Lemma In_ins_old (r x : R) l : In x l -> In x (ins key r l).
  Proof.
    induction l as [|y l IH]; intros H.
    - destruct H.
    - cbn [ins]. destruct (key r <? key y)%N.
      + right. exact H.
      + destruct H as [H|H]; [left; exact H | right; apply IH; exact H].
  Qed.

  Lemma In_ins_new (r : R) l : In r (ins key r l).
  Proof.
    induction l as [|y l IH]; cbn [ins].
    - left; reflexivity.
    - destruct (key r <? key y)%N; [left; reflexivity | right; exact IH].
  Qed.

  Lemma find_ins_new (p : R -> bool) (r : R) l :
    p r = true -> find p l = None -> find p (ins key r l) = Some r.
  Proof.
    intros Hp. induction l as [|y l IH]; cbn [ins find]; intros H.
    - rewrite Hp. reflexivity.
    - destruct (p y) eqn:Hy; [discriminate|].
      destruct (key r <? key y)%N; cbn [find].
      + rewrite Hp. reflexivity.
      + rewrite Hy. apply IH. exact H.
  Qed.

  Lemma find_id_Some i l (r : R) : find_id key i l = Some r -> In r l /\ key r = i.
  Proof.
    induction l as [|y l IH]; cbn [find_id]; intros H; [discriminate|].
    destruct (N.eqb (key y) i) eqn:E.
    - inversion H; subst. split; [left; reflexivity | apply N.eqb_eq; exact E].
    - destruct (IH H) as [H1 H2]. split; [right; exact H1 | exact H2].
  Qed.

  Lemma find_id_unique l (r : R) :
    NoDup (map key l) -> In r l -> find_id key (key r) l = Some r.
  Proof.
    induction l as [|y l IH]; intros Hnd Hin; [destruct Hin|].
    cbn [map] in Hnd. inversion Hnd as [|k ks Hnotin Hnd']; subst.
    cbn [find_id]. destruct Hin as [Hin|Hin].
    - subst y. rewrite N.eqb_refl. reflexivity.
    - destruct (N.eqb (key y) (key r)) eqn:E.
      + apply N.eqb_eq in E. exfalso. apply Hnotin. rewrite E. apply in_map. exact Hin.
      + apply IH; assumption.
  Qed.

  Lemma has_id_true i (l : list R) : has_id key i l = true -> exists r, find_id key i l = Some r.
  Proof.
    unfold has_id. destruct (find_id key i l) as [r|]; intros H; [exists r; reflexivity | discriminate].
  Qed.
End Table.

Lemma mem_id_In i l : mem_id i l = true <-> In i l.
Proof.
  unfold mem_id. rewrite existsb_exists. split.
  - intros [x [Hx E]]. apply N.eqb_eq in E. subst x. exact Hx.
  - intros H. exists i. split; [exact H | apply N.eqb_refl].
Qed.

Lemma mem_id_nil i : mem_id i [] = false.
Proof. reflexivity. Qed.

Lemma In_ins_id x i l : In x (ins_id i l) <-> x = i \/ In x l.
Proof.
  induction l as [|y l IH]; cbn [ins_id].
  - cbn. intuition.
  - destruct (i <? y)%N.
    + cbn [In]. intuition.
    + destruct (N.eqb i y) eqn:E.
      * apply N.eqb_eq in E. subst y. cbn [In]. intuition.
      * cbn [In]. rewrite IH. intuition.
Qed.

Lemma In_sort_ids x l : In x (sort_ids l) <-> In x l.
Proof.
  unfold sort_ids. induction l as [|y l IH]; cbn [fold_right].
  - reflexivity.
  - rewrite In_ins_id, IH. cbn [In]. intuition.
Qed.

Lemma mem_id_sort_ids i l : mem_id i (sort_ids l) = mem_id i l.
Proof.
  destruct (mem_id i l) eqn:E.
  - apply mem_id_In. apply In_sort_ids. apply mem_id_In. exact E.
  - destruct (mem_id i (sort_ids l)) eqn:E'; [|reflexivity].
    apply (proj1 (mem_id_In _ _)) in E'. apply (proj1 (In_sort_ids _ _)) in E'.
    apply (proj2 (mem_id_In _ _)) in E'. rewrite E in E'. discriminate.
Qed.

(* ORDER BY k ASC LIMIT 1 as a fold: the result is minimal *)
Section FoldMin.
  Context {R : Type} (k : R -> Z).
  Definition min_step (best : option R) (d : R) : option R :=
    match best with
    | None => Some d
    | Some b => if k d <? k b then Some d else best
    end.

  Lemma fold_min l : forall init,
    match fold_left min_step l init with
    | None => init = None /\ l = []
    | Some b => (forall x, In x l -> k b <= k x) /\ (forall i, init = Some i -> k b <= k i)
    end.
  Proof.
    induction l as [|a l IH]; intros init; cbn [fold_left].
    - destruct init as [b|].
      + split; [intros x []|]. intros i H. inversion H; subst. lia.
      + split; reflexivity.
    - specialize (IH (min_step init a)).
      destruct (fold_left min_step l (min_step init a)) as [r|].
      + destruct IH as [IH1 IH2]. unfold min_step in IH2.
        destruct init as [b|].
        * destruct (k a <? k b) eqn:E.
          -- apply Z.ltb_lt in E. specialize (IH2 a eq_refl). split.
             ++ intros x [Hx|Hx]; [subst x; lia | apply IH1; exact Hx].
             ++ intros i H. inversion H; subst. lia.
          -- apply Z.ltb_ge in E. specialize (IH2 b eq_refl). split.
             ++ intros x [Hx|Hx]; [subst x; lia | apply IH1; exact Hx].
             ++ intros i H. inversion H; subst. lia.
        * specialize (IH2 a eq_refl). split.
          -- intros x [Hx|Hx]; [subst x; lia | apply IH1; exact Hx].
          -- intros i H. discriminate.
      + destruct IH as [IH1 _]. unfold min_step in IH1.
        destruct init as [b|]; [destruct (k a <? k b)|]; discriminate.
  Qed.
End FoldMin.
