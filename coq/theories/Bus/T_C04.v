(* Bus/T_C04.v -- C04: redelivery lease. The backoff function itself is in
   BackoffProofs.v (monotone, capped, saturating); [nominal_delay] is that function. *)
From MB Require Import Base Backoff.
From MB.Bus Require Import State Ops Step Defs.
Local Open Scope string_scope.
Open Scope list_scope.
Open Scope Z_scope.

Theorem nominal_delay_is_backoff minb maxb n : nominal_delay minb maxb n = Backoff.nominal minb maxb n.
Admitted.

(* ---- what a pull does to a delivery it hands out ---- *)
(* Handing a delivery out as attempt n = attempts + 1 sets its next attempt to
   (time of the pulling transaction) + backoff(n) + jitter, jitter in [0, 1 s) (up to the
   float tolerance), and records the attempt; nothing else about the row changes. *)
Theorem pull_lease st now name max returned others w fz fr p :
  ids_unique st -> legal st now (Pull name max returned others w fz fr) ->
  In p (pulled_of (answer st now (Pull name max returned others w fz fr))) ->
  exists s d d', find_live_sub st name = Some s /\ In d (dels st) /\ d_id d = p_ack p /\ d_sub d = s_id s /\
    In d' (dels (post st now (Pull name max returned others w fz fr))) /\ d_id d' = d_id d /\
    p_attempt p = d_attempts d + 1 /\ d_attempts d' = d_attempts d + 1 /\
    d_attempt_at d <= now /\
    (let nom := nominal_delay (s_minb s) (s_maxb s) (d_attempts d + 1) in
     w + nom - float_tol <= d_attempt_at d' < w + nom + sec + float_tol) /\
    d_completed d' = None /\ d_expires d' = d_expires d /\ d_msg d' = d_msg d /\ d_sub d' = d_sub d /\
    d_published d' = d_published d /\ d_not_before d' = d_not_before d /\ d_last d' = Some w.
Admitted.

(* a pull only hands out deliveries whose lease has lapsed: attempt_at <= now *)
Theorem pull_respects_lease st now name max returned others w fz fr d :
  ids_unique st -> legal st now (Pull name max returned others w fz fr) ->
  In d (dels st) -> now < d_attempt_at d ->
  ~ In (d_id d) (map p_ack (pulled_of (answer st now (Pull name max returned others w fz fr)))).
Admitted.

(* attempts are only ever incremented by a pull handing the delivery out, by exactly 1 *)
Theorem attempts_only_by_pull st now o d d' :
  ids_unique st -> legal st now o ->
  In d (dels st) -> In d' (dels (post st now o)) -> d_id d' = d_id d ->
  d_attempts d' = d_attempts d \/
  (d_attempts d' = d_attempts d + 1 /\
   exists name max returned others w fz fr, o = Pull name max returned others w fz fr /\
     In (d_id d) (map p_ack (pulled_of (answer st now o)))).
Admitted.

(* ---- what may bring attempt_at forward (make a delivery due earlier) ---- *)
(* Only an explicit nack (stream Nack, ModifyAckDeadline <= 0) or a seek reviving the
   delivery can move attempt_at to an earlier instant; a positive ModifyAckDeadline, a
   pull and everything else can only postpone it or leave it. *)
Definition may_advance (st : state) (o : op) (d : del) : bool :=
  match o with
  | ModAck _ (Some ids) secs _ => (secs <=? 0) && mem_id (d_id d) ids
  | StreamAckNack _ nacks _ _ _ => mem_id (d_id d) nacks
  | SeekTime name _ _ | SeekSnap name _ _ =>
      match sub_of_name st name with Some i => N.eqb i (d_sub d) | None => false end
  | _ => false
  end.

Theorem lease_only_shortened_explicitly st now o d d' :
  ids_unique st -> legal st now o -> (forall w, op_wnow o = Some w -> now <= w) ->
  In d (dels st) -> In d' (dels (post st now o)) -> d_id d' = d_id d ->
  may_advance st o d = false ->
  d_attempt_at d <= d_attempt_at d' + float_tol.
Admitted.

(* ---- ModifyAckDeadline ---- *)
Theorem modack_law st now name ids secs w d :
  valid_sub_name name = true -> ids_unique st ->
  In d (dels st) -> mem_id (d_id d) ids = true -> d_completed d = None ->
  exists d', In d' (dels (post st now (ModAck name (Some ids) secs w))) /\ d_id d' = d_id d /\
    d_attempt_at d' = (if secs <=? 0 then w + secs * sec else Z.max (d_attempt_at d) (w + secs * sec)) /\
    d_attempts d' = d_attempts d /\ d_completed d' = None /\ d_expires d' = d_expires d.
Admitted.

(* zero deadline: immediately redeliverable (attempt_at <= the transaction's time) *)
Corollary modack_zero_due st now name ids w d :
  valid_sub_name name = true -> ids_unique st ->
  In d (dels st) -> mem_id (d_id d) ids = true -> d_completed d = None ->
  exists d', In d' (dels (post st now (ModAck name (Some ids) 0 w))) /\ d_id d' = d_id d /\ d_attempt_at d' = w.
Admitted.

(* ---- nack reschedules by the backoff (or dead-letters) ---- *)
Theorem nack_law st now acks nacks w fz fr d s :
  ids_unique st -> legal st now (StreamAckNack acks nacks w fz fr) ->
  In d (dels st) -> mem_id (d_id d) nacks = true -> mem_id (d_id d) acks = false ->
  d_completed d = None -> now < d_expires d -> get_sub st (d_sub d) = Some s ->
  exists d', In d' (dels (post st now (StreamAckNack acks nacks w fz fr))) /\ d_id d' = d_id d /\
    d_attempts d' = d_attempts d /\
    if full_dl s && (max_attempts_of s <=? d_attempts d)
    then d_completed d' = Some w
    else d_completed d' = None /\
         (let nom := nominal_delay (s_minb s) (s_maxb s) (d_attempts d) in
          w + nom - float_tol <= d_attempt_at d' < w + nom + sec + float_tol).
Admitted.

(* ---- exclusivity over histories ---- *)
(* After a delivery has been handed out with next attempt at T, no pull at any time
   before T - tolerance returns it again -- to anyone -- in any legal continuation that
   contains no nack, non-positive deadline change or seek for it. *)
Theorem C04_exclusive h : forall st d T,
  ids_unique st -> all_legal st h ->
  (forall s now o w, In (s, now, o) (trace st h) -> op_wnow o = Some w -> now <= w) ->
  In d (dels st) -> T <= d_attempt_at d ->
  (forall s now o d0, In (s, now, o) (trace st h) -> In d0 (dels s) -> d_id d0 = d_id d ->
                      may_advance s o d0 = false) ->
  (forall s now o, In (s, now, o) (trace st h) -> ~ In (d_id d) (op_fresh_dels o)) ->
  forall s now o, In (s, now, o) (trace st h) -> now < T - float_tol * Z.of_nat (length h) ->
    ~ In (d_id d) (map p_ack (pulled_of (answer s now o))).
Admitted.
