(* Bus/T_C04.v -- C04: redelivery lease. The backoff function itself is in
   BackoffProofs.v (monotone, capped, saturating); [nominal_delay] is that function. *)
From MB Require Import Base Backoff.
From MB.Bus Require Import State Ops Step Defs T_Inv L04_Lists L04_Evo L04_Pull L04_Step.
Local Open Scope string_scope.
Open Scope list_scope.
Open Scope Z_scope.

Theorem nominal_delay_is_backoff minb maxb n : nominal_delay minb maxb n = Backoff.nominal minb maxb n.
Proof. reflexivity. Qed.

(* ---- step-level consequences of the row descriptions in L04_*.v ---- *)
Lemma dels_unique st : ids_unique st -> NoDup (map d_id (dels st)).
Proof. intros [_ [_ [_ [H _]]]]. exact H. Qed.

Lemma step_rel st now o x x' :
  ids_unique st -> legal st now o ->
  (forall name max returned others w fz fr, o <> Pull name max returned others w fz fr) ->
  In x (dels st) -> In x' (dels (post st now o)) -> d_id x' = d_id x -> StepR st o x x'.
Proof.
  intros U L Hnp Hx Hx' He.
  destruct (step_desc_all st now o Hnp) as [V|B].
  - eapply evo_rel; eauto. apply dels_unique. apply step_ids_unique; assumption.
  - destruct (B x' Hx') as [x0 [H0 [E0 R0]]].
    assert (x0 = x) by (eapply (nodup_key_inj d_id); [apply dels_unique; exact U| | |]; eauto; congruence).
    subst x0. exact R0.
Qed.

Lemma step_origin st now o x' :
  ids_unique st -> legal st now o -> In x' (dels (post st now o)) ->
  In (d_id x') (map d_id (dels st)) \/ In (d_id x') (op_fresh_dels o).
Proof.
  intros U L Hx'. destruct (pull_or_not o) as [[name [max [returned [others [w [fz [fr ->]]]]]]]|Hnp].
  - destruct (pull_legal st now name max returned others w fz fr U L)
      as [[Hp _]|[s [st1 [fr1 [ps [wk [_ [E [Hp _]]]]]]]]].
    + rewrite Hp in Hx'. left. apply in_map. exact Hx'.
    + rewrite Hp in Hx'. apply AR_evo in E; [|reflexivity]. destruct E as [_ [_ V]].
      exact (evo_origin _ _ _ _ _ V Hx').
  - destruct (step_desc_all st now o Hnp) as [V|B].
    + exact (evo_origin _ _ _ _ _ V Hx').
    + destruct (B x' Hx') as [x0 [H0 [E0 _]]]. left. rewrite <- E0. apply in_map. exact H0.
Qed.

(* ---- what a pull does to a delivery it hands out ---- *)
(* Handing a delivery out as attempt n = attempts + 1 sets its next attempt to
   (time of the pulling transaction) + backoff(n) + jitter, jitter in [0, 1 s) (up to the
   float tolerance), and records the attempt; nothing else about the row changes. *)
Theorem pull_lease st now name max returned others w fz fr p :
  ids_unique st -> legal st now (Pull name max returned others w fz fr) ->
  In p (pulled_of (answer st now (Pull name max returned others w fz fr))) ->
  exists s d d', find_live_sub st name = Some s /\ In d (dels st) /\ d_id d = p_ack p /\ d_sub d = s_id s /\
    In d' (dels (post st now (Pull name max returned others w fz fr))) /\ d_id d' = d_id d /\
    p_attempt p = d_attempts d + 1 /\ d_attempts d' = d_attempts d + 1 /\
    d_attempt_at d <= now /\
    (let nom := nominal_delay (s_minb s) (s_maxb s) (d_attempts d + 1) in
     w + nom - float_tol <= d_attempt_at d' < w + nom + sec + float_tol) /\
    d_completed d' = None /\ d_expires d' = d_expires d /\ d_msg d' = d_msg d /\ d_sub d' = d_sub d /\
    d_published d' = d_published d /\ d_not_before d' = d_not_before d /\ d_last d' = Some w.
Proof.
  intros U L Hp.
  destruct (pull_legal st now name max returned others w fz fr U L)
    as [[_ Ha]|[s [st1 [fr1 [ps [wk [Hs [E [Hpost [Ha [K1 K2]]]]]]]]]]].
  - rewrite Ha in Hp. destruct Hp.
  - rewrite Ha in Hp. cbn [pulled_of] in Hp.
    assert (Hin : forall c, In c (pull_cands st returned others) -> In c (dels (pull_st0 st s w)))
      by (intros c Hc; apply (K2 c Hc)).
    destruct (AR_lease _ _ _ _ _ _ _ _ _ _ _ _ _ _ _ _ E eq_refl K1 Hin p Hp)
      as [c [Hc [Hack [Hatt [Hl [Hf _]]]]]].
    destruct (K2 c Hc) as [Hcin Hel]. apply eligible_facts in Hel.
    destruct Hel as [Hsub [Hcomp [_ Hat]]].
    exists s, c, (leaseL s w fz c c). rewrite Hpost.
    apply fuzz_legal_bounds in Hf. unfold leaseL, nomL in *.
    cbn [d_lease d_id d_attempts d_attempt_at d_completed d_expires d_msg d_sub d_published d_not_before d_last].
    repeat split; auto; lia.
Qed.

(* a pull only hands out deliveries whose lease has lapsed: attempt_at <= now *)
Theorem pull_respects_lease st now name max returned others w fz fr d :
  ids_unique st -> legal st now (Pull name max returned others w fz fr) ->
  In d (dels st) -> now < d_attempt_at d ->
  ~ In (d_id d) (map p_ack (pulled_of (answer st now (Pull name max returned others w fz fr)))).
Proof.
  intros U L Hd Hlt Hi.
  destruct (pull_legal st now name max returned others w fz fr U L)
    as [[_ Ha]|[s [st1 [fr1 [ps [wk [Hs [E [Hpost [Ha [K1 K2]]]]]]]]]]].
  - rewrite Ha in Hi. destruct Hi.
  - rewrite Ha in Hi. cbn [pulled_of] in Hi.
    destruct (AR_acks _ _ _ _ _ _ _ _ _ _ _ _ _ _ _ _ E K1) as [_ Hincl].
    apply Hincl in Hi. apply in_map_iff in Hi. destruct Hi as [c [Ec Hc]].
    destruct (K2 c Hc) as [Hcin Hel]. apply eligible_facts in Hel.
    assert (c = d) by (eapply (nodup_key_inj d_id); [apply dels_unique; exact U| | |]; eauto).
    subst c. lia.
Qed.

(* attempts are only ever incremented by a pull handing the delivery out, by exactly 1 *)
Theorem attempts_only_by_pull st now o d d' :
  ids_unique st -> legal st now o ->
  In d (dels st) -> In d' (dels (post st now o)) -> d_id d' = d_id d ->
  d_attempts d' = d_attempts d \/
  (d_attempts d' = d_attempts d + 1 /\
   exists name max returned others w fz fr, o = Pull name max returned others w fz fr /\
     In (d_id d) (map p_ack (pulled_of (answer st now o)))).
Proof.
  intros U L Hd Hd' He.
  destruct (pull_or_not o) as [[name [max [returned [others [w [fz [fr ->]]]]]]]|Hnp].
  - destruct (pull_legal st now name max returned others w fz fr U L)
      as [[Hpost _]|[s [st1 [fr1 [ps [wk [Hs [E [Hpost [Ha [K1 K2]]]]]]]]]]].
    + rewrite Hpost in Hd'. left.
      assert (d' = d) by (eapply (nodup_key_inj d_id); [apply dels_unique; exact U| | |]; eauto).
      subst d'. reflexivity.
    + pose proof (step_ids_unique _ _ _ U L) as U'. apply dels_unique in U'.
      rewrite Hpost in Hd', U'.
      destruct (AR_acks _ _ _ _ _ _ _ _ _ _ _ _ _ _ _ _ E K1) as [Hnd _].
      apply AR_evo in E; [|reflexivity]. destruct E as [_ [_ V]].
      destruct (evo_rel _ _ _ _ V U' d d' Hd Hd' He) as [_ [Hcnt _]].
      pose proof (count_occ_nodup_le (map p_ack ps) (d_id d) Hnd) as Hle.
      destruct (count_occ N.eq_dec (map p_ack ps) (d_id d)) as [|k] eqn:Ek.
      * left. rewrite Hcnt. cbn. lia.
      * right. split; [rewrite Hcnt; destruct k; [cbn; lia|lia]|].
        exists name, max, returned, others, w, fz, fr. split; [reflexivity|].
        rewrite Ha. cbn [pulled_of].
        apply (count_occ_In N.eq_dec). unfold State.id in *. rewrite Ek. lia.
  - left. exact (proj1 (step_rel st now o d d' U L Hnp Hd Hd' He)).
Qed.

(* ---- what may bring attempt_at forward (make a delivery due earlier) ---- *)
(* Only an explicit nack (stream Nack, ModifyAckDeadline <= 0) or a seek reviving the
   delivery can move attempt_at to an earlier instant; a positive ModifyAckDeadline, a
   pull and everything else can only postpone it or leave it. *)
Definition may_advance (st : state) (o : op) (d : del) : bool :=
  match o with
  | ModAck _ (Some ids) secs _ => (secs <=? 0) && mem_id (d_id d) ids
  | StreamAckNack _ nacks _ _ _ => mem_id (d_id d) nacks
  | SeekTime name _ _ | SeekSnap name _ _ =>
      match sub_of_name st name with Some i => N.eqb i (d_sub d) | None => false end
  | _ => false
  end.

Theorem lease_only_shortened_explicitly st now o d d' :
  ids_unique st -> legal st now o -> (forall w, op_wnow o = Some w -> now <= w) ->
  In d (dels st) -> In d' (dels (post st now o)) -> d_id d' = d_id d ->
  may_advance st o d = false ->
  d_attempt_at d <= d_attempt_at d' + float_tol.
Proof.
  intros U L Hw Hd Hd' He Hadv.
  destruct (pull_or_not o) as [[name [max [returned [others [w [fz [fr ->]]]]]]]|Hnp].
  - destruct (pull_legal st now name max returned others w fz fr U L)
      as [[Hpost _]|[s [st1 [fr1 [ps [wk [Hs [E [Hpost [Ha [K1 K2]]]]]]]]]]].
    + rewrite Hpost in Hd'.
      assert (d' = d) by (eapply (nodup_key_inj d_id); [apply dels_unique; exact U| | |]; eauto).
      subst d'. unfold float_tol. lia.
    + pose proof (step_ids_unique _ _ _ U L) as U'. apply dels_unique in U'.
      rewrite Hpost in Hd', U'.
      apply AR_evo in E; [|reflexivity]. destruct E as [_ [_ V]].
      destruct (evo_rel _ _ _ _ V U' d d' Hd Hd' He) as [_ [_ [Heq|[Hi Hge]]]].
      * rewrite Heq. unfold float_tol. lia.
      * apply in_map_iff in Hi. destruct Hi as [c [Ec Hc]].
        destruct (K2 c Hc) as [Hcin Hel]. apply eligible_facts in Hel.
        assert (c = d) by (eapply (nodup_key_inj d_id); [apply dels_unique; exact U| | |]; eauto).
        subst c. specialize (Hw w eq_refl). unfold float_tol in *. lia.
  - destruct (step_rel st now o d d' U L Hnp Hd Hd' He) as [_ H].
    change (may_advance st o d) with (adv st o d) in Hadv. specialize (H Hadv).
    unfold float_tol. lia.
Qed.

(* ---- ModifyAckDeadline ---- *)
Theorem modack_law st now name ids secs w d :
  valid_sub_name name = true -> ids_unique st ->
  In d (dels st) -> mem_id (d_id d) ids = true -> d_completed d = None ->
  exists d', In d' (dels (post st now (ModAck name (Some ids) secs w))) /\ d_id d' = d_id d /\
    d_attempt_at d' = (if secs <=? 0 then w + secs * sec else Z.max (d_attempt_at d) (w + secs * sec)) /\
    d_attempts d' = d_attempts d /\ d_completed d' = None /\ d_expires d' = d_expires d.
Proof.
  intros Hv U Hd Hm Hc.
  assert (Hp : ack_pred ids d = true).
  { unfold ack_pred. rewrite Hm, Hc. reflexivity. }
  unfold post, step. rewrite Hv. cbn [negb]. unfold do_delay.
  destruct (secs * sec <=? 0) eqn:E; cbn [done r_state set_dels dels].
  - pose proof (in_upd_where_intro (ack_pred ids) (d_set_attempt_at (w + secs * sec)) (dels st) d Hd) as Hi.
    rewrite Hp in Hi. eexists. split; [exact Hi|].
    assert (Hs : secs <=? 0 = true) by (apply Z.leb_le; apply Z.leb_le in E; pose proof sec_pos; nia).
    rewrite Hs. cbn [d_set_attempt_at d_id d_attempt_at d_attempts d_completed d_expires]. auto.
  - pose proof (in_upd_where_intro (fun d0 => ack_pred ids d0 && (d_attempt_at d0 <? w + secs * sec))
                  (d_set_attempt_at (w + secs * sec)) (dels st) d Hd) as Hi.
    cbv beta in Hi. rewrite Hp in Hi. cbn [andb] in Hi.
    assert (Hs : secs <=? 0 = false) by (apply Z.leb_gt; apply Z.leb_gt in E; pose proof sec_pos; nia).
    rewrite Hs. eexists. split; [exact Hi|].
    destruct (d_attempt_at d <? w + secs * sec) eqn:El;
      cbn [d_set_attempt_at d_id d_attempt_at d_attempts d_completed d_expires];
      [apply Z.ltb_lt in El|apply Z.ltb_ge in El]; repeat split; auto; lia.
Qed.

(* zero deadline: immediately redeliverable (attempt_at <= the transaction's time) *)
Corollary modack_zero_due st now name ids w d :
  valid_sub_name name = true -> ids_unique st ->
  In d (dels st) -> mem_id (d_id d) ids = true -> d_completed d = None ->
  exists d', In d' (dels (post st now (ModAck name (Some ids) 0 w))) /\ d_id d' = d_id d /\ d_attempt_at d' = w.
Proof.
  intros Hv U Hd Hm Hc.
  destruct (modack_law st now name ids 0 w d Hv U Hd Hm Hc) as [d' [H1 [H2 [H3 _]]]].
  exists d'. split; [exact H1|]. split; [exact H2|]. rewrite H3. cbn. lia.
Qed.

(* ---- nack reschedules by the backoff (or dead-letters) ---- *)
Theorem nack_law st now acks nacks w fz fr d s :
  ids_unique st -> legal st now (StreamAckNack acks nacks w fz fr) ->
  In d (dels st) -> mem_id (d_id d) nacks = true -> mem_id (d_id d) acks = false ->
  d_completed d = None -> now < d_expires d -> get_sub st (d_sub d) = Some s ->
  exists d', In d' (dels (post st now (StreamAckNack acks nacks w fz fr))) /\ d_id d' = d_id d /\
    d_attempts d' = d_attempts d /\
    if full_dl s && (max_attempts_of s <=? d_attempts d)
    then d_completed d' = Some w
    else d_completed d' = None /\
         (let nom := nominal_delay (s_minb s) (s_maxb s) (d_attempts d) in
          w + nom - float_tol <= d_attempt_at d' < w + nom + sec + float_tol).
Proof.
  intros U L Hd Hn Ha Hc Hexp Hs.
  unfold legal, post in *. unfold step in *. unfold do_ack in *.
  set (st1 := set_dels st (upd_where (ack_pred acks) (d_set_completed w) (dels st))) in *.
  destruct (do_nack st1 nacks now w fz fr) as [[[st2 fr2] w2] n2] eqn:E.
  cbn [done r_state r_notes] in *.
  apply app_eq_nil in L. destruct L as [Hn2 _]. subst n2.
  unfold do_nack in E.
  assert (Hd1 : In d (dels st1)).
  { unfold st1. cbn [set_dels dels].
    pose proof (in_upd_where_intro (ack_pred acks) (d_set_completed w) (dels st) d Hd) as Hi.
    unfold ack_pred in Hi at 1. rewrite Ha in Hi. exact Hi. }
  assert (Hnd1 : NoDup (map d_id (dels st1))).
  { unfold st1. cbn [set_dels dels]. rewrite map_key_upd; [apply dels_unique; exact U|reflexivity]. }
  pose proof (nack_each_law now w fz _ _ _ _ _ _ _ E eq_refl
                (nodup_map_filter d_id _ _ Hnd1)
                (fun c Hc0 => proj1 (proj1 (filter_In _ _ _) Hc0))) as Law.
  assert (Hds : In d (filter (fun d0 => mem_id (d_id d0) nacks && is_none (d_completed d0) && (now <? d_expires d0))
                             (dels st1))).
  { apply filter_In. split; [exact Hd1|]. rewrite Hn, Hc. cbn. apply Z.ltb_lt. exact Hexp. }
  specialize (Law d s Hds Hs).
  destruct (full_dl s && (max_attempts_of s <=? d_attempts d)).
  - eexists. split; [exact Law|]. cbn. auto.
  - destruct Law as [Law Hf]. eexists. split; [exact Law|].
    apply fuzz_legal_bounds in Hf. unfold nackN in *.
    cbn [d_set_attempt_at d_id d_attempts d_completed d_attempt_at].
    repeat split; auto; lia.
Qed.

(* ---- exclusivity over histories ---- *)
Lemma pulled_in_dels st now o i :
  ids_unique st -> legal st now o -> In i (map p_ack (pulled_of (answer st now o))) ->
  exists name max returned others w fz fr, o = Pull name max returned others w fz fr /\
    exists x, In x (dels st) /\ d_id x = i.
Proof.
  intros U L Hi.
  destruct (pull_or_not o) as [[name [max [returned [others [w [fz [fr ->]]]]]]]|Hnp].
  - exists name, max, returned, others, w, fz, fr. split; [reflexivity|].
    apply in_map_iff in Hi. destruct Hi as [p [Ep Hp]].
    destruct (pull_lease st now name max returned others w fz fr p U L Hp)
      as [s [x [x' [_ [Hx [Ex _]]]]]].
    exists x. split; [exact Hx|congruence].
  - rewrite (nonpull_answer st now o Hnp) in Hi. destruct Hi.
Qed.

(* invariant: after k steps every row with id i has attempt_at >= T - float_tol * k *)
Lemma excl_gen h : forall st i T,
  ids_unique st -> all_legal st h ->
  (forall s now o w, In (s, now, o) (trace st h) -> op_wnow o = Some w -> now <= w) ->
  (forall x, In x (dels st) -> d_id x = i -> T <= d_attempt_at x) ->
  (forall s now o d0, In (s, now, o) (trace st h) -> In d0 (dels s) -> d_id d0 = i ->
                      may_advance s o d0 = false) ->
  (forall s now o, In (s, now, o) (trace st h) -> ~ In i (op_fresh_dels o)) ->
  forall s now o, In (s, now, o) (trace st h) -> now < T - float_tol * Z.of_nat (length h) ->
    ~ In i (map p_ack (pulled_of (answer s now o))).
Proof.
  induction h as [|[now0 o0] r IH]; intros st i T U AL Hw HT Hadv Hfr s now o Hin Hlt; [destruct Hin|].
  cbn [trace] in *. cbn [length] in Hlt. rewrite Nat2Z.inj_succ in Hlt.
  assert (L0 : legal st now0 o0) by (apply AL; left; reflexivity).
  assert (Hk : 0 <= float_tol * Z.of_nat (length r)) by (unfold float_tol; lia).
  destruct Hin as [Heq|Hin].
  - inversion Heq; subst s now o. intros Hi.
    destruct (pulled_in_dels st now0 o0 i U L0 Hi)
      as [name [max [returned [others [w [fz [fr [-> [x [Hx Ex]]]]]]]]]].
    rewrite <- Ex in Hi.
    apply (pull_respects_lease st now0 name max returned others w fz fr x U L0 Hx); [|exact Hi].
    specialize (HT x Hx Ex). unfold float_tol in *. lia.
  - apply (IH (post st now0 o0) i (T - float_tol)).
    + apply step_ids_unique; assumption.
    + intros s1 n1 o1 H1. apply AL. right. exact H1.
    + intros s1 n1 o1 w1 H1. apply (Hw s1 n1 o1 w1). right. exact H1.
    + intros x' Hx' Ex'.
      destruct (step_origin st now0 o0 x' U L0 Hx') as [Ho|Ho].
      * apply in_map_iff in Ho. destruct Ho as [x [Ex Hx]].
        assert (Ha : may_advance st o0 x = false)
          by (apply (Hadv st now0 o0 x); [left; reflexivity|exact Hx|congruence]).
        pose proof (lease_only_shortened_explicitly st now0 o0 x x' U L0
                      (fun w0 Hw0 => Hw st now0 o0 w0 (or_introl eq_refl) Hw0) Hx Hx' (eq_sym Ex) Ha) as Hle.
        specialize (HT x Hx (eq_trans Ex Ex')). lia.
      * exfalso. apply (Hfr st now0 o0); [left; reflexivity|]. rewrite <- Ex'. exact Ho.
    + intros s1 n1 o1 d0 H1. apply (Hadv s1 n1 o1 d0). right. exact H1.
    + intros s1 n1 o1 H1. apply (Hfr s1 n1 o1). right. exact H1.
    + exact Hin.
    + lia.
Qed.

(* After a delivery has been handed out with next attempt at T, no pull at any time
   before T - tolerance returns it again -- to anyone -- in any legal continuation that
   contains no nack, non-positive deadline change or seek for it. *)
Theorem C04_exclusive h : forall st d T,
  ids_unique st -> all_legal st h ->
  (forall s now o w, In (s, now, o) (trace st h) -> op_wnow o = Some w -> now <= w) ->
  In d (dels st) -> T <= d_attempt_at d ->
  (forall s now o d0, In (s, now, o) (trace st h) -> In d0 (dels s) -> d_id d0 = d_id d ->
                      may_advance s o d0 = false) ->
  (forall s now o, In (s, now, o) (trace st h) -> ~ In (d_id d) (op_fresh_dels o)) ->
  forall s now o, In (s, now, o) (trace st h) -> now < T - float_tol * Z.of_nat (length h) ->
    ~ In (d_id d) (map p_ack (pulled_of (answer s now o))).
Proof.
  intros st d T U AL Hw Hd HT Hadv Hfr.
  apply (excl_gen h st (d_id d) T U AL Hw).
  - intros x Hx Ex.
    assert (x = d) by (eapply (nodup_key_inj d_id); [apply dels_unique; exact U| | |]; eauto).
    subst x. exact HT.
  - intros s now o d0 Hin Hd0 E0. apply (Hadv s now o d0 Hin Hd0 E0).
  - exact Hfr.
Qed.

Print Assumptions pull_lease.
Print Assumptions nack_law.
Print Assumptions lease_only_shortened_explicitly.
Print Assumptions C04_exclusive.
