(* Bus/L06_Step.v -- [rel] for every operation of [step]. *)
From MB Require Import Base.
From MB.Bus Require Import State Ops Step Defs L06_Lists L06_Rel.
Local Open Scope string_scope.
Open Scope list_scope.
Open Scope Z_scope.

(* why a step may newly complete the delivery with id [i] *)
Definition why (st : state) (now : time) (o : op) (i : id) : Prop :=
  match o with
  | Ack _ (Some ids) _ => mem_id i ids = true
  | StreamAckNack acks nacks wnow fz fr =>
      mem_id i acks = true \/
      nack_why (subs st)
        (filter (fun d => mem_id (d_id d) nacks && is_none (d_completed d) && (now <? d_expires d))
                (dels (fst (do_ack st acks wnow)))) i
  | SeekTime name _ _ | SeekSnap name _ _ =>
      exists s, find_live_sub st name = Some s /\ seek_I st s i
  | Pull name max returned others wnow fz fr =>
      exists s, valid_sub_name name = true /\ (max <? 1) = false /\
                find_live_sub st name = Some s /\
                pull_why s (flat_map (fun i => match get_del st i with Some d => [d] | None => [] end)
                                     (returned ++ others)) i
  | Job JDeadLetterSweep _ _ chosen false _ _ => In i chosen
  | _ => False
  end.

Definition seekK (st : state) (o : op) : id -> Prop := fun sid => is_seek_of st o sid = true.
Definition freshF (o : op) : id -> Prop := fun i => In i (op_fresh_dels o).

Ltac crush_same :=
  repeat (match goal with
          | |- rel _ _ _ _ (r_state (if ?c then _ else _)) => destruct c
          | |- rel _ _ _ _ (r_state (match ?x with _ => _ end)) => destruct x
          end);
  try (apply rel_dels_eq; reflexivity).

Lemma create_sub_rel F I K st q fresh wnow : rel F I K st (r_state (create_sub st q fresh wnow)).
Proof. unfold create_sub. crush_same. Qed.

Lemma update_sub_rel F I K st q paths wnow : rel F I K st (r_state (update_sub st q paths wnow)).
Proof. unfold update_sub. crush_same. Qed.

Theorem step_rel st now o : rel (freshF o) (why st now o) (seekK st o) st (post st now o).
Proof.
  unfold post. destruct o; cbn [step].
  - (* CreateTopic *) crush_same.
  - (* GetTopic *) crush_same.
  - (* UpdateTopic *) crush_same.
  - (* DeleteTopic *) crush_same.
  - (* ListTopics *) crush_same.
  - (* ListTopicSubs *) crush_same.
  - (* Publish *)
    destruct (negb (valid_topic_name topic)); [apply rel_refl|].
    destruct (find_live_topic st topic) as [t|]; [|apply rel_refl].
    destruct (publish_all st t ms fr) as [[[[st' fr'] w] n]|] eqn:E; [|apply rel_refl].
    apply (publish_all_rel (why st now (Publish topic ms fr)) (seekK st (Publish topic ms fr))) in E.
    destruct E as [R _]. exact R.
  - (* CreateSub *) apply create_sub_rel.
  - (* GetSub *) crush_same.
  - (* UpdateSub *) apply update_sub_rel.
  - (* ListSubs *) crush_same.
  - (* DeleteSub *) crush_same.
  - (* ModAck *)
    destruct (negb (valid_sub_name name)); [apply rel_refl|].
    destruct ids as [ids|]; [|apply rel_refl].
    pose proof (do_delay_rel (freshF (ModAck name (Some ids) seconds wnow))
                  (why st now (ModAck name (Some ids) seconds wnow))
                  (seekK st (ModAck name (Some ids) seconds wnow)) st ids (seconds * sec) wnow) as R.
    destruct (do_delay st ids (seconds * sec) wnow) as [st' w]. exact R.
  - (* Ack *)
    destruct (negb (valid_sub_name name)); [apply rel_refl|].
    destruct ids as [ids|]; [|apply rel_refl].
    pose proof (do_ack_rel (freshF (Ack name (Some ids) wnow))
                  (seekK st (Ack name (Some ids) wnow)) st ids wnow) as R.
    destruct (do_ack st ids wnow) as [st' w]. exact R.
  - (* Pull *)
    destruct (negb (valid_sub_name name)) eqn:V; [apply rel_refl|].
    destruct (max <? 1) eqn:M; [apply rel_refl|].
    destruct (find_live_sub st name) as [s|] eqn:FS; [|apply rel_refl].
    cbv zeta.
    match goal with |- context [apply_results ?a ?b ?c ?d ?e ?f ?g ?h ?i ?j ?k] =>
      destruct (apply_results a b c d e f g h i j k) as [[[[st1 fr1] ps] w] n] eqn:E end.
    cbn [r_state done].
    apply (apply_results_rel (seekK st (Pull name max returned others wnow fz fr))) in E.
    destruct E as (R&_).
    eapply rel_trans; [apply rel_dels_eq; reflexivity|].
    eapply rel_mono; [| | |exact R]; auto.
    intros i Hi. exists s. apply negb_false_iff in V. auto.
  - (* SeekTime *)
    destruct (negb (valid_sub_name name)); [apply rel_refl|].
    destruct (find_live_sub st name) as [s|] eqn:FS; [|apply rel_refl].
    pose proof (seek_time_rel (freshF (SeekTime name target wnow)) st s target now wnow) as R.
    destruct (seek_time st s target now wnow) as [st' w]. cbn [fst] in R. cbn [r_state done].
    eapply rel_mono; [| | |exact R]; auto.
    + intros i Hi. exists s. auto.
    + intros j Hj. unfold seek_K in Hj. subst j. unfold seekK, is_seek_of, sub_of_name.
      rewrite FS. cbn [option_map]. apply N.eqb_refl.
  - (* SeekSnap *)
    destruct (negb (valid_sub_name name)); [apply rel_refl|].
    destruct (negb (valid_snap_name snapname)); [apply rel_refl|].
    destruct (find_live_sub st name) as [s|] eqn:FS; [|apply rel_refl].
    destruct (find_snap st snapname) as [n|]; [|apply rel_refl].
    pose proof (seek_snap_rel (freshF (SeekSnap name snapname wnow)) st s n now wnow) as R.
    destruct (seek_snap st s n now wnow) as [st' w]. cbn [fst] in R. cbn [r_state done].
    eapply rel_mono; [| | |exact R]; auto.
    + intros i Hi. exists s. auto.
    + intros j Hj. unfold seek_K in Hj. subst j. unfold seekK, is_seek_of, sub_of_name.
      rewrite FS. cbn [option_map]. apply N.eqb_refl.
  - (* SeekNoTarget *) crush_same.
  - (* ModifyPush *) crush_same.
  - (* CreateSnap *) crush_same.
  - (* GetSnap *) crush_same.
  - (* ListSnaps *) crush_same.
  - (* DeleteSnap *) crush_same.
  - (* StreamAckNack *)
    pose proof (do_ack_rel (freshF (StreamAckNack acks nacks wnow fz fr))
                  (seekK st (StreamAckNack acks nacks wnow fz fr)) st acks wnow) as RA.
    unfold why.
    destruct (do_ack st acks wnow) as [st1 w1] eqn:EA. cbn [fst] in *.
    assert (Hs : subs st1 = subs st).
    { unfold do_ack in EA. inversion EA; subst. reflexivity. }
    unfold do_nack.
    match goal with |- context [nack_each ?a ?b ?c ?d ?e ?f] =>
      destruct (nack_each a b c d e f) as [[[st2 fr2] w2] n2] eqn:EN end.
    cbn [r_state done].
    apply (nack_each_rel (seekK st (StreamAckNack acks nacks wnow fz fr))) in EN.
    destruct EN as (RN&_).
    eapply rel_trans.
    + eapply rel_mono; [| | |exact RA]; auto.
    + eapply rel_mono; [| | |exact RN]; auto. intros i Hi. right. rewrite <- Hs. exact Hi.
  - (* SetDelay *) crush_same.
  - (* Job *)
    destruct failed.
    { destruct j; apply rel_dels_eq; reflexivity. }
    destruct j.
    + exact (prune_dels_rel _ _ _ st chosen).
    + exact (prune_dels_rel _ _ _ st chosen).
    + apply rel_dels_eq; reflexivity.
    + exact (prune_dels_rel _ _ _ st chosen).
    + apply rel_dels_eq; reflexivity.
    + unfold run_job. crush_same.
    + apply rel_dels_eq; reflexivity.
    + unfold run_job.
      destruct (sweep_each st chosen wnow fr) as [[[st1 fr1] w1] n1] eqn:E.
      cbn [r_state done].
      apply (sweep_each_rel (seekK st (Job JDeadLetterSweep min_age max chosen false wnow fr))) in E.
      destruct E as (R&_). exact R.
Qed.

(* ---- consequences ---- *)
Lemma step_compl st now o d d' :
  ids_unique st -> In d (dels st) -> d_completed d = None ->
  In d' (dels (post st now o)) -> d_id d' = d_id d -> d_completed d' <> None ->
  why st now o (d_id d).
Proof.
  intros (_&_&_&Hu&_) Hd Hc Hd' Hi Hc'.
  destruct (step_rel st now o d' Hd') as [_ B]. destruct (B Hc') as [[d0 (H1&H2&H3)]|W].
  - exfalso. apply H3. rewrite <- Hc. f_equal.
    apply (nodup_key_inj d_id (dels st)); auto. congruence.
  - rewrite <- Hi. exact W.
Qed.

Lemma step_stays st now o d' :
  In d' (dels (post st now o)) ->
  (exists d, In d (dels st) /\ d_id d = d_id d' /\ d_sub d = d_sub d' /\
             (d_completed d <> None -> is_seek_of st o (d_sub d) = false -> d_completed d' <> None))
  \/ In (d_id d') (op_fresh_dels o).
Proof.
  intros Hd'. destruct (step_rel st now o d' Hd') as [A _].
  destruct A as [[d (H1&H2&H3&H4)]|A]; [left|right; exact A].
  exists d. repeat split; auto. intros Hc Hs. destruct (H4 Hc) as [H|H]; [exact H|].
  unfold seekK in H. congruence.
Qed.
