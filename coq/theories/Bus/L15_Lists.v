(* Bus/L15_Lists.v -- generic list / table lemmas used by the C15 proofs. *)
From MB Require Import Base.
From MB.Bus Require Import State L_Tables.
Open Scope list_scope.

Lemma filter_ext_in15 {A} (p q : A -> bool) l :
  (forall x, In x l -> p x = q x) -> filter p l = filter q l.
Proof.
  induction l as [|a l IH]; intros H; cbn [filter]; [reflexivity|].
  rewrite (H a (or_introl eq_refl)). rewrite IH; [reflexivity|].
  intros x Hx. apply H. right; exact Hx.
Qed.

Lemma filter_all_false {A} (p : A -> bool) l :
  (forall x, In x l -> p x = false) -> filter p l = [].
Proof.
  induction l as [|a l IH]; intros H; cbn [filter]; [reflexivity|].
  rewrite (H a (or_introl eq_refl)). apply IH. intros x Hx. apply H. right; exact Hx.
Qed.

Lemma filter_map_comm15 {A} (p : A -> bool) (g : A -> A) l :
  (forall r, In r l -> p (g r) = p r) -> filter p (map g l) = map g (filter p l).
Proof.
  induction l as [|a l IH]; intros H; cbn [filter map]; [reflexivity|].
  rewrite (H a (or_introl eq_refl)).
  rewrite IH by (intros r Hr; apply H; right; exact Hr).
  destruct (p a); reflexivity.
Qed.

Lemma filter_map_id {A} (p : A -> bool) (g : A -> A) l :
  (forall r, In r l -> p (g r) = p r) -> (forall r, In r l -> p r = true -> g r = r) ->
  filter p (map g l) = filter p l.
Proof.
  induction l as [|a l IH]; intros H1 H2; cbn [filter map]; [reflexivity|].
  rewrite (H1 a (or_introl eq_refl)).
  rewrite IH by (intros; first [apply H1|apply H2]; auto; right; assumption).
  destruct (p a) eqn:E; [|reflexivity].
  rewrite (H2 a (or_introl eq_refl) E). reflexivity.
Qed.

Lemma filter_filter_eq {A} (p q p' : A -> bool) l :
  (forall x, In x l -> p x = q x && p' x) -> filter p' (filter q l) = filter p l.
Proof.
  induction l as [|a l IH]; intros H; cbn [filter]; [reflexivity|].
  rewrite (H a (or_introl eq_refl)).
  assert (IH' := IH (fun x Hx => H x (or_intror Hx))).
  destruct (q a); cbn [andb filter]; [|exact IH'].
  destruct (p' a); rewrite IH'; reflexivity.
Qed.

Lemma filter_length_le15 {A} (p : A -> bool) l : (length (filter p l) <= length l)%nat.
Proof.
  induction l as [|a l IH]; cbn [filter length]; [lia|].
  destruct (p a); cbn [length]; lia.
Qed.

Lemma existsb_false_all {A} (f : A -> bool) l x : existsb f l = false -> In x l -> f x = false.
Proof.
  intros H Hx. destruct (f x) eqn:E; [|reflexivity].
  assert (existsb f l = true) by (apply existsb_exists; eauto). congruence.
Qed.

Lemma existsb_false_intro {A} (f : A -> bool) l : (forall x, In x l -> f x = false) -> existsb f l = false.
Proof.
  intros H. destruct (existsb f l) eqn:E; [|reflexivity].
  apply existsb_exists in E. destruct E as [x [Hx Hf]]. rewrite (H x Hx) in Hf. discriminate.
Qed.

Section Tbl.
  Context {R : Type} (key : R -> id).

  Lemma key_inj_nodup15 l a b :
    NoDup (map key l) -> In a l -> In b l -> key a = key b -> a = b.
  Proof.
    induction l as [|y l IH]; intros Hd Ha Hb He; [destruct Ha|].
    cbn [map] in Hd. inversion Hd as [|u v Hy Hd']; subst.
    destruct Ha as [->|Ha], Hb as [->|Hb].
    - reflexivity.
    - exfalso. apply Hy. rewrite He. apply in_map; exact Hb.
    - exfalso. apply Hy. rewrite <- He. apply in_map; exact Ha.
    - apply IH; assumption.
  Qed.

  (* a row whose id is among the ids of the rows satisfying [p] satisfies [p] *)
  Lemma matched_row (p : R -> bool) l r :
    NoDup (map key l) -> In r l -> In (key r) (map key (filter p l)) -> p r = true.
  Proof.
    intros Hd Hr Hi. apply in_map_iff in Hi. destruct Hi as [r' [He Hr']].
    apply filter_In in Hr'. destruct Hr' as [Hr' Hp].
    assert (r' = r) by (eapply key_inj_nodup15; eauto). subst. exact Hp.
  Qed.

  Lemma find_id_map15 (f : R -> R) i l :
    (forall r, key (f r) = key r) -> find_id key i (map f l) = option_map f (find_id key i l).
  Proof.
    intros Hf. induction l as [|y l IH]; cbn [map find_id]; [reflexivity|].
    rewrite Hf. destruct (N.eqb (key y) i); [reflexivity|exact IH].
  Qed.

  Lemma find_id_del_ids_out ids i l :
    ~ In i ids -> find_id key i (del_ids key ids l) = find_id key i l.
  Proof.
    intros Hn. unfold del_ids. induction l as [|y l IH]; cbn [filter find_id]; [reflexivity|].
    destruct (existsb (N.eqb (key y)) ids) eqn:E; cbn [negb].
    - destruct (N.eqb (key y) i) eqn:Ei; [|exact IH].
      apply N.eqb_eq in Ei. exfalso. apply Hn. rewrite <- Ei.
      apply (mem_id_In (key y) ids). exact E.
    - cbn [find_id]. destruct (N.eqb (key y) i); [reflexivity|exact IH].
  Qed.

  Lemma find_id_del_ids_in ids i l :
    In i ids -> find_id key i (del_ids key ids l) = None.
  Proof.
    intros Hi. apply find_id_none. rewrite in_map_del_ids. intros [_ Hn]. exact (Hn Hi).
  Qed.

  Lemma filter_del_ids ids (p : R -> bool) l :
    (forall r, In r l -> In (key r) ids -> p r = false) ->
    filter p (del_ids key ids l) = filter p l.
  Proof.
    unfold del_ids. induction l as [|y l IH]; intros H; cbn [filter]; [reflexivity|].
    assert (IH' := IH (fun r Hr => H r (or_intror Hr))).
    destruct (existsb (N.eqb (key y)) ids) eqn:E; cbn [negb filter].
    - rewrite (H y (or_introl eq_refl)); [exact IH'|].
      apply (mem_id_In (key y) ids). exact E.
    - rewrite IH'. reflexivity.
  Qed.

  Lemma length_del_ids_le ids l : (length (del_ids key ids l) <= length l)%nat.
  Proof. unfold del_ids. apply filter_length_le15. Qed.

  Lemma length_del_ids_lt ids l r :
    In r l -> In (key r) ids -> (length (del_ids key ids l) < length l)%nat.
  Proof.
    unfold del_ids. induction l as [|y l IH]; intros Hr Hi; [destruct Hr|].
    cbn [filter length].
    destruct (existsb (N.eqb (key y)) ids) eqn:E; cbn [negb].
    - pose proof (filter_length_le15 (fun r0 => negb (existsb (N.eqb (key r0)) ids)) l). lia.
    - destruct Hr as [->|Hr].
      + exfalso. apply (mem_id_In (key r) ids) in Hi. unfold mem_id in Hi. congruence.
      + cbn [length]. specialize (IH Hr Hi). lia.
  Qed.

  Lemma in_map_find_id i l : In i (map key l) -> exists r, find_id key i l = Some r.
  Proof.
    intros Hi. destruct (find_id key i l) as [r|] eqn:E; [eauto|].
    apply find_id_none in E. contradiction.
  Qed.
End Tbl.
