(* Bus/L02_Lists.v -- generic list / id-table lemmas used by T_C02 (stdlib only). *)
From MB Require Import Base.
From MB.Bus Require Import State.
Open Scope list_scope.

Lemma mem_id_In i l : mem_id i l = true <-> In i l.
Proof.
  unfold mem_id. rewrite existsb_exists. split.
  - intros [x [Hx He]]. apply N.eqb_eq in He. subst; exact Hx.
  - intros H. exists i. split; [exact H|apply N.eqb_refl].
Qed.

Lemma mem_id_false i l : mem_id i l = false <-> ~ In i l.
Proof.
  rewrite <- mem_id_In. destruct (mem_id i l); split; congruence.
Qed.

Lemma mem_id_app i a b : mem_id i (a ++ b) = mem_id i a || mem_id i b.
Proof. unfold mem_id. apply existsb_app. Qed.

Lemma nodup_ids_NoDup l : nodup_ids l = true -> NoDup l.
Proof.
  induction l as [|x l IH]; cbn [nodup_ids]; intros H; [constructor|].
  apply andb_true_iff in H. destruct H as [H1 H2].
  constructor; [|apply IH; exact H2].
  apply negb_true_iff in H1. apply mem_id_false in H1. exact H1.
Qed.

Lemma in_ins_id i x l : In i (ins_id x l) -> i = x \/ In i l.
Proof.
  induction l as [|y l IH]; cbn [ins_id].
  - intros [<-|[]]. left; reflexivity.
  - destruct (x <? y)%N.
    + intros [<-|H]; [left; reflexivity|right; exact H].
    + destruct (N.eqb x y).
      * intros H; right; exact H.
      * intros [<-|H]; [right; left; reflexivity|].
        destruct (IH H) as [->|H']; [left; reflexivity|right; right; exact H'].
Qed.

Lemma in_sort_ids i l : In i (sort_ids l) -> In i l.
Proof.
  induction l as [|y l IH]; cbn [sort_ids fold_right]; [intros []|].
  intros H. apply in_ins_id in H. destruct H as [->|H]; [left; reflexivity|].
  right. apply IH. exact H.
Qed.

Section TableLemmas.
  Context {R : Type} (key : R -> id).

  Lemma in_ins x r l : In x (ins key r l) <-> x = r \/ In x l.
  Proof.
    induction l as [|y l IH]; cbn [ins].
    - cbn. intuition.
    - destruct (key r <? key y)%N.
      + cbn. intuition.
      + cbn [In]. rewrite IH. intuition.
  Qed.

  Lemma find_id_some i l r : find_id key i l = Some r -> In r l /\ key r = i.
  Proof.
    induction l as [|y l IH]; cbn [find_id]; [discriminate|].
    destruct (N.eqb (key y) i) eqn:E.
    - intros H; inversion H; subst. apply N.eqb_eq in E. split; [left; reflexivity|exact E].
    - intros H. destruct (IH H) as [Hi Hk]. split; [right; exact Hi|exact Hk].
  Qed.

  Lemma find_id_none i l : find_id key i l = None <-> ~ In i (map key l).
  Proof.
    induction l as [|y l IH]; cbn [find_id map].
    - split; [intros _ []|reflexivity].
    - destruct (N.eqb (key y) i) eqn:E.
      + apply N.eqb_eq in E. split; [discriminate|]. intros H; exfalso; apply H; left; exact E.
      + apply N.eqb_neq in E. rewrite IH. cbn [In]. intuition.
  Qed.

  Lemma has_id_in i l : has_id key i l = true <-> In i (map key l).
  Proof.
    unfold has_id. destruct (find_id key i l) eqn:E.
    - apply find_id_some in E. destruct E as [Hi Hk].
      split; [intros _|reflexivity]. rewrite <- Hk. apply in_map; exact Hi.
    - apply find_id_none in E. split; [discriminate|]. intros H; contradiction.
  Qed.

  Lemma has_id_false i l : has_id key i l = false <-> ~ In i (map key l).
  Proof.
    rewrite <- has_id_in. destruct (has_id key i l); split; congruence.
  Qed.

  Lemma find_id_in_nodup r l :
    NoDup (map key l) -> In r l -> find_id key (key r) l = Some r.
  Proof.
    induction l as [|y l IH]; cbn [find_id map]; intros Hd Hi; [destruct Hi|].
    inversion Hd as [|a b Hy Hd']; subst.
    destruct Hi as [->|Hi].
    - rewrite N.eqb_refl. reflexivity.
    - destruct (N.eqb (key y) (key r)) eqn:E.
      + apply N.eqb_eq in E. exfalso. apply Hy. rewrite E. apply in_map; exact Hi.
      + apply IH; assumption.
  Qed.

  Lemma key_inj_nodup a b l :
    NoDup (map key l) -> In a l -> In b l -> key a = key b -> a = b.
  Proof.
    intros Hd Ha Hb He.
    pose proof (find_id_in_nodup a l Hd Ha) as H1.
    pose proof (find_id_in_nodup b l Hd Hb) as H2.
    rewrite He in H1. congruence.
  Qed.

  Lemma in_upd_where (p : R -> bool) (f : R -> R) l x :
    In x (upd_where p f l) <-> exists r, In r l /\ x = (if p r then f r else r).
  Proof.
    unfold upd_where. rewrite in_map_iff. split; intros [r [H1 H2]]; exists r; auto.
  Qed.

  Lemma map_key_upd (p : R -> bool) (f : R -> R) l :
    (forall r, key (f r) = key r) -> map key (upd_where p f l) = map key l.
  Proof.
    intros H. unfold upd_where. rewrite map_map. apply map_ext. intros r.
    destruct (p r); [apply H|reflexivity].
  Qed.

  Lemma in_del_ids ids l r : In r (del_ids key ids l) -> In r l.
  Proof. unfold del_ids. rewrite filter_In. intros [H _]; exact H. Qed.

  (* a flat_map of at-most-singletons that is as long as its index list hits everywhere *)
  Lemma flat_opt_length {A} (g : A -> option R) (l : list A) :
    (length (flat_map (fun i => match g i with Some d => [d] | None => [] end) l) <= length l)%nat.
  Proof.
    induction l as [|a l IH]; cbn [flat_map length]; [lia|].
    rewrite app_length. destruct (g a); cbn [length]; lia.
  Qed.

  Lemma flat_opt_full {A} (g : A -> option R) (l : list A) :
    length (flat_map (fun i => match g i with Some d => [d] | None => [] end) l) = length l ->
    forall i, In i l -> exists d, g i = Some d.
  Proof.
    induction l as [|a l IH]; cbn [flat_map length]; intros H i Hi; [destruct Hi|].
    rewrite app_length in H.
    pose proof (flat_opt_length g l) as Hl.
    destruct (g a) as [d|] eqn:E; cbn [length] in H.
    - destruct Hi as [<-|Hi]; [exists d; exact E|].
      apply IH; [lia|exact Hi].
    - exfalso. lia.
  Qed.

  Lemma in_flat_opt {A} (g : A -> option R) (l : list A) d :
    In d (flat_map (fun i => match g i with Some d => [d] | None => [] end) l) <->
    exists i, In i l /\ g i = Some d.
  Proof.
    rewrite in_flat_map. split.
    - intros [i [Hi Hd]]. exists i. split; [exact Hi|].
      destruct (g i); [destruct Hd as [->|[]]; reflexivity|destruct Hd].
    - intros [i [Hi Hg]]. exists i. split; [exact Hi|]. rewrite Hg. left; reflexivity.
  Qed.
End TableLemmas.
