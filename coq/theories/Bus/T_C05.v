(* Bus/T_C05.v -- C05: ordered delivery: same-key messages are never overtaken.
   The model mirrors the code AFTER the fix of F1 (the predecessor is the latest unexpired
   delivery with the same ordering key). *)
From MB Require Import Base.
From MB.Bus Require Import State Ops Step Defs L05_Lists L05_Ops L05_Step.
Local Open Scope string_scope.
Open Scope list_scope.
Open Scope Z_scope.

(* the (non-empty) ordering key of the message a delivery carries *)
Definition key_of (st : state) (d : del) : option str :=
  match get_msg st (d_msg d) with
  | Some m => match m_key m with
              | Some k => if String.eqb k "" then None else Some k
              | None => None
              end
  | None => None
  end.

(* outstanding on its (live) subscription: not acknowledged / dead-lettered, not expired *)
Definition active (now : time) (d : del) : bool := is_none (d_completed d) && (now <? d_expires d).

(* d0 is an earlier-published delivery of the same subscription with the same key *)
Definition earlier_same_key (st : state) (d0 d : del) : Prop :=
  d_sub d0 = d_sub d /\ (exists k, key_of st d0 = Some k /\ key_of st d = Some k) /\
  d_published d0 < d_published d.

(* ---- hypotheses on the environment (each is necessary; see the refutations below) ---- *)

(* the step is "quiet": no stored retention deadline lies between the time the step reads
   and the times it writes, and the written times are not earlier than the read time and
   strictly increase within a Publish batch (the harness enforces and checks this) *)
Definition op_wnows (o : op) : list time :=
  match o with
  | Publish _ ms _ => map pm_now ms
  | _ => match op_wnow o with Some w => [w] | None => [] end
  end.
Fixpoint strictly_increasing (l : list time) : Prop :=
  match l with
  | a :: ((b :: _) as r) => a < b /\ strictly_increasing r
  | _ => True
  end.
Definition quiet (st : state) (now : time) (o : op) : Prop :=
  (forall w, In w (op_wnows o) -> now <= w) /\ strictly_increasing (op_wnows o) /\
  (forall d w, In d (dels st) -> In w (op_wnows o) -> now < d_expires d -> w < d_expires d) /\
  (forall d, In d (dels st) -> d_published d < now).

(* client discipline / environment for subscription sid:
   H1  acknowledgements (and stream acks) name only deliveries that have been handed out
       (ack ids come from pull responses);
   H2  the retention and the ordering flag of sid are not changed, and no delivery delay
       is injected... (only retention and ordering matter);
   H3  no seek on sid;
   H4  (added) sid is not (soft-)deleted: PruneDeletedSubDeliveries removes ARBITRARY rows of
       a deleted subscription (LIMIT without ORDER BY), also a row in the middle of a chain
       of outstanding same-key deliveries, which nulls the link of its successor. A deleted
       subscription cannot be pulled any more, so nothing is lost for the property;
   H5  (added) the retention of sid is longer than the time a Publish transaction spans:
       a delivery created for an earlier message of the batch is not yet expired when a
       later message of the same batch looks for its predecessor (this extends the third
       conjunct of [quiet] to the deadlines the step itself creates; message retention is
       at least 10 minutes in the real service, a Publish takes milliseconds);
   H6  (added) sid is not the target of dead-letter forwarding in this step: no operation
       other than Publish creates a delivery for sid (the oracle of created rows names no
       row for sid). A forwarded delivery carries the published_at of the forwarding
       transaction and a message of ANOTHER topic, which the predecessor query (same topic,
       same key) never links with messages published directly; this holds whenever the
       topic of sid is not used as a dead-letter topic. *)
Definition disciplined (st : state) (o : op) (sid : id) : Prop :=
  (forall d, In d (dels st) -> d_sub d = sid ->
     match o with
     | Ack _ (Some ids) _ => mem_id (d_id d) ids = true -> 1 <= d_attempts d
     | StreamAckNack acks _ _ _ _ => mem_id (d_id d) acks = true -> 1 <= d_attempts d
     | _ => True
     end) /\
  (match o with
   | UpdateSub q paths _ =>
       sub_of_name st (q_name q) = Some sid ->
       ~ In "message_retention_duration" paths /\ ~ In "enable_message_ordering" paths
   | _ => True
   end) /\
  is_seek_of st o sid = false /\
  (forall s, get_sub st sid = Some s -> s_deleted s = None) /\
  (forall s, get_sub st sid = Some s ->
     match o with
     | Publish _ ms _ =>
         forall w w', In w (map pm_now ms) -> In w' (map pm_now ms) -> w' < w + s_msg_ttl s
     | _ => True
     end) /\
  (match o with
   | Pull _ _ _ _ _ _ fr | StreamAckNack _ _ _ _ fr | Job _ _ _ _ _ _ fr =>
       forall m i, ~ In (m, sid, i) fr
   | _ => True
   end).

(* ---- the invariant ---- *)
(* For an ordered subscription: every delivery published after an active same-key
   delivery is still untouched (never handed out, not completed), expires no earlier, and
   is chained (not_before) to a same-key delivery that lies between the two.
   Strengthened by the prover with two conjuncts:
   - two distinct deliveries of sid never have the same published_at;
   - every delivery of sid expires at published_at + the subscription's retention, and
     carries an existing message of the subscription's topic. *)
Definition order_inv (st : state) (now : time) (sid : id) : Prop :=
  (forall d0 d, In d0 (dels st) -> In d (dels st) -> d_sub d = sid -> earlier_same_key st d0 d ->
    active now d0 = true ->
    d_attempts d = 0 /\ d_completed d = None /\ d_expires d0 <= d_expires d /\
    exists p, In p (dels st) /\ d_not_before d = Some (d_id p) /\
              (p = d0 \/ (earlier_same_key st d0 p /\ earlier_same_key st p d))) /\
  (forall d1 d2, In d1 (dels st) -> In d2 (dels st) -> d_sub d1 = sid -> d_sub d2 = sid ->
    d_published d1 = d_published d2 -> d1 = d2) /\
  (forall s d, get_sub st sid = Some s -> In d (dels st) -> d_sub d = sid ->
    d_expires d = d_published d + s_msg_ttl s /\
    exists m, get_msg st (d_msg d) = Some m /\ m_topic m = s_topic s).

(* holds trivially when the subscription has no deliveries yet (e.g. just created) *)
Theorem order_inv_init st now sid :
  (forall d, In d (dels st) -> d_sub d <> sid) -> order_inv st now sid.
Proof.
  intros H. unfold order_inv. split; [|split].
  - intros d0 d _ Hd Hs. exfalso. exact (H d Hd Hs).
  - intros d1 d2 Hd _ Hs. exfalso. exact (H d1 Hd Hs).
  - intros s d _ Hd Hs. exfalso. exact (H d Hd Hs).
Qed.

Lemma active_true now d : active now d = true <-> d_completed d = None /\ now < d_expires d.
Proof.
  unfold active, is_none, is_some. rewrite andb_true_iff, Z.ltb_lt.
  destruct (d_completed d); cbn; split; intros [H1 H2]; split; auto; discriminate.
Qed.

(* the invariant makes every later same-key delivery ineligible *)
Theorem order_inv_blocks st now sid s d0 d :
  ids_unique st -> order_inv st now sid -> get_sub st sid = Some s -> s_ordered s = true ->
  In d0 (dels st) -> In d (dels st) -> d_sub d = sid -> earlier_same_key st d0 d -> active now d0 = true ->
  eligible st s now d = false.
Proof.
  intros Hu [Hmain _] Hs Ho Hd0 Hd Hsub He Ha.
  destruct (Hmain d0 d Hd0 Hd Hsub He Ha) as [_ [_ [_ [p [Hp [Hnb Hor]]]]]].
  assert (Hpa : active now p = true).
  { destruct Hor as [->|[He1 He2]]; [exact Ha|].
    assert (Hps : d_sub p = sid).
    { destruct He1 as [E1 _]. destruct He as [E2 _]. congruence. }
    destruct (Hmain d0 p Hd0 Hp Hps He1 Ha) as [_ [Hc [Hle _]]].
    apply active_true in Ha. apply active_true. split; [exact Hc|lia]. }
  unfold eligible. rewrite Ho.
  assert (Hpb : pred_blocks st now d = true).
  { unfold pred_blocks. rewrite Hnb. unfold get_del.
    rewrite (find_id_unique d_id (dels st) p); [|apply Hu|exact Hp].
    exact Hpa. }
  rewrite Hpb. cbn. apply andb_false_r.
Qed.

(* time passing preserves it *)
Theorem order_inv_later st now now' sid : now <= now' -> order_inv st now sid -> order_inv st now' sid.
Proof.
  intros Hle [Hmain [Hu Hx]]. split; [|split; assumption].
  intros d0 d Hd0 Hd Hs He Ha. apply (Hmain d0 d Hd0 Hd Hs He).
  apply active_true in Ha. apply active_true. destruct Ha as [H1 H2]. split; [exact H1|lia].
Qed.

(* ---- generic preservation lemmas ---- *)
Lemma key_of_get st st' d d' :
  get_msg st' (d_msg d') = get_msg st (d_msg d) -> key_of st' d' = key_of st d.
Proof. unfold key_of. intros ->. reflexivity. Qed.

(* msgs agree on the deliveries of sid, the row of sid keeps retention and topic, and the
   deliveries of sid evolve benignly: rows whose attempts / completion change were already
   handed out or eligible *)
Lemma order_inv_frame_gen st st' now sid s (A : id -> Prop) :
  get_sub st sid = Some s -> order_inv st now sid ->
  (forall d, In d (dels st) -> d_sub d = sid -> get_msg st' (d_msg d) = get_msg st (d_msg d)) ->
  (forall s', get_sub st' sid = Some s' -> s_msg_ttl s' = s_msg_ttl s /\ s_topic s' = s_topic s) ->
  evolves A (sdels sid st) (sdels sid st') ->
  (forall d0 d, In d0 (dels st) -> In d (dels st) -> d_sub d = sid -> earlier_same_key st d0 d ->
                active now d0 = true -> A (d_id d) -> False) ->
  order_inv st' now sid.
Proof.
  intros Hs Hinv Hm Hsub [f [Hmap Hg]] HA.
  pose proof Hinv as [Hmain [Huq Hx]].
  assert (Hback : forall d', In d' (dels st') -> d_sub d' = sid ->
            exists d, In d (dels st) /\ d_sub d = sid /\ d' = f d).
  { intros d' Hd' Hs'. assert (Hi : In d' (sdels sid st')) by (apply in_sdels; auto).
    rewrite Hmap in Hi. apply in_map_iff in Hi. destruct Hi as [d [He Hd]].
    apply in_sdels in Hd. exists d. split; [apply Hd|]. split; [apply Hd|auto]. }
  assert (Hfwd : forall d, In d (dels st) -> d_sub d = sid -> In (f d) (dels st')).
  { intros d Hd Hs'. assert (Hi : In (f d) (sdels sid st')).
    { rewrite Hmap. apply in_map. apply in_sdels; auto. }
    apply in_sdels in Hi. apply Hi. }
  assert (Hgood : forall d, In d (dels st) -> d_sub d = sid -> good_at A f d).
  { intros d Hd Hs'. apply Hg. apply in_sdels; auto. }
  assert (Hkey : forall d, In d (dels st) -> d_sub d = sid -> key_of st' (f d) = key_of st d).
  { intros d Hd Hs'. apply key_of_get. destruct (Hgood d Hd Hs') as [[_ [Hc _]] _].
    rewrite Hc. apply Hm; assumption. }
  assert (Hearl : forall d1 d2, In d1 (dels st) -> d_sub d1 = sid -> In d2 (dels st) -> d_sub d2 = sid ->
            (earlier_same_key st' (f d1) (f d2) <-> earlier_same_key st d1 d2)).
  { intros d1 d2 H1 S1 H2 S2. unfold earlier_same_key.
    rewrite (Hkey d1 H1 S1), (Hkey d2 H2 S2).
    destruct (Hgood d1 H1 S1) as [[_ [_ [C1 [C2 _]]]] _].
    destruct (Hgood d2 H2 S2) as [[_ [_ [C3 [C4 _]]]] _].
    rewrite C1, C2, C3, C4. reflexivity. }
  split; [|split].
  - intros d0' d' Hd0' Hd' Hs' He' Ha'.
    assert (Hs0' : d_sub d0' = sid) by (destruct He' as [E _]; congruence).
    destruct (Hback d0' Hd0' Hs0') as [d0 [Hd0 [Hs0 ->]]].
    destruct (Hback d' Hd' Hs') as [d [Hd [Hsd ->]]].
    apply (Hearl d0 d Hd0 Hs0 Hd Hsd) in He'.
    destruct (Hgood d0 Hd0 Hs0) as [[_ [_ [_ [_ [X0 _]]]]] [N0 _]].
    destruct (Hgood d Hd Hsd) as [[_ [_ [_ [_ [X1 NB1]]]]] [_ T1]].
    assert (Ha : active now d0 = true).
    { apply active_true in Ha'. apply active_true. destruct Ha' as [A1 A2].
      split; [apply N0; exact A1|lia]. }
    destruct (Hmain d0 d Hd0 Hd Hsd He' Ha) as [At [Co [Ex [p [Hp [Hnb Hor]]]]]].
    assert (Hunch : d_attempts (f d) = d_attempts d /\ d_completed (f d) = d_completed d).
    { destruct T1 as [T1|T1]; [exact T1|]. exfalso.
      exact (HA d0 d Hd0 Hd Hsd He' Ha T1). }
    destruct Hunch as [U1 U2].
    split; [congruence|]. split; [congruence|]. split; [lia|].
    assert (Hps : d_sub p = sid).
    { destruct Hor as [->|[[E1 _] _]]; congruence. }
    exists (f p). split; [apply Hfwd; assumption|].
    destruct (Hgood p Hp Hps) as [[Ip _] _].
    split; [rewrite NB1, Ip; exact Hnb|].
    destruct Hor as [->|[E1 E2]]; [left; reflexivity|right].
    split; apply Hearl; assumption.
  - intros d1' d2' H1' H2' S1' S2' Hpub.
    destruct (Hback d1' H1' S1') as [d1 [H1 [S1 ->]]].
    destruct (Hback d2' H2' S2') as [d2 [H2 [S2 ->]]].
    destruct (Hgood d1 H1 S1) as [[_ [_ [_ [C1 _]]]] _].
    destruct (Hgood d2 H2 S2) as [[_ [_ [_ [C2 _]]]] _].
    f_equal. apply Huq; try assumption. congruence.
  - intros s' d' Hs' Hd' Hsd'.
    destruct (Hback d' Hd' Hsd') as [d [Hd [Hsd ->]]].
    destruct (Hgood d Hd Hsd) as [[_ [Cm [_ [Cp [Ce _]]]]] _].
    destruct (Hsub s' Hs') as [T1 T2].
    destruct (Hx s d Hs Hd Hsd) as [X1 [m [X2 X3]]].
    split; [rewrite Ce, Cp, T1; exact X1|].
    exists m. split; [rewrite Cm, (Hm d Hd Hsd); exact X2|congruence].
Qed.

Lemma order_inv_frame st st' now sid s (A : id -> Prop) :
  ids_unique st -> get_sub st sid = Some s -> s_ordered s = true -> order_inv st now sid ->
  (forall d, In d (dels st) -> d_sub d = sid -> get_msg st' (d_msg d) = get_msg st (d_msg d)) ->
  (forall s', get_sub st' sid = Some s' -> s_msg_ttl s' = s_msg_ttl s /\ s_topic s' = s_topic s) ->
  evolves A (sdels sid st) (sdels sid st') ->
  (forall d, In d (dels st) -> d_sub d = sid -> A (d_id d) ->
             1 <= d_attempts d \/ eligible st s now d = true) ->
  order_inv st' now sid.
Proof.
  intros Hu Hs Ho Hinv Hm Hsub Hev HA.
  apply (order_inv_frame_gen st st' now sid s A Hs Hinv Hm Hsub Hev).
  intros d0 d Hd0 Hd Hsd He Ha HAd.
  destruct (HA d Hd Hsd HAd) as [H1|H1].
  - destruct Hinv as [Hmain _]. destruct (Hmain d0 d Hd0 Hd Hsd He Ha) as [At _]. lia.
  - rewrite (order_inv_blocks st now sid s d0 d Hu Hinv Hs Ho Hd0 Hd Hsd He Ha) in H1.
    discriminate.
Qed.

(* deleting dead rows (and nulling the links to them) *)
Lemma null_link_fields ids d :
  d_id (d_null_link ids d) = d_id d /\ d_msg (d_null_link ids d) = d_msg d /\
  d_sub (d_null_link ids d) = d_sub d /\ d_published (d_null_link ids d) = d_published d /\
  d_expires (d_null_link ids d) = d_expires d /\ d_attempts (d_null_link ids d) = d_attempts d /\
  d_completed (d_null_link ids d) = d_completed d /\
  (forall p, d_not_before d = Some p -> ~ In p ids -> d_not_before (d_null_link ids d) = Some p).
Proof.
  unfold d_null_link. destruct (d_not_before d) as [q|] eqn:E.
  - destruct (mem_id q ids) eqn:Em; cbn.
    + repeat split; auto. intros p Hp Hn. inversion Hp; subst.
      apply mem_id_In in Em. contradiction.
    + repeat split; auto. intros p Hp _. congruence.
  - repeat split; auto. intros p Hp. discriminate.
Qed.

Lemma order_inv_prune st st' now sid chosen :
  order_inv st now sid ->
  msgs st' = msgs st -> subs st' = subs st ->
  dels st' = map (d_null_link chosen) (del_ids d_id chosen (dels st)) ->
  (forall d, In d (dels st) -> d_sub d = sid -> In (d_id d) chosen -> active now d = false) ->
  order_inv st' now sid.
Proof.
  intros [Hmain [Huq Hx]] Hm Hsb Hd Hdead.
  set (nl := d_null_link chosen).
  assert (Hback : forall d', In d' (dels st') ->
            exists d, In d (dels st) /\ ~ In (d_id d) chosen /\ d' = nl d).
  { intros d' Hd'. rewrite Hd in Hd'. apply in_map_iff in Hd'. destruct Hd' as [d [He Hi]].
    apply in_del_ids in Hi. exists d. split; [apply Hi|]. split; [apply Hi|auto]. }
  assert (Hfwd : forall d, In d (dels st) -> ~ In (d_id d) chosen -> In (nl d) (dels st')).
  { intros d Hi Hn. rewrite Hd. apply in_map. apply in_del_ids. auto. }
  assert (Hkey : forall d, key_of st' (nl d) = key_of st d).
  { intros d. apply key_of_get. destruct (null_link_fields chosen d) as [_ [C _]].
    unfold nl. rewrite C. unfold get_msg. rewrite Hm. reflexivity. }
  assert (Hearl : forall d1 d2, earlier_same_key st' (nl d1) (nl d2) <-> earlier_same_key st d1 d2).
  { intros d1 d2. unfold earlier_same_key. rewrite !Hkey.
    destruct (null_link_fields chosen d1) as [_ [_ [C1 [C2 _]]]].
    destruct (null_link_fields chosen d2) as [_ [_ [C3 [C4 _]]]].
    unfold nl. rewrite C1, C2, C3, C4. reflexivity. }
  split; [|split].
  - intros d0' d' Hd0' Hd' Hs' He' Ha'.
    destruct (Hback d0' Hd0') as [d0 [Hd0 [Hn0 ->]]].
    destruct (Hback d' Hd') as [d [Hdd [Hnd ->]]].
    apply Hearl in He'.
    destruct (null_link_fields chosen d0) as [I0 [_ [S0 [_ [X0 [_ [C0 _]]]]]]].
    destruct (null_link_fields chosen d) as [I1 [_ [S1 [_ [X1 [A1 [C1 NB1]]]]]]].
    fold nl in I0, S0, X0, C0, I1, S1, X1, A1, C1, NB1.
    assert (Hsd : d_sub d = sid) by congruence.
    assert (Ha : active now d0 = true).
    { apply active_true in Ha'. apply active_true. rewrite C0, X0 in Ha'. exact Ha'. }
    destruct (Hmain d0 d Hd0 Hdd Hsd He' Ha) as [At [Co [Ex [p [Hp [Hnb Hor]]]]]].
    split; [congruence|]. split; [congruence|]. split; [lia|].
    assert (Hnp : ~ In (d_id p) chosen).
    { destruct Hor as [->|[E1 E2]]; [exact Hn0|].
      assert (Hps : d_sub p = sid) by (destruct E1 as [E _]; destruct He' as [E' _]; congruence).
      destruct (Hmain d0 p Hd0 Hp Hps E1 Ha) as [_ [Cp [Exp _]]].
      intros Hin. pose proof (Hdead p Hp Hps Hin) as Hf.
      assert (Hpa : active now p = true).
      { apply active_true in Ha. apply active_true. split; [exact Cp|lia]. }
      congruence. }
    exists (nl p). split; [apply Hfwd; assumption|].
    destruct (null_link_fields chosen p) as [Ip _]. fold nl in Ip.
    split; [rewrite Ip; apply NB1; assumption|].
    destruct Hor as [->|[E1 E2]]; [left; reflexivity|right].
    split; apply Hearl; assumption.
  - intros d1' d2' H1' H2' S1' S2' Hpub.
    destruct (Hback d1' H1') as [d1 [H1 [_ ->]]].
    destruct (Hback d2' H2') as [d2 [H2 [_ ->]]].
    destruct (null_link_fields chosen d1) as [_ [_ [S1 [P1 _]]]].
    destruct (null_link_fields chosen d2) as [_ [_ [S2 [P2 _]]]].
    fold nl in S1, P1, S2, P2.
    f_equal. apply Huq; try assumption; congruence.
  - intros s' d' Hs' Hd' Hsd'.
    destruct (Hback d' Hd') as [d [Hdd [_ ->]]].
    destruct (null_link_fields chosen d) as [_ [Cm [Cs [Cp [Ce _]]]]].
    fold nl in Cm, Cs, Cp, Ce.
    assert (Hs : get_sub st sid = Some s') by (unfold get_sub in *; rewrite <- Hsb; exact Hs').
    destruct (Hx s' d Hs Hdd ltac:(congruence)) as [X1 [m [X2 X3]]].
    split; [congruence|]. exists m. split; [|exact X3].
    rewrite Cm. unfold get_msg in *. rewrite Hm. exact X2.
Qed.

(* one new delivery for sid, created by deliver_to_sub at time w for a message m of the
   subscription's topic, later than everything sid has *)
Lemma order_inv_insert st st' now sid s m w i :
  order_inv st now sid -> get_sub st sid = Some s -> s_ordered s = true -> s_id s = sid ->
  msgs st' = msgs st -> subs st' = subs st ->
  (forall x, In x (sdels sid st') <-> x = new_del st s m w i \/ In x (sdels sid st)) ->
  get_msg st (m_id m) = Some m -> m_topic m = s_topic s ->
  (forall d, In d (dels st) -> d_sub d = sid -> d_published d < w) ->
  (forall d, In d (dels st) -> d_sub d = sid -> now < d_expires d -> w < d_expires d) ->
  order_inv st' now sid.
Proof.
  intros [Hmain [Huq Hx]] Hs Ho Hsid Hm Hsb Hin Hgm Htop B1 B2.
  set (dn := new_del st s m w i) in *.
  assert (Hcase : forall x, In x (dels st') -> d_sub x = sid -> x = dn \/ (In x (dels st) /\ d_sub x = sid)).
  { intros x Hx' Hsx. assert (Hi : In x (sdels sid st')) by (apply in_sdels; auto).
    apply Hin in Hi. destruct Hi as [->|Hi]; [left; reflexivity|right; apply in_sdels; exact Hi]. }
  assert (Hold : forall x, In x (dels st) -> d_sub x = sid -> In x (dels st')).
  { intros x Hx' Hsx. assert (Hi : In x (sdels sid st')) by (apply Hin; right; apply in_sdels; auto).
    apply in_sdels in Hi. apply Hi. }
  assert (Hkey : forall d, key_of st' d = key_of st d).
  { intros d. apply key_of_get. unfold get_msg. rewrite Hm. reflexivity. }
  assert (Hearl : forall d1 d2, earlier_same_key st' d1 d2 <-> earlier_same_key st d1 d2).
  { intros d1 d2. unfold earlier_same_key. rewrite !Hkey. reflexivity. }
  assert (Hdn_sub : d_sub dn = sid) by exact Hsid.
  assert (Hdn_pub : d_published dn = w) by reflexivity.
  assert (Hgs' : get_sub st' sid = get_sub st sid) by (unfold get_sub; rewrite Hsb; reflexivity).
  split; [|split].
  - intros d0 d Hd0 Hd Hsd He Ha.
    assert (Hs0 : d_sub d0 = sid) by (destruct He as [E _]; congruence).
    apply Hearl in He.
    destruct (Hcase d Hd Hsd) as [->|[Hdo _]].
    + (* the new row as successor *)
      destruct (Hcase d0 Hd0 Hs0) as [->|[Hd0o _]].
      { destruct He as [_ [_ Hlt]]. lia. }
      apply active_true in Ha. destruct Ha as [Ha1 Ha2].
      destruct (Hx s d0 Hs Hd0o Hs0) as [Ex0 [m0 [Gm0 Tm0]]].
      destruct He as [_ [[k [K0 Kn]] Hlt]].
      (* the key of the new message *)
      assert (Hmk : m_key m = Some k /\ String.eqb k "" = false).
      { unfold key_of in Kn. cbn [dn new_del d_msg] in Kn. rewrite Hgm in Kn.
        destruct (m_key m) as [k'|]; [|discriminate].
        destruct (String.eqb k' "") eqn:Ek; [discriminate|]. injection Kn as ->. auto. }
      destruct Hmk as [Hmk Hkne].
      assert (Hm0k : m_key m0 = Some k).
      { unfold key_of in K0. rewrite Gm0 in K0.
        destruct (m_key m0) as [k'|]; [|discriminate].
        destruct (String.eqb k' ""); [discriminate|]. injection K0 as ->. reflexivity. }
      assert (Hr0 : ld_rest st m w d0 = true).
      { unfold ld_rest. rewrite Gm0, Hm0k, Hmk, Tm0, Htop. rewrite N.eqb_refl. cbn.
        rewrite String.eqb_refl. rewrite andb_true_r. apply Z.ltb_lt. apply B2; assumption. }
      assert (Hi0 : In d0 (sdels (s_id s) st)) by (rewrite Hsid; apply in_sdels; auto).
      destruct (last_delivery_spec st s m w d0 Hi0 Hr0) as [p [Hld [Hp [Hrp Hle]]]].
      rewrite Hsid in Hp. apply in_sdels in Hp. destruct Hp as [Hp Hps].
      split; [reflexivity|]. split; [reflexivity|]. split.
      { cbn [dn new_del d_expires]. pose proof (B1 d0 Hd0o Hs0). lia. }
      exists p. split; [apply Hold; assumption|]. split.
      { cbn [dn new_del d_not_before]. rewrite Ho, Hmk, Hkne, Hld. reflexivity. }
      destruct (Z.eq_dec (d_published d0) (d_published p)) as [Heq|Hne].
      { left. symmetry. apply Huq; assumption. }
      right.
      assert (Kp : key_of st p = Some k).
      { unfold ld_rest in Hrp. apply andb_prop in Hrp. destruct Hrp as [_ Hrp].
        unfold key_of. destruct (get_msg st (d_msg p)) as [pm|]; [|discriminate].
        apply andb_prop in Hrp. destruct Hrp as [_ Hrp]. rewrite Hmk in Hrp.
        unfold os_eqb, opt_eqb in Hrp. destruct (m_key pm) as [k'|]; [|discriminate].
        apply String.eqb_eq in Hrp. subst k'. rewrite Hkne. reflexivity. }
      split; apply Hearl.
      * split; [congruence|]. split; [exists k; auto|lia].
      * split; [congruence|]. split; [exists k; auto|]. rewrite Hdn_pub. apply B1; assumption.
    + (* an old row as successor: the predecessor is old, too *)
      destruct (Hcase d0 Hd0 Hs0) as [->|[Hd0o _]].
      { destruct He as [_ [_ Hlt]]. pose proof (B1 d Hdo Hsd). lia. }
      destruct (Hmain d0 d Hd0o Hdo Hsd He Ha) as [At [Co [Ex [p [Hp [Hnb Hor]]]]]].
      split; [exact At|]. split; [exact Co|]. split; [exact Ex|].
      assert (Hps : d_sub p = sid).
      { destruct Hor as [->|[[E1 _] _]]; congruence. }
      exists p. split; [apply Hold; assumption|]. split; [exact Hnb|].
      destruct Hor as [->|[E1 E2]]; [left; reflexivity|right].
      split; apply Hearl; assumption.
  - intros d1 d2 H1 H2 S1 S2 Hpub.
    destruct (Hcase d1 H1 S1) as [->|[H1o _]], (Hcase d2 H2 S2) as [->|[H2o _]].
    + reflexivity.
    + pose proof (B1 d2 H2o S2). lia.
    + pose proof (B1 d1 H1o S1). lia.
    + apply Huq; assumption.
  - intros s' d Hs' Hd Hsd. rewrite Hgs', Hs in Hs'. inversion Hs'; subst s'.
    destruct (Hcase d Hd Hsd) as [->|[Hdo _]].
    + split; [reflexivity|]. exists m. split; [|exact Htop].
      cbn [dn new_del d_msg]. unfold get_msg in *. rewrite Hm. exact Hgm.
    + destruct (Hx s d Hs Hdo Hsd) as [X1 [m0 [X2 X3]]]. split; [exact X1|].
      exists m0. split; [|exact X3]. unfold get_msg in *. rewrite Hm. exact X2.
Qed.

(* every legal, quiet, disciplined step preserves it *)
Theorem order_inv_step st now o sid s :
  ids_unique st -> legal st now o -> quiet st now o -> disciplined st o sid ->
  (forall d, In d (dels st) -> has_id m_id (d_msg d) (msgs st) = true) ->
  get_sub st sid = Some s -> s_ordered s = true ->
  order_inv st now sid -> order_inv (post st now o) now sid.
Admitted.

(* ---- the property, one step ---- *)
(* A pull on an ordered subscription never returns a message with key K while an
   earlier-published message with the same key is still outstanding on it. *)
Theorem C05_no_overtake_step st now name max returned others w fz fr s p d d0 :
  ids_unique st -> legal st now (Pull name max returned others w fz fr) ->
  find_live_sub st name = Some s -> s_ordered s = true -> order_inv st now (s_id s) ->
  In p (pulled_of (answer st now (Pull name max returned others w fz fr))) ->
  In d (dels st) -> d_id d = p_ack p -> In d0 (dels st) -> earlier_same_key st d0 d ->
  active now d0 = false.
Proof.
  intros Hu Hl Hf Ho Hinv Hp Hd Hid Hd0 He.
  destruct (pull_cases _ _ _ _ _ _ _ _ _ Hl) as [[_ Hnil]|[s' [st1 [fr1 [ps [wk [Hf' [Hsel [Har [_ Hans]]]]]]]]]].
  { rewrite Hnil in Hp. destruct Hp. }
  rewrite Hf in Hf'. injection Hf' as <-.
  rewrite Hans in Hp. cbn [pulled_of] in Hp.
  destruct (apply_results_pulled _ _ _ _ _ _ _ _ _ _ _ _ _ _ _ _ Har p Hp) as [c [Hc Hpc]].
  assert (Hud : NoDup (map d_id (dels st))) by apply Hu.
  apply pull_cands_in in Hc; [|exact Hud]. destruct Hc as [Hc Hobs].
  assert (d = c) by (apply (NoDup_map_inj d_id (dels st)); auto; congruence). subst c.
  destruct (selection_legal_eligible _ _ _ _ _ _ _ Hsel Hobs) as [e [He1 [He2 He3]]].
  assert (e = d) by (apply (NoDup_map_inj d_id (dels st)); auto). subst e.
  destruct (active now d0) eqn:Ha; [exfalso|reflexivity].
  pose proof (find_live_sub_get _ _ _ Hu Hf) as Hgs.
  pose proof (eligible_sub _ _ _ _ He3) as Hsd.
  rewrite (order_inv_blocks st now (s_id s) s d0 d Hu Hinv Hgs Ho Hd0 Hd Hsd He Ha) in He3.
  discriminate.
Qed.

(* ---- the property over histories ---- *)
Theorem C05_no_overtake h : forall st t0 sid,
  ids_unique st -> all_legal st h -> times_nondecreasing t0 h ->
  (forall d, In d (dels st) -> has_id m_id (d_msg d) (msgs st) = true) ->
  (forall s now o, In (s, now, o) (trace st h) -> quiet s now o /\ disciplined s o sid) ->
  (forall s now o, In (s, now, o) (trace st h) ->
                   exists sb, get_sub s sid = Some sb /\ s_ordered sb = true) ->
  order_inv st t0 sid ->
  forall s now o p d d0, In (s, now, o) (trace st h) ->
    In p (pulled_of (answer s now o)) -> In d (dels s) -> d_id d = p_ack p -> d_sub d = sid ->
    In d0 (dels s) -> earlier_same_key s d0 d -> active now d0 = false.
Admitted.

(* ---- why the hypotheses are needed: counterexamples on the model (to be replayed on
   the implementation by the harness) ---- *)
(* H3: a seek revives an acknowledged predecessor with a LATER retention deadline than
   its untouched successors; when the direct successor expires the next one is released
   while the revived message is still outstanding. H1: acknowledging a never-delivered
   successor by a guessed id releases the one after it. These are stated as existence of
   a legal history violating the conclusion; prove them by exhibiting concrete histories
   with vm_compute if time permits (optional). *)
