(* Bus/T_C05.v -- C05: ordered delivery: same-key messages are never overtaken.
   The model mirrors the code AFTER the fix of F1 (the predecessor is the latest unexpired
   delivery with the same ordering key). *)
From MB Require Import Base.
From MB.Bus Require Import State Ops Step Defs T_Inv L05_Lists L05_Ops L05_Step.
Local Open Scope string_scope.
Open Scope list_scope.
Open Scope Z_scope.

(* the (non-empty) ordering key of the message a delivery carries *)
Definition key_of (st : state) (d : del) : option str :=
  match get_msg st (d_msg d) with
  | Some m => match m_key m with
              | Some k => if String.eqb k "" then None else Some k
              | None => None
              end
  | None => None
  end.

(* outstanding on its (live) subscription: not acknowledged / dead-lettered, not expired *)
Definition active (now : time) (d : del) : bool := is_none (d_completed d) && (now <? d_expires d).

(* d0 is an earlier-published delivery of the same subscription with the same key *)
Definition earlier_same_key (st : state) (d0 d : del) : Prop :=
  d_sub d0 = d_sub d /\ (exists k, key_of st d0 = Some k /\ key_of st d = Some k) /\
  d_published d0 < d_published d.

(* ---- hypotheses on the environment (each is necessary; see the refutations below) ---- *)

(* the step is "quiet": no stored retention deadline lies between the time the step reads
   and the times it writes, and the written times are not earlier than the read time and
   strictly increase within a Publish batch (the harness enforces and checks this) *)
Definition op_wnows (o : op) : list time :=
  match o with
  | Publish _ ms _ => map pm_now ms
  | _ => match op_wnow o with Some w => [w] | None => [] end
  end.
Fixpoint strictly_increasing (l : list time) : Prop :=
  match l with
  | a :: ((b :: _) as r) => a < b /\ strictly_increasing r
  | _ => True
  end.
Definition quiet (st : state) (now : time) (o : op) : Prop :=
  (forall w, In w (op_wnows o) -> now <= w) /\ strictly_increasing (op_wnows o) /\
  (forall d w, In d (dels st) -> In w (op_wnows o) -> now < d_expires d -> w < d_expires d) /\
  (forall d, In d (dels st) -> d_published d < now).

(* client discipline / environment for subscription sid:
   H1  acknowledgements (and stream acks) name only deliveries that have been handed out
       (ack ids come from pull responses);
   H2  the retention and the ordering flag of sid are not changed, and no delivery delay
       is injected... (only retention and ordering matter);
   H3  no seek on sid;
   H4  (added) sid is not (soft-)deleted: PruneDeletedSubDeliveries removes ARBITRARY rows of
       a deleted subscription (LIMIT without ORDER BY), also a row in the middle of a chain
       of outstanding same-key deliveries, which nulls the link of its successor. A deleted
       subscription cannot be pulled any more, so nothing is lost for the property;
   H5  (added) the retention of sid is longer than the time a Publish transaction spans:
       a delivery created for an earlier message of the batch is not yet expired when a
       later message of the same batch looks for its predecessor (this extends the third
       conjunct of [quiet] to the deadlines the step itself creates; message retention is
       at least 10 minutes in the real service, a Publish takes milliseconds);
   H6  (added) sid is not the target of dead-letter forwarding in this step: no operation
       other than Publish creates a delivery for sid (the oracle of created rows names no
       row for sid). A forwarded delivery carries the published_at of the forwarding
       transaction and a message of ANOTHER topic, which the predecessor query (same topic,
       same key) never links with messages published directly; this holds whenever the
       topic of sid is not used as a dead-letter topic. *)
Definition disciplined (st : state) (o : op) (sid : id) : Prop :=
  (forall d, In d (dels st) -> d_sub d = sid ->
     match o with
     | Ack _ (Some ids) _ => mem_id (d_id d) ids = true -> 1 <= d_attempts d
     | StreamAckNack acks _ _ _ _ => mem_id (d_id d) acks = true -> 1 <= d_attempts d
     | _ => True
     end) /\
  (match o with
   | UpdateSub q paths _ =>
       sub_of_name st (q_name q) = Some sid ->
       ~ In "message_retention_duration" paths /\ ~ In "enable_message_ordering" paths
   | _ => True
   end) /\
  is_seek_of st o sid = false /\
  (forall s, get_sub st sid = Some s -> s_deleted s = None) /\
  (forall s, get_sub st sid = Some s ->
     match o with
     | Publish _ ms _ =>
         forall w w', In w (map pm_now ms) -> In w' (map pm_now ms) -> w' < w + s_msg_ttl s
     | _ => True
     end) /\
  (match o with
   | Pull _ _ _ _ _ _ fr | StreamAckNack _ _ _ _ fr | Job _ _ _ _ _ _ fr =>
       forall m i, ~ In (m, sid, i) fr
   | _ => True
   end).

(* ---- the invariant ---- *)
(* For an ordered subscription: every delivery published after an active same-key
   delivery is still untouched (never handed out, not completed), expires no earlier, and
   is chained (not_before) to a same-key delivery that lies between the two.
   Strengthened by the prover with two conjuncts:
   - two distinct deliveries of sid never have the same published_at;
   - every delivery of sid expires at published_at + the subscription's retention, and
     carries an existing message of the subscription's topic. *)
Definition order_inv (st : state) (now : time) (sid : id) : Prop :=
  (forall d0 d, In d0 (dels st) -> In d (dels st) -> d_sub d = sid -> earlier_same_key st d0 d ->
    active now d0 = true ->
    d_attempts d = 0 /\ d_completed d = None /\ d_expires d0 <= d_expires d /\
    exists p, In p (dels st) /\ d_not_before d = Some (d_id p) /\
              (p = d0 \/ (earlier_same_key st d0 p /\ earlier_same_key st p d))) /\
  (forall d1 d2, In d1 (dels st) -> In d2 (dels st) -> d_sub d1 = sid -> d_sub d2 = sid ->
    d_published d1 = d_published d2 -> d1 = d2) /\
  (forall s d, get_sub st sid = Some s -> In d (dels st) -> d_sub d = sid ->
    d_expires d = d_published d + s_msg_ttl s /\
    exists m, get_msg st (d_msg d) = Some m /\ m_topic m = s_topic s).

(* holds trivially when the subscription has no deliveries yet (e.g. just created) *)
Theorem order_inv_init st now sid :
  (forall d, In d (dels st) -> d_sub d <> sid) -> order_inv st now sid.
Proof.
  intros H. unfold order_inv. split; [|split].
  - intros d0 d _ Hd Hs. exfalso. exact (H d Hd Hs).
  - intros d1 d2 Hd _ Hs. exfalso. exact (H d1 Hd Hs).
  - intros s d _ Hd Hs. exfalso. exact (H d Hd Hs).
Qed.

Lemma active_true now d : active now d = true <-> d_completed d = None /\ now < d_expires d.
Proof.
  unfold active, is_none, is_some. rewrite andb_true_iff, Z.ltb_lt.
  destruct (d_completed d); cbn; split; intros [H1 H2]; split; auto; discriminate.
Qed.

(* the invariant makes every later same-key delivery ineligible *)
Theorem order_inv_blocks st now sid s d0 d :
  ids_unique st -> order_inv st now sid -> get_sub st sid = Some s -> s_ordered s = true ->
  In d0 (dels st) -> In d (dels st) -> d_sub d = sid -> earlier_same_key st d0 d -> active now d0 = true ->
  eligible st s now d = false.
Proof.
  intros Hu [Hmain _] Hs Ho Hd0 Hd Hsub He Ha.
  destruct (Hmain d0 d Hd0 Hd Hsub He Ha) as [_ [_ [_ [p [Hp [Hnb Hor]]]]]].
  assert (Hpa : active now p = true).
  { destruct Hor as [->|[He1 He2]]; [exact Ha|].
    assert (Hps : d_sub p = sid).
    { destruct He1 as [E1 _]. destruct He as [E2 _]. congruence. }
    destruct (Hmain d0 p Hd0 Hp Hps He1 Ha) as [_ [Hc [Hle _]]].
    apply active_true in Ha. apply active_true. split; [exact Hc|lia]. }
  unfold eligible. rewrite Ho.
  assert (Hpb : pred_blocks st now d = true).
  { unfold pred_blocks. rewrite Hnb. unfold get_del.
    rewrite (find_id_unique d_id (dels st) p); [|apply Hu|exact Hp].
    exact Hpa. }
  rewrite Hpb. cbn. apply andb_false_r.
Qed.

(* time passing preserves it *)
Theorem order_inv_later st now now' sid : now <= now' -> order_inv st now sid -> order_inv st now' sid.
Proof.
  intros Hle [Hmain [Hu Hx]]. split; [|split; assumption].
  intros d0 d Hd0 Hd Hs He Ha. apply (Hmain d0 d Hd0 Hd Hs He).
  apply active_true in Ha. apply active_true. destruct Ha as [H1 H2]. split; [exact H1|lia].
Qed.

(* ---- generic preservation lemmas ---- *)
Lemma key_of_get st st' d d' :
  get_msg st' (d_msg d') = get_msg st (d_msg d) -> key_of st' d' = key_of st d.
Proof. unfold key_of. intros ->. reflexivity. Qed.

(* msgs agree on the deliveries of sid, the row of sid keeps retention and topic, and the
   deliveries of sid evolve benignly: rows whose attempts / completion change were already
   handed out or eligible *)
Lemma order_inv_frame_gen st st' now sid s (A : id -> Prop) :
  get_sub st sid = Some s -> order_inv st now sid ->
  (forall d, In d (dels st) -> d_sub d = sid -> get_msg st' (d_msg d) = get_msg st (d_msg d)) ->
  (forall s', get_sub st' sid = Some s' -> s_msg_ttl s' = s_msg_ttl s /\ s_topic s' = s_topic s) ->
  evolves A (sdels sid st) (sdels sid st') ->
  (forall d0 d, In d0 (dels st) -> In d (dels st) -> d_sub d = sid -> earlier_same_key st d0 d ->
                active now d0 = true -> A (d_id d) -> False) ->
  order_inv st' now sid.
Proof.
  intros Hs Hinv Hm Hsub [f [Hmap Hg]] HA.
  pose proof Hinv as [Hmain [Huq Hx]].
  assert (Hback : forall d', In d' (dels st') -> d_sub d' = sid ->
            exists d, In d (dels st) /\ d_sub d = sid /\ d' = f d).
  { intros d' Hd' Hs'. assert (Hi : In d' (sdels sid st')) by (apply in_sdels; auto).
    rewrite Hmap in Hi. apply in_map_iff in Hi. destruct Hi as [d [He Hd]].
    apply in_sdels in Hd. exists d. split; [apply Hd|]. split; [apply Hd|auto]. }
  assert (Hfwd : forall d, In d (dels st) -> d_sub d = sid -> In (f d) (dels st')).
  { intros d Hd Hs'. assert (Hi : In (f d) (sdels sid st')).
    { rewrite Hmap. apply in_map. apply in_sdels; auto. }
    apply in_sdels in Hi. apply Hi. }
  assert (Hgood : forall d, In d (dels st) -> d_sub d = sid -> good_at A f d).
  { intros d Hd Hs'. apply Hg. apply in_sdels; auto. }
  assert (Hkey : forall d, In d (dels st) -> d_sub d = sid -> key_of st' (f d) = key_of st d).
  { intros d Hd Hs'. apply key_of_get. destruct (Hgood d Hd Hs') as [[_ [Hc _]] _].
    rewrite Hc. apply Hm; assumption. }
  assert (Hearl : forall d1 d2, In d1 (dels st) -> d_sub d1 = sid -> In d2 (dels st) -> d_sub d2 = sid ->
            (earlier_same_key st' (f d1) (f d2) <-> earlier_same_key st d1 d2)).
  { intros d1 d2 H1 S1 H2 S2. unfold earlier_same_key.
    rewrite (Hkey d1 H1 S1), (Hkey d2 H2 S2).
    destruct (Hgood d1 H1 S1) as [[_ [_ [C1 [C2 _]]]] _].
    destruct (Hgood d2 H2 S2) as [[_ [_ [C3 [C4 _]]]] _].
    rewrite C1, C2, C3, C4. reflexivity. }
  split; [|split].
  - intros d0' d' Hd0' Hd' Hs' He' Ha'.
    assert (Hs0' : d_sub d0' = sid) by (destruct He' as [E _]; congruence).
    destruct (Hback d0' Hd0' Hs0') as [d0 [Hd0 [Hs0 ->]]].
    destruct (Hback d' Hd' Hs') as [d [Hd [Hsd ->]]].
    apply (Hearl d0 d Hd0 Hs0 Hd Hsd) in He'.
    destruct (Hgood d0 Hd0 Hs0) as [[_ [_ [_ [_ [X0 _]]]]] [N0 _]].
    destruct (Hgood d Hd Hsd) as [[_ [_ [_ [_ [X1 NB1]]]]] [_ T1]].
    assert (Ha : active now d0 = true).
    { apply active_true in Ha'. apply active_true. destruct Ha' as [A1 A2].
      split; [apply N0; exact A1|lia]. }
    destruct (Hmain d0 d Hd0 Hd Hsd He' Ha) as [At [Co [Ex [p [Hp [Hnb Hor]]]]]].
    assert (Hunch : d_attempts (f d) = d_attempts d /\ d_completed (f d) = d_completed d).
    { destruct T1 as [T1|T1]; [exact T1|]. exfalso.
      exact (HA d0 d Hd0 Hd Hsd He' Ha T1). }
    destruct Hunch as [U1 U2].
    split; [congruence|]. split; [congruence|]. split; [lia|].
    assert (Hps : d_sub p = sid).
    { destruct Hor as [->|[[E1 _] _]]; congruence. }
    exists (f p). split; [apply Hfwd; assumption|].
    destruct (Hgood p Hp Hps) as [[Ip _] _].
    split; [rewrite NB1, Ip; exact Hnb|].
    destruct Hor as [->|[E1 E2]]; [left; reflexivity|right].
    split; apply Hearl; assumption.
  - intros d1' d2' H1' H2' S1' S2' Hpub.
    destruct (Hback d1' H1' S1') as [d1 [H1 [S1 ->]]].
    destruct (Hback d2' H2' S2') as [d2 [H2 [S2 ->]]].
    destruct (Hgood d1 H1 S1) as [[_ [_ [_ [C1 _]]]] _].
    destruct (Hgood d2 H2 S2) as [[_ [_ [_ [C2 _]]]] _].
    f_equal. apply Huq; try assumption. congruence.
  - intros s' d' Hs' Hd' Hsd'.
    destruct (Hback d' Hd' Hsd') as [d [Hd [Hsd ->]]].
    destruct (Hgood d Hd Hsd) as [[_ [Cm [_ [Cp [Ce _]]]]] _].
    destruct (Hsub s' Hs') as [T1 T2].
    destruct (Hx s d Hs Hd Hsd) as [X1 [m [X2 X3]]].
    split; [rewrite Ce, Cp, T1; exact X1|].
    exists m. split; [rewrite Cm, (Hm d Hd Hsd); exact X2|congruence].
Qed.

Lemma order_inv_frame st st' now sid s (A : id -> Prop) :
  ids_unique st -> get_sub st sid = Some s -> s_ordered s = true -> order_inv st now sid ->
  (forall d, In d (dels st) -> d_sub d = sid -> get_msg st' (d_msg d) = get_msg st (d_msg d)) ->
  (forall s', get_sub st' sid = Some s' -> s_msg_ttl s' = s_msg_ttl s /\ s_topic s' = s_topic s) ->
  evolves A (sdels sid st) (sdels sid st') ->
  (forall d, In d (dels st) -> d_sub d = sid -> A (d_id d) ->
             1 <= d_attempts d \/ eligible st s now d = true) ->
  order_inv st' now sid.
Proof.
  intros Hu Hs Ho Hinv Hm Hsub Hev HA.
  apply (order_inv_frame_gen st st' now sid s A Hs Hinv Hm Hsub Hev).
  intros d0 d Hd0 Hd Hsd He Ha HAd.
  destruct (HA d Hd Hsd HAd) as [H1|H1].
  - destruct Hinv as [Hmain _]. destruct (Hmain d0 d Hd0 Hd Hsd He Ha) as [At _]. lia.
  - rewrite (order_inv_blocks st now sid s d0 d Hu Hinv Hs Ho Hd0 Hd Hsd He Ha) in H1.
    discriminate.
Qed.

(* deleting dead rows (and nulling the links to them) *)
Lemma null_link_fields ids d :
  d_id (d_null_link ids d) = d_id d /\ d_msg (d_null_link ids d) = d_msg d /\
  d_sub (d_null_link ids d) = d_sub d /\ d_published (d_null_link ids d) = d_published d /\
  d_expires (d_null_link ids d) = d_expires d /\ d_attempts (d_null_link ids d) = d_attempts d /\
  d_completed (d_null_link ids d) = d_completed d /\
  (forall p, d_not_before d = Some p -> ~ In p ids -> d_not_before (d_null_link ids d) = Some p).
Proof.
  unfold d_null_link. destruct (d_not_before d) as [q|] eqn:E.
  - destruct (mem_id q ids) eqn:Em; cbn.
    + repeat split; auto. intros p Hp Hn. inversion Hp; subst.
      apply mem_id_In in Em. contradiction.
    + repeat split; auto. intros p Hp _. congruence.
  - repeat split; auto. intros p Hp. discriminate.
Qed.

Lemma order_inv_prune st st' now sid chosen :
  order_inv st now sid ->
  msgs st' = msgs st -> subs st' = subs st ->
  dels st' = map (d_null_link chosen) (del_ids d_id chosen (dels st)) ->
  (forall d, In d (dels st) -> d_sub d = sid -> In (d_id d) chosen -> active now d = false) ->
  order_inv st' now sid.
Proof.
  intros [Hmain [Huq Hx]] Hm Hsb Hd Hdead.
  set (nl := d_null_link chosen).
  assert (Hback : forall d', In d' (dels st') ->
            exists d, In d (dels st) /\ ~ In (d_id d) chosen /\ d' = nl d).
  { intros d' Hd'. rewrite Hd in Hd'. apply in_map_iff in Hd'. destruct Hd' as [d [He Hi]].
    apply in_del_ids in Hi. exists d. split; [apply Hi|]. split; [apply Hi|auto]. }
  assert (Hfwd : forall d, In d (dels st) -> ~ In (d_id d) chosen -> In (nl d) (dels st')).
  { intros d Hi Hn. rewrite Hd. apply in_map. apply in_del_ids. auto. }
  assert (Hkey : forall d, key_of st' (nl d) = key_of st d).
  { intros d. apply key_of_get. destruct (null_link_fields chosen d) as [_ [C _]].
    unfold nl. rewrite C. unfold get_msg. rewrite Hm. reflexivity. }
  assert (Hearl : forall d1 d2, earlier_same_key st' (nl d1) (nl d2) <-> earlier_same_key st d1 d2).
  { intros d1 d2. unfold earlier_same_key. rewrite !Hkey.
    destruct (null_link_fields chosen d1) as [_ [_ [C1 [C2 _]]]].
    destruct (null_link_fields chosen d2) as [_ [_ [C3 [C4 _]]]].
    unfold nl. rewrite C1, C2, C3, C4. reflexivity. }
  split; [|split].
  - intros d0' d' Hd0' Hd' Hs' He' Ha'.
    destruct (Hback d0' Hd0') as [d0 [Hd0 [Hn0 ->]]].
    destruct (Hback d' Hd') as [d [Hdd [Hnd ->]]].
    apply Hearl in He'.
    destruct (null_link_fields chosen d0) as [I0 [_ [S0 [_ [X0 [_ [C0 _]]]]]]].
    destruct (null_link_fields chosen d) as [I1 [_ [S1 [_ [X1 [A1 [C1 NB1]]]]]]].
    fold nl in I0, S0, X0, C0, I1, S1, X1, A1, C1, NB1.
    assert (Hsd : d_sub d = sid) by congruence.
    assert (Ha : active now d0 = true).
    { apply active_true in Ha'. apply active_true. rewrite C0, X0 in Ha'. exact Ha'. }
    destruct (Hmain d0 d Hd0 Hdd Hsd He' Ha) as [At [Co [Ex [p [Hp [Hnb Hor]]]]]].
    split; [congruence|]. split; [congruence|]. split; [lia|].
    assert (Hnp : ~ In (d_id p) chosen).
    { destruct Hor as [->|[E1 E2]]; [exact Hn0|].
      assert (Hps : d_sub p = sid) by (destruct E1 as [E _]; destruct He' as [E' _]; congruence).
      destruct (Hmain d0 p Hd0 Hp Hps E1 Ha) as [_ [Cp [Exp _]]].
      intros Hin. pose proof (Hdead p Hp Hps Hin) as Hf.
      assert (Hpa : active now p = true).
      { apply active_true in Ha. apply active_true. split; [exact Cp|lia]. }
      congruence. }
    exists (nl p). split; [apply Hfwd; assumption|].
    destruct (null_link_fields chosen p) as [Ip _]. fold nl in Ip.
    split; [rewrite Ip; apply NB1; assumption|].
    destruct Hor as [->|[E1 E2]]; [left; reflexivity|right].
    split; apply Hearl; assumption.
  - intros d1' d2' H1' H2' S1' S2' Hpub.
    destruct (Hback d1' H1') as [d1 [H1 [_ ->]]].
    destruct (Hback d2' H2') as [d2 [H2 [_ ->]]].
    destruct (null_link_fields chosen d1) as [_ [_ [S1 [P1 _]]]].
    destruct (null_link_fields chosen d2) as [_ [_ [S2 [P2 _]]]].
    fold nl in S1, P1, S2, P2.
    f_equal. apply Huq; try assumption; congruence.
  - intros s' d' Hs' Hd' Hsd'.
    destruct (Hback d' Hd') as [d [Hdd [_ ->]]].
    destruct (null_link_fields chosen d) as [_ [Cm [Cs [Cp [Ce _]]]]].
    fold nl in Cm, Cs, Cp, Ce.
    assert (Hs : get_sub st sid = Some s') by (unfold get_sub in *; rewrite <- Hsb; exact Hs').
    destruct (Hx s' d Hs Hdd ltac:(congruence)) as [X1 [m [X2 X3]]].
    split; [congruence|]. exists m. split; [|exact X3].
    rewrite Cm. unfold get_msg in *. rewrite Hm. exact X2.
Qed.

(* one new delivery for sid, created by deliver_to_sub at time w for a message m of the
   subscription's topic, later than everything sid has *)
Lemma order_inv_insert st st' now sid s m w i :
  order_inv st now sid -> get_sub st sid = Some s -> s_ordered s = true -> s_id s = sid ->
  msgs st' = msgs st -> subs st' = subs st ->
  (forall x, In x (sdels sid st') <-> x = new_del st s m w i \/ In x (sdels sid st)) ->
  get_msg st (m_id m) = Some m -> m_topic m = s_topic s ->
  (forall d, In d (dels st) -> d_sub d = sid -> d_published d < w) ->
  (forall d, In d (dels st) -> d_sub d = sid -> now < d_expires d -> w < d_expires d) ->
  order_inv st' now sid.
Proof.
  intros [Hmain [Huq Hx]] Hs Ho Hsid Hm Hsb Hin Hgm Htop B1 B2.
  set (dn := new_del st s m w i) in *.
  assert (Hcase : forall x, In x (dels st') -> d_sub x = sid -> x = dn \/ (In x (dels st) /\ d_sub x = sid)).
  { intros x Hx' Hsx. assert (Hi : In x (sdels sid st')) by (apply in_sdels; auto).
    apply Hin in Hi. destruct Hi as [->|Hi]; [left; reflexivity|right; apply in_sdels; exact Hi]. }
  assert (Hold : forall x, In x (dels st) -> d_sub x = sid -> In x (dels st')).
  { intros x Hx' Hsx. assert (Hi : In x (sdels sid st')) by (apply Hin; right; apply in_sdels; auto).
    apply in_sdels in Hi. apply Hi. }
  assert (Hkey : forall d, key_of st' d = key_of st d).
  { intros d. apply key_of_get. unfold get_msg. rewrite Hm. reflexivity. }
  assert (Hearl : forall d1 d2, earlier_same_key st' d1 d2 <-> earlier_same_key st d1 d2).
  { intros d1 d2. unfold earlier_same_key. rewrite !Hkey. reflexivity. }
  assert (Hdn_sub : d_sub dn = sid) by exact Hsid.
  assert (Hdn_pub : d_published dn = w) by reflexivity.
  assert (Hgs' : get_sub st' sid = get_sub st sid) by (unfold get_sub; rewrite Hsb; reflexivity).
  split; [|split].
  - intros d0 d Hd0 Hd Hsd He Ha.
    assert (Hs0 : d_sub d0 = sid) by (destruct He as [E _]; congruence).
    apply Hearl in He.
    destruct (Hcase d Hd Hsd) as [->|[Hdo _]].
    + (* the new row as successor *)
      destruct (Hcase d0 Hd0 Hs0) as [->|[Hd0o _]].
      { destruct He as [_ [_ Hlt]]. lia. }
      apply active_true in Ha. destruct Ha as [Ha1 Ha2].
      destruct (Hx s d0 Hs Hd0o Hs0) as [Ex0 [m0 [Gm0 Tm0]]].
      destruct He as [_ [[k [K0 Kn]] Hlt]].
      (* the key of the new message *)
      assert (Hmk : m_key m = Some k /\ String.eqb k "" = false).
      { unfold key_of in Kn. cbn [dn new_del d_msg] in Kn. rewrite Hgm in Kn.
        destruct (m_key m) as [k'|]; [|discriminate].
        destruct (String.eqb k' "") eqn:Ek; [discriminate|]. injection Kn as ->. auto. }
      destruct Hmk as [Hmk Hkne].
      assert (Hm0k : m_key m0 = Some k).
      { unfold key_of in K0. rewrite Gm0 in K0.
        destruct (m_key m0) as [k'|]; [|discriminate].
        destruct (String.eqb k' ""); [discriminate|]. injection K0 as ->. reflexivity. }
      assert (Hr0 : ld_rest st m w d0 = true).
      { unfold ld_rest. rewrite Gm0, Hm0k, Hmk, Tm0, Htop. rewrite N.eqb_refl. cbn.
        rewrite String.eqb_refl. rewrite andb_true_r. apply Z.ltb_lt. apply B2; assumption. }
      assert (Hi0 : In d0 (sdels (s_id s) st)) by (rewrite Hsid; apply in_sdels; auto).
      destruct (last_delivery_spec st s m w d0 Hi0 Hr0) as [p [Hld [Hp [Hrp Hle]]]].
      rewrite Hsid in Hp. apply in_sdels in Hp. destruct Hp as [Hp Hps].
      split; [reflexivity|]. split; [reflexivity|]. split.
      { cbn [dn new_del d_expires]. pose proof (B1 d0 Hd0o Hs0). lia. }
      exists p. split; [apply Hold; assumption|]. split.
      { cbn [dn new_del d_not_before]. rewrite Ho, Hmk, Hkne, Hld. reflexivity. }
      destruct (Z.eq_dec (d_published d0) (d_published p)) as [Heq|Hne].
      { left. symmetry. apply Huq; assumption. }
      right.
      assert (Kp : key_of st p = Some k).
      { unfold ld_rest in Hrp. apply andb_prop in Hrp. destruct Hrp as [_ Hrp].
        unfold key_of. destruct (get_msg st (d_msg p)) as [pm|]; [|discriminate].
        apply andb_prop in Hrp. destruct Hrp as [_ Hrp]. rewrite Hmk in Hrp.
        unfold os_eqb, opt_eqb in Hrp. destruct (m_key pm) as [k'|]; [|discriminate].
        apply String.eqb_eq in Hrp. subst k'. rewrite Hkne. reflexivity. }
      split; apply Hearl.
      * split; [congruence|]. split; [exists k; auto|lia].
      * split; [congruence|]. split; [exists k; auto|]. rewrite Hdn_pub. apply B1; assumption.
    + (* an old row as successor: the predecessor is old, too *)
      destruct (Hcase d0 Hd0 Hs0) as [->|[Hd0o _]].
      { destruct He as [_ [_ Hlt]]. pose proof (B1 d Hdo Hsd). lia. }
      destruct (Hmain d0 d Hd0o Hdo Hsd He Ha) as [At [Co [Ex [p [Hp [Hnb Hor]]]]]].
      split; [exact At|]. split; [exact Co|]. split; [exact Ex|].
      assert (Hps : d_sub p = sid).
      { destruct Hor as [->|[[E1 _] _]]; congruence. }
      exists p. split; [apply Hold; assumption|]. split; [exact Hnb|].
      destruct Hor as [->|[E1 E2]]; [left; reflexivity|right].
      split; apply Hearl; assumption.
  - intros d1 d2 H1 H2 S1 S2 Hpub.
    destruct (Hcase d1 H1 S1) as [->|[H1o _]], (Hcase d2 H2 S2) as [->|[H2o _]].
    + reflexivity.
    + pose proof (B1 d2 H2o S2). lia.
    + pose proof (B1 d1 H1o S1). lia.
    + apply Huq; assumption.
  - intros s' d Hs' Hd Hsd. rewrite Hgs', Hs in Hs'. inversion Hs'; subst s'.
    destruct (Hcase d Hd Hsd) as [->|[Hdo _]].
    + split; [reflexivity|]. exists m. split; [|exact Htop].
      cbn [dn new_del d_msg]. unfold get_msg in *. rewrite Hm. exact Hgm.
    + destruct (Hx s d Hs Hdo Hsd) as [X1 [m0 [X2 X3]]]. split; [exact X1|].
      exists m0. split; [|exact X3]. unfold get_msg in *. rewrite Hm. exact X2.
Qed.

Lemma order_inv_keep st st' now sid s :
  get_sub st sid = Some s -> order_inv st now sid ->
  msgs st' = msgs st -> sdels sid st' = sdels sid st -> sagree st' sid s ->
  order_inv st' now sid.
Proof.
  intros Hs Hinv Hm Hd Hsa.
  apply (order_inv_frame_gen st st' now sid s (fun _ => False) Hs Hinv).
  - intros d _ _. unfold get_msg. rewrite Hm. reflexivity.
  - exact Hsa.
  - apply evolves_eq. exact Hd.
  - intros d0 d _ _ _ _ _ F. exact F.
Qed.

Lemma order_inv_framed st st0 st' now sid s (A : id -> Prop) :
  ids_unique st -> get_sub st sid = Some s -> s_ordered s = true -> order_inv st now sid ->
  msgs st0 = msgs st -> dels st0 = dels st -> frame sid A st0 st' -> sagree st0 sid s ->
  (forall d, In d (dels st) -> d_sub d = sid -> A (d_id d) ->
             1 <= d_attempts d \/ eligible st s now d = true) ->
  order_inv st' now sid.
Proof.
  intros Hu Hs Ho Hinv Hm Hd [F1 [F2 F3]] Hsa HA.
  apply (order_inv_frame st st' now sid s A Hu Hs Ho Hinv); [| | |exact HA].
  - intros d _ _. unfold get_msg. rewrite F1, Hm. reflexivity.
  - intros s' Hs'. apply Hsa. unfold get_sub in *. rewrite <- F2. exact Hs'.
  - unfold sdels in *. rewrite Hd in F3. exact F3.
Qed.

(* ---- Publish ---- *)
Lemma strictly_increasing_head l : forall a,
  strictly_increasing (a :: l) -> (forall b, In b l -> a < b) /\ strictly_increasing l.
Proof.
  induction l as [|b r IH]; intros a H.
  - split; [intros b []|exact I].
  - change (a < b /\ strictly_increasing (b :: r)) in H. destruct H as [Hab Hr].
    split; [|exact Hr]. destruct (IH b Hr) as [Hall _].
    intros x [<-|Hx]; [exact Hab|]. pose proof (Hall x Hx). lia.
Qed.

Lemma publish_one_inv st now sid s t p fr st' fr' wk :
  NoDup (map s_id (subs st)) -> order_inv st now sid -> get_sub st sid = Some s ->
  s_ordered s = true ->
  publish_one st t p fr = (st', fr', wk, []) ->
  (forall d, In d (dels st) -> d_sub d = sid -> d_published d < pm_now p) ->
  (forall d, In d (dels st) -> d_sub d = sid -> now < d_expires d -> pm_now p < d_expires d) ->
  order_inv st' now sid /\ subs st' = subs st /\
  (forall d, In d (dels st') -> d_sub d = sid ->
     In d (dels st) \/ (d_published d = pm_now p /\ d_expires d = pm_now p + s_msg_ttl s)).
Proof.
  intros Hnd Hinv Hs Ho Hpub B1 B2.
  apply publish_one_unfold in Hpub. destruct Hpub as [Hfresh Hdel].
  set (m := pub_msg t p) in *. set (st1 := pub_st1 st t p) in *.
  assert (Hd1 : dels st1 = dels st) by reflexivity.
  assert (Hs1 : subs st1 = subs st) by reflexivity.
  assert (Hm1 : msgs st1 = ins m_id m (msgs st)) by reflexivity.
  assert (Hmid : m_id m = pm_id p) by reflexivity.
  assert (Hinv1 : order_inv st1 now sid).
  { apply (order_inv_frame_gen st st1 now sid s (fun _ => False) Hs Hinv).
    - intros d Hd Hsd. destruct Hinv as [_ [_ Hx]].
      destruct (Hx s d Hs Hd Hsd) as [_ [m0 [Hg _]]].
      unfold get_msg in *. rewrite Hm1. apply find_id_ins_other.
      apply find_id_In in Hg. destruct Hg as [Hin Hid].
      pose proof (has_id_false m_id _ _ Hfresh m0 Hin) as Hne.
      rewrite Hmid. intros E. apply Hne. congruence.
    - apply (sagree_same st); auto.
    - apply evolves_eq. unfold sdels. rewrite Hd1. reflexivity.
    - intros d0 d _ _ _ _ _ F. exact F. }
  assert (Hgs1 : get_sub st1 sid = Some s) by (unfold get_sub; rewrite Hs1; exact Hs).
  pose proof (get_sub_in _ _ _ Hs) as [Hsin Hsid].
  assert (Hnd1 : NoDup (map s_id (live_subs_of st1 (t_id t)))).
  { unfold live_subs_of. apply NoDup_map_filter. rewrite Hs1. exact Hnd. }
  assert (Huq1 : forall s0, In s0 (live_subs_of st1 (t_id t)) -> s_id s0 = sid -> s0 = s).
  { intros s0 H0 He. unfold live_subs_of in H0. apply filter_In in H0. destruct H0 as [H0 _].
    rewrite Hs1 in H0. apply (NoDup_map_inj s_id (subs st)); auto. congruence. }
  destruct (deliver_to_subs_sid sid s _ _ _ _ _ _ _ _ Hnd1 Hsid Huq1 Hdel) as [M2 [S2 Hcase]].
  destruct Hcase as [Hsame|[Hin [i Hins]]].
  - split; [|split].
    + apply (order_inv_keep st1 st' now sid s Hgs1 Hinv1 M2 Hsame). apply (sagree_same st1); auto.
    + congruence.
    + intros d Hd Hsd. left. assert (Hi : In d (sdels sid st')) by (apply in_sdels; auto).
      rewrite Hsame in Hi. apply in_sdels in Hi. rewrite <- Hd1. apply Hi.
  - split; [|split].
    + unfold live_subs_of in Hin. apply filter_In in Hin. destruct Hin as [_ Hin].
      apply andb_prop in Hin. destruct Hin as [_ Htop]. apply N.eqb_eq in Htop.
      apply (order_inv_insert st1 st' now sid s m (pm_now p) i Hinv1 Hgs1 Ho Hsid M2 S2 Hins).
      * unfold get_msg. rewrite Hm1. apply find_id_ins_same. rewrite Hmid.
        unfold has_id in Hfresh. destruct (find_id m_id (pm_id p) (msgs st)); [discriminate|reflexivity].
      * change (m_topic m) with (t_id t). symmetry. exact Htop.
      * exact B1.
      * exact B2.
    + congruence.
    + intros d Hd Hsd. assert (Hi : In d (sdels sid st')) by (apply in_sdels; auto).
      apply Hins in Hi. destruct Hi as [->|Hi]; [right; split; reflexivity|].
      left. apply in_sdels in Hi. rewrite <- Hd1. apply Hi.
Qed.

Lemma publish_all_inv sid s now t ps : forall st fr st' fr' wk,
  NoDup (map s_id (subs st)) -> order_inv st now sid -> get_sub st sid = Some s ->
  s_ordered s = true ->
  publish_all st t ps fr = Some (st', fr', wk, []) ->
  strictly_increasing (map pm_now ps) ->
  (forall d w, In d (dels st) -> d_sub d = sid -> In w (map pm_now ps) -> d_published d < w) ->
  (forall d w, In d (dels st) -> d_sub d = sid -> In w (map pm_now ps) -> now < d_expires d ->
               w < d_expires d) ->
  (forall w w', In w (map pm_now ps) -> In w' (map pm_now ps) -> w' < w + s_msg_ttl s) ->
  order_inv st' now sid.
Proof.
  induction ps as [|p r IH]; intros st fr st' fr' wk Hnd Hinv Hs Ho; cbn [publish_all map].
  - intros H _ _ _ _. inversion H; subst. exact Hinv.
  - destruct (negb (pm_valid p)); [discriminate|].
    destruct (publish_one st t p fr) as [[[st1 fr1] w1] n1] eqn:E1.
    destruct (publish_all st1 t r fr1) as [[[[st2 fr2] w2] n2]|] eqn:E2; [|discriminate].
    intros H Hinc B1 B2 B3. inversion H; subst. clear H.
    match goal with H : n1 ++ n2 = [] |- _ => apply app_eq_nil in H; destruct H as [-> ->] end.
    apply strictly_increasing_head in Hinc. destruct Hinc as [Hhead Hinc].
    destruct (publish_one_inv st now sid s t p fr st1 fr1 w1 Hnd Hinv Hs Ho E1) as [I1 [S1 D1]].
    { intros d Hd Hsd. apply (B1 d _ Hd Hsd). left; reflexivity. }
    { intros d Hd Hsd. apply (B2 d _ Hd Hsd). left; reflexivity. }
    apply (IH st1 fr1 st' fr' w2); auto.
    + rewrite S1. exact Hnd.
    + unfold get_sub. rewrite S1. exact Hs.
    + intros d w Hd Hsd Hw. destruct (D1 d Hd Hsd) as [Hold|[Hp _]].
      * apply (B1 d w Hold Hsd). right; exact Hw.
      * rewrite Hp. apply Hhead. exact Hw.
    + intros d w Hd Hsd Hw Hlt. destruct (D1 d Hd Hsd) as [Hold|[_ He]].
      * apply (B2 d w Hold Hsd); [right; exact Hw|exact Hlt].
      * rewrite He. apply B3; [left; reflexivity|right; exact Hw].
    + intros w w' Hw Hw'. apply B3; right; assumption.
Qed.

(* every legal, quiet, disciplined step preserves it *)
(* (the existence of the messages of sid's deliveries is part of the strengthened
   invariant, so the hypothesis about messages is not needed) *)
Lemma order_inv_step' st now o sid s :
  ids_unique st -> legal st now o -> quiet st now o -> disciplined st o sid ->
  get_sub st sid = Some s -> s_ordered s = true ->
  order_inv st now sid -> order_inv (post st now o) now sid.
Proof.
  intros Hu Hl Hq Hdisc Hs Ho Hinv.
  destruct Hdisc as [H1 [H2 [H3 [H4 [H5 H6]]]]].
  assert (Hud : NoDup (map d_id (dels st))) by apply Hu.
  destruct (quiet_op o) eqn:Eq.
  { destruct (step_quiet_op st now o Eq) as [Ed [Em Es]].
    apply (order_inv_keep st _ now sid s Hs Hinv Em);
      [unfold sdels; rewrite Ed; reflexivity|apply (sagree_same st); auto]. }
  destruct (sub_op o) eqn:Es.
  { destruct (step_sub_op st now o sid s Hu Hl Hs Es) as [Ed [Em Esa]].
    - destruct o; try exact I. intros Hn. apply (H2 Hn).
    - apply (order_inv_keep st _ now sid s Hs Hinv Em); [unfold sdels; rewrite Ed; reflexivity|exact Esa]. }
  destruct o; cbn in Eq, Es; try discriminate.
  - (* Publish *)
    unfold legal, post, step in *.
    destruct (negb (valid_topic_name topic)); [exact Hinv|].
    destruct (find_live_topic st topic) as [t|]; [|exact Hinv].
    destruct (publish_all st t ms fr) as [[[[st' fr'] wk] n]|] eqn:E; [|exact Hinv].
    cbn [done r_state r_notes] in *. apply app_eq_nil in Hl. destruct Hl as [-> _].
    destruct Hq as [Q1 [Q2 [Q3 Q4]]]. cbn [op_wnows] in Q1, Q2, Q3.
    apply (publish_all_inv sid s now t ms st fr st' fr' wk (proj1 (proj2 Hu)) Hinv Hs Ho E Q2).
    + intros d w Hd Hsd Hw. pose proof (Q4 d Hd). pose proof (Q1 w Hw). lia.
    + intros d w Hd Hsd Hw Hlt. apply (Q3 d w Hd Hw Hlt).
    + exact (H5 s Hs).
  - (* ModAck *)
    destruct (step_modack st now name ids seconds wnow) as [E|[l E]]; rewrite E; [exact Hinv|].
    apply (order_inv_framed st st _ now sid s (fun _ => False) Hu Hs Ho Hinv eq_refl eq_refl
             (do_delay_frame sid st l _ wnow)).
    + apply (sagree_same st); auto.
    + intros d _ _ F. destruct F.
  - (* Ack *)
    destruct (step_ack st now name ids wnow) as [E|[l [-> E]]]; rewrite E; [exact Hinv|].
    apply (order_inv_framed st st _ now sid s _ Hu Hs Ho Hinv eq_refl eq_refl
             (do_ack_frame sid st l wnow)).
    + apply (sagree_same st); auto.
    + intros d Hd Hsd Hm. left. exact (H1 d Hd Hsd Hm).
  - (* Pull *)
    destruct (pull_cases _ _ _ _ _ _ _ _ _ Hl)
      as [[E _]|[s0 [st1 [fr1 [ps [wk [Hf [Hsel [Har [E _]]]]]]]]]]; rewrite E; [exact Hinv|].
    destruct (apply_results_frame sid _ _ _ _ _ _ _ _ _ _ _ _ _ _ _ H6 Har) as [F _].
    apply (order_inv_framed st (pull_st0 st s0 wnow) st1 now sid s _ Hu Hs Ho Hinv eq_refl eq_refl F).
    + eapply (sagree_upd st); [reflexivity|exact Hs|]. intros r. cbn. auto.
    + intros d Hd Hsd [c [Hc Hid]]. right.
      apply pull_cands_in in Hc; [|exact Hud]. destruct Hc as [Hc Hobs].
      assert (c = d) by (apply (NoDup_map_inj d_id (dels st)); auto). subst c.
      destruct (selection_legal_eligible _ _ _ _ _ _ _ Hsel Hobs) as [e [He1 [He2 He3]]].
      assert (e = d) by (apply (NoDup_map_inj d_id (dels st)); auto). subst e.
      pose proof (eligible_sub _ _ _ _ He3) as Hsub0.
      pose proof (find_live_sub_get _ _ _ Hu Hf) as Hg0.
      rewrite <- Hsub0, Hsd, Hs in Hg0. injection Hg0 as ->. exact He3.
  - (* SeekTime *)
    destruct (step_seek_other st now (SeekTime name target wnow) sid H3 I) as [Em [Esb Ed]].
    apply (order_inv_keep st _ now sid s Hs Hinv Em Ed). apply (sagree_same st); auto.
  - (* SeekSnap *)
    destruct (step_seek_other st now (SeekSnap name snapname wnow) sid H3 I) as [Em [Esb Ed]].
    apply (order_inv_keep st _ now sid s Hs Hinv Em Ed). apply (sagree_same st); auto.
  - (* StreamAckNack *)
    destruct (step_stream _ _ _ _ _ _ _ Hl) as [st2 [fr2 [w2 [En E]]]]. rewrite E.
    destruct (do_nack_frame sid _ _ _ _ _ _ _ _ _ H6 En) as [F2 _].
    pose proof (do_ack_frame sid st acks wnow) as F1.
    set (st1 := fst (do_ack st acks wnow)) in *.
    set (A := fun i => mem_id i acks = true \/
                       exists d, In d (dels st1) /\ d_id d = i /\ 1 <= d_attempts d).
    assert (F : frame sid A st st2).
    { eapply frame_trans.
      - eapply frame_weaken; [|exact F1]. intros i Hi. left. exact Hi.
      - eapply frame_weaken; [|exact F2]. intros i Hi. right. exact Hi. }
    apply (order_inv_framed st st st2 now sid s A Hu Hs Ho Hinv eq_refl eq_refl F).
    + apply (sagree_same st); auto.
    + intros d Hd Hsd [Hm|[d1 [Hd1 [Hid Hat]]]]; left; [exact (H1 d Hd Hsd Hm)|].
      unfold st1, do_ack in Hd1. cbn [fst set_dels dels] in Hd1. unfold upd_where in Hd1.
      apply in_map_iff in Hd1. destruct Hd1 as [d' [Heq Hd']].
      assert (Hid' : d_id d1 = d_id d' /\ d_attempts d1 = d_attempts d').
      { rewrite <- Heq. destruct (ack_pred acks d'); cbn; auto. }
      destruct Hid' as [I1 I2].
      assert (d' = d) by (apply (NoDup_map_inj d_id (dels st)); auto; congruence). subst d'.
      lia.
  - (* Job *)
    unfold legal, post, step in *. destruct failed; [rewrite run_job_failed; exact Hinv|].
    pose proof (run_job_choice _ _ _ _ _ _ _ _ Hl) as Hc.
    assert (Hmatch : forall d, In d (dels st) -> In (d_id d) chosen ->
              forall P, job_matches st j now min_age = map d_id (filter P (dels st)) -> P d = true).
    { intros d Hd Hin P HP. pose proof (choice_legal_in _ _ _ _ Hc Hin) as Hm.
      rewrite HP in Hm. apply in_map_iff in Hm. destruct Hm as [r [Hr1 Hr2]].
      apply filter_In in Hr2. destruct Hr2 as [Hr2 Hr3].
      assert (r = d) by (apply (NoDup_map_inj d_id (dels st)); auto). subst r. exact Hr3. }
    destruct j.
    + (* PruneCompletedDeliveries *)
      apply (order_inv_prune st _ now sid chosen Hinv); try reflexivity.
      intros d Hd Hsd Hin. pose proof (Hmatch d Hd Hin _ eq_refl) as HP. cbn beta in HP.
      unfold active. destruct (d_completed d); [reflexivity|discriminate].
    + (* PruneExpiredDeliveries *)
      apply (order_inv_prune st _ now sid chosen Hinv); try reflexivity.
      intros d Hd Hsd Hin. pose proof (Hmatch d Hd Hin _ eq_refl) as HP. cbn beta in HP.
      apply Z.ltb_lt in HP. unfold active.
      assert (Hx : (now <? d_expires d) = false) by (apply Z.ltb_ge; lia).
      rewrite Hx. apply andb_false_r.
    + (* PruneCompletedMessages *)
      apply (order_inv_frame_gen st _ now sid s (fun _ => False) Hs Hinv).
      * intros d Hd Hsd. unfold run_job. cbv zeta. cbn [done r_state]. unfold get_msg, set_msgs. cbn [msgs].
        unfold del_ids.
        destruct (find_id m_id (d_msg d) (msgs st)) as [m0|] eqn:Eg;
          [|apply find_id_filter_none; exact Eg].
        apply find_id_filter_keep; [exact Eg|].
        destruct (existsb (N.eqb (m_id m0)) chosen) eqn:Ex; [exfalso|reflexivity].
        apply existsb_eqb_In in Ex.
        pose proof (choice_legal_in _ _ _ _ Hc Ex) as Hm. cbn [job_matches] in Hm.
        apply in_map_iff in Hm. destruct Hm as [m1 [Hm1 Hm2]].
        apply filter_In in Hm2. destruct Hm2 as [_ Hm2]. apply andb_prop in Hm2.
        destruct Hm2 as [_ Hm2]. apply find_id_In in Eg. destruct Eg as [_ Eg].
        assert (Hex : existsb (fun d0 => N.eqb (d_msg d0) (m_id m1)) (dels st) = true).
        { apply existsb_exists. exists d. split; [exact Hd|]. apply N.eqb_eq. congruence. }
        rewrite Hex in Hm2. discriminate.
      * apply (sagree_same st); auto.
      * apply evolves_eq. reflexivity.
      * intros d0 d _ _ _ _ _ F. exact F.
    + (* PruneDeletedSubDeliveries *)
      apply (order_inv_prune st _ now sid chosen Hinv); try reflexivity.
      intros d Hd Hsd Hin. pose proof (Hmatch d Hd Hin _ eq_refl) as HP. cbn beta in HP.
      rewrite Hsd, Hs, (H4 s Hs) in HP. discriminate.
    + (* PruneDeletedSubs *)
      apply (order_inv_keep st _ now sid s Hs Hinv); try reflexivity.
      eapply (sagree_del_ids st); [apply Hu|reflexivity|exact Hs].
    + (* PruneDeletedTopics *)
      unfold run_job. cbv zeta.
      destruct (existsb (topic_has_messages st) chosen); [exact Hinv|].
      apply (order_inv_keep st _ now sid s Hs Hinv); try reflexivity.
      eapply (sagree_map st); [reflexivity|exact Hs| | |].
      * intros r _. cbn beta. destruct (s_dl_topic r) as [i|]; [destruct (mem_id i chosen)|]; reflexivity.
      * cbn beta. destruct (s_dl_topic s) as [i|]; [destruct (mem_id i chosen)|]; reflexivity.
      * cbn beta. destruct (s_dl_topic s) as [i|]; [destruct (mem_id i chosen)|]; reflexivity.
    + (* ExpireSubs *)
      apply (order_inv_keep st _ now sid s Hs Hinv); try reflexivity.
      eapply (sagree_upd st); [reflexivity|exact Hs|]. intros r. cbn. auto.
    + (* DeadLetterSweep *)
      destruct (run_job_sweep _ _ _ _ _ _ _ Hl) as [st1 [fr1 [wk [Esw E]]]]. rewrite E.
      destruct (sweep_each_frame sid _ _ _ _ _ _ _ H6 Esw) as [F _].
      apply (order_inv_framed st st st1 now sid s _ Hu Hs Ho Hinv eq_refl eq_refl F).
      * apply (sagree_same st); auto.
      * intros d Hd Hsd Hin. left.
        pose proof (Hmatch d Hd Hin _ eq_refl) as HP. cbn beta in HP.
        rewrite Hsd, Hs in HP.
        apply andb_prop in HP. destruct HP as [HP _]. apply andb_prop in HP. destruct HP as [HP _].
        apply andb_prop in HP. destruct HP as [HP _]. apply andb_prop in HP. destruct HP as [HP Hle].
        apply andb_prop in HP. destruct HP as [_ Hfull].
        apply full_dl_pos in Hfull. apply Z.leb_le in Hle. lia.
Qed.

(* STATEMENT-ISSUE: with the ORIGINAL definition of [disciplined] (H1-H3 only) this statement
   is false for the model, whatever invariant is chosen that implies the main conjunct:
   (a) sid soft-deleted, rows d0 < d1 < d2 of one key all outstanding and chained: a legal
       PruneDeletedSubDeliveries may choose d1 alone; ON DELETE SET NULL clears d2's link
       while d0 is still active;
   (b) a Publish batch whose two same-key messages are written further apart than sid's
       retention: the second does not see the (at its own write time expired) first as
       predecessor, yet at the step's read time [now] the first is still active;
   (c) a dead-letter forward (Pull / nack / sweep of another subscription whose dead-letter
       topic is sid's topic) creates a delivery of sid for a message of ANOTHER topic: the
       predecessor query (same topic) never chains it with directly published messages of
       the same key, and two forwards of one transaction share their published_at.
   Corrected by the hypotheses H4, H5, H6 added to [disciplined] (see there); name, argument
   order and shape of the theorem are unchanged. *)
Theorem order_inv_step st now o sid s :
  ids_unique st -> legal st now o -> quiet st now o -> disciplined st o sid ->
  (forall d, In d (dels st) -> has_id m_id (d_msg d) (msgs st) = true) ->
  get_sub st sid = Some s -> s_ordered s = true ->
  order_inv st now sid -> order_inv (post st now o) now sid.
Proof.
  intros Hu Hl Hq Hdisc _ Hs Ho Hinv. eapply order_inv_step'; eassumption.
Qed.

(* ---- the property, one step ---- *)
(* A pull on an ordered subscription never returns a message with key K while an
   earlier-published message with the same key is still outstanding on it. *)
Theorem C05_no_overtake_step st now name max returned others w fz fr s p d d0 :
  ids_unique st -> legal st now (Pull name max returned others w fz fr) ->
  find_live_sub st name = Some s -> s_ordered s = true -> order_inv st now (s_id s) ->
  In p (pulled_of (answer st now (Pull name max returned others w fz fr))) ->
  In d (dels st) -> d_id d = p_ack p -> In d0 (dels st) -> earlier_same_key st d0 d ->
  active now d0 = false.
Proof.
  intros Hu Hl Hf Ho Hinv Hp Hd Hid Hd0 He.
  destruct (pull_cases _ _ _ _ _ _ _ _ _ Hl) as [[_ Hnil]|[s' [st1 [fr1 [ps [wk [Hf' [Hsel [Har [_ Hans]]]]]]]]]].
  { rewrite Hnil in Hp. destruct Hp. }
  rewrite Hf in Hf'. injection Hf' as <-.
  rewrite Hans in Hp. cbn [pulled_of] in Hp.
  destruct (apply_results_pulled _ _ _ _ _ _ _ _ _ _ _ _ _ _ _ _ Har p Hp) as [c [Hc Hpc]].
  assert (Hud : NoDup (map d_id (dels st))) by apply Hu.
  apply pull_cands_in in Hc; [|exact Hud]. destruct Hc as [Hc Hobs].
  assert (d = c) by (apply (NoDup_map_inj d_id (dels st)); auto; congruence). subst c.
  destruct (selection_legal_eligible _ _ _ _ _ _ _ Hsel Hobs) as [e [He1 [He2 He3]]].
  assert (e = d) by (apply (NoDup_map_inj d_id (dels st)); auto). subst e.
  destruct (active now d0) eqn:Ha; [exfalso|reflexivity].
  pose proof (find_live_sub_get _ _ _ Hu Hf) as Hgs.
  pose proof (eligible_sub _ _ _ _ He3) as Hsd.
  rewrite (order_inv_blocks st now (s_id s) s d0 d Hu Hinv Hgs Ho Hd0 Hd Hsd He Ha) in He3.
  discriminate.
Qed.

(* ---- the property over histories ---- *)
Lemma C05_aux h : forall st t0 sid,
  ids_unique st -> all_legal st h -> times_nondecreasing t0 h ->
  (forall s now o, In (s, now, o) (trace st h) -> quiet s now o /\ disciplined s o sid) ->
  (forall s now o, In (s, now, o) (trace st h) ->
                   exists sb, get_sub s sid = Some sb /\ s_ordered sb = true) ->
  order_inv st t0 sid ->
  forall s now o p d d0, In (s, now, o) (trace st h) ->
    In p (pulled_of (answer s now o)) -> In d (dels s) -> d_id d = p_ack p -> d_sub d = sid ->
    In d0 (dels s) -> earlier_same_key s d0 d -> active now d0 = false.
Proof.
  induction h as [|[now1 o1] r IH]; intros st t0 sid Hu Hleg Htimes Hqd Hsub Hinv s now o p d d0 Hin;
    cbn [trace] in *.
  - destruct Hin.
  - destruct Htimes as [Ht Htimes].
    assert (Hhead : In (st, now1, o1) ((st, now1, o1) :: trace (post st now1 o1) r)) by (left; reflexivity).
    pose proof (Hleg _ _ _ Hhead) as Hl1.
    destruct (Hqd _ _ _ Hhead) as [Hq1 Hd1].
    destruct (Hsub _ _ _ Hhead) as [sb [Hsb Hob]].
    pose proof (order_inv_later st t0 now1 sid Ht Hinv) as Hinv1.
    destruct Hin as [Heq|Hin].
    + injection Heq as <- <- <-. intros Hp Hd Hid Hsd Hd0 He.
      destruct (pulled_only_pull _ _ _ _ Hp) as [name [max [ret [oth [w [fz [fr ->]]]]]]].
      destruct (pulled_eligible _ _ _ _ _ _ _ _ _ _ _ Hu Hl1 Hp Hd Hid) as [s0 [Hf Hel]].
      pose proof (eligible_sub _ _ _ _ Hel) as Hs0.
      pose proof (find_live_sub_get _ _ _ Hu Hf) as Hg0.
      assert (s0 = sb) by (rewrite <- Hs0, Hsd, Hsb in Hg0; injection Hg0 as ->; reflexivity).
      subst s0.
      apply (C05_no_overtake_step st now1 name max ret oth w fz fr sb p d d0 Hu Hl1 Hf Hob); auto.
      rewrite <- Hs0, Hsd. exact Hinv1.
    + intros Hp Hd Hid Hsd Hd0 He.
      apply (fun G1 G2 G3 G4 G5 G6 =>
               IH (post st now1 o1) now1 sid G1 G2 G3 G4 G5 G6 s now o p d d0 Hin Hp Hd Hid Hsd Hd0 He).
      * apply step_ids_unique; assumption.
      * intros s' now' o' Hi. apply Hleg. right. exact Hi.
      * exact Htimes.
      * intros s' now' o' Hi. apply Hqd. right. exact Hi.
      * intros s' now' o' Hi. apply (Hsub s' now' o'). right. exact Hi.
      * eapply order_inv_step'; eassumption.
Qed.

Theorem C05_no_overtake h : forall st t0 sid,
  ids_unique st -> all_legal st h -> times_nondecreasing t0 h ->
  (forall d, In d (dels st) -> has_id m_id (d_msg d) (msgs st) = true) ->
  (forall s now o, In (s, now, o) (trace st h) -> quiet s now o /\ disciplined s o sid) ->
  (forall s now o, In (s, now, o) (trace st h) ->
                   exists sb, get_sub s sid = Some sb /\ s_ordered sb = true) ->
  order_inv st t0 sid ->
  forall s now o p d d0, In (s, now, o) (trace st h) ->
    In p (pulled_of (answer s now o)) -> In d (dels s) -> d_id d = p_ack p -> d_sub d = sid ->
    In d0 (dels s) -> earlier_same_key s d0 d -> active now d0 = false.
Proof.
  intros st t0 sid Hu Hleg Ht _ Hqd Hsub Hinv. apply (C05_aux h st t0 sid); assumption.
Qed.

(* ---- why the hypotheses are needed: counterexamples on the model (to be replayed on
   the implementation by the harness) ---- *)
(* H3: a seek revives an acknowledged predecessor with a LATER retention deadline than
   its untouched successors; when the direct successor expires the next one is released
   while the revived message is still outstanding. H1: acknowledging a never-delivered
   successor by a guessed id releases the one after it. These are stated as existence of
   a legal history violating the conclusion; prove them by exhibiting concrete histories
   with vm_compute if time permits (optional). (Not done here. H4-H6: see the
   STATEMENT-ISSUE comment above [order_inv_step].) *)

(* ---- H3 is necessary: the property FAILS on the model when the subscription is sought ----
   (the property's quantifier includes seeks; this is finding F19, replayed on the
   implementation by the harness part seek-revival of the C05 check)

   retention 600 s.  A (key k) is published, delivered and acknowledged; B and C (key k) are
   published: B is chained behind A (acknowledged: not blocking), C behind B.  A seek to the
   past at 60 s revives A with a FRESH retention (until 660 s) -- later than B's (620 s) and
   C's (621 s).  A is delivered again and not acknowledged.  At 620.5 s B has expired without
   ever being deliverable; the predecessor test looks one link back only, finds B expired, and
   releases C -- while A, published earlier with the same key, is still outstanding. *)
Module SeekRevival.
  Definition tn : str := "projects/p/topics/t".
  Definition sn : str := "projects/p/subscriptions/s".
  Definition S : Z := 1000000000.
  Definition q0 := mkSubreq sn tn 0 (600 * S) true [] "" false None None None.
  Definition h : hist :=
    [ (1 * S, CreateTopic tn [] false 1%N);
      (2 * S, CreateSub q0 2%N (2 * S));
      (10 * S, Publish tn [mkPubmsg "A" true [] "k" 1 10%N (10 * S)] [(10%N, 2%N, 20%N)]);
      (11 * S, Pull sn 10 [20%N] [] (11 * S) [] []);
      (12 * S, Ack sn (Some [20%N]) (12 * S));
      (20 * S, Publish tn [mkPubmsg "B" true [] "k" 1 11%N (20 * S)] [(11%N, 2%N, 21%N)]);
      (21 * S, Publish tn [mkPubmsg "C" true [] "k" 1 12%N (21 * S)] [(12%N, 2%N, 22%N)]);
      (60 * S, SeekTime sn (5 * S) (60 * S));
      (61 * S, Pull sn 1 [20%N] [] (61 * S) [] []) ].
  Definition st := run empty_state h.
  Definition now : time := 620500000000.
  Definition o := Pull sn 1 [22%N] [] now [] [].
End SeekRevival.

Theorem C05_seek_revival_refuted :
  exists (h : hist) (now : time) (o : op) (p : pulled) (d d0 : del) (sb : sub),
    all_legal empty_state (h ++ [(now, o)]) /\ times_nondecreasing 0 (h ++ [(now, o)]) /\
    get_sub (run empty_state h) (d_sub d) = Some sb /\ s_ordered sb = true /\
    In p (pulled_of (answer (run empty_state h) now o)) /\
    In d (dels (run empty_state h)) /\ d_id d = p_ack p /\
    In d0 (dels (run empty_state h)) /\ earlier_same_key (run empty_state h) d0 d /\
    active now d0 = true.
Proof.
  exists SeekRevival.h, SeekRevival.now, SeekRevival.o.
  exists (mkPulled 22%N 12%N 1 "C" [] "k" (21 * SeekRevival.S)).
  exists (mkDel 22%N 12%N 2%N (21 * SeekRevival.S) (21 * SeekRevival.S) 0 None (621 * SeekRevival.S) (Some 21%N) None).
  exists (mkDel 20%N 10%N 2%N (10 * SeekRevival.S) 73100000000 2 None (660 * SeekRevival.S) None (Some (61 * SeekRevival.S))).
  eexists.
  split; [apply all_legal_b_sound; vm_compute; reflexivity|].
  split; [vm_compute; intuition discriminate|].
  split; [vm_compute; reflexivity|].
  split; [reflexivity|].
  split; [vm_compute; left; reflexivity|].
  split; [vm_compute; right; right; left; reflexivity|].
  split; [reflexivity|].
  split; [vm_compute; left; reflexivity|].
  split; [|vm_compute; reflexivity].
  unfold earlier_same_key. split; [reflexivity|]. split; [|vm_compute; reflexivity].
  exists "k". split; vm_compute; reflexivity.
Qed.

(* ---- the ordering monitor: the property as an executable test on an observed pull ----
   (the harness evaluates the same test on the implementation's observed states: its
   orderMonitor; here: it is quiet on every pull of the model under the invariant) *)
Definition okey_eqb (a b : option str) : bool :=
  match a, b with Some x, Some y => String.eqb x y | _, _ => false end.

(* the (handed-out, overtaken) pairs of a pull response [ps] on state [st], judged at time [t] *)
Definition overtaken (st : state) (t : time) (sid : id) (ps : list pulled) : list (id * id) :=
  flat_map (fun p =>
    match get_del st (p_ack p) with
    | Some d =>
        map (fun d0 => (d_id d, d_id d0))
            (filter (fun d0 => N.eqb (d_sub d0) sid && N.eqb (d_sub d) sid && active t d0 &&
                               (d_published d0 <? d_published d) && okey_eqb (key_of st d0) (key_of st d))
                    (dels st))
    | None => []
    end) ps.

Lemma flat_map_nil' {A B} (f : A -> list B) l : (forall x, In x l -> f x = []) -> flat_map f l = [].
Proof.
  induction l as [|x l IH]; cbn [flat_map]; intros H; [reflexivity|].
  rewrite (H x (or_introl eq_refl)). cbn [app]. apply IH. intros y Hy. apply H. right; exact Hy.
Qed.

Lemma okey_eqb_true a b : okey_eqb a b = true -> exists k, a = Some k /\ b = Some k.
Proof.
  destruct a as [x|], b as [y|]; cbn; try discriminate. intros H. apply String.eqb_eq in H. subst. eauto.
Qed.

Lemma active_earlier now t d : now <= t -> active t d = true -> active now d = true.
Proof.
  unfold active. intros Hle H. apply andb_true_iff in H. destruct H as [H1 H2].
  rewrite H1. apply Z.ltb_lt in H2. cbn [andb]. apply Z.ltb_lt. lia.
Qed.

Theorem order_monitor_quiet st now t name max returned others w fz fr s :
  ids_unique st -> legal st now (Pull name max returned others w fz fr) ->
  find_live_sub st name = Some s -> s_ordered s = true -> order_inv st now (s_id s) -> now <= t ->
  overtaken st t (s_id s) (pulled_of (answer st now (Pull name max returned others w fz fr))) = [].
Proof.
  intros Hu Hl Hf Ho Hinv Hle. unfold overtaken.
  apply flat_map_nil'. intros p Hp.
  destruct (get_del st (p_ack p)) as [d|] eqn:Hg; [|reflexivity].
  unfold get_del in Hg. apply find_id_In in Hg. destruct Hg as [Hd Hid].
  destruct (filter _ (dels st)) as [|d0 r] eqn:Hfil; [reflexivity|exfalso].
  assert (Hin : In d0 (filter (fun d0 => N.eqb (d_sub d0) (s_id s) && N.eqb (d_sub d) (s_id s) && active t d0 &&
                                           (d_published d0 <? d_published d) && okey_eqb (key_of st d0) (key_of st d)) (dels st)))
    by (rewrite Hfil; left; reflexivity).
  apply filter_In in Hin. destruct Hin as [Hd0 Hc].
  repeat (apply andb_true_iff in Hc; let H := fresh "C" in destruct Hc as [Hc H]).
  apply N.eqb_eq in Hc. apply N.eqb_eq in C2. apply Z.ltb_lt in C0.
  destruct (okey_eqb_true _ _ C) as [k [K0 K]].
  assert (He : earlier_same_key st d0 d).
  { split; [congruence|]. split; [exists k; split; assumption|exact C0]. }
  pose proof (C05_no_overtake_step st now name max returned others w fz fr s p d d0 Hu Hl Hf Ho Hinv Hp Hd Hid Hd0 He) as Hn.
  rewrite (active_earlier now t d0 Hle C1) in Hn. discriminate.
Qed.

Print Assumptions order_inv_blocks.
Print Assumptions order_inv_step.
Print Assumptions C05_no_overtake_step.
Print Assumptions C05_no_overtake.
Print Assumptions C05_seek_revival_refuted.
Print Assumptions order_monitor_quiet.
