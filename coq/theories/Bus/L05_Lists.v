(* Bus/L05_Lists.v -- generic list / table lemmas used by the C05 proofs. *)
From MB Require Import Base.
From MB.Bus Require Import State.
Open Scope list_scope.

Lemma mem_id_In i l : mem_id i l = true <-> In i l.
Proof.
  unfold mem_id. rewrite existsb_exists. split.
  - intros [x [Hx He]]. apply N.eqb_eq in He. subst; exact Hx.
  - intros H. exists i. split; [exact H|apply N.eqb_refl].
Qed.

Lemma existsb_eqb_In i l : existsb (N.eqb i) l = true <-> In i l.
Proof. exact (mem_id_In i l). Qed.

Lemma ins_id_In x i l : In x (ins_id i l) -> x = i \/ In x l.
Proof.
  induction l as [|y l IH]; cbn [ins_id].
  - intros [H|[]]; left; auto.
  - destruct (i <? y)%N.
    + intros [H|H]; [left; auto|right; exact H].
    + destruct (N.eqb i y).
      * intros H; right; exact H.
      * intros [H|H]; [right; left; exact H|].
        destruct (IH H) as [H'|H']; [left; exact H'|right; right; exact H'].
Qed.

Lemma sort_ids_In x l : In x (sort_ids l) -> In x l.
Proof.
  unfold sort_ids. induction l as [|y l IH]; cbn [fold_right].
  - intros [].
  - intros H. apply ins_id_In in H. destruct H as [->|H]; [left; reflexivity|right; auto].
Qed.

Lemma filter_and {A} (a b : A -> bool) l :
  filter (fun x => a x && b x) l = filter b (filter a l).
Proof.
  induction l as [|x l IH]; cbn [filter]; [reflexivity|].
  destruct (a x); cbn [andb filter]; [destruct (b x)|]; rewrite IH; reflexivity.
Qed.

Lemma filter_map_comm {A} (p : A -> bool) (g : A -> A) l :
  (forall x, p (g x) = p x) -> filter p (map g l) = map g (filter p l).
Proof.
  intros H. induction l as [|x l IH]; cbn [filter map]; [reflexivity|].
  rewrite H. destruct (p x); cbn [map]; rewrite IH; reflexivity.
Qed.

Lemma filter_ext_in' {A} (p q : A -> bool) l :
  (forall x, In x l -> p x = q x) -> filter p l = filter q l.
Proof.
  induction l as [|x l IH]; intros H; cbn [filter]; [reflexivity|].
  rewrite (H x (or_introl eq_refl)). rewrite IH; [reflexivity|].
  intros y Hy. apply H. right; exact Hy.
Qed.

Lemma NoDup_map_filter {A B} (f : A -> B) (p : A -> bool) l :
  NoDup (map f l) -> NoDup (map f (filter p l)).
Proof.
  induction l as [|x l IH]; cbn [map filter]; intros H; [exact H|].
  inversion H as [|a b Hn Hd]; subst.
  destruct (p x); [|apply IH; exact Hd].
  cbn [map]. constructor; [|apply IH; exact Hd].
  intros Hi. apply Hn. apply in_map_iff in Hi. destruct Hi as [y [Hy Hi]].
  apply filter_In in Hi. apply in_map_iff. exists y. split; [exact Hy|apply Hi].
Qed.

Lemma NoDup_map_inj {A B} (f : A -> B) l a b :
  NoDup (map f l) -> In a l -> In b l -> f a = f b -> a = b.
Proof.
  induction l as [|x l IH]; cbn [map]; intros Hd Ha Hb He; [destruct Ha|].
  inversion Hd as [|y z Hn Hd']; subst.
  destruct Ha as [->|Ha], Hb as [->|Hb].
  - reflexivity.
  - exfalso. apply Hn. rewrite He. apply in_map. exact Hb.
  - exfalso. apply Hn. rewrite <- He. apply in_map. exact Ha.
  - apply IH; assumption.
Qed.

(* a flat_map of at-most-singletons that has full length found everything *)
Lemma flat_map_opt_length {A B} (g : A -> option B) l :
  (length (flat_map (fun i => match g i with Some d => [d] | None => [] end) l) <= length l)%nat.
Proof.
  induction l as [|x l IH]; cbn [flat_map length]; [lia|].
  rewrite app_length. destruct (g x); cbn [length]; lia.
Qed.

Lemma flat_map_opt_full {A B} (g : A -> option B) l :
  length (flat_map (fun i => match g i with Some d => [d] | None => [] end) l) = length l ->
  forall i, In i l -> exists d, g i = Some d.
Proof.
  induction l as [|x l IH]; cbn [flat_map length]; intros H i Hi; [destruct Hi|].
  rewrite app_length in H.
  pose proof (flat_map_opt_length g l) as Hle.
  destruct (g x) eqn:Hg; cbn [length] in H.
  - destruct Hi as [->|Hi]; [eexists; exact Hg|].
    apply IH; [lia|exact Hi].
  - exfalso. lia.
Qed.

Lemma flat_map_opt_In {A B} (g : A -> option B) l d :
  In d (flat_map (fun i => match g i with Some d => [d] | None => [] end) l) ->
  exists i, In i l /\ g i = Some d.
Proof.
  intros H. apply in_flat_map in H. destruct H as [i [Hi Hd]].
  exists i. split; [exact Hi|]. destruct (g i); [|destruct Hd].
  destruct Hd as [->|[]]. reflexivity.
Qed.

Section TableLemmas.
  Context {R : Type} (key : R -> id).

  Lemma find_id_In i l r : find_id key i l = Some r -> In r l /\ key r = i.
  Proof.
    induction l as [|x l IH]; cbn [find_id]; [discriminate|].
    destruct (N.eqb (key x) i) eqn:E.
    - intros H; injection H as <-. apply N.eqb_eq in E. split; [left; reflexivity|exact E].
    - intros H. destruct (IH H) as [H1 H2]. split; [right; exact H1|exact H2].
  Qed.

  Lemma find_id_None i l : find_id key i l = None -> forall r, In r l -> key r <> i.
  Proof.
    induction l as [|x l IH]; cbn [find_id]; intros H r Hr; [destruct Hr|].
    destruct (N.eqb (key x) i) eqn:E; [discriminate|].
    destruct Hr as [<-|Hr]; [apply N.eqb_neq; exact E|apply IH; assumption].
  Qed.

  Lemma find_id_unique l r :
    NoDup (map key l) -> In r l -> find_id key (key r) l = Some r.
  Proof.
    induction l as [|x l IH]; cbn [map find_id]; intros Hd Hr; [destruct Hr|].
    inversion Hd as [|a b Hn Hd']; subst.
    destruct (N.eqb (key x) (key r)) eqn:E.
    - apply N.eqb_eq in E. destruct Hr as [->|Hr]; [reflexivity|].
      exfalso. apply Hn. rewrite E. apply in_map. exact Hr.
    - destruct Hr as [->|Hr]; [rewrite N.eqb_refl in E; discriminate|].
      apply IH; assumption.
  Qed.

  Lemma find_id_some_in i l r :
    NoDup (map key l) -> In r l -> key r = i -> find_id key i l = Some r.
  Proof. intros Hd Hr <-. apply find_id_unique; assumption. Qed.

  Lemma has_id_false i l : has_id key i l = false -> forall r, In r l -> key r <> i.
  Proof.
    unfold has_id. destruct (find_id key i l) eqn:E; [discriminate|].
    intros _. apply find_id_None. exact E.
  Qed.

  Lemma has_id_true_ex i l : has_id key i l = true -> exists r, find_id key i l = Some r.
  Proof. unfold has_id. destruct (find_id key i l); [eexists; reflexivity|discriminate]. Qed.

  Lemma find_id_map (g : R -> R) i l :
    (forall r, In r l -> key (g r) = key r) ->
    find_id key i (map g l) = option_map g (find_id key i l).
  Proof.
    induction l as [|x l IH]; cbn [map find_id]; intros H; [reflexivity|].
    rewrite (H x (or_introl eq_refl)).
    destruct (N.eqb (key x) i); [reflexivity|].
    apply IH. intros r Hr. apply H. right; exact Hr.
  Qed.

  Lemma find_id_upd_where (p : R -> bool) (f : R -> R) i l :
    (forall r, In r l -> p r = true -> key (f r) = key r) ->
    find_id key i (upd_where p f l) =
    option_map (fun r => if p r then f r else r) (find_id key i l).
  Proof.
    intros H. unfold upd_where. apply find_id_map.
    intros r Hr. destruct (p r) eqn:E; [apply H; assumption|reflexivity].
  Qed.

  Lemma in_ins x r l : In x (ins key r l) <-> x = r \/ In x l.
  Proof.
    induction l as [|y l IH]; cbn [ins].
    - cbn. intuition.
    - destruct (key r <? key y)%N.
      + cbn. intuition.
      + cbn [In]. rewrite IH. intuition.
  Qed.

  Lemma find_id_ins_other i r l :
    key r <> i -> find_id key i (ins key r l) = find_id key i l.
  Proof.
    intros Hn. induction l as [|y l IH]; cbn [ins find_id].
    - apply N.eqb_neq in Hn. rewrite Hn. reflexivity.
    - destruct (key r <? key y)%N; cbn [find_id].
      + apply N.eqb_neq in Hn. rewrite Hn. reflexivity.
      + rewrite IH. reflexivity.
  Qed.

  Lemma find_id_ins_same r l :
    find_id key (key r) l = None -> find_id key (key r) (ins key r l) = Some r.
  Proof.
    induction l as [|y l IH]; cbn [ins find_id].
    - intros _. rewrite N.eqb_refl. reflexivity.
    - destruct (N.eqb (key y) (key r)) eqn:E; [discriminate|]. intros H.
      destruct (key r <? key y)%N; cbn [find_id].
      + rewrite N.eqb_refl. reflexivity.
      + rewrite E. apply IH. exact H.
  Qed.

  Lemma filter_ins_other (p : R -> bool) r l :
    p r = false -> filter p (ins key r l) = filter p l.
  Proof.
    intros Hp. induction l as [|y l IH]; cbn [ins filter].
    - rewrite Hp. reflexivity.
    - destruct (key r <? key y)%N; cbn [filter].
      + rewrite Hp. reflexivity.
      + rewrite IH. reflexivity.
  Qed.

  Lemma find_id_filter_keep (p : R -> bool) i l r :
    find_id key i l = Some r -> p r = true -> find_id key i (filter p l) = Some r.
  Proof.
    induction l as [|x l IH]; cbn [find_id filter]; [discriminate|].
    destruct (N.eqb (key x) i) eqn:E.
    - intros H Hp; injection H as ->. rewrite Hp. cbn [find_id]. rewrite E. reflexivity.
    - intros H Hp. destruct (p x); cbn [find_id]; [rewrite E|]; apply IH; assumption.
  Qed.

  Lemma find_id_filter_none (p : R -> bool) i l :
    find_id key i l = None -> find_id key i (filter p l) = None.
  Proof.
    induction l as [|x l IH]; cbn [find_id filter]; [reflexivity|].
    destruct (N.eqb (key x) i) eqn:E; [discriminate|].
    intros H. destruct (p x); cbn [find_id]; [rewrite E|]; apply IH; assumption.
  Qed.

  Lemma find_id_filter_some (p : R -> bool) i l r :
    NoDup (map key l) -> find_id key i (filter p l) = Some r -> find_id key i l = Some r.
  Proof.
    intros Hd H. apply find_id_In in H. destruct H as [Hi Hk].
    apply filter_In in Hi. destruct Hi as [Hi _].
    apply find_id_some_in; assumption.
  Qed.

  Lemma in_del_ids ids x l :
    In x (del_ids key ids l) <-> In x l /\ ~ In (key x) ids.
  Proof.
    unfold del_ids. rewrite filter_In. split; intros [H1 H2]; split; try exact H1.
    - intros Hi. apply existsb_eqb_In in Hi. rewrite Hi in H2. discriminate.
    - destruct (existsb (N.eqb (key x)) ids) eqn:E; [|reflexivity].
      exfalso. apply H2. apply existsb_eqb_In. exact E.
  Qed.
End TableLemmas.
